package c13

import (
	"fmt"
	"math/rand"
	"os"
	"path/filepath"
	"strings"

	"github.com/lindb/lindb/config"
	"github.com/lindb/lindb/models"
	"github.com/lindb/lindb/pkg/timeutil"
	"github.com/lindb/lindb/tsdb"

	"github.com/lindb/lindb/zzverif/internal/core"
)

// ladderCase: interval ladders of 1..4 intervals in random order, including ladders with two
// intervals of one type (adjacent or not) and the empty ladder.
//
//	validate | ...   DatabaseOption.Validate() must accept exactly the non-empty ladders whose
//	                 interval types are pairwise distinct (key ladder-validate)
//	segdir <i>       accepted ladders: the interval segment directories are pairwise distinct
//	                 (key ladder-segment-dir-shared)
//	plan / resolve   accepted ladders: the storage interval the real planner picks is the interval
//	                 the storage resolves its type to; on a real shard (every 3rd accepted ladder)
//	                 the families Shard.GetDataFamilies(type of the planner's interval) returns have
//	                 that interval (key ladder-storage-interval-mismatch)
func ladderCase(c *core.Ctx, r *rand.Rand) {
	for j := 0; j < 10; j++ {
		n := r.Intn(5)
		if n == 0 && r.Intn(4) > 0 {
			n = 3
		}
		var ivs []int64
		for len(ivs) < n {
			k := calcs[r.Intn(len(calcs))]
			ivs = append(ivs, k.intervals[r.Intn(len(k.intervals))])
		}
		if n >= 3 && r.Intn(3) == 0 { // two intervals of one type, not adjacent
			k := calcs[r.Intn(len(calcs))]
			o := calcs[(r.Intn(2)+1+indexOfCalc(k))%len(calcs)]
			ivs[0], ivs[1], ivs[2] = k.intervals[0], o.intervals[r.Intn(len(o.intervals))], k.intervals[1+r.Intn(len(k.intervals)-1)]
			c.Branch("ladder/same-type-not-adjacent")
		}
		types := map[timeutil.IntervalType]int{}
		for _, v := range ivs {
			types[timeutil.Interval(v).Type()]++
		}
		distinct := len(types) == len(ivs)
		opt := mkOption(ivs)
		accepted := false
		guarded(c, "validate | "+joinInts(ivs), false, func() string {
			err := opt.Validate()
			res := "ok"
			switch {
			case err == nil:
				accepted = true
			case strings.Contains(err.Error(), "cannot be empty"):
				res = "empty"
			case strings.Contains(err.Error(), "duplicate interval type"):
				res = "duplicate"
			default:
				res = "error"
			}
			if accepted != (len(ivs) > 0 && distinct) {
				c.Fail("ladder-validate", fmt.Sprintf("DatabaseOption.Validate() on intervals %v (types pairwise distinct: %v) = %v", ivs, distinct, err))
			}
			c.Branch("ladder/validate-" + res)
			return res
		})
		if !accepted {
			continue
		}
		c.NonTrivial()
		dirs := map[string]int64{}
		for _, v := range ivs {
			v := v
			guarded(c, fmt.Sprintf("segdir %d", v), false, func() string {
				d := tsdb.ShardIntervalSegmentPath("db", models.ShardID(1), timeutil.Interval(v))
				if o, ok := dirs[d]; ok && o != v {
					c.Fail("ladder-segment-dir-shared", fmt.Sprintf("accepted ladder %v: intervals %d and %d share the segment directory %s", ivs, o, v, filepath.Base(d)))
				}
				dirs[d] = v
				return filepath.Base(d)
			})
		}
		// planner on this ladder + how the storage resolves the chosen interval's type
		start := randTimestamp(r)
		qi := stdIntervals[r.Intn(len(stdIntervals))]
		if r.Intn(2) == 0 {
			qi = ivs[r.Intn(len(ivs))]
		}
		_, _, st, ok := opPlan(c, qi, start, start+r.Int63n(50*min), false, ivs)
		if !ok {
			continue
		}
		guarded(c, fmt.Sprintf("resolve %d | %s", st, joinInts(ivs)), false, func() string {
			// the ladder's first interval with the storage interval's type (valid ladder: the only one)
			for _, v := range ivs {
				if timeutil.Interval(v).Type() == timeutil.Interval(st).Type() {
					if v != st {
						c.Fail("ladder-storage-interval-mismatch", fmt.Sprintf("ladder %v: planner storage interval %d, its type resolves to interval %d", ivs, st, v))
					}
					return fmt.Sprint(v)
				}
			}
			return "none"
		})
		if j%3 == 0 {
			ladderShard(c, ivs, st, start)
		}
	}
}

func indexOfCalc(k calcT) int {
	for i := range calcs {
		if calcs[i].name == k.name {
			return i
		}
	}
	return 0
}

// ladderShard creates a real shard for the accepted ladder (the storage validates the option once
// more in the order given), writes one timestamp and asks for the families of the planner's storage
// interval type around it: every family returned must have the planner's storage interval.
func ladderShard(c *core.Ctx, ivs []int64, st, t int64) {
	dir, err := os.MkdirTemp("", "lvh-c13-*")
	if err != nil {
		return
	}
	defer os.RemoveAll(dir)
	cfg := config.NewDefaultStorageBase()
	cfg.TSDB.Dir = dir
	config.SetGlobalStorageConfig(cfg)
	engine, err := tsdb.NewEngine()
	if err != nil {
		return
	}
	defer engine.Close()
	if err := engine.CreateShards("db", mkOption(ivs), models.ShardID(1)); err != nil {
		c.Fail("ladder-engine-rejects-valid-option", fmt.Sprintf("ladder %v passed Validate but CreateShards failed: %v", ivs, err))
		return
	}
	shard, ok := engine.GetShard("db", models.ShardID(1))
	if !ok {
		return
	}
	c.Branch("ladder/real-shard")
	if _, err := shard.GetOrCrateDataFamily(t); err != nil {
		c.Note("ladder shard write: " + err.Error())
		return
	}
	fams := shard.GetDataFamilies(timeutil.Interval(st).Type(), timeutil.TimeRange{Start: t - hour, End: t + hour})
	for _, f := range fams {
		if f.Interval().Int64() != st {
			c.Fail("ladder-storage-interval-mismatch", fmt.Sprintf("ladder %v: planner storage interval %d (type %s), Shard.GetDataFamilies(%s) returned a family of interval %d",
				ivs, st, timeutil.Interval(st).Type(), timeutil.Interval(st).Type(), f.Interval().Int64()))
		}
	}
	if len(fams) > 0 {
		c.Branch("ladder/real-shard-families-of-planner-interval")
	}
}

// textCase: Interval.String / Interval.ValueOf (diffed; round trip judged for positive whole
// seconds) and CalcTimeWindows (diffed).
func textCase(c *core.Ctx, r *rand.Rand) {
	units := []struct {
		s string
		v int64
	}{{"s", sec}, {"S", sec}, {"m", min}, {"h", hour}, {"H", hour}, {"d", day}, {"D", day}, {"M", month}, {"y", 365 * day}, {"Y", 365 * day}}
	for j := 0; j < 12; j++ {
		var v int64
		switch r.Intn(4) {
		case 0:
			v = stdIntervals[r.Intn(len(stdIntervals))]
		case 1:
			u := units[r.Intn(len(units))]
			v = u.v * int64(1+r.Intn(400))
		case 2:
			v = 1000 * (1 + r.Int63n(40*365*86400))
		default:
			v = r.Int63n(4*day) - hour // not whole seconds, zero, negative: correspondence only
		}
		var str string
		guarded(c, fmt.Sprintf("istr %d", v), false, func() string {
			str = timeutil.Interval(v).String()
			if v > 0 && v%1000 == 0 {
				var back timeutil.Interval
				if err := back.ValueOf(str); err != nil || back.Int64() != v {
					c.Fail("interval-text-roundtrip", fmt.Sprintf("Interval(%d).String()=%q, ValueOf gives %d, %v", v, str, back.Int64(), err))
				}
			}
			return str
		})
		// ValueOf on generated texts: well-formed, blanks, signs, bad suffix, empty number
		u := units[r.Intn(len(units))]
		n := r.Intn(5000)
		txt := fmt.Sprintf("%d%s", n, u.s)
		switch r.Intn(8) {
		case 0:
			txt = fmt.Sprintf(" %d %s", n, u.s)
		case 1:
			txt = fmt.Sprintf("-%d%s", n, u.s)
		case 2:
			txt = fmt.Sprintf("+%d%s", n, u.s)
		case 3:
			txt = fmt.Sprintf("%dx", n)
		case 4:
			txt = u.s
		case 5:
			txt = fmt.Sprintf("%d.5%s", n, u.s)
		}
		guarded(c, "ival "+strings.ReplaceAll(txt, " ", "_"), false, func() string {
			var iv timeutil.Interval
			if err := iv.ValueOf(txt); err != nil {
				return "err"
			}
			return fmt.Sprint(iv.Int64())
		})
		k := calcs[r.Intn(len(calcs))]
		a := randTimestamp(r)
		b := a + r.Int63n(400*day)
		if r.Intn(6) == 0 {
			a, b = b, a
		}
		guarded(c, fmt.Sprintf("windows %s %d %d", k.name, a, b), false, func() string {
			w := k.calc.CalcTimeWindows(a, b)
			if a <= b && k.name != "year" {
				// number of families the range touches
				n := 0
				for t := k.calc.CalcFamilyTime(a); t <= b && n < 20000; t = k.calc.CalcFamilyEndTime(t) + 1 {
					n++
				}
				if n < 20000 && n != w {
					c.Fail("time-windows/"+k.name, fmt.Sprintf("CalcTimeWindows(%d,%d)=%d, the range touches %d families", a, b, w, n))
				}
			}
			return fmt.Sprint(w)
		})
	}
}
