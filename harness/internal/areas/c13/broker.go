package c13

import (
	"fmt"
	"math/rand"
	"sort"
	"strconv"
	"strings"

	jump "github.com/lithammer/go-jump-consistent-hash"

	"github.com/lindb/common/proto/gen/v1/flatMetricsV1"
	commonseries "github.com/lindb/common/series"

	"github.com/lindb/lindb/pkg/timeutil"
	"github.com/lindb/lindb/series/metric"

	"github.com/lindb/lindb/zzverif/internal/core"
)

// brokerCase plays a broker that serves several databases with DIFFERENT interval types through
// the one sync.Pool of BrokerBatchRows: a sequence of write requests, each taking a batch from the
// pool (metric.NewBrokerBatchRows), decoding rows, grouping them by shard and family
// (NewShardGroupIterator(1) / FamilyRowsForNextShard(interval) / HasNextFamily / NextFamily) and
// releasing the batch. Timestamps of consecutive requests stay close to one anchor so that a row of
// the next request (other interval type) falls inside the family range of the previous request.
// Each request is one `batch` op (groups canonicalised) and is checked against C13: every row is
// handed out under the family of ITS database's interval type that contains its timestamp, and no
// row is lost.
func brokerCase(c *core.Ctx, r *rand.Rand) {
	anchor := randTimestamp(r)
	var prev *metric.BrokerBatchRows
	last := -1
	var poolOps, poolOuts []string
	defer func() {
		// the whole request sequence once more as ONE op of the stateful iterator model (one model
		// iterator object serves all requests, as the pooled batch does)
		c.Op("bpool "+strings.Join(poolOps, " | "), strings.Join(poolOuts, " | "))
		if r.Intn(2) == 0 {
			biterCase(c, r, anchor)
		} else {
			bshardCase(c, r, anchor)
		}
	}()
	for req := 0; req < 8; req++ {
		ki := r.Intn(len(calcs))
		if ki == last && r.Intn(4) > 0 { // mostly switch the interval type between requests
			ki = (ki + 1 + r.Intn(2)) % len(calcs)
		}
		last = ki
		k := calcs[ki]
		iv := k.intervals[r.Intn(len(k.intervals))]
		n := 1 + r.Intn(6)
		var ts []int64
		for j := 0; j < n; j++ {
			var d int64
			switch r.Intn(4) {
			case 0:
				d = r.Int63n(2*hour) - hour
			case 1:
				d = r.Int63n(20*min) - 10*min
			case 2:
				d = r.Int63n(3*day) - 36*hour
			default:
				d = r.Int63n(70*day) - 35*day
			}
			t := clampTS(anchor + d)
			if t < 1000 { // the row builder replaces a zero timestamp by the current time
				t = 1000 + r.Int63n(hour)
			}
			ts = append(ts, t)
		}
		batch := metric.NewBrokerBatchRows()
		if prev != nil && batch == prev {
			c.Branch("broker/pooled-batch-reused")
		}
		prev = batch
		c.Branch("broker/request-" + k.name)
		poolOps = append(poolOps, k.name+" "+joinInts(ts))
		poolOuts = append(poolOuts, opBatch(c, batch, k, iv, ts))
		batch.Release()
	}
}

// brokerTimestamps: n row timestamps around the anchor (same family / neighbouring hour, day, month)
func brokerTimestamps(r *rand.Rand, anchor int64, n int) []int64 {
	var ts []int64
	for j := 0; j < n; j++ {
		var d int64
		switch r.Intn(4) {
		case 0:
			d = r.Int63n(2*hour) - hour
		case 1:
			d = r.Int63n(20*min) - 10*min
		case 2:
			d = r.Int63n(3*day) - 36*hour
		default:
			d = r.Int63n(70*day) - 35*day
		}
		t := clampTS(anchor + d)
		if t < 1000 {
			t = 1000 + r.Int63n(hour)
		}
		ts = append(ts, t)
	}
	return ts
}

// biterCase: ONE batch, not released, iterated once per interval type of a list (2..4 iterations, the
// interval type changes between iterations): the family iterator of the batch is reset on rows that the
// previous iteration sorted in place and with whatever the previous iteration left in its fields.
func biterCase(c *core.Ctx, r *rand.Rand, anchor int64) {
	ts := brokerTimestamps(r, anchor, 1+r.Intn(6))
	m := 2 + r.Intn(3)
	var ks []calcT
	var ivs []int64
	var names []string
	last := -1
	for i := 0; i < m; i++ {
		ki := r.Intn(len(calcs))
		if ki == last {
			ki = (ki + 1 + r.Intn(2)) % len(calcs)
		}
		last = ki
		ks = append(ks, calcs[ki])
		ivs = append(ivs, calcs[ki].intervals[r.Intn(len(calcs[ki].intervals))])
		names = append(names, calcs[ki].name)
	}
	op := fmt.Sprintf("biter %s | %s", joinInts(ts), strings.Join(names, " "))
	c.Branch("broker/same-batch-iterated-again")
	guarded(c, op, false, func() string {
		batch := metric.NewBrokerBatchRows()
		defer batch.Release()
		for _, t := range ts {
			t := t
			if err := batch.TryAppend(func(row *metric.BrokerRow) error { return buildRow(row, t) }); err != nil {
				return "error " + err.Error()
			}
		}
		var outs []string
		for i := range ks {
			itr := batch.NewShardGroupIterator(1)
			var parts []famGroup
			out := 0
			for itr.HasRowsForNextShard() {
				_, fitr := itr.FamilyRowsForNextShard(timeutil.Interval(ivs[i]))
				g, n := drainFamilies(c, fitr, ks[i], ivs[i], op)
				out += n
				parts = append(parts, g...)
			}
			if out != len(ts) {
				c.Fail("broker-rows-lost/"+ks[i].name, fmt.Sprintf("%s iteration %d: %d rows in, %d rows out", op, i, len(ts), out))
			}
			outs = append(outs, showGroups(parts))
		}
		return strings.Join(outs, " | ")
	})
}

func buildRowTag(row *metric.BrokerRow, timestamp int64, tag string) error {
	builder, releaseFunc := commonseries.NewRowBuilder()
	defer releaseFunc(builder)
	builder.AddMetricName([]byte("c13"))
	_ = builder.AddTag([]byte("host"), []byte(tag))
	_ = builder.AddSimpleField([]byte("f1"), flatMetricsV1.SimpleFieldTypeDeltaSum, 1)
	builder.AddTimestamp(timestamp)
	data, err := builder.Build()
	if err != nil {
		return err
	}
	row.FromBlock(data)
	return nil
}

// bshardCase: one batch whose rows hash to several shards (2..4 shards, series distinguished by a tag):
// the batch's ONE family iterator is reset once per shard group on a sub-slice of the batch. The shard
// index of a row (jump.Hash of the series hash: external) is computed here with the same call and is
// part of the op; the family grouping per shard group is diffed and judged.
func bshardCase(c *core.Ctx, r *rand.Rand, anchor int64) {
	n := 2 + r.Intn(3)
	ki := r.Intn(len(calcs))
	k := calcs[ki]
	iv := k.intervals[r.Intn(len(k.intervals))]
	ts := brokerTimestamps(r, anchor, 2+r.Intn(8))
	tags := make([]string, len(ts))
	var pairs []string
	for i, t := range ts {
		tags[i] = "h" + strconv.Itoa(r.Intn(6))
		var row metric.BrokerRow
		if err := buildRowTag(&row, t, tags[i]); err != nil {
			return
		}
		m := row.Metric()
		pairs = append(pairs, fmt.Sprintf("%d %d", jump.Hash(m.KvsHash(), int32(n)), t))
	}
	op := fmt.Sprintf("bshard %s | %s", k.name, strings.Join(pairs, " "))
	guarded(c, op, false, func() string {
		batch := metric.NewBrokerBatchRows()
		defer batch.Release()
		for i, t := range ts {
			t, tag := t, tags[i]
			if err := batch.TryAppend(func(row *metric.BrokerRow) error { return buildRowTag(row, t, tag) }); err != nil {
				return "error " + err.Error()
			}
		}
		var outs []string
		out := 0
		itr := batch.NewShardGroupIterator(int32(n))
		for itr.HasRowsForNextShard() {
			shardIdx, fitr := itr.FamilyRowsForNextShard(timeutil.Interval(iv))
			g, cnt := drainFamilies(c, fitr, k, iv, op)
			out += cnt
			outs = append(outs, fmt.Sprintf("%d=%s", shardIdx, showGroups(g)))
		}
		if out != len(ts) {
			c.Fail("broker-rows-lost/"+k.name, fmt.Sprintf("%s: %d rows in, %d rows out", op, len(ts), out))
		}
		if len(outs) > 1 {
			c.Branch("broker/several-shard-groups")
		} else {
			c.Branch("broker/one-shard-group")
		}
		return strings.Join(outs, " | ")
	})
}

type famGroup struct {
	family int64
	rows   []int64
}

// drainFamilies runs the caller's loop HasNextFamily/NextFamily on the real iterator and judges every
// row handed out: its family (of interval iv's calculator) must be the group's family time and contain it.
func drainFamilies(c *core.Ctx, fitr *metric.BrokerBatchShardFamilyIterator, k calcT, iv int64, op string) (groups []famGroup, out int) {
	calc := timeutil.Interval(iv).Calculator()
	for fitr.HasNextFamily() {
		familyTime, rows := fitr.NextFamily()
		g := famGroup{family: familyTime}
		for i := range rows {
			m := rows[i].Metric()
			t := m.Timestamp()
			out++
			g.rows = append(g.rows, t)
			if t >= 0 {
				want := calc.CalcFamilyTime(t)
				if familyTime != want || t < familyTime || t > calc.CalcFamilyEndTime(familyTime) {
					c.Fail("broker-family/"+k.name, fmt.Sprintf("%s (interval %d, %s type): row t=%d handed out under family %d, its family is %d", op, iv, k.name, t, familyTime, want))
				}
			}
		}
		sort.Slice(g.rows, func(a, b int) bool { return g.rows[a] < g.rows[b] })
		groups = append(groups, g)
	}
	return groups, out
}

// showGroups: canonical text of family groups (sorted by family, then first row), `none` if empty
func showGroups(groups []famGroup) string {
	if len(groups) == 0 {
		return "none"
	}
	sort.Slice(groups, func(a, b int) bool {
		if groups[a].family != groups[b].family {
			return groups[a].family < groups[b].family
		}
		return groups[a].rows[0] < groups[b].rows[0]
	})
	var parts []string
	for _, g := range groups {
		rs := make([]string, len(g.rows))
		for i, t := range g.rows {
			rs[i] = strconv.FormatInt(t, 10)
		}
		parts = append(parts, fmt.Sprintf("%d:%s", g.family, strings.Join(rs, ",")))
	}
	return strings.Join(parts, " ")
}

func buildRow(row *metric.BrokerRow, timestamp int64) error {
	builder, releaseFunc := commonseries.NewRowBuilder()
	defer releaseFunc(builder)
	builder.AddMetricName([]byte("c13"))
	_ = builder.AddTag([]byte("host"), []byte("a"))
	_ = builder.AddSimpleField([]byte("f1"), flatMetricsV1.SimpleFieldTypeDeltaSum, 1)
	builder.AddTimestamp(timestamp)
	data, err := builder.Build()
	if err != nil {
		return err
	}
	row.FromBlock(data)
	return nil
}

func opBatch(c *core.Ctx, batch *metric.BrokerBatchRows, k calcT, iv int64, ts []int64) (result string) {
	op := fmt.Sprintf("batch %s %s", k.name, joinInts(ts))
	guarded(c, op, false, func() (res string) {
		defer func() { result = res }()
		for _, t := range ts {
			t := t
			if err := batch.TryAppend(func(row *metric.BrokerRow) error { return buildRow(row, t) }); err != nil {
				return "error " + err.Error()
			}
		}
		type group struct {
			family int64
			rows   []int64
		}
		var groups []group
		out := 0
		interval := timeutil.Interval(iv)
		calc := interval.Calculator()
		itr := batch.NewShardGroupIterator(1)
		for itr.HasRowsForNextShard() {
			_, fitr := itr.FamilyRowsForNextShard(interval)
			for fitr.HasNextFamily() {
				familyTime, rows := fitr.NextFamily()
				g := group{family: familyTime}
				for i := range rows {
					m := rows[i].Metric()
					t := m.Timestamp()
					out++
					g.rows = append(g.rows, t)
					if t >= 0 {
						want := calc.CalcFamilyTime(t)
						if familyTime != want || t < familyTime || t > calc.CalcFamilyEndTime(familyTime) {
							c.Fail("broker-family/"+k.name, fmt.Sprintf("%s (interval %d, %s type): row t=%d handed out under family %d, its family is %d", op, iv, k.name, t, familyTime, want))
						}
					}
				}
				sort.Slice(g.rows, func(a, b int) bool { return g.rows[a] < g.rows[b] })
				groups = append(groups, g)
			}
		}
		if out != len(ts) {
			c.Fail("broker-rows-lost/"+k.name, fmt.Sprintf("%s: %d rows in, %d rows out", op, len(ts), out))
		}
		if len(groups) > 1 {
			c.Branch("broker/several-families")
		} else {
			c.Branch("broker/one-family")
		}
		if len(groups) == 0 {
			return "none"
		}
		sort.Slice(groups, func(a, b int) bool {
			if groups[a].family != groups[b].family {
				return groups[a].family < groups[b].family
			}
			return groups[a].rows[0] < groups[b].rows[0]
		})
		var parts []string
		for _, g := range groups {
			rs := make([]string, len(g.rows))
			for i, t := range g.rows {
				rs[i] = strconv.FormatInt(t, 10)
			}
			parts = append(parts, fmt.Sprintf("%d:%s", g.family, strings.Join(rs, ",")))
		}
		return strings.Join(parts, " ")
	})
	return result
}

var _ = rand.Int
