package c13

import (
	"fmt"
	"math/rand"
	"sort"
	"strconv"
	"strings"

	"github.com/lindb/common/proto/gen/v1/flatMetricsV1"
	commonseries "github.com/lindb/common/series"

	"github.com/lindb/lindb/pkg/timeutil"
	"github.com/lindb/lindb/series/metric"

	"github.com/lindb/lindb/zzverif/internal/core"
)

// brokerCase plays a broker that serves several databases with DIFFERENT interval types through
// the one sync.Pool of BrokerBatchRows: a sequence of write requests, each taking a batch from the
// pool (metric.NewBrokerBatchRows), decoding rows, grouping them by shard and family
// (NewShardGroupIterator(1) / FamilyRowsForNextShard(interval) / HasNextFamily / NextFamily) and
// releasing the batch. Timestamps of consecutive requests stay close to one anchor so that a row of
// the next request (other interval type) falls inside the family range of the previous request.
// Each request is one `batch` op (groups canonicalised) and is checked against C13: every row is
// handed out under the family of ITS database's interval type that contains its timestamp, and no
// row is lost.
func brokerCase(c *core.Ctx, r *rand.Rand) {
	anchor := randTimestamp(r)
	var prev *metric.BrokerBatchRows
	last := -1
	for req := 0; req < 8; req++ {
		ki := r.Intn(len(calcs))
		if ki == last && r.Intn(4) > 0 { // mostly switch the interval type between requests
			ki = (ki + 1 + r.Intn(2)) % len(calcs)
		}
		last = ki
		k := calcs[ki]
		iv := k.intervals[r.Intn(len(k.intervals))]
		n := 1 + r.Intn(6)
		var ts []int64
		for j := 0; j < n; j++ {
			var d int64
			switch r.Intn(4) {
			case 0:
				d = r.Int63n(2*hour) - hour
			case 1:
				d = r.Int63n(20*min) - 10*min
			case 2:
				d = r.Int63n(3*day) - 36*hour
			default:
				d = r.Int63n(70*day) - 35*day
			}
			t := clampTS(anchor + d)
			if t < 1000 { // the row builder replaces a zero timestamp by the current time
				t = 1000 + r.Int63n(hour)
			}
			ts = append(ts, t)
		}
		batch := metric.NewBrokerBatchRows()
		if prev != nil && batch == prev {
			c.Branch("broker/pooled-batch-reused")
		}
		prev = batch
		c.Branch("broker/request-" + k.name)
		opBatch(c, batch, k, iv, ts)
		batch.Release()
	}
}

func buildRow(row *metric.BrokerRow, timestamp int64) error {
	builder, releaseFunc := commonseries.NewRowBuilder()
	defer releaseFunc(builder)
	builder.AddMetricName([]byte("c13"))
	_ = builder.AddTag([]byte("host"), []byte("a"))
	_ = builder.AddSimpleField([]byte("f1"), flatMetricsV1.SimpleFieldTypeDeltaSum, 1)
	builder.AddTimestamp(timestamp)
	data, err := builder.Build()
	if err != nil {
		return err
	}
	row.FromBlock(data)
	return nil
}

func opBatch(c *core.Ctx, batch *metric.BrokerBatchRows, k calcT, iv int64, ts []int64) {
	op := fmt.Sprintf("batch %s %s", k.name, joinInts(ts))
	guarded(c, op, false, func() string {
		for _, t := range ts {
			t := t
			if err := batch.TryAppend(func(row *metric.BrokerRow) error { return buildRow(row, t) }); err != nil {
				return "error " + err.Error()
			}
		}
		type group struct {
			family int64
			rows   []int64
		}
		var groups []group
		out := 0
		interval := timeutil.Interval(iv)
		calc := interval.Calculator()
		itr := batch.NewShardGroupIterator(1)
		for itr.HasRowsForNextShard() {
			_, fitr := itr.FamilyRowsForNextShard(interval)
			for fitr.HasNextFamily() {
				familyTime, rows := fitr.NextFamily()
				g := group{family: familyTime}
				for i := range rows {
					m := rows[i].Metric()
					t := m.Timestamp()
					out++
					g.rows = append(g.rows, t)
					if t >= 0 {
						want := calc.CalcFamilyTime(t)
						if familyTime != want || t < familyTime || t > calc.CalcFamilyEndTime(familyTime) {
							c.Fail("broker-family/"+k.name, fmt.Sprintf("%s (interval %d, %s type): row t=%d handed out under family %d, its family is %d", op, iv, k.name, t, familyTime, want))
						}
					}
				}
				sort.Slice(g.rows, func(a, b int) bool { return g.rows[a] < g.rows[b] })
				groups = append(groups, g)
			}
		}
		if out != len(ts) {
			c.Fail("broker-rows-lost/"+k.name, fmt.Sprintf("%s: %d rows in, %d rows out", op, len(ts), out))
		}
		if len(groups) > 1 {
			c.Branch("broker/several-families")
		} else {
			c.Branch("broker/one-family")
		}
		if len(groups) == 0 {
			return "none"
		}
		sort.Slice(groups, func(a, b int) bool {
			if groups[a].family != groups[b].family {
				return groups[a].family < groups[b].family
			}
			return groups[a].rows[0] < groups[b].rows[0]
		})
		var parts []string
		for _, g := range groups {
			rs := make([]string, len(g.rows))
			for i, t := range g.rows {
				rs[i] = strconv.FormatInt(t, 10)
			}
			parts = append(parts, fmt.Sprintf("%d:%s", g.family, strings.Join(rs, ",")))
		}
		return strings.Join(parts, " ")
	})
}

var _ = rand.Int
