package c13

import (
	"fmt"
	"math/rand"
	"os"
	"runtime"
	"strconv"
	"strings"
	"sync"
	"time"

	"github.com/lindb/lindb/config"
	"github.com/lindb/lindb/internal/verifhook"
	"github.com/lindb/lindb/models"
	"github.com/lindb/lindb/pkg/option"
	"github.com/lindb/lindb/pkg/timeutil"
	"github.com/lindb/lindb/tsdb"

	"github.com/lindb/lindb/zzverif/internal/core"
)

// Schedule-controlled writers on a real shard: "every timestamp belongs to exactly one segment and
// one family" at the level of the live objects. N goroutines call Shard.GetOrCrateDataFamily for
// timestamps of not-yet-opened segments; a deterministic scheduler lets exactly one of them run at
// a time, from one scheduling point to the next, in the order the case's schedule says (the model:
// Model/GetOrCreate.lean, theorem Props.C13.family_object_unique over every schedule).
//
// Scheduling points are the places where the code can be pre-empted WITHOUT holding the mutex of
// the map it is about to read or write: the constructor seams newSegmentFunc / newDataFamilyFunc
// (before and after the real constructor) and the yield point between the two levels in
// shard.GetOrCrateDataFamily. Whether a point is inside a critical section is not assumed but
// probed on the running code (TryLock by the thread that stands at the point): in the code as it is
// both constructors run under the lock, so the only scheduling point of a writer is the yield
// between the levels; a get-or-create that opens the object outside the lock gets the extra points
// and the schedule drives several writers through them.

type gocThread struct {
	t       int64
	resume  chan struct{}
	parked  chan string
	started bool
	done    bool
	fam     tsdb.DataFamily
}

type gocSched struct {
	c      *core.Ctx
	shard  tsdb.Shard
	mu     sync.Mutex
	byGoid map[int64]*gocThread
	opened int
	stuck  bool
}

func goid() int64 {
	var b [64]byte
	n := runtime.Stack(b[:], false)
	f := strings.Fields(string(b[:n]))
	if len(f) < 2 {
		return -1
	}
	id, err := strconv.ParseInt(f[1], 10, 64)
	if err != nil {
		return -1
	}
	return id
}

func (sc *gocSched) self() *gocThread {
	id := goid()
	sc.mu.Lock()
	defer sc.mu.Unlock()
	return sc.byGoid[id]
}

// point is called by a writer goroutine standing at a candidate scheduling point.
func (sc *gocSched) point(name string, locked bool) {
	th := sc.self()
	if th == nil {
		return // not one of the scenario's writers
	}
	if locked {
		sc.c.Branch("goc/point-inside-critical-section/" + name)
		return
	}
	sc.c.Branch("goc/point-schedulable/" + name)
	th.parked <- name
	<-th.resume
}

// step lets thread i run to its next scheduling point (or to its end).
func (sc *gocSched) step(th *gocThread) {
	if th.done || sc.stuck {
		return
	}
	if !th.started {
		th.started = true
		go func() {
			id := goid()
			sc.mu.Lock()
			sc.byGoid[id] = th
			sc.mu.Unlock()
			defer func() {
				if r := recover(); r != nil {
					sc.c.Fail("panic", fmt.Sprintf("Shard.GetOrCrateDataFamily(%d) panicked: %v", th.t, r))
				}
				sc.mu.Lock()
				delete(sc.byGoid, id)
				sc.mu.Unlock()
				th.parked <- "done"
			}()
			f, err := sc.shard.GetOrCrateDataFamily(th.t)
			if err == nil {
				th.fam = f
			}
		}()
	} else {
		th.resume <- struct{}{}
	}
	select {
	case p := <-th.parked:
		if p == "done" {
			th.done = true
		}
	case <-time.After(90 * time.Second):
		// a writer neither reached a scheduling point nor returned: it waits for a lock that a
		// parked writer holds — impossible while every parked writer stands outside the probed
		// critical sections. Reported through the diffed output, never as an oracle failure.
		sc.stuck = true
	}
}

// opGoc runs one scenario on the shard: writers for ts (all in segments nobody opened before),
// the schedule sched (indexes into ts), then every writer to completion in index order.
func opGoc(c *core.Ctx, shard tsdb.Shard, k calcT, ts []int64, sched []int) {
	sc := &gocSched{c: c, shard: shard, byGoid: map[int64]*gocThread{}}
	restore := tsdb.VerifC13SetOpenHooks(
		func(s tsdb.Shard, _ string) { sc.point("newSegmentFunc.before", tsdb.VerifC13SegmentsLocked(s)) },
		func(s tsdb.Shard, name string, _ tsdb.Segment) {
			// segments of the writable interval only (rollup target segments have other name layouts)
			if th := sc.self(); th != nil && name == k.calc.GetSegment(th.t) {
				sc.mu.Lock()
				sc.opened++
				sc.mu.Unlock()
			}
			sc.point("newSegmentFunc.after", tsdb.VerifC13SegmentsLocked(s))
		},
		func(seg tsdb.Segment, _ int64) { sc.point("newDataFamilyFunc.before", tsdb.VerifC13FamiliesLocked(seg)) },
		func(seg tsdb.Segment, _ int64, _ tsdb.DataFamily) {
			sc.point("newDataFamilyFunc.after", tsdb.VerifC13FamiliesLocked(seg))
		},
	)
	verifhook.Set(func(id string) {
		if id == "tsdb.shard.getOrCrateDataFamily.afterSegment" {
			sc.point("shard.afterSegment", tsdb.VerifC13SegmentsLocked(shard))
		}
	})
	defer func() {
		verifhook.Set(nil)
		restore()
	}()
	ths := make([]*gocThread, len(ts))
	for i, t := range ts {
		ths[i] = &gocThread{t: t, resume: make(chan struct{}), parked: make(chan string)}
	}
	ss := make([]string, len(sched))
	for i, s := range sched {
		ss[i] = strconv.Itoa(s)
	}
	op := fmt.Sprintf("goc %s | %s | %s", k.name, joinInts(ts), strings.Join(ss, " "))
	guarded(c, op, false, func() string {
		for _, i := range sched {
			if i >= 0 && i < len(ths) {
				sc.step(ths[i])
			}
		}
		for _, th := range ths {
			for !th.done && !sc.stuck {
				sc.step(th)
			}
		}
		if sc.stuck {
			c.Branch("goc/stuck")
			return "stuck"
		}
		// observations: the object every writer got, the object registered for its timestamp
		ids := map[tsdb.DataFamily]int{}
		canon := func(f tsdb.DataFamily) string {
			if f == nil {
				return "-"
			}
			if _, ok := ids[f]; !ok {
				ids[f] = len(ids)
			}
			return strconv.Itoa(ids[f])
		}
		got := make([]string, len(ths))
		reg := make([]tsdb.DataFamily, len(ths))
		regs := make([]string, len(ths))
		for i, th := range ths {
			got[i] = canon(th.fam)
		}
		for i, th := range ths {
			reg[i] = tsdb.VerifC13RegisteredFamily(shard, th.t)
			regs[i] = canon(reg[i])
		}
		// the property on the implementation's objects
		for i, a := range ths {
			if a.fam == nil {
				c.Fail("shard-family-error/"+k.name, fmt.Sprintf("%s: GetOrCrateDataFamily(%d) failed", op, a.t))
				continue
			}
			if tr := a.fam.TimeRange(); !(tr.Start <= a.t && a.t <= tr.End) {
				c.Fail("family-contains/"+k.name, fmt.Sprintf("%s: t=%d got family [%d,%d]", op, a.t, tr.Start, tr.End))
			}
			for j := i + 1; j < len(ths); j++ {
				b := ths[j]
				if b.fam == nil {
					continue
				}
				if k.calc.CalcFamilyTime(a.t) != k.calc.CalcFamilyTime(b.t) {
					if a.fam == b.fam {
						c.Fail("shard-family-object-shared/"+k.name, fmt.Sprintf(
							"%s: writers %d (t=%d) and %d (t=%d) of different families hold the same DataFamily object", op, i, a.t, j, b.t))
					}
					continue
				}
				if a.fam != b.fam {
					c.Fail("shard-family-object-unique/"+k.name, fmt.Sprintf(
						"%s: writers %d (t=%d) and %d (t=%d) of one family [%d,%d] hold two different DataFamily objects (objects %s vs %s; %d segment objects were opened)",
						op, i, a.t, j, b.t, a.fam.TimeRange().Start, a.fam.TimeRange().End, got[i], got[j], sc.opened))
				}
			}
			if reg[i] != a.fam {
				c.Fail("shard-family-object-registered/"+k.name, fmt.Sprintf(
					"%s: writer %d (t=%d) holds DataFamily object %s, the shard registers %s for that timestamp (a query / flush resolves the registered one)",
					op, i, a.t, got[i], regs[i]))
			}
		}
		if sc.opened > 0 {
			c.Branch("goc/segments-opened")
		}
		return fmt.Sprintf("T %s R %s opened %d", strings.Join(got, " "), strings.Join(regs, " "), sc.opened)
	})
}

// gocEngine creates a fresh engine + shard of calculator k for the scenarios of one case.
func gocEngine(c *core.Ctx, k calcT, iv int64, f func(shard tsdb.Shard), rollups ...int64) {
	dir, err := os.MkdirTemp("", "lvh-c13-*")
	if err != nil {
		c.Note("mkdtemp failed: " + err.Error())
		return
	}
	defer os.RemoveAll(dir)
	cfg := config.NewDefaultStorageBase()
	cfg.TSDB.Dir = dir
	config.SetGlobalStorageConfig(cfg)
	engine, err := tsdb.NewEngine()
	if err != nil {
		c.Note("engine: " + err.Error())
		return
	}
	defer engine.Close()
	opt := &option.DatabaseOption{Intervals: option.Intervals{{Interval: timeutil.Interval(iv), Retention: timeutil.Interval(400 * 365 * day)}}}
	for _, ru := range rollups {
		opt.Intervals = append(opt.Intervals, option.Interval{Interval: timeutil.Interval(ru), Retention: timeutil.Interval(400 * 365 * day)})
	}
	if err := engine.CreateShards("db", opt, models.ShardID(1)); err != nil {
		c.Note("create shard: " + err.Error())
		return
	}
	shard, ok := engine.GetShard("db", models.ShardID(1))
	if !ok {
		c.Note("shard not found")
		return
	}
	f(shard)
}

// gocWitness (case 0): for every calculator two and three writers of one family of a fresh
// segment, strictly alternating — the schedule of Props.C13.Neg.unlocked_open_two_families.
func gocWitness(c *core.Ctx) {
	for n, k := range calcs {
		k := k
		gocEngine(c, k, k.intervals[0], func(shard tsdb.Shard) {
			t := ms(2024, 5, 16, 9, 30, 0, 0) + int64(n)*day
			opGoc(c, shard, k, []int64{t, t}, []int{0, 1, 0, 1, 0, 1, 0, 1})
			u := ms(2031, 1, 1, 0, 0, 0, 0)
			opGoc(c, shard, k, []int64{u, u + 1, u + 999}, []int{0, 1, 2, 2, 1, 0, 0, 1, 2, 1})
			// two families of one segment, one writer alone in another segment
			v := ms(2040, 7, 10, 0, 0, 0, 0)
			w := k.calc.CalcFamilyEndTime(k.calc.CalcFamilyTime(v)) + 1
			opGoc(c, shard, k, []int64{v, w, v + 5, w + 370*day}, []int{3, 0, 1, 2, 0, 1, 2, 3, 0, 1, 2})
		})
	}
}

// gocCase: three random scenarios on one fresh shard (each in its own band of years, so that the
// segments of a scenario are never open when it starts).
func gocCase(c *core.Ctx, r *rand.Rand) {
	k := calcs[r.Intn(len(calcs))]
	iv := k.intervals[r.Intn(len(k.intervals))]
	c.NonTrivial()
	c.Branch("goc/" + k.name)
	// a third of the shards have rollup target intervals (coarser types): GetOrCrateDataFamily then
	// also get-or-creates the rollup target segments between the two levels
	var rollups []int64
	if r.Intn(3) == 0 {
		switch k.name {
		case "day":
			rollups = [][]int64{{5 * min}, {hour}, {10 * min, 2 * hour}}[r.Intn(3)]
		case "month":
			rollups = []int64{hour}
		}
		if len(rollups) > 0 {
			c.Branch("goc/shard-with-rollup-targets")
		}
	}
	gocEngine(c, k, iv, func(shard tsdb.Shard) {
		for band := 0; band < 3; band++ {
			base := ms(1975+40*band+r.Intn(30), time.Month(1+r.Intn(12)), 1+r.Intn(28), r.Intn(24), r.Intn(60), r.Intn(60), r.Intn(1000))
			if r.Intn(4) == 0 { // first / last instant of a segment
				base = k.calc.CalcSegmentTime(base)
				if r.Intn(2) == 0 && base > 0 {
					base--
				}
			}
			fs := k.calc.CalcFamilyTime(base)
			fe := k.calc.CalcFamilyEndTime(fs)
			n := 2 + r.Intn(3)
			ts := make([]int64, n)
			for i := range ts {
				switch x := r.Intn(10); {
				case x < 6: // the same family
					ts[i] = fs + r.Int63n(fe-fs+1)
					if r.Intn(3) == 0 {
						ts[i] = []int64{fs, fe, base}[r.Intn(3)]
					}
				case x < 8: // the neighbouring family (same segment unless the family ends the segment)
					if r.Intn(2) == 0 || fs == 0 {
						ts[i] = fe + 1 + r.Int63n(1000)
					} else {
						ts[i] = fs - 1 - r.Int63n(1000)
					}
				default: // another segment
					ts[i] = base + 370*day + r.Int63n(hour)
				}
			}
			sched := make([]int, 2*n+r.Intn(4*n+1))
			for i := range sched {
				sched[i] = r.Intn(n)
			}
			if r.Intn(3) == 0 { // round robin prefix: everybody looks before anybody stores
				for i := 0; i < len(sched) && i < 2*n; i++ {
					sched[i] = i % n
				}
			}
			opGoc(c, shard, k, ts, sched)
		}
	}, rollups...)
}
