package c13

import (
	"fmt"
	"math/rand"
	"os"
	"strconv"
	"strings"
	"time"

	"github.com/lindb/lindb/config"
	"github.com/lindb/lindb/internal/verifhook"
	"github.com/lindb/lindb/models"
	"github.com/lindb/lindb/pkg/option"
	"github.com/lindb/lindb/pkg/timeutil"
	"github.com/lindb/lindb/tsdb"

	"github.com/lindb/lindb/zzverif/internal/core"
)

// Writers interleaved with the lifecycle task's Shard.EvictSegment() on a real shard (model:
// Model/C13Evict.lean; theorems Props.C13.evict_open_holders_unique / evict_quiescent_unique; the
// proved negations Props.C13.Neg.evict_between_levels_*).
//
// op: goce <c> | t1 t2 .. | i1 e i2 .. | p1 p2 ..
//   p..  timestamps whose families exist on disk (written by an earlier engine session; the engine
//        is closed and opened again, so no segment is open when the scenario starts)
//   t..  the writers (Shard.GetOrCrateDataFamily(t))
//   i/e  the schedule: writer index = that writer runs to its next scheduling point (the yield
//        between its two levels, or its end), e = Shard.EvictSegment() on the scheduler's goroutine
// then every writer runs to its end in index order.
//
// A writer is EXPOSED when it stood at the yield point (between GetOrCreateSegment and
// segment.GetOrCreateDataFamily) while an EvictSegment ran. The code closes and unregisters the
// segment object such a writer holds; what the writer then gets is a recorded finding
// (keys evict-between-levels-*). Every other disagreement keeps the general keys.

const (
	keyEvictTwo   = "evict-between-levels-two-family-objects"
	keyEvictUnreg = "evict-between-levels-unregistered-family-object"
	keyEvictAfter = "evict-between-levels-family-creation-fails-afterwards"
)

// evictEngine: a fresh data dir; the families of pre are created in a first engine session, then
// the engine is closed and opened again.
func evictEngine(c *core.Ctx, k calcT, iv int64, pre []int64, f func(shard tsdb.Shard)) {
	dir, err := os.MkdirTemp("", "lvh-c13-*")
	if err != nil {
		c.Note("mkdtemp failed: " + err.Error())
		return
	}
	defer os.RemoveAll(dir)
	cfg := config.NewDefaultStorageBase()
	cfg.TSDB.Dir = dir
	config.SetGlobalStorageConfig(cfg)
	open := func() (tsdb.Engine, tsdb.Shard) {
		engine, err := tsdb.NewEngine()
		if err != nil {
			c.Note("engine: " + err.Error())
			return nil, nil
		}
		shard, ok := engine.GetShard("db", models.ShardID(1))
		if !ok {
			opt := &option.DatabaseOption{Intervals: option.Intervals{{Interval: timeutil.Interval(iv), Retention: timeutil.Interval(400 * 365 * day)}}}
			if err := engine.CreateShards("db", opt, models.ShardID(1)); err != nil {
				c.Note("create shard: " + err.Error())
				engine.Close()
				return nil, nil
			}
			shard, ok = engine.GetShard("db", models.ShardID(1))
			if !ok {
				c.Note("shard not found")
				engine.Close()
				return nil, nil
			}
		}
		return engine, shard
	}
	if len(pre) > 0 {
		engine, shard := open()
		if engine == nil {
			return
		}
		for _, t := range pre {
			if _, err := shard.GetOrCrateDataFamily(t); err != nil {
				c.Note("pre-write failed: " + err.Error())
				engine.Close()
				return
			}
		}
		engine.Close()
	}
	engine, shard := open()
	if engine == nil {
		return
	}
	defer engine.Close()
	f(shard)
}

// opGoce runs one scenario; sched entries: >= 0 writer index, -1 = EvictSegment.
func opGoce(c *core.Ctx, shard tsdb.Shard, k calcT, ts []int64, sched []int, pre []int64) {
	sc := &gocSched{c: c, shard: shard, byGoid: map[int64]*gocThread{}}
	restore := tsdb.VerifC13SetOpenHooks(
		func(s tsdb.Shard, _ string) { sc.point("newSegmentFunc.before", tsdb.VerifC13SegmentsLocked(s)) },
		func(s tsdb.Shard, name string, _ tsdb.Segment) {
			if th := sc.self(); th != nil && name == k.calc.GetSegment(th.t) {
				sc.mu.Lock()
				sc.opened++
				sc.mu.Unlock()
			}
			sc.point("newSegmentFunc.after", tsdb.VerifC13SegmentsLocked(s))
		},
		func(seg tsdb.Segment, _ int64) { sc.point("newDataFamilyFunc.before", tsdb.VerifC13FamiliesLocked(seg)) },
		func(seg tsdb.Segment, _ int64, _ tsdb.DataFamily) {
			sc.point("newDataFamilyFunc.after", tsdb.VerifC13FamiliesLocked(seg))
		},
	)
	verifhook.Set(func(id string) {
		if id == "tsdb.shard.getOrCrateDataFamily.afterSegment" {
			sc.point("shard.afterSegment", tsdb.VerifC13SegmentsLocked(shard))
		}
	})
	defer func() {
		verifhook.Set(nil)
		restore()
	}()
	ths := make([]*gocThread, len(ts))
	for i, t := range ts {
		ths[i] = &gocThread{t: t, resume: make(chan struct{}), parked: make(chan string)}
	}
	ss := make([]string, len(sched))
	for i, s := range sched {
		if s < 0 {
			ss[i] = "e"
		} else {
			ss[i] = strconv.Itoa(s)
		}
	}
	op := fmt.Sprintf("goce %s | %s | %s | %s", k.name, joinInts(ts), strings.Join(ss, " "), joinInts(pre))
	exposed := make([]bool, len(ths))
	guarded(c, op, false, func() string {
		for _, i := range sched {
			switch {
			case i < 0:
				for j, th := range ths {
					if th.started && !th.done {
						exposed[j] = true
					}
				}
				shard.EvictSegment()
			case i < len(ths):
				sc.step(ths[i])
			}
		}
		for _, th := range ths {
			for !th.done && !sc.stuck {
				sc.step(th)
			}
		}
		if sc.stuck {
			c.Branch("goc/stuck")
			return "stuck"
		}
		ids := map[tsdb.DataFamily]int{}
		canon := func(f tsdb.DataFamily) string {
			if f == nil {
				return "-"
			}
			if _, ok := ids[f]; !ok {
				ids[f] = len(ids)
			}
			return strconv.Itoa(ids[f])
		}
		got := make([]string, len(ths))
		reg := make([]tsdb.DataFamily, len(ths))
		regs := make([]string, len(ths))
		errs := make([]string, len(ths))
		for i, th := range ths {
			got[i] = canon(th.fam)
			errs[i] = "0"
			if th.fam == nil {
				errs[i] = "1"
			}
		}
		for i, th := range ths {
			reg[i] = tsdb.VerifC13RegisteredFamily(shard, th.t)
			regs[i] = canon(reg[i])
		}
		sameFamily := func(a, b *gocThread) bool { return k.calc.CalcFamilyTime(a.t) == k.calc.CalcFamilyTime(b.t) }
		anyExposed := false
		for i, a := range ths {
			anyExposed = anyExposed || exposed[i]
			if a.fam == nil {
				exposedPeer := false
				for j, b := range ths {
					exposedPeer = exposedPeer || (exposed[j] && sameFamily(a, b))
				}
				switch {
				case exposed[i]:
					// a reported error of the call that raced with the eviction: not judged
					c.Branch("goce/exposed-writer-gets-error")
				case exposedPeer:
					c.Fail(keyEvictAfter, fmt.Sprintf(
						"%s: writer %d (t=%d) started after the eviction and fails: a writer of the same family stood between its two get-or-create levels while Shard.EvictSegment closed its segment, created the family directory through the closed kv store, and the registered store does not know the family",
						op, i, a.t))
				default:
					c.Fail("shard-family-error/"+k.name, fmt.Sprintf("%s: GetOrCrateDataFamily(%d) failed", op, a.t))
				}
				continue
			}
			if tr := a.fam.TimeRange(); !(tr.Start <= a.t && a.t <= tr.End) {
				c.Fail("family-contains/"+k.name, fmt.Sprintf("%s: t=%d got family [%d,%d]", op, a.t, tr.Start, tr.End))
			}
			for j := i + 1; j < len(ths); j++ {
				b := ths[j]
				if b.fam == nil {
					continue
				}
				if !sameFamily(a, b) {
					if a.fam == b.fam {
						c.Fail("shard-family-object-shared/"+k.name, fmt.Sprintf(
							"%s: writers %d (t=%d) and %d (t=%d) of different families hold the same DataFamily object", op, i, a.t, j, b.t))
					}
					continue
				}
				if a.fam != b.fam {
					key := "shard-family-object-unique/" + k.name
					if exposed[i] || exposed[j] {
						key = keyEvictTwo
					}
					c.Fail(key, fmt.Sprintf(
						"%s: writers %d (t=%d) and %d (t=%d) of one family [%d,%d] hold two different live DataFamily objects (objects %s vs %s); exposed to EvictSegment between their levels: %v / %v",
						op, i, a.t, j, b.t, a.fam.TimeRange().Start, a.fam.TimeRange().End, got[i], got[j], exposed[i], exposed[j]))
				}
			}
			if reg[i] != a.fam {
				key := "shard-family-object-registered/" + k.name
				if exposed[i] {
					key = keyEvictUnreg
				}
				c.Fail(key, fmt.Sprintf(
					"%s: writer %d (t=%d) holds DataFamily object %s, the shard registers %s for that timestamp (a query / flush / later writer resolves the registered one); exposed to EvictSegment between its levels: %v",
					op, i, a.t, got[i], regs[i], exposed[i]))
			}
		}
		if anyExposed {
			c.Branch("goce/evict-while-writer-between-levels")
		} else {
			c.Branch("goce/evicts-quiescent")
		}
		if len(pre) > 0 {
			c.Branch("goce/families-on-disk")
		}
		return fmt.Sprintf("T %s R %s E %s opened %d", strings.Join(got, " "), strings.Join(regs, " "), strings.Join(errs, " "), sc.opened)
	})
}

// evictWitness (case 0): the three schedules of Props.C13.Neg.evict_between_levels_* on a real shard
// of every calculator, and the schedule of Neg.no_evict_one_family_object / a quiescent eviction.
func evictWitness(c *core.Ctx) {
	for n, k := range calcs {
		k := k
		t := ms(2024, 5, 16, 9, 30, 0, 0) + int64(n)*day
		iv := k.intervals[0]
		evictEngine(c, k, iv, []int64{t}, func(shard tsdb.Shard) {
			opGoce(c, shard, k, []int64{t, t}, []int{0, -1, 1, 1, 0}, []int64{t})
		})
		evictEngine(c, k, iv, []int64{t}, func(shard tsdb.Shard) {
			opGoce(c, shard, k, []int64{t}, []int{0, -1}, []int64{t})
		})
		evictEngine(c, k, iv, nil, func(shard tsdb.Shard) {
			opGoce(c, shard, k, []int64{t, t, t}, []int{0, -1, 0}, nil)
		})
		evictEngine(c, k, iv, nil, func(shard tsdb.Shard) {
			opGoce(c, shard, k, []int64{t, t, t}, []int{-1, 0, 0, -1, 1}, nil)
		})
	}
}

// evictCase: two random scenarios, each on its own fresh engine.
func evictCase(c *core.Ctx, r *rand.Rand) {
	k := calcs[r.Intn(len(calcs))]
	iv := k.intervals[r.Intn(len(k.intervals))]
	c.NonTrivial()
	c.Branch("goce/" + k.name)
	for sn := 0; sn < 2; sn++ {
		base := ms(1975+r.Intn(110), time.Month(1+r.Intn(12)), 1+r.Intn(28), r.Intn(24), r.Intn(60), r.Intn(60), r.Intn(1000))
		if r.Intn(4) == 0 {
			base = k.calc.CalcSegmentTime(base)
			if r.Intn(2) == 0 && base > 0 {
				base--
			}
		}
		fs := k.calc.CalcFamilyTime(base)
		fe := k.calc.CalcFamilyEndTime(fs)
		n := 1 + r.Intn(4)
		ts := make([]int64, n)
		for i := range ts {
			switch x := r.Intn(10); {
			case x < 7:
				ts[i] = fs + r.Int63n(fe-fs+1)
			case x < 9:
				ts[i] = fe + 1 + r.Int63n(1000)
			default:
				ts[i] = base + 370*day + r.Int63n(hour)
			}
		}
		var pre []int64
		for _, t := range ts {
			if r.Intn(3) == 0 {
				pre = append(pre, k.calc.CalcFamilyTime(t)+r.Int63n(1000))
			}
		}
		sched := make([]int, n+r.Intn(3*n+2))
		for i := range sched {
			sched[i] = r.Intn(n)
		}
		switch r.Intn(3) {
		case 0: // evictions only before any writer started / after writers returned both steps
			for i := 0; i+1 < len(sched); i += 2 {
				sched[i+1] = sched[i]
			}
			sched = append([]int{-1}, sched...)
			if r.Intn(2) == 0 && len(sched)%2 == 1 {
				sched = append(sched, -1)
			}
		default: // one or two evictions anywhere
			for e := 1 + r.Intn(2); e > 0; e-- {
				p := r.Intn(len(sched) + 1)
				sched = append(sched[:p], append([]int{-1}, sched[p:]...)...)
			}
		}
		evictEngine(c, k, iv, pre, func(shard tsdb.Shard) {
			opGoce(c, shard, k, ts, sched, pre)
		})
	}
}
