package c13

import (
	"fmt"
	"math/rand"
	"os"
	"strings"
	"sort"
	"time"

	"github.com/lindb/lindb/config"
	"github.com/lindb/lindb/models"
	"github.com/lindb/lindb/pkg/option"
	"github.com/lindb/lindb/pkg/timeutil"
	"github.com/lindb/lindb/tsdb"

	"github.com/lindb/lindb/zzverif/internal/core"
)

// shardCase runs the write-side family lookup through a real tsdb engine/shard:
// Shard.GetOrCrateDataFamily(t).TimeRange() for a handful of timestamps (C13: the range contains
// t, any timestamp of the range maps to the same family, the next family starts right after) and
// Shard.GetDataFamilies(range) (diffed against the model's `gdf`, checked for exactness).
func shardCase(c *core.Ctx, r *rand.Rand, i int) {
	dir, err := os.MkdirTemp("", "lvh-c13-*")
	if err != nil {
		c.Note("mkdtemp failed: " + err.Error())
		return
	}
	defer os.RemoveAll(dir)
	cfg := config.NewDefaultStorageBase()
	cfg.TSDB.Dir = dir
	config.SetGlobalStorageConfig(cfg)
	engine, err := tsdb.NewEngine()
	if err != nil {
		c.Note("engine: " + err.Error())
		return
	}
	defer engine.Close()
	k := calcs[r.Intn(len(calcs))]
	iv := k.intervals[r.Intn(len(k.intervals))]
	opt := &option.DatabaseOption{Intervals: option.Intervals{{Interval: timeutil.Interval(iv), Retention: timeutil.Interval(400 * 365 * day)}}}
	if err := engine.CreateShards("db", opt, models.ShardID(1)); err != nil {
		c.Note("create shard: " + err.Error())
		return
	}
	shard, ok := engine.GetShard("db", models.ShardID(1))
	if !ok {
		c.Note("shard not found")
		return
	}
	c.NonTrivial()
	c.Branch("shard/" + k.name)
	// a cluster of timestamps around an anchor so that a range query can cross a family,
	// segment, month or year boundary
	anchor := randTimestamp(r)
	var span int64
	switch k.name {
	case "day":
		span = 3 * hour
		if r.Intn(3) == 0 {
			span = 2 * day
		}
	case "month":
		span = 12 * day
		if r.Intn(3) == 0 {
			span = 45 * day
		}
	default:
		span = 120 * day
		if r.Intn(3) == 0 {
			span = 500 * day
		}
	}
	var ts []int64
	for j := 0; j < 5; j++ {
		ts = append(ts, clampTS(anchor+r.Int63n(2*span)-span))
	}
	write := func(t int64) (timeutil.TimeRange, bool) {
		var tr timeutil.TimeRange
		okw := false
		op := fmt.Sprintf("wrange %s %d %d", k.name, k.calc.CalcSegmentTime(t), t)
		guarded(c, op, false, func() string {
			f, err := shard.GetOrCrateDataFamily(t)
			if err != nil {
				return "error"
			}
			tr = f.TimeRange()
			okw = true
			if f.FamilyTime() != tr.Start {
				c.Fail("shard-family-time/"+k.name, fmt.Sprintf("t=%d FamilyTime=%d TimeRange.Start=%d", t, f.FamilyTime(), tr.Start))
			}
			return fmt.Sprintf("%d %d", tr.Start, tr.End)
		})
		return tr, okw
	}
	for _, t := range ts {
		tr, okw := write(t)
		if !okw {
			c.Fail("shard-family-error/"+k.name, fmt.Sprintf("GetOrCrateDataFamily(%d) failed", t))
			continue
		}
		if !(tr.Start <= t && t <= tr.End) {
			c.Fail("family-contains/"+k.name, fmt.Sprintf("shard: t=%d family=[%d,%d]", t, tr.Start, tr.End))
		}
		if a, ok1 := write(tr.Start); !ok1 || a != tr {
			c.Fail("family-idempotent/"+k.name, fmt.Sprintf("shard: family of t=%d is [%d,%d] but its start maps to [%d,%d]", t, tr.Start, tr.End, a.Start, a.End))
		}
		if b, ok2 := write(tr.End); !ok2 || b != tr {
			c.Fail("family-idempotent/"+k.name, fmt.Sprintf("shard: family of t=%d is [%d,%d] but its end maps to [%d,%d]", t, tr.Start, tr.End, b.Start, b.End))
		}
	}
	// the family right after the first one
	if tr, okw := write(ts[0]); okw && tr.End+1 < windowEnd {
		if n, ok3 := write(tr.End + 1); !ok3 || n.Start != tr.End+1 {
			c.Fail("families-tile/"+k.name, fmt.Sprintf("shard: family [%d,%d] is followed by a family starting at %d", tr.Start, tr.End, n.Start))
		} else {
			ts = append(ts, tr.End+1)
		}
	}
	// range lookups over what was created, through the real shard (intervalSegment → segments):
	// diffed against the model's `gdf` and checked for exactness. The clustered timestamps span
	// several families and — for the wide spans — several segments; queries start/end near the
	// written timestamps, at family / segment starts and ends, and cross month and year boundaries.
	segs := map[int64]bool{}
	for _, t := range ts {
		segs[k.calc.CalcSegmentTime(t)] = true
	}
	if len(segs) > 1 {
		c.Branch("gdf/shard-with-several-segments")
	}
	pick := func() int64 {
		t := ts[r.Intn(len(ts))]
		switch r.Intn(6) {
		case 0:
			return k.calc.CalcFamilyTime(t)
		case 1:
			return k.calc.CalcFamilyEndTime(k.calc.CalcFamilyTime(t))
		case 2:
			return clampTS(k.calc.CalcFamilyTime(t) - 1 - r.Int63n(hour))
		case 3:
			return clampTS(k.calc.CalcSegmentTime(t) - int64(r.Intn(2)))
		case 4:
			return clampTS(t + r.Int63n(2*span) - span)
		default:
			return t
		}
	}
	for j := 0; j < 10; j++ {
		qs, qe := pick(), pick()
		if qs > qe {
			qs, qe = qe, qs
		}
		opGdf(c, shard, k, iv, qs, qe, ts)
	}
	boundaryQueries(c, r, shard, k, iv, ts, 6)
}

// boundaryQueries: boundary-directed range lookups over the written timestamps ts: point ranges
// (at a written timestamp, at a family's first / last millisecond, one millisecond after a family),
// ranges ending exactly on a family start / family end / one before a family start, a two-millisecond
// range across a segment boundary, and the storage-slot range a planner would hand down.
func boundaryQueries(c *core.Ctx, r *rand.Rand, shard tsdb.Shard, k calcT, iv int64, ts []int64, n int) {
	for j := 0; j < n; j++ {
		t := ts[r.Intn(len(ts))]
		fs := k.calc.CalcFamilyTime(t)
		fe := k.calc.CalcFamilyEndTime(fs)
		back := r.Int63n(3 * (fe - fs + 1))
		var qs, qe int64
		switch r.Intn(9) {
		case 0:
			qs, qe = t, t
		case 1:
			qs, qe = fs, fs
		case 2:
			qs, qe = fe, fe
		case 3:
			qs, qe = fe+1, fe+1
		case 4:
			qs, qe = fs-back, fs
		case 5:
			qs, qe = fs-back, fe
		case 6:
			qs, qe = fs-back, fs-1
		case 7:
			sg := k.calc.CalcSegmentTime(t)
			qs, qe = sg-1, sg
		default: // one storage slot, as the planner truncates a short window
			qs = t / iv * iv
			qe = qs
		}
		if qs < 2*day || qe < qs || qe >= windowEnd {
			continue
		}
		opGdf(c, shard, k, iv, qs, qe, ts)
	}
}

// zoneShardCase: the write path and the range lookup of a real shard with time.Local = a
// fixed-offset zone (mostly zones whose offset is not a whole number of hours): the families the
// shard creates contain their timestamps, and Shard.GetDataFamilies returns exactly the existing
// families intersecting the range (model: getDataFamiliesZ, Props.C13.zone_get_data_families_exact).
func zoneShardCase(c *core.Ctx, r *rand.Rand) {
	z := zones[[]int{1, 2, 7, 8, 9}[r.Intn(5)]]
	if r.Intn(4) == 0 {
		z = zones[r.Intn(len(zones))]
	}
	withZone(c, z, func(_ *time.Location) { shardInZone(c, r, 0, calcs) })
}

// dstShardCase: the same real-shard write path + range lookups with time.Local = a DAYLIGHT-SAVING zone
// of the tz database (America/New_York: all three calculators; Australia/Lord_Howe: month- and year-type
// only — its day-type families overlap on the half-hour days, recorded findings), timestamps within a few
// days (year-type: weeks) of an offset change of the year, so families and query ranges contain the 23-,
// 25-, 23.5- and 24.5-hour days. Ops `zallt`-style: `gdfzt` carries the year's transitions and is diffed
// against getDataFamiliesZ over the transition-list zone model; oracle keys get `@zonedst:<zone>`.
func dstShardCase(c *core.Ctx, r *rand.Rand) {
	defer func() { time.Local = time.UTC; zoneTag, zoneTrs = "", "" }()
	zn := []string{"America/New_York", "Australia/Lord_Howe"}[r.Intn(2)]
	loc, err := time.LoadLocation(zn)
	if err != nil {
		c.Branch("dst/tzdata-missing")
		return
	}
	year := []int{1987, 2007, 2024, 2031}[r.Intn(4)]
	off0, trs := zoneTransitions(loc, year)
	if len(trs) == 0 {
		return
	}
	parts := []string{fmt.Sprint(off0)}
	for _, tr := range trs {
		parts = append(parts, fmt.Sprint(tr[0]), fmt.Sprint(tr[1]))
	}
	time.Local = loc
	zoneTag, zoneTrs = "dst:"+zn, strings.Join(parts, " ")
	ks := calcs
	if zn == "Australia/Lord_Howe" {
		ks = calcs[1:]
	}
	tr := trs[r.Intn(len(trs))]
	anchor := tr[0]*1000 + r.Int63n(2*day) - day
	c.Branch("dst-shard/" + zn)
	shardInZone(c, r, anchor, ks)
}

// shardInZone: body of zoneShardCase / dstShardCase (time.Local and zoneTag are set by the caller);
// anchor != 0: timestamps stay around it (inside the year whose transitions the op carries)
func shardInZone(c *core.Ctx, r *rand.Rand, dstAnchor int64, ks []calcT) {
	{
		dir, err := os.MkdirTemp("", "lvh-c13-*")
		if err != nil {
			c.Note("mkdtemp failed: " + err.Error())
			return
		}
		defer os.RemoveAll(dir)
		cfg := config.NewDefaultStorageBase()
		cfg.TSDB.Dir = dir
		config.SetGlobalStorageConfig(cfg)
		engine, err := tsdb.NewEngine()
		if err != nil {
			c.Note("engine: " + err.Error())
			return
		}
		defer engine.Close()
		k := ks[r.Intn(len(ks))]
		iv := k.intervals[r.Intn(len(k.intervals))]
		opt := &option.DatabaseOption{Intervals: option.Intervals{{Interval: timeutil.Interval(iv), Retention: timeutil.Interval(400 * 365 * day)}}}
		if err := engine.CreateShards("db", opt, models.ShardID(1)); err != nil {
			c.Note("create shard: " + err.Error())
			return
		}
		shard, ok := engine.GetShard("db", models.ShardID(1))
		if !ok {
			c.Note("shard not found")
			return
		}
		c.NonTrivial()
		c.Branch("zone-shard/" + k.name + "@zone" + zoneTag)
		anchor := randTimestamp(r)
		if r.Intn(2) == 0 { // near a LOCAL day / month boundary of the zone
			anchor = k.calc.CalcSegmentTime(anchor) + int64(r.Intn(3)) - 1
		}
		span := map[string]int64{"day": 3 * hour, "month": 3 * day, "year": 70 * day}[k.name]
		if r.Intn(3) == 0 {
			span *= 12
		}
		if dstAnchor != 0 {
			anchor = dstAnchor
			span = map[string]int64{"day": 5 * hour, "month": 2 * day, "year": 20 * day}[k.name]
		}
		var ts []int64
		for j := 0; j < 5; j++ {
			t := anchor + r.Int63n(2*span) - span
			if t < 3*day {
				t = 3*day + r.Int63n(span)
			}
			if t >= windowEnd {
				t = windowEnd - 1 - r.Int63n(span)
			}
			f, err := shard.GetOrCrateDataFamily(t)
			if err != nil {
				c.Fail("shard-family-error/"+k.name+"@zone"+zoneTag, fmt.Sprintf("GetOrCrateDataFamily(%d) failed: %v", t, err))
				continue
			}
			tr := f.TimeRange()
			if !(tr.Start <= t && t <= tr.End) {
				c.Fail("family-contains/"+k.name+"@zone"+zoneTag, fmt.Sprintf("shard: t=%d family=[%d,%d]", t, tr.Start, tr.End))
			}
			if tr.Start != k.calc.CalcFamilyTime(t) || tr.End != k.calc.CalcFamilyEndTime(tr.Start) {
				c.Fail("shard-family-time/"+k.name+"@zone"+zoneTag, fmt.Sprintf("shard: t=%d family=[%d,%d], calculator says [%d,%d]", t, tr.Start, tr.End, k.calc.CalcFamilyTime(t), k.calc.CalcFamilyEndTime(k.calc.CalcFamilyTime(t))))
			}
			ts = append(ts, t)
		}
		if len(ts) == 0 {
			return
		}
		boundaryQueries(c, r, shard, k, iv, ts, 10)
		for j := 0; j < 4; j++ {
			qs := ts[r.Intn(len(ts))] - r.Int63n(span)
			qe := ts[r.Intn(len(ts))] + r.Int63n(span)
			if qs < 2*day || qe < qs || qe >= windowEnd {
				continue
			}
			opGdf(c, shard, k, iv, qs, qe, ts)
		}
	}
}

// opGdf runs Shard.GetDataFamilies(type, [qs,qe]) on the real shard whose existing families are
// those of the timestamps ts, emits it as the diffed `gdf` op and checks C13 on the result: the
// families returned are exactly the existing families whose time range intersects [qs,qe]; in
// particular the family of every written timestamp inside the range is returned.
func opGdf(c *core.Ctx, shard tsdb.Shard, k calcT, iv, qs, qe int64, ts []int64) []int64 {
	var starts []int64
	op := fmt.Sprintf("gdf %s %d %d | %s", k.name, qs, qe, joinInts(ts))
	k0 := k
	if zoneTag != "" { // same statement with time.Local = a fixed-offset zone: op `gdfz`, keys get the zone suffix
		op = fmt.Sprintf("gdfz %s %s %d %d | %s", zoneTag, k.name, qs, qe, joinInts(ts))
		if zoneTrs != "" { // daylight-saving zone: the op carries the year's transitions
			op = fmt.Sprintf("gdfzt %s %d %d | %s | %s", k.name, qs, qe, joinInts(ts), zoneTrs)
		}
		k.name = k.name + "@zone" + zoneTag
	}
	if qs == qe {
		c.Branch("gdf/point-range/" + k0.name)
	}
	if qe == k.calc.CalcFamilyTime(qe) {
		c.Branch("gdf/range-ends-on-family-start/" + k0.name)
	}
	if qe == k.calc.CalcFamilyEndTime(k.calc.CalcFamilyTime(qe)) {
		c.Branch("gdf/range-ends-on-family-end/" + k0.name)
	}
	guarded(c, op, false, func() string {
		fams := shard.GetDataFamilies(timeutil.Interval(iv).Type(), timeutil.TimeRange{Start: qs, End: qe})
		sel := map[int64]bool{}
		for _, f := range fams {
			tr := f.TimeRange()
			if sel[tr.Start] {
				c.Fail("gdf-duplicate/"+k.name, fmt.Sprintf("%s: family %d returned twice", op, tr.Start))
			}
			sel[tr.Start] = true
			starts = append(starts, tr.Start)
			if !(tr.Start <= qe && qs <= tr.End) {
				c.Fail("gdf-extra-family/"+k.name, fmt.Sprintf("%s: returned family [%d,%d] does not intersect the query range", op, tr.Start, tr.End))
			}
		}
		sort.Slice(starts, func(a, b int) bool { return starts[a] < starts[b] })
		crossSeg := k.calc.CalcSegmentTime(qs) != k.calc.CalcSegmentTime(qe)
		if crossSeg {
			c.Branch("gdf/range-crosses-segment/" + k.name)
		}
		if time.UnixMilli(qs).UTC().Month() != time.UnixMilli(qe).UTC().Month() {
			c.Branch("gdf/range-crosses-month")
		}
		if time.UnixMilli(qs).UTC().Year() != time.UnixMilli(qe).UTC().Year() {
			c.Branch("gdf/range-crosses-year")
		}
		for _, t := range ts {
			s := k.calc.CalcFamilyTime(t)
			e := k.calc.CalcFamilyEndTime(s)
			if s <= qe && qs <= e && !sel[s] {
				key := "gdf-missing-family/" + k.name
				if qs <= t && t <= qe {
					key = "gdf-written-family-not-found/" + k.name
				}
				c.Fail(key, fmt.Sprintf("%s: existing family [%d,%d] (written t=%d) intersects the query range but is not returned; returned %v", op, s, e, t, starts))
				break
			}
		}
		if len(starts) == 0 {
			c.Branch("gdf/none")
			return "none"
		}
		c.Branch("gdf/some")
		return joinInts(starts)
	})
	return starts
}

// observeLookup: deterministic witness of what fix 8adefd6 repaired, on a real month-type shard
// and a real year-type shard: data on both sides of a month (year) boundary, query across it.
func observeLookup(c *core.Ctx) {
	for _, w := range []struct {
		k      calcT
		iv     int64
		ts     []int64
		qs, qe int64
		what   string
	}{
		{calcs[1], 5 * min, []int64{ms(2023, 6, 27, 10, 0, 0, 0), ms(2023, 7, 3, 10, 0, 0, 0)},
			ms(2023, 6, 25, 0, 0, 0, 0), ms(2023, 7, 5, 0, 0, 0, 0),
			"month-type shard, families 2023-06-27 and 2023-07-03, GetDataFamilies(2023-06-25..2023-07-05)"},
		{calcs[2], hour, []int64{ms(2022, 12, 10, 0, 0, 0, 0), ms(2023, 1, 20, 0, 0, 0, 0)},
			ms(2022, 11, 10, 0, 0, 0, 0), ms(2023, 2, 3, 0, 0, 0, 0),
			"year-type shard, families 2022-12 and 2023-01, GetDataFamilies(2022-11-10..2023-02-03)"},
		{calcs[0], 10 * sec, []int64{ms(2024, 2, 29, 23, 30, 0, 0), ms(2024, 3, 1, 0, 30, 0, 0)},
			ms(2024, 2, 29, 23, 10, 0, 0), ms(2024, 3, 1, 0, 40, 0, 0),
			"day-type shard, families 2024-02-29T23 and 2024-03-01T00, GetDataFamilies(23:10..00:40)"},
	} {
		func() {
			dir, err := os.MkdirTemp("", "lvh-c13-*")
			if err != nil {
				return
			}
			defer os.RemoveAll(dir)
			cfg := config.NewDefaultStorageBase()
			cfg.TSDB.Dir = dir
			config.SetGlobalStorageConfig(cfg)
			engine, err := tsdb.NewEngine()
			if err != nil {
				c.Note("engine: " + err.Error())
				return
			}
			defer engine.Close()
			opt := &option.DatabaseOption{Intervals: option.Intervals{{Interval: timeutil.Interval(w.iv), Retention: timeutil.Interval(400 * 365 * day)}}}
			if err := engine.CreateShards("db", opt, models.ShardID(1)); err != nil {
				c.Note("create shard: " + err.Error())
				return
			}
			shard, ok := engine.GetShard("db", models.ShardID(1))
			if !ok {
				return
			}
			for _, t := range w.ts {
				if _, err := shard.GetOrCrateDataFamily(t); err != nil {
					c.Note("GetOrCrateDataFamily: " + err.Error())
					return
				}
			}
			got := opGdf(c, shard, w.k, w.iv, w.qs, w.qe, w.ts)
			fmt.Printf("OBSERVATION %s returned %d families %v\n", w.what, len(got), got)
		}()
	}
}

// unalignedIntervalWitness: a database whose storage interval (7s) passes DatabaseOption.Validate
// but does not divide one hour. A point written at 2024-03-01T01:00:03Z goes to the 01:00 family
// (family-aligned slot grid); the query [00:59:00, 01:00:03] — which contains the point — is planned
// by the real calcTimeRangeAndInterval on the epoch-aligned 7s grid to [00:58:56, 00:59:59], and
// the real Shard.GetDataFamilies of that range does not return the family. Oracle key
// `unaligned-storage-interval-query-misses-slot` (Props.C13.Neg.unaligned_interval_not_covered).
func unalignedIntervalWitness(c *core.Ctx) {
	const iv = 7 * sec
	opt := &option.DatabaseOption{Intervals: option.Intervals{{Interval: timeutil.Interval(iv), Retention: timeutil.Interval(400 * 365 * day)}}}
	if err := opt.Validate(); err != nil {
		c.Branch("unaligned/rejected-by-validate")
		fmt.Println("OBSERVATION 7s interval rejected by DatabaseOption.Validate:", err)
		return
	}
	dir, err := os.MkdirTemp("", "lvh-c13-*")
	if err != nil {
		return
	}
	defer os.RemoveAll(dir)
	cfg := config.NewDefaultStorageBase()
	cfg.TSDB.Dir = dir
	config.SetGlobalStorageConfig(cfg)
	engine, err := tsdb.NewEngine()
	if err != nil {
		c.Note("engine: " + err.Error())
		return
	}
	defer engine.Close()
	if err := engine.CreateShards("db", opt, models.ShardID(1)); err != nil {
		c.Branch("unaligned/rejected-by-engine")
		fmt.Println("OBSERVATION 7s interval rejected by engine.CreateShards:", err)
		return
	}
	shard, ok := engine.GetShard("db", models.ShardID(1))
	if !ok {
		return
	}
	k := calcs[0]
	t := ms(2024, 3, 1, 1, 0, 3, 0)
	qs, qe := ms(2024, 3, 1, 0, 59, 0, 0), t
	var fam timeutil.TimeRange
	guarded(c, fmt.Sprintf("wrange %s %d %d", k.name, k.calc.CalcSegmentTime(t), t), false, func() string {
		f, err := shard.GetOrCrateDataFamily(t)
		if err != nil {
			return "error"
		}
		fam = f.TimeRange()
		return fmt.Sprintf("%d %d", fam.Start, fam.End)
	})
	ps, pe, st, okp := opPlan(c, 0, qs, qe, false, []int64{iv})
	if !okp {
		return
	}
	got := observeGdfNoOracle(c, shard, k, st, ps, pe, []int64{t})
	if len(got) == 0 {
		c.Fail("unaligned-storage-interval-query-misses-slot", fmt.Sprintf(
			"storage interval 7s (accepted by Validate): point written at t=%d is in family [%d,%d]; query [%d,%d] contains t; planner range [%d,%d] (storage %d); Shard.GetDataFamilies(planned range) returns no family",
			t, fam.Start, fam.End, qs, qe, ps, pe, st))
	}
	fmt.Printf("OBSERVATION 7s storage interval: written t=%d family [%d,%d]; query [%d,%d] planned to [%d,%d]; GetDataFamilies returned %v\n", t, fam.Start, fam.End, qs, qe, ps, pe, got)
}

// observeGdfNoOracle emits the diffed `gdf` op without the exactness oracle (the lookup itself is
// exact for the planned range; what is judged by the caller is the composition with the planner).
func observeGdfNoOracle(c *core.Ctx, shard tsdb.Shard, k calcT, iv, qs, qe int64, ts []int64) []int64 {
	var starts []int64
	guarded(c, fmt.Sprintf("gdf %s %d %d | %s", k.name, qs, qe, joinInts(ts)), false, func() string {
		for _, f := range shard.GetDataFamilies(timeutil.Interval(iv).Type(), timeutil.TimeRange{Start: qs, End: qe}) {
			starts = append(starts, f.TimeRange().Start)
		}
		sort.Slice(starts, func(a, b int) bool { return starts[a] < starts[b] })
		if len(starts) == 0 {
			return "none"
		}
		return joinInts(starts)
	})
	return starts
}
