package c13

import (
	"math/rand"

	"github.com/lindb/lindb/zzverif/internal/core"
)

func shardCase(c *core.Ctx, r *rand.Rand, i int) {
	randomPlan(c, r)
}
