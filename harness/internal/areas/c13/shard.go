package c13

import (
	"fmt"
	"math/rand"
	"os"
	"sort"

	"github.com/lindb/lindb/config"
	"github.com/lindb/lindb/models"
	"github.com/lindb/lindb/pkg/option"
	"github.com/lindb/lindb/pkg/timeutil"
	"github.com/lindb/lindb/tsdb"

	"github.com/lindb/lindb/zzverif/internal/core"
)

// shardCase runs the write-side family lookup through a real tsdb engine/shard:
// Shard.GetOrCrateDataFamily(t).TimeRange() for a handful of timestamps (C13: the range contains
// t, any timestamp of the range maps to the same family, the next family starts right after) and
// Shard.GetDataFamilies(range) (mirrored by the model's `gdf`; observation only, see the design
// note: range lookup is not part of C13's statement).
func shardCase(c *core.Ctx, r *rand.Rand, i int) {
	dir, err := os.MkdirTemp("", "lvh-c13-*")
	if err != nil {
		c.Note("mkdtemp failed: " + err.Error())
		return
	}
	defer os.RemoveAll(dir)
	cfg := config.NewDefaultStorageBase()
	cfg.TSDB.Dir = dir
	config.SetGlobalStorageConfig(cfg)
	engine, err := tsdb.NewEngine()
	if err != nil {
		c.Note("engine: " + err.Error())
		return
	}
	defer engine.Close()
	k := calcs[r.Intn(len(calcs))]
	iv := k.intervals[r.Intn(len(k.intervals))]
	opt := &option.DatabaseOption{Intervals: option.Intervals{{Interval: timeutil.Interval(iv), Retention: timeutil.Interval(400 * 365 * day)}}}
	if err := engine.CreateShards("db", opt, models.ShardID(1)); err != nil {
		c.Note("create shard: " + err.Error())
		return
	}
	shard, ok := engine.GetShard("db", models.ShardID(1))
	if !ok {
		c.Note("shard not found")
		return
	}
	c.NonTrivial()
	c.Branch("shard/" + k.name)
	// a cluster of timestamps around an anchor so that a range query can cross a family,
	// segment, month or year boundary
	anchor := randTimestamp(r)
	var span int64
	switch k.name {
	case "day":
		span = 3 * hour
		if r.Intn(3) == 0 {
			span = 2 * day
		}
	case "month":
		span = 12 * day
		if r.Intn(3) == 0 {
			span = 45 * day
		}
	default:
		span = 120 * day
		if r.Intn(3) == 0 {
			span = 500 * day
		}
	}
	var ts []int64
	for j := 0; j < 5; j++ {
		ts = append(ts, clampTS(anchor+r.Int63n(2*span)-span))
	}
	write := func(t int64) (timeutil.TimeRange, bool) {
		var tr timeutil.TimeRange
		okw := false
		op := fmt.Sprintf("wrange %s %d %d", k.name, k.calc.CalcSegmentTime(t), t)
		guarded(c, op, false, func() string {
			f, err := shard.GetOrCrateDataFamily(t)
			if err != nil {
				return "error"
			}
			tr = f.TimeRange()
			okw = true
			if f.FamilyTime() != tr.Start {
				c.Fail("shard-family-time/"+k.name, fmt.Sprintf("t=%d FamilyTime=%d TimeRange.Start=%d", t, f.FamilyTime(), tr.Start))
			}
			return fmt.Sprintf("%d %d", tr.Start, tr.End)
		})
		return tr, okw
	}
	for _, t := range ts {
		tr, okw := write(t)
		if !okw {
			c.Fail("shard-family-error/"+k.name, fmt.Sprintf("GetOrCrateDataFamily(%d) failed", t))
			continue
		}
		if !(tr.Start <= t && t <= tr.End) {
			c.Fail("family-contains/"+k.name, fmt.Sprintf("shard: t=%d family=[%d,%d]", t, tr.Start, tr.End))
		}
		if a, ok1 := write(tr.Start); !ok1 || a != tr {
			c.Fail("family-idempotent/"+k.name, fmt.Sprintf("shard: family of t=%d is [%d,%d] but its start maps to [%d,%d]", t, tr.Start, tr.End, a.Start, a.End))
		}
		if b, ok2 := write(tr.End); !ok2 || b != tr {
			c.Fail("family-idempotent/"+k.name, fmt.Sprintf("shard: family of t=%d is [%d,%d] but its end maps to [%d,%d]", t, tr.Start, tr.End, b.Start, b.End))
		}
	}
	// the family right after the first one
	if tr, okw := write(ts[0]); okw && tr.End+1 < windowEnd {
		if n, ok3 := write(tr.End + 1); !ok3 || n.Start != tr.End+1 {
			c.Fail("families-tile/"+k.name, fmt.Sprintf("shard: family [%d,%d] is followed by a family starting at %d", tr.Start, tr.End, n.Start))
		} else {
			ts = append(ts, tr.End+1)
		}
	}
	// range lookups over what was created: observation only (not diffed, never an oracle failure:
	// range lookup is outside C13's statement; the model's `gdf` op reproduces it for manual use)
	for j := 0; j < 4; j++ {
		qs := clampTS(anchor + r.Int63n(2*span) - span)
		qe := clampTS(qs + r.Int63n(span))
		observeGdf(c, shard, k, iv, qs, qe, ts)
	}
}

// observeGdf counts the families that intersect [qs,qe] but are not returned by
// Shard.GetDataFamilies; returns the starts of the returned families.
func observeGdf(c *core.Ctx, shard tsdb.Shard, k calcT, iv, qs, qe int64, ts []int64) []int64 {
	fams := shard.GetDataFamilies(timeutil.Interval(iv).Type(), timeutil.TimeRange{Start: qs, End: qe})
	var starts []int64
	sel := map[int64]bool{}
	for _, f := range fams {
		starts = append(starts, f.TimeRange().Start)
		sel[f.TimeRange().Start] = true
	}
	sort.Slice(starts, func(a, b int) bool { return starts[a] < starts[b] })
	for _, t := range ts {
		seg := k.calc.CalcSegmentTime(t)
		s := k.calc.CalcFamilyStartTime(seg, k.calc.CalcFamily(t, seg))
		e := k.calc.CalcFamilyEndTime(s)
		if s <= qe && qs <= e && !sel[s] {
			c.Branch("observation/family-in-range-not-returned/" + k.name)
			c.Note(fmt.Sprintf("Shard.GetDataFamilies(%s,[%d,%d]) returned %v, not the family [%d,%d] (model op: gdf %s %d %d | %s)",
				k.name, qs, qe, starts, s, e, k.name, qs, qe, joinInts(ts)))
			break
		}
	}
	return starts
}

// observeLookup: deterministic witness of the range-lookup observation on a real month-type shard:
// data written on 2023-06-27 and 2023-07-03, query 2023-06-25 .. 2023-07-05.
func observeLookup(c *core.Ctx) {
	dir, err := os.MkdirTemp("", "lvh-c13-*")
	if err != nil {
		return
	}
	defer os.RemoveAll(dir)
	cfg := config.NewDefaultStorageBase()
	cfg.TSDB.Dir = dir
	config.SetGlobalStorageConfig(cfg)
	engine, err := tsdb.NewEngine()
	if err != nil {
		c.Note("engine: " + err.Error())
		return
	}
	defer engine.Close()
	k := calcs[1]
	iv := 5 * min
	opt := &option.DatabaseOption{Intervals: option.Intervals{{Interval: timeutil.Interval(iv), Retention: timeutil.Interval(400 * 365 * day)}}}
	if err := engine.CreateShards("db", opt, models.ShardID(1)); err != nil {
		c.Note("create shard: " + err.Error())
		return
	}
	shard, ok := engine.GetShard("db", models.ShardID(1))
	if !ok {
		return
	}
	ts := []int64{ms(2023, 6, 27, 10, 0, 0, 0), ms(2023, 7, 3, 10, 0, 0, 0)}
	for _, t := range ts {
		if _, err := shard.GetOrCrateDataFamily(t); err != nil {
			c.Note("GetOrCrateDataFamily: " + err.Error())
			return
		}
	}
	got := observeGdf(c, shard, k, iv, ms(2023, 6, 25, 0, 0, 0, 0), ms(2023, 7, 5, 0, 0, 0, 0), ts)
	fmt.Printf("OBSERVATION month-type shard, families 2023-06-27 and 2023-07-03, GetDataFamilies(2023-06-25..2023-07-05) returned %d families %v\n", len(got), got)
}
