// Package c13 drives lindb's real time-bucketing code (pkg/timeutil interval calculators,
// Interval.Type/CalcSlotRange, CalcQueryInterval, Truncate, CalIntervalRatio,
// option.DatabaseOption.FindMatchSmallestInterval, query/context.calcTimeRangeAndInterval and,
// through a real tsdb engine, Shard.GetOrCrateDataFamily / GetDataFamilies) and mirrors every
// call in the C13 line protocol (see lean/LinVerif/Driver/C13.lean).
//
// Case layout (deterministic in (seed, case index)):
//
//	case 0            fixed witnesses (leap days, month/year ends, epoch, ladder thresholds)
//	case 1..131       calendar sweep of the year 1969+case: EVERY UTC day of that year (both tiers);
//	                  for each day and each calculator the day's first ms, last ms and one random
//	                  instant (thorough: four random instants)
//	case 132..        random streams: timestamps+slots, single calculator functions with arbitrary
//	                  arguments, range glue, planner, malformed inputs, real shard
//
// The impl-side oracle evaluates C13's statement on the real functions' outputs.
package c13

import (
	"fmt"
	"math/rand"
	"strings"
	"time"

	commontimeutil "github.com/lindb/common/pkg/timeutil"

	"github.com/lindb/lindb/kv"
	"github.com/lindb/lindb/models"
	"github.com/lindb/lindb/pkg/option"
	"github.com/lindb/lindb/pkg/timeutil"
	querycontext "github.com/lindb/lindb/query/context"
	"github.com/lindb/lindb/sql/stmt"

	"github.com/lindb/lindb/zzverif/internal/core"
)

type area struct{}

func init() { core.Register(area{}) }

func (area) Name() string { return "time" }

const (
	sec   = int64(1000)
	min   = 60 * sec
	hour  = 60 * min
	day   = 24 * hour
	month = 30 * day

	firstYear  = 1970
	lastYear   = 2100
	sweepCases = lastYear - firstYear + 1 // 131
)

type calcT struct {
	name string
	calc timeutil.IntervalCalculator
	// representative interval values of this calculator's class
	intervals []int64
	lo, hi    int64 // bounds of the class for random interval values
}

var calcs = []calcT{
	{"day", timeutil.Interval(10 * sec).Calculator(), []int64{sec, 5 * sec, 10 * sec, 30 * sec, min, 2 * min}, 1, 5*min - 1},
	{"month", timeutil.Interval(5 * min).Calculator(), []int64{5 * min, 10 * min, 15 * min, 30 * min}, 5 * min, hour - 1},
	{"year", timeutil.Interval(hour).Calculator(), []int64{hour, 2 * hour, 4 * hour, 12 * hour, day}, hour, 31 * day},
}

// windowEnd is 2101-01-01T00:00:00Z in ms.
var windowEnd = time.Date(lastYear+1, 1, 1, 0, 0, 0, 0, time.UTC).UnixMilli()

func typeName(t timeutil.IntervalType) string { return string(t) }

// guarded runs f; a panic becomes the output "panic" (expected=true: the model predicts it) or an
// oracle failure.
func guarded(c *core.Ctx, op string, expectedPanicOK bool, f func() string) {
	out := ""
	func() {
		defer func() {
			if r := recover(); r != nil {
				out = "panic"
				if !expectedPanicOK {
					c.Fail("panic", fmt.Sprintf("op %q panicked: %v", op, r))
				}
			}
		}()
		out = f()
	}()
	c.Op(op, out)
}

// opAll emits the `all` observation of one calculator at t and evaluates the bucketing part of
// C13 on the real outputs (t >= 0 only: negative timestamps are outside the property).
func opAll(c *core.Ctx, k calcT, t int64) {
	op := fmt.Sprintf("all %s %d", k.name, t)
	if zoneTrs != "" {
		op = fmt.Sprintf("zallt %s %d | %s", k.name, t, zoneTrs)
	} else if zoneTag != "" {
		op = fmt.Sprintf("zall %s %s %d", zoneTag, k.name, t)
	}
	guarded(c, op, false, func() string {
		calc := k.calc
		seg := calc.CalcSegmentTime(t)
		fam := calc.CalcFamily(t, seg)
		start := calc.CalcFamilyStartTime(seg, fam)
		end := calc.CalcFamilyEndTime(start)
		ft := calc.CalcFamilyTime(t)
		name := calc.GetSegment(t)
		if t >= 0 && t+zoneOffMs >= 0 && zoneOracle {
			checkBucket(c, k, t, name, seg, start, end, ft)
		}
		return fmt.Sprintf("%s %d %d %d %d %d", name, seg, fam, start, end, ft)
	})
}

func checkBucket(c *core.Ctx, k0 calcT, t int64, name string, seg, start, end, ft int64) {
	k := k0
	if zoneTag != "" { // same statement, evaluated with time.Local = a fixed-offset zone
		k.name = k0.name + "@zone" + zoneTag
	}
	calc := k.calc
	if !(start <= t && t <= end) {
		c.Fail("family-contains/"+k.name, fmt.Sprintf("t=%d family=[%d,%d]", t, start, end))
	}
	if ft != start {
		c.Fail("family-time/"+k.name, fmt.Sprintf("t=%d CalcFamilyTime=%d but segment/family/start path gives %d", t, ft, start))
	}
	if a, b := calc.CalcFamilyTime(start), calc.CalcFamilyTime(end); a != start || b != start {
		c.Fail("family-idempotent/"+k.name, fmt.Sprintf("t=%d family=[%d,%d] familyTime(start)=%d familyTime(end)=%d", t, start, end, a, b))
	}
	if n := calc.CalcFamilyTime(end + 1); n != end+1 {
		c.Fail("families-tile/"+k.name, fmt.Sprintf("t=%d family=[%d,%d] familyTime(end+1)=%d", t, start, end, n))
	}
	if start > 0 && start-1+zoneOffMs >= 0 {
		if pe := calc.CalcFamilyEndTime(calc.CalcFamilyTime(start - 1)); pe != start-1 {
			c.Fail("families-tile-prev/"+k.name, fmt.Sprintf("t=%d family start=%d previous family ends at %d", t, start, pe))
		}
	}
	if a, b := calc.CalcSegmentTime(start), calc.CalcSegmentTime(end); seg > start || a != seg || b != seg {
		c.Fail("segment-contains-family/"+k.name, fmt.Sprintf("t=%d seg=%d family=[%d,%d] seg(start)=%d seg(end)=%d", t, seg, start, end, a, b))
	}
	if p, err := calc.ParseSegmentTime(name); err != nil || p != seg {
		c.Fail("segment-name/"+k.name, fmt.Sprintf("t=%d GetSegment=%q ParseSegmentTime=%d,%v CalcSegmentTime=%d", t, name, p, err, seg))
	}
}

// opSlot emits CalcSlot at the family start of t and checks the slot bound.
func opSlot(c *core.Ctx, k calcT, t, interval int64) {
	base := k.calc.CalcFamilyTime(t)
	op := fmt.Sprintf("slot %s %d %d %d", k.name, t, base, interval)
	guarded(c, op, interval == 0, func() string {
		s := int64(k.calc.CalcSlot(t, base, interval))
		if t >= 0 && interval > 0 {
			if !(s >= 0 && base+s*interval <= t && t < base+(s+1)*interval) {
				key := "slot-bound/" + k.name
				if zoneTag != "" {
					key += "@zone" + zoneTag
				}
				c.Fail(key, fmt.Sprintf("t=%d familyStart=%d interval=%d slot=%d", t, base, interval, s))
			}
			if ts := timeutil.CalcTimestamp(base, int(s), timeutil.Interval(interval)); !(ts <= t && t < ts+interval) {
				c.Fail("slot-timestamp/"+k.name, fmt.Sprintf("t=%d familyStart=%d interval=%d slot=%d CalcTimestamp=%d", t, base, interval, s, ts))
			}
		}
		return fmt.Sprint(s)
	})
}

func randInterval(r *rand.Rand, k calcT) int64 {
	if r.Intn(3) > 0 {
		return k.intervals[r.Intn(len(k.intervals))]
	}
	return k.lo + r.Int63n(k.hi-k.lo+1)
}

// zone pass state: when zoneTag is set, time.Local is a non-UTC zone, `all` becomes `zall <tag>`
// (tag = offset in seconds east of UTC, or a named DST witness zone) and oracle keys get a suffix.
var (
	zoneTag    string
	zoneTrs    string // "off0 at1 off1 ...": the zone's transitions (DST pass, op `zallt`)
	zoneOffMs  int64
	zoneOracle = true
)

type zoneT struct {
	name string // "" = time.FixedZone
	off  int    // seconds east of UTC
}

// fixed-offset zones of the second pass (no DST in any of them); the named ones go through the tz
// database and time.LoadLocation, the others through time.FixedZone
var zones = []zoneT{
	{"Etc/GMT-8", 8 * 3600}, {"", 5*3600 + 1800}, {"", 5*3600 + 2700}, {"Etc/GMT+5", -5 * 3600}, {"", -11 * 3600},
	{"Etc/GMT-14", 14 * 3600}, {"", 3600}, {"", -(3*3600 + 1800)}, {"", 9*3600 + 1800}, {"", 12*3600 + 2700}, {"Etc/GMT+12", -12 * 3600},
}

// withZone runs f with time.Local = the zone and the zone pass state set; restores UTC afterwards.
func withZone(c *core.Ctx, z zoneT, f func(loc *time.Location)) {
	loc := time.FixedZone(fmt.Sprintf("F%+d", z.off), z.off)
	if z.name != "" {
		l, err := time.LoadLocation(z.name)
		if err != nil {
			c.Branch("zone/tzdata-missing-fallback-fixedzone")
		} else {
			loc = l
			c.Branch("zone/tzdata-named-zone")
		}
	}
	time.Local = loc
	zoneTag, zoneOffMs = fmt.Sprint(z.off), int64(z.off)*1000
	defer func() { time.Local = time.UTC; zoneTag, zoneOffMs = "", 0 }()
	f(loc)
}

func (area) Run(c *core.Ctx) error {
	time.Local = time.UTC // pkg/timeutil uses time.Local; the model is UTC
	for i := 0; i < c.N; i++ {
		if !c.Want(i) {
			continue
		}
		c.Begin(i)
		r := c.Rng(i)
		func() {
			defer func() {
				if e := recover(); e != nil {
					c.Fail("panic", fmt.Sprintf("case %d panicked: %v", i, e))
				}
			}()
			switch {
			case i == 0:
				witnesses(c)
			case i <= sweepCases:
				sweepYear(c, r, firstYear+i-1)
			default:
				randomCase(c, r, i)
			}
		}()
	}
	return nil
}

// ---------------------------------------------------------------- case 0

func ms(y int, m time.Month, d, hh, mm, ss, milli int) int64 {
	return time.Date(y, m, d, hh, mm, ss, milli*1000000, time.UTC).UnixMilli()
}

func witnesses(c *core.Ctx) {
	c.NonTrivial()
	ts := []int64{
		0, 1, 999, 1000, hour - 1, hour, day - 1, day,
		ms(1970, 1, 31, 23, 59, 59, 999), ms(1970, 2, 1, 0, 0, 0, 0),
		ms(1972, 2, 29, 12, 0, 0, 0), ms(1999, 12, 31, 23, 59, 59, 999), ms(2000, 1, 1, 0, 0, 0, 0),
		ms(2000, 2, 29, 23, 59, 59, 999), ms(2000, 3, 1, 0, 0, 0, 0), ms(2023, 6, 27, 0, 0, 0, 0),
		ms(2024, 2, 29, 12, 34, 56, 789), ms(2024, 12, 31, 23, 59, 59, 999), ms(2025, 1, 1, 0, 0, 0, 0),
		ms(2038, 1, 19, 3, 14, 7, 999), ms(2100, 2, 28, 23, 59, 59, 999), ms(2100, 3, 1, 0, 0, 0, 0),
		ms(2100, 12, 31, 23, 59, 59, 999),
	}
	for _, k := range calcs {
		for _, t := range ts {
			opAll(c, k, t)
			for _, iv := range k.intervals {
				opSlot(c, k, t, iv)
			}
		}
	}
	for _, iv := range []int64{-1, 0, 1, sec, 5*min - 1, 5 * min, hour - 1, hour, day, month} {
		opType(c, iv)
	}
	// every rung of the CalcQueryInterval ladder, one below / at each threshold
	for _, d := range []int64{hour, 3 * hour, 6 * hour, 12 * hour, day, 2 * day, 7 * day, month, 2 * month, 3 * month} {
		base := ms(2024, 2, 28, 7, 13, 5, 123)
		for _, dd := range []int64{d - 1, d} {
			opPlan(c, 0, base, base+dd, false, []int64{10 * sec, 5 * min, hour})
			opPlan(c, 0, base, base+dd, true, []int64{10 * sec, 5 * min, hour})
		}
	}
	// range lookup across a month / year / day boundary on real shards (what fix 8adefd6 repaired)
	observeLookup(c)
	// negative timestamps (outside the property, Props.C13.Neg.negative_*): correspondence only
	for _, k := range calcs {
		for _, t := range []int64{-1, -999, -1000, -2000, -86400500, -86400000, -86399999} {
			opAll(c, k, t)
		}
	}
	dstWitness(c)
	dstPass(c)
	ladderWitness(c)
	unalignedIntervalWitness(c)
	gocWitness(c)
	evictWitness(c)
}

// dstWitness replays Props.C13.Neg.dst_25h_day_slot_wraps on the real code with
// time.Local = America/New_York (tz database): DST zones are outside the model and outside the
// oracle; the `zall ny2024` / `slot` ops are diffed against the one-transition zone model.
func dstWitness(c *core.Ctx) {
	loc, err := time.LoadLocation("America/New_York")
	if err != nil {
		c.Branch("dst/tzdata-missing")
		fmt.Println("OBSERVATION DST witness skipped: tz database not available:", err)
		return
	}
	time.Local = loc
	zoneTag, zoneOracle = "ny2024", false
	defer func() { time.Local = time.UTC; zoneTag, zoneOracle = "", true }()
	monthK, dayK := calcs[1], calcs[0]
	base := time.Date(2024, 11, 3, 0, 0, 0, 0, loc).UnixMilli()
	for _, t := range []int64{base, base + hour, base + 90*min, base + 2*hour, base + 3*hour, base + 24*hour + 30*min, base + 25*hour - 1, base + 25*hour, base - 1,
		time.Date(2024, 11, 2, 12, 0, 0, 0, loc).UnixMilli(), time.Date(2024, 11, 5, 12, 0, 0, 0, loc).UnixMilli()} {
		opAll(c, monthK, t)
		opAll(c, dayK, t)
	}
	// C13's slot statement judged on the real code with time.Local = this DST zone (inside this
	// witness only): 23:30 EST on the 25-hour day 2024-11-03, and 23:30 EDT on the 23-hour day 2024-03-10
	judge := func(t int64, wantLen int64, key string) {
		ft := monthK.calc.CalcFamilyTime(t)
		fe := monthK.calc.CalcFamilyEndTime(ft)
		var slot int64
		guarded(c, fmt.Sprintf("slot month %d %d %d", t, ft, 5*min), false, func() string {
			slot = int64(monthK.calc.CalcSlot(t, ft, 5*min))
			return fmt.Sprint(slot)
		})
		if fe-ft+1 != wantLen*hour || !(ft <= t && t <= fe) {
			c.Fail("dst-family-range", fmt.Sprintf("America/New_York t=%d: month-type family [%d,%d] (%d h), expected the %d-hour local day containing t", t, ft, fe, (fe-ft+1)/hour, wantLen))
		}
		if !(ft+slot*5*min <= t && t < ft+(slot+1)*5*min) {
			c.Fail(key, fmt.Sprintf("time.Local=America/New_York, %d-hour local day: month-type family [%d,%d], t=%d, CalcSlot(t, familyStart, 5m)=%d but familyStart+slot*5m is %d ms below t (slot of t in the family: %d)",
				wantLen, ft, fe, t, slot, t-(ft+slot*5*min), (t-ft)/(5*min)))
		}
		fmt.Printf("OBSERVATION DST (America/New_York, %dh day): family [%d,%d], t=%d CalcSlot(5m)=%d, slot of t in the family=%d\n",
			wantLen, ft, fe, t, slot, (t-ft)/(5*min))
	}
	judge(base+24*hour+30*min, 25, "dst-25h-day-month-slot-wraps")
	judge(time.Date(2024, 3, 10, 23, 30, 0, 0, loc).UnixMilli(), 23, "dst-23h-day-month-slot")
}

// ---------------------------------------------------------------- calendar sweep

func sweepYear(c *core.Ctx, r *rand.Rand, year int) {
	c.NonTrivial()
	// every day in both tiers (a year costs ~3300 ops); thorough samples more instants per day
	extra := 0
	if c.Tier == "thorough" {
		extra = 3
	}
	d0 := time.Date(year, 1, 1, 0, 0, 0, 0, time.UTC)
	for d := d0; d.Year() == year; d = d.AddDate(0, 0, 1) {
		next := d.AddDate(0, 0, 1)
		boundary := d.Day() == 1 || next.Day() == 1
		start := d.UnixMilli()
		if next.UnixMilli()-start != day {
			c.Fail("harness-not-utc", fmt.Sprintf("day %s is not 24h long: the harness must run in UTC", d.Format("2006-01-02")))
		}
		inst := start + r.Int63n(day)
		if boundary {
			c.Branch("sweep/month-boundary-day")
		}
		if d.Month() == time.February && d.Day() == 29 {
			c.Branch("sweep/leap-day")
		}
		c.Branch("sweep/day")
		for _, k := range calcs {
			opAll(c, k, start)
			opAll(c, k, start+day-1)
			opAll(c, k, inst)
			for e := 0; e < extra; e++ {
				opAll(c, k, start+r.Int63n(day))
			}
		}
		// one slot check per day on the random instant
		k := calcs[r.Intn(len(calcs))]
		opSlot(c, k, inst, randInterval(r, k))
	}
	// second pass: the same year, every LOCAL day of a fixed-offset zone through time.Local
	// (fixed_offset_translation): first ms, last ms and a random instant of the local day
	withZone(c, zones[(year-firstYear)%len(zones)], func(loc *time.Location) {
		for d := time.Date(year, 1, 1, 0, 0, 0, 0, loc); d.Year() == year; d = d.AddDate(0, 0, 1) {
			start := d.UnixMilli()
			if start < 0 {
				continue
			}
			c.Branch("sweep/zone-day")
			inst := start + r.Int63n(day)
			for _, k := range calcs {
				opAll(c, k, start)
				opAll(c, k, start+day-1)
				opAll(c, k, inst)
			}
			k := calcs[r.Intn(len(calcs))]
			opSlot(c, k, inst, randInterval(r, k))
		}
	})
}

// ---------------------------------------------------------------- random streams

func randTimestamp(r *rand.Rand) int64 {
	switch r.Intn(6) {
	case 0: // near a day boundary
		return clampTS(r.Int63n(windowEnd/day)*day + int64(r.Intn(5)) - 2)
	case 1: // near a month boundary
		y, m := firstYear+r.Intn(sweepCases), time.Month(1+r.Intn(12))
		return clampTS(ms(y, m, 1, 0, 0, 0, 0) + int64(r.Intn(5)) - 2)
	case 2: // near an hour boundary
		return clampTS(r.Int63n(windowEnd/hour)*hour + int64(r.Intn(5)) - 2)
	default:
		return r.Int63n(windowEnd)
	}
}

func clampTS(t int64) int64 {
	if t < 0 {
		return 0
	}
	if t >= windowEnd {
		return windowEnd - 1
	}
	return t
}

func randomCase(c *core.Ctx, r *rand.Rand, i int) {
	kind := r.Intn(20)
	switch {
	case kind < 7:
		c.Branch("stream/timestamps")
		c.NonTrivial()
		for j := 0; j < 24; j++ {
			k := calcs[r.Intn(len(calcs))]
			t := randTimestamp(r)
			opAll(c, k, t)
			iv := randInterval(r, k)
			opSlot(c, k, t, iv)
			opType(c, iv)
			if r.Intn(2) == 0 {
				opSlotRange(c, r, t, iv)
			}
		}
	case kind < 10:
		c.Branch("stream/functions")
		c.NonTrivial()
		for j := 0; j < 24; j++ {
			opFunction(c, r)
		}
	case kind < 12:
		c.Branch("stream/ranges")
		c.NonTrivial()
		for j := 0; j < 16; j++ {
			opRangeGlue(c, r)
		}
	case kind < 14:
		c.Branch("stream/planner")
		c.NonTrivial()
		for j := 0; j < 16; j++ {
			randomPlan(c, r)
		}
	case kind < 15:
		if r.Intn(2) == 0 {
			c.Branch("stream/ladder")
			ladderCase(c, r)
		} else {
			c.Branch("stream/text-windows")
			c.NonTrivial()
			textCase(c, r)
		}
	case kind < 17:
		c.Branch("stream/broker")
		c.NonTrivial()
		brokerCase(c, r)
	case kind < 18:
		c.Branch("stream/rollup")
		c.NonTrivial()
		for j := 0; j < 16; j++ {
			opRollup(c, r)
		}
	case kind < 19:
		c.Branch("stream/malformed")
		malformed(c, r)
	default:
		switch r.Intn(5) {
		case 4:
			if r.Intn(3) == 0 {
				c.Branch("stream/shard-daylight-saving-zone")
				dstShardCase(c, r)
			} else {
				c.Branch("stream/shard-fixed-offset-zone")
				zoneShardCase(c, r)
			}
		case 0:
			c.Branch("stream/shard-concurrent-writers")
			gocCase(c, r)
		case 1:
			c.Branch("stream/shard-writers-and-eviction")
			evictCase(c, r)
		default:
			c.Branch("stream/shard")
			shardCase(c, r, i)
		}
	}
}

func opType(c *core.Ctx, iv int64) {
	guarded(c, fmt.Sprintf("type %d", iv), false, func() string {
		t := timeutil.Interval(iv).Type()
		c.Branch("type/" + typeName(t))
		return typeName(t)
	})
}

// opSlotRange emits Interval.CalcSlotRange for the family of t and a query range of one of several
// shapes (wide, inside the family, one slot wide, a single point, planner-aligned, disjoint) and
// checks C13 on the result: when the query range meets the family, Start/End are the slots of the
// first / last requested timestamp inside the family (slot·interval within one interval below it).
func opSlotRange(c *core.Ctx, r *rand.Rand, t, iv int64) {
	// the calculator used by CalcSlotRange is the one of iv's own type
	calc := timeutil.Interval(iv).Calculator()
	ft := calc.CalcFamilyTime(t)
	fe := calc.CalcFamilyEndTime(ft)
	var qs, qe int64
	shape := r.Intn(7)
	switch shape {
	case 0: // wide
		qs, qe = t-r.Int63n(2*day), t+r.Int63n(2*day)
	case 1: // inside the family
		qs = ft + r.Int63n(fe-ft+1)
		qe = qs + r.Int63n(fe-qs+1)
	case 2: // single point
		qs, qe = t, t
	case 3: // single point aligned to the interval (what the planner produces for a window inside one slot)
		qs = timeutil.Truncate(t, iv)
		qe = qs
	case 4: // planner-aligned short range
		qs = timeutil.Truncate(t, iv)
		qe = timeutil.Truncate(t+int64(r.Intn(4))*iv, iv)
	case 5: // one slot wide, unaligned
		qs = t
		qe = t + r.Int63n(iv)
	default: // disjoint from the family (result unspecified by C13; correspondence only)
		qs = fe + 1 + r.Int63n(day)
		qe = qs + r.Int63n(day)
	}
	c.Branch(fmt.Sprintf("slotrange/shape-%d", shape))
	opSlotRangeOf(c, iv, t, qs, qe)
}

// opSlotRangeOf: CalcSlotRange of the family of t (interval iv's own calculator) and [qs,qe].
func opSlotRangeOf(c *core.Ctx, iv, t, qs, qe int64) {
	calc := timeutil.Interval(iv).Calculator()
	tn := typeName(timeutil.Interval(iv).Type())
	ft := calc.CalcFamilyTime(t)
	fe := calc.CalcFamilyEndTime(ft)
	op := fmt.Sprintf("slotrange %d %d %d %d", iv, ft, qs, qe)
	guarded(c, op, iv == 0, func() string {
		sr := timeutil.Interval(iv).CalcSlotRange(ft, timeutil.TimeRange{Start: qs, End: qe})
		lo, hi := qs, qe
		if lo < ft {
			lo = ft
		}
		if hi > fe {
			hi = fe
		}
		if t >= 0 && iv > 0 && lo <= hi && (fe-ft)/iv < 65536 {
			a, b := int64(sr.Start), int64(sr.End)
			if !(ft+a*iv <= lo && lo < ft+(a+1)*iv && ft+b*iv <= hi && hi < ft+(b+1)*iv) {
				key := "slot-range/" + tn
				if lo == hi || a == b {
					key = "slot-range-single/" + tn
				}
				c.Fail(key, fmt.Sprintf("CalcSlotRange(interval=%d, family=%d, [%d,%d]) = [%d,%d]: requested part of the family is [%d,%d], its first/last slots are [%d,%d]",
					iv, ft, qs, qe, a, b, lo, hi, (lo-ft)/iv, (hi-ft)/iv))
			}
			if lo == hi {
				c.Branch("slotrange/single-point")
			}
		}
		return fmt.Sprintf("%d %d", sr.Start, sr.End)
	})
}

// opFunction calls one calculator function with arbitrary (also out-of-range / negative) arguments.
func opFunction(c *core.Ctx, r *rand.Rand) {
	k := calcs[r.Intn(len(calcs))]
	t := randTimestamp(r)
	if r.Intn(8) == 0 {
		t = -r.Int63n(50 * 365 * day) // before the epoch: correspondence only
		c.Branch("fn/negative-timestamp")
	}
	switch r.Intn(7) {
	case 0:
		guarded(c, fmt.Sprintf("seg %s %d", k.name, t), false, func() string { return fmt.Sprint(k.calc.CalcSegmentTime(t)) })
	case 1:
		seg := k.calc.CalcSegmentTime(randTimestamp(r))
		guarded(c, fmt.Sprintf("fam %s %d %d", k.name, t, seg), false, func() string { return fmt.Sprint(k.calc.CalcFamily(t, seg)) })
	case 2:
		seg := k.calc.CalcSegmentTime(t)
		fam := r.Intn(44) - 3
		guarded(c, fmt.Sprintf("fstart %s %d %d", k.name, seg, fam), false, func() string {
			return fmt.Sprint(k.calc.CalcFamilyStartTime(seg, fam))
		})
	case 3:
		guarded(c, fmt.Sprintf("fend %s %d", k.name, t), false, func() string { return fmt.Sprint(k.calc.CalcFamilyEndTime(t)) })
	case 4:
		guarded(c, fmt.Sprintf("ftime %s %d", k.name, t), false, func() string { return fmt.Sprint(k.calc.CalcFamilyTime(t)) })
	case 5:
		base := randTimestamp(r)
		iv := randInterval(r, k)
		guarded(c, fmt.Sprintf("slot %s %d %d %d", k.name, t, base, iv), iv == 0, func() string {
			return fmt.Sprint(k.calc.CalcSlot(t, base, iv))
		})
	default:
		start, slot, iv := randTimestamp(r), r.Intn(4000), randInterval(r, k)
		guarded(c, fmt.Sprintf("ts %d %d %d", start, slot, iv), false, func() string {
			return fmt.Sprint(timeutil.CalcTimestamp(start, slot, timeutil.Interval(iv)))
		})
	}
}

// observeFqr evaluates the family range expressions of segment.GetDataFamilies on the real
// calculators. Range lookup is outside C13's statement, so this is counted, not diffed (the
// model's `fqr` op exists for manual use).
func observeFqr(c *core.Ctx, k calcT, base, qs, qe int64) {
	s := k.calc.CalcFamilyStartTime(base, k.calc.CalcFamily(qs, base))
	e := k.calc.CalcFamilyStartTime(base, k.calc.CalcFamily(qe, base))
	if s > e && qs <= qe {
		c.Branch("observation/family-query-range-inverted/" + k.name)
	}
}

// opRangeGlue mirrors the family-range glue of segment.go / row_broker.go on the real calculators
// and the real TimeRange methods.
func opRangeGlue(c *core.Ctx, r *rand.Rand) {
	k := calcs[r.Intn(len(calcs))]
	t := randTimestamp(r)
	switch r.Intn(5) {
	case 0:
		base := k.calc.CalcSegmentTime(t)
		if r.Intn(4) == 0 {
			base = k.calc.CalcSegmentTime(randTimestamp(r))
		}
		guarded(c, fmt.Sprintf("wrange %s %d %d", k.name, base, t), false, func() string {
			// segment.GetOrCreateDataFamily + initDataFamily
			if k.calc.CalcSegmentTime(t) != base {
				c.Branch("wrange/nomatch")
				return "nomatch"
			}
			fam := k.calc.CalcFamily(t, base)
			s := k.calc.CalcFamilyStartTime(base, fam)
			return fmt.Sprintf("%d %d", s, k.calc.CalcFamilyEndTime(s))
		})
	case 1:
		guarded(c, fmt.Sprintf("brange %s %d", k.name, t), false, func() string {
			// BrokerBatchShardFamilyIterator.timeRangeOfTimestamp
			seg := k.calc.CalcSegmentTime(t)
			fam := k.calc.CalcFamily(t, seg)
			s := k.calc.CalcFamilyStartTime(seg, fam)
			return fmt.Sprintf("%d %d", s, k.calc.CalcFamilyEndTime(s))
		})
	case 2:
		base := k.calc.CalcSegmentTime(t)
		qs := t - r.Int63n(40*day)
		qe := t + r.Int63n(40*day)
		observeFqr(c, k, base, qs, qe)
	default:
		a := timeutil.TimeRange{Start: t, End: t + r.Int63n(3*day) - day/2}
		u := randTimestamp(r)
		if r.Intn(2) == 0 {
			u = t + r.Int63n(4*day) - 2*day
		}
		b := timeutil.TimeRange{Start: u, End: u + r.Int63n(3*day) - day/2}
		guarded(c, fmt.Sprintf("overlap %d %d %d %d", a.Start, a.End, b.Start, b.End), false, func() string {
			return fmt.Sprint(a.Overlap(b))
		})
		guarded(c, fmt.Sprintf("intersect %d %d %d %d", a.Start, a.End, b.Start, b.End), false, func() string {
			x := a.Intersect(b)
			return fmt.Sprintf("%d %d", x.Start, x.End)
		})
	}
}

// ---------------------------------------------------------------- planner

var stdIntervals = []int64{sec, 5 * sec, 10 * sec, 30 * sec, min, 2 * min, 5 * min, 10 * min, 30 * min, hour, 2 * hour, 4 * hour, 12 * hour, day}

var ladderDiffs = []int64{hour, 3 * hour, 6 * hour, 12 * hour, day, 2 * day, 7 * day, month, 2 * month, 3 * month}

func joinInts(xs []int64) string {
	s := make([]string, len(xs))
	for i, x := range xs {
		s[i] = fmt.Sprint(x)
	}
	return strings.Join(s, " ")
}

func mkOption(ivs []int64) *option.DatabaseOption {
	o := &option.DatabaseOption{}
	for _, v := range ivs {
		o.Intervals = append(o.Intervals, option.Interval{Interval: timeutil.Interval(v), Retention: timeutil.Interval(400 * 365 * day)})
	}
	return o
}

// randOption: mostly a valid option (one interval per type, ascending as the engine keeps them),
// sometimes unsorted, sometimes arbitrary positive values.
func randOption(c *core.Ctx, r *rand.Rand) []int64 {
	switch r.Intn(10) {
	case 0:
		c.Branch("option/arbitrary")
		n := 1 + r.Intn(4)
		ivs := make([]int64, n)
		for i := range ivs {
			ivs[i] = 1 + r.Int63n(2*day)
		}
		return ivs
	default:
		var ivs []int64
		ivs = append(ivs, calcs[0].intervals[r.Intn(len(calcs[0].intervals))])
		if r.Intn(3) > 0 {
			ivs = append(ivs, calcs[1].intervals[r.Intn(len(calcs[1].intervals))])
		}
		if r.Intn(3) > 0 {
			ivs = append(ivs, calcs[2].intervals[r.Intn(len(calcs[2].intervals))])
		}
		if r.Intn(6) == 0 && len(ivs) > 1 {
			c.Branch("option/unsorted")
			r.Shuffle(len(ivs), func(i, j int) { ivs[i], ivs[j] = ivs[j], ivs[i] })
		} else {
			c.Branch("option/valid-sorted")
		}
		return ivs
	}
}

func randomPlan(c *core.Ctx, r *rand.Rand) {
	ivs := randOption(c, r)
	var interval int64
	switch r.Intn(4) {
	case 0:
		interval = 0
	case 1:
		interval = stdIntervals[r.Intn(len(stdIntervals))]
	case 2:
		interval = ivs[r.Intn(len(ivs))] * int64(1+r.Intn(6))
	default:
		interval = 1 + r.Int63n(3*day)
	}
	start := randTimestamp(r)
	var diff int64
	switch r.Intn(3) {
	case 0:
		diff = ladderDiffs[r.Intn(len(ladderDiffs))] + int64(r.Intn(3)) - 1
	case 1:
		diff = r.Int63n(100 * day)
	default:
		diff = r.Int63n(2 * hour)
	}
	if r.Intn(5) == 0 { // a window shorter than one storage slot: the planned range collapses to a point
		diff = r.Int63n(ivs[0])
	}
	auto := r.Intn(4) == 0
	if r.Intn(4) == 0 {
		// boundary region: interval equal to / a multiple of / one off a multiple of a stored interval,
		// range of length 0, 1, storage-1, storage, interval-1, interval, interval+1, start on / one
		// before / at the last ms of a storage slot, with and without auto group-by time
		c.Branch("plan/boundary-region")
		st := ivs[r.Intn(len(ivs))]
		k := int64(1 + r.Intn(4))
		interval = []int64{st, k * st, k*st + 1, k*st - 1, st - 1, 0}[r.Intn(6)]
		if interval < 0 {
			interval = 0
		}
		start = clampTS(start/st*st + []int64{0, -1, st - 1, 1}[r.Intn(4)])
		iv := interval
		if iv <= 0 {
			iv = st
		}
		diff = []int64{0, 1, st - 1, st, st + 1, iv - 1, iv, iv + 1, 2*iv - 1}[r.Intn(9)]
		if diff < 0 {
			diff = 0
		}
		auto = r.Intn(2) == 0
	}
	if ps, pe, st, ok := opPlan(c, interval, start, start+diff, auto, ivs); ok && st > 0 && r.Intn(2) == 0 {
		// the slot range the storage side reads for the planned range, in the families of its start and end
		opSlotRangeOf(c, st, ps, ps, pe)
		opSlotRangeOf(c, st, pe, ps, pe)
	}
	switch r.Intn(4) {
	case 0:
		guarded(c, fmt.Sprintf("qi %d %d %d", start, start+diff, interval), false, func() string {
			return fmt.Sprint(timeutil.CalcQueryInterval(timeutil.TimeRange{Start: start, End: start + diff}, timeutil.Interval(interval)).Int64())
		})
	case 1:
		q := stdIntervals[r.Intn(len(stdIntervals))] + int64(r.Intn(3)) - 1
		guarded(c, fmt.Sprintf("match %d | %s", q, joinInts(ivs)), false, func() string {
			s := mkOption(ivs).FindMatchSmallestInterval(timeutil.Interval(q)).Int64()
			found := false
			for _, v := range ivs {
				found = found || v == s
			}
			if !found {
				c.Fail("planner-stored", fmt.Sprintf("FindMatchSmallestInterval(%d) on %v returned %d", q, ivs, s))
			}
			return fmt.Sprint(s)
		})
	case 2:
		iv := ivs[r.Intn(len(ivs))]
		guarded(c, fmt.Sprintf("trunc %d %d", start, iv), iv == 0, func() string {
			return fmt.Sprint(timeutil.Truncate(start, iv))
		})
	default:
		q, s := stdIntervals[r.Intn(len(stdIntervals))], ivs[r.Intn(len(ivs))]
		guarded(c, fmt.Sprintf("ratio %d %d", q, s), false, func() string {
			return fmt.Sprint(timeutil.CalIntervalRatio(q, s))
		})
	}
}

// opPlan runs the real calcTimeRangeAndInterval and checks the planner part of C13 on its result
// when the option is valid (non-empty, positive intervals) and the range is non-negative.
func opPlan(c *core.Ctx, interval, start, end int64, auto bool, ivs []int64) (ps, pe, storage int64, ok bool) {
	a := 0
	if auto {
		a = 1
	}
	valid := len(ivs) > 0
	for _, v := range ivs {
		valid = valid && v > 0
	}
	op := fmt.Sprintf("plan %d %d %d %d | %s", interval, start, end, a, joinInts(ivs))
	guarded(c, op, !valid, func() string {
		q := &stmt.Query{Interval: timeutil.Interval(interval), TimeRange: timeutil.TimeRange{Start: start, End: end}, AutoGroupByTime: auto}
		querycontext.VerifCalcTimeRangeAndInterval(q, models.Database{Name: "db", Option: mkOption(ivs)})
		s, qi, ratio := q.StorageInterval.Int64(), q.Interval.Int64(), int64(q.IntervalRatio)
		if valid && start >= 0 && end >= 0 {
			found := false
			for _, v := range ivs {
				found = found || v == s
			}
			if !found {
				c.Fail("planner-stored", fmt.Sprintf("%s: storage interval %d is not one of the option's", op, s))
			}
			if ratio < 1 || qi != ratio*s {
				c.Fail("planner-multiple", fmt.Sprintf("%s: interval=%d ratio=%d storage=%d", op, qi, ratio, s))
			}
			if s > 0 {
				ps, pe := q.TimeRange.Start, q.TimeRange.End
				if ps%s != 0 || pe%s != 0 || !(ps <= start && start < ps+s) || !(pe <= end && end < pe+s) {
					c.Fail("planner-aligned", fmt.Sprintf("%s: planned range [%d,%d] storage=%d", op, ps, pe, s))
				}
				// every requested slot (sampled) is inside the planned range
				for _, t := range []int64{start, end, start + (end-start)/2, start + (end-start)/3} {
					if t >= start && t <= end {
						if tt := timeutil.Truncate(t, s); tt < ps || tt > pe {
							c.Fail("planner-contains", fmt.Sprintf("%s: slot %d of t=%d outside planned range [%d,%d]", op, tt, t, ps, pe))
						}
					}
				}
			}
			if s > 0 && start <= end {
				ps, pe := q.TimeRange.Start, q.TimeRange.End
				if auto && !(pe-ps+s <= qi && pe < ps+qi) {
					c.Fail("planner-auto-one-bucket", fmt.Sprintf("%s: auto group-by time: planned range [%d,%d] storage=%d does not fit into one bucket of the returned interval %d", op, ps, pe, s, qi))
				}
				if (ps == pe) != (start/s == end/s) {
					c.Fail("planner-collapsed", fmt.Sprintf("%s: planned range [%d,%d]: collapsed=%v but the requested ends share a storage slot=%v", op, ps, pe, ps == pe, start/s == end/s))
				}
				if interval == s {
					c.Branch("plan/interval==storage")
				}
				if start == end {
					c.Branch("plan/point-range")
				}
				if interval > 0 && end-start < interval {
					c.Branch("plan/range-shorter-than-interval")
				}
			}
			if ratio > 1 {
				c.Branch("plan/ratio>1")
			} else {
				c.Branch("plan/ratio=1")
			}
			if auto {
				c.Branch("plan/auto-group-by-time")
			}
			if q.TimeRange.Start == q.TimeRange.End {
				c.Branch("plan/range-collapsed-to-one-slot")
			}
			c.Branch("plan/storage-type-" + typeName(q.StorageInterval.Type()))
		}
		ps, pe, storage, ok = q.TimeRange.Start, q.TimeRange.End, s, valid && start >= 0 && end >= 0
		return fmt.Sprintf("%d %d %d %d %d", q.TimeRange.Start, q.TimeRange.End, s, qi, ratio)
	})
	return ps, pe, storage, ok
}

// malformed: inputs on which the Go code panics (empty option, zero interval) or that are outside
// the property (negative / zero intervals, negative timestamps): correspondence only.
func malformed(c *core.Ctx, r *rand.Rand) {
	start := randTimestamp(r)
	opPlan(c, 0, start, start+hour, false, nil)
	opPlan(c, 10*sec, start, start+hour, false, nil)
	opPlan(c, 0, start, start+hour, false, []int64{0})
	opPlan(c, 0, start, start+hour, true, []int64{-10 * sec, 5 * min})
	opPlan(c, -5, -start, -start+3*day, r.Intn(2) == 0, []int64{10 * sec, 5 * min, hour})
	guarded(c, fmt.Sprintf("match %d |", 10*sec), true, func() string {
		return fmt.Sprint(mkOption(nil).FindMatchSmallestInterval(timeutil.Interval(10 * sec)).Int64())
	})
	guarded(c, fmt.Sprintf("trunc %d 0", start), true, func() string { return fmt.Sprint(timeutil.Truncate(start, 0)) })
	guarded(c, fmt.Sprintf("trunc %d %d", -start, 7*sec), false, func() string { return fmt.Sprint(timeutil.Truncate(-start, 7*sec)) })
	guarded(c, "ratio 10 0", false, func() string { return fmt.Sprint(timeutil.CalIntervalRatio(10, 0)) })
	guarded(c, "ratio 10 -3", false, func() string { return fmt.Sprint(timeutil.CalIntervalRatio(10, -3)) })
	for _, k := range calcs {
		opSlot(c, k, start, 0)
		opAll(c, k, -start)
	}
	c.Branch("malformed/expected-panics")
	_ = commontimeutil.OneDay
}

// ---------------------------------------------------------------- rollup relation

// opRollup builds the rollup relation as kv's family.rollup does (target family time = the target
// interval's CalcFamilyTime of the source family start) through kv.VerifNewRollup and checks C13's
// slot statement on it: the target slot of a source timestamp is the target interval's slot of that
// timestamp in the target family.
func opRollup(c *core.Ctx, r *rand.Rand) {
	pairs := [][2]int64{{10 * sec, 5 * min}, {10 * sec, hour}, {5 * min, hour}, {sec, 10 * min}, {30 * sec, 30 * min},
		{min, 4 * hour}, {10 * sec, 7 * min}, {min, 45 * min}, {10 * sec, 90 * min}, {5 * min, 5 * hour}, {5 * min, day}, {10 * sec, min}}
	p := pairs[r.Intn(len(pairs))]
	src, tgt := p[0], p[1]
	if r.Intn(8) == 0 {
		src = 1 + r.Int63n(5*min-1)
		tgt = src * int64(2+r.Intn(500))
	}
	t := randTimestamp(r)
	srcCalc := timeutil.Interval(src).Calculator()
	sft := srcCalc.CalcFamilyTime(t)
	sfe := srcCalc.CalcFamilyEndTime(sft)
	slot := r.Int63n((sfe-sft)/src + 1)
	if slot > 65535 {
		slot = 65535
	}
	op := fmt.Sprintf("rollup %d %d %d %d", src, tgt, sft, slot)
	guarded(c, op, false, func() string {
		tgtCalc := timeutil.Interval(tgt).Calculator()
		// family.rollup: tSegmentTime / tFamilyTime / fSTime
		tSeg := tgtCalc.CalcSegmentTime(sft)
		tft := tgtCalc.CalcFamilyStartTime(tSeg, tgtCalc.CalcFamily(sft, tSeg))
		ru := kv.VerifNewRollup(src, tgt, sft, tft)
		ts := ru.GetTimestamp(uint16(slot))
		tslot := int64(ru.CalcSlot(ts))
		base := int64(ru.BaseSlot())
		tfe := tgtCalc.CalcFamilyEndTime(tft)
		if (tfe-tft)/tgt < 65536 {
			if !(tft+tslot*tgt <= ts && ts < tft+(tslot+1)*tgt) {
				c.Fail("rollup-slot/"+typeName(timeutil.Interval(tgt).Type()), fmt.Sprintf("rollup %d->%d source family %d target family %d: CalcSlot(%d)=%d, not the target slot of that timestamp (%d)", src, tgt, sft, tft, ts, tslot, (ts-tft)/tgt))
			}
			if !(tft+base*tgt <= sft && sft < tft+(base+1)*tgt) {
				c.Fail("rollup-base-slot/"+typeName(timeutil.Interval(tgt).Type()), fmt.Sprintf("rollup %d->%d source family %d target family %d: BaseSlot=%d", src, tgt, sft, tft, base))
			}
		}
		if tgt%src != 0 || (hour%tgt != 0 && tgt%hour != 0) {
			c.Branch("rollup/irregular-pair")
		} else {
			c.Branch("rollup/regular-pair")
		}
		return fmt.Sprintf("%d %d %d %d %d", tft, ru.IntervalRatio(), base, ts, tslot)
	})
}

// ---------------------------------------------------------------- daylight-saving pass

// zoneTransitions scans loc from a few days before year's Jan 1 to mid-February of the next year
// and returns the offset at the start and every (UTC second, new offset) change (binary search
// inside the day where the offset changes).
func zoneTransitions(loc *time.Location, year int) (off0 int, trs [][2]int64) {
	offAt := func(s int64) int { _, o := time.Unix(s, 0).In(loc).Zone(); return o }
	from := time.Date(year-1, 12, 20, 0, 0, 0, 0, time.UTC).Unix()
	to := time.Date(year+1, 2, 15, 0, 0, 0, 0, time.UTC).Unix()
	off0 = offAt(from)
	cur := off0
	for s := from; s < to; s += 86400 {
		if o := offAt(s + 86400); o != cur {
			lo, hi := s, s+86400 // offAt(lo) == cur, offAt(hi) != cur
			for hi-lo > 1 {
				mid := (lo + hi) / 2
				if offAt(mid) == cur {
					lo = mid
				} else {
					hi = mid
				}
			}
			cur = offAt(hi)
			trs = append(trs, [2]int64{hi, int64(cur)})
		}
	}
	return off0, trs
}

// dstPass judges the segment / family / slot statements of C13 for the day-, month- and year-type
// calculators with time.Local = a daylight-saving zone (inside this function only): for several
// years, the days around every offset change (the day before, the transition day, the day after),
// a fixed set of instants per day. Every observation is also diffed against the zone model built
// from the zone's transitions (`zallt`). Oracle keys carry the suffix `@dst:<zone>`.
func dstPass(c *core.Ctx) {
	defer func() { time.Local = time.UTC; zoneTag, zoneTrs = "", "" }()
	for _, zn := range []string{"America/New_York", "Australia/Lord_Howe"} {
		loc, err := time.LoadLocation(zn)
		if err != nil {
			c.Branch("dst/tzdata-missing")
			continue
		}
		for _, year := range []int{1987, 2007, 2024, 2031} {
			off0, trs := zoneTransitions(loc, year)
			parts := []string{fmt.Sprint(off0)}
			for _, tr := range trs {
				parts = append(parts, fmt.Sprint(tr[0]), fmt.Sprint(tr[1]))
			}
			if year <= 2024 {
				// historical years: the zone data the Lean table (Model/C13DstZones.lean, proved to satisfy
				// the local-midnight contract) was taken from must be what the tz database says today
				c.Op(fmt.Sprintf("dstzone %s@%d", zn, year), strings.Join(parts, " "))
			}
			time.Local = loc
			zoneTag, zoneTrs = "dst:"+zn, strings.Join(parts, " ")
			for _, tr := range trs {
				at := time.Unix(tr[0], 0).In(loc)
				if at.Year() != year {
					continue
				}
				c.Branch("dst/transition-day")
				for dd := -1; dd <= 1; dd++ {
					d0 := time.Date(at.Year(), at.Month(), at.Day()+dd, 0, 0, 0, 0, loc)
					d1 := time.Date(at.Year(), at.Month(), at.Day()+dd+1, 0, 0, 0, 0, loc)
					start, next := d0.UnixMilli(), d1.UnixMilli()
					if next-start != day {
						c.Branch(fmt.Sprintf("dst/day-length-%dmin", (next-start)/min))
					}
					var inst []int64
					for off := int64(0); off <= 4*hour; off += 30 * min {
						inst = append(inst, start+off, start+off+17*min+123)
					}
					inst = append(inst, tr[0]*1000-1, tr[0]*1000, tr[0]*1000+1, start+12*hour, next-90*min, next-30*min-1, next-30*min, next-1)
					for _, t := range inst {
						if t < start-1 || t > next {
							continue
						}
						for _, k := range calcs {
							opAll(c, k, t)
							opSlot(c, k, t, k.intervals[int(t/1000)%len(k.intervals)])
						}
					}
				}
			}
		}
	}
}

// ladderWitness: deterministic ladders in case 0 (sorted, unsorted, duplicate type adjacent and not
// adjacent, empty).
func ladderWitness(c *core.Ctx) {
	for _, ivs := range [][]int64{{10 * sec, 5 * min, hour}, {hour, 10 * sec, 5 * min}, {10 * sec, hour, min}, {5 * min, 10 * sec, 30 * min},
		{hour, min, 4 * hour}, {10 * sec, min, hour}, {10 * sec}, {}} {
		types := map[timeutil.IntervalType]bool{}
		for _, v := range ivs {
			types[timeutil.Interval(v).Type()] = true
		}
		want := len(ivs) > 0 && len(types) == len(ivs)
		guarded(c, "validate | "+joinInts(ivs), false, func() string {
			err := mkOption(ivs).Validate()
			if (err == nil) != want {
				c.Fail("ladder-validate", fmt.Sprintf("DatabaseOption.Validate() on intervals %v (types pairwise distinct: %v) = %v", ivs, want, err))
			}
			switch {
			case err == nil:
				return "ok"
			case strings.Contains(err.Error(), "cannot be empty"):
				return "empty"
			case strings.Contains(err.Error(), "duplicate interval type"):
				return "duplicate"
			}
			return "error"
		})
	}
}
