package c05

import (
	"bytes"
	"fmt"
	"math/rand"
	"runtime/debug"
	"sort"
	"time"

	"github.com/lindb/lindb/pkg/queue"
)

// metawriters.go: the writers of the queue's meta page — Put (persistMetaOfMessage),
// SetAppendedSeq, SetAcknowledgedSeq — run as goroutines on the REAL queue; every store into the
// meta page goes through the wrapped MappedPage, which parks the calling goroutine right BEFORE
// the store. The scheduler below advances one goroutine at a time from store to store
// (`mw-run t`), probes the queue lock while a goroutine is parked (VerifC05LockHeld) and starts
// another caller only while the lock is free — i.e. exactly in the windows in which the code
// lets another caller in. The model (Model/C05QueueMeta.lean, programs decoded from the
// regenerated lock-region facts) executes the same ops.
//
// Oracle (impl side, independent of the model): every sequence handed out by a Put that returned
// nil (and that no later SetAppendedSeq discarded) is, after close/reopen or a crash image taken
// at any of the park points, at or below the appended sequence NewQueue reads back, and above the
// acknowledged sequence it reads back byte for byte; close/reopen of a quiescent queue moves
// neither sequence.

type mpark struct {
	off int
	v   int64
}

type mthr struct {
	kind    string
	arg     int64
	data    []byte
	parked  chan mpark
	resume  chan struct{}
	done    chan error
	started bool
	seen    bool  // returned from its first mw-run (its in-memory stores are done)
	lastApp int64 // value of its last store to the appended word (a Put's sequence)
	parks   int   // how many times it has parked at a meta-page store
}

const mwStuck = 20 * time.Second

// metaPark is installed as ctl.metaPark for every case; it parks only goroutines the scheduler runs.
func (r *run) metaPark(off int, v uint64) {
	t := r.mcur
	if t == nil {
		return
	}
	t.parked <- mpark{off, int64(v)}
	<-t.resume
}

func (r *run) mwWords() string {
	a, k, _ := queue.VerifC05Seqs(r.q)
	da, dk := int64(0), int64(0)
	if p := r.ctl.metaRaw; p != nil {
		da, dk = int64(p.ReadUint64(0)), int64(p.ReadUint64(8))
	}
	return fmt.Sprintf("mem=%d,%d disk=%d,%d held=%v", a, k, da, dk, queue.VerifC05LockHeld(r.q))
}

func (r *run) opMwNew() {
	r.mths = map[int]*mthr{}
	r.c.Guard("mw-new", func() string { return "ok " + r.mwWords() })
}

func (r *run) opMwCall(id int, kind string, arg int64, data []byte) {
	r.c.Guard(fmt.Sprintf("mw-call %d %s %d", id, kind, arg), func() string {
		if r.mths[id] != nil {
			return "not-enabled"
		}
		r.mths[id] = &mthr{kind: kind, arg: arg, data: data, parked: make(chan mpark), resume: make(chan struct{}), done: make(chan error, 1)}
		return "ok"
	})
}

// opMwRun advances thread id up to its next store into the meta page (or to its return).
// It reports whether the thread is still in flight.
func (r *run) opMwRun(id int) (inflight bool) {
	r.c.Guard(fmt.Sprintf("mw-run %d", id), func() string {
		t := r.mths[id]
		if t == nil {
			return "not-enabled"
		}
		r.mcur = t
		if !t.started {
			t.started = true
			q := r.q
			go func() {
				debug.SetPanicOnFault(true)
				defer func() {
					if p := recover(); p != nil {
						t.done <- fmt.Errorf("panic: %v", p)
					}
				}()
				switch t.kind {
				case "put":
					t.done <- q.Put(t.data)
				case "reset":
					q.SetAppendedSeq(t.arg)
					t.done <- nil
				default:
					q.SetAcknowledgedSeq(t.arg)
					t.done <- nil
				}
			}()
		} else {
			t.resume <- struct{}{}
		}
		first := !t.seen
		t.seen = true
		var out string
		select {
		case pk := <-t.parked:
			r.mcur = nil
			inflight = true
			t.parks++
			if pk.off == 0 {
				t.lastApp = pk.v
				out = fmt.Sprintf("parked disk.app=%d ", pk.v)
			} else {
				out = fmt.Sprintf("parked disk.ack=%d ", pk.v)
			}
		case err := <-t.done:
			r.mcur = nil
			delete(r.mths, id)
			switch {
			case err != nil:
				out = "err " + err.Error() + " "
			case t.kind == "put":
				out = fmt.Sprintf("done ret=%d ", t.lastApp)
				r.want[t.lastApp] = t.data
				r.c.Branch("mw-put-returned")
			default:
				out = "done "
			}
		case <-time.After(mwStuck):
			r.mcur = nil
			delete(r.mths, id)
			r.c.Fail("mw-thread-stuck", fmt.Sprintf("thread %d (%s %d) neither reached a meta-page store nor returned", id, t.kind, t.arg))
			return "stuck"
		}
		if first && t.kind == "reset" {
			// SetAppendedSeq(v) has done its in-memory stores: everything above v is discarded by definition
			for s := range r.want {
				if s > t.arg {
					delete(r.want, s)
				}
			}
			r.bulk = nil
			r.c.Branch("mw-reset")
		}
		return out + r.mwWords()
	})
	return inflight
}

// mwDrain lets every in-flight caller return (lowest id first; a caller that waits for the lock gets it
// as soon as the holder has returned).
func (r *run) mwDrain(op bool) {
	for len(r.mths) > 0 {
		ids := make([]int, 0, len(r.mths))
		for id := range r.mths {
			ids = append(ids, id)
		}
		sort.Ints(ids)
		id := ids[0]
		// a parked holder first
		for _, j := range ids {
			if r.mths[j].started {
				id = j
				break
			}
		}
		if op {
			r.opMwRun(id)
			continue
		}
		t := r.mths[id]
		r.mcur = t
		if !t.started {
			delete(r.mths, id)
			r.mcur = nil
			continue
		}
		for fin := false; !fin; {
			t.resume <- struct{}{}
			select {
			case <-t.parked:
			case <-t.done:
				fin = true
			case <-time.After(mwStuck):
				fin = true
			}
		}
		r.mcur = nil
		delete(r.mths, id)
	}
}

// opMwCrash: the process dies now (goroutines parked before their next store never execute it):
// image of the directory, the abandoned callers finish on the old mapping, NewQueue on the image.
func (r *run) opMwCrash() {
	quiescent := len(r.mths) == 0
	before, _, _ := queue.VerifC05Seqs(r.q)
	r.c.Guard("mw-crash", func() string {
		c := r.ctl
		c.crashImage, c.crashErr = "", nil
		c.takeImage()
		if c.crashErr != nil {
			return "err image:" + c.crashErr.Error()
		}
		r.mwDrain(false)
		if s := r.switchToImage(c.crashImage); len(s) < 2 || s[:2] != "ok" {
			return s
		}
		return "ok " + r.mwWords()
	})
	if r.q == nil {
		return
	}
	r.c.Branch("mw-crash")
	if !quiescent {
		r.c.Branch("mw-crash-inside-critical-section")
	}
	r.mwAfterRestart("crash", quiescent, before)
}

// mwAfterRestart: the oracle after NewQueue (the statement of meta_persisted_covers_returned).
func (r *run) mwAfterRestart(how string, quiescent bool, before int64) {
	a, k := r.q.AppendedSeq(), r.q.AcknowledgedSeq()
	if quiescent && a != before {
		r.c.Fail("appended-moved-by-"+how, fmt.Sprintf("appended %d in memory before the %s of a quiescent queue, %d after NewQueue", before, how, a))
	}
	seqs := make([]int64, 0, len(r.want))
	for s := range r.want {
		seqs = append(seqs, s)
	}
	sort.Slice(seqs, func(i, j int) bool { return seqs[i] < seqs[j] })
	for _, s := range seqs {
		if s > k && s > a {
			r.c.Fail("returned-put-above-persisted-appended", fmt.Sprintf("after %s: Put returned success under sequence %d (not discarded by any reset), NewQueue reads appended=%d ack=%d: the message is out of range and its sequence will be reused", how, s, a, k))
			delete(r.want, s)
		}
	}
	r.rewound()
	r.check("mw-" + how)
}

// mwFinish: all callers return; quiescent checks; close/reopen; one more append.
func (r *run) mwFinish(rng *rand.Rand) {
	r.mwDrain(true)
	if r.q == nil {
		return
	}
	r.check("mw-quiescent")
	before := r.q.AppendedSeq()
	func() {
		defer func() {
			if p := recover(); p != nil {
				r.c.Fail("panic", fmt.Sprint(p))
			}
		}()
		r.q.Close()
		r.q = nil
		if err := r.open(r.dir); err != nil {
			r.c.Fail("reopen-failed", err.Error())
			return
		}
	}()
	if r.q == nil {
		return
	}
	r.c.Branch("mw-reopen")
	r.mwAfterRestart("reopen", true, before)
	// the next append takes the next sequence and leaves the earlier messages alone
	m := randBytes(rng, 1+rng.Intn(40))
	a := r.q.AppendedSeq()
	if err := r.q.Put(m); err != nil {
		r.c.Fail("put-after-restart-failed", err.Error())
		return
	}
	if b := r.q.AppendedSeq(); b != a+1 {
		r.c.Fail("seq-not-dense", fmt.Sprintf("Put returned nil, appended went %d -> %d", a, b))
	}
	if got, err := r.q.Get(a + 1); err != nil || !bytes.Equal(got, m) {
		r.c.Fail("returned-put-lost-or-altered", fmt.Sprintf("after reopen + put: sequence %d: %v", a+1, err))
	}
	r.want[a+1] = m
	r.check("mw-put-after-reopen")
	r.gotOK = true
}

// mwWitnessCase: SetAppendedSeq(10) is advanced to its store of the appended sequence; if the queue
// lock is free at that point a Put runs to completion inside the window; then the reset finishes.
func (r *run) mwWitnessCase(rng *rand.Rand) {
	r.c.Branch("case-meta-writers-witness")
	r.opNew()
	for j := 0; j < 3; j++ {
		r.opPut(randMsg(rng))
	}
	r.opMwNew()
	target := r.q.AppendedSeq() + 8
	r.opMwCall(0, "reset", target, nil)
	r.opMwCall(1, "put", 0, randBytes(rng, 24))
	if r.opMwRun(0) && !queue.VerifC05LockHeld(r.q) {
		r.c.Branch("mw-window-open-at-meta-store")
		for r.opMwRun(1) {
		}
	}
	for r.mths[0] != nil && r.opMwRun(0) {
	}
	for r.mths[1] != nil && r.opMwRun(1) {
	}
	r.mwFinish(rng)
}

// mwTornReset: a SetAppendedSeq caller is past its first store into the meta page. A crash there leaves
// the appended sequence of the reset with the OLD acknowledged sequence on disk (the two stores of a
// reset are not one store); that crash point is not "between the stores that make up one append" —
// outside the property's quantifier, never generated (design note: observation "torn reset").
func (r *run) mwTornReset() bool {
	for _, t := range r.mths {
		if t.kind == "reset" && t.parks > 1 {
			return true
		}
	}
	return false
}

// mwCase: random callers; a new caller is started whenever the lock is free (also while another one
// is parked outside its critical section), parked callers are advanced in random order, crashes at
// park points.
func (r *run) mwCase(rng *rand.Rand) {
	r.c.Branch("case-meta-writers")
	r.opNew()
	for j, n := 0, 1+rng.Intn(4); j < n; j++ {
		r.opPut(randMsg(rng))
	}
	r.opMwNew()
	next := 0
	crashes := 0
	for step, n := 0, 6+rng.Intn(14); step < n && r.q != nil; step++ {
		var parked []int
		for id, t := range r.mths {
			if t.started {
				parked = append(parked, id)
			}
		}
		sort.Ints(parked)
		free := !queue.VerifC05LockHeld(r.q)
		switch k := rng.Intn(100); {
		case k < 8 && crashes < 2 && !r.mwTornReset():
			crashes++
			r.opMwCrash()
		case len(parked) > 0 && (k < 60 || !free):
			r.opMwRun(parked[rng.Intn(len(parked))])
		case free:
			a, ack, _ := queue.VerifC05Seqs(r.q)
			id := next
			next++
			switch j := rng.Intn(10); {
			case j < 5:
				r.opMwCall(id, "put", 0, randBytes(rng, rng.Intn(60)))
			case j < 7:
				lo := a - 3
				if lo < 0 {
					lo = 0
				}
				t := a + 1 + rng.Int63n(5)
				if rng.Intn(2) == 0 && a >= 0 {
					t = lo + rng.Int63n(a-lo+1)
				}
				r.opMwCall(id, "reset", t, nil)
			default:
				t := ack + rng.Int63n(a-ack+3) // inside (ack, appended] mostly; sometimes the guard rejects
				r.opMwCall(id, "ack", t, nil)
			}
			r.opMwRun(id)
		}
	}
	r.mwFinish(rng)
}
