package c05

import (
	"bytes"
	"encoding/hex"
	"errors"
	"fmt"
	"math/rand"
	"os"
	"path/filepath"
	"runtime/debug"
	"sort"
	"strconv"
	"strings"
	"time"

	"github.com/lindb/lindb/pkg/queue"

	"github.com/lindb/lindb/zzverif/internal/core"
)

// queue.go: the correspondence stream "queue" and the impl-side oracle of C05.
//
// Case layout (a case is a function of (seed, index) only):
//   0  witness: two overlapping Puts persist in reverse alloc order, close/reopen, one more Put
//   1  witness: the same with a crash image instead of close/reopen
//   2  witness: the overlap across a page roll-over, then ack + GC
//   3  sequential history with page roll-over, a Put of exactly / more than one page, crash images
//   4… random: sequential histories (put/get/ack/gc/reopen/crash after k stores), scheduled
//      interleavings without restart, scheduled interleavings with reopen/crash/gc;
//      i%10 == 8: the page factory driven directly (factory.go); i%10 == 9: replica/partition.go
//      over a real FanOutQueue (partition.go); i%100 == 19: the partition API across a roll-over
//
// Oracle (on the implementation's own observations): every Put that returned nil got
// sequence appended+1; after every operation Get(seq) of every returned-and-unacknowledged
// sequence equals the appended bytes; reopen does not move the appended sequence.

const (
	keyReopen = "overlap-persist-reversed-then-reopen-next-put-overwrites"
	keyCrash  = "overlap-persist-reversed-then-crash-next-put-overwrites"
	keyGC     = "overlap-rollover-persist-reversed-then-ack-gc-drops-unacked-page"
)

const dataPageSize = 128 * 1024 * 1024 // pkg/queue/constants.go dataPageSize (cross-checked by the generated facts)

type area struct{}

func init() { core.Register(area{}) }

func (area) Name() string { return "queue" }

// ---- shared pattern buffer: byte j = patByte(j), the same formula as Model/Queue.lean

var pat []byte

func patByte(j int) byte { return byte((j*131 + (j/251)*17 + (j/65521)*7 + 3) % 256) }

func patSlice(start, n int) []byte {
	need := start + n
	if need > len(pat) {
		sz := 1 << 16
		for sz < need {
			sz *= 2
		}
		nb := make([]byte, sz)
		copy(nb, pat)
		for j := len(pat); j < sz; j++ {
			nb[j] = patByte(j)
		}
		pat = nb
	}
	return pat[start : start+n : start+n]
}

// ---- one case

type thr struct {
	data     []byte
	parked   chan string
	resume   chan struct{}
	done     chan error
	state    int // 0 idle, 1 allocated, 2 written
	allocIdx int
}

type run struct {
	c   *core.Ctx
	ctl *ctl
	dir string
	q   queue.Queue

	want map[int64][]byte // sequence -> bytes of every Put that returned (this case)

	cur      *thr
	ths      map[int]*thr
	allocCtr int
	atomic   bool // detected: Put holds the lock across the copy

	mcur *mthr         // meta-writer goroutine that is the one running (metawriters.go)
	mths map[int]*mthr // meta-writer callers in flight

	gcCur *gthr // the GC goroutine while it is the one running
	gcThr *gthr // the GC call in progress (parked between two of its steps)

	everReversed bool   // some Put persisted while an earlier-allocated one was still in flight
	restartAfter string // "", "reopen", "crash": last restart after a reversal
	gcAfterRev   bool
	conc         bool
	tmp          []string
	gotOK        bool
	bulk         []bulk

	// bookkeeping for SetAppendedSeq targets (see resetTarget)
	maxTouched   int64 // highest index slot any Put of this case may have written
	epochLo      int64 // first sequence appended since the cursor last moved backwards
	unsynced     bool  // a reset happened and neither a Put nor NewQueue since
	idxMaybeDead bool  // GC ran in that state: the index page the queue holds may be gone

	pageSizes []int64 // page size argument of the successive NewQueue calls of this case (nil: always 0)
	opens     int
}

func (r *run) cleanup() {
	if r.q != nil {
		r.q.Close()
		r.q = nil
	}
	for _, d := range r.tmp {
		os.RemoveAll(d)
	}
}

func (r *run) qstate() string {
	dp, mo, ip, _ := queue.VerifC05Cursor(r.q)
	return fmt.Sprintf("app=%d ack=%d cur=%d:%d ipg=%d", r.q.AppendedSeq(), r.q.AcknowledgedSeq(), dp, mo, ip)
}

func (r *run) curStr() string {
	dp, mo, ip, _ := queue.VerifC05Cursor(r.q)
	return fmt.Sprintf("cur=%d:%d ipg=%d", dp, mo, ip)
}

func (r *run) open(dir string) error {
	r.ctl.root = dir
	// the configured data page size (storage option wal.page-size, [128MB,1GB]): NewQueue maps the
	// data pages with it, everything else uses the constant. Cases that set pageSizes open / reopen /
	// restart with a DIFFERENT size each time; the model has no such parameter (nothing may depend on it).
	ps := int64(0)
	if len(r.pageSizes) > 0 {
		ps = r.pageSizes[r.opens%len(r.pageSizes)]
		r.opens++
		r.c.Branch(fmt.Sprintf("newqueue-pagesize-%dMB", ps>>20))
	}
	q, err := queue.NewQueue(dir, ps)
	if err != nil {
		return err
	}
	r.dir, r.q = dir, q
	return nil
}

func (r *run) opNew() {
	r.cleanup()
	r.tmp = nil
	dir, err := os.MkdirTemp("", "lvh-c05-*")
	if err != nil {
		r.c.Op("new", "err mkdir")
		return
	}
	r.tmp = append(r.tmp, dir)
	r.ctl = newCtl(dir)
	r.ctl.park = r.park
	r.ctl.gcPark = r.gcPark
	r.ctl.metaPark = r.metaPark
	r.mths, r.mcur = map[int]*mthr{}, nil
	r.gcThr, r.gcCur = nil, nil
	r.want = map[int64][]byte{}
	r.ths = map[int]*thr{}
	r.everReversed, r.restartAfter, r.gcAfterRev = false, "", false
	r.maxTouched, r.epochLo, r.unsynced, r.idxMaybeDead, r.bulk = 0, 0, false, false, nil
	if err := r.open(dir); err != nil {
		r.c.Op("new", "err open")
		return
	}
	r.c.Op("new", "ok "+r.qstate())
}

// msg is a message plus how it is written in the protocol (hex, or a slice of the pattern buffer).
type msg struct {
	data []byte
	gen  [2]int // start,len; len<0: literal
}

func lit(b []byte) msg     { return msg{b, [2]int{0, -1}} }
func gen(start, n int) msg { return msg{patSlice(start, n), [2]int{start, n}} }
func (m msg) arg() string {
	if m.gen[1] >= 0 {
		return fmt.Sprintf("%d %d", m.gen[0], m.gen[1])
	}
	if len(m.data) == 0 {
		return "-"
	}
	return hex.EncodeToString(m.data)
}
func (m msg) sfx() string {
	if m.gen[1] >= 0 {
		return "gen"
	}
	return ""
}

func putErr(err error) string {
	if errors.Is(err, queue.ErrExceedingMessageSizeLimit) {
		return "err too-large"
	}
	return "err other:" + err.Error()
}

func (r *run) opPut(m msg) {
	op := "put" + m.sfx() + " " + m.arg()
	before := r.q.AppendedSeq()
	r.c.Guard(op, func() string {
		err := r.q.Put(m.data)
		if err != nil {
			r.c.Branch("put-rejected")
			return putErr(err)
		}
		seq := r.q.AppendedSeq()
		if seq != before+1 {
			r.c.Fail("seq-not-dense", fmt.Sprintf("Put returned nil, appended went %d -> %d", before, seq))
		}
		r.want[seq] = m.data
		r.touched(true)
		r.c.Branch("put-ok")
		if len(m.data) == 0 {
			r.c.Branch("put-empty")
		}
		return fmt.Sprintf("ok seq=%d %s", seq, r.curStr())
	})
	r.check("put")
}

func probePositions(n int) []int {
	p := make([]int, 32)
	for j := range p {
		p[j] = j * (n - 1) / 31
	}
	return p
}

func (r *run) opGet(seq int64) {
	op := fmt.Sprintf("get %d", seq)
	r.c.Guard(op, func() string {
		b, err := r.q.Get(seq)
		switch {
		case errors.Is(err, queue.ErrOutOfSequenceRange):
			r.c.Branch("get-out-of-range")
			return "err out-of-range"
		case errors.Is(err, queue.ErrMsgNotFound):
			r.c.Branch("get-not-found")
			return "err not-found"
		case err != nil:
			return "err other:" + err.Error()
		}
		r.c.Branch("get-ok")
		r.gotOK = true
		if len(b) <= 256 {
			return fmt.Sprintf("ok len=%d hex=%s", len(b), hex.EncodeToString(b))
		}
		pb := make([]byte, 0, 32)
		for _, i := range probePositions(len(b)) {
			pb = append(pb, b[i])
		}
		return fmt.Sprintf("ok len=%d probe=%s", len(b), hex.EncodeToString(pb))
	})
}

func (r *run) opAck(seq int64) {
	r.c.Guard(fmt.Sprintf("ack %d", seq), func() string {
		r.q.SetAcknowledgedSeq(seq)
		return fmt.Sprintf("ok ack=%d", r.q.AcknowledgedSeq())
	})
	r.c.Branch("ack")
	r.check("ack")
}

func listPages(dir string) string {
	ents, _ := os.ReadDir(dir)
	var ids []int
	for _, e := range ents {
		n := e.Name()
		if i := strings.IndexByte(n, '.'); i > 0 {
			if v, err := strconv.Atoi(n[:i]); err == nil {
				ids = append(ids, v)
			}
		}
	}
	sort.Ints(ids)
	s := make([]string, len(ids))
	for i, v := range ids {
		s[i] = strconv.Itoa(v)
	}
	return "[" + strings.Join(s, ",") + "]"
}

func (r *run) opGC() {
	before := listPages(filepath.Join(r.dir, "data"))
	r.c.Guard("gc", func() string {
		r.q.GC()
		return fmt.Sprintf("ok data=%s index=%s", listPages(filepath.Join(r.dir, "data")), listPages(filepath.Join(r.dir, "index")))
	})
	if listPages(filepath.Join(r.dir, "data")) != before {
		r.c.Branch("gc-truncated-pages")
	} else {
		r.c.Branch("gc-noop")
	}
	if r.everReversed {
		r.gcAfterRev = true
	}
	if r.unsynced {
		r.idxMaybeDead = true
	}
	r.check("gc")
}

func (r *run) opReopen() {
	before := r.q.AppendedSeq()
	r.c.Guard("reopen", func() string {
		r.q.Close()
		r.q = nil
		if err := r.open(r.dir); err != nil {
			return "err open:" + err.Error()
		}
		return "ok " + r.qstate()
	})
	if r.q == nil {
		return
	}
	if a := r.q.AppendedSeq(); a != before {
		r.c.Fail("appended-moved-by-reopen", fmt.Sprintf("appended %d before close, %d after NewQueue", before, a))
	}
	r.c.Branch("reopen")
	r.rewound()
	if r.everReversed {
		r.restartAfter = "reopen"
	}
	r.check("reopen")
}

// switchToImage closes the queue on the old directory and opens the crash image.
func (r *run) switchToImage(img string) string {
	r.tmp = append(r.tmp, img)
	r.q.Close()
	r.q = nil
	if err := r.open(img); err != nil {
		return "err open:" + err.Error()
	}
	return "ok " + r.qstate()
}

// opCrashPut: the process dies after exactly k stores of Put(m); the case continues on the image.
func (r *run) opCrashPut(k int, m msg) {
	op := fmt.Sprintf("crashput%s %d %s", m.sfx(), k, m.arg())
	before := r.q.AppendedSeq()
	r.c.Guard(op, func() string {
		c := r.ctl
		c.crashArmed, c.crashK, c.crashCount, c.crashImage, c.crashErr = true, k, 0, "", nil
		err := r.q.Put(m.data)
		c.crashArmed = false
		if c.crashImage == "" {
			// rejected before any store, or k beyond the trace: the image is the directory as it is now
			c.takeImage()
		}
		_ = err
		if c.crashErr != nil {
			return "err image:" + c.crashErr.Error()
		}
		return r.switchToImage(c.crashImage)
	})
	if r.q == nil {
		return
	}
	switch {
	case len(m.data) > dataPageSize:
		r.c.Branch("crash-rejected-put")
	case k < len(m.data):
		r.c.Branch("crash-inside-copy")
	case k < len(m.data)+4:
		r.c.Branch(fmt.Sprintf("crash-after-copy+%d-index-stores", k-len(m.data)))
	default:
		r.c.Branch("crash-after-all-stores")
	}
	if before+1 > r.maxTouched {
		r.maxTouched = before + 1
	}
	r.rewound()
	if a := r.q.AppendedSeq(); a != before && a != before+1 {
		r.c.Fail("appended-jumped-over-crash", fmt.Sprintf("appended %d before the crash, %d after NewQueue on the image", before, a))
	}
	if r.everReversed {
		r.restartAfter = "crash"
	}
	r.check("crashput")
}

// check is the impl-side oracle: every returned and unacknowledged sequence reads back.
func (r *run) check(after string) {
	if r.q == nil {
		return
	}
	r.touched(false)
	ack := r.q.AcknowledgedSeq()
	seqs := make([]int64, 0, len(r.want))
	for s := range r.want {
		seqs = append(seqs, s)
	}
	sort.Slice(seqs, func(i, j int) bool { return seqs[i] < seqs[j] })
	// batch read-back: first collect the result of every Get (the slices are held, not copied),
	// then compare them all — a message must stay readable while later messages are read
	type res struct {
		s   int64
		got []byte
		err error
	}
	var batch []res
	for _, s := range seqs {
		if s <= ack {
			continue
		}
		var got []byte
		var err error
		func() {
			defer func() {
				if p := recover(); p != nil {
					err = fmt.Errorf("panic: %v", p)
				}
			}()
			got, err = r.q.Get(s)
		}()
		batch = append(batch, res{s, got, err})
	}
	for _, b := range batch {
		s, got, err := b.s, b.got, b.err
		if err == nil && bytes.Equal(got, r.want[s]) {
			continue
		}
		what := ""
		if err != nil {
			what = "Get error: " + err.Error()
		} else {
			what = fmt.Sprintf("Get returned %d bytes %s, appended were %d bytes %s", len(got), short(got), len(r.want[s]), short(r.want[s]))
		}
		key := "returned-put-lost-or-altered"
		switch {
		case r.everReversed && r.gcAfterRev && errors.Is(err, queue.ErrMsgNotFound):
			key = keyGC
		case r.everReversed && r.restartAfter == "reopen" && err == nil:
			key = keyReopen
		case r.everReversed && r.restartAfter == "crash" && err == nil:
			key = keyCrash
		}
		r.c.Fail(key, fmt.Sprintf("after %s: sequence %d (ack=%d): %s", after, s, ack, what))
		delete(r.want, s) // report each lost message once
	}
}

func short(b []byte) string {
	if len(b) > 16 {
		return hex.EncodeToString(b[:16]) + "…"
	}
	return hex.EncodeToString(b)
}

// ---- SetAppendedSeq

// opSetApp: the explicit reset. Everything at or below s is acknowledged, everything above it is
// discarded by definition: the oracle forgets all messages of the case.
func (r *run) opSetApp(s int64) {
	r.c.Guard(fmt.Sprintf("setapp %d", s), func() string {
		r.q.SetAppendedSeq(s)
		return "ok " + r.qstate()
	})
	r.want = map[int64][]byte{}
	r.bulk = nil
	r.unsynced = true
	r.c.Branch("setapp")
	if a, k := r.q.AppendedSeq(), r.q.AcknowledgedSeq(); a != s || k != s {
		r.c.Fail("reset-did-not-set-sequences", fmt.Sprintf("SetAppendedSeq(%d): appended=%d ack=%d", s, a, k))
	}
}

// touched records the highest index slot a Put may have written and clears the "cursor not
// recomputed since the reset" state after a successful append.
func (r *run) touched(ok bool) {
	if r.q == nil {
		return
	}
	if a := r.q.AppendedSeq() + 1; a > r.maxTouched {
		r.maxTouched = a
	}
	if ok {
		r.unsynced, r.idxMaybeDead = false, false
	}
}

// rewound: NewQueue recomputed the cursor from the item at the reset target: it may have moved
// backwards, so older items may point above it; only later appends are valid backward targets.
func (r *run) rewound() {
	if r.q == nil {
		return
	}
	if r.unsynced {
		r.epochLo = r.q.AppendedSeq() + 1
	}
	r.unsynced, r.idxMaybeDead = false, false
}

// resetTarget picks a SetAppendedSeq target inside the region the theorem covers (ResetOK):
// forward onto a never-written slot (plain, last slot of an index page, first slot of one, two or
// more index pages ahead), or backward onto a sequence appended since the cursor last rewound.
func (r *run) resetTarget(rng *rand.Rand) (int64, bool) {
	const n = int64(1024 * 256)
	app := r.q.AppendedSeq()
	_, _, ipg, _ := queue.VerifC05Cursor(r.q)
	lo := r.maxTouched + 1
	var t int64
	switch k := rng.Intn(10); {
	case k < 3 && !r.idxMaybeDead && app >= r.epochLo:
		return r.epochLo + rng.Int63n(app-r.epochLo+1), true
	case k < 5:
		t = lo + rng.Int63n(50)
	case k < 7:
		t = (lo/n+1+rng.Int63n(3))*n - 1
	case k < 9:
		t = (lo/n + 1 + rng.Int63n(3)) * n
	default:
		t = lo + (2+rng.Int63n(2))*n + rng.Int63n(1000)
	}
	if r.idxMaybeDead && (t+1)/n <= ipg {
		return 0, false
	}
	return t, true
}

// ---- Put under an AcquirePage fault, bulk Put

// opPutFail: Put while the next AcquirePage on the data factory fails (fires only on a roll-over).
func (r *run) opPutFail(m msg) {
	op := "putfail" + m.sfx() + " " + m.arg()
	before := r.q.AppendedSeq()
	r.c.Guard(op, func() string {
		r.ctl.failDataAcquire, r.ctl.failFired = true, false
		err := r.q.Put(m.data)
		r.ctl.failDataAcquire = false
		switch {
		case errors.Is(err, errInjected):
			r.c.Branch("put-acquire-failed")
			if a := r.q.AppendedSeq(); a != before {
				r.c.Fail("failed-put-moved-appended", fmt.Sprintf("Put returned the AcquirePage error, appended went %d -> %d", before, a))
			}
			return "err acquire " + r.qstate()
		case err != nil:
			return putErr(err)
		}
		seq := r.q.AppendedSeq()
		if seq != before+1 {
			r.c.Fail("seq-not-dense", fmt.Sprintf("Put returned nil, appended went %d -> %d", before, seq))
		}
		r.want[seq] = m.data
		r.touched(true)
		r.c.Branch("put-ok-under-armed-fault")
		return fmt.Sprintf("ok seq=%d %s", seq, r.curStr())
	})
	r.check("putfail")
}

// opPutFailIdx: Put while the next AcquirePage on the INDEX factory fails (fires only when the new
// sequence starts another index page). The Put must return the error, consume no sequence and
// leave every earlier message intact; it may skip the space it had allocated.
func (r *run) opPutFailIdx(m msg) {
	op := "putfailidx " + m.arg()
	before := r.q.AppendedSeq()
	r.c.Guard(op, func() string {
		r.ctl.failIndexAcquire, r.ctl.failFired = true, false
		err := r.q.Put(m.data)
		fired := r.ctl.failFired
		r.ctl.failIndexAcquire = false
		switch {
		case errors.Is(err, errInjected):
			r.c.Branch("put-index-acquire-failed")
			if a := r.q.AppendedSeq(); a != before {
				r.c.Fail("failed-put-moved-appended", fmt.Sprintf("Put returned the AcquirePage error, appended went %d -> %d", before, a))
			}
			return "err acquire " + r.qstate()
		case err != nil:
			return putErr(err)
		}
		seq := r.q.AppendedSeq()
		if seq != before+1 {
			r.c.Fail("seq-not-dense", fmt.Sprintf("Put returned nil, appended went %d -> %d", before, seq))
		}
		if fired {
			r.c.Branch("put-ok-although-index-acquire-failed")
		}
		r.want[seq] = m.data
		r.touched(true)
		return fmt.Sprintf("ok seq=%d %s", seq, r.curStr())
	})
	r.check("putfailidx")
}

// opPutN: n Puts of the same small message; the oracle keeps a sample of the sequences and
// scanAll reads every one of them back once.
func (r *run) opPutN(n int, m msg, rng *rand.Rand) {
	op := fmt.Sprintf("putn %d %s", n, m.arg())
	before := r.q.AppendedSeq()
	r.c.Guard(op, func() string {
		for i := 0; i < n; i++ {
			if err := r.q.Put(m.data); err != nil {
				return putErr(err)
			}
		}
		seq := r.q.AppendedSeq()
		if seq != before+int64(n) {
			r.c.Fail("seq-not-dense", fmt.Sprintf("%d Puts returned nil, appended went %d -> %d", n, before, seq))
		}
		for i := 0; i < 64 && i < n; i++ {
			s := before + 1 + int64(i)
			if i >= 8 && i < 56 {
				s = before + 1 + int64(rng.Intn(n))
			} else if i >= 56 {
				s = seq - int64(63-i)
			}
			r.want[s] = m.data
		}
		r.bulk = append(r.bulk, bulk{before + 1, seq, m.data})
		r.touched(n > 0)
		r.c.Branch("put-bulk")
		if n == 0 {
			return "ok none"
		}
		return fmt.Sprintf("ok seq=%d %s", seq, r.curStr())
	})
	r.check("putn")
}

type bulk struct {
	lo, hi int64
	data   []byte
}

// scanAll reads back every sequence of the bulk Puts that is above the acknowledged position.
func (r *run) scanAll(after string) {
	ack := r.q.AcknowledgedSeq()
	bad := 0
	for _, b := range r.bulk {
		for s := b.lo; s <= b.hi; s++ {
			if s <= ack {
				continue
			}
			got, err := r.q.Get(s)
			if err != nil || !bytes.Equal(got, b.data) {
				bad++
				if bad <= 3 {
					r.c.Fail("returned-put-lost-or-altered", fmt.Sprintf("after %s: sequence %d (ack=%d): err=%v got %s want %s", after, s, ack, err, short(got), short(b.data)))
				}
			}
		}
	}
}

// ---- GC as a second goroutine parked between its steps

type gthr struct {
	parked chan string
	resume chan struct{}
	done   chan struct{}
}

func (r *run) gcPark(point string) {
	t := r.gcCur
	if t == nil {
		return // Get / GC on the harness's own goroutine
	}
	t.parked <- point
	<-t.resume
}

// gcAdvance lets the GC goroutine run to its next parking point (or to its end).
func (r *run) gcAdvance(t *gthr, start bool) string {
	r.gcCur = t
	if start {
		q := r.q
		go func() {
			debug.SetPanicOnFault(true)
			defer func() {
				_ = recover()
				close(t.done)
			}()
			q.GC()
		}()
	} else {
		t.resume <- struct{}{}
	}
	st := "done"
	select {
	case <-t.parked:
		st = "parked"
	case <-t.done:
		r.gcThr = nil
	case <-time.After(stuck):
		panic("harness: GC goroutine neither parked nor finished")
	}
	r.gcCur = nil
	return fmt.Sprintf("ok %s data=%s index=%s", st, listPages(filepath.Join(r.dir, "data")), listPages(filepath.Join(r.dir, "index")))
}

func (r *run) opGCStep(name string) {
	r.c.Guard(name, func() string {
		if name == "g-snap" {
			if r.gcThr != nil {
				return "not-enabled"
			}
			r.gcThr = &gthr{parked: make(chan string), resume: make(chan struct{}), done: make(chan struct{})}
			return r.gcAdvance(r.gcThr, true)
		}
		if r.gcThr == nil {
			return "not-enabled"
		}
		return r.gcAdvance(r.gcThr, false)
	})
	r.c.Branch(name)
	if r.everReversed {
		r.gcAfterRev = true
	}
	r.check(name)
}

// finishGC lets a GC call in progress run to its end.
func (r *run) finishGC() {
	for r.gcThr != nil {
		r.gcAdvance(r.gcThr, false)
	}
}

// ---- scheduled interleavings

func (r *run) park(phase string) {
	t := r.cur
	if t == nil {
		return // a Put on the harness's own goroutine: not scheduled
	}
	t.parked <- phase
	<-t.resume
}

const stuck = 60 * time.Second

func (r *run) waitPark(t *thr) (string, error, bool) {
	select {
	case ph := <-t.parked:
		return ph, nil, false
	case err := <-t.done:
		return "", err, true
	case <-time.After(stuck):
		panic("harness: scheduled goroutine neither parked nor finished")
	}
}

func (r *run) opCAlloc(id int, m msg) {
	op := fmt.Sprintf("c-alloc%s %d %s", m.sfx(), id, m.arg())
	r.c.Guard(op, func() string {
		t := &thr{data: m.data, parked: make(chan string), resume: make(chan struct{}), done: make(chan error, 1)}
		before := r.q.AppendedSeq()
		r.cur = t
		q := r.q
		go func() {
			// a store into a page that was unmapped under the appender must not kill the run
			debug.SetPanicOnFault(true)
			defer func() {
				if p := recover(); p != nil {
					t.done <- fmt.Errorf("panic in Put: %v", p)
				}
			}()
			t.done <- q.Put(m.data)
		}()
		_, err, fin := r.waitPark(t)
		r.cur = nil
		if fin {
			if err != nil {
				return putErr(err)
			}
			return "err put-finished-without-copy"
		}
		if queue.VerifC05LockHeld(r.q) {
			// Put holds the lock across the copy: it is one atomic step; let it run to completion
			r.atomic = true
			r.c.Branch("put-is-one-critical-section")
			r.cur = t
			t.resume <- struct{}{}
			r.waitPark(t)
			t.resume <- struct{}{}
			_, err, _ := r.waitPark(t)
			r.cur = nil
			if err != nil {
				return putErr(err)
			}
			seq := r.q.AppendedSeq()
			if seq != before+1 {
				r.c.Fail("seq-not-dense", fmt.Sprintf("Put returned nil, appended went %d -> %d", before, seq))
			}
			r.want[seq] = m.data
			r.touched(true)
			return fmt.Sprintf("ok seq=%d %s", seq, r.curStr())
		}
		r.c.Branch("put-is-three-steps")
		t.state = 1
		r.allocCtr++
		t.allocIdx = r.allocCtr
		r.ths[id] = t
		return "ok parked " + r.curStr()
	})
}

func (r *run) opCWrite(id int) {
	r.c.Guard(fmt.Sprintf("c-write %d", id), func() string {
		t := r.ths[id]
		if t == nil || t.state != 1 {
			if r.atomic {
				return "skip"
			}
			return "not-enabled"
		}
		r.cur = t
		t.resume <- struct{}{}
		r.waitPark(t)
		r.cur = nil
		t.state = 2
		return "ok"
	})
	r.check("c-write")
}

func (r *run) opCPersist(id int) {
	r.c.Guard(fmt.Sprintf("c-persist %d", id), func() string {
		t := r.ths[id]
		if t == nil || t.state != 2 {
			if r.atomic {
				return "skip"
			}
			return "not-enabled"
		}
		before := r.q.AppendedSeq()
		r.cur = t
		t.resume <- struct{}{}
		_, err, _ := r.waitPark(t)
		r.cur = nil
		delete(r.ths, id)
		if err != nil {
			return putErr(err)
		}
		seq := r.q.AppendedSeq()
		if seq != before+1 {
			r.c.Fail("seq-not-dense", fmt.Sprintf("Put returned nil, appended went %d -> %d", before, seq))
		}
		r.want[seq] = t.data
		r.touched(true)
		for _, o := range r.ths {
			if o.allocIdx < t.allocIdx {
				r.everReversed = true
				r.c.Branch("persist-before-earlier-alloc")
			}
		}
		return fmt.Sprintf("ok seq=%d %s", seq, r.curStr())
	})
	r.check("c-persist")
}

// drain lets every in-flight Put finish (on whatever directory it is mapped to).
func (r *run) drain() {
	ids := make([]int, 0, len(r.ths))
	for id := range r.ths {
		ids = append(ids, id)
	}
	sort.Ints(ids)
	for _, id := range ids {
		t := r.ths[id]
		r.cur = t
		for {
			t.resume <- struct{}{}
			if _, _, fin := r.waitPark(t); fin {
				break
			}
		}
		r.cur = nil
		delete(r.ths, id)
	}
}

// opCCrash: the process dies between two atomic steps: image now; in-flight Puts are lost.
func (r *run) opCCrash() {
	before := r.q.AppendedSeq()
	r.c.Guard("c-crash", func() string {
		c := r.ctl
		c.crashImage, c.crashErr = "", nil
		c.takeImage()
		if c.crashErr != nil {
			return "err image:" + c.crashErr.Error()
		}
		r.drain() // the abandoned goroutines finish on the old mapping, which is then dropped
		return r.switchToImage(c.crashImage)
	})
	if r.q == nil {
		return
	}
	if a := r.q.AppendedSeq(); a != before {
		r.c.Fail("appended-moved-by-crash", fmt.Sprintf("appended %d before the crash, %d after NewQueue on the image", before, a))
	}
	r.c.Branch("crash-between-steps")
	r.rewound()
	if r.everReversed {
		r.restartAfter = "crash"
	}
	r.check("c-crash")
}

// ---- the cases

func (a area) Run(c *core.Ctx) error {
	debug.SetPanicOnFault(true) // faults on unmapped pages become panics (reported by Guard)
	restore := queue.VerifC05SetPageFactory(wrapFactory(func() *ctl { return current.ctl }))
	defer restore()
	for i := 0; i < c.N; i++ {
		if !c.Want(i) {
			continue
		}
		c.Begin(i)
		r := &run{c: c}
		current = r
		func() {
			defer func() {
				if p := recover(); p != nil {
					c.Fail("harness-panic", fmt.Sprint(p))
				}
				r.drainQuiet()
				func() { defer func() { _ = recover() }(); r.mwDrain(false) }()
				func() { defer func() { _ = recover() }(); r.finishGC() }()
				r.cleanup()
			}()
			rng := c.Rng(i)
			switch {
			case i == 0:
				r.witness("reopen")
			case i == 1:
				r.witness("crash")
			case i == 2:
				r.witnessGC()
			case i == 3:
				r.bigCase(rng)
			case i == 4:
				r.gcOverlapCase(rng, true)
			case i == 5:
				r.boundaryCase(rng, 1, 0)
			case i == 6:
				r.resetCase(rng)
			case i == 7:
				r.stressCase(rng, 8, 1500)
			case i == 14:
				r.mwWitnessCase(rng)
			case i == 15:
				r.posCase(rng, true) // index page position: the witness family of index_switch_exact
			case c.Tier == "thorough" && i >= 8 && i <= 12:
				// one below / one above the index page boundary, the second boundary, GC overlap with pending messages
				switch i {
				case 8:
					r.boundaryCase(rng, 1, -1)
				case 9:
					r.boundaryCase(rng, 1, 1)
				case 10:
					r.boundaryCase(rng, 2, 0)
				case 11:
					r.stressCase(rng, 16, 20000) // crosses nothing but runs long enough for real preemption
				default:
					r.gcOverlapCase(rng, false)
				}
			default:
				big := (c.Tier == "thorough" && i%50 == 7)
				switch k := rng.Intn(100); {
				case c.Tier == "thorough" && i%200 == 13:
					r.indexPagesCase(rng)
				case big:
					r.bigCase(rng)
				case i%100 == 19:
					r.partRollCase(rng) // replica/partition.go across a data page roll-over + IsExpire
				case i%10 == 8:
					r.fctCase(rng) // page factory driven directly (factory.go)
				case i%10 == 9:
					r.partCase(rng) // replica/partition.go glue over a real FanOutQueue (partition.go)
				case i%10 == 4:
					r.mwCase(rng) // the writers of the meta page as scheduled goroutines (metawriters.go)
				case i%20 == 3:
					r.posCase(rng, false) // index page position under resets across index pages (indexpos.go)
				case k < 48:
					r.seqCase(rng)
				case k < 60:
					r.gcStepCase(rng)
				case k < 80:
					r.concCase(rng, false)
				default:
					r.concCase(rng, true)
				}
			}
			if r.gotOK {
				c.NonTrivial()
			}
		}()
	}
	return nil
}

var current *run

func (r *run) drainQuiet() {
	defer func() { _ = recover() }()
	if len(r.ths) > 0 {
		r.drain()
	}
}

var (
	mA = bytes.Repeat([]byte("A"), 8)
	mB = bytes.Repeat([]byte("B"), 12)
	mC = bytes.Repeat([]byte("C"), 16)
)

// witness replays LinVerif.Queue.wPre ++ [wEv] ++ wPost (resp. wPostCrash) on the real code.
func (r *run) witness(restart string) {
	r.c.Branch("witness-" + restart)
	r.opNew()
	r.opCAlloc(0, lit(mA))
	r.opCAlloc(1, lit(mB))
	r.opCWrite(1)
	r.opCPersist(1)
	r.opCWrite(0)
	r.opCPersist(0)
	r.opGet(0)
	r.opGet(1)
	if restart == "reopen" {
		r.opReopen()
	} else {
		r.opCCrash()
	}
	r.opCAlloc(2, lit(mC))
	r.opCWrite(2)
	r.opCPersist(2)
	r.opGet(0)
	r.opGet(1)
	r.opGet(2)
}

// witnessGC replays gPre ++ [gEv] ++ gPost.
func (r *run) witnessGC() {
	r.c.Branch("witness-gc")
	r.opNew()
	r.opCAlloc(9, gen(0, dataPageSize-8))
	r.opCWrite(9)
	r.opCPersist(9)
	r.opCAlloc(0, lit(mA))
	r.opCAlloc(1, lit(mB))
	r.opCWrite(1)
	r.opCPersist(1)
	r.opCWrite(0)
	r.opCPersist(0)
	r.opGet(2)
	r.opAck(1)
	r.opGC()
	r.opGet(2)
}

func randBytes(rng *rand.Rand, n int) []byte {
	b := make([]byte, n)
	rng.Read(b)
	return b
}

func randMsg(rng *rand.Rand) msg {
	switch k := rng.Intn(20); {
	case k == 0:
		return lit(nil)
	case k < 12:
		return lit(randBytes(rng, 1+rng.Intn(24)))
	case k < 17:
		return lit(randBytes(rng, 25+rng.Intn(100)))
	default:
		return gen(rng.Intn(100000), 257+rng.Intn(6000))
	}
}

func (r *run) randGet(rng *rand.Rand) {
	app := r.q.AppendedSeq()
	r.opGet(int64(rng.Intn(int(app)+3)) - 1)
}

// seqCase: one appender, random history.
func (r *run) seqCase(rng *rand.Rand) {
	r.c.Branch("case-sequential")
	r.opNew()
	n := 4 + rng.Intn(30)
	for j := 0; j < n && r.q != nil; j++ {
		switch k := rng.Intn(100); {
		case k < 33:
			r.opPut(randMsg(rng))
		case k < 36:
			if t, ok := r.resetTarget(rng); ok {
				r.opSetApp(t)
			}
		case k < 40:
			r.opPutFail(randMsg(rng))
		case k < 58:
			r.randGet(rng)
		case k < 66:
			app, ack := r.q.AppendedSeq(), r.q.AcknowledgedSeq()
			r.opAck(ack + int64(rng.Intn(int(app-ack)+2)) - int64(rng.Intn(2)))
		case k < 72:
			r.opGC()
		case k < 82:
			r.opReopen()
		default:
			m := randMsg(rng)
			r.opCrashPut(rng.Intn(len(m.data)+6), m)
		}
	}
	if r.q != nil {
		r.opReopen()
		ack, app := r.q.AcknowledgedSeq(), r.q.AppendedSeq()
		if app-ack <= 60 {
			for s := ack; s <= app+1; s++ {
				r.opGet(s)
			}
		} else {
			r.readUnacked(rng)
		}
		r.twoReaders()
	}
}

// bigCase: page roll-over with messages of tens of megabytes (slices of the pattern buffer),
// a message of exactly one page, one byte more than a page, crash images around a roll-over.
func (r *run) bigCase(rng *rand.Rand) {
	r.c.Branch("case-rollover")
	// wal.page-size configured above the default and changed at every restart (raised, removed, lowered)
	r.pageSizes = []int64{256 << 20, 0, 192 << 20, 128 << 20, 512 << 20}
	r.opNew()
	a := 40*1024*1024 + rng.Intn(20*1024*1024)
	r.opPut(gen(rng.Intn(1000), a))
	r.opPut(lit(randBytes(rng, 10)))
	r.opPut(gen(rng.Intn(1000), a)) // fits (2a+10 ≤ 128MB)
	b := dataPageSize - 2*a - 10 + 1 + rng.Intn(1000)
	r.opPut(gen(5, b)) // does not fit: rolls to page 1
	r.c.Branch("rollover")
	r.opGet(0)
	r.opGet(2)
	r.opGet(3)
	r.opReopen()
	r.opPut(lit(randBytes(rng, 33)))
	f := dataPageSize - b - 33 - 20
	r.opPut(gen(11, f)) // page 1 has 20 bytes left
	m64 := lit(randBytes(rng, 64))
	// a roll-over whose AcquirePage fails: the Put returns the error and must leave the queue as it
	// was; a smaller append that still fits the old page and the retried roll-over must read back
	r.opPutFail(m64)
	r.opPut(lit(randBytes(rng, 10)))
	r.opGet(r.q.AppendedSeq())
	if r.c.Tier == "thorough" {
		r.opCrashPut(10, m64) // rolls to page 2, dies inside the copy
	}
	r.opCrashPut(64+2, m64) // rolls to page 2, dies after the second index store
	r.c.Branch("rollover")
	r.opPut(m64) // rolls to page 2
	r.opAck(3)
	r.opGC()
	r.opGet(4)
	r.opGet(5)
	r.opGet(6)
	r.opGet(7)
	// data pages are now [1,2]: GC again without a new ack, then ack inside page 1, then into page 2,
	// each followed by GC twice, an append, reopen and GC on the already-truncated queue
	r.gcRounds(rng, []int64{3, 5, 7})
	r.opPut(gen(0, dataPageSize+1)) // rejected
	if r.c.Tier == "thorough" {
		r.opPut(gen(1, dataPageSize)) // exactly one page: rolls, fills page 3
		r.opPut(lit(nil))             // empty message at offset == page size
		r.opPut(lit([]byte{1}))       // rolls again
		r.opGet(r.q.AppendedSeq() - 1)
	}
	r.opReopen()
	for s := r.q.AcknowledgedSeq(); s <= r.q.AppendedSeq(); s++ {
		r.opGet(s)
	}
	r.drainedReopen(rng)
}

// drainedReopen: everything acknowledged, close/reopen (the cursor must stay at the end of the last
// message, on the last data page), new appends, GC before any new ack, read back, reopen, read back.
func (r *run) drainedReopen(rng *rand.Rand) {
	if r.q == nil {
		return
	}
	r.c.Branch("drained-reopen-then-gc")
	r.opAck(r.q.AppendedSeq())
	r.opReopen()
	r.opPut(lit(randBytes(rng, 7)))
	r.opPut(randMsg(rng))
	r.opGC()
	r.readUnacked(rng)
	r.opReopen()
	r.opGC()
	r.readUnacked(rng)
}

// concCase: 2–4 appender threads, random interleaving of alloc/write/persist; with restart=true
// the schedule also contains reopen (only with no Put in flight), crash (anywhere) and gc.
func (r *run) concCase(rng *rand.Rand, restart bool) {
	if restart {
		r.c.Branch("case-interleaving-with-restart")
	} else {
		r.c.Branch("case-interleaving")
	}
	r.conc = true
	r.opNew()
	nth := 2 + rng.Intn(3)
	budget := 3 + rng.Intn(8)
	state := make([]int, nth) // mirrors thr.state
	inflight := func() int {
		n := 0
		for _, s := range state {
			if s != 0 {
				n++
			}
		}
		return n
	}
	steps := 0
	for r.q != nil && steps < 200 && (budget > 0 || inflight() > 0) {
		steps++
		k := rng.Intn(100)
		t := rng.Intn(nth)
		switch {
		case k < 70:
			switch state[t] {
			case 0:
				if budget > 0 {
					budget--
					r.opCAlloc(t, randMsg(rng))
					if r.ths[t] != nil {
						state[t] = 1
					}
				}
			case 1:
				r.opCWrite(t)
				state[t] = 2
			case 2:
				r.opCPersist(t)
				state[t] = 0
			}
		case k < 82:
			r.randGet(rng)
		case k < 87:
			app, ack := r.q.AppendedSeq(), r.q.AcknowledgedSeq()
			r.opAck(ack + int64(rng.Intn(int(app-ack)+1)))
		case restart && k < 92:
			if inflight() == 0 {
				r.opReopen()
			}
		case restart && k < 96:
			r.opCCrash()
			for i := range state {
				state[i] = 0
			}
		case restart:
			if inflight() == 0 {
				r.opGC()
			}
		}
	}
	if r.q == nil {
		return
	}
	if restart {
		r.opReopen()
		r.opPut(randMsg(rng))
	}
	for s := r.q.AcknowledgedSeq(); s <= r.q.AppendedSeq()+1; s++ {
		r.opGet(s)
	}
}

// gcOverlapCase: one GC call parked between its steps (at indexPageFct.GetPage, then at the two
// TruncatePages) while Puts complete — the first stays in the current data page, the second
// rolls over. drained=true: everything is acknowledged when GC reads the acknowledged sequence.
func (r *run) gcOverlapCase(rng *rand.Rand, drained bool) {
	r.c.Branch("case-gc-overlapped-by-rollover")
	r.opNew()
	r.opPut(gen(rng.Intn(100), dataPageSize-20-rng.Intn(8)))
	if !drained {
		r.opPut(lit(randBytes(rng, 4)))
	}
	r.opAck(0)
	r.opGCStep("g-snap")
	r.opPut(lit(randBytes(rng, 8))) // still fits page 0
	r.opPut(gen(3, 64))             // rolls to page 1
	r.c.Branch("rollover")
	r.opGCStep("g-read")
	r.opGCStep("g-truncdata")
	r.opGCStep("g-truncindex")
	for s := r.q.AcknowledgedSeq(); s <= r.q.AppendedSeq(); s++ {
		r.opGet(s)
	}
	r.opAck(r.q.AppendedSeq() - 1)
	r.opGCStep("g-snap")
	r.opGCStep("g-read")
	r.opPut(lit(randBytes(rng, 5)))
	r.opGCStep("g-truncdata")
	r.opGCStep("g-truncindex")
	r.opReopen()
	for s := r.q.AcknowledgedSeq(); s <= r.q.AppendedSeq(); s++ {
		r.opGet(s)
	}
	r.drainedReopen(rng)
}

// gcStepCase: small messages, GC calls split into their steps and interleaved with puts, acks, gets.
func (r *run) gcStepCase(rng *rand.Rand) {
	r.c.Branch("case-gc-steps-interleaved")
	r.opNew()
	steps := []string{"g-snap", "g-read", "g-truncdata", "g-truncindex"}
	next := 0
	n := 6 + rng.Intn(30)
	for j := 0; j < n && r.q != nil; j++ {
		switch k := rng.Intn(100); {
		case k < 35:
			r.opPut(randMsg(rng))
		case k < 50:
			r.randGet(rng)
		case k < 65:
			app, ack := r.q.AppendedSeq(), r.q.AcknowledgedSeq()
			r.opAck(ack + int64(rng.Intn(int(app-ack)+1)))
		case k < 92:
			if r.gcThr == nil {
				next = 0
			}
			r.opGCStep(steps[next])
			next = (next + 1) % 4
		default:
			if r.gcThr == nil {
				r.opReopen()
			}
		}
	}
	r.finishGC()
	if r.q != nil {
		for s := r.q.AcknowledgedSeq(); s <= r.q.AppendedSeq()+1; s++ {
			r.opGet(s)
		}
	}
}

// boundaryCase: exactly k*indexItemsPerPage+d one-byte messages, close/reopen at that point, one
// more append, then every earlier sequence is read back (index page boundary of the reopen path).
func (r *run) boundaryCase(rng *rand.Rand, k, d int) {
	r.c.Branch(fmt.Sprintf("case-index-page-boundary-%d%+d", k, d))
	const itemsPerPage = 1024 * 256
	r.opNew()
	n := k*itemsPerPage + d
	r.opPutN(n, lit([]byte{byte(0x41 + rng.Intn(20))}), rng)
	r.opGet(0)
	// the append that starts the next index page, with the page acquisition failing (d = 0 only;
	// otherwise the fault does not fire and this is an ordinary append)
	r.opPutFailIdx(lit(randBytes(rng, 6)))
	r.opGet(r.q.AppendedSeq())
	r.opGet(0)
	n = int(r.q.AppendedSeq()) + 1 // d = 0: still k*itemsPerPage, the reopen below is exactly at the boundary
	r.opReopen()
	r.opPut(lit(randBytes(rng, 3)))
	r.opGet(0)
	r.opGet(1)
	r.opGet(int64(n) - 1)
	r.opGet(int64(n))
	r.scanAll("reopen at the index page boundary + 1 append")
	r.opPut(lit(randBytes(rng, 2)))
	r.opAck(int64(n) - 2)
	r.opGC()
	r.opGet(int64(n) - 1)
	r.opGet(int64(n) + 1)
	r.opReopen()
	r.opGet(int64(n) + 1)
	// repeated ack+GC rounds across index pages (the index factory's smallest page id moves above 0)
	r.gcRounds(rng, []int64{int64(n), int64(n) + 1})
	if k > 1 {
		r.opPutN(itemsPerPage, lit([]byte{7}), rng)
		r.gcRounds(rng, []int64{r.q.AppendedSeq() - 5, r.q.AppendedSeq() - 1})
	}
}

// readUnacked reads every unacknowledged sequence through the protocol (a sample when there are many).
func (r *run) readUnacked(rng *rand.Rand) {
	if r.q == nil {
		return
	}
	ack, app := r.q.AcknowledgedSeq(), r.q.AppendedSeq()
	if app-ack <= 40 {
		for s := ack; s <= app; s++ {
			r.opGet(s)
		}
		return
	}
	for j := int64(0); j < 8; j++ {
		r.opGet(ack + j)
		r.opGet(app - j)
	}
	for j := 0; j < 16; j++ {
		r.opGet(ack + 1 + rng.Int63n(app-ack))
	}
	r.scanAll("gc round")
}

// gcRounds: for every target: ack it, GC, GC again (a factory whose smallest page id is above 0
// is truncated a second time), append, read back, close/reopen, GC on the reopened queue, read back.
func (r *run) gcRounds(rng *rand.Rand, acks []int64) {
	for _, a := range acks {
		if r.q == nil {
			return
		}
		r.c.Branch("gc-round")
		r.opAck(a)
		r.opGC()
		r.opGC()
		r.opPut(lit(randBytes(rng, 1+rng.Intn(6))))
		r.readUnacked(rng)
		r.opReopen()
		r.opGC()
		r.readUnacked(rng)
	}
}

// indexPagesCase: several index pages (262144 one-byte messages each) with random ack+GC rounds.
func (r *run) indexPagesCase(rng *rand.Rand) {
	r.c.Branch("case-index-pages-gc-rounds")
	const itemsPerPage = 1024 * 256
	r.opNew()
	for round := 0; round < 3; round++ {
		r.opPutN(itemsPerPage/2+rng.Intn(itemsPerPage), lit([]byte{byte(round + 1)}), rng)
		ack, app := r.q.AcknowledgedSeq(), r.q.AppendedSeq()
		a1 := ack + 1 + rng.Int63n(app-ack)
		a2 := a1 + rng.Int63n(app-a1+1)
		r.gcRounds(rng, []int64{a1, a2})
	}
}

// resetCase: SetAppendedSeq onto the last slot of an index page, exactly onto a page boundary
// several index pages ahead, backward onto an earlier append, and to -1 — each followed by
// appends, reads, close/reopen or a crash image, and reads again.
func (r *run) resetCase(rng *rand.Rand) {
	r.c.Branch("case-resets")
	const n = int64(1024 * 256)
	r.opNew()
	for j := 0; j < 3; j++ {
		r.opPut(randMsg(rng))
	}
	r.opSetApp(n - 1) // next append is the first item of index page 1 (not created yet)
	r.opGet(n - 1)
	r.opPut(lit(randBytes(rng, 9)))
	r.opGet(n)
	r.opPut(randMsg(rng))
	r.opReopen()
	r.opGet(n)
	r.opGet(n + 1)
	k := 3 + rng.Int63n(3)
	r.opSetApp(k * n) // exactly onto a boundary, two or more index pages ahead
	r.opPut(lit(randBytes(rng, 7)))
	m := randMsg(rng)
	r.opCrashPut(rng.Intn(len(m.data)+6), m)
	r.opGet(k*n + 1)
	r.opPut(randMsg(rng))
	r.opPut(randMsg(rng))
	r.readUnacked(rng)
	back := r.q.AppendedSeq() - 1
	r.opSetApp(back) // backward: the message above is discarded by definition
	r.opGet(back + 1)
	r.opPut(lit(randBytes(rng, 5)))
	r.opGet(back + 1)
	r.opAck(back + 1)
	r.opGC()
	r.opPut(randMsg(rng))
	r.opReopen()
	r.readUnacked(rng)
	r.opSetApp((k+2)*n + 17) // forward again, then straight into a restart before any append
	r.opReopen()
	r.opPut(lit(randBytes(rng, 11)))
	r.opPut(randMsg(rng))
	r.readUnacked(rng)
	r.opReopen()
	r.readUnacked(rng)
	r.twoReaders()
}

// twoReaders: two goroutines read disjoint halves of the readable sequences at the same time and
// compare what they got (oracle only; nothing is written to the protocol streams).
func (r *run) twoReaders() {
	if r.q == nil {
		return
	}
	ack := r.q.AcknowledgedSeq()
	var seqs []int64
	for s := range r.want {
		if s > ack && len(r.want[s]) <= 1<<16 {
			seqs = append(seqs, s)
		}
	}
	if len(seqs) < 2 {
		return
	}
	sort.Slice(seqs, func(i, j int) bool { return seqs[i] < seqs[j] })
	r.c.Branch("two-readers")
	q := r.q
	errs := make(chan string, 2)
	reader := func(mine []int64) {
		debug.SetPanicOnFault(true)
		msg := ""
		defer func() {
			if p := recover(); p != nil {
				msg = fmt.Sprintf("panic: %v", p)
			}
			errs <- msg
		}()
		for it := 0; it < 400 && msg == ""; it++ {
			for _, s := range mine {
				got, err := q.Get(s)
				if err != nil || !bytes.Equal(got, r.want[s]) {
					msg = fmt.Sprintf("sequence %d read concurrently with another reader: err=%v got %s want %s", s, err, short(got), short(r.want[s]))
					break
				}
			}
		}
	}
	var a, b []int64
	for i, s := range seqs {
		if i%2 == 0 {
			a = append(a, s)
		} else {
			b = append(b, s)
		}
	}
	go reader(a)
	go reader(b)
	for i := 0; i < 2; i++ {
		if m := <-errs; m != "" {
			r.c.Fail("returned-put-lost-or-altered", m)
		}
	}
}

// stressCase: G goroutines append M small messages each to ONE queue on the real Go scheduler (no
// parking, a barrier releases them together). Oracle only (the order is the scheduler's): the
// appended sequence advanced by exactly G*M, every sequence holds exactly one of the appended
// messages byte for byte, no message appears twice, each goroutine's messages keep their order —
// before and after close/reopen.
func (r *run) stressCase(rng *rand.Rand, g, m int) {
	r.c.Branch("case-concurrent-appenders-real-scheduler")
	r.opNew()
	dir, err := os.MkdirTemp("", "lvh-c05-stress-*")
	if err != nil {
		r.c.Fail("harness-panic", err.Error())
		return
	}
	r.tmp = append(r.tmp, dir)
	q, err := queue.NewQueue(dir, 0)
	if err != nil {
		r.c.Fail("harness-panic", err.Error())
		return
	}
	defer func() { q.Close() }()
	salt := byte(rng.Intn(256))
	mk := func(gid, idx int) []byte {
		b := make([]byte, 12)
		b[0], b[1] = byte(gid), byte(gid>>8)
		b[2], b[3], b[4], b[5] = byte(idx), byte(idx>>8), byte(idx>>16), byte(idx>>24)
		for j := 6; j < 12; j++ {
			b[j] = byte(gid*31+idx*7+j) ^ salt
		}
		return b
	}
	start := make(chan struct{})
	errs := make(chan error, g)
	for gid := 0; gid < g; gid++ {
		go func(gid int) {
			<-start
			for idx := 0; idx < m; idx++ {
				if err := q.Put(mk(gid, idx)); err != nil {
					errs <- fmt.Errorf("goroutine %d append %d: %v", gid, idx, err)
					return
				}
			}
			errs <- nil
		}(gid)
	}
	close(start)
	for i := 0; i < g; i++ {
		if e := <-errs; e != nil {
			r.c.Fail("concurrent-append-failed", e.Error())
		}
	}
	verify := func(when string) {
		app := q.AppendedSeq()
		if app != int64(g*m)-1 {
			r.c.Fail("seq-not-dense", fmt.Sprintf("%s: %d goroutines x %d successful appends, appended sequence is %d (want %d)", when, g, m, app, g*m-1))
		}
		next := make([]int, g)
		bad := 0
		for s := int64(0); s <= app && bad < 3; s++ {
			b, err := q.Get(s)
			if err != nil || len(b) != 12 {
				bad++
				r.c.Fail("returned-put-lost-or-altered", fmt.Sprintf("%s: sequence %d: err=%v len=%d", when, s, err, len(b)))
				continue
			}
			gid := int(b[0]) | int(b[1])<<8
			idx := int(b[2]) | int(b[3])<<8 | int(b[4])<<16 | int(b[5])<<24
			if gid >= g || !bytes.Equal(b, mk(gid, idx)) {
				bad++
				r.c.Fail("returned-put-lost-or-altered", fmt.Sprintf("%s: sequence %d holds %s, not one of the appended messages", when, s, short(b)))
				continue
			}
			if idx != next[gid] {
				bad++
				r.c.Fail("returned-put-lost-or-altered", fmt.Sprintf("%s: sequence %d holds append %d of goroutine %d, expected its append %d (lost or duplicated)", when, s, idx, gid, next[gid]))
			}
			next[gid] = idx + 1
		}
		for gid := 0; gid < g && bad == 0; gid++ {
			if next[gid] != m {
				r.c.Fail("returned-put-lost-or-altered", fmt.Sprintf("%s: goroutine %d: %d of its %d returned appends are readable", when, gid, next[gid], m))
			}
		}
	}
	verify("after the appenders finished")
	q.Close()
	q, err = queue.NewQueue(dir, 0)
	if err != nil {
		r.c.Fail("harness-panic", err.Error())
		return
	}
	verify("after close/reopen")
	r.gotOK = true
}
