// Package c05 drives pkg/queue (the WAL queue) on real mmap pages and mirrors every
// operation in the C05 line protocol.
//
// pages.go: the MappedPage/Factory wrapper installed through queue.VerifC05SetPageFactory.
// The wrapper (1) logs every store into a page (kind, page id, offset, width) and keeps a
// per-file high-water mark, (2) can take an image of the queue directory after exactly k
// stores of one Put (crash image; a process crash keeps every completed store because the
// pages are MAP_SHARED), (3) can park the calling goroutine inside WriteBytes (before and
// after the copy) so that a chosen interleaving alloc/write/persist of several Puts is
// realised deterministically.
package c05

import (
	"errors"
	"io"
	"os"
	"path/filepath"
	"strconv"
	"strings"
	"sync"

	"github.com/lindb/lindb/pkg/queue/page"
)

// ctl is the per-case controller shared by all wrapped pages.
type ctl struct {
	mu     sync.Mutex
	root   string         // queue directory the wrapped factories belong to
	hw     map[string]int // relative file path -> bytes that may differ from zero
	nstore int            // number of stores logged in this case

	// fault injection: the next AcquirePage on the data factory fails (one-shot)
	failDataAcquire  bool
	failIndexAcquire bool
	failFired        bool

	// GC parking: called at indexPageFct.GetPage ("getpage"), dataPageFct.TruncatePages
	// ("truncdata") and indexPageFct.TruncatePages ("truncindex")
	gcPark func(point string)

	// crash-image mode: when armed, the directory is imaged after exactly crashK stores
	// (a WriteBytes of n bytes counts as n stores and is split at the crash point).
	crashArmed bool
	crashK     int
	crashCount int
	crashImage string // directory of the image (set when taken)
	crashErr   error

	// scheduled mode: WriteBytes of a data page parks the calling goroutine.
	park func(phase string) // nil = no parking

	// meta-writer mode (metawriters.go): every PutUint64 into the meta page calls metaPark BEFORE the
	// store (offset, value); metaRaw is the unwrapped meta page (read-only use by the harness)
	metaPark func(off int, v uint64)
	metaRaw  page.MappedPage

	// index-position mode (indexpos.go): page id / offset of the latest PutUint64 into an index page
	// (the first of the three item stores of persistMetaOfMessage)
	idxStoreSeen bool
	idxStorePage int64
	idxStoreOff  int
}

func newCtl(root string) *ctl { return &ctl{root: root, hw: map[string]int{}} }

func (c *ctl) note(p *wpage, off, width int) {
	c.mu.Lock()
	c.nstore++
	if off+width > c.hw[p.rel] {
		c.hw[p.rel] = off + width
	}
	c.mu.Unlock()
}

// afterStore is called after a store of `width` units completed; takes the image when due.
func (c *ctl) afterStore(units int) {
	if !c.crashArmed {
		return
	}
	c.crashCount += units
	if c.crashCount == c.crashK && c.crashImage == "" {
		c.takeImage()
	}
}

func (c *ctl) takeImage() {
	dst, err := os.MkdirTemp("", "lvh-c05-img-*")
	if err != nil {
		c.crashErr = err
		return
	}
	if err := c.copyDir(dst); err != nil {
		c.crashErr = err
	}
	c.crashImage = dst
}

// copyDir copies the queue directory file by file through read(2) (coherent with the shared
// mappings). Only the prefix below the file's high-water mark is read; the rest of a page
// file has never been stored to in this case and is a hole of zeros, re-created by Truncate.
func (c *ctl) copyDir(dst string) error {
	return filepath.Walk(c.root, func(p string, info os.FileInfo, err error) error {
		if err != nil {
			return err
		}
		rel, _ := filepath.Rel(c.root, p)
		if info.IsDir() {
			return os.MkdirAll(filepath.Join(dst, rel), 0o755)
		}
		n := info.Size()
		top := strings.SplitN(rel, string(filepath.Separator), 2)[0]
		if top == "data" || top == "index" || top == "meta" {
			c.mu.Lock()
			hw := int64(c.hw[rel]) // 0 when no store ever went to this file
			c.mu.Unlock()
			if hw < n {
				n = hw
			}
		}
		src, err := os.Open(p)
		if err != nil {
			return err
		}
		defer src.Close()
		out, err := os.OpenFile(filepath.Join(dst, rel), os.O_CREATE|os.O_RDWR|os.O_TRUNC, 0o644)
		if err != nil {
			return err
		}
		defer out.Close()
		if _, err := io.CopyN(out, src, n); err != nil && err != io.EOF {
			return err
		}
		return out.Truncate(info.Size())
	})
}

// wfactory wraps a page.Factory.
type wfactory struct {
	page.Factory
	kind string
	c    *ctl
}

// wrapFactory is the constructor handed to queue.VerifC05SetPageFactory.
func wrapFactory(get func() *ctl) func(path string, pageSize int) (page.Factory, error) {
	return func(path string, pageSize int) (page.Factory, error) {
		f, err := page.NewFactory(path, pageSize)
		if err != nil {
			return nil, err
		}
		return &wfactory{Factory: f, kind: filepath.Base(path), c: get()}, nil
	}
}

func (f *wfactory) wrap(p page.MappedPage) page.MappedPage {
	if p == nil {
		return nil
	}
	if f.kind == "meta" {
		f.c.metaRaw = p
	}
	base := filepath.Base(p.FilePath())
	id, _ := strconv.ParseInt(strings.TrimSuffix(base, filepath.Ext(base)), 10, 64)
	return &wpage{MappedPage: p, kind: f.kind, id: id, c: f.c, rel: filepath.Join(f.kind, base)}
}

// errInjected is the AcquirePage error of the one-shot fault.
var errInjected = errors.New("injected: no space left on device")

func (f *wfactory) AcquirePage(i int64) (page.MappedPage, error) {
	if f.kind == "data" && f.c.failDataAcquire {
		f.c.failDataAcquire = false
		f.c.failFired = true
		return nil, errInjected
	}
	if f.kind == "index" && f.c.failIndexAcquire {
		f.c.failIndexAcquire = false
		f.c.failFired = true
		return nil, errInjected
	}
	p, err := f.Factory.AcquirePage(i)
	if err != nil {
		return nil, err
	}
	return f.wrap(p), nil
}

func (f *wfactory) TruncatePages(i int64) {
	if f.c.gcPark != nil && (f.kind == "data" || f.kind == "index") {
		f.c.gcPark("trunc" + f.kind)
	}
	f.Factory.TruncatePages(i)
}

func (f *wfactory) GetPage(i int64) (page.MappedPage, bool) {
	if f.c.gcPark != nil && f.kind == "index" {
		f.c.gcPark("getpage")
	}
	p, ok := f.Factory.GetPage(i)
	if !ok {
		return nil, false
	}
	return f.wrap(p), true
}

// wpage wraps one MappedPage.
type wpage struct {
	page.MappedPage
	kind string
	id   int64
	c    *ctl
	rel  string
}

func (p *wpage) WriteBytes(data []byte, off int) {
	c := p.c
	if c.park != nil && p.kind == "data" {
		c.park("pre")
	}
	if c.crashArmed && c.crashImage == "" && c.crashK-c.crashCount <= len(data) {
		// the crash point lies inside (or at the end of) this copy: split it there
		k := c.crashK - c.crashCount
		p.MappedPage.WriteBytes(data[:k], off)
		p.c.note(p, off, k)
		c.crashCount += k
		c.takeImage()
		p.MappedPage.WriteBytes(data, off)
		p.c.note(p, off, len(data))
		c.crashCount += len(data) - k
	} else {
		p.MappedPage.WriteBytes(data, off)
		p.c.note(p, off, len(data))
		c.afterStore(len(data))
	}
	if c.park != nil && p.kind == "data" {
		c.park("post")
	}
}

func (p *wpage) PutUint64(v uint64, off int) {
	if p.kind == "meta" && p.c.metaPark != nil {
		p.c.metaPark(off, v)
	}
	p.MappedPage.PutUint64(v, off)
	if p.kind == "index" {
		p.c.mu.Lock()
		p.c.idxStoreSeen, p.c.idxStorePage, p.c.idxStoreOff = true, p.id, off
		p.c.mu.Unlock()
	}
	p.c.note(p, off, 8)
	p.c.afterStore(1)
}

func (p *wpage) PutUint32(v uint32, off int) {
	p.MappedPage.PutUint32(v, off)
	p.c.note(p, off, 4)
	p.c.afterStore(1)
}

func (p *wpage) PutUint8(v uint8, off int) {
	p.MappedPage.PutUint8(v, off)
	p.c.note(p, off, 1)
	p.c.afterStore(1)
}
