package c05

import (
	"fmt"
	"math/rand"
	"os"
	"sort"
	"strings"

	"github.com/lindb/lindb/pkg/queue/page"
)

// factory.go: the page factory (pkg/queue/page/factory.go) driven directly — the REAL
// page.NewFactory on a scratch directory, no wrapper — and mirrored by Model/QueueFactory.lean:
//
//	f-new <pageSize>   f-acq <id>   f-get <id>   f-trunc <bound>   f-close   f-reopen
//
// Oracle (what the queue relies on for its messages): a page that was acquired keeps its
// bytes while it is in the factory and across Close + NewFactory; TruncatePages(bound)
// removes every page whose ID is below the bound and no other; AcquirePage on a closed
// factory fails.

type fctRun struct {
	r    *run
	dir  string
	ps   int
	f    page.Factory
	open bool
	have map[int64]bool // page ids that must exist (files)
}

func fctTag(id int64, j int) byte { return byte((int(id)*37 + j*11 + 5) % 251) }

func (x *fctRun) state() string {
	return fmt.Sprintf("pages=%s size=%d", listPages(x.dir), x.f.Size())
}

func (x *fctRun) opNew(ps int) {
	c := x.r.c
	dir, err := os.MkdirTemp("", "lvh-c05-fct-*")
	if err != nil {
		c.Op(fmt.Sprintf("f-new %d", ps), "err mkdir")
		return
	}
	x.r.tmp = append(x.r.tmp, dir)
	x.dir, x.ps, x.have = dir, ps, map[int64]bool{}
	c.Guard(fmt.Sprintf("f-new %d", ps), func() string {
		f, err := page.NewFactory(dir, ps)
		if err != nil {
			return "err " + err.Error()
		}
		x.f, x.open = f, true
		return "ok " + x.state()
	})
}

func (x *fctRun) fileExists(id int64) bool {
	_, err := os.Stat(fmt.Sprintf("%s/%d.bat", x.dir, id))
	return err == nil
}

// verify compares the tag bytes of a page with what was written when it was created.
func (x *fctRun) verify(p page.MappedPage, id int64, after string) {
	if p == nil || !x.open {
		return
	}
	got := p.ReadBytes(8, x.ps-8)
	for j := range got {
		if got[j] != fctTag(id, j) {
			x.r.c.Fail("factory-page-content-lost", fmt.Sprintf("after %s: page %d byte %d is %#x, written was %#x", after, id, 8+j, got[j], fctTag(id, j)))
			return
		}
	}
	if v := p.ReadUint64(0); v != uint64(id)^0x5a5a {
		x.r.c.Fail("factory-page-content-lost", fmt.Sprintf("after %s: page %d word 0 is %#x, written was %#x", after, id, v, uint64(id)^0x5a5a))
	}
}

func (x *fctRun) opAcquire(id int64) {
	c := x.r.c
	op := fmt.Sprintf("f-acq %d", id)
	c.Guard(op, func() string {
		existed := x.fileExists(id)
		p, err := x.f.AcquirePage(id)
		if err != nil {
			if x.open {
				return "err other:" + err.Error()
			}
			c.Branch("fct-acquire-closed")
			return "err closed"
		}
		if !x.open {
			c.Fail("factory-closed-acquire-succeeded", fmt.Sprintf("%s returned a page after Close", op))
			return "ok after-close"
		}
		if existed {
			c.Branch("fct-acquire-loaded")
			if x.have[id] {
				x.verify(p, id, op)
			}
			return "ok loaded " + x.state()
		}
		c.Branch("fct-acquire-created")
		buf := make([]byte, x.ps-8)
		for j := range buf {
			buf[j] = fctTag(id, j)
		}
		p.WriteBytes(buf, 8)
		p.PutUint64(uint64(id)^0x5a5a, 0)
		x.have[id] = true
		return "ok created " + x.state()
	})
}

func (x *fctRun) opGet(id int64) {
	c := x.r.c
	op := fmt.Sprintf("f-get %d", id)
	c.Guard(op, func() string {
		p, ok := x.f.GetPage(id)
		if ok && x.open && x.have[id] {
			x.verify(p, id, op)
		}
		if x.open && x.have[id] && !ok {
			c.Fail("factory-page-lost", fmt.Sprintf("%s: page %d was acquired and never truncated, GetPage says it is absent", op, id))
		}
		return fmt.Sprintf("ok %v", ok)
	})
}

func (x *fctRun) opTruncate(b int64) {
	c := x.r.c
	op := fmt.Sprintf("f-trunc %d", b)
	c.Guard(op, func() string {
		x.f.TruncatePages(b)
		return "ok " + x.state()
	})
	if !x.open {
		c.Branch("fct-truncate-closed")
		return
	}
	c.Branch("fct-truncate")
	ids := make([]int64, 0, len(x.have))
	for id := range x.have {
		ids = append(ids, id)
	}
	sort.Slice(ids, func(i, j int) bool { return ids[i] < ids[j] })
	for _, id := range ids {
		_, ok := x.f.GetPage(id)
		switch {
		case id < b && (ok || x.fileExists(id)):
			c.Fail("factory-truncate-kept-page-below-bound", fmt.Sprintf("%s: page %d is still there (map=%v file=%v)", op, id, ok, x.fileExists(id)))
		case id >= b && (!ok || !x.fileExists(id)):
			c.Fail("factory-truncate-removed-page-at-or-above-bound", fmt.Sprintf("%s: page %d is gone (map=%v file=%v)", op, id, ok, x.fileExists(id)))
		}
		if id < b {
			delete(x.have, id)
		}
	}
}

func (x *fctRun) opClose() {
	x.r.c.Guard("f-close", func() string {
		if err := x.f.Close(); err != nil {
			return "err " + err.Error()
		}
		x.open = false
		return "ok"
	})
	x.r.c.Branch("fct-close")
}

func (x *fctRun) opReopen() {
	c := x.r.c
	c.Guard("f-reopen", func() string {
		_ = x.f.Close()
		x.open = false
		f, err := page.NewFactory(x.dir, x.ps)
		if err != nil {
			return "err " + err.Error()
		}
		x.f, x.open = f, true
		return "ok " + x.state()
	})
	c.Branch("fct-reopen")
	if !x.open {
		return
	}
	ids := make([]int64, 0, len(x.have))
	for id := range x.have {
		ids = append(ids, id)
	}
	sort.Slice(ids, func(i, j int) bool { return ids[i] < ids[j] })
	for _, id := range ids {
		p, ok := x.f.GetPage(id)
		if !ok {
			c.Fail("factory-page-lost", fmt.Sprintf("after f-reopen: page %d (file present: %v) was not loaded", id, x.fileExists(id)))
			continue
		}
		x.verify(p, id, "f-reopen")
	}
}

// fctCase: a random history on one factory. Page ids are small (dense, so that truncation bounds
// fall between them), with a few far-away ids (10^k, around 2^40) for the file-name round trip of
// loadPages; bounds hit ids exactly, one above, one below, 0 and beyond the largest.
func (r *run) fctCase(rng *rand.Rand) {
	r.c.Branch("case-factory")
	x := &fctRun{r: r}
	x.opNew([]int{64, 128, 4096}[rng.Intn(3)])
	if x.f == nil {
		return
	}
	defer func() {
		if x.f != nil {
			_ = x.f.Close()
		}
	}()
	var ids []int64
	pick := func() int64 {
		switch k := rng.Intn(20); {
		case k < 14:
			return int64(rng.Intn(9))
		case k < 17:
			return int64(9 + rng.Intn(30))
		case k == 17:
			return []int64{100, 1000, 65536}[rng.Intn(3)]
		default:
			return int64(1)<<40 + int64(rng.Intn(3))
		}
	}
	bound := func() int64 {
		if len(ids) == 0 || rng.Intn(6) == 0 {
			return int64(rng.Intn(12))
		}
		id := ids[rng.Intn(len(ids))]
		return id + int64(rng.Intn(3)) - 1
	}
	n := 10 + rng.Intn(30)
	for j := 0; j < n; j++ {
		switch k := rng.Intn(100); {
		case k < 40:
			id := pick()
			ids = append(ids, id)
			x.opAcquire(id)
		case k < 55:
			if len(ids) > 0 && rng.Intn(3) > 0 {
				x.opGet(ids[rng.Intn(len(ids))])
			} else {
				x.opGet(pick())
			}
		case k < 78:
			b := bound()
			if b < 0 {
				b = 0
			}
			x.opTruncate(b)
			if rng.Intn(3) == 0 { // the region of seeded change c05-7: truncate again on a truncated factory
				x.opTruncate(b + int64(rng.Intn(3)))
			}
		case k < 90:
			x.opReopen()
		default:
			x.opClose()
			// a closed factory: AcquirePage fails, TruncatePages does nothing
			x.opAcquire(pick())
			x.opTruncate(bound() + 1)
			x.opReopen()
		}
	}
	x.opReopen()
	r.gotOK = r.gotOK || len(x.have) > 0
}

// ---- small helpers shared with partition.go

func trimErr(s string) string {
	if i := strings.IndexByte(s, '\n'); i >= 0 {
		return s[:i]
	}
	return s
}
