package c05

import (
	"context"
	"errors"
	"fmt"
	"math/rand"
	"os"
	"path/filepath"

	"github.com/lindb/lindb/constants"
	"github.com/lindb/lindb/models"
	"github.com/lindb/lindb/pkg/option"
	"github.com/lindb/lindb/pkg/queue"
	"github.com/lindb/lindb/pkg/timeutil"
	"github.com/lindb/lindb/replica"
	"github.com/lindb/lindb/tsdb"
)

// partition.go: the callers of the WAL queue in replica/partition.go — WriteLog, ReplicaLog,
// ReplicaAckIndex, ResetReplicaIndex, IsExpire (Sync + GC), Close — on a REAL replica.NewPartition
// over a real queue.NewFanOutQueue whose pages come from the wrapped factory. Mirrored by
// `writeLog` / `replicaLog` / `resetReplicaIndex` of Model/QueueFactory.lean:
//
//	p-new   p-write <hex|->   p-writegen <start> <len>   p-replica <idx> <hex|->   p-ackidx
//	p-reset <idx>   p-expire   p-close   p-reopen        (+ get / ack on the underlying queue)
//
// Oracle: the one of the queue stream (every message whose WriteLog / ReplicaLog returned success
// under a sequence is read back under it while above the acknowledged position), plus: ReplicaLog
// that reports the requested index as appended must have appended exactly there.

type pStubDB struct {
	tsdb.Database
	opt *option.DatabaseOption
}

func (d *pStubDB) Name() string                      { return "db" }
func (d *pStubDB) GetOption() *option.DatabaseOption { return d.opt }

type pStubShard struct {
	tsdb.Shard
	db *pStubDB
}

func (s *pStubShard) Database() tsdb.Database { return s.db }
func (s *pStubShard) ShardID() models.ShardID { return 0 }

type pStubFamily struct {
	tsdb.DataFamily
}

// inside the write window: IsExpire = Sync + GC and returns false
func (f *pStubFamily) TimeRange() timeutil.TimeRange {
	return timeutil.TimeRange{Start: 0, End: 1 << 60}
}

type partRun struct {
	r      *run
	fq     queue.FanOutQueue
	p      replica.Partition
	closed bool
}

func (x *partRun) build(dir string) error {
	x.r.ctl.root = dir
	fq, err := queue.NewFanOutQueue(dir, 0)
	if err != nil {
		return err
	}
	db := &pStubDB{opt: &option.DatabaseOption{Ahead: "1h", Behind: "1h"}}
	sh := &pStubShard{db: db}
	x.fq = fq
	x.p = replica.NewPartition(context.Background(), sh, &pStubFamily{}, models.NodeID(1), fq, nil, nil)
	x.closed = false
	x.r.dir, x.r.q = dir, fq.Queue()
	return nil
}

func (x *partRun) shutdown() {
	if x.p != nil {
		func() { defer func() { _ = recover() }(); _ = x.p.Close() }()
		x.p = nil
	}
	x.r.q = nil // closed through the partition (fanOutQueue.Close closes the underlying queue)
}

func (x *partRun) opNew() {
	r := x.r
	r.cleanup()
	r.tmp = nil
	dir, err := os.MkdirTemp("", "lvh-c05-part-*")
	if err != nil {
		r.c.Op("p-new", "err mkdir")
		return
	}
	r.tmp = append(r.tmp, dir)
	r.ctl = newCtl(dir)
	r.want = map[int64][]byte{}
	r.ths = map[int]*thr{}
	r.maxTouched, r.epochLo, r.unsynced, r.idxMaybeDead, r.bulk = 0, 0, false, false, nil
	if err := x.build(dir); err != nil {
		r.c.Op("p-new", "err open")
		return
	}
	r.c.Op("p-new", "ok "+r.qstate())
}

func (x *partRun) opWrite(m msg) {
	r := x.r
	op := "p-write" + m.sfx() + " " + m.arg()
	before := r.q.AppendedSeq()
	r.c.Guard(op, func() string {
		err := x.p.WriteLog(m.data)
		switch {
		case errors.Is(err, constants.ErrPartitionClosed):
			r.c.Branch("writelog-closed")
			return "err closed"
		case err != nil:
			r.c.Branch("writelog-rejected")
			return putErr(err)
		}
		seq := r.q.AppendedSeq()
		if len(m.data) == 0 {
			r.c.Branch("writelog-empty")
			return fmt.Sprintf("ok noop app=%d", seq)
		}
		if seq != before+1 {
			r.c.Fail("seq-not-dense", fmt.Sprintf("WriteLog returned nil, appended went %d -> %d", before, seq))
		}
		r.want[seq] = m.data
		r.touched(true)
		r.c.Branch("writelog-ok")
		return fmt.Sprintf("ok seq=%d %s", seq, r.curStr())
	})
	if !x.closed {
		r.check("p-write")
	}
}

func (x *partRun) opReplica(idx int64, m msg) {
	r := x.r
	op := fmt.Sprintf("p-replica %d %s", idx, m.arg())
	before := r.q.AppendedSeq()
	r.c.Guard(op, func() string {
		got, err := x.p.ReplicaLog(idx, m.data)
		switch {
		case errors.Is(err, constants.ErrPartitionClosed):
			r.c.Branch("replicalog-closed")
			return "err closed"
		case err != nil:
			r.c.Branch("replicalog-failed")
			return fmt.Sprintf("err failed ret=%d", got)
		}
		after := r.q.AppendedSeq()
		if got != idx {
			// the follower is told which index it expects; nothing may have been appended
			r.c.Branch("replicalog-skip")
			if after != before {
				r.c.Fail("replicalog-skip-appended", fmt.Sprintf("%s answered %d (not the requested index) but appended went %d -> %d", op, got, before, after))
			}
			return fmt.Sprintf("ok skip next=%d", got)
		}
		r.c.Branch("replicalog-ok")
		if after != idx {
			r.c.Fail("replicalog-index-mismatch", fmt.Sprintf("%s reported index %d as appended, the queue's appended sequence is %d (was %d)", op, got, after, before))
		}
		r.want[idx] = m.data
		r.touched(true)
		return fmt.Sprintf("ok idx=%d %s", got, r.curStr())
	})
	if !x.closed {
		r.check("p-replica")
	}
}

func (x *partRun) opAckIdx() {
	r := x.r
	r.c.Guard("p-ackidx", func() string { return fmt.Sprintf("ok %d", x.p.ReplicaAckIndex()) })
}

func (x *partRun) opReset(idx int64) {
	r := x.r
	r.c.Guard(fmt.Sprintf("p-reset %d", idx), func() string {
		x.p.ResetReplicaIndex(idx)
		return "ok " + r.qstate()
	})
	r.want = map[int64][]byte{}
	r.bulk = nil
	r.unsynced = true
	r.c.Branch("partition-reset")
	if a, k := r.q.AppendedSeq(), r.q.AcknowledgedSeq(); a != idx-1 || k != idx-1 {
		r.c.Fail("reset-did-not-set-sequences", fmt.Sprintf("ResetReplicaIndex(%d): appended=%d ack=%d", idx, a, k))
	}
}

func (x *partRun) opExpire() {
	r := x.r
	r.c.Guard("p-expire", func() string {
		e := x.p.IsExpire()
		return fmt.Sprintf("ok expired=%v data=%s index=%s", e, listPages(filepath.Join(r.dir, "data")), listPages(filepath.Join(r.dir, "index")))
	})
	r.c.Branch("partition-expire-gc")
	if r.unsynced {
		r.idxMaybeDead = true
	}
	r.check("p-expire")
}

func (x *partRun) opClose() {
	r := x.r
	r.c.Guard("p-close", func() string {
		if err := x.p.Close(); err != nil {
			return "err " + err.Error()
		}
		x.closed = true
		return "ok"
	})
	r.c.Branch("partition-close")
}

func (x *partRun) opReopen() {
	r := x.r
	before := r.q.AppendedSeq()
	r.c.Guard("p-reopen", func() string {
		_ = x.p.Close()
		x.p = nil
		r.q = nil
		if err := x.build(r.dir); err != nil {
			return "err open:" + trimErr(err.Error())
		}
		return "ok " + r.qstate()
	})
	if r.q == nil {
		return
	}
	if a := r.q.AppendedSeq(); a != before {
		r.c.Fail("appended-moved-by-reopen", fmt.Sprintf("appended %d before partition close, %d after NewFanOutQueue", before, a))
	}
	r.c.Branch("partition-reopen")
	r.rewound()
	r.check("p-reopen")
}

// partCase: a random history through the partition API. Replica indexes are mostly the expected
// one (appended+1), sometimes one below / above / far away (the skip branch); writes include the
// empty message (early return, no sequence) and, rarely, a message that rolls the data page.
func (r *run) partCase(rng *rand.Rand) {
	r.c.Branch("case-partition")
	x := &partRun{r: r}
	x.opNew()
	if r.q == nil {
		return
	}
	defer x.shutdown()
	n := 8 + rng.Intn(30)
	for j := 0; j < n && r.q != nil; j++ {
		switch k := rng.Intn(100); {
		case k < 28:
			x.opWrite(randMsg(rng))
		case k < 48:
			idx := r.q.AppendedSeq() + 1
			switch d := rng.Intn(10); {
			case d == 0:
				idx--
			case d == 1:
				idx++
			case d == 2:
				idx = int64(rng.Intn(1000))
			}
			m := randMsg(rng)
			if m.gen[1] >= 0 { // the replica op carries literal bytes
				m = lit(randBytes(rng, 1+rng.Intn(40)))
			}
			x.opReplica(idx, m)
		case k < 54:
			x.opAckIdx()
		case k < 68:
			r.randGet(rng)
		case k < 76:
			app, ack := r.q.AppendedSeq(), r.q.AcknowledgedSeq()
			r.opAck(ack + int64(rng.Intn(int(app-ack)+2)) - int64(rng.Intn(2)))
		case k < 84:
			x.opExpire()
		case k < 88:
			if t, ok := r.resetTarget(rng); ok {
				x.opReset(t + 1)
			}
		case k < 95:
			x.opReopen()
		default:
			x.opClose()
			x.opWrite(lit(randBytes(rng, 1+rng.Intn(8))))
			x.opReplica(r.q.AppendedSeq()+1, lit(randBytes(rng, 1+rng.Intn(8))))
			x.opWrite(lit(nil))
			x.opAckIdx()
			x.opReopen()
		}
	}
	if r.q != nil {
		x.opReopen()
	}
	if r.q != nil {
		ack, app := r.q.AcknowledgedSeq(), r.q.AppendedSeq()
		if app-ack <= 60 {
			for s := ack; s <= app+1; s++ {
				r.opGet(s)
			}
		} else {
			r.readUnacked(rng)
		}
	}
}

// partRollCase: the partition API across a data page roll-over and an ack + IsExpire (GC) round.
func (r *run) partRollCase(rng *rand.Rand) {
	r.c.Branch("case-partition-rollover")
	x := &partRun{r: r}
	x.opNew()
	if r.q == nil {
		return
	}
	defer x.shutdown()
	x.opWrite(gen(rng.Intn(1000), dataPageSize-40-rng.Intn(20)))
	x.opReplica(1, lit(randBytes(rng, 30)))
	x.opWrite(lit(randBytes(rng, 64))) // rolls to data page 1
	x.opReplica(3, lit(randBytes(rng, 12)))
	x.opWrite(lit(nil))
	r.opAck(1)
	x.opExpire()
	x.opExpire()
	r.opGet(2)
	r.opGet(3)
	x.opReopen()
	x.opReplica(4, lit(randBytes(rng, 12)))
	x.opExpire()
	r.opGet(2)
	r.opGet(4)
}
