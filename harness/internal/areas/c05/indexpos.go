package c05

import (
	"fmt"
	"math/rand"

	"github.com/lindb/lindb/pkg/queue"
)

// Round 12: the index-page POSITION of the queue object (Model/C05IndexPos.lean). persistMetaOfMessage
// stores the index item through the object q.indexPage; Get / GC / NewQueue compute the page from the
// sequence. The wrapped index pages know their id, so the harness can observe which page object the
// queue holds (hook VerifC05IndexPage) and through which page:slot the item of a Put really went
// (first PutUint64 into an index page, recorded by the wrapper).
//
//   ipos            -> "ok held=<id of q.indexPage> idx=<q.indexPageIndex>"
//   ip-put <hex|->  -> the answer of put + " store=<page>:<slot> held=.. idx=.."

func (r *run) posStr() string {
	pg, idx, ok := queue.VerifC05IndexPage(r.q)
	if !ok {
		return "held=? idx=?"
	}
	held := int64(-1)
	if w, isW := pg.(*wpage); isW && w != nil {
		held = w.id
	}
	return fmt.Sprintf("held=%d idx=%d", held, idx)
}

func (r *run) opIPos() {
	if r.q == nil {
		return
	}
	r.c.Guard("ipos", func() string { return "ok " + r.posStr() })
}

// opIPut is opPut that also reports the observed item store and the position afterwards. Oracle
// (impl side, the property itself): r.check reads every returned message back; in addition the
// item of the returned sequence must have been stored where Get will look for it.
func (r *run) opIPut(m msg) {
	const n = int64(1024 * 256)
	if m.gen[1] >= 0 {
		m = lit(m.data) // the ip-put line carries the bytes themselves (messages here are small)
	}
	op := "ip-put " + m.arg()
	before := r.q.AppendedSeq()
	r.c.Guard(op, func() string {
		r.ctl.mu.Lock()
		r.ctl.idxStoreSeen = false
		r.ctl.mu.Unlock()
		err := r.q.Put(m.data)
		if err != nil {
			r.c.Branch("put-rejected")
			return putErr(err)
		}
		seq := r.q.AppendedSeq()
		if seq != before+1 {
			r.c.Fail("seq-not-dense", fmt.Sprintf("Put returned nil, appended went %d -> %d", before, seq))
		}
		r.want[seq] = m.data
		r.touched(true)
		r.c.Branch("put-ok")
		r.ctl.mu.Lock()
		seen, pg, off := r.ctl.idxStoreSeen, r.ctl.idxStorePage, r.ctl.idxStoreOff
		r.ctl.mu.Unlock()
		store := "store=none"
		if seen {
			store = fmt.Sprintf("store=%d:%d", pg, off/16)
			if pg != seq/n {
				r.c.Branch("ip-store-in-other-page")
			}
		}
		if seq/n != before/n || before < 0 {
			r.c.Branch("ip-put-changes-page")
		}
		return fmt.Sprintf("ok seq=%d %s %s %s", seq, r.curStr(), store, r.posStr())
	})
	r.check("put")
}

// posCase realises the witness family of Props.C05.index_switch_exact on the real queue: for
// triples (page of the next sequence, page the queue is positioned in, slot) — position the queue
// in page idx (SetAppendedSeq + close/reopen, or by an append there), reset onto the sequence before
// slot `slot` of page ipg (forwards or BACKWARDS across any number of index pages, onto boundaries,
// last slots and the middle of a page), append, read back, append again, optionally restart.
func (r *run) posCase(rng *rand.Rand, fixed bool) {
	r.c.Branch("case-indexpos")
	const n = int64(1024 * 256)
	r.opNew()
	r.opIPos()
	for j := 0; j < 3; j++ {
		r.opIPut(randMsg(rng))
	}
	type tr struct{ ipg, idx, slot int64 }
	var trs []tr
	if fixed {
		// forward into the middle of page 1 (c05-25's region), backward into page 0 (c05-23's region),
		// forward two pages onto the last slot, backward onto a boundary, same page, onto sequence 0
		trs = []tr{{1, 0, 37857}, {0, 1, 6 + rng.Int63n(100)}, {3, 1, n - 1}, {2, 3, 0}, {2, 2, 500 + rng.Int63n(100)}, {0, 2, 0}}
	} else {
		for j := 0; j < 4+rng.Intn(3); j++ {
			t := tr{rng.Int63n(5), rng.Int63n(5), 0}
			switch rng.Intn(5) {
			case 0:
				t.slot = 0
			case 1:
				t.slot = n - 1
			case 2:
				t.slot = 1 + rng.Int63n(3)
			default:
				t.slot = 1000 + rng.Int63n(n-2000)
			}
			trs = append(trs, t)
		}
	}
	for _, t := range trs {
		// position the queue object in page t.idx
		if _, idx, _ := queue.VerifC05IndexPage(r.q); idx != t.idx {
			r.opSetApp(n*t.idx + 700 + rng.Int63n(200))
			if fixed || rng.Intn(2) == 0 {
				r.opReopen()
			} else {
				r.opIPut(lit(randBytes(rng, 6)))
			}
			r.opIPos()
		}
		target := n*t.ipg + t.slot - 1
		r.opSetApp(target)
		r.opIPos()
		r.opGet(target + 1)
		r.opIPut(lit(randBytes(rng, 5+rng.Intn(9))))
		r.opGet(target + 1)
		r.opIPut(randMsg(rng))
		r.opGet(target + 1)
		r.opGet(target + 2)
		if rng.Intn(3) == 0 {
			r.opReopen()
			r.opIPos()
			r.opGet(target + 1)
			r.opIPut(randMsg(rng))
		}
		r.readUnacked(rng)
	}
	r.opReopen()
	r.opIPos()
	r.readUnacked(rng)
}
