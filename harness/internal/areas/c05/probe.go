package c05

import (
	"bytes"
	"fmt"
	"os"

	"github.com/lindb/lindb/pkg/queue"
)

// Probe is a throwaway reproduction of the overlap/reopen witness.
func Probe(args []string) string {
	dir, _ := os.MkdirTemp("", "lvh-c05-*")
	defer os.RemoveAll(dir)
	c := newCtl(dir)
	restore := queue.VerifC05SetPageFactory(wrapFactory(func() *ctl { return c }))
	defer restore()
	q, err := queue.NewQueue(dir, 0)
	if err != nil {
		return err.Error()
	}
	type th struct {
		parked chan string
		resume chan struct{}
		done   chan error
	}
	var cur *th
	c.park = func(ph string) { t := cur; t.parked <- ph; <-t.resume }
	start := func(data []byte) *th {
		t := &th{make(chan string), make(chan struct{}), make(chan error, 1)}
		cur = t
		go func() { t.done <- q.Put(data) }()
		fmt.Println("parked", <-t.parked, "lockHeld", queue.VerifC05LockHeld(q))
		return t
	}
	A := []byte("AAAAAAAA")
	B := []byte("BBBBBBBBBBBB")
	ta := start(A)
	tb := start(B)
	cur = tb
	tb.resume <- struct{}{}
	<-tb.parked
	tb.resume <- struct{}{}
	fmt.Println("B done", <-tb.done, "appended", q.AppendedSeq())
	cur = ta
	ta.resume <- struct{}{}
	<-ta.parked
	ta.resume <- struct{}{}
	fmt.Println("A done", <-ta.done, "appended", q.AppendedSeq())
	c.park = nil
	g0, _ := q.Get(0)
	g1, _ := q.Get(1)
	fmt.Printf("before reopen: get0=%s get1=%s\n", g0, g1)
	q.Close()
	q, err = queue.NewQueue(dir, 0)
	if err != nil {
		return err.Error()
	}
	dp, mo, ip, _ := queue.VerifC05Cursor(q)
	fmt.Println("cursor after reopen", dp, mo, ip)
	_ = q.Put([]byte("CCCCCCCCCCCCCCCC"))
	g0, _ = q.Get(0)
	g1, _ = q.Get(1)
	fmt.Printf("after reopen+put: get0=%s get1=%s\n", g0, g1)
	ok := bytes.Equal(g0, B)
	q.Close()
	return fmt.Sprint("seq0 intact: ", ok, " stores=", len(c.stores))
}
