package c08

// Area `tick` of property C08: the side model `Tick` (Model/Replication.lean) realised on the REAL code under a
// controlled schedule. Three threads — writers (`partition.WriteLog`), the replica loop (`partition.replica`, one
// follower) and the WAL's GC goroutine (`partition.IsExpire` on a family past its write window) — are advanced one
// atomic step at a time, in the order the case's op list says:
//
//	append   WriteLog of one message
//	consume  a replica call runs IsReady/Connect/Consume/GetMessage and is HELD inside the loopback's Send: the
//	         consumed sequence has moved, the request has not left (after a lost request the call starts with the
//	         real handshake, which rewinds the consumed sequence)
//	ack      the held request is delivered, the follower appends and answers, SetAckIndex runs, the call returns
//	lose     the held request is lost (Send fails): consumed, never acknowledged, state := failure
//	test     IsExpire runs Sync, GC and its emptiness test on the group; when it finds the group drained it is HELD
//	         at the yield point c08-expire-tested, i.e. just before stopReplicator (verdict = 1); otherwise it returns
//	stop     the held IsExpire goes on: stopReplicator (StopConsumerGroup + replicator.Close)
//
// The Lean driver C08Tick replays the same lines on `Tick.step true`; every line answers the counters. The impl-side
// oracle is theorem tick_never_removes_unacked read on the real counters: whenever IsExpire is at (or passes) the
// point before stopReplicator and no append landed since its test, appended <= acknowledged, consumed = acknowledged
// and no request is in flight.

import (
	"errors"
	"fmt"
	"math/rand"
	"strconv"
	"time"

	"github.com/lindb/lindb/internal/verifhook"

	"github.com/lindb/lindb/zzverif/internal/core"
)

type tickArea struct{}

func init() { core.Register(tickArea{}) }

func (tickArea) Name() string { return "tick" }

type tickWorld struct {
	w        *world
	p        *peer
	inflight chan string // the held replica call (nil: none)
	tickDone chan bool   // the held / running IsExpire (nil: none)
	verdict  bool        // IsExpire is held before stopReplicator
	late     bool        // an append landed since the test that found the group drained
	msg      byte
}

func (t *tickWorld) obs() (line string, app, cons, gack int64, infl bool) {
	app = t.w.lq.Queue().AppendedSeq()
	cons, gack = t.p.grp.ConsumedSeq(), t.p.grp.AcknowledgedSeq()
	in := "-"
	if t.inflight != nil {
		in = strconv.FormatInt(t.w.tickSeq, 10)
		infl = true
	}
	return fmt.Sprintf("app=%d cons=%d gack=%d infl=%s verdict=%s stopped=%s", app, cons, gack, in, b01(t.verdict), b01(t.p.stopped)), app, cons, gack, infl
}

// waitCall waits until the replica call has finished or is held at the gate.
func (t *tickWorld) waitCall(done chan string) (held bool, out string, err error) {
	select {
	case <-t.w.tickAtSend:
		return true, "", nil
	case r := <-done:
		return false, t.w.label(r), nil
	case <-time.After(30 * time.Second):
		return false, "hang", errors.New("replica call neither finished nor reached Send")
	}
}

func (t *tickWorld) apply(op string) error {
	w, p := t.w, t.p
	w.resetStepFlags("none")
	switch op {
	case "append":
		t.msg++
		if err := w.lp.WriteLog([]byte{t.msg}); err != nil {
			return err
		}
		if t.verdict {
			t.late = true
		}
	case "consume":
		if p.stopped || t.inflight != nil {
			return nil
		}
		done := w.startStep(p)
		held, out, err := t.waitCall(done)
		if err != nil {
			return err
		}
		if held {
			t.inflight = done
		} else if out != "idle" {
			return fmt.Errorf("replica call ended with %q before its send", out)
		}
	case "ack":
		if t.inflight == nil || p.stopped {
			return nil // (the answer to a request of a stopped replicator would be acknowledged on a closed group: not driven)
		}
		w.tickGate <- "ack"
		select {
		case r := <-t.inflight:
			if l := w.label(r); l != "acked" {
				return fmt.Errorf("delivered request ended with %q", l)
			}
		case <-time.After(30 * time.Second):
			return errors.New("delivered request: the replica call did not return")
		}
		t.inflight = nil
	case "lose":
		if t.inflight == nil {
			return nil
		}
		w.tickGate <- "lose"
		select {
		case <-t.inflight:
		case <-time.After(30 * time.Second):
			return errors.New("lost request: the replica call did not return")
		}
		t.inflight = nil
	case "test":
		if p.stopped || t.tickDone != nil {
			return nil
		}
		w.family.expired = true
		w.tickArmed = true
		done := make(chan bool, 1)
		lp := w.lp
		go func() { done <- lp.IsExpire() }()
		select {
		case <-w.tickAtStop:
			t.tickDone, t.verdict, t.late = done, true, false
		case expired := <-done:
			if expired {
				w.family.expired, w.tickArmed = false, false
				return errors.New("IsExpire reported the partition expired without stopping its only group")
			}
		case <-time.After(30 * time.Second):
			return errors.New("IsExpire neither returned nor reached stopReplicator")
		}
		w.family.expired, w.tickArmed = false, false
	case "stop":
		if t.tickDone == nil {
			return nil
		}
		w.tickGo <- struct{}{}
		select {
		case <-t.tickDone:
		case <-time.After(30 * time.Second):
			return errors.New("stopReplicator did not return")
		}
		t.tickDone, t.verdict = nil, false
		p.stopped = true
		for _, n := range w.lq.ConsumerGroupNames() {
			if n == strconv.Itoa(int(p.id)) {
				return errors.New("stopReplicator left the consumer group registered")
			}
		}
	default:
		return errors.New("unknown op")
	}
	return nil
}

// finish releases whatever is still held so that the case's goroutines end before its files go away.
func (t *tickWorld) finish() {
	if t.inflight != nil {
		select {
		case t.w.tickGate <- "lose":
			select {
			case <-t.inflight:
			case <-time.After(10 * time.Second):
			}
		case <-time.After(10 * time.Second):
		}
		t.inflight = nil
	}
	if t.tickDone != nil {
		select {
		case t.w.tickGo <- struct{}{}:
			select {
			case <-t.tickDone:
			case <-time.After(10 * time.Second):
			}
		case <-time.After(10 * time.Second):
		}
		t.tickDone = nil
	}
}

var tickOps = []string{"append", "consume", "ack", "lose", "test", "stop"}

var tickFixed = [][]string{
	// 0: drained group: test finds it empty, stopReplicator runs
	{"append", "consume", "ack", "test", "stop", "append", "consume"},
	// 1: a request in flight at the test (verdict must be 0), acknowledged, tested again; then an append lands between
	// the test and stopReplicator (the theorem's `late` hypothesis; observation, not a failure)
	{"append", "consume", "test", "ack", "test", "append", "stop"},
	// 2: a lost request: consumed but never acknowledged — not empty; the next call handshakes, re-sends, then drained
	{"append", "consume", "lose", "test", "consume", "ack", "test", "stop"},
	// 3: backlog, one acknowledged, one in flight
	{"append", "append", "consume", "ack", "consume", "test", "lose", "test", "consume", "ack", "consume", "ack", "test", "test", "stop", "stop"},
	// 4: nothing ever written: the group is empty from the start
	{"test", "consume", "stop", "test"},
}

func genTick(rng *rand.Rand, tier string) []string {
	n := 8 + rng.Intn(22)
	if tier == "thorough" {
		n = 8 + rng.Intn(50)
	}
	var ops []string
	for len(ops) < n {
		r := rng.Intn(100)
		switch {
		case r < 28:
			ops = append(ops, "append")
		case r < 54:
			ops = append(ops, "consume")
		case r < 76:
			ops = append(ops, "ack")
		case r < 82:
			ops = append(ops, "lose")
		case r < 94:
			ops = append(ops, "test")
		default:
			ops = append(ops, "stop")
		}
		if rng.Intn(40) == 0 {
			ops = append(ops, []string{"tick", "append 01", "stop now", ""}[rng.Intn(4)])
		}
	}
	return ops
}

func (tickArea) Run(c *core.Ctx) error {
	verifhook.Set(func(id string) {
		if id == "c08-expire-tested" {
			if w := curWorld; w != nil && w.tickArmed {
				w.tickAtStop <- struct{}{}
				<-w.tickGo
			}
		}
	})
	defer verifhook.Set(nil)
	for i := 0; i < c.N; i++ {
		if !c.Want(i) {
			continue
		}
		var ops []string
		if i < len(tickFixed) {
			ops = tickFixed[i]
		} else {
			ops = genTick(c.Rng(i), c.Tier)
		}
		runTickCase(c, i, ops)
	}
	return nil
}

func runTickCase(c *core.Ctx, i int, ops []string) {
	c.Begin(i)
	w, err := newWorld()
	if err != nil {
		c.Fail("harness-error", "cannot build the world: "+err.Error())
		return
	}
	curWorld = w
	defer func() { curWorld = nil }()
	defer w.destroy()
	t := &tickWorld{w: w, p: w.peers[0]}
	defer t.finish()
	// the channel is brought up first (handshake, stream): the schedule is about what happens from Consume on
	if out, err := w.waitStep(t.p, w.startStep(t.p)); err != nil || out != "idle" {
		c.Fail("harness-error", fmt.Sprintf("warm-up call: %q %v", out, err))
		return
	}
	w.tickGate, w.tickAtSend = make(chan string), make(chan struct{}, 1)
	w.tickAtStop, w.tickGo = make(chan struct{}, 1), make(chan struct{})
	line, _, _, _, _ := t.obs()
	c.Op("reset", line)
	acks, verdicts := 0, 0
	for _, op := range ops {
		known := false
		for _, k := range tickOps {
			known = known || k == op
		}
		if !known {
			c.Op(op, "bad-op")
			c.Branch("bad-op")
			continue
		}
		wasVerdict, wasLate, hadInfl := t.verdict, t.late, t.inflight != nil
		var aerr error
		func() {
			defer func() {
				if r := recover(); r != nil {
					aerr = fmt.Errorf("panic: %v", r)
					c.Fail("panic", fmt.Sprintf("op %q panicked: %v", op, r))
				}
			}()
			aerr = t.apply(op)
		}()
		if aerr != nil {
			c.Fail("harness-error", fmt.Sprintf("op %q: %v", op, aerr))
			c.Op(op, "error "+aerr.Error())
			return
		}
		line, app, cons, gack, infl := t.obs()
		c.Op(op, line)
		if op == "ack" && hadInfl && !infl {
			acks++
		}
		// ---- the property on the real counters
		if !(gack <= cons && cons <= app) {
			c.Fail("tick-order", fmt.Sprintf("after %q: acknowledged %d, consumed %d, appended %d are not in order", op, gack, cons, app))
		}
		if op == "test" && t.verdict && !wasVerdict {
			verdicts++
			c.Branch("tick/verdict-drained")
			if app > gack || cons != gack || infl {
				c.Fail("tick-drained-verdict-with-unacked", fmt.Sprintf("IsExpire's emptiness test found the group drained and is about to stop its replicator, but appended %d, consumed %d, acknowledged %d, request in flight: %v", app, cons, gack, infl))
			}
		}
		if op == "test" && !t.verdict && !wasVerdict && !t.p.stopped {
			c.Branch("tick/verdict-has-data")
		}
		if op == "stop" && wasVerdict {
			if wasLate {
				c.Branch("tick/append-between-test-and-stop") // excluded by the theorem's hypothesis: a write to a family past its write window
			} else {
				c.Branch("tick/stopped-drained")
				if app > gack || cons != gack || infl {
					c.Fail("tick-stopped-with-unacked", fmt.Sprintf("stopReplicator ran with appended %d, consumed %d, acknowledged %d, request in flight: %v and no append since the emptiness test", app, cons, gack, infl))
				}
			}
		}
	}
	if acks > 0 && verdicts > 0 {
		c.NonTrivial()
	}
}
