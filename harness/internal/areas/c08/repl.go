// Package c08 is the correspondence stream "repl" of property C08: a real leader partition
// (replica.NewPartition over a real queue.FanOutQueue, two real remoteReplicators built by
// BuildReplicaForLeader) replicates to TWO real follower partitions through a LOOPBACK rpc
// client that calls the real follower handlers (app/storage/rpc.ReplicaHandler: Replica stream
// loop, GetReplicaAckIndex, Reset) in-process, with fault injection in the loopback.
//
// Real: pkg/queue (queue, fan-out queue, consumer groups, mmap pages on disk), replica.partition
// (WriteLog, ReplicaLog, ReplicaAckIndex, ResetReplicaIndex, IsExpire, replica, buildReplica),
// remoteReplicator (IsReady, Connect, Replica, closeStream, node-state callback),
// ReplicaHandler (all three rpc methods, metadata decoding).
// Stubbed: gRPC transport (loopback channels), storage.StateManager (live flag + callback),
// WriteAheadLogManager/WriteAheadLog (return the one follower partition), tsdb.Shard /
// tsdb.DataFamily / tsdb.Database (names, ids, a time range that is inside or past the write window on demand; the follower's
// local replicator is built by the real BuildReplicaForFollower but never stepped).
// Stepping: replica.VerifC08ReplicaStep (one replicaLoop iteration, never waits for data).
package c08

import (
	"context"
	"encoding/hex"
	"errors"
	"fmt"
	"io"
	"math/rand"
	"os"
	"path/filepath"
	"runtime"
	"strconv"
	"strings"
	"time"

	"google.golang.org/grpc"
	"google.golang.org/grpc/metadata"

	storagerpc "github.com/lindb/lindb/app/storage/rpc"
	"github.com/lindb/lindb/coordinator/storage"
	"github.com/lindb/lindb/internal/verifhook"
	"github.com/lindb/lindb/models"
	"github.com/lindb/lindb/pkg/option"
	"github.com/lindb/lindb/pkg/queue"
	"github.com/lindb/lindb/pkg/timeutil"
	protoReplicaV1 "github.com/lindb/lindb/proto/gen/v1/replica"
	"github.com/lindb/lindb/replica"
	"github.com/lindb/lindb/rpc"
	"github.com/lindb/lindb/tsdb"

	"github.com/lindb/lindb/zzverif/internal/core"
)

type area struct{}

func init() { core.Register(area{}) }

func (area) Name() string { return "repl" }

const (
	leaderID = models.NodeID(1)
	dbName   = "db"
)

// ---------------------------------------------------------------- tsdb / state stubs

type stubDB struct {
	tsdb.Database
	opt *option.DatabaseOption
}

func (d *stubDB) Name() string                      { return dbName }
func (d *stubDB) GetOption() *option.DatabaseOption { return d.opt }

type stubShard struct {
	tsdb.Shard
	db *stubDB
}

func (s *stubShard) Database() tsdb.Database { return s.db }
func (s *stubShard) ShardID() models.ShardID { return 0 }
func (s *stubShard) Indicator() string       { return "db/0" }

type stubFamily struct {
	tsdb.DataFamily
	shard   *stubShard
	expired bool
}

func (f *stubFamily) Shard() tsdb.Shard              { return f.shard }
func (f *stubFamily) Indicator() string              { return "db/0/f" }
func (f *stubFamily) FamilyTime() int64              { return 0 }
func (f *stubFamily) Retain()                        {}
func (f *stubFamily) Release()                       {}
func (f *stubFamily) AckSequence(int32, func(int64)) {}
func (f *stubFamily) TimeRange() timeutil.TimeRange {
	if f.expired { // far behind the write window: IsExpire goes on to the drained test
		return timeutil.TimeRange{Start: 0, End: 1}
	}
	return timeutil.TimeRange{Start: 0, End: 1 << 60} // inside the window: IsExpire = Sync + GC
}

type stateMgr struct {
	storage.StateManager
	w   *world
	fns map[models.NodeID]func(models.NodeStateType)
}

func (m *stateMgr) GetLiveNode(id models.NodeID) (models.StatefulNode, bool) {
	p := m.w.peerByID(id)
	if p == nil || !p.live {
		return models.StatefulNode{}, false
	}
	return models.StatefulNode{ID: id}, true
}
func (m *stateMgr) WatchNodeStateChangeEvent(id models.NodeID, fn func(models.NodeStateType)) {
	m.fns[id] = fn
}

type walMgr struct {
	replica.WriteAheadLogManager
	p *peer
}

func (m *walMgr) GetOrCreateLog(string) replica.WriteAheadLog { return &wal{p: m.p} }

type wal struct {
	replica.WriteAheadLog
	p *peer
}

func (l *wal) GetOrCreatePartition(models.ShardID, int64, models.NodeID) (replica.Partition, error) {
	if l.p.fp == nil {
		return nil, errors.New("follower partition not open")
	}
	return l.p.fp, nil
}

// follower-side storage fault: the follower partition's queue, with a one-shot failing Put
// (partition.ReplicaLog's error branch, the handler and the leader's treatment of the answer are real)
type faultyFanOut struct {
	queue.FanOutQueue
	p *peer
}

func (f *faultyFanOut) Queue() queue.Queue { return &faultyQueue{Queue: f.FanOutQueue.Queue(), p: f.p} }

type faultyQueue struct {
	queue.Queue
	p *peer
}

func (q *faultyQueue) Put(b []byte) error {
	if q.p.putFailOnce {
		q.p.putFailOnce = false
		q.p.w.putFailed = true
		return errors.New("injected follower storage failure")
	}
	return q.Queue.Put(b)
}

// ---------------------------------------------------------------- loopback rpc

type session struct {
	gen    int
	conn   int // the pooled connection this stream runs on
	reqCh  chan *protoReplicaV1.ReplicaRequest
	respCh chan *protoReplicaV1.ReplicaResponse
	ready  chan struct{} // closed at the handler's first Recv (stream set-up done)
	done   chan struct{} // closed when handler.Replica returned
	ctx    context.Context
	closed bool
	first  bool
}

func (s *session) kill() {
	if !s.closed {
		s.closed = true
		close(s.reqCh)
	}
	<-s.done
}

type serverStream struct {
	grpc.ServerStream
	s *session
}

func (ss serverStream) Context() context.Context { return ss.s.ctx }
func (ss serverStream) Recv() (*protoReplicaV1.ReplicaRequest, error) {
	if !ss.s.first {
		ss.s.first = true
		close(ss.s.ready)
	}
	r, ok := <-ss.s.reqCh
	if !ok {
		return nil, io.EOF
	}
	return r, nil
}
func (ss serverStream) Send(r *protoReplicaV1.ReplicaResponse) error {
	ss.s.respCh <- r
	return nil
}

type clientStream struct {
	grpc.ClientStream
	p *peer
	s *session
}

func (cs *clientStream) Send(r *protoReplicaV1.ReplicaRequest) error {
	w := cs.p.w
	if w.tickGate != nil {
		// area `tick`: the replica call is held here — Consume has moved the consumed sequence, the request has not
		// left — until the schedule says what becomes of it (delivered and answered, or lost)
		w.tickSeq = r.ReplicaIndex
		w.tickAtSend <- struct{}{}
		if v := <-w.tickGate; v == "lose" {
			w.sendTried, w.sendFailed = true, true
			return errors.New("injected: request lost (tick)")
		}
	}
	w.sendTried = true
	if cs.s.closed || cs.s.gen != cs.p.fgen || cs.p.connClosed(cs.s.conn) {
		w.sendFailed = true
		return io.EOF
	}
	if w.fault == "send" {
		// the request is lost: whether Send reports it or Send succeeds and Recv fails makes no
		// difference to either side's state; alternate between the two on the real code
		w.lostToggle = !w.lostToggle
		if w.lostToggle {
			w.sendFailed = true
			return errors.New("injected send failure")
		}
		w.lostInFlight = true
		return nil
	}
	w.lastReq = r
	if w.fault == "put" {
		cs.p.putFailOnce = true
	}
	cs.s.reqCh <- r
	return nil
}
func (cs *clientStream) Recv() (*protoReplicaV1.ReplicaResponse, error) {
	w := cs.p.w
	if w.lostInFlight {
		w.sendFailed = true
		return nil, errors.New("injected: request lost in flight")
	}
	select {
	case r := <-cs.s.respCh:
		cs.p.putFailOnce = false
		if w.fault == "recv" {
			w.recvFailed = true
			return nil, errors.New("injected recv failure")
		}
		w.lastResp = r
		return r, nil
	case <-cs.s.done:
		w.recvFailed = true
		return nil, io.EOF
	}
}
func (cs *clientStream) CloseSend() error {
	cs.s.kill()
	return nil
}

// replicaClient is a client stub bound to ONE pooled connection (rpc.clientStreamFactory:
// NewReplicaServiceClient(connFct.GetClientConn(target))): once that connection is closed every call fails.
type replicaClient struct {
	p    *peer
	conn int
}

var errConnClosing = errors.New("rpc error: code = Canceled desc = grpc: the client connection is closing")

func (c *replicaClient) Reset(ctx context.Context, in *protoReplicaV1.ResetIndexRequest, _ ...grpc.CallOption) (*protoReplicaV1.ResetIndexResponse, error) {
	w := c.p.w
	if c.p.connClosed(c.conn) {
		return nil, errConnClosing
	}
	if w.fault == "reset" {
		return nil, errors.New("injected reset failure")
	}
	w.hsReset = true
	return c.p.handler.Reset(ctx, in)
}
func (c *replicaClient) GetReplicaAckIndex(ctx context.Context, in *protoReplicaV1.GetReplicaAckIndexRequest, _ ...grpc.CallOption) (*protoReplicaV1.GetReplicaAckIndexResponse, error) {
	w := c.p.w
	if c.p.connClosed(c.conn) {
		return nil, errConnClosing
	}
	if w.fault == "getack" {
		return nil, errors.New("injected get-ack failure")
	}
	r, err := c.p.handler.GetReplicaAckIndex(ctx, in)
	if err == nil {
		w.hsSeen = true
		w.hsRemoteAck = r.AckIndex
		w.hsLeaderApp = w.lq.Queue().AppendedSeq()
		w.hsLeaderCons = c.p.grp.ConsumedSeq()
		w.hsLeaderGack = c.p.grp.AcknowledgedSeq()
		w.hsPostSeen = false
	}
	return r, err
}
func (c *replicaClient) Replica(ctx context.Context, _ ...grpc.CallOption) (protoReplicaV1.ReplicaService_ReplicaClient, error) {
	p := c.p
	if p.connClosed(c.conn) {
		return nil, errConnClosing
	}
	if p.w.hsSeen && !p.w.hsPostSeen && p.grp != nil && p.fq != nil {
		// IsReady's handshake has returned true and Connect is about to open the stream
		p.w.hsPostSeen = true
		p.w.hsPostCons = p.grp.ConsumedSeq()
		p.w.hsPostFApp = p.fq.Queue().AppendedSeq()
	}
	if p.w.fault == "connect" {
		return nil, errors.New("injected connect failure")
	}
	md, _ := metadata.FromOutgoingContext(ctx)
	s := &session{gen: p.fgen, conn: c.conn, reqCh: make(chan *protoReplicaV1.ReplicaRequest), respCh: make(chan *protoReplicaV1.ReplicaResponse, 1),
		ready: make(chan struct{}), done: make(chan struct{}), ctx: metadata.NewIncomingContext(context.Background(), md)}
	go func() {
		defer close(s.done)
		defer func() { _ = recover() }()
		_ = p.handler.Replica(serverStream{s: s})
	}()
	select {
	case <-s.ready:
	case <-s.done:
		return nil, errors.New("handler refused the stream")
	}
	p.sess = s
	return &clientStream{p: p, s: s}, nil
}

type streamFactory struct {
	rpc.ClientStreamFactory
	w *world
}

func (f *streamFactory) CreateReplicaServiceClient(target models.Node) (protoReplicaV1.ReplicaServiceClient, error) {
	sn, ok := target.(*models.StatefulNode)
	if !ok {
		return nil, errors.New("unexpected node type")
	}
	p := f.w.peerByID(sn.ID)
	if p == nil {
		return nil, errors.New("unknown follower")
	}
	p.disturbed, p.putDisturbed, p.fcloseDisturbed = false, false, false // a handshake of this channel starts
	if f.w.fault == "cli" {
		return nil, errors.New("injected client failure")
	}
	// connFct.GetClientConn: one pooled connection per node, dialled when there is none
	if p.connID == 0 {
		p.connSeq++
		p.connID = p.connSeq
	}
	return &replicaClient{p: p, conn: p.connID}, nil
}

// ---------------------------------------------------------------- the world of one case

type peer struct {
	w       *world
	name    string
	id      models.NodeID
	dir     string
	fq      queue.FanOutQueue
	fp      replica.Partition
	handler *storagerpc.ReplicaHandler
	fgen    int
	sess    *session
	live    bool
	// the leader's connection pool for this follower (rpc.clientConnFactory): id of the pooled connection (0: none),
	// ids handed out so far, and the ids up to which connections have been closed (CloseClientConn = close + remove)
	connID, connSeq, connClosedUpTo int
	wasOffline, sawOffOn, sawFclose bool // for the liveness oracle's key
	buildFailed                     bool // BuildReplicaForLeader returned nil but built nothing
	pending                         chan string
	gid                             int64 // goroutine id of this follower's current (or parked) replica call
	grp                             queue.ConsumerGroup // this follower's consumer group on the leader (handle of the current incarnation)
	stopped                         bool                // the group is not registered on the leader (never added, or stopped by IsExpire)
	born                            bool                // the group's directory exists on the leader

	parkedLive      bool // the loop parked although the follower was live again and its online notification had been handled (steppre)
	lostWake        bool // an online notification was delivered after the loop marked itself suspended and the loop stayed parked
	putFailOnce     bool // the next Put on this follower's queue fails
	fcloseDisturbed bool // the follower partition was destroyed under the (maybe open) stream; until the next handshake
	putDisturbed    bool // a follower Put fault left the channel ready and out of step (until its next handshake)

	fwEpoch   map[int64]int // follower position -> epoch of the leader bytes it received
	disturbed bool          // the other channel's handshake reset the leader's append index while this channel was ready
}

type image struct {
	dir      string
	born     [2]bool
	lwEpoch  map[int64]int
	lwSynced [2]map[int64]bool
}

type world struct {
	dir    string
	shard  *stubShard
	family *stubFamily
	lq     queue.FanOutQueue
	lp     replica.Partition
	sm     *stateMgr
	peers  [2]*peer
	imgs   []*image // newest first
	imgSeq int
	gone   bool
	cancel context.CancelFunc

	// the online notification that is to land between the loop's isSuspend CAS and its `<-r.suspend`
	winPeer  *peer
	winFired bool
	winDone  chan struct{} // closed when the handler (handleNodeStateChangeEvent) has returned
	// the window between IsReady's liveness test and its isSuspend CAS (yield point c08-offline-seen)
	prePeer    *peer
	preFired   bool
	preHandled bool // the handler returned while the loop was held at the yield point

	// per-step instrumentation
	fault                             string
	sendTried, sendFailed, recvFailed bool
	putFailed                         bool
	lostInFlight, lostToggle          bool
	lastReq                           *protoReplicaV1.ReplicaRequest
	lastResp                          *protoReplicaV1.ReplicaResponse
	hsSeen, hsReset                   bool
	hsRemoteAck, hsLeaderApp          int64
	hsLeaderCons                      int64
	// round 12: the handshake's post-condition on the real counters. hsLeaderGack = the group's ack when the
	// handshake read the follower's index; hsPost* = the group's consumed sequence and the follower's appended
	// sequence at the moment Connect opens the stream (IsReady has just returned true, nothing sent yet)
	hsLeaderGack            int64
	hsPostSeen              bool
	hsPostCons, hsPostFApp  int64

	// area `tick` (tick.go): the gate inside the loopback's Send and the expiry check held at its yield point
	tickGate   chan string   // non-nil: Send waits here for "ack" / "lose"
	tickAtSend chan struct{} // a replica call has reached the gate
	tickSeq    int64         // ... with this replica index
	tickArmed  bool          // hold IsExpire at the yield point c08-expire-tested
	tickAtStop chan struct{} // IsExpire has found a drained group and is about to call stopReplicator
	tickGo     chan struct{} // let it go on

	// oracle bookkeeping
	lossSeen bool              // an lrestore happened
	epoch    int               // number of lrestores so far
	lwEpoch  map[int64]int     // leader position -> epoch of its current bytes
	lwSynced [2]map[int64]bool // leader position -> was channel i synced when it was appended
}

func (w *world) leaderDir() string { return filepath.Join(w.dir, "leader") }

func (p *peer) connClosed(id int) bool { return id <= p.connClosedUpTo }

// closeClientConn is rpc.clientConnFactory.CloseClientConn: close the pooled connection and forget it; every
// stream on it dies (the follower's handler sees the stream end), stubs bound to it fail from now on
func (p *peer) closeClientConn() {
	p.connClosedUpTo = p.connSeq
	p.connID = 0
	if p.sess != nil && p.sess.gen == p.fgen {
		p.sess.kill()
	}
}

func (p *peer) idx() int {
	if p.w.peers[0] == p {
		return 0
	}
	return 1
}

func (w *world) peerByID(id models.NodeID) *peer {
	for _, p := range w.peers {
		if p.id == id {
			return p
		}
	}
	return nil
}

func (w *world) peerByName(n string) *peer {
	for _, p := range w.peers {
		if p.name == n {
			return p
		}
	}
	return nil
}

func (w *world) openLeader() error {
	q, err := queue.NewFanOutQueue(w.leaderDir(), 0)
	if err != nil {
		return err
	}
	w.lq = q
	w.sm = &stateMgr{w: w, fns: map[models.NodeID]func(models.NodeStateType){}}
	ctx, cancel := context.WithCancel(context.Background())
	w.cancel = cancel
	w.lp = replica.NewPartition(ctx, w.shard, w.family, leaderID, q, &streamFactory{w: w}, w.sm)
	// what writeAheadLog.recovery does with a partition found on disk: partition.recovery rebuilds the
	// replication channel of every consumer group in the log directory
	if err := replica.VerifPartitionRecovery(w.lp, leaderID); err != nil {
		return err
	}
	names := map[string]bool{}
	for _, n := range q.ConsumerGroupNames() {
		names[n] = true
	}
	for _, p := range w.peers {
		p.grp = nil
		p.stopped = !p.born
		p.disturbed, p.putDisturbed = false, false
		if p.born != names[strconv.Itoa(int(p.id))] {
			return fmt.Errorf("group directory of follower %s: harness says born=%v, the log says %v", p.name, p.born, !p.born)
		}
		if p.born {
			g, err := q.GetOrCreateConsumerGroup(strconv.Itoa(int(p.id)))
			if err != nil {
				return err
			}
			p.grp = g
		}
	}
	return nil
}

// join adds follower p to the leader partition (real BuildReplicaForLeader -> buildReplica ->
// GetOrCreateConsumerGroup + NewRemoteReplicator).
func (w *world) join(p *peer) error {
	if err := w.lp.BuildReplicaForLeader(leaderID, []models.NodeID{p.id}); err != nil {
		return err
	}
	p.born, p.stopped = true, false
	registered := false
	for _, n := range w.lq.ConsumerGroupNames() {
		if n == strconv.Itoa(int(p.id)) {
			registered = true
		}
	}
	_, _, _, hasRepl := replica.VerifC08ReplicatorInfo(w.lp, p.id)
	if !registered || !hasRepl {
		// BuildReplicaForLeader answered nil and built nothing: do not create the group behind its back
		p.buildFailed = true
		p.grp = nil
		return nil
	}
	g, err := w.lq.GetOrCreateConsumerGroup(strconv.Itoa(int(p.id)))
	if err != nil {
		return err
	}
	p.grp = g
	return nil
}

func (w *world) closeLeader() {
	for _, p := range w.peers {
		p.pending = nil // a parked loop dies with the process
		if p.sess != nil && p.sess.gen == p.fgen {
			p.sess.kill() // the transport dies with the process
		}
		p.sess = nil
		p.connClosedUpTo, p.connID = p.connSeq, 0 // the connection pool dies with the process
	}
	w.cancel()
	_ = w.lp.Close()
}

func (p *peer) open() error {
	q, err := queue.NewFanOutQueue(p.dir, 0)
	if err != nil {
		return err
	}
	p.fq = q
	p.fp = replica.NewPartition(context.Background(), p.w.shard, p.w.family, p.id, &faultyFanOut{FanOutQueue: q, p: p}, nil, nil)
	return nil
}

func (p *peer) close() {
	if p.sess != nil {
		p.sess.kill()
	}
	p.fgen++
	_ = p.fp.Close()
	p.fp = nil
}

func newWorld() (*world, error) {
	dir, err := os.MkdirTemp("", "lvh-c08-*")
	if err != nil {
		return nil, err
	}
	db := &stubDB{opt: &option.DatabaseOption{Ahead: "1h", Behind: "1h"}}
	sh := &stubShard{db: db}
	w := &world{dir: dir, shard: sh, family: &stubFamily{shard: sh}, lwEpoch: map[int64]int{}}
	for i := range w.peers {
		w.lwSynced[i] = map[int64]bool{}
		p := &peer{w: w, name: string(rune('a' + i)), id: models.NodeID(2 + i), dir: filepath.Join(dir, "follower-"+string(rune('a'+i))),
			live: true, fwEpoch: map[int64]int{}, born: i == 0}
		p.handler = storagerpc.NewReplicaHandler(&walMgr{p: p})
		w.peers[i] = p
		if err := p.open(); err != nil {
			return nil, err
		}
	}
	w.peers[0].born = false // nothing on disk yet: the first follower is added by BuildReplicaForLeader
	if err := w.openLeader(); err != nil {
		return nil, err
	}
	if err := w.join(w.peers[0]); err != nil {
		return nil, err
	}
	return w, nil
}

func (w *world) destroy() {
	func() {
		defer func() { _ = recover() }()
		w.closeLeader()
	}()
	for _, p := range w.peers {
		func() {
			defer func() { _ = recover() }()
			if p.fp != nil {
				p.close()
			}
		}()
	}
	os.RemoveAll(w.dir)
}

// copyTree copies a partition directory; page files are large sparse mmap files, so only
// the data extents (and of those only non-zero 64 KiB blocks) are written.
func copyTree(src, dst string) error {
	return filepath.Walk(src, func(p string, info os.FileInfo, err error) error {
		if err != nil {
			return err
		}
		rel, _ := filepath.Rel(src, p)
		t := filepath.Join(dst, rel)
		if info.IsDir() {
			return os.MkdirAll(t, 0o755)
		}
		in, err := os.Open(p)
		if err != nil {
			return err
		}
		defer in.Close()
		out, err := os.Create(t)
		if err != nil {
			return err
		}
		defer out.Close()
		if err := out.Truncate(info.Size()); err != nil {
			return err
		}
		const seekData, seekHole = 3, 4
		off := int64(0)
		buf := make([]byte, 64<<10)
		for off < info.Size() {
			d, err := in.Seek(off, seekData)
			if err != nil { // ENXIO: no more data
				break
			}
			h, err := in.Seek(d, seekHole)
			if err != nil {
				h = info.Size()
			}
			for pos := d; pos < h; {
				n := int64(len(buf))
				if h-pos < n {
					n = h - pos
				}
				m, rerr := in.ReadAt(buf[:n], pos)
				if m > 0 {
					zero := true
					for _, b := range buf[:m] {
						if b != 0 {
							zero = false
							break
						}
					}
					if !zero {
						if _, werr := out.WriteAt(buf[:m], pos); werr != nil {
							return werr
						}
					}
				}
				if rerr != nil && rerr != io.EOF {
					return rerr
				}
				if m == 0 {
					break
				}
				pos += int64(m)
			}
			off = h
		}
		return nil
	})
}

// ---------------------------------------------------------------- observations

func showLog(q queue.Queue) (string, map[int64]string) {
	ack, app := q.AcknowledgedSeq(), q.AppendedSeq()
	held := map[int64]string{}
	var items []string
	for i := ack + 1; i <= app; i++ {
		b, err := q.Get(i)
		if err != nil {
			items = append(items, fmt.Sprintf("%d:!", i))
			held[i] = "!"
			continue
		}
		h := hex.EncodeToString(b)
		if len(b) == 0 {
			h = "-"
		}
		held[i] = h
		items = append(items, fmt.Sprintf("%d:%s", i, h))
	}
	return fmt.Sprintf("%d/%d [%s]", ack, app, strings.Join(items, " ")), held
}

type peerObs struct {
	fHeld          map[int64]string
	cons, gack     int64
	fAck, fApp     int64
	chanSt, stream string
	synced, susp   bool
	parked         bool
	stopped        bool
}

type obs struct {
	line       string
	lHeld      map[int64]string
	lAck, lApp int64
	p          [2]peerObs
}

func b01(x bool) string {
	if x {
		return "1"
	}
	return "0"
}

func (w *world) observe() obs {
	var o obs
	var ls string
	ls, o.lHeld = showLog(w.lq.Queue())
	o.lAck, o.lApp = w.lq.Queue().AcknowledgedSeq(), w.lq.Queue().AppendedSeq()
	parts := []string{"L=" + ls}
	for i, p := range w.peers {
		po := &o.p[i]
		var fs string
		fs, po.fHeld = showLog(p.fq.Queue())
		po.fAck, po.fApp = p.fq.Queue().AcknowledgedSeq(), p.fq.Queue().AppendedSeq()
		po.cons, po.gack = -1, -1
		if p.grp != nil {
			po.cons, po.gack = p.grp.ConsumedSeq(), p.grp.AcknowledgedSeq()
		}
		po.stopped = p.stopped
		po.chanSt, po.stream = "-", "-"
		st, hasStream, susp, ok := replica.VerifC08ReplicatorInfo(w.lp, p.id)
		if ok {
			switch models.ReplicatorState(st) {
			case models.ReplicatorInitState:
				po.chanSt = "init"
			case models.ReplicatorReadyState:
				po.chanSt = "ready"
			case models.ReplicatorFailureState:
				po.chanSt = "failure"
			default:
				po.chanSt = "?"
			}
			po.stream = "none"
			if hasStream {
				if p.sess != nil && !p.sess.closed && p.sess.gen == p.fgen && !p.connClosed(p.sess.conn) {
					po.stream = "up"
				} else {
					po.stream = "broken"
				}
			}
			po.susp = susp
		} else {
			po.susp = p.pending != nil
		}
		po.parked = p.pending != nil
		// (a stream whose handler holds a destroyed partition is not "really there" for the oracle)
		po.synced = po.chanSt == "ready" && po.stream == "up" && !p.fcloseDisturbed
		parts = append(parts, fmt.Sprintf("%s: c=%d g=%d F=%s %s %s live=%s susp=%s park=%s stop=%s born=%s", strings.ToUpper(p.name), po.cons, po.gack, fs,
			po.chanSt, po.stream, b01(p.live), b01(po.susp), b01(po.parked), b01(p.stopped), b01(p.born)))
	}
	parts = append(parts, fmt.Sprintf("imgs=%d gone=%s", len(w.imgs), b01(w.gone)))
	o.line = strings.Join(parts, " ")
	return o
}

// ---------------------------------------------------------------- one replica step

func (w *world) resetStepFlags(fault string) {
	w.fault = fault
	w.sendTried, w.sendFailed, w.recvFailed, w.lostInFlight, w.putFailed = false, false, false, false, false
	w.lastReq, w.lastResp = nil, nil
	w.hsSeen, w.hsReset = false, false
	w.hsPostSeen = false
}

// ---- where a goroutine is, read from the runtime's own goroutine dump (taken with the world stopped). The
// verdict "the loop is parked" is never a matter of timing: it is "the goroutine of this replica call is in a
// channel receive whose innermost non-runtime frame is remoteReplicator.IsReady" (the only receive there is
// `<-r.suspend`), whatever shape the suspend / wake-up handshake has (unbuffered + blocking send, token channel).

func curGoid() int64 {
	var buf [64]byte
	n := runtime.Stack(buf[:], false)
	f := strings.Fields(string(buf[:n]))
	if len(f) < 2 {
		return -1
	}
	id, err := strconv.ParseInt(f[1], 10, 64)
	if err != nil {
		return -1
	}
	return id
}

var stackBuf = make([]byte, 1<<20)

// goroutineAt reports whether goroutine gid is waiting in `state` (prefix of the dump's wait reason) with
// `frame` in its innermost non-runtime function.
func goroutineAt(gid int64, state, frame string) bool {
	if gid < 0 {
		return false
	}
	for {
		n := runtime.Stack(stackBuf, true)
		if n < len(stackBuf) {
			return goroutineAtIn(string(stackBuf[:n]), gid, state, frame)
		}
		stackBuf = make([]byte, 2*len(stackBuf))
	}
}

func goroutineAtIn(dump string, gid int64, state, frame string) bool {
	head := fmt.Sprintf("goroutine %d [", gid)
	i := strings.Index(dump, "\n"+head)
	if strings.HasPrefix(dump, head) {
		i = 0
	} else if i >= 0 {
		i++
	}
	if i < 0 {
		return false
	}
	blk := dump[i:]
	if j := strings.Index(blk, "\n\n"); j >= 0 {
		blk = blk[:j]
	}
	lines := strings.Split(blk, "\n")
	if !strings.HasPrefix(lines[0][len(head):], state) {
		return false
	}
	for _, l := range lines[1:] {
		if strings.HasPrefix(l, "\t") || strings.HasPrefix(l, "runtime.") || strings.HasPrefix(l, "created by") {
			continue
		}
		return strings.Contains(l, frame)
	}
	return false
}

func loopInSuspendReceive(p *peer) bool {
	return goroutineAt(p.gid, "chan receive", "(*remoteReplicator).IsReady")
}

// waitStep waits until the step goroutine finished or is blocked in `<-r.suspend`. The caller guarantees that no
// online notification for this follower is in flight (the harness delivers them itself, synchronously).
func (w *world) waitStep(p *peer, done chan string) (string, error) {
	deadline := time.Now().Add(30 * time.Second)
	pause := 20 * time.Microsecond
	for {
		select {
		case r := <-done:
			return w.label(r), nil
		default:
		}
		// (cheap filter first: in every shape with a flag the loop sets isSuspend before it blocks)
		if _, _, susp, ok := replica.VerifC08ReplicatorInfo(w.lp, p.id); ok && susp && loopInSuspendReceive(p) {
			select {
			case r := <-done:
				return w.label(r), nil
			default:
			}
			p.pending = done
			return "parked", nil
		}
		if time.Now().After(deadline) {
			return "hang", errors.New("replica step neither finished nor parked")
		}
		time.Sleep(pause)
		if pause < 2*time.Millisecond {
			pause *= 2
		}
	}
}

// windowHook runs on the replica loop's goroutine at the yield point between
// `isSuspend.CompareAndSwap(false, true)` and `<-r.suspend`.
func (w *world) windowHook() {
	p := w.winPeer
	if p == nil || w.winFired {
		return
	}
	w.winFired = true
	p.live = true
	fn := w.sm.fns[p.id]
	done := w.winDone
	gidCh := make(chan int64, 1)
	go func() {
		defer close(done)
		gidCh <- curGoid()
		if fn != nil {
			fn(models.NodeOnline)
		}
	}()
	// let the handler run until it has returned (non-blocking send / token left) or is blocked in its send on
	// r.suspend (a blocking send now waits for the loop's receive) — read from the goroutine dump, not timed
	hgid := <-gidCh
	deadline := time.Now().Add(20 * time.Second)
	for time.Now().Before(deadline) {
		select {
		case <-done:
			return
		default:
		}
		if goroutineAt(hgid, "chan send", "handleNodeStateChangeEvent") {
			return
		}
		time.Sleep(50 * time.Microsecond)
	}
}

// preHook runs on the replica loop's goroutine at the yield point between IsReady's liveness test
// (`GetLiveNode` said: not live) and `isSuspend.CompareAndSwap(false, true)`: the state manager handles the
// follower's online event now — the node is live again and the watcher is called — and only when the watcher
// has returned does the loop go on to its CAS and its receive.
func (w *world) preHook() {
	p := w.prePeer
	if p == nil || w.preFired {
		return
	}
	w.preFired = true
	p.live = true
	fn := w.sm.fns[p.id]
	done := make(chan struct{})
	gidCh := make(chan int64, 1)
	go func() {
		defer close(done)
		gidCh <- curGoid()
		if fn != nil {
			fn(models.NodeOnline)
		}
	}()
	hgid := <-gidCh
	deadline := time.Now().Add(20 * time.Second)
	for time.Now().Before(deadline) {
		select {
		case <-done:
			w.preHandled = true
			return
		default:
		}
		if goroutineAt(hgid, "chan send", "handleNodeStateChangeEvent") {
			return // a handler that blocks here waits for the loop's receive: let the loop go on
		}
		time.Sleep(50 * time.Microsecond)
	}
}

// waitWindowStep waits for a replica call whose suspend window received the online notification.
// It only judges parked / not parked: the call finishing (released) or, after the handler has
// returned, still not finished a generous while later (the wake-up was lost).
func (w *world) waitWindowStep(p *peer, done chan string) (string, error) {
	select {
	case r := <-done:
		if !w.winFired {
			return "hang", errors.New("the suspend window was not reached")
		}
		return w.label(r), nil
	case <-time.After(30 * time.Second):
		return "hang", errors.New("replica step with an online notification in its suspend window neither finished nor lost its wake-up")
	case <-w.winDone:
	}
	// the handler has returned: whatever it had to hand over is handed over (a blocking send has met the loop's
	// receive, a token sits in the channel) or dropped. The loop either finishes its call, or it is blocked in
	// `<-r.suspend` with nothing on the way: the wake-up is lost.
	deadline := time.Now().Add(30 * time.Second)
	pause := 20 * time.Microsecond
	for {
		select {
		case r := <-done:
			return w.label(r), nil
		default:
		}
		if loopInSuspendReceive(p) {
			select {
			case r := <-done:
				return w.label(r), nil
			default:
			}
			p.pending = done
			p.lostWake = true
			return "parked", nil
		}
		if time.Now().After(deadline) {
			return "hang", errors.New("replica step with an online notification in its suspend window neither finished nor blocked in its receive")
		}
		time.Sleep(pause)
		if pause < 2*time.Millisecond {
			pause *= 2
		}
	}
}

func (w *world) label(r string) string {
	switch r {
	case "step":
		switch {
		case !w.sendTried:
			return "ignored"
		case w.sendFailed:
			return "sendfail"
		case w.recvFailed:
			return "recvfail"
		case w.lastResp != nil && w.lastReq != nil && w.lastResp.Err == "" && w.lastResp.AckIndex == w.lastReq.ReplicaIndex:
			return "acked"
		default:
			return "mismatch"
		}
	default:
		return r // notready, idle, noreplicator, panic:...
	}
}

func (w *world) startStep(p *peer) chan string {
	done := make(chan string, 1)
	lp := w.lp
	gidCh := make(chan int64, 1)
	go func() {
		defer func() {
			if r := recover(); r != nil {
				done <- fmt.Sprintf("panic:%v", r)
			}
		}()
		gidCh <- curGoid()
		done <- replica.VerifC08ReplicaStep(lp, p.id)
	}()
	p.gid = <-gidCh
	return done
}

// ---------------------------------------------------------------- events

var faults = []string{"none", "cli", "getack", "reset", "connect", "send", "recv", "put"}

func isFault(s string) bool {
	for _, f := range faults {
		if f == s {
			return true
		}
	}
	return false
}

// apply executes one protocol line on the implementation; returns the out label ("bad-op"
// for lines the protocol does not know) and the peer the event belongs to (nil: leader event).
func (w *world) apply(op string, pre obs) (string, *peer, error) {
	ws := strings.Fields(op)
	w.resetStepFlags("none")
	if len(ws) == 0 {
		return "bad-op", nil, nil
	}
	var p *peer
	switch ws[0] {
	case "step", "online", "steponl", "steppre":
		if len(ws) != 3 || !isFault(ws[2]) {
			return "bad-op", nil, nil
		}
		p = w.peerByName(ws[1])
	case "frestart", "flose", "fclose", "offline", "join":
		if len(ws) != 2 {
			return "bad-op", nil, nil
		}
		p = w.peerByName(ws[1])
	case "append":
		if len(ws) != 2 {
			return "bad-op", nil, nil
		}
	case "lrestore":
		if len(ws) != 2 {
			return "bad-op", nil, nil
		}
	case "lsnap", "lrestart", "gc", "expire":
		if len(ws) != 1 {
			return "bad-op", nil, nil
		}
	default:
		return "bad-op", nil, nil
	}
	if (ws[0] == "step" || ws[0] == "online" || ws[0] == "steponl" || ws[0] == "steppre" || ws[0] == "frestart" || ws[0] == "flose" || ws[0] == "fclose" || ws[0] == "offline" || ws[0] == "join") && p == nil {
		return "bad-op", nil, nil
	}
	if ws[0] == "append" && ws[1] != "-" {
		b, err := hex.DecodeString(ws[1])
		if err != nil || len(b) == 0 || strings.ToLower(ws[1]) != ws[1] {
			return "bad-op", nil, nil
		}
	}
	if ws[0] == "lrestore" {
		if k, err := strconv.ParseUint(ws[1], 10, 31); err != nil || strconv.FormatUint(k, 10) != ws[1] {
			return "bad-op", nil, nil
		}
	}
	if w.gone {
		return "gone", p, nil
	}
	switch ws[0] {
	case "append":
		var msg []byte
		if ws[1] != "-" {
			msg, _ = hex.DecodeString(ws[1])
		}
		preApp := w.lq.Queue().AppendedSeq()
		if err := w.lp.WriteLog(msg); err != nil {
			return "", nil, err
		}
		if q := w.lq.Queue().AppendedSeq(); q == preApp+1 {
			w.lwEpoch[q] = w.epoch
			for i := range w.peers {
				w.lwSynced[i][q] = pre.p[i].synced
			}
		}
		return "idle", nil, nil
	case "step":
		if p.stopped {
			return "noreplicator", p, nil
		}
		if p.pending != nil {
			return "suspended", p, nil
		}
		w.resetStepFlags(ws[2])
		out, err := w.waitStep(p, w.startStep(p))
		return out, p, err
	case "frestart":
		p.close()
		return "idle", p, p.open()
	case "flose":
		p.close()
		if err := os.RemoveAll(p.dir); err != nil {
			return "", p, err
		}
		p.fwEpoch = map[int64]int{}
		return "idle", p, p.open()
	case "fclose":
		// the follower's WAL GC destroys the partition (or the WAL is closed) while the leader's stream may be
		// open and idle: the handler goroutine of that stream keeps the CLOSED partition; a fresh, empty one
		// serves every later getOrCreatePartition. The session is NOT touched.
		old := p.fp
		_ = old.Close()
		if err := os.RemoveAll(p.dir); err != nil {
			return "", p, err
		}
		p.fwEpoch = map[int64]int{}
		p.fcloseDisturbed, p.sawFclose = true, true
		return "idle", p, p.open()
	case "offline":
		// coordinator/storage stateManager.onNodeFailure: the node leaves the live nodes, the watchers are notified
		// with NodeOffline, then the pooled connection to it is closed and removed
		wasLive := p.live
		p.live = false
		p.wasOffline = true
		if wasLive {
			if fn := w.sm.fns[p.id]; fn != nil && !p.stopped {
				fn(models.NodeOffline)
			}
		}
		p.closeClientConn()
		return "idle", p, nil
	case "join":
		if !p.stopped {
			// an existing replicator is kept (buildReplica returns early)
			return "idle", p, w.lp.BuildReplicaForLeader(leaderID, []models.NodeID{p.id})
		}
		p.pending = nil
		return "idle", p, w.join(p)
	case "steppre":
		if !p.stopped && p.pending == nil && pre.p[p.idx()].chanSt != "ready" && !p.live {
			// the replica call's liveness test finds the follower offline; the hook at the yield point between
			// that test and the isSuspend CAS lets the state manager handle the follower's online event first
			w.resetStepFlags(ws[2])
			w.prePeer, w.preFired, w.preHandled = p, false, false
			out, err := w.waitStep(p, w.startStep(p))
			w.prePeer = nil
			if err == nil && !w.preFired {
				err = errors.New("the window between the liveness test and the suspend mark was not reached")
			}
			if p.wasOffline {
				p.wasOffline, p.sawOffOn = false, true
			}
			if err == nil && out == "parked" && p.live && w.preHandled {
				p.parkedLive = true
			}
			return out, p, err
		}
		fallthrough
	case "steponl":
		if !p.stopped && p.pending == nil && pre.p[p.idx()].chanSt != "ready" && !p.live {
			// the replica call finds the follower offline and marks itself suspended; the hook at the yield
			// point between the CAS and the receive delivers NodeOnline from another goroutine
			w.resetStepFlags(ws[2])
			w.winPeer, w.winFired, w.winDone = p, false, make(chan struct{})
			done := w.startStep(p)
			out, err := w.waitWindowStep(p, done)
			w.winPeer = nil
			return out, p, err
		}
		fallthrough
	case "online":
		p.live = true
		if p.wasOffline {
			p.wasOffline, p.sawOffOn = false, true
		}
		if p.stopped {
			return "noreplicator", p, nil
		}
		fn := w.sm.fns[p.id]
		if p.pending == nil {
			if fn != nil {
				fn(models.NodeOnline) // not suspended: the callback does nothing
			}
			return "idle", p, nil
		}
		w.resetStepFlags(ws[2])
		done := p.pending
		p.pending = nil
		fn(models.NodeOnline) // hands the parked loop its wake-up
		out, err := w.waitStep(p, done)
		return out, p, err
	case "lsnap":
		w.imgSeq++
		im := &image{dir: filepath.Join(w.dir, fmt.Sprintf("image-%d", w.imgSeq)), lwEpoch: map[int64]int{}}
		for i, q := range w.peers {
			im.born[i] = q.born
		}
		if err := copyTree(w.leaderDir(), im.dir); err != nil {
			return "", nil, err
		}
		for k, v := range w.lwEpoch {
			im.lwEpoch[k] = v
		}
		for i := range w.peers {
			im.lwSynced[i] = map[int64]bool{}
			for k, v := range w.lwSynced[i] {
				im.lwSynced[i][k] = v
			}
		}
		w.imgs = append([]*image{im}, w.imgs...)
		return "idle", nil, nil
	case "lrestore":
		k, _ := strconv.Atoi(ws[1])
		if k >= len(w.imgs) {
			return "idle", nil, nil
		}
		for _, old := range w.imgs[:k] {
			os.RemoveAll(old.dir)
		}
		w.imgs = w.imgs[k:]
		im := w.imgs[0]
		w.closeLeader()
		if err := os.RemoveAll(w.leaderDir()); err != nil {
			return "", nil, err
		}
		if err := copyTree(im.dir, w.leaderDir()); err != nil {
			return "", nil, err
		}
		for i, q := range w.peers {
			q.born = im.born[i]
		}
		w.lossSeen = true
		w.epoch++
		w.lwEpoch = map[int64]int{}
		for k, v := range im.lwEpoch {
			w.lwEpoch[k] = v
		}
		for i := range w.peers {
			w.lwSynced[i] = map[int64]bool{}
			for k, v := range im.lwSynced[i] {
				w.lwSynced[i][k] = v
			}
		}
		return "idle", nil, w.openLeader()
	case "lrestart":
		w.closeLeader()
		return "idle", nil, w.openLeader()
	case "gc":
		w.lp.IsExpire()
		return "idle", nil, nil
	case "expire":
		w.family.expired = true
		expired := w.lp.IsExpire()
		w.family.expired = false
		left := map[string]bool{}
		for _, n := range w.lq.ConsumerGroupNames() {
			left[n] = true
		}
		for _, q := range w.peers {
			if !q.stopped && !left[strconv.Itoa(int(q.id))] {
				q.stopped = true
				if q.sess != nil && q.sess.closed {
					q.sess = nil
				}
			}
		}
		if expired {
			// writeAheadLog.destroy now stops the partition, closes the log and removes its directory;
			// the harness keeps the files until the observation of this event is taken (world.destroy)
			w.gone = true
			return "expired", nil, nil
		}
		return "idle", nil, nil
	}
	return "bad-op", nil, nil
}

// ---------------------------------------------------------------- impl-side oracle

// check evaluates C08's clauses on the real logs after one event.
func (w *world) check(c *core.Ctx, op, out string, ep *peer, pre, post obs) {
	restart := strings.HasPrefix(op, "lrest")
	// which handshake ran, and did it move the leader's append index while the other channel was ready
	resetAppend := ep != nil && w.hsSeen && post.lAck != pre.lAck && post.lAck == w.hsRemoteAck && post.lApp == w.hsRemoteAck && w.hsRemoteAck > w.hsLeaderApp
	if resetAppend {
		for i, q := range w.peers {
			if q != ep && pre.p[i].chanSt == "ready" {
				q.disturbed = true
			}
		}
	}
	for i, p := range w.peers {
		pr, po := pre.p[i], post.p[i]
		mine := ep == p
		fail := func(key, desc string) {
			// ResetAppendIndex by the OTHER follower's handshake moved this follower's group
			if resetAppend && !mine && (key == "ack-beyond-follower" || key == "ack-not-covered") {
				key = "reset-append-moves-other-followers-group"
			}
			if p.disturbed {
				switch key {
				case "synced-ack-beyond-follower", "synced-replica-index", "mismatched-answer":
					key = "reset-append-moves-other-followers-group"
				}
			}
			// a follower-side Put failure is answered with AckIndex -1; the leader keeps the channel
			// `ready` with the replica index one ahead of the follower
			if p.putDisturbed && (key == "synced-replica-index" || key == "mismatched-answer") {
				key = "follower-put-fault-leaves-channel-ready"
			}
			c.Fail(key, fmt.Sprintf("follower %s: %s", p.name, desc))
		}
		if mine && w.putFailed {
			p.putDisturbed = true
		}
		// (0) round 12 — the handshake's post-condition (Props.C08.resync_handshake / plan_resync_handshake), judged
		// at the moment IsReady has returned true and before anything is sent: the leader's next replica index =
		// the follower's next index = max(follower's next index before, group ack + 1) — "resumes from the first
		// position the follower lacks and the leader still holds", whichever branch of the handshake ran
		if mine && w.hsSeen && w.hsPostSeen {
			want := w.hsRemoteAck
			if w.hsLeaderGack > want {
				want = w.hsLeaderGack
			}
			c.Branch("handshake/post-checked")
			if w.hsReset && w.hsLeaderCons > w.hsLeaderGack {
				c.Branch("handshake/reset-follower-with-unacked-in-flight")
			}
			if w.hsPostCons != want || w.hsPostFApp != want {
				fail("handshake-resumes-at-wrong-index", fmt.Sprintf("after the handshake of %q (follower appended %d, group consumed %d, group ack %d before) the leader's next replica index is %d and the follower's next index is %d, both must be %d",
					op, w.hsRemoteAck, w.hsLeaderCons, w.hsLeaderGack, w.hsPostCons+1, w.hsPostFApp+1, want+1))
			}
		}
		// (1) the follower's log has no holes
		for j, h := range po.fHeld {
			if h == "!" {
				fail("follower-hole", fmt.Sprintf("after %q follower position %d (ack %d, appended %d) is not readable", op, j, po.fAck, po.fApp))
			}
		}
		// bookkeeping: which leader bytes did the follower receive
		if mine && (out == "acked" || out == "recvfail" || out == "mismatch") && w.lastReq != nil && po.fApp == pr.fApp+1 {
			p.fwEpoch[po.fApp] = w.lwEpoch[po.fApp]
		}
		if mine && w.hsReset {
			p.fwEpoch = map[int64]int{}
		}
		// (2) agreement: a position held by both holds the same bytes. Histories without leader
		// tail loss: always. With tail loss: whenever the channel is synced (the instant between
		// the loss and the next handshake cannot be repaired by any protocol).
		if !w.lossSeen || po.synced {
			for j, fb := range po.fHeld {
				lb, ok := post.lHeld[j]
				if !ok || lb == fb || lb == "!" || fb == "!" {
					continue
				}
				key := "agreement"
				switch {
				case !w.lossSeen:
					key = "agreement-without-leader-loss"
				case j > po.gack:
					key = "agreement-above-ack-when-synced"
				case w.lwEpoch[j] > p.fwEpoch[j] && w.lwSynced[i][j]:
					key = "append-on-held-position-while-synced"
				case w.lwEpoch[j] > p.fwEpoch[j]:
					key = "tail-loss-reappend-before-handshake"
				}
				fail(key, fmt.Sprintf("after %q position %d: leader holds %s, follower holds %s (group ack %d, synced=%v, leader bytes from epoch %d, follower copy from epoch %d)",
					op, j, lb, fb, po.gack, po.synced, w.lwEpoch[j], p.fwEpoch[j]))
			}
		}
		// (3) acknowledgements: a moved ack is a position the follower has appended; without leader
		// tail loss every newly acknowledged position is held by the follower at that moment and the
		// follower's log never starts beyond the leader's ack for it
		// (an ack at or below the queue's ack covers nothing the leader still holds: a group added to
		// or re-registered on a partition starts at the queue's acknowledged sequence)
		if !restart && po.gack != pr.gack && po.gack > po.fApp && po.gack > post.lAck {
			fail("ack-beyond-follower", fmt.Sprintf("after %q group ack moved %d -> %d but follower appended is %d", op, pr.gack, po.gack, po.fApp))
		}
		if !restart && !w.lossSeen && po.gack > pr.gack {
			for j := pr.gack + 1; j <= po.gack; j++ {
				if j <= post.lAck {
					continue // not held by the leader any more (re-open lift of a re-added group)
				}
				if h, ok := po.fHeld[j]; !ok || h == "!" {
					fail("ack-not-covered", fmt.Sprintf("after %q group ack moved %d -> %d but the follower does not hold position %d (its log is %d/%d)", op, pr.gack, po.gack, j, po.fAck, po.fApp))
					break
				}
			}
		}
		if !w.lossSeen && po.fAck > po.gack {
			fail("follower-base-beyond-ack", fmt.Sprintf("after %q the follower's log starts after %d but the leader's ack for it is %d: positions %d..%d can never be replicated", op, po.fAck, po.gack, po.gack+1, po.fAck))
		}
		if po.synced && po.gack > po.fApp {
			fail("synced-ack-beyond-follower", fmt.Sprintf("after %q synced with group ack %d > follower appended %d", op, po.gack, po.fApp))
		}
		// (4) resync: a synced channel's next replica index is the follower's next index
		if po.synced && po.cons != po.fApp {
			fail("synced-replica-index", fmt.Sprintf("after %q synced with consumed %d but follower appended %d", op, po.cons, po.fApp))
		}
		// (the answer to a request whose Put failed on the follower is a correct report, not a mismatch
		// of the two sides; what matters is whether the channel is left out of step, checked above)
		if mine && out == "mismatch" && !w.putFailed && (w.lastResp == nil || w.lastResp.Err == "") {
			fail("mismatched-answer", fmt.Sprintf("%q: follower answered %d to offered index %d", op, w.lastResp.AckIndex, w.lastReq.ReplicaIndex))
		}
		if mine && out == "ignored" {
			fail("ignored-message", fmt.Sprintf("%q: leader could not read a consumed message (consumed %d, queue ack %d, appended %d)", op, po.cons, post.lAck, post.lApp))
		}
		// (4b) an online notification delivered after the loop marked itself suspended is never lost
		if mine && p.lostWake && strings.HasPrefix(op, "steponl") {
			fail("online-notification-lost", fmt.Sprintf("%q: NodeOnline was delivered between the loop's isSuspend CAS and its receive on r.suspend; the handler returned, the loop is still parked (isSuspend=%v) and nothing will wake it", op, po.susp))
		}
		// (4b') an online notification handled just BEFORE the loop marks itself suspended must not leave the loop
		// parked: the follower is live, no further notification will come
		if mine && strings.HasPrefix(op, "steppre") && p.parkedLive {
			p.parkedLive = false
			fail("online-notification-before-suspend-mark-lost", fmt.Sprintf("%q: NodeOnline was handled between IsReady's liveness test (GetLiveNode: not live) and its isSuspend CAS: the handler's CAS(true,false) found the flag still false and did nothing; the loop then marked itself suspended and blocks on r.suspend (isSuspend=%v) although the follower is live — nothing wakes it until the follower goes offline and online once more", op, po.susp))
		}
		// (4c) after a leader restart every follower that has a consumer group in the leader's log has its
		// replication channel again (replicator + node-online watcher), whether it is online right now or
		// not — otherwise nothing will ever resume it
		if restart && p.born && !p.stopped {
			if _, _, _, ok := replica.VerifC08ReplicatorInfo(w.lp, p.id); !ok {
				fail("channel-not-rebuilt-after-leader-restart", fmt.Sprintf("after %q the leader's log has a consumer group for the follower (consumed %d, ack %d, leader appended %d, follower live=%v) but no replicator was rebuilt: the channel cannot resume when the follower is (back) online", op, po.cons, po.gack, post.lApp, p.live))
			}
		}
		// (4d) BuildReplicaForLeader that returns nil leaves the follower with a consumer group and a replicator
		if mine && strings.HasPrefix(op, "join") && p.buildFailed {
			fail("no-replicator-after-build-replica", fmt.Sprintf("%q: BuildReplicaForLeader returned nil for a follower whose replicator had been stopped by the expiry check, but the partition has no consumer group / replicator for it afterwards: nothing will ever be sent to this follower again", op))
		}
		// (5) the leader never discards a position this follower has not acknowledged
		if !restart && po.stopped && !pr.stopped && post.lApp > po.gack {
			fail("discarded-with-unacked", fmt.Sprintf("after %q the follower's group and replicator were stopped with appended %d > group ack %d (follower appended %d)", op, post.lApp, po.gack, po.fApp))
		}
	}
}

// ---------------------------------------------------------------- generator

func genMsg(rng *rand.Rand, ctr *int) string {
	*ctr++
	if rng.Intn(25) == 0 {
		return "-"
	}
	n := 1 + rng.Intn(3)
	b := make([]byte, n)
	b[0] = byte(*ctr)
	for i := 1; i < n; i++ {
		b[i] = byte(rng.Intn(256))
	}
	return hex.EncodeToString(b)
}

func genCase(rng *rand.Rand, tier string, idx int) []string {
	n := 14 + rng.Intn(30)
	if tier == "thorough" {
		n = 14 + rng.Intn(76)
	}
	noLoss := idx%2 == 0 // half of the histories never lose the leader's tail
	malformed := idx%9 == 5
	oneSided := idx%5 == 3 // mostly one follower: long single-channel fault sequences
	who := func() string {
		if oneSided && rng.Intn(8) != 0 {
			return "a"
		}
		if rng.Intn(5) < 3 {
			return "a"
		}
		return "b"
	}
	var ops []string
	ctr := idx * 7
	joinAt := rng.Intn(10) // follower B is added early, sometimes on a log that already holds messages
	if rng.Intn(4) == 0 {
		joinAt = 0
	}
	for len(ops) < n {
		if len(ops) == joinAt {
			ops = append(ops, "join b")
		}
		r := rng.Intn(100)
		switch {
		case r < 26:
			ops = append(ops, "append "+genMsg(rng, &ctr))
		case r < 56:
			ops = append(ops, "step "+who()+" none")
		case r < 67:
			ops = append(ops, "step "+who()+" "+faults[1+rng.Intn(len(faults)-1)])
		case r < 71:
			ops = append(ops, "frestart "+who())
		case r < 73:
			ops = append(ops, "flose "+who())
		case r < 74:
			ops = append(ops, "fclose "+who())
		case r < 78:
			ops = append(ops, "lsnap")
		case r < 83:
			if noLoss {
				ops = append(ops, "lrestart")
			} else {
				ops = append(ops, fmt.Sprintf("lrestore %d", rng.Intn(3)))
			}
		case r < 85:
			ops = append(ops, "lrestart")
		case r < 88:
			ops = append(ops, "offline "+who())
		case r < 92:
			f := "none"
			if rng.Intn(4) == 0 {
				f = faults[1+rng.Intn(len(faults)-1)]
			}
			ops = append(ops, "online "+who()+" "+f)
		case r < 94:
			ops = append(ops, "gc")
		case r < 96:
			// a failed call, the follower goes away, and its online notification lands inside the
			// suspend window of the next call
			x := who()
			if rng.Intn(3) > 0 {
				ops = append(ops, "step "+x+" send", "offline "+x)
			}
			if rng.Intn(3) == 0 {
				ops = append(ops, "steppre "+x+" none") // ... or just before the call marks itself suspended
			} else {
				ops = append(ops, "steponl "+x+" none")
			}
		case r < 98:
			ops = append(ops, "join "+who())
		default:
			ops = append(ops, "expire")
		}
		if malformed && rng.Intn(6) == 0 {
			bad := []string{"step a bogus", "step c none", "append zz", "append", "lrestore x", "lrestore -1", "online a", "restart", "append A1", "step none", "flose", "expire now", "join", "join c", "step a putt", "steponl a", "steponl c none", "fclose", "fclose c", "steppre a", "steppre c none", "steppre a nothing"}
			ops = append(ops, bad[rng.Intn(len(bad))])
		}
	}
	return ops
}

// fixed histories replayed on every run (cases 0..12)
var fixedCases = [][]string{
	// 0: known finding: the leader loses its tail and re-appends beyond the follower before the handshake
	{"append a0", "append a1", "append a2", "append a3", "step a none", "step a none", "step a none", "step a none",
		"lsnap", "append a4", "append a5", "step a none", "step a none", "lrestore 0",
		"append b4", "append b5", "append b6", "step a none"},
	// 1: fixed finding: follower ahead of the restored leader by exactly one
	{"append a0", "append a1", "append a2", "append a3", "step a none", "step a none", "step a none", "step a none",
		"lsnap", "append a4", "step a none", "lrestore 0", "step a none", "append b4", "append b5", "step a none"},
	// 2: two followers: A's handshake moves the leader's append index (and B's group) while B's channel is ready
	{"join b", "append a0", "append a1", "append a2", "append a3", "step a none", "step a none", "step a none", "step a none",
		"step b none", "step b none", "step b none", "step b none", "lsnap",
		"append a4", "append a5", "append a6", "step a none", "step a none", "step a none", "lrestore 0",
		"step b none", "step a none", "append b7", "step b none", "append b8", "step b none", "step a none", "step a none"},
	// 3: a request lost in flight, then the follower loses its log before the next handshake
	{"append a0", "append a1", "append a2", "step a none", "step a none", "step a none", "append a3", "step a send",
		"flose a", "append a4", "append a5", "step a none", "step a none", "step a none", "step a none", "gc"},
	// 4: the last appended message lost in flight, leader Sync/GC before the next handshake
	{"join b", "append a0", "append a1", "append a2", "step a none", "step a none", "step a none", "step b none", "step b none", "step b none",
		"append a3", "step b none", "step a send", "gc", "step a none", "append a4", "step a none", "step a none"},
	// 5: expiry check while a message is un-acknowledged (loop parked on an offline follower), then while drained
	{"join b", "append a0", "step a none", "step b none", "append a1", "step b none", "step a send", "offline a", "step a none", "expire",
		"online a none", "step a none", "expire"},
	// 6: a follower is added while the leader's log holds messages nobody has released yet
	{"append a0", "append a1", "append a2", "step a none", "step a none", "gc", "append a3", "join b", "step b none", "step b none",
		"step b none", "step b none", "step b none", "gc", "join a"},
	// 7: the follower's Put fails (storage fault on the follower), the answer arrives; later the stream breaks
	{"append a0", "step a none", "append a1", "step a put", "append a2", "step a none", "frestart a", "append a3", "step a none",
		"step a none", "step a none", "step a none", "step a none"},
	// 8: the online notification lands between the loop's isSuspend CAS and its receive on r.suspend
	{"append a0", "step a none", "append a1", "offline a", "steponl a none", "append a2", "step a none",
		"step a send", "offline a", "step a none", "online a none", "offline a", "steponl a none"},
	// 9: the leader restarts (partition.recovery) while a follower with a backlog is offline; the follower comes back
	{"join b", "append a0", "step a none", "step b none", "offline a", "append a1", "append a2", "step b none", "lrestart",
		"step b none", "step a none", "online a none", "step a none", "step a none", "lsnap", "offline b", "append a3", "lrestore 0",
		"online b none", "step b none", "step b none"},
	// 10: the follower's partition is destroyed under the leader's open, idle stream - at replica index 0, and later again
	{"step a none", "fclose a", "append a0", "step a none", "step a none", "append a1", "step a none", "fclose a", "append a2",
		"step a none", "step a none", "step a none", "step a none"},
	// 11: the expiry check stops the drained follower A (B keeps the partition alive); a new write stream
	// (BuildReplicaForLeader) must rebuild A's channel and A must receive what is written afterwards
	{"join b", "append a0", "step a none", "expire", "join a", "append a1", "step a none", "step a none", "step b none", "step b none"},
	// 12: a complete offline -> online cycle of the follower as the state manager sees it (pooled connection closed
	// and removed): idle during the outage, and with messages arriving during the outage (the loop parks)
	{"append a0", "step a none", "offline a", "online a none", "append a1", "step a none", "step a none",
		"offline a", "append a2", "step a none", "online a none", "step a none", "step a none"},
	// 13: known finding: the follower's online notification is handled between IsReady's liveness test and its
	// isSuspend CAS (yield point c08-offline-seen): the loop parks although the follower is live; replica calls
	// do nothing; only a further offline -> online bounce of the follower releases it (then the backlog arrives)
	{"append a0", "step a none", "append a1", "step a send", "offline a", "steppre a none", "append a2", "step a none",
		"offline a", "online a none", "step a none", "step a none"},
}

var curWorld *world

func (area) Run(c *core.Ctx) error {
	verifhook.Set(func(id string) {
		if id == "c08-suspend-marked" {
			if w := curWorld; w != nil {
				w.windowHook()
			}
		}
		if id == "c08-offline-seen" {
			if w := curWorld; w != nil {
				w.preHook()
			}
		}
	})
	defer verifhook.Set(nil)
	for i := 0; i < c.N; i++ {
		if !c.Want(i) {
			continue
		}
		var ops []string
		if i < len(fixedCases) {
			ops = fixedCases[i]
		} else {
			ops = genCase(c.Rng(i), c.Tier, i)
		}
		if err := runCase(c, i, ops); err != nil {
			return fmt.Errorf("case %d: %w", i, err)
		}
	}
	return nil
}

func runCase(c *core.Ctx, i int, ops []string) (err error) {
	c.Begin(i)
	w, err := newWorld()
	if err != nil {
		return err
	}
	curWorld = w
	defer func() { curWorld = nil }()
	defer w.destroy()
	c.Op("reset", "ok "+w.observe().line)
	acked, faulted := false, false
	// doOp drives one protocol line on the real code, records it and runs the oracle; cont=false ends the case
	doOp := func(op string) (out string, cont bool) {
		pre := w.observe()
		var ep *peer
		var aerr error
		func() {
			defer func() {
				if r := recover(); r != nil {
					out = "panic"
					c.Fail("panic", fmt.Sprintf("op %q panicked: %v", op, r))
				}
			}()
			out, ep, aerr = w.apply(op, pre)
		}()
		if aerr != nil {
			c.Fail("harness-error", fmt.Sprintf("op %q: %v", op, aerr))
			c.Op(op, "error "+aerr.Error())
			return out, false
		}
		if out == "bad-op" {
			c.Op(op, "bad-op")
			c.Branch("bad-op")
			return out, true
		}
		if strings.HasPrefix(out, "panic") {
			c.Op(op, out)
			return out, false
		}
		post := w.observe()
		c.Op(op, out+" "+post.line)
		c.Branch("out/" + strings.Fields(op)[0] + "/" + out)
		if w.hsSeen {
			switch {
			case w.hsReset:
				c.Branch("handshake/reset-follower")
			case w.hsRemoteAck == w.hsLeaderCons:
				c.Branch("handshake/equal")
			case post.lAck != pre.lAck && post.lAck == w.hsRemoteAck:
				c.Branch("handshake/reset-leader-append")
			default:
				c.Branch("handshake/rewind")
			}
		}
		if out == "acked" {
			acked = true
		}
		if out == "sendfail" || out == "recvfail" || out == "notready" || out == "parked" || strings.HasPrefix(op, "flose") || strings.HasPrefix(op, "frestart") || strings.HasPrefix(op, "lrestore") {
			faulted = true
		}
		w.check(c, op, out, ep, pre, post)
		for _, p := range w.peers {
			// a parked loop whose replicator was stopped cannot be resumed (it would touch a closed group);
			// a loop that lost its wake-up cannot be resumed either
			if (p.stopped || p.lostWake) && p.pending != nil {
				c.Branch("ended/parked-loop-not-resumable")
				return out, false
			}
			if p.buildFailed {
				c.Branch("ended/build-replica-built-nothing")
				return out, false
			}
		}
		return out, true
	}
	ended := false
	for _, op := range ops {
		if w.gone {
			break // the partition directory is removed by writeAheadLog.destroy: nothing left to drive
		}
		if _, cont := doOp(op); !cont {
			ended = true
			break
		}
	}
	if !ended && !w.gone {
		w.settle(c, i, doOp)
	}
	if acked && faulted {
		c.NonTrivial()
	}
	return nil
}

// settle is the liveness epilogue of every case: whatever faults the history contained, once they stop —
// the follower is online, one more message is appended and the replica loop makes fault-free iterations —
// every follower that has a replication channel must catch up without anybody's help: channel ready on a
// live stream, follower appended = consumed = acknowledged = leader appended. The lines are ordinary
// protocol lines (the model replays them too).
func (w *world) settle(c *core.Ctx, caseIdx int, doOp func(string) (string, bool)) {
	var cand []*peer
	for _, p := range w.peers {
		if p.born && !p.stopped {
			cand = append(cand, p)
		}
	}
	if len(cand) == 0 {
		return
	}
	c.Branch("settle/run")
	if _, cont := doOp(fmt.Sprintf("append ee%02x", caseIdx%256)); !cont || w.gone {
		return
	}
	for _, p := range cand {
		if p.stopped || w.gone {
			continue
		}
		if p.pending != nil || !p.live {
			if _, cont := doOp("online " + p.name + " none"); !cont {
				return
			}
		}
		o := w.observe()
		k := int(o.lApp-o.lAck) + 8
		everReady := false
		conv := func(o obs) bool {
			po := o.p[p.idx()]
			return po.chanSt == "ready" && po.stream == "up" && po.fApp == o.lApp && po.cons == o.lApp && po.gack == o.lApp
		}
		var outs []string
		for n := 0; n < k && !conv(o); n++ {
			out, cont := doOp("step " + p.name + " none")
			if !cont {
				return
			}
			outs = append(outs, out)
			o = w.observe()
			if o.p[p.idx()].chanSt == "ready" {
				everReady = true
			}
			if p.stopped || w.gone {
				break
			}
		}
		if p.stopped || w.gone {
			continue
		}
		if conv(o) {
			c.Branch("settle/caught-up")
			continue
		}
		po := o.p[p.idx()]
		key := "no-resync-after-faults"
		switch {
		case !everReady && p.sawOffOn:
			key = "never-ready-after-follower-offline-online"
		case p.sawFclose:
			key = "no-resync-after-follower-partition-recreated"
		case !everReady:
			key = "never-ready-after-faults"
		}
		if p.disturbed {
			key = "reset-append-moves-other-followers-group"
		}
		c.Fail(key, fmt.Sprintf("follower %s: online, no fault injected any more, one message appended and %d fault-free replica calls later (outcomes %s) the channel has not caught up: state %s, stream %s, leader appended %d, consumed %d, group ack %d, follower appended %d (offline/online cycle seen: %v, follower partition re-created under the stream: %v)",
			p.name, len(outs), strings.Join(outs, ","), po.chanSt, po.stream, o.lApp, po.cons, po.gack, po.fApp, p.sawOffOn, p.sawFclose))
	}
}
