// Package c08 is the correspondence stream "repl" of property C08: a real leader partition
// (replica.NewPartition over a real queue.FanOutQueue, real remoteReplicator built by
// BuildReplicaForLeader) replicates to a real follower partition through a LOOPBACK rpc
// client that calls the real follower handler (app/storage/rpc.ReplicaHandler: Replica stream
// loop, GetReplicaAckIndex, Reset) in-process, with fault injection in the loopback.
//
// Real: pkg/queue (queue, fan-out queue, consumer groups, mmap pages on disk), replica.partition
// (WriteLog, ReplicaLog, ReplicaAckIndex, ResetReplicaIndex, IsExpire, replica, buildReplica),
// remoteReplicator (IsReady, Connect, Replica, closeStream, node-state callback),
// ReplicaHandler (all three rpc methods, metadata decoding).
// Stubbed: gRPC transport (loopback channels), storage.StateManager (live flag + callback),
// WriteAheadLogManager/WriteAheadLog (return the one follower partition), tsdb.Shard /
// tsdb.DataFamily / tsdb.Database (names, ids, a time range that never expires; the follower's
// local replicator is built by the real BuildReplicaForFollower but never stepped).
// Stepping: replica.VerifC08ReplicaStep (one replicaLoop iteration, never waits for data).
package c08

import (
	"context"
	"encoding/hex"
	"errors"
	"fmt"
	"io"
	"math/rand"
	"os"
	"path/filepath"
	"strconv"
	"strings"
	"time"

	"google.golang.org/grpc"
	"google.golang.org/grpc/metadata"

	storagerpc "github.com/lindb/lindb/app/storage/rpc"
	"github.com/lindb/lindb/coordinator/storage"
	"github.com/lindb/lindb/models"
	"github.com/lindb/lindb/pkg/option"
	"github.com/lindb/lindb/pkg/queue"
	"github.com/lindb/lindb/pkg/timeutil"
	protoReplicaV1 "github.com/lindb/lindb/proto/gen/v1/replica"
	"github.com/lindb/lindb/replica"
	"github.com/lindb/lindb/rpc"
	"github.com/lindb/lindb/tsdb"

	"github.com/lindb/lindb/zzverif/internal/core"
)

type area struct{}

func init() { core.Register(area{}) }

func (area) Name() string { return "repl" }

const (
	leaderID   = models.NodeID(1)
	followerID = models.NodeID(2)
	otherGroup = "9"
	dbName     = "db"
)

// ---------------------------------------------------------------- tsdb / state stubs

type stubDB struct {
	tsdb.Database
	opt *option.DatabaseOption
}

func (d *stubDB) Name() string                      { return dbName }
func (d *stubDB) GetOption() *option.DatabaseOption { return d.opt }

type stubShard struct {
	tsdb.Shard
	db *stubDB
}

func (s *stubShard) Database() tsdb.Database { return s.db }
func (s *stubShard) ShardID() models.ShardID { return 0 }
func (s *stubShard) Indicator() string       { return "db/0" }

type stubFamily struct {
	tsdb.DataFamily
	shard *stubShard
}

func (f *stubFamily) Shard() tsdb.Shard              { return f.shard }
func (f *stubFamily) Indicator() string              { return "db/0/f" }
func (f *stubFamily) FamilyTime() int64              { return 0 }
func (f *stubFamily) Retain()                        {}
func (f *stubFamily) Release()                       {}
func (f *stubFamily) AckSequence(int32, func(int64)) {}
func (f *stubFamily) TimeRange() timeutil.TimeRange {
	// never expires: IsExpire returns after Sync+GC
	return timeutil.TimeRange{Start: 0, End: 1 << 60}
}

type stateMgr struct {
	storage.StateManager
	live bool
	fn   func(models.NodeStateType)
}

func (m *stateMgr) GetLiveNode(id models.NodeID) (models.StatefulNode, bool) {
	if !m.live {
		return models.StatefulNode{}, false
	}
	return models.StatefulNode{ID: id}, true
}
func (m *stateMgr) WatchNodeStateChangeEvent(_ models.NodeID, fn func(models.NodeStateType)) {
	m.fn = fn
}

type walMgr struct {
	replica.WriteAheadLogManager
	w *world
}

func (m *walMgr) GetOrCreateLog(string) replica.WriteAheadLog { return &wal{w: m.w} }

type wal struct {
	replica.WriteAheadLog
	w *world
}

func (l *wal) GetOrCreatePartition(models.ShardID, int64, models.NodeID) (replica.Partition, error) {
	if l.w.fp == nil {
		return nil, errors.New("follower partition not open")
	}
	return l.w.fp, nil
}

// ---------------------------------------------------------------- loopback rpc

type session struct {
	gen    int
	reqCh  chan *protoReplicaV1.ReplicaRequest
	respCh chan *protoReplicaV1.ReplicaResponse
	ready  chan struct{} // closed at the handler's first Recv (stream set-up done)
	done   chan struct{} // closed when handler.Replica returned
	ctx    context.Context
	closed bool
	first  bool
}

func (s *session) kill() {
	if !s.closed {
		s.closed = true
		close(s.reqCh)
	}
	<-s.done
}

// server side of the stream
type serverStream struct {
	grpc.ServerStream
	s *session
}

func (ss serverStream) Context() context.Context { return ss.s.ctx }
func (ss serverStream) Recv() (*protoReplicaV1.ReplicaRequest, error) {
	if !ss.s.first {
		ss.s.first = true
		close(ss.s.ready)
	}
	r, ok := <-ss.s.reqCh
	if !ok {
		return nil, io.EOF
	}
	return r, nil
}
func (ss serverStream) Send(r *protoReplicaV1.ReplicaResponse) error {
	ss.s.respCh <- r
	return nil
}

// client side of the stream
type clientStream struct {
	grpc.ClientStream
	w *world
	s *session
}

func (cs *clientStream) Send(r *protoReplicaV1.ReplicaRequest) error {
	w := cs.w
	w.sendTried = true
	if cs.s.closed || cs.s.gen != w.fgen {
		w.sendFailed = true
		return io.EOF
	}
	if w.fault == "send" {
		w.sendFailed = true
		return errors.New("injected send failure")
	}
	w.lastReq = r
	cs.s.reqCh <- r
	return nil
}
func (cs *clientStream) Recv() (*protoReplicaV1.ReplicaResponse, error) {
	w := cs.w
	select {
	case r := <-cs.s.respCh:
		if w.fault == "recv" {
			w.recvFailed = true
			return nil, errors.New("injected recv failure")
		}
		w.lastResp = r
		return r, nil
	case <-cs.s.done:
		w.recvFailed = true
		return nil, io.EOF
	}
}
func (cs *clientStream) CloseSend() error {
	cs.s.kill()
	return nil
}

type replicaClient struct{ w *world }

func (c *replicaClient) Reset(ctx context.Context, in *protoReplicaV1.ResetIndexRequest, _ ...grpc.CallOption) (*protoReplicaV1.ResetIndexResponse, error) {
	if c.w.fault == "reset" {
		return nil, errors.New("injected reset failure")
	}
	c.w.hsReset = true
	return c.w.handler.Reset(ctx, in)
}
func (c *replicaClient) GetReplicaAckIndex(ctx context.Context, in *protoReplicaV1.GetReplicaAckIndexRequest, _ ...grpc.CallOption) (*protoReplicaV1.GetReplicaAckIndexResponse, error) {
	if c.w.fault == "getack" {
		return nil, errors.New("injected get-ack failure")
	}
	r, err := c.w.handler.GetReplicaAckIndex(ctx, in)
	if err == nil {
		c.w.hsSeen = true
		c.w.hsRemoteAck = r.AckIndex
		c.w.hsLeaderApp = c.w.lq.Queue().AppendedSeq()
		c.w.hsLeaderCons = c.w.group().ConsumedSeq()
	}
	return r, err
}
func (c *replicaClient) Replica(ctx context.Context, _ ...grpc.CallOption) (protoReplicaV1.ReplicaService_ReplicaClient, error) {
	w := c.w
	if w.fault == "connect" {
		return nil, errors.New("injected connect failure")
	}
	md, _ := metadata.FromOutgoingContext(ctx)
	s := &session{gen: w.fgen, reqCh: make(chan *protoReplicaV1.ReplicaRequest), respCh: make(chan *protoReplicaV1.ReplicaResponse, 1),
		ready: make(chan struct{}), done: make(chan struct{}), ctx: metadata.NewIncomingContext(context.Background(), md)}
	go func() {
		defer close(s.done)
		defer func() { _ = recover() }()
		_ = w.handler.Replica(serverStream{s: s})
	}()
	select {
	case <-s.ready:
	case <-s.done:
		return nil, errors.New("handler refused the stream")
	}
	w.sess = s
	return &clientStream{w: w, s: s}, nil
}

type streamFactory struct {
	rpc.ClientStreamFactory
	w *world
}

func (f *streamFactory) CreateReplicaServiceClient(models.Node) (protoReplicaV1.ReplicaServiceClient, error) {
	if f.w.fault == "cli" {
		return nil, errors.New("injected client failure")
	}
	return &replicaClient{w: f.w}, nil
}

// ---------------------------------------------------------------- the world of one case

type world struct {
	dir     string
	shard   *stubShard
	family  *stubFamily
	lq      queue.FanOutQueue
	lp      replica.Partition
	sm      *stateMgr
	other   queue.ConsumerGroup
	fq      queue.FanOutQueue
	fp      replica.Partition
	handler *storagerpc.ReplicaHandler
	fgen    int
	sess    *session
	live    bool
	hasImg  bool
	pending chan string
	cancel  context.CancelFunc

	// per-step instrumentation
	fault                             string
	sendTried, sendFailed, recvFailed bool
	lastReq                           *protoReplicaV1.ReplicaRequest
	lastResp                          *protoReplicaV1.ReplicaResponse
	hsSeen, hsReset                   bool
	hsRemoteAck, hsLeaderApp          int64
	hsLeaderCons                      int64

	// oracle bookkeeping
	lossSeen  bool           // an lrestore with an image happened
	epoch     int            // number of lrestores so far
	lwEpoch   map[int64]int  // leader position -> epoch of its current bytes
	lwSynced  map[int64]bool // leader position -> was the channel synced when it was appended
	fwEpoch   map[int64]int  // follower position -> epoch of the leader bytes it received
	imgEpochs map[int64]int  // lwEpoch at image time
	imgSynced map[int64]bool
}

func (w *world) leaderDir() string   { return filepath.Join(w.dir, "leader") }
func (w *world) followerDir() string { return filepath.Join(w.dir, "follower") }
func (w *world) imgDir() string      { return filepath.Join(w.dir, "image") }

func (w *world) group() queue.ConsumerGroup {
	g, _ := w.lq.GetOrCreateConsumerGroup(strconv.Itoa(int(followerID)))
	return g
}

func (w *world) openLeader() error {
	q, err := queue.NewFanOutQueue(w.leaderDir(), 0)
	if err != nil {
		return err
	}
	w.lq = q
	if w.other, err = q.GetOrCreateConsumerGroup(otherGroup); err != nil {
		return err
	}
	w.sm = &stateMgr{live: w.live}
	ctx, cancel := context.WithCancel(context.Background())
	w.cancel = cancel
	w.lp = replica.NewPartition(ctx, w.shard, w.family, leaderID, q, &streamFactory{w: w}, w.sm)
	return w.lp.BuildReplicaForLeader(leaderID, []models.NodeID{followerID})
}

func (w *world) closeLeader() {
	w.pending = nil // a parked loop dies with the process
	if w.sess != nil && w.sess.gen == w.fgen {
		w.sess.kill() // the transport dies with the process
	}
	w.sess = nil
	w.cancel()
	_ = w.lp.Close()
}

func (w *world) openFollower() error {
	q, err := queue.NewFanOutQueue(w.followerDir(), 0)
	if err != nil {
		return err
	}
	w.fq = q
	w.fp = replica.NewPartition(context.Background(), w.shard, w.family, followerID, q, nil, nil)
	return nil
}

func (w *world) closeFollower() {
	if w.sess != nil {
		w.sess.kill()
	}
	w.fgen++
	_ = w.fp.Close()
	w.fp = nil
}

func newWorld() (*world, error) {
	dir, err := os.MkdirTemp("", "lvh-c08-*")
	if err != nil {
		return nil, err
	}
	db := &stubDB{opt: &option.DatabaseOption{Ahead: "1h", Behind: "1h"}}
	sh := &stubShard{db: db}
	w := &world{dir: dir, shard: sh, family: &stubFamily{shard: sh}, live: true,
		lwEpoch: map[int64]int{}, lwSynced: map[int64]bool{}, fwEpoch: map[int64]int{}}
	w.handler = storagerpc.NewReplicaHandler(&walMgr{w: w})
	if err := w.openFollower(); err != nil {
		return nil, err
	}
	if err := w.openLeader(); err != nil {
		return nil, err
	}
	return w, nil
}

func (w *world) destroy() {
	func() {
		defer func() { _ = recover() }()
		w.closeLeader()
	}()
	func() {
		defer func() { _ = recover() }()
		if w.fp != nil {
			w.closeFollower()
		}
	}()
	os.RemoveAll(w.dir)
}

// copyTree copies a partition directory; page files are large sparse mmap files, so only
// non-zero 64 KiB blocks are written.
func copyTree(src, dst string) error {
	return filepath.Walk(src, func(p string, info os.FileInfo, err error) error {
		if err != nil {
			return err
		}
		rel, _ := filepath.Rel(src, p)
		t := filepath.Join(dst, rel)
		if info.IsDir() {
			return os.MkdirAll(t, 0o755)
		}
		in, err := os.Open(p)
		if err != nil {
			return err
		}
		defer in.Close()
		out, err := os.Create(t)
		if err != nil {
			return err
		}
		defer out.Close()
		if err := out.Truncate(info.Size()); err != nil {
			return err
		}
		const seekData, seekHole = 3, 4
		off := int64(0)
		buf := make([]byte, 64<<10)
		for off < info.Size() {
			d, err := in.Seek(off, seekData)
			if err != nil { // ENXIO: no more data
				break
			}
			h, err := in.Seek(d, seekHole)
			if err != nil {
				h = info.Size()
			}
			for pos := d; pos < h; {
				n := int64(len(buf))
				if h-pos < n {
					n = h - pos
				}
				m, rerr := in.ReadAt(buf[:n], pos)
				if m > 0 {
					zero := true
					for _, b := range buf[:m] {
						if b != 0 {
							zero = false
							break
						}
					}
					if !zero {
						if _, werr := out.WriteAt(buf[:m], pos); werr != nil {
							return werr
						}
					}
				}
				if rerr != nil && rerr != io.EOF {
					return rerr
				}
				if m == 0 {
					break
				}
				pos += int64(m)
			}
			off = h
		}
		return nil
	})
}

// ---------------------------------------------------------------- observations

func showLog(q queue.Queue) (string, map[int64]string) {
	ack, app := q.AcknowledgedSeq(), q.AppendedSeq()
	held := map[int64]string{}
	var items []string
	for i := ack + 1; i <= app; i++ {
		b, err := q.Get(i)
		if err != nil {
			items = append(items, fmt.Sprintf("%d:!", i))
			held[i] = "!"
			continue
		}
		h := hex.EncodeToString(b)
		if len(b) == 0 {
			h = "-"
		}
		held[i] = h
		items = append(items, fmt.Sprintf("%d:%s", i, h))
	}
	return fmt.Sprintf("%d/%d [%s]", ack, app, strings.Join(items, " ")), held
}

type obs struct {
	line               string
	lHeld, fHeld       map[int64]string
	lAck, lApp         int64
	cons, gack, oack   int64
	fAck, fApp         int64
	chanSt, stream     string
	synced, susp, live bool
}

func (w *world) observe() obs {
	var o obs
	var ls, fs string
	ls, o.lHeld = showLog(w.lq.Queue())
	fs, o.fHeld = showLog(w.fq.Queue())
	o.lAck, o.lApp = w.lq.Queue().AcknowledgedSeq(), w.lq.Queue().AppendedSeq()
	o.fAck, o.fApp = w.fq.Queue().AcknowledgedSeq(), w.fq.Queue().AppendedSeq()
	g := w.group()
	o.cons, o.gack, o.oack = g.ConsumedSeq(), g.AcknowledgedSeq(), w.other.AcknowledgedSeq()
	st, hasStream, susp, ok := replica.VerifC08ReplicatorInfo(w.lp, followerID)
	o.chanSt = "?"
	if ok {
		switch models.ReplicatorState(st) {
		case models.ReplicatorInitState:
			o.chanSt = "init"
		case models.ReplicatorReadyState:
			o.chanSt = "ready"
		case models.ReplicatorFailureState:
			o.chanSt = "failure"
		}
	}
	o.stream = "none"
	if hasStream {
		if w.sess != nil && !w.sess.closed && w.sess.gen == w.fgen {
			o.stream = "up"
		} else {
			o.stream = "broken"
		}
	}
	o.susp, o.live = susp, w.live
	o.synced = o.chanSt == "ready" && o.stream == "up"
	b := func(x bool) string {
		if x {
			return "1"
		}
		return "0"
	}
	o.line = fmt.Sprintf("L=%s c=%d g=%d o=%d F=%s %s %s live=%s susp=%s img=%s", ls, o.cons, o.gack, o.oack, fs, o.chanSt, o.stream, b(o.live), b(susp), b(w.hasImg))
	return o
}

// ---------------------------------------------------------------- one replica step

func (w *world) resetStepFlags(fault string) {
	w.fault = fault
	w.sendTried, w.sendFailed, w.recvFailed = false, false, false
	w.lastReq, w.lastResp = nil, nil
	w.hsSeen, w.hsReset = false, false
}

// waitStep waits until the step goroutine finished or parked on `<-r.suspend`.
func (w *world) waitStep(done chan string) (string, error) {
	deadline := time.Now().Add(20 * time.Second)
	for {
		select {
		case r := <-done:
			return w.label(r), nil
		default:
		}
		st, _, susp, ok := replica.VerifC08ReplicatorInfo(w.lp, followerID)
		if ok && susp && models.ReplicatorState(st) == models.ReplicatorFailureState {
			// parked (or about to park) on the suspend channel
			select {
			case r := <-done:
				return w.label(r), nil
			case <-time.After(2 * time.Millisecond):
			}
			w.pending = done
			return "parked", nil
		}
		if time.Now().After(deadline) {
			return "hang", errors.New("replica step neither finished nor parked")
		}
		time.Sleep(20 * time.Microsecond)
	}
}

func (w *world) label(r string) string {
	switch r {
	case "step":
		switch {
		case !w.sendTried:
			return "ignored"
		case w.sendFailed:
			return "sendfail"
		case w.recvFailed:
			return "recvfail"
		case w.lastResp != nil && w.lastReq != nil && w.lastResp.AckIndex == w.lastReq.ReplicaIndex:
			return "acked"
		default:
			return "mismatch"
		}
	default:
		return r // notready, idle, noreplicator, panic:...
	}
}

func (w *world) startStep() chan string {
	done := make(chan string, 1)
	lp := w.lp
	go func() {
		defer func() {
			if r := recover(); r != nil {
				done <- fmt.Sprintf("panic:%v", r)
			}
		}()
		done <- replica.VerifC08ReplicaStep(lp, followerID)
	}()
	return done
}

// ---------------------------------------------------------------- events

var faults = []string{"none", "cli", "getack", "reset", "connect", "send", "recv"}

func isFault(s string) bool {
	for _, f := range faults {
		if f == s {
			return true
		}
	}
	return false
}

// apply executes one protocol line on the implementation; returns the out label ("bad-op"
// for lines the protocol does not know).
func (w *world) apply(c *core.Ctx, op string) (string, error) {
	ws := strings.Fields(op)
	w.resetStepFlags("none")
	switch {
	case len(ws) == 2 && ws[0] == "append":
		var msg []byte
		if ws[1] != "-" {
			b, err := hex.DecodeString(ws[1])
			if err != nil || len(b) == 0 || strings.ToLower(ws[1]) != ws[1] {
				return "bad-op", nil
			}
			msg = b
		}
		pre := w.lq.Queue().AppendedSeq()
		o := w.observe()
		if err := w.lp.WriteLog(msg); err != nil {
			return "", err
		}
		if p := w.lq.Queue().AppendedSeq(); p == pre+1 {
			w.lwEpoch[p] = w.epoch
			w.lwSynced[p] = o.synced
		}
		return "idle", nil
	case len(ws) == 2 && ws[0] == "step" && isFault(ws[1]):
		if w.pending != nil {
			return "suspended", nil
		}
		w.resetStepFlags(ws[1])
		return w.waitStep(w.startStep())
	case len(ws) == 1 && ws[0] == "frestart":
		w.closeFollower()
		return "idle", w.openFollower()
	case len(ws) == 1 && ws[0] == "flose":
		w.closeFollower()
		if err := os.RemoveAll(w.followerDir()); err != nil {
			return "", err
		}
		w.fwEpoch = map[int64]int{}
		return "idle", w.openFollower()
	case len(ws) == 1 && ws[0] == "lsnap":
		if err := os.RemoveAll(w.imgDir()); err != nil {
			return "", err
		}
		if err := copyTree(w.leaderDir(), w.imgDir()); err != nil {
			return "", err
		}
		w.hasImg = true
		w.imgEpochs, w.imgSynced = map[int64]int{}, map[int64]bool{}
		for k, v := range w.lwEpoch {
			w.imgEpochs[k] = v
		}
		for k, v := range w.lwSynced {
			w.imgSynced[k] = v
		}
		return "idle", nil
	case len(ws) == 1 && ws[0] == "lrestore":
		if !w.hasImg {
			return "idle", nil
		}
		w.closeLeader()
		if err := os.RemoveAll(w.leaderDir()); err != nil {
			return "", err
		}
		if err := copyTree(w.imgDir(), w.leaderDir()); err != nil {
			return "", err
		}
		w.lossSeen = true
		w.epoch++
		w.lwEpoch, w.lwSynced = map[int64]int{}, map[int64]bool{}
		for k, v := range w.imgEpochs {
			w.lwEpoch[k] = v
		}
		for k, v := range w.imgSynced {
			w.lwSynced[k] = v
		}
		return "idle", w.openLeader()
	case len(ws) == 1 && ws[0] == "lrestart":
		w.closeLeader()
		return "idle", w.openLeader()
	case len(ws) == 1 && ws[0] == "offline":
		w.live = false
		w.sm.live = false
		return "idle", nil
	case len(ws) == 2 && ws[0] == "online" && isFault(ws[1]):
		w.live = true
		w.sm.live = true
		if w.pending == nil {
			if w.sm.fn != nil {
				w.sm.fn(models.NodeOnline) // not suspended: the callback does nothing
			}
			return "idle", nil
		}
		w.resetStepFlags(ws[1])
		done := w.pending
		w.pending = nil
		w.sm.fn(models.NodeOnline) // hands the parked loop its wake-up
		return w.waitStep(done)
	case len(ws) == 1 && ws[0] == "gc":
		w.lp.IsExpire()
		return "idle", nil
	case len(ws) == 2 && ws[0] == "oack":
		n, err := strconv.ParseInt(ws[1], 10, 64)
		if err != nil {
			return "bad-op", nil
		}
		w.other.SetConsumedSeq(n)
		w.other.Ack(n)
		return "idle", nil
	}
	return "bad-op", nil
}

// ---------------------------------------------------------------- impl-side oracle

// check evaluates C08's clauses on the real logs after one event.
func (w *world) check(c *core.Ctx, op, out string, pre, post obs) {
	// (1) the follower's log has no holes
	for i, h := range post.fHeld {
		if h == "!" {
			c.Fail("follower-hole", fmt.Sprintf("after %q follower position %d (ack %d, appended %d) is not readable", op, i, post.fAck, post.fApp))
		}
	}
	// bookkeeping: which leader bytes did the follower receive
	if out == "acked" || out == "recvfail" || out == "mismatch" {
		if w.lastReq != nil && post.fApp == pre.fApp+1 {
			w.fwEpoch[post.fApp] = w.lwEpoch[post.fApp]
		}
	}
	if w.hsReset {
		w.fwEpoch = map[int64]int{}
	}
	// (2) agreement: a position held by both holds the same bytes. Histories without leader
	// tail loss: always. With tail loss: whenever the channel is synced (the instant between
	// the loss and the next handshake cannot be repaired by any protocol).
	if !w.lossSeen || post.synced {
		for i, fb := range post.fHeld {
			lb, ok := post.lHeld[i]
			if !ok || lb == fb || lb == "!" || fb == "!" {
				continue
			}
			key := "agreement"
			switch {
			case !w.lossSeen:
				key = "agreement-without-leader-loss"
			case i > post.gack:
				key = "agreement-above-ack-when-synced"
			case w.lwEpoch[i] > w.fwEpoch[i] && w.lwSynced[i]:
				// the leader appended at a position the follower already held while the channel
				// was synced: the handshake did not move the append index past the follower
				key = "handshake-follower-ahead-by-one"
			case w.lwEpoch[i] > w.fwEpoch[i]:
				key = "tail-loss-reappend-before-handshake"
			}
			c.Fail(key, fmt.Sprintf("after %q position %d: leader holds %s, follower holds %s (group ack %d, synced=%v, leader bytes from epoch %d, follower copy from epoch %d)",
				op, i, lb, fb, post.gack, post.synced, w.lwEpoch[i], w.fwEpoch[i]))
		}
	}
	// (3) ack soundness
	restart := strings.HasPrefix(op, "lrest")
	if !restart && post.gack != pre.gack && post.gack > post.fApp {
		c.Fail("ack-beyond-follower", fmt.Sprintf("after %q group ack moved %d -> %d but follower appended is %d", op, pre.gack, post.gack, post.fApp))
	}
	if post.synced && post.gack > post.fApp {
		c.Fail("synced-ack-beyond-follower", fmt.Sprintf("after %q synced with group ack %d > follower appended %d", op, post.gack, post.fApp))
	}
	// (4) resync: a synced channel's next replica index is the follower's next index; after a
	// handshake it is max(follower next, group ack + 1) of the state before
	if post.synced && post.cons != post.fApp {
		c.Fail("synced-replica-index", fmt.Sprintf("after %q synced with consumed %d but follower appended %d", op, post.cons, post.fApp))
	}
	if out == "mismatch" {
		c.Fail("mismatched-answer", fmt.Sprintf("%q: follower answered %d to offered index %d", op, w.lastResp.AckIndex, w.lastReq.ReplicaIndex))
	}
	if out == "ignored" {
		c.Fail("ignored-message", fmt.Sprintf("%q: leader could not read a consumed message (consumed %d, queue ack %d, appended %d)", op, post.cons, post.lAck, post.lApp))
	}
}

// ---------------------------------------------------------------- generator

func genMsg(rng *rand.Rand, ctr *int) string {
	*ctr++
	if rng.Intn(25) == 0 {
		return "-"
	}
	n := 1 + rng.Intn(3)
	b := make([]byte, n)
	b[0] = byte(*ctr)
	for i := 1; i < n; i++ {
		b[i] = byte(rng.Intn(256))
	}
	return hex.EncodeToString(b)
}

func genCase(rng *rand.Rand, tier string, idx int) []string {
	n := 12 + rng.Intn(28)
	if tier == "thorough" {
		n = 12 + rng.Intn(70)
	}
	noLoss := idx%2 == 0 // half of the histories never lose the leader's tail
	malformed := idx%9 == 5
	var ops []string
	ctr := idx * 7
	for len(ops) < n {
		r := rng.Intn(100)
		switch {
		case r < 28:
			ops = append(ops, "append "+genMsg(rng, &ctr))
		case r < 58:
			ops = append(ops, "step none")
		case r < 68:
			ops = append(ops, "step "+faults[1+rng.Intn(len(faults)-1)])
		case r < 72:
			ops = append(ops, "frestart")
		case r < 75:
			ops = append(ops, "flose")
		case r < 79:
			ops = append(ops, "lsnap")
		case r < 84:
			if noLoss {
				ops = append(ops, "lrestart")
			} else {
				ops = append(ops, "lrestore")
			}
		case r < 86:
			ops = append(ops, "lrestart")
		case r < 89:
			ops = append(ops, "offline")
		case r < 93:
			f := "none"
			if rng.Intn(4) == 0 {
				f = faults[1+rng.Intn(len(faults)-1)]
			}
			ops = append(ops, "online "+f)
		case r < 97:
			ops = append(ops, "gc")
		default:
			ops = append(ops, fmt.Sprintf("oack %d", rng.Intn(12)-1))
		}
		if malformed && rng.Intn(6) == 0 {
			bad := []string{"step bogus", "append zz", "append", "oack x", "online", "restart", "append A1", "step none none"}
			ops = append(ops, bad[rng.Intn(len(bad))])
		}
	}
	return ops
}

// witnesses replayed on every run (cases 0 and 1)
var witnessB = []string{ // leader loses its tail and re-appends beyond the follower before the handshake
	"append a0", "append a1", "append a2", "append a3", "step none", "step none", "step none", "step none",
	"lsnap", "append a4", "append a5", "step none", "step none", "lrestore",
				"append b4", "append b5", "append b6", "step none"}
var witnessD = []string{ // follower ahead of the restored leader by exactly one
	"append a0", "append a1", "append a2", "append a3", "step none", "step none", "step none", "step none",
	"lsnap", "append a4", "step none", "lrestore", "step none", "append b4", "append b5", "step none"}

func (area) Run(c *core.Ctx) error {
	for i := 0; i < c.N; i++ {
		if !c.Want(i) {
			continue
		}
		var ops []string
		switch i {
		case 0:
			ops = witnessB
		case 1:
			ops = witnessD
		default:
			ops = genCase(c.Rng(i), c.Tier, i)
		}
		if err := runCase(c, i, ops); err != nil {
			return fmt.Errorf("case %d: %w", i, err)
		}
	}
	return nil
}

func runCase(c *core.Ctx, i int, ops []string) (err error) {
	c.Begin(i)
	w, err := newWorld()
	if err != nil {
		return err
	}
	defer w.destroy()
	c.Op("reset", "ok "+w.observe().line)
	acked, faulted := false, false
	for _, op := range ops {
		pre := w.observe()
		var out string
		var aerr error
		func() {
			defer func() {
				if r := recover(); r != nil {
					out = "panic"
					c.Fail("panic", fmt.Sprintf("op %q panicked: %v", op, r))
				}
			}()
			out, aerr = w.apply(c, op)
		}()
		if aerr != nil {
			c.Fail("harness-error", fmt.Sprintf("op %q: %v", op, aerr))
			c.Op(op, "error "+aerr.Error())
			return nil
		}
		if out == "bad-op" {
			c.Op(op, "bad-op")
			c.Branch("bad-op")
			continue
		}
		if strings.HasPrefix(out, "panic") {
			c.Op(op, out)
			return nil
		}
		post := w.observe()
		c.Op(op, out+" "+post.line)
		c.Branch("out/" + strings.Fields(op)[0] + "/" + out)
		if w.hsSeen {
			switch {
			case w.hsReset:
				c.Branch("handshake/reset-follower")
			case w.hsRemoteAck == w.hsLeaderCons:
				c.Branch("handshake/equal")
			case post.lAck != pre.lAck && post.lAck == w.hsRemoteAck:
				c.Branch("handshake/reset-leader-append")
			default:
				c.Branch("handshake/rewind")
			}
			if w.hsRemoteAck == w.hsLeaderApp+1 && w.hsRemoteAck != w.hsLeaderCons {
				c.Branch("handshake/follower-ahead-by-one")
			}
		}
		if out == "acked" {
			acked = true
		}
		if out == "sendfail" || out == "recvfail" || out == "notready" || out == "parked" || op == "flose" || op == "frestart" || op == "lrestore" {
			faulted = true
		}
		w.check(c, op, out, pre, post)
	}
	if acked && faulted {
		c.NonTrivial()
	}
	return nil
}
