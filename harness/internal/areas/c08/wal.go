package c08

// Area `wal` of property C08: the way a leader-side partition comes into being. `writeAheadLog.GetOrCreatePartition`
// (replica/wal.go) is what every broker write stream calls first (`WriteHandler.Write`): lookup in `familyLogs`, and
// when the (shard, family, leader) log is not open yet: GetShard, GetOrCrateDataFamily, NewFanOutQueue over the log
// directory, NewPartition, StartReplica, store in `familyLogs`. A Partition object owns the in-memory append /
// consume / acknowledge cursors of ONE log directory; the property ("stored at position i or not at all", "never
// different bytes at a position the leader still holds") is about that directory, so the schedule of CONCURRENT first
// opens is inside its quantifier (`schedules`).
//
// The REAL NewWriteAheadLog runs here with a stub engine whose shard holds every caller inside
// `GetOrCrateDataFamily` (the slow part of the open) until the case's schedule lets it go; the follower is a real
// Partition over its own FanOutQueue behind a loopback client (answers exactly like ReplicaHandler), the leader's
// replica loops run free (StartReplica, as in production). Ops (callers a, b, c = three write streams):
//
//	call X   stream X calls GetOrCreatePartition(+BuildReplicaForLeader): it returns (cached), is HELD inside the
//	         open, or is BLOCKED on the WAL mutex behind a held caller
//	go X     the held stream X goes on: opens the queue, creates/starts the partition, stores it, returns; streams
//	         blocked behind it go on in turn
//	write X  stream X (returned) writes one message through ITS partition object
//	drain    wait until the follower has appended everything the leader accepted (bounded)
//
// Every line answers `a=<idle|held|blocked|done> b=.. c=.. opens=<n> parts=<n> app=<n> fol=<n>`: per stream state, the
// number of times the log directory was opened, the number of distinct Partition objects handed out, messages
// accepted by the leader, messages on the follower. The Lean driver C08Wal replays the lines on `WalOpen.step`.
// Impl-side oracle (the property on the observations): the follower's log is position by position what the leader
// accepted (no fault is ever injected here); at the end the leader's log directory is re-opened and compared
// position by position with the follower's log and with what was accepted, and the follower's consumer group must
// not be acknowledged beyond what the follower appended.

import (
	"context"
	"errors"
	"fmt"
	"math/rand"
	"path/filepath"
	"strconv"
	"strings"
	"sync"
	"time"

	commontimeutil "github.com/lindb/common/pkg/timeutil"
	"google.golang.org/grpc"

	"github.com/lindb/lindb/config"
	"github.com/lindb/lindb/coordinator/storage"
	"github.com/lindb/lindb/models"
	"github.com/lindb/lindb/pkg/option"
	"github.com/lindb/lindb/pkg/queue"
	"github.com/lindb/lindb/pkg/timeutil"
	protoReplicaV1 "github.com/lindb/lindb/proto/gen/v1/replica"
	"github.com/lindb/lindb/replica"
	"github.com/lindb/lindb/rpc"
	"github.com/lindb/lindb/tsdb"

	"os"

	"github.com/lindb/lindb/zzverif/internal/core"
)

type walArea struct{}

func init() { core.Register(walArea{}) }

func (walArea) Name() string { return "wal" }

// ---- stubs of the storage engine (only what the write ahead log touches)

type wlDB struct{ tsdb.Database }

func (d *wlDB) Name() string                      { return "db" }
func (d *wlDB) GetOption() *option.DatabaseOption { return &option.DatabaseOption{} }

type wlFamily struct {
	tsdb.DataFamily
	shard      tsdb.Shard
	familyTime int64
}

func (f *wlFamily) Shard() tsdb.Shard              { return f.shard }
func (f *wlFamily) Indicator() string              { return "db/1/f" }
func (f *wlFamily) FamilyTime() int64              { return f.familyTime }
func (f *wlFamily) Retain()                        {}
func (f *wlFamily) Release()                       {}
func (f *wlFamily) AckSequence(int32, func(int64)) {}
func (f *wlFamily) TimeRange() timeutil.TimeRange {
	return timeutil.TimeRange{Start: f.familyTime, End: f.familyTime + commontimeutil.OneHour - 1}
}

type wlShard struct {
	tsdb.Shard
	db      *wlDB
	mu      sync.Mutex
	armed   bool
	opens   int
	arrived chan chan struct{} // a caller reached the open and waits on the channel it sends
}

func (s *wlShard) Database() tsdb.Database { return s.db }
func (s *wlShard) ShardID() models.ShardID { return 1 }
func (s *wlShard) Indicator() string       { return "db/1" }
func (s *wlShard) GetOrCrateDataFamily(familyTime int64) (tsdb.DataFamily, error) {
	s.mu.Lock()
	armed := s.armed
	s.opens++
	s.mu.Unlock()
	if armed {
		gate := make(chan struct{})
		s.arrived <- gate
		select {
		case <-gate:
		case <-time.After(60 * time.Second):
		}
	}
	return &wlFamily{shard: s, familyTime: familyTime}, nil
}

type wlEngine struct {
	tsdb.Engine
	shard *wlShard
}

func (e *wlEngine) GetShard(string, models.ShardID) (tsdb.Shard, bool) { return e.shard, true }

type wlStateMgr struct{ storage.StateManager }

func (m *wlStateMgr) GetLiveNode(id models.NodeID) (models.StatefulNode, bool) {
	return models.StatefulNode{ID: id}, true
}
func (m *wlStateMgr) WatchNodeStateChangeEvent(models.NodeID, func(models.NodeStateType)) {}

type wlCliFct struct {
	rpc.ClientStreamFactory
	follower replica.Partition
}

func (f *wlCliFct) CreateReplicaServiceClient(models.Node) (protoReplicaV1.ReplicaServiceClient, error) {
	return &wlCli{follower: f.follower}, nil
}

type wlCli struct{ follower replica.Partition }

func (c *wlCli) Reset(_ context.Context, in *protoReplicaV1.ResetIndexRequest, _ ...grpc.CallOption) (*protoReplicaV1.ResetIndexResponse, error) {
	c.follower.ResetReplicaIndex(in.AppendIndex)
	return &protoReplicaV1.ResetIndexResponse{}, nil
}

func (c *wlCli) GetReplicaAckIndex(context.Context, *protoReplicaV1.GetReplicaAckIndexRequest, ...grpc.CallOption) (*protoReplicaV1.GetReplicaAckIndexResponse, error) {
	return &protoReplicaV1.GetReplicaAckIndexResponse{AckIndex: c.follower.ReplicaAckIndex()}, nil
}

func (c *wlCli) Replica(context.Context, ...grpc.CallOption) (protoReplicaV1.ReplicaService_ReplicaClient, error) {
	return &wlStream{follower: c.follower}, nil
}

type wlStream struct {
	grpc.ClientStream
	follower replica.Partition
	mu       sync.Mutex
	resp     *protoReplicaV1.ReplicaResponse
}

// Send answers like ReplicaHandler.Replica (app/storage/rpc/replica.go).
func (s *wlStream) Send(req *protoReplicaV1.ReplicaRequest) error {
	appendedIdx, err := s.follower.ReplicaLog(req.ReplicaIndex, req.Record)
	resp := &protoReplicaV1.ReplicaResponse{ReplicaIndex: req.ReplicaIndex, AckIndex: appendedIdx}
	if err != nil {
		resp.Err = err.Error()
	}
	s.mu.Lock()
	s.resp = resp
	s.mu.Unlock()
	return nil
}

func (s *wlStream) Recv() (*protoReplicaV1.ReplicaResponse, error) {
	s.mu.Lock()
	defer s.mu.Unlock()
	if s.resp == nil {
		return nil, errors.New("no response")
	}
	r := s.resp
	s.resp = nil
	return r, nil
}

func (s *wlStream) CloseSend() error { return nil }

// ---- the world of one case

const (
	wlLeader   = models.NodeID(1)
	wlFollower = models.NodeID(2)
)

type wlCaller struct {
	name  string
	state string // idle | held | blocked | done
	gate  chan struct{}
	res   chan error
	p     replica.Partition
	n     int
}

type wlWorld struct {
	dir       string
	cancel    context.CancelFunc
	shard     *wlShard
	wal       replica.WriteAheadLog
	fq        queue.FanOutQueue
	fp        replica.Partition
	family    int64
	callers   []*wlCaller
	accepted  []string
	parts     []replica.Partition
	folCount  int
	lagged    bool
	leaderDir string
}

func newWlWorld() (*wlWorld, error) {
	dir, err := os.MkdirTemp("", "lvh-c08wal-*")
	if err != nil {
		return nil, err
	}
	ctx, cancel := context.WithCancel(context.Background())
	w := &wlWorld{dir: dir, cancel: cancel}
	w.family = int64(1700000000000) / commontimeutil.OneHour * commontimeutil.OneHour
	w.shard = &wlShard{db: &wlDB{}, armed: true, arrived: make(chan chan struct{}, 8)}
	w.fq, err = queue.NewFanOutQueue(filepath.Join(dir, "follower"), 0)
	if err != nil {
		cancel()
		_ = os.RemoveAll(dir)
		return nil, err
	}
	w.fp = replica.NewPartition(ctx, w.shard, &wlFamily{shard: w.shard, familyTime: w.family}, wlFollower, w.fq, nil, nil)
	w.wal = replica.NewWriteAheadLog(ctx, config.WAL{Dir: filepath.Join(dir, "leader")}, wlLeader, "db",
		&wlEngine{shard: w.shard}, &wlCliFct{follower: w.fp}, &wlStateMgr{})
	for _, n := range []string{"a", "b", "c"} {
		w.callers = append(w.callers, &wlCaller{name: n, state: "idle"})
	}
	return w, nil
}

func (w *wlWorld) caller(n string) *wlCaller {
	for _, c := range w.callers {
		if c.name == n {
			return c
		}
	}
	return nil
}

func (w *wlWorld) anyHeld() bool {
	for _, c := range w.callers {
		if c.state == "held" {
			return true
		}
	}
	return false
}

func (w *wlWorld) noteDone(x *wlCaller) {
	x.state = "done"
	for _, p := range w.parts {
		if p == x.p {
			return
		}
	}
	w.parts = append(w.parts, x.p)
	w.leaderDir = x.p.Path()
}

// advance waits until caller x has returned, is held inside the open, or (only when `mayBlock`) stays blocked.
func (w *wlWorld) advance(x *wlCaller, mayBlock bool) error {
	limit := 30 * time.Second
	if mayBlock {
		limit = 250 * time.Millisecond
	}
	select {
	case err := <-x.res:
		if err != nil {
			return err
		}
		w.noteDone(x)
	case g := <-w.shard.arrived:
		x.state, x.gate = "held", g
	case <-time.After(limit):
		if !mayBlock {
			return errors.New("GetOrCreatePartition neither returned nor reached the open")
		}
		x.state = "blocked"
	}
	return nil
}

func (w *wlWorld) apply(op string, arg string) error {
	switch op {
	case "call":
		x := w.caller(arg)
		if x.state != "idle" {
			return nil
		}
		x.res = make(chan error, 1)
		go func() {
			p, err := w.wal.GetOrCreatePartition(1, w.family, wlLeader)
			if err == nil {
				// what WriteHandler.Write does next
				err = p.BuildReplicaForLeader(wlLeader, []models.NodeID{wlFollower})
			}
			x.p = p
			x.res <- err
		}()
		return w.advance(x, w.anyHeld())
	case "go":
		x := w.caller(arg)
		if x.state != "held" {
			return nil
		}
		close(x.gate)
		x.gate = nil
		select {
		case err := <-x.res:
			if err != nil {
				return err
			}
			w.noteDone(x)
		case <-time.After(30 * time.Second):
			return errors.New("released open did not return")
		}
		// streams blocked behind it go on, one after the other
		if !w.anyHeld() {
			for _, y := range w.callers {
				if y.state == "blocked" {
					if err := w.advance(y, false); err != nil {
						return err
					}
					if y.state == "held" {
						break
					}
				}
			}
		}
	case "write":
		x := w.caller(arg)
		if x.state != "done" {
			return nil
		}
		x.n++
		msg := fmt.Sprintf("%s-%03d", x.name, x.n)
		if err := x.p.WriteLog([]byte(msg)); err != nil {
			return err
		}
		w.accepted = append(w.accepted, msg)
	case "drain":
		limit := 6 * time.Second
		if w.lagged { // the follower already failed to catch up once in this case: do not wait as long again
			limit = 200 * time.Millisecond
		}
		deadline := time.Now().Add(limit)
		for time.Now().Before(deadline) && w.fq.Queue().AppendedSeq() < int64(len(w.accepted))-1 {
			time.Sleep(2 * time.Millisecond)
		}
		w.folCount = int(w.fq.Queue().AppendedSeq() + 1)
		w.lagged = w.folCount < len(w.accepted)
	default:
		return errors.New("unknown op")
	}
	return nil
}

func (w *wlWorld) line() string {
	var sb strings.Builder
	for _, c := range w.callers {
		sb.WriteString(c.name + "=" + c.state + " ")
	}
	w.shard.mu.Lock()
	opens := w.shard.opens
	w.shard.mu.Unlock()
	return sb.String() + fmt.Sprintf("opens=%d parts=%d app=%d fol=%d", opens, len(w.parts), len(w.accepted), w.folCount)
}

func wlDump(q queue.Queue) []string {
	var rs []string
	for i := int64(0); i <= q.AppendedSeq(); i++ {
		m, err := q.Get(i)
		if err != nil {
			rs = append(rs, "<gone>")
			continue
		}
		rs = append(rs, string(m))
	}
	return rs
}

// finish releases every held caller, stops the WAL and returns the leader's log as found on disk (nil: never opened)
// together with the follower group's acknowledged sequence.
func (w *wlWorld) finish() (leader []string, gack int64, err error) {
	w.shard.mu.Lock()
	w.shard.armed = false
	w.shard.mu.Unlock()
	for _, c := range w.callers {
		if c.gate != nil {
			close(c.gate)
			c.gate = nil
		}
	}
	for _, c := range w.callers {
		if c.state == "held" || c.state == "blocked" {
			select {
			case <-c.res:
			case g := <-w.shard.arrived:
				close(g)
				select {
				case <-c.res:
				case <-time.After(10 * time.Second):
				}
			case <-time.After(10 * time.Second):
			}
		}
	}
	w.wal.Stop()
	_ = w.wal.Close()
	w.cancel() // (a Partition object the WAL does not know about — never on the unchanged tree — ends with the context)
	gack = -1
	if w.leaderDir != "" {
		time.Sleep(20 * time.Millisecond)
		lq, e := queue.NewFanOutQueue(w.leaderDir, 0)
		if e != nil {
			return nil, 0, e
		}
		leader = wlDump(lq.Queue())
		if cg, e := lq.GetOrCreateConsumerGroup(strconv.Itoa(int(wlFollower))); e == nil {
			gack = cg.AcknowledgedSeq()
		}
		lq.Close()
	}
	return leader, gack, nil
}

func (w *wlWorld) destroy() {
	w.fp.Stop()
	_ = w.fp.Close()
	_ = os.RemoveAll(w.dir)
}

var wlFixed = [][]string{
	// 0: two write streams open the same new family log at the same moment, both write (A first, then B)
	{"call a", "call b", "go a", "go b", "write a", "write a", "write a", "drain", "write b", "write b", "drain", "write a", "drain"},
	// 1: sequential opens: the second stream finds the partition
	{"call a", "go a", "call b", "write a", "write b", "write a", "drain", "call c", "write c", "drain"},
	// 2: three streams at once, the LAST one is let go first
	{"call a", "call b", "call c", "go c", "go b", "go a", "write c", "write b", "drain", "write a", "write c", "drain"},
	// 3: a stream arrives while another one is still inside the open and the first has already written
	{"call a", "go a", "write a", "write a", "drain", "call b", "call c", "go b", "go c", "write b", "write c", "write a", "drain"},
}

func genWal(rng *rand.Rand, tier string) []string {
	n := 8 + rng.Intn(14)
	if tier == "thorough" {
		n = 8 + rng.Intn(30)
	}
	names := []string{"a", "b", "c"}
	var ops []string
	for len(ops) < n {
		x := names[rng.Intn(3)]
		r := rng.Intn(100)
		switch {
		case r < 22:
			ops = append(ops, "call "+x)
		case r < 44:
			ops = append(ops, "go "+x)
		case r < 86:
			ops = append(ops, "write "+x)
		default:
			ops = append(ops, "drain")
		}
		if rng.Intn(40) == 0 {
			ops = append(ops, []string{"call", "go d", "write a b", "open a", ""}[rng.Intn(5)])
		}
	}
	// every history ends with all streams through and a drain
	ops = append(ops, "go a", "go b", "go c", "write a", "write b", "write c", "drain")
	return ops
}

func (walArea) Run(c *core.Ctx) error {
	for i := 0; i < c.N; i++ {
		if !c.Want(i) {
			continue
		}
		var ops []string
		if i < len(wlFixed) {
			ops = wlFixed[i]
		} else {
			ops = genWal(c.Rng(i), c.Tier)
		}
		runWalCase(c, i, ops)
	}
	return nil
}

func runWalCase(c *core.Ctx, i int, ops []string) {
	c.Begin(i)
	w, err := newWlWorld()
	if err != nil {
		c.Fail("harness-error", "cannot build the world: "+err.Error())
		return
	}
	defer w.destroy()
	c.Op("reset", w.line())
	concurrent, drained, twice := false, false, ""
	ok := true
	for _, op := range ops {
		ws := strings.Split(op, " ")
		valid := (len(ws) == 2 && (ws[0] == "call" || ws[0] == "go" || ws[0] == "write") && w.caller(ws[1]) != nil) || op == "drain"
		if !valid {
			c.Op(op, "bad-op")
			c.Branch("bad-op")
			continue
		}
		arg := ""
		if len(ws) == 2 {
			arg = ws[1]
		}
		var aerr error
		func() {
			defer func() {
				if r := recover(); r != nil {
					aerr = fmt.Errorf("panic: %v", r)
					c.Fail("panic", fmt.Sprintf("op %q panicked: %v", op, r))
				}
			}()
			aerr = w.apply(ws[0], arg)
		}()
		if aerr != nil {
			c.Fail("harness-error", fmt.Sprintf("op %q: %v", op, aerr))
			c.Op(op, "error "+aerr.Error())
			ok = false
			break
		}
		c.Op(op, w.line())
		if ws[0] == "call" && arg != "" {
			switch w.caller(arg).state {
			case "blocked":
				concurrent = true
				c.Branch("wal/call-blocked-behind-open")
			case "held":
				c.Branch("wal/call-opens")
			case "done":
				c.Branch("wal/call-cached")
			}
		}
		// ---- the property on the observations
		if len(w.parts) > 1 && twice == "" {
			twice = op
		}
		if op == "drain" {
			drained = drained || len(w.accepted) > 0
			fol := wlDump(w.fq.Queue())
			if d := wlFirstDiff(w.accepted, fol); d != "" {
				c.Fail("wal-follower-log-not-a-copy", fmt.Sprintf("after %q with no fault injected: leader accepted %d messages, follower holds %d; %s", op, len(w.accepted), len(fol), d))
			}
		}
	}
	leader, gack, ferr := w.finish()
	if ferr != nil {
		c.Fail("harness-error", "re-opening the leader's log: "+ferr.Error())
		return
	}
	if !ok {
		return
	}
	fol := wlDump(w.fq.Queue())
	if leader != nil {
		for k := 0; k < len(leader) && k < len(fol); k++ {
			if leader[k] != "<gone>" && fol[k] != "<gone>" && leader[k] != fol[k] {
				c.Fail("wal-different-bytes-at-position", fmt.Sprintf("position %d holds %q on the leader but %q on the follower", k, leader[k], fol[k]))
				break
			}
		}
		if d := wlFirstDiff(w.accepted, leader); d != "" {
			c.Fail("wal-leader-log-not-what-it-accepted", fmt.Sprintf("leader accepted %d messages, its log holds %d; %s", len(w.accepted), len(leader), d))
		}
		if gack > int64(len(fol))-1 {
			c.Fail("wal-ack-beyond-follower", fmt.Sprintf("leader's group of the follower acknowledged up to %d, follower appended up to %d", gack, len(fol)-1))
		}
	}
	if twice != "" { // reported after what it does to the two logs
		c.Fail("wal-log-directory-opened-twice", fmt.Sprintf("after %q: %d distinct Partition objects (each with its own append/consume/ack cursors and replica loop) were handed out for the one log directory of (shard 1, family, leader 1)", twice, len(w.parts)))
	}
	if concurrent && drained {
		c.NonTrivial()
	}
}

func wlFirstDiff(want, got []string) string {
	for k, m := range want {
		if k >= len(got) {
			return fmt.Sprintf("message %q accepted at position %d is missing", m, k)
		}
		if got[k] != m {
			return fmt.Sprintf("position %d: accepted %q, log holds %q", k, m, got[k])
		}
	}
	if len(got) > len(want) {
		return fmt.Sprintf("log holds %d extra messages", len(got)-len(want))
	}
	return ""
}
