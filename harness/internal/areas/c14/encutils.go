package c14

// Round 12 — pkg/encoding/utils.go (slices seen as bytes and back, float64 <-> 8 bytes) and the 16/16 split of a
// uint32 in encoding.go (HighBits / LowBits / ValueWithHighLowBits). Model: Model/EncUtils.lean; theorems
// word_slices_roundtrip, float64_bytes_roundtrip, uint32_high_low_split_roundtrip; tie enc_utils_source_expected.
//
// The byte views ALIAS their argument (unsafe.Slice over the same memory): outputs are copied before they are
// compared. Oracle key enc-utils-roundtrip: the values read back are the values written (bit patterns for floats).

import (
	"fmt"
	"math"
	"math/rand"
	"strings"

	"github.com/lindb/lindb/pkg/encoding"

	"github.com/lindb/lindb/zzverif/internal/core"
)

const keyEncUtils = "enc-utils-roundtrip"

func genU32(r *rand.Rand) uint32 {
	switch r.Intn(6) {
	case 0:
		return [...]uint32{0, 1, 0xff, 0x100, 0xffff, 0x10000, 0x1ffff, 0xffff0000, 0x7fffffff, 0x80000000, 0xffffffff}[r.Intn(11)]
	case 1:
		return uint32(r.Intn(65536)) << 16
	case 2:
		return uint32(r.Intn(65536))
	default:
		return r.Uint32() >> uint(r.Intn(32))
	}
}

func encUtilsOps(c *core.Ctx, r *rand.Rand) {
	c.Branch("enc-utils")
	// 16/16 split
	for k := 0; k < 4; k++ {
		x := genU32(r)
		var hi, lo uint16
		guard(c, fmt.Sprintf("hb %d", x), func() string {
			hi, lo = encoding.HighBits(x), encoding.LowBits(x)
			return fmt.Sprintf("%d %d", hi, lo)
		})
		guard(c, fmt.Sprintf("hlv %d %d", uint32(hi)<<16, lo), func() string {
			v := encoding.ValueWithHighLowBits(uint32(hi)<<16, lo)
			if v != x {
				c.Fail(keyEncUtils, fmt.Sprintf("ValueWithHighLowBits(HighBits(%#x)<<16 = %#x, LowBits = %#x) = %#x", x, uint32(hi)<<16, lo, v))
			}
			return fmt.Sprint(v)
		})
	}
	// []uint32 / []uint64 seen as bytes, read back (also from a buffer with a short tail)
	n := r.Intn(7)
	u32 := make([]uint32, n)
	p32 := make([]string, n)
	for i := range u32 {
		u32[i] = genU32(r)
		p32[i] = fmt.Sprint(u32[i])
	}
	var b32 []byte
	guard(c, strings.TrimSpace("u32b "+strings.Join(p32, " ")), func() string {
		b32 = cp(encoding.U32SliceToBytes(u32))
		if len(b32) != 4*n {
			c.Fail(keyEncUtils, fmt.Sprintf("U32SliceToBytes of %d values has %d bytes", n, len(b32)))
		}
		return hx(b32)
	})
	in32 := append(cp(b32), make([]byte, r.Intn(4))...)
	guard(c, "bu32 "+hx(in32), func() string {
		back := append([]uint32(nil), encoding.BytesToU32Slice(in32)...)
		out := []string{"n"}
		for _, v := range back {
			out = append(out, fmt.Sprint(v))
		}
		if len(back) != n {
			c.Fail(keyEncUtils, fmt.Sprintf("BytesToU32Slice(U32SliceToBytes(%v) + %d bytes) has %d values", u32, len(in32)-len(b32), len(back)))
		} else {
			for i := range back {
				if back[i] != u32[i] {
					c.Fail(keyEncUtils, fmt.Sprintf("BytesToU32Slice(U32SliceToBytes(%v))[%d] = %d", u32, i, back[i]))
					break
				}
			}
		}
		return strings.Join(out, " ")
	})
	m := r.Intn(5)
	u64 := make([]uint64, m)
	p64 := make([]string, m)
	for i := range u64 {
		u64[i] = genEdgeU64(r)
		p64[i] = fmt.Sprint(u64[i])
	}
	var b64 []byte
	guard(c, strings.TrimSpace("u64b "+strings.Join(p64, " ")), func() string {
		b64 = cp(encoding.U64SliceToBytes(u64))
		if len(b64) != 8*m {
			c.Fail(keyEncUtils, fmt.Sprintf("U64SliceToBytes of %d values has %d bytes", m, len(b64)))
		}
		return hx(b64)
	})
	in64 := append(cp(b64), make([]byte, r.Intn(8))...)
	guard(c, "bu64 "+hx(in64), func() string {
		back := append([]uint64(nil), encoding.BytesToU64Slice(in64)...)
		out := []string{"n"}
		for _, v := range back {
			out = append(out, fmt.Sprint(v))
		}
		if len(back) != m {
			c.Fail(keyEncUtils, fmt.Sprintf("BytesToU64Slice(U64SliceToBytes(%v) + %d bytes) has %d values", u64, len(in64)-len(b64), len(back)))
		} else {
			for i := range back {
				if back[i] != u64[i] {
					c.Fail(keyEncUtils, fmt.Sprintf("BytesToU64Slice(U64SliceToBytes(%v))[%d] = %d", u64, i, back[i]))
					break
				}
			}
		}
		return strings.Join(out, " ")
	})
	// float64 bit patterns (NaN payloads, +-0, subnormals, infinities) through 8 bytes, tail allowed
	prev := uint64(0)
	for k := 0; k < 3; k++ {
		bits := genU64(r, prev)
		prev = bits
		var fb []byte
		guard(c, fmt.Sprintf("f64b %d", bits), func() string {
			fb = cp(encoding.Float64ToBytes(math.Float64frombits(bits)))
			return hx(fb)
		})
		in := append(cp(fb), make([]byte, r.Intn(3))...)
		if len(in) < 8 {
			c.Fail(keyEncUtils, fmt.Sprintf("Float64ToBytes(%#x) has %d bytes", bits, len(fb)))
			continue
		}
		guard(c, "bf64 "+hx(in), func() string {
			got := math.Float64bits(encoding.BytesToFloat64(in))
			if got != bits {
				c.Fail(keyEncUtils, fmt.Sprintf("BytesToFloat64(Float64ToBytes(%#x)) = %#x", bits, got))
			}
			return fmt.Sprint(got)
		})
	}
}
