package c14

// Caller-owned buffers (kind 11). "The encoded values" of C14 are the bytes a slice holds WHEN the
// encoder is called. Callers reuse their buffers: rows are marshalled into one scratch buffer, views
// returned by a pooled encoder's Bytes() are handed to the next writer before the encoder is reset.
// So every writer of the anchored codecs that receives a []byte must have taken its copy when the call
// returns, no writer/decoder may write into a buffer it is only given to read, and what a decoder
// returned must not change when the caller recycles the INPUT buffer.
//
// Region (mirrors lean/LinVerif/Model/BufAlias.lean, ops `cw`, and the value-semantic `sw`/`tsw` models):
//   A  snappy chunk writer: rows written from 1-3 reused scratch buffers that are overwritten right
//      after Write returns (before Close); several chunks through one writer; decoded chunk == private
//      copies of the rows as written;
//   B  stream.BufferWriter PutBytes / Write from a reused scratch buffer;
//   C  TSDStreamWriter.WriteField given the VIEW returned by a pooled TSD encoder that is reset and
//      refilled for the next field;
//   D  inputs are read-only: TSD / fixed-offset / delta decoders, stream.Reader, roaring FromBuffer and
//      snappy Uncompress leave their input untouched; Uncompress's result survives recycling the input.
//
// s2 decides at construction whether its writer encodes on other goroutines (GOMAXPROCS at that time),
// so the region makes sure at least two Ps are available while it runs.

import (
	"bytes"
	"fmt"
	"math"
	"math/rand"
	"runtime"

	"github.com/lindb/roaring"

	"github.com/lindb/lindb/pkg/bit"
	"github.com/lindb/lindb/pkg/compress"
	"github.com/lindb/lindb/pkg/encoding"
	"github.com/lindb/lindb/pkg/stream"

	"github.com/lindb/lindb/zzverif/internal/core"
)

const scratchCap = 64

func callerBufferCase(c *core.Ctx, r *rand.Rand) {
	c.NonTrivial()
	if runtime.GOMAXPROCS(0) < 2 {
		prev := runtime.GOMAXPROCS(2)
		defer runtime.GOMAXPROCS(prev)
	}
	snappyRowReuse(c, r)
	streamWriterRowReuse(c, r)
	tsdStreamViewReuse(c, r)
	inputsAreReadOnly(c, r)
}

// genRow: short rows, half of them compressible
func genRow(r *rand.Rand, n int) []byte {
	row := make([]byte, n)
	switch r.Intn(3) {
	case 0:
		r.Read(row)
	case 1:
		m := 1 + r.Intn(5)
		for i := range row {
			row[i] = byte(i % m)
		}
	default:
		b := byte(r.Intn(256))
		for i := range row {
			row[i] = b
		}
	}
	return row
}

// firstDiff returns the first index where a and b differ (or the shorter length)
func firstDiff(a, b []byte) int {
	n := len(a)
	if len(b) < n {
		n = len(b)
	}
	for i := 0; i < n; i++ {
		if a[i] != b[i] {
			return i
		}
	}
	return n
}

// A. snappyWriter.Write / Close / Bytes, snappyReader.Uncompress
func snappyRowReuse(c *core.Ctx, r *rand.Rand) {
	defer func() {
		if e := recover(); e != nil {
			c.Fail("panic", fmt.Sprintf("snappy codec panicked: %v", e))
		}
	}()
	w := compress.NewSnappyWriter()
	rd := compress.NewSnappyReader()
	c.Op("cw new 0", "ok")
	nbuf := 1 + r.Intn(3)
	scratch := make([][]byte, nbuf) // fixed backing arrays: a retained slice keeps seeing the caller's writes
	for i := range scratch {
		scratch[i] = make([]byte, 0, scratchCap)
	}
	fill := func(b int, content []byte) {
		if len(content) > len(scratch[b]) {
			scratch[b] = scratch[b][:len(content)]
		}
		copy(scratch[b], content)
		c.Op(fmt.Sprintf("cw fill 0 %d %s", b, hx(content)), "ok")
	}
	nChunks := 2 + r.Intn(2)
	for k := 0; k < nChunks; k++ {
		c.Branch("callerbuf-snappy-chunk")
		rows := 1 + r.Intn(40)
		if r.Intn(5) == 0 {
			rows = 1 // a single row, overwritten before Close
		}
		var want []byte
		var starts []int
		for j := 0; j < rows; j++ {
			b := r.Intn(nbuf)
			n := 1 + r.Intn(scratchCap)
			fill(b, genRow(r, n))
			row := scratch[b][:n]
			priv := cp(row)
			guard(c, fmt.Sprintf("cw write 0 %d %d", b, n), func() string {
				nw, err := w.Write(row)
				if err != nil {
					c.Fail("snappy-roundtrip", "write error: "+err.Error())
				}
				return fmt.Sprintf("%d %s", nw, errKind(err))
			})
			if !bytes.Equal(row, priv) {
				c.Fail("writer-modified-caller-buffer", fmt.Sprintf("snappyWriter.Write changed the %d-byte row it was given (io.Writer: must not modify the slice)", n))
			}
			starts = append(starts, len(want))
			want = append(want, priv...)
			// the caller recycles its buffer as soon as Write has returned
			switch r.Intn(4) {
			case 0: // left alone until the next row lands in it
				c.Branch("callerbuf-left-until-next-row")
				if j == rows-1 {
					fill(b, bytes.Repeat([]byte{0xEE}, n))
				}
			case 1: // poisoned completely
				fill(b, bytes.Repeat([]byte{0xEE}, len(scratch[b])))
			default: // overwritten with something of another length
				fill(b, genRow(r, 1+r.Intn(scratchCap)))
			}
		}
		var out []byte
		guard(c, "cw cut 0", func() string {
			if err := w.Close(); err != nil {
				c.Fail("snappy-roundtrip", "close error: "+err.Error())
				return "close-err"
			}
			comp := w.Bytes()
			o, err := rd.Uncompress(comp)
			if err != nil {
				c.Fail("caller-buffer-reused-after-write", fmt.Sprintf("snappyWriter: chunk %d of %d rows written from %d reused scratch buffer(s), each overwritten AFTER Write returned and before Close: the chunk does not decode: %v", k, rows, nbuf, err))
				return "uncompress-err"
			}
			out = cp(o)
			return hx(out)
		})
		if out != nil && !bytes.Equal(out, want) {
			i := firstDiff(out, want)
			rowIdx := 0
			for rowIdx+1 < len(starts) && starts[rowIdx+1] <= i {
				rowIdx++
			}
			c.Fail("caller-buffer-reused-after-write", fmt.Sprintf("snappyWriter: chunk %d of %d rows (%d plain bytes) written from %d reused scratch buffer(s), each overwritten AFTER Write returned and before Close: decoded %d bytes, first difference at byte %d (row %d): the writer kept the caller's slice instead of the bytes it held at Write time", k, rows, len(want), nbuf, len(out), i, rowIdx))
		}
		c.Note(fmt.Sprintf("callerbuf snappy rows=%d", rows))
	}
}

// B. stream.BufferWriter.PutBytes / Write
func streamWriterRowReuse(c *core.Ctx, r *rand.Rand) {
	c.Branch("callerbuf-stream-writer")
	w := stream.NewBufferWriter(nil)
	c.Op("sw new 0", "-")
	out := func() string { b, _ := w.Bytes(); return hx(b) }
	scratch := make([]byte, scratchCap)
	var want []byte
	for k := 0; k < 3+r.Intn(10); k++ {
		n := r.Intn(24)
		copy(scratch, genRow(r, n))
		row := scratch[:n]
		priv := cp(row)
		usePut := r.Intn(2) == 0
		guard(c, "sw bytes 0 "+hx(priv), func() string {
			if usePut {
				w.PutBytes(row)
			} else if nw, err := w.Write(row); err != nil || nw != n {
				c.Fail("stream-roundtrip", fmt.Sprintf("writer.Write(%d bytes) = (%d, %v)", n, nw, err))
			}
			return out()
		})
		if !bytes.Equal(row, priv) {
			c.Fail("writer-modified-caller-buffer", fmt.Sprintf("stream writer changed the %d bytes it was given", n))
		}
		want = append(want, priv...)
		for i := range scratch {
			scratch[i] = 0xEE
		}
		if r.Intn(3) == 0 {
			v := genEdgeU64(r)
			guard(c, fmt.Sprintf("sw uv 0 %d", v), func() string { w.PutUvarint64(v); return out() })
			var tmp [10]byte
			want = append(want, tmp[:putUvarint(tmp[:], v)]...)
		}
	}
	got, _ := w.Bytes()
	if !bytes.Equal(got, want) {
		c.Fail("caller-buffer-reused-after-write", fmt.Sprintf("stream.BufferWriter: PutBytes/Write from a scratch buffer overwritten after every call: buffer differs from what was written at byte %d of %d", firstDiff(got, want), len(want)))
	}
}

func putUvarint(buf []byte, x uint64) int {
	i := 0
	for x >= 0x80 {
		buf[i] = byte(x) | 0x80
		x >>= 7
		i++
	}
	buf[i] = byte(x)
	return i + 1
}

// C. TSDStreamWriter.WriteField(id, view of a pooled encoder's buffer); the encoder is reset and refilled
// for the next field, i.e. the memory behind the view is overwritten while the stream writer is still open.
func tsdStreamViewReuse(c *core.Ctx, r *rand.Rand) {
	c.Branch("callerbuf-tsd-stream-view")
	n := 1 + r.Intn(16)
	start := r.Intn(3000)
	nf := 2 + r.Intn(3)
	type fld struct {
		id int
		b  *tsdBlock
	}
	var flds []fld
	sw := encoding.NewTSDStreamWriter(uint16(start), uint16(start+n-1))
	c.Op(fmt.Sprintf("tsw new 0 %d %d", start, start+n-1), "ok")
	enc := encoding.GetTSDEncoder(uint16(start))
	for f := 0; f < nf; f++ {
		b := &tsdBlock{start: start, mask: genMask(r, n), vals: make([]uint64, n)}
		if f > 0 && allFalse(b.mask) {
			b.mask[r.Intn(n)] = true
		}
		prev := r.Uint64()
		for i := range b.vals {
			b.vals[i] = genU64(r, prev)
			prev = b.vals[i]
			if b.mask[i] {
				enc.AppendTime(bit.One)
				enc.AppendValue(b.vals[i])
			} else {
				enc.AppendTime(bit.Zero)
			}
		}
		view, _ := enc.BytesWithoutTime()
		b.data = cp(view)
		if b.data == nil {
			b.data = []byte{}
		}
		id := r.Intn(65536)
		flds = append(flds, fld{id, b})
		guard(c, fmt.Sprintf("tsw field 0 %d %s", id, hx(b.data)), func() string { sw.WriteField(uint16(id), view); return "ok" })
		if !bytes.Equal(view, b.data) {
			c.Fail("writer-modified-caller-buffer", fmt.Sprintf("TSDStreamWriter.WriteField changed the %d field bytes it was given", len(b.data)))
		}
		// the caller re-arms its encoder for the next field: the array behind `view` is written again
		enc.RestWithStartTime(uint16(start))
		if f == nf-1 {
			// after the last field too (the encoder goes back to the pool and is used by someone else)
			for i := 0; i < n; i++ {
				enc.AppendTime(bit.One)
				enc.AppendValue(r.Uint64())
			}
			_, _ = enc.BytesWithoutTime()
		}
	}
	encoding.ReleaseTSDEncoder(enc)
	var sdata []byte
	guard(c, "tsw bytes 0", func() string { d, _ := sw.Bytes(); sdata = cp(d); return hx(sdata) })
	var sr encoding.TSDStreamReader
	guard(c, "tsr new 0 "+hx(sdata)+" 5", func() string {
		sr = encoding.NewTSDStreamReader(sdata)
		s0, e0 := sr.TimeRange()
		return fmt.Sprintf("%d %d", s0, e0)
	})
	if sr == nil {
		return
	}
	for f := 0; f < nf; f++ {
		more := false
		guard(c, "tsr hasnext 0", func() string { more = sr.HasNext(); return fmt.Sprintf("%v", more) })
		if !more {
			c.Fail("tsd-stream-roundtrip", fmt.Sprintf("HasNext()=false before field %d of %d", f, nf))
			break
		}
		var dec *encoding.TSDDecoder
		guard(c, "tsr next 0", func() string {
			id, d := sr.Next()
			dec = d
			if int(id) != flds[f].id {
				c.Fail("tsd-stream-roundtrip", fmt.Sprintf("field %d: id %d read back as %d", f, flds[f].id, id))
			}
			return fmt.Sprintf("%d", id)
		})
		if dec == nil {
			break
		}
		got := map[int]uint64{}
		for s := start; s <= start+n-1; s++ {
			guard(c, fmt.Sprintf("td gv 5 %d", s), func() string {
				fv, ok := dec.GetValue(uint16(s))
				if !ok {
					return "false"
				}
				got[s] = math.Float64bits(fv)
				return fmt.Sprintf("true %d", math.Float64bits(fv))
			})
		}
		before := c.Fails
		checkAgainst(c, "tsd-stream field written from a pooled encoder's view", flds[f].b, got)
		if c.Fails > before {
			c.Fail("caller-buffer-reused-after-write", fmt.Sprintf("TSDStreamWriter.WriteField: field %d of %d was given the view returned by a pooled encoder's BytesWithoutTime(); the encoder was reset and refilled afterwards and the field no longer decodes to what was written", f, nf))
		}
	}
	guard(c, "tsr close 0", func() string { sr.Close(); return "ok" })
}

// D. read-only inputs
func inputsAreReadOnly(c *core.Ctx, r *rand.Rand) {
	defer func() {
		if e := recover(); e != nil {
			c.Fail("panic", fmt.Sprintf("decoder panicked on a valid input: %v", e))
		}
	}()
	c.Branch("callerbuf-decoder-inputs-read-only")
	unchanged := func(what string, in, priv []byte) {
		if !bytes.Equal(in, priv) {
			c.Fail("decoder-modified-its-input", fmt.Sprintf("%s wrote into its %d-byte input (first changed byte %d)", what, len(priv), firstDiff(in, priv)))
		}
	}
	// TSD block, read sequentially and slot-addressed through one re-armed decoder
	{
		n := 1 + r.Intn(24)
		start := r.Intn(3000)
		enc := encoding.NewTSDEncoder(uint16(start))
		mask := genMask(r, n)
		prev := r.Uint64()
		for _, on := range mask {
			if on {
				prev = genU64(r, prev)
				enc.AppendTime(bit.One)
				enc.AppendValue(prev)
			} else {
				enc.AppendTime(bit.Zero)
			}
		}
		d, _ := enc.Bytes()
		if d != nil {
			in, priv := cp(d), cp(d)
			dec := encoding.GetTSDDecoder()
			dec.Reset(in)
			for i := 0; i <= n && dec.Next(); i++ {
				if dec.HasValue() {
					_ = dec.Value()
				}
			}
			dec.Reset(in)
			for s := start; s < start+n; s++ {
				_, _ = dec.GetValue(uint16(s))
			}
			encoding.ReleaseTSDDecoder(dec)
			unchanged("TSDDecoder", in, priv)
		}
	}
	// fixed-offset table + data block
	{
		n := 1 + r.Intn(20)
		fe := encoding.NewFixedOffsetEncoder(true)
		vals := make([]int, n)
		off := 0
		for i := range vals {
			vals[i] = off
			off += r.Intn(9)
		}
		keep := append([]int(nil), vals...)
		fe.FromValues(vals)
		in := cp(fe.MarshalBinary())
		priv := cp(in)
		for i := range vals {
			if vals[i] != keep[i] {
				c.Fail("writer-modified-caller-buffer", fmt.Sprintf("FixedOffsetEncoder.FromValues/MarshalBinary changed value %d of the caller's slice", i))
				break
			}
		}
		block := make([]byte, off+1)
		r.Read(block)
		bpriv := cp(block)
		fd := encoding.GetFixedOffsetDecoder()
		if _, err := fd.Unmarshal(in); err == nil {
			for i := 0; i < n; i++ {
				_, _ = fd.Get(i)
				_, _ = fd.GetBlock(i, block)
			}
		}
		encoding.ReleaseFixedOffsetDecoder(fd)
		unchanged("FixedOffsetDecoder", in, priv)
		unchanged("FixedOffsetDecoder.GetBlock (data block)", block, bpriv)
	}
	// delta bit packing
	{
		de := encoding.NewDeltaBitPackingEncoder()
		n := 1 + r.Intn(20)
		var p int32
		for i := 0; i < n; i++ {
			p = genI32(r, p)
			de.Add(p)
		}
		in := cp(de.Bytes())
		priv := cp(in)
		dd := encoding.NewDeltaBitPackingDecoder(in)
		for i := 0; i < n && dd.HasNext(); i++ {
			_ = dd.Next()
		}
		unchanged("DeltaBitPackingDecoder", in, priv)
	}
	// stream reader
	{
		w := stream.NewBufferWriter(nil)
		w.PutUvarint64(genEdgeU64(r))
		w.PutBytes(genRow(r, 1+r.Intn(9)))
		w.PutVarint64(int64(genEdgeU64(r)))
		w.PutUint32(r.Uint32())
		d, _ := w.Bytes()
		in, priv := cp(d), cp(d)
		rd := stream.NewReader(in)
		_ = rd.ReadUvarint64()
		_ = rd.ReadSlice(1)
		_ = rd.ReadBytes(2)
		_ = rd.ReadUntil(in[len(in)-1])
		rd.Reset(in)
		_ = rd.ReadVarint64()
		_ = rd.ReadUint32()
		unchanged("stream.Reader", in, priv)
	}
	// roaring bitmap
	{
		bm := genBitmap(r)
		if d, err := encoding.BitmapMarshal(bm); err == nil {
			in, priv := cp(d), cp(d)
			t := roaring.New()
			if _, err := encoding.BitmapUnmarshal(t, in); err == nil {
				_ = t.GetCardinality()
				_ = t.Contains(1)
				_ = t.ToArray()
			}
			unchanged("BitmapUnmarshal (roaring FromBuffer)", in, priv)
		}
	}
	// snappy reader: the input buffer is the caller's (a queue page, a network frame) and is recycled
	// right after Uncompress returns; the block that was returned must stay what it was
	{
		w := compress.NewSnappyWriter()
		rd := compress.NewSnappyReader()
		for k := 0; k < 2; k++ {
			var plain []byte
			for j := 0; j < 1+r.Intn(6); j++ {
				row := genRow(r, 1+r.Intn(400))
				if _, err := w.Write(row); err != nil {
					c.Fail("snappy-roundtrip", "write error: "+err.Error())
				}
				plain = append(plain, row...)
			}
			if err := w.Close(); err != nil {
				c.Fail("snappy-roundtrip", "close error: "+err.Error())
			}
			in := w.Bytes()
			priv := cp(in)
			out, err := rd.Uncompress(in)
			if err != nil {
				c.Fail("snappy-roundtrip", "uncompress error: "+err.Error())
				continue
			}
			unchanged("snappyReader.Uncompress", in, priv)
			for i := range in {
				in[i] = 0xEE
			}
			if !bytes.Equal(out, plain) {
				c.Fail("caller-buffer-reused-after-write", fmt.Sprintf("snappyReader.Uncompress: the %d-byte block it returned changed when the caller recycled the compressed INPUT buffer (first difference at byte %d)", len(plain), firstDiff(out, plain)))
			}
		}
	}
}
