package c14

// Fault paths of the writers/readers that are reused after a failure:
//  * snappyReader: Uncompress on truncated / corrupt / garbage-trailed chunks (fails half way, leaves unread
//    input, partial output and the library reader's sticky error), then a valid chunk through the SAME reader
//    (Model/SnappyReuse.lean, theorem snappy_reader_history_irrelevant);
//  * FixedOffsetEncoder.Write against an io.Writer that fails its k-th call (Model/StreamExt.lean Enc.writeTo,
//    theorem fixedoffset_write_error_paths, op `fe write h k`).

import (
	"bytes"
	"errors"
	"fmt"
	"math/rand"

	"github.com/lindb/lindb/pkg/compress"
	"github.com/lindb/lindb/pkg/encoding"

	"github.com/lindb/lindb/zzverif/internal/core"
)

func snappyReaderFaultThenReuse(c *core.Ctx, r *rand.Rand) {
	defer func() {
		if e := recover(); e != nil {
			c.Fail("panic", fmt.Sprintf("snappy codec panicked: %v", e))
		}
	}()
	w := compress.NewSnappyWriter()
	rd := compress.NewSnappyReader()
	mk := func() (comp, plain []byte) {
		for j := 0; j < 1+r.Intn(5); j++ {
			row := genRow(r, 1+r.Intn(600))
			if _, err := w.Write(row); err != nil {
				c.Fail("snappy-roundtrip", "write error: "+err.Error())
			}
			plain = append(plain, row...)
		}
		if err := w.Close(); err != nil {
			c.Fail("snappy-roundtrip", "close error: "+err.Error())
		}
		return w.Bytes(), plain
	}
	for round := 0; round < 2; round++ {
		a, _ := mk()
		good, plain := mk()
		for k := 0; k < 1+r.Intn(3); k++ {
			var bad []byte
			switch r.Intn(5) {
			case 0: // cut inside
				bad = cp(a[:1+r.Intn(len(a)-1)])
			case 1: // a flipped bit behind the stream identifier
				bad = cp(a)
				if len(bad) > 11 {
					i := 10 + r.Intn(len(bad)-10)
					bad[i] ^= 1 << uint(r.Intn(8))
				}
			case 2: // a whole valid chunk followed by junk that is not a chunk header
				junk := make([]byte, 1+r.Intn(40))
				r.Read(junk)
				bad = append(cp(a), junk...)
			case 3: // garbage only
				bad = make([]byte, r.Intn(50))
				r.Read(bad)
			default: // a valid chunk cut inside, then the beginning of another one
				bad = append(cp(a[:len(a)/2]), a[:len(a)/3]...)
			}
			_, err := rd.Uncompress(bad)
			if err != nil {
				c.Branch("snappy-reader-fault")
			} else {
				c.Branch("snappy-reader-fault-not-noticed")
			}
		}
		c.Branch("snappy-reader-fault-then-reuse")
		out, err := rd.Uncompress(good)
		if err != nil {
			c.Fail("snappy-reader-fault-then-reuse", fmt.Sprintf("a reader that was given damaged chunks fails on the next valid chunk (%d plain bytes): %v", len(plain), err))
		} else if !bytes.Equal(out, plain) {
			c.Fail("snappy-reader-fault-then-reuse", fmt.Sprintf("a reader that was given damaged chunks decodes the next valid chunk to %d bytes, %d were written (first difference at %d)", len(out), len(plain), firstDiff(out, plain)))
		}
	}
}

// failingWriter accepts `accept` Write calls (keeping COPIES of what it was given) and fails every later one
type failingWriter struct {
	accept int
	calls  int
	got    []byte
}

var errInjected = errors.New("injected write failure")

func (f *failingWriter) Write(p []byte) (int, error) {
	f.calls++
	if f.calls > f.accept {
		return 0, errInjected
	}
	f.got = append(f.got, p...)
	return len(p), nil
}

// fixedOffsetWriteFaults: enc (model handle 0, already filled with n values) is written to failing writers
func fixedOffsetWriteFaults(c *core.Ctx, r *rand.Rand, enc *encoding.FixedOffsetEncoder, n int, full []byte) {
	chunks := 0
	if n > 0 {
		chunks = n + 2
	}
	for _, k := range []int{0, 1, 2, r.Intn(chunks + 2), chunks, chunks + 1} {
		c.Branch("fo-write-failing-writer")
		guard(c, fmt.Sprintf("fe write 0 %d", k), func() string {
			fw := &failingWriter{accept: k}
			err := enc.Write(fw)
			want := k < chunks
			switch {
			case want && err == nil:
				c.Fail("fo-write-error-swallowed", fmt.Sprintf("FixedOffsetEncoder.Write of %d offsets: the writer failed its call %d, Write returned nil", n, k+1))
			case !want && err != nil:
				c.Fail("fo-write-error-swallowed", fmt.Sprintf("FixedOffsetEncoder.Write of %d offsets: no call failed (%d accepted), Write returned %v", n, k, err))
			case want && !errors.Is(err, errInjected):
				c.Fail("fo-write-error-swallowed", fmt.Sprintf("FixedOffsetEncoder.Write returned %v instead of the writer's error", err))
			}
			if want && fw.calls != k+1 {
				c.Fail("fo-write-error-swallowed", fmt.Sprintf("FixedOffsetEncoder.Write kept writing after the failed call: %d calls, failure at call %d", fw.calls, k+1))
			}
			if !bytes.HasPrefix(full, fw.got) || (!want && !bytes.Equal(full, fw.got)) {
				c.Fail("fo-roundtrip", fmt.Sprintf("FixedOffsetEncoder.Write (accepting %d calls) wrote %x, MarshalBinary gives %x", k, fw.got, full))
			}
			return fmt.Sprintf("%s %v", hx(fw.got), err != nil)
		})
	}
}
