package c14

// Round 12 — access-pattern histories on ONE FixedOffsetDecoder object.
//
// The decoder's callers do not ask the same questions: kv/table's reader does point lookups (GetBlock(idx)),
// metricsdata's dataScanner walks a container block by block (GetBlock(idx-1) for rising idx) on a long-lived decoder
// that is re-armed per container, readSeriesData takes a decoder from the pool, ignores Unmarshal's error, reads a
// rising subset of blocks and releases it. "every offset list … every reuse history" therefore includes: whatever
// was asked of the previous table, in whatever order and however far a scan got, the next table's blocks are the
// encoded ranges — for every first question, in particular the continuation of the previous scan
// (Lean: fixedoffset_reads_leave_no_trace, fixedoffset_scan_any_order_after_any_history; tie
// fixedoffset_reads_write_nothing).
//
// Oracle (absolute, key fo-get-block-after-reuse): GetBlock(i, data) == data[off[i]:off[i+1]] (last: to len(data)) and
// Get(i) == off[i] for the offsets that were encoded. Every call also goes to the model (handle foScanH).

import (
	"bytes"
	"fmt"
	"math/rand"
	"strings"

	"github.com/lindb/lindb/pkg/encoding"

	"github.com/lindb/lindb/zzverif/internal/core"
)

const (
	keyScan = "fo-get-block-after-reuse"
	foScanH = 3 // model handle of the decoder and of the encoder of this region
)

// foScanTable builds 2..12 non-decreasing offsets (width 1, sometimes 2) and a data block that contains them all.
func foScanTable(r *rand.Rand) (offs []int, data []byte) {
	n := 2 + r.Intn(11)
	step := 1 + r.Intn(12)
	if r.Intn(5) == 0 {
		step = 40 + r.Intn(60) // offsets beyond 255: two-byte cells
	}
	cur := 0
	if r.Intn(4) == 0 {
		cur = r.Intn(6)
	}
	for i := 0; i < n; i++ {
		offs = append(offs, cur)
		if r.Intn(6) != 0 { // sometimes an empty block
			cur += 1 + r.Intn(step)
		}
	}
	data = make([]byte, offs[n-1]+1+r.Intn(9))
	r.Read(data)
	return offs, data
}

// foScanPattern returns the indexes asked of a table of n offsets; first is the first question.
func foScanPattern(r *rand.Rand, n, first int) (name string, idxs []int) {
	idxs = []int{first}
	switch r.Intn(6) {
	case 0:
		return "point lookup", idxs
	case 1: // forward scan that stops early (typically before the last block)
		stop := first + r.Intn(n-first)
		for i := first + 1; i <= stop; i++ {
			idxs = append(idxs, i)
		}
		return "forward scan stopped early", idxs
	case 2:
		for i := first + 1; i < n; i++ {
			idxs = append(idxs, i)
		}
		return "forward scan to the end", idxs
	case 3:
		for i := first - 1; i >= 0 && r.Intn(5) != 0; i-- {
			idxs = append(idxs, i)
		}
		return "backward scan", idxs
	case 4: // rising subset, as readSeriesData does
		for i := first + 1; i < n; i++ {
			if r.Intn(2) == 0 {
				idxs = append(idxs, i)
			}
		}
		if r.Intn(2) == 0 && len(idxs) > 1 {
			idxs = idxs[:1+r.Intn(len(idxs)-1)]
		}
		return "rising subset", idxs
	default:
		for k := r.Intn(5); k >= 0; k-- {
			switch r.Intn(3) {
			case 0: // the same block again
				idxs = append(idxs, idxs[len(idxs)-1])
			case 1: // the next one
				if j := idxs[len(idxs)-1] + 1; j < n {
					idxs = append(idxs, j)
				}
			default:
				idxs = append(idxs, r.Intn(n))
			}
		}
		return "random access with repeats", idxs
	}
}

func foScanReuse(c *core.Ctx, r *rand.Rand) {
	h := foScanH
	var enc *encoding.FixedOffsetEncoder
	guard(c, fmt.Sprintf("fe new %d 1", h), func() string { enc = encoding.NewFixedOffsetEncoder(true); return "ok" })
	var dec *encoding.FixedOffsetDecoder
	defer func() {
		if dec != nil {
			encoding.ReleaseFixedOffsetDecoder(dec)
		}
	}()
	// a SECOND decoder object with its own table, asked in between (state shared between objects — a package-level
	// cache, a cursor kept outside the receiver — shows as a wrong answer of either one)
	oh := foScanH + 1
	var other *encoding.FixedOffsetDecoder
	oOffs, oData := foScanTable(r)
	{
		oparts := make([]string, len(oOffs))
		for i, v := range oOffs {
			oparts[i] = fmt.Sprint(v)
		}
		guard(c, fmt.Sprintf("fe from %d %s", h, strings.Join(oparts, " ")), func() string { enc.FromValues(append([]int(nil), oOffs...)); return "ok" })
		var otable []byte
		guard(c, fmt.Sprintf("fe marshal %d", h), func() string { otable = cp(enc.MarshalBinary()); return hx(otable) })
		guard(c, fmt.Sprintf("fd new %d", oh), func() string { other = encoding.NewFixedOffsetDecoder(); return "ok" })
		if out := foUnm(c, oh, other, otable); !strings.HasPrefix(out, "ok") {
			c.Fail(keyScan, fmt.Sprintf("Unmarshal of the marshalled table %v on a new decoder: %s", oOffs, out))
			return
		}
	}
	askOther := func(why string) {
		j := r.Intn(len(oOffs))
		hi := len(oData)
		if j+1 < len(oOffs) {
			hi = oOffs[j+1]
		}
		guard(c, fmt.Sprintf("fd blk %d %d %s", oh, j, hx(oData)), func() string {
			b, err := other.GetBlock(j, oData)
			if err != nil {
				c.Fail(keyScan, fmt.Sprintf("second decoder (table %v, never re-armed) asked %s: GetBlock(%d, %d bytes) = %v, want data[%d:%d]", oOffs, why, j, len(oData), err, oOffs[j], hi))
				return blkErr(err)
			}
			if !bytes.Equal(b, oData[oOffs[j]:hi]) {
				c.Fail(keyScan, fmt.Sprintf("second decoder (table %v, never re-armed) asked %s: GetBlock(%d, %d bytes) = %d bytes %x, want data[%d:%d] = %x", oOffs, why, j, len(oData), len(b), b, oOffs[j], hi, oData[oOffs[j]:hi]))
			}
			return "ok " + hx(b)
		})
	}
	tables := 2 + r.Intn(4)
	last, prevN := -1, 0 // last index asked of the previous table
	prevWhat := ""
	for t := 0; t < tables; t++ {
		offs, data := foScanTable(r)
		n := len(offs)
		parts := make([]string, n)
		for i, v := range offs {
			parts[i] = fmt.Sprint(v)
		}
		guard(c, fmt.Sprintf("fe from %d %s", h, strings.Join(parts, " ")), func() string { enc.FromValues(append([]int(nil), offs...)); return "ok" })
		var table []byte
		guard(c, fmt.Sprintf("fe marshal %d", h), func() string { table = cp(enc.MarshalBinary()); return hx(table) })
		how := "a new decoder"
		switch {
		case dec == nil && r.Intn(2) == 0:
			guard(c, fmt.Sprintf("fd new %d", h), func() string { dec = encoding.NewFixedOffsetDecoder(); return "ok" })
		case dec == nil:
			how = "a decoder from the pool"
			guard(c, fmt.Sprintf("fd get %d", h), func() string { dec = encoding.GetFixedOffsetDecoder(); return "ok" })
		case r.Intn(3) == 0:
			c.Branch("fo-scan-reuse-through-pool")
			how = "the decoder released and taken from the pool again"
			encoding.ReleaseFixedOffsetDecoder(dec)
			c.Op(fmt.Sprintf("fd rel %d", h), "ok")
			guard(c, fmt.Sprintf("fd get %d", h), func() string { dec = encoding.GetFixedOffsetDecoder(); return "ok" })
		default:
			c.Branch("fo-scan-reuse-in-place")
			how = "the same decoder re-armed in place"
			if r.Intn(4) == 0 { // emptied in between, as dataScanner does for a container it skips
				c.Branch("fo-scan-emptied-in-between")
				how += " (after Unmarshal(nil))"
				foUnm(c, h, dec, nil)
			}
		}
		junk := make([]byte, r.Intn(3))
		r.Read(junk)
		if out := foUnm(c, h, dec, append(cp(table), junk...)); !strings.HasPrefix(out, "ok") {
			c.Fail(keyScan, fmt.Sprintf("Unmarshal of the marshalled table %v on %s: %s", offs, how, out))
			return
		}
		// first question: often the continuation of the previous table's scan
		first := r.Intn(n)
		switch k := r.Intn(4); {
		case last >= 0 && last+1 < n && k < 2:
			c.Branch("fo-scan-first-continues-previous-scan")
			first = last + 1
		case last >= 0 && last < n && k == 2:
			first = last
		case k == 3 && r.Intn(2) == 0:
			first = 0
		}
		pat, idxs := foScanPattern(r, n, first)
		c.Branch("fo-scan-" + strings.ReplaceAll(pat, " ", "-"))
		history := "first table of " + how
		if t > 0 {
			history = fmt.Sprintf("%s; before: table of %d offsets, %s, last GetBlock(%d)", how, prevN, prevWhat, last)
		}
		// a second data block of another length for the same table (the last block ends with the data block)
		data2 := append(cp(data), make([]byte, 1+r.Intn(4))...)
		for qi, i := range idxs {
			if r.Intn(3) == 0 {
				c.Branch("fo-scan-second-decoder-in-between")
				askOther(fmt.Sprintf("between the questions to the first decoder (table %v, %s)", offs, pat))
			}
			blk := data
			if r.Intn(5) == 0 {
				blk = data2
			}
			hi := len(blk)
			if i+1 < n {
				hi = offs[i+1]
			}
			if r.Intn(3) == 0 {
				guard(c, fmt.Sprintf("fd at %d %d", h, i), func() string {
					v, ok := dec.Get(i)
					if !ok || v != offs[i] {
						c.Fail(keyScan, fmt.Sprintf("%s; table %v, question %d (%s): Get(%d) = (%d, %v), encoded offset %d", history, offs, qi, pat, i, v, ok, offs[i]))
					}
					return fmt.Sprintf("%d %v", v, ok)
				})
			}
			guard(c, fmt.Sprintf("fd blk %d %d %s", h, i, hx(blk)), func() string {
				b, err := dec.GetBlock(i, blk)
				if err != nil {
					c.Fail(keyScan, fmt.Sprintf("%s; table %v, question %d (%s): GetBlock(%d, %d bytes) = %v, want data[%d:%d]", history, offs, qi, pat, i, len(blk), err, offs[i], hi))
					return blkErr(err)
				}
				if !bytes.Equal(b, blk[offs[i]:hi]) {
					c.Fail(keyScan, fmt.Sprintf("%s; table %v, question %d (%s): GetBlock(%d, %d bytes) = %d bytes %x, want data[%d:%d] = %x", history, offs, qi, pat, i, len(blk), len(b), b, offs[i], hi, blk[offs[i]:hi]))
				}
				return "ok " + hx(b)
			})
		}
		c.NonTrivial()
		last, prevN, prevWhat = idxs[len(idxs)-1], n, pat
	}
	askOther("after all tables of the first decoder")
	c.Op(fmt.Sprintf("fd rel %d", oh), "ok")
	c.Op(fmt.Sprintf("fd rel %d", h), "ok")
	encoding.ReleaseFixedOffsetDecoder(dec)
	dec = nil
}
