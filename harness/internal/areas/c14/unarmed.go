package c14

// Reuse histories that START before the decoder object has ever held a block: NewTSDDecoder(nil / <= 4 bytes)
// (what decoderPool.New creates) is iterated, asked for slots, given rejected short blocks — its slot cursor moves
// and its error flag is set while buf/reader/values are still nil — and only then receives its first real
// block. The first real Reset / ResetWithTimeRange must erase all of it (Model/Tsd.lean Dec.reset' handles the
// first-use branch and the re-arm branch alike; theorem tsd_first_real_block_after_unarmed_use).

import (
	"fmt"
	"math"
	"math/rand"

	"github.com/lindb/lindb/pkg/bit"
	"github.com/lindb/lindb/pkg/encoding"

	"github.com/lindb/lindb/zzverif/internal/core"
)

func unarmedDecoderHistory(c *core.Ctx, r *rand.Rand) {
	c.Branch("tsd-unarmed-decoder-history")
	short := make([]byte, r.Intn(5))
	r.Read(short)
	var dec *encoding.TSDDecoder
	guard(c, "td new 0 "+hx(short), func() string { dec = encoding.NewTSDDecoder(short); return "ok" })
	if dec == nil {
		return
	}
	moved, failed := false, false
	for k := 0; k < 1+r.Intn(6); k++ {
		s := r.Intn(3)
		switch r.Intn(8) {
		case 0, 1:
			guard(c, "td next 0", func() string { more := dec.Next(); moved = moved || more; return fmt.Sprintf("%v", more) })
		case 2:
			guard(c, "td hv 0", func() string { return fmt.Sprintf("%v", dec.HasValue()) })
		case 3:
			guard(c, "td val 0", func() string { return fmt.Sprintf("%d", dec.Value()) })
		case 4:
			guard(c, fmt.Sprintf("td gv 0 %d", s), func() string {
				f, ok := dec.GetValue(uint16(s))
				if !ok {
					return "false"
				}
				return fmt.Sprintf("true %d", math.Float64bits(f))
			})
		case 5:
			guard(c, fmt.Sprintf("td hvs 0 %d", s), func() string { return fmt.Sprintf("%v", dec.HasValueWithSlot(uint16(s))) })
		case 6:
			bad := make([]byte, r.Intn(5))
			r.Read(bad)
			guard(c, "td reset 0 "+hx(bad), func() string { dec.Reset(bad); return "ok" })
			failed = true
		default:
			guard(c, fmt.Sprintf("td seek 0 %d", s), func() string { return fmt.Sprintf("%v", dec.Seek(uint16(s))) })
		}
		guard(c, "td slot 0", func() string { return fmt.Sprintf("%d", dec.Slot()) })
	}
	guard(c, "td err 0", func() string { return fmt.Sprintf("%v", dec.Error() != nil) })
	if moved {
		c.Branch("tsd-unarmed-cursor-moved")
	}
	if failed {
		c.Branch("tsd-unarmed-rejected-short-block")
	}
	// two real blocks through the object: the first one arms it, the second one re-arms it
	for round := 0; round < 2; round++ {
		n := 1 + r.Intn(16)
		b := &tsdBlock{start: genStart(r, n), mask: genMask(r, n), vals: make([]uint64, n), noTime: r.Intn(3) == 0}
		if round == 0 && r.Intn(2) == 0 {
			b.mask[0] = true // the first slot is the one a stale cursor would skip
		}
		enc := encoding.NewTSDEncoder(uint16(b.start))
		prev := r.Uint64()
		for i := range b.vals {
			b.vals[i] = genU64(r, prev)
			prev = b.vals[i]
			if b.mask[i] {
				enc.AppendTime(bit.One)
				enc.AppendValue(b.vals[i])
			} else {
				enc.AppendTime(bit.Zero)
			}
		}
		var d []byte
		if b.noTime {
			d, _ = enc.BytesWithoutTime()
		} else {
			d, _ = enc.Bytes()
		}
		b.data = cp(d)
		c.NonTrivial()
		resetDecoder(c, dec, b)
		what := "first real block of a decoder that was used before it ever held one"
		if round == 1 {
			what = "second block of that decoder"
		}
		if (r.Intn(2) == 0) == (round == 0) {
			checkAgainst(c, what+" (sequential)", b, readSequential(c, dec, b))
		} else {
			checkAgainst(c, what+" (slot-addressed)", b, readSlots(c, r, dec, b))
		}
	}
	c.Op("td rel 0", "ok")
}
