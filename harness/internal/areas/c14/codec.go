// Package c14 drives lindb's storage codecs (pkg/bit, pkg/stream, pkg/encoding, pkg/compress;
// real code) on generated values / slot masks / offset tables / reuse histories and mirrors
// every operation in the C14 line protocol (see lean/LinVerif/Driver/C14.lean).
//
// The impl-side oracle is the property itself: decode(encode(x)) == x for every codec, also
// through pooled / reused objects, and slot-addressed reads == sequential reads for TSD blocks.
package c14

import (
	"bytes"
	"encoding/hex"
	"errors"
	"fmt"
	"io"
	"math"
	"math/rand"
	"runtime"
	"runtime/debug"
	"strings"

	"github.com/lindb/roaring"

	"github.com/lindb/lindb/pkg/bit"
	"github.com/lindb/lindb/pkg/bufioutil"
	"github.com/lindb/lindb/pkg/compress"
	"github.com/lindb/lindb/pkg/encoding"
	"github.com/lindb/lindb/pkg/stream"

	"github.com/lindb/lindb/zzverif/internal/core"
)

type area struct{}

func init() { core.Register(area{}) }

func (area) Name() string { return "codec" }

const kinds = 12

func (area) Run(c *core.Ctx) error {
	for i := 0; i < c.N; i++ {
		if !c.Want(i) {
			continue
		}
		r := c.Rng(i)
		c.Begin(i)
		c.Op("clear", "ok")
		if i == 0 {
			witnessCase(c)
			continue
		}
		switch i % kinds {
		case 0:
			varintCase(c, r)
		case 1:
			bitsCase(c, r)
		case 2:
			xorCase(c, r)
		case 3, 4:
			tsdCase(c, r)
		case 5:
			deltaCase(c, r)
		case 6:
			fixedOffsetCase(c, r)
		case 7:
			externalCase(c, r, i)
		case 8:
			malformedCase(c, r)
		case 9:
			streamCase(c, r)
		case 10:
			poolAliasCase(c, r)
		case 11:
			callerBufferCase(c, r)
		}
	}
	return nil
}

func hx(b []byte) string {
	if len(b) == 0 {
		return "-"
	}
	return hex.EncodeToString(b)
}

func cp(b []byte) []byte { return append([]byte(nil), b...) }

// guard runs f, reporting a panic inside lindb code as an oracle failure and as the output "panic".
func guard(c *core.Ctx, op string, f func() string) string {
	var out string
	func() {
		defer func() {
			if r := recover(); r != nil {
				out = "panic"
				c.Fail("panic", fmt.Sprintf("op %q panicked: %v", op, r))
			}
		}()
		out = f()
	}()
	c.Op(op, out)
	return out
}

// ---------------------------------------------------------------- generators

// genU64 produces 64-bit patterns: NaN payloads, ±0, subnormals, infinities, repeats of the
// previous value, values whose xor with the previous one lies in a chosen leading/trailing window.
func genU64(r *rand.Rand, prev uint64) uint64 {
	switch r.Intn(14) {
	case 0: // NaN with payload, either sign, quiet or signalling
		m := r.Uint64() & (1<<52 - 1)
		if m == 0 {
			m = 1
		}
		return uint64(r.Intn(2))<<63 | 0x7FF<<52 | m
	case 1:
		return uint64(r.Intn(2)) << 63 // +0 / -0
	case 2: // subnormal
		return uint64(r.Intn(2))<<63 | (r.Uint64()&(1<<52-1) | 1)
	case 3:
		return prev
	case 4:
		return prev
	case 5: // xor window
		lead := r.Intn(64)
		trail := r.Intn(64 - lead)
		width := 64 - lead - trail
		var blk uint64
		if width == 64 {
			blk = r.Uint64()
		} else {
			blk = r.Uint64() & (1<<uint(width) - 1)
		}
		return prev ^ (blk << uint(trail))
	case 6: // narrow window at alternating ends
		if r.Intn(2) == 0 {
			return prev ^ uint64(1+r.Intn(255))
		}
		return prev ^ (uint64(1+r.Intn(255)) << 56)
	case 7:
		return math.Float64bits(float64(r.Intn(1000)))
	case 8:
		return math.Float64bits(r.NormFloat64() * 1e6)
	case 9:
		return [...]uint64{0x7FF0000000000000, 0xFFF0000000000000, math.MaxUint64, 1, 1 << 63, 0x7FEFFFFFFFFFFFFF, 0x7FF0000000000001, 0x7FF8000000000000}[r.Intn(8)]
	case 10:
		return prev ^ 1<<uint(r.Intn(64))
	default:
		return r.Uint64()
	}
}

// genMask: empty / dense / sparse / random presence masks.
func genMask(r *rand.Rand, n int) []bool {
	m := make([]bool, n)
	switch r.Intn(5) {
	case 0: // empty
	case 1: // dense
		for i := range m {
			m[i] = true
		}
	case 2: // sparse
		for i := range m {
			m[i] = r.Intn(12) == 0
		}
	case 3: // runs
		on := r.Intn(2) == 0
		for i := range m {
			if r.Intn(6) == 0 {
				on = !on
			}
			m[i] = on
		}
	default:
		for i := range m {
			m[i] = r.Intn(2) == 0
		}
	}
	return m
}

func genLen(r *rand.Rand, tier string) int {
	switch r.Intn(10) {
	case 0:
		return 1
	case 1:
		return 1 + r.Intn(8)
	case 2:
		if tier == "thorough" {
			return 100 + r.Intn(400)
		}
		return 60 + r.Intn(120)
	default:
		return 1 + r.Intn(40)
	}
}

var u64Edges = []uint64{0, 1, 127, 128, 129, 255, 256, 16383, 16384, 1<<21 - 1, 1 << 21, 1<<28 - 1, 1 << 28, 1<<32 - 1, 1 << 32,
	1<<35 - 1, 1 << 35, 1<<42 - 1, 1 << 42, 1<<49 - 1, 1 << 49, 1<<56 - 1, 1 << 56, 1<<63 - 1, 1 << 63, 1<<63 + 1, math.MaxUint64 - 1, math.MaxUint64}

func genEdgeU64(r *rand.Rand) uint64 {
	switch r.Intn(3) {
	case 0:
		return u64Edges[r.Intn(len(u64Edges))]
	case 1:
		return r.Uint64() >> uint(r.Intn(64))
	default:
		return r.Uint64()
	}
}

func genI32(r *rand.Rand, prev int32) int32 {
	switch r.Intn(10) {
	case 0:
		return math.MinInt32
	case 1:
		return math.MaxInt32
	case 2:
		return prev
	case 3:
		return prev + int32(r.Intn(7)-3)
	case 4:
		return prev + int32(r.Intn(2001)-1000)
	case 5:
		return int32(r.Uint32())
	case 6:
		return 0
	case 7:
		return -1
	default:
		return prev + int32(r.Intn(100))
	}
}

// ---------------------------------------------------------------- varint / zigzag

func errKind(err error) string {
	switch {
	case err == nil:
		return "nil"
	case errors.Is(err, io.EOF):
		return "eof"
	case strings.Contains(err.Error(), "overflows"):
		return "overflow"
	}
	return "other:" + err.Error()
}

func opUv(c *core.Ctx, n uint64) {
	guard(c, fmt.Sprintf("uv %d", n), func() string {
		w := stream.NewBufferWriter(nil)
		w.PutUvarint64(n)
		b, _ := w.Bytes()
		rd := stream.NewReader(b)
		v := rd.ReadUvarint64()
		rest := len(b) - rd.Position()
		if v != n || rest != 0 || rd.Error() != nil {
			c.Fail("uvarint-roundtrip", fmt.Sprintf("uvarint %d -> %x -> %d rest=%d err=%v", n, b, v, rest, rd.Error()))
		}
		return fmt.Sprintf("%s %d %d %s", hx(b), v, rest, errKind(rd.Error()))
	})
}

func opSv(c *core.Ctx, n int64) {
	guard(c, fmt.Sprintf("sv %d", n), func() string {
		w := stream.NewBufferWriter(nil)
		w.PutVarint64(n)
		b, _ := w.Bytes()
		rd := stream.NewReader(b)
		v := rd.ReadVarint64()
		rest := len(b) - rd.Position()
		if v != n || rest != 0 || rd.Error() != nil {
			c.Fail("varint-roundtrip", fmt.Sprintf("varint %d -> %x -> %d rest=%d err=%v", n, b, v, rest, rd.Error()))
		}
		return fmt.Sprintf("%s %d %d %s", hx(b), v, rest, errKind(rd.Error()))
	})
}

func varintCase(c *core.Ctx, r *rand.Rand) {
	c.NonTrivial()
	encUtilsOps(c, r) // Round 12: utils.go + the 16/16 split of a uint32 (encutils.go)
	n := 12 + r.Intn(20)
	for k := 0; k < n; k++ {
		switch r.Intn(9) {
		case 0, 1:
			c.Branch("varint-uv")
			opUv(c, genEdgeU64(r))
		case 2, 3:
			c.Branch("varint-sv")
			v := int64(genEdgeU64(r))
			if r.Intn(2) == 0 {
				v = -v
			}
			opSv(c, v)
		case 4:
			c.Branch("varint-zigzag")
			v := int64(genEdgeU64(r))
			guard(c, fmt.Sprintf("zz %d", v), func() string {
				e := encoding.ZigZagEncode(v)
				if encoding.ZigZagDecode(e) != v {
					c.Fail("zigzag-roundtrip", fmt.Sprintf("zigzag %d -> %d -> %d", v, e, encoding.ZigZagDecode(e)))
				}
				return fmt.Sprintf("%d", e)
			})
		case 5:
			c.Branch("varint-zigzag-dec")
			v := genEdgeU64(r)
			guard(c, fmt.Sprintf("zzd %d", v), func() string {
				d := encoding.ZigZagDecode(v)
				if encoding.ZigZagEncode(d) != v {
					c.Fail("zigzag-roundtrip", fmt.Sprintf("unzigzag %d -> %d -> %d", v, d, encoding.ZigZagEncode(d)))
				}
				return fmt.Sprintf("%d", d)
			})
		case 6: // arbitrary / malformed byte strings through lindb's own reader
			c.Branch("varint-read-raw")
			b := make([]byte, r.Intn(13))
			for i := range b {
				if r.Intn(3) > 0 {
					b[i] = byte(0x80 | r.Intn(128))
				} else {
					b[i] = byte(r.Intn(128))
				}
			}
			name := "ruv"
			if r.Intn(2) == 0 {
				name = "rsv"
			}
			guard(c, fmt.Sprintf("%s %s", name, hx(b)), func() string {
				rd := stream.NewReader(b)
				if name == "ruv" {
					v := rd.ReadUvarint64()
					return fmt.Sprintf("%d %d %s", v, rd.Position(), errKind(rd.Error()))
				}
				v := rd.ReadVarint64()
				return fmt.Sprintf("%d %d %s", v, rd.Position(), errKind(rd.Error()))
			})
		case 7:
			c.Branch("varint-size")
			v := genEdgeU64(r)
			guard(c, fmt.Sprintf("uvs %d", v), func() string { return fmt.Sprintf("%d", stream.UvariantSize(v)) })
		case 8:
			c.Branch("min-width")
			v := uint32(genEdgeU64(r))
			guard(c, fmt.Sprintf("mw %d", v), func() string { return fmt.Sprintf("%d", encoding.Uint32MinWidth(v)) })
		}
	}
}

// ---------------------------------------------------------------- bit writer / reader

type bitOp struct {
	kind int // 0 bit, 1 bits, 2 byte
	u    uint64
	n    int
}

func bitsCase(c *core.Ctx, r *rand.Rand) {
	c.NonTrivial()
	var buf bytes.Buffer
	w := bit.NewWriter(&buf)
	c.Op("bw new 0", "-")
	var written []bitOp
	nops := 5 + r.Intn(30)
	clean := true // no n>64 write: the written ops can be read back one by one
	for k := 0; k < nops; k++ {
		switch x := r.Intn(20); {
		case x < 6:
			b := r.Intn(2)
			c.Branch("bw-bit")
			guard(c, fmt.Sprintf("bw bit 0 %d", b), func() string { _ = w.WriteBit(b == 1); return hx(buf.Bytes()) })
			written = append(written, bitOp{0, uint64(b), 1})
		case x < 14:
			n := r.Intn(65)
			if r.Intn(40) == 0 {
				n = 65 + r.Intn(16)
				clean = false
				c.Branch("bw-bits-over-64")
			}
			u := r.Uint64()
			if r.Intn(3) == 0 && n < 64 {
				u &= 1<<uint(n) - 1
			}
			c.Branch("bw-bits")
			guard(c, fmt.Sprintf("bw bits 0 %d %d", u, n), func() string { _ = w.WriteBits(u, n); return hx(buf.Bytes()) })
			written = append(written, bitOp{1, u, n})
		case x < 18:
			b := r.Intn(256)
			c.Branch("bw-byte")
			guard(c, fmt.Sprintf("bw byte 0 %d", b), func() string { _ = w.WriteByte(byte(b)); return hx(buf.Bytes()) })
			written = append(written, bitOp{2, uint64(b), 8})
		case x < 19:
			c.Branch("bw-reset")
			guard(c, "bw reset 0", func() string { buf.Reset(); w.Reset(&buf); return hx(buf.Bytes()) })
			written = written[:0]
			clean = true
		default:
			// flush in the middle: the partial byte is written and stays current (bytes diverge from a clean stream)
			c.Branch("bw-flush-mid")
			guard(c, "bw flush 0", func() string { _ = w.Flush(); return hx(buf.Bytes()) })
			clean = false
		}
	}
	guard(c, "bw flush 0", func() string { _ = w.Flush(); return hx(buf.Bytes()) })
	data := cp(buf.Bytes())
	// read back with the same shapes
	rd := bit.NewReader(bufioutil.NewBuffer(data))
	c.Op("br new 0 "+hx(data), "ok")
	if clean {
		for i, o := range written {
			switch o.kind {
			case 0:
				guard(c, "br bit 0", func() string {
					b, err := rd.ReadBit()
					if err != nil || bool(b) != (o.u == 1) {
						c.Fail("bitstream-readback", fmt.Sprintf("op %d: wrote bit %d, read %v err=%v", i, o.u, b, err))
					}
					return fmt.Sprintf("%v %s", bool(b), rerr(err))
				})
			case 1:
				guard(c, fmt.Sprintf("br bits 0 %d", o.n), func() string {
					v, err := rd.ReadBits(o.n)
					want := o.u
					if o.n < 64 {
						want &= 1<<uint(o.n) - 1
					}
					if err != nil || v != want {
						c.Fail("bitstream-readback", fmt.Sprintf("op %d: wrote %d bits of %x, read %x err=%v", i, o.n, o.u, v, err))
					}
					return fmt.Sprintf("%d %s", v, rerr(err))
				})
			case 2:
				guard(c, "br byte 0", func() string {
					v, err := rd.ReadByte()
					if err != nil || uint64(v) != o.u {
						c.Fail("bitstream-readback", fmt.Sprintf("op %d: wrote byte %x, read %x err=%v", i, o.u, v, err))
					}
					return fmt.Sprintf("%d %s", v, rerr(err))
				})
			}
		}
	}
	// free-form reads (other shapes than written, running past the end)
	rd2 := bit.NewReader(bufioutil.NewBuffer(data))
	c.Op("br new 1 "+hx(data), "ok")
	for k := 0; k < 6+r.Intn(20); k++ {
		switch x := r.Intn(10); {
		case x < 3:
			guard(c, "br bit 1", func() string { b, err := rd2.ReadBit(); return fmt.Sprintf("%v %s", bool(b), rerr(err)) })
		case x < 7:
			n := r.Intn(65)
			guard(c, fmt.Sprintf("br bits 1 %d", n), func() string {
				v, err := rd2.ReadBits(n)
				return fmt.Sprintf("%d %s", v, rerr(err))
			})
		case x < 9:
			guard(c, "br byte 1", func() string { v, err := rd2.ReadByte(); return fmt.Sprintf("%d %s", v, rerr(err)) })
		default:
			c.Branch("br-reset")
			guard(c, "br reset 1", func() string { rd2.Reset(); return "ok" })
		}
	}
}

func minInt(a, b int) int {
	if a < b {
		return a
	}
	return b
}

func rerr(err error) string {
	if err == nil {
		return "nil"
	}
	return "err"
}

// ---------------------------------------------------------------- XOR codec

func xorCase(c *core.Ctx, r *rand.Rand) {
	c.NonTrivial()
	var buf bytes.Buffer
	bw := bit.NewWriter(&buf)
	enc := encoding.NewXOREncoder(bw)
	c.Op("xe new 0", "ok")
	var dec *encoding.XORDecoder
	var dbuf *bufioutil.Buffer
	var drd *bit.Reader
	rounds := 1 + r.Intn(4)
	for round := 0; round < rounds; round++ {
		if round > 0 {
			c.Branch("xor-encoder-reused")
			guard(c, "xe reset 0", func() string { enc.Reset(); buf.Reset(); bw.Reset(&buf); return "ok" })
		}
		n := genLen(r, c.Tier)
		vals := make([]uint64, n)
		prev := r.Uint64()
		for i := range vals {
			vals[i] = genU64(r, prev)
			prev = vals[i]
			v := vals[i]
			guard(c, fmt.Sprintf("xe write 0 %d", v), func() string { _ = enc.Write(v); return "ok" })
		}
		var data []byte
		guard(c, "xe bytes 0", func() string { _ = bw.Flush(); data = cp(buf.Bytes()); return hx(data) })
		if dec == nil {
			dbuf = bufioutil.NewBuffer(data)
			drd = bit.NewReader(dbuf)
			dec = encoding.NewXORDecoder(drd)
			c.Op("xd new 0 "+hx(data), "ok")
		} else {
			c.Branch("xor-decoder-reused")
			if r.Intn(2) == 0 {
				// fault-then-reuse: run the decoder into its sticky error on a truncated stream first
				c.Branch("xor-decoder-fault-before-reuse")
				cut := cp(data[:r.Intn(minInt(len(data), 9))])
				guard(c, "xd reset 0 "+hx(cut), func() string { dbuf.SetBuf(cut); drd.Reset(); dec.Reset(); return "ok" })
				for k := 0; k < 3; k++ {
					guard(c, "xd next 0", func() string { ok := dec.Next(); return fmt.Sprintf("%v %d", ok, dec.Value()) })
				}
			}
			guard(c, "xd reset 0 "+hx(data), func() string { dbuf.SetBuf(data); drd.Reset(); dec.Reset(); return "ok" })
		}
		for i := 0; i < n+2; i++ {
			guard(c, "xd next 0", func() string {
				ok := dec.Next()
				v := dec.Value()
				if i < n && (!ok || v != vals[i]) {
					c.Fail("xor-roundtrip", fmt.Sprintf("round %d value %d: wrote %016x, read ok=%v %016x", round, i, vals[i], ok, v))
				}
				return fmt.Sprintf("%v %d", ok, v)
			})
		}
	}
}

// ---------------------------------------------------------------- TSD blocks

type tsdBlock struct {
	start  int
	mask   []bool
	vals   []uint64 // per slot (meaningful where mask is set)
	data   []byte
	noTime bool
}

func (b *tsdBlock) end() int { return b.start + len(b.mask) - 1 }

func genStart(r *rand.Rand, n int) int {
	switch r.Intn(8) {
	case 0:
		return 0
	case 1: // ends right below the uint16 boundary (end <= 65534)
		return 65535 - n - r.Intn(3)
	default:
		return r.Intn(4000)
	}
}

// encodeBlock fills enc (already positioned at b.start) and takes the bytes.
func encodeBlock(c *core.Ctx, r *rand.Rand, enc *encoding.TSDEncoder, b *tsdBlock) {
	useEmit := r.Intn(5) == 0
	for i, on := range b.mask {
		v := b.vals[i]
		switch {
		case useEmit && on && v != 0x7FF0000000000000:
			c.Branch("tsd-emit")
			guard(c, fmt.Sprintf("te emit 0 %d", v), func() string { enc.EmitDownSamplingValue(i, math.Float64frombits(v)); return "ok" })
		case useEmit && !on:
			guard(c, fmt.Sprintf("te emit 0 %d", uint64(0x7FF0000000000000)), func() string { enc.EmitDownSamplingValue(i, math.Inf(1)); return "ok" })
		case on:
			guard(c, "te time 0 1", func() string { enc.AppendTime(bit.One); return "ok" })
			guard(c, fmt.Sprintf("te val 0 %d", v), func() string { enc.AppendValue(v); return "ok" })
		default:
			guard(c, "te time 0 0", func() string { enc.AppendTime(bit.Zero); return "ok" })
		}
	}
	if b.noTime {
		c.Branch("tsd-bytes-without-time")
		guard(c, "te bwt 0", func() string {
			d, err := enc.BytesWithoutTime()
			if err != nil {
				return "err"
			}
			b.data = cp(d)
			return hx(d)
		})
		return
	}
	guard(c, "te bytes 0", func() string {
		d, err := enc.Bytes()
		if err != nil {
			return "err"
		}
		if d == nil {
			return "nil"
		}
		b.data = cp(d)
		return hx(d)
	})
	if b.data != nil && !b.noTime {
		data := b.data
		guard(c, "tdt "+hx(data), func() string {
			s, e := encoding.DecodeTSDTime(data)
			if int(s) != b.start || int(e) != b.end() {
				c.Fail("tsd-time-range", fmt.Sprintf("block [%d,%d]: DecodeTSDTime gives [%d,%d]", b.start, b.end(), s, e))
			}
			return fmt.Sprintf("%d %d", s, e)
		})
	}
}

// expected observation of a slot-addressed read
func (b *tsdBlock) at(slot int) (uint64, bool) {
	if slot < b.start || slot > b.end() || !b.mask[slot-b.start] {
		return 0, false
	}
	return b.vals[slot-b.start], true
}

func resetDecoder(c *core.Ctx, dec *encoding.TSDDecoder, b *tsdBlock) {
	if b.noTime {
		guard(c, fmt.Sprintf("td rtr 0 %s %d %d", hx(b.data), b.start, b.end()), func() string {
			dec.ResetWithTimeRange(b.data, uint16(b.start), uint16(b.end()))
			return "ok"
		})
	} else {
		guard(c, "td reset 0 "+hx(b.data), func() string { dec.Reset(b.data); return "ok" })
	}
	guard(c, "td err 0", func() string {
		// series.BinaryPrimitiveIterator.HasNext refuses to iterate while Error() != nil
		if dec.Error() != nil {
			c.Fail("tsd-error-survives-reset", fmt.Sprintf("block [%d,%d]: Error() is still set after Reset on a valid block: %v", b.start, b.end(), dec.Error()))
		}
		return fmt.Sprintf("%v", dec.Error() != nil)
	})
	guard(c, "td se 0", func() string {
		if int(dec.StartTime()) != b.start || int(dec.EndTime()) != b.end() {
			c.Fail("tsd-time-range", fmt.Sprintf("block [%d,%d] decodes as [%d,%d]", b.start, b.end(), dec.StartTime(), dec.EndTime()))
		}
		return fmt.Sprintf("%d %d", dec.StartTime(), dec.EndTime())
	})
}

// readSequential: the BinaryPrimitiveIterator pattern (Next / HasValue / Slot / Value); exactly
// len(mask)+1 calls of Next so that a decoder whose Next never ends cannot hang the harness.
func readSequential(c *core.Ctx, dec *encoding.TSDDecoder, b *tsdBlock) (got map[int]uint64) {
	got = map[int]uint64{}
	for i := 0; i <= len(b.mask); i++ {
		more := false
		guard(c, "td next 0", func() string { more = dec.Next(); return fmt.Sprintf("%v", more) })
		if i == len(b.mask) {
			if more {
				c.Fail("tsd-sequential-extra-slot", fmt.Sprintf("block [%d,%d]: Next() is still true after %d slots", b.start, b.end(), len(b.mask)))
			}
			break
		}
		if !more {
			c.Fail("tsd-sequential-short", fmt.Sprintf("block [%d,%d]: Next() false after %d slots", b.start, b.end(), i))
			break
		}
		has := false
		guard(c, "td hv 0", func() string { has = dec.HasValue(); return fmt.Sprintf("%v", has) })
		if has {
			slot := 0
			guard(c, "td slot 0", func() string { slot = int(dec.Slot()); return fmt.Sprintf("%d", slot) })
			guard(c, "td val 0", func() string { v := dec.Value(); got[slot] = v; return fmt.Sprintf("%d", v) })
		}
	}
	return got
}

func checkAgainst(c *core.Ctx, what string, b *tsdBlock, got map[int]uint64) {
	for s := b.start; s <= b.end(); s++ {
		want, on := b.at(s)
		v, ok := got[s]
		if on != ok || (on && v != want) {
			c.Fail("tsd-roundtrip", fmt.Sprintf("%s: block [%d,%d] slot %d: encoded (%v,%016x) decoded (%v,%016x)", what, b.start, b.end(), s, on, want, ok, v))
			return
		}
	}
	for s := range got {
		if s < b.start || s > b.end() {
			c.Fail("tsd-roundtrip", fmt.Sprintf("%s: block [%d,%d]: decoded a value at foreign slot %d", what, b.start, b.end(), s))
			return
		}
	}
}

func readSlots(c *core.Ctx, r *rand.Rand, dec *encoding.TSDDecoder, b *tsdBlock) map[int]uint64 {
	got := map[int]uint64{}
	lo := b.start - r.Intn(4)
	if lo < 0 {
		lo = 0
	}
	hi := b.end() + r.Intn(4)
	if hi > 65535 {
		hi = 65535
	}
	useGet := r.Intn(2) == 0
	for s := lo; s <= hi; s++ {
		if useGet {
			guard(c, fmt.Sprintf("td gv 0 %d", s), func() string {
				f, ok := dec.GetValue(uint16(s))
				if !ok {
					return "false"
				}
				got[s] = math.Float64bits(f)
				return fmt.Sprintf("true %d", math.Float64bits(f))
			})
		} else {
			has := false
			guard(c, fmt.Sprintf("td hvs 0 %d", s), func() string { has = dec.HasValueWithSlot(uint16(s)); return fmt.Sprintf("%v", has) })
			if has {
				guard(c, "td val 0", func() string { v := dec.Value(); got[s] = v; return fmt.Sprintf("%d", v) })
			}
		}
	}
	return got
}

// poisonBytes: a dense 2-slot block [0,1] cut inside its first value. Reading it drives the bit
// reader (index out of range), the XOR decoder (sticky err) and the TSD decoder (err) into their
// error states.
func poisonBytes(r *rand.Rand) []byte {
	e := encoding.NewTSDEncoder(0)
	e.AppendTime(bit.One)
	e.AppendValue(r.Uint64() | 1)
	e.AppendTime(bit.One)
	e.AppendValue(r.Uint64())
	d, _ := e.Bytes()
	return cp(d)[:4+1+r.Intn(8)]
}

// poisonDecoder: fault-then-reuse histories. The decoder (handle 0) reads a truncated block until
// every layer has failed; the caller then re-arms it (directly or through the pool) on a valid block.
func poisonDecoder(c *core.Ctx, r *rand.Rand, dec *encoding.TSDDecoder) {
	c.Branch("tsd-decoder-fault-before-reuse")
	data := poisonBytes(r)
	guard(c, "td reset 0 "+hx(data), func() string { dec.Reset(data); return "ok" })
	for s := 0; s <= 1; s++ {
		guard(c, fmt.Sprintf("td gv 0 %d", s), func() string {
			f, ok := dec.GetValue(uint16(s))
			if !ok {
				return "false"
			}
			return fmt.Sprintf("true %d", math.Float64bits(f))
		})
	}
	guard(c, "td val 0", func() string { return fmt.Sprintf("%d", dec.Value()) })
	guard(c, "td err 0", func() string {
		if dec.Error() == nil {
			c.Note("poison block did not fail the decoder")
		}
		return fmt.Sprintf("%v", dec.Error() != nil)
	})
}

func tsdCase(c *core.Ctx, r *rand.Rand) {
	var enc *encoding.TSDEncoder
	var dec *encoding.TSDDecoder
	defer func() {
		if enc != nil {
			encoding.ReleaseTSDEncoder(enc)
		}
		if dec != nil {
			encoding.ReleaseTSDDecoder(dec)
		}
	}()
	unarmedDecoderHistory(c, r)
	// warm-up, so that what the pools hold at the start of the case does not depend on earlier
	// cases: one encoder that was used for 3 slots and one decoder that failed on a truncated block
	// are released; the first Get of the case will (normally) return exactly these objects.
	{
		var we *encoding.TSDEncoder
		guard(c, "te get 0 7", func() string { we = encoding.GetTSDEncoder(7); return "ok" })
		for k := 0; k < 1+r.Intn(3); k++ {
			guard(c, "te time 0 1", func() string { we.AppendTime(bit.One); return "ok" })
			v := r.Uint64()
			guard(c, fmt.Sprintf("te val 0 %d", v), func() string { we.AppendValue(v); return "ok" })
		}
		for k := 0; k < r.Intn(8); k++ { // 0..7 more bits: the use is ABORTED with a partial byte pending (no Bytes())
			guard(c, "te time 0 1", func() string { we.AppendTime(bit.One); return "ok" })
		}
		c.Branch("tsd-encoder-aborted-with-pending-bits")
		encoding.ReleaseTSDEncoder(we)
		c.Op("te rel 0", "ok")
		var wd *encoding.TSDDecoder
		guard(c, "td get 0", func() string { wd = encoding.GetTSDDecoder(); return "ok" })
		poisonDecoder(c, r, wd)
		encoding.ReleaseTSDDecoder(wd)
		c.Op("td rel 0", "ok")
	}
	rounds := 2 + r.Intn(4)
	for round := 0; round < rounds; round++ {
		n := genLen(r, c.Tier)
		if r.Intn(25) == 0 && round != 0 {
			n = 0
		}
		b := &tsdBlock{start: genStart(r, n), mask: genMask(r, n), vals: make([]uint64, n), noTime: r.Intn(4) == 0 && n > 0}
		prev := r.Uint64()
		for i := range b.vals {
			b.vals[i] = genU64(r, prev)
			prev = b.vals[i]
		}
		// obtain the encoder: fresh, from the pool, or the previous object re-armed
		k := r.Intn(4)
		if round == 1 {
			k = 1 // every case: an encoder that wrote >= 1 slot is released and taken again
		}
		switch {
		case enc == nil || k == 0:
			if enc != nil {
				encoding.ReleaseTSDEncoder(enc)
				c.Op("te rel 0", "ok")
			}
			if r.Intn(3) == 0 {
				c.Branch("tsd-encoder-new")
				guard(c, fmt.Sprintf("te new 0 %d", b.start), func() string { enc = encoding.NewTSDEncoder(uint16(b.start)); return "ok" })
			} else {
				c.Branch("tsd-encoder-from-pool")
				guard(c, fmt.Sprintf("te get 0 %d", b.start), func() string { enc = encoding.GetTSDEncoder(uint16(b.start)); return "ok" })
			}
		case k == 1:
			c.Branch("tsd-encoder-released-and-reacquired")
			encoding.ReleaseTSDEncoder(enc)
			c.Op("te rel 0", "ok")
			guard(c, fmt.Sprintf("te get 0 %d", b.start), func() string { enc = encoding.GetTSDEncoder(uint16(b.start)); return "ok" })
		default:
			c.Branch("tsd-encoder-reset-with-start")
			guard(c, fmt.Sprintf("te rst 0 %d", b.start), func() string { enc.RestWithStartTime(uint16(b.start)); return "ok" })
		}
		encodeBlock(c, r, enc, b)
		if n == 0 {
			c.Branch("tsd-empty-block-nil")
			if b.data != nil {
				c.Fail("tsd-empty-not-nil", "Bytes() of an encoder without slots is not nil")
			}
			continue
		}
		c.NonTrivial()
		if b.data == nil {
			c.Fail("tsd-bytes-missing", "Bytes() returned nil/err for a non-empty block")
			continue
		}
		switch {
		case allFalse(b.mask):
			c.Branch("tsd-mask-empty")
		case allTrue(b.mask):
			c.Branch("tsd-mask-dense")
		default:
			c.Branch("tsd-mask-mixed")
		}
		// two passes over the same bytes: sequential and slot-addressed, each on a reused decoder
		var seq, slots map[int]uint64
		for pass := 0; pass < 2; pass++ {
			switch k := r.Intn(4); {
			case dec == nil || k == 0:
				if dec != nil {
					encoding.ReleaseTSDDecoder(dec)
					c.Op("td rel 0", "ok")
				}
				if r.Intn(2) == 0 && !b.noTime {
					c.Branch("tsd-decoder-new")
					guard(c, "td new 0 "+hx(b.data), func() string { dec = encoding.NewTSDDecoder(b.data); return "ok" })
					guard(c, "td se 0", func() string { return fmt.Sprintf("%d %d", dec.StartTime(), dec.EndTime()) })
				} else {
					c.Branch("tsd-decoder-from-pool")
					guard(c, "td get 0", func() string { dec = encoding.GetTSDDecoder(); return "ok" })
					resetDecoder(c, dec, b)
				}
			case k == 1:
				c.Branch("tsd-decoder-released-and-reacquired")
				if r.Intn(2) == 0 {
					poisonDecoder(c, r, dec)
				}
				encoding.ReleaseTSDDecoder(dec)
				c.Op("td rel 0", "ok")
				guard(c, "td get 0", func() string { dec = encoding.GetTSDDecoder(); return "ok" })
				resetDecoder(c, dec, b)
			default:
				c.Branch("tsd-decoder-reset")
				if r.Intn(3) == 0 {
					poisonDecoder(c, r, dec)
				}
				resetDecoder(c, dec, b)
			}
			if pass == 0 {
				seq = readSequential(c, dec, b)
				checkAgainst(c, "sequential", b, seq)
			} else {
				slots = readSlots(c, r, dec, b)
				checkAgainst(c, "slot-addressed", b, slots)
			}
		}
		if len(seq) != len(slots) {
			c.Fail("tsd-slot-vs-sequential", fmt.Sprintf("block [%d,%d]: sequential read saw %d values, slot-addressed %d", b.start, b.end(), len(seq), len(slots)))
		} else {
			for s, v := range seq {
				if w, ok := slots[s]; !ok || w != v {
					c.Fail("tsd-slot-vs-sequential", fmt.Sprintf("block [%d,%d] slot %d: sequential %016x, slot-addressed (%v,%016x)", b.start, b.end(), s, v, ok, w))
					break
				}
			}
		}
		// Round 9: the decoder that just read this block is re-armed on an input without a complete block and must
		// answer like a decoder that never held one (rejected.go)
		if r.Intn(3) == 0 {
			tsdRearmThenAsk(c, r, 0, dec, b.data, !b.noTime, b.start, b.end())
		}
		// Seek oracle pass: after Seek(s) on a re-armed decoder, slot-addressed reads of every slot >= s
		// must equal the sequential decode (theorems tsd_seek_then_read / tsd_seek_gap).
		if len(b.mask) >= 2 && b.mask[0] && r.Intn(2) == 0 {
			c.Branch("tsd-seek-oracle-pass")
			dense := 0 // length of the run of present slots at the front
			for dense < len(b.mask) && b.mask[dense] {
				dense++
			}
			j := 1 + r.Intn(len(b.mask)-1) // target index 1..n-1
			if dense < len(b.mask) && r.Intn(3) > 0 && dense >= 1 {
				j = 1 + r.Intn(dense) // mostly inside / right after the dense run: Seek succeeds
				if j > len(b.mask)-1 {
					j = len(b.mask) - 1
				}
			}
			s := b.start + j
			resetDecoder(c, dec, b)
			ok := false
			guard(c, fmt.Sprintf("td seek 0 %d", s), func() string { ok = dec.Seek(uint16(s)); return fmt.Sprintf("%v", ok) })
			from := s
			if j <= dense {
				c.Branch("tsd-seek-dense-prefix")
				if !ok {
					c.Fail("tsd-seek-then-read", fmt.Sprintf("block [%d,%d]: Seek(%d) is false although every slot before it holds a value", b.start, b.end(), s))
				}
			} else {
				c.Branch("tsd-seek-across-gap")
				from = b.start + dense + 1 // Seek gave up right after the first empty slot
				if ok {
					from = s
				}
			}
			useGet := r.Intn(2) == 0
			for q := from; q <= b.end(); q++ {
				want, on := b.at(q)
				if useGet {
					guard(c, fmt.Sprintf("td gv 0 %d", q), func() string {
						f, has := dec.GetValue(uint16(q))
						if has != on || (on && math.Float64bits(f) != want) {
							c.Fail("tsd-seek-then-read", fmt.Sprintf("block [%d,%d] after Seek(%d)=%v: slot %d reads (%v,%016x), sequential decode has (%v,%016x)", b.start, b.end(), s, ok, q, has, math.Float64bits(f), on, want))
						}
						if !has {
							return "false"
						}
						return fmt.Sprintf("true %d", math.Float64bits(f))
					})
				} else {
					has := false
					guard(c, fmt.Sprintf("td hvs 0 %d", q), func() string { has = dec.HasValueWithSlot(uint16(q)); return fmt.Sprintf("%v", has) })
					if has != on {
						c.Fail("tsd-seek-then-read", fmt.Sprintf("block [%d,%d] after Seek(%d)=%v: slot %d presence %v, sequential decode has %v", b.start, b.end(), s, ok, q, has, on))
					}
					if has {
						guard(c, "td val 0", func() string {
							v := dec.Value()
							if on && v != want {
								c.Fail("tsd-seek-then-read", fmt.Sprintf("block [%d,%d] after Seek(%d)=%v: slot %d reads %016x, sequential decode has %016x", b.start, b.end(), s, ok, q, v, want))
							}
							return fmt.Sprintf("%d", v)
						})
					}
				}
			}
		}
		// a third, free-form pass: Seek / out-of-order slot reads (correspondence only)
		if r.Intn(3) == 0 {
			c.Branch("tsd-seek-pass")
			resetDecoder(c, dec, b)
			for k := 0; k < 1+r.Intn(5); k++ {
				s := b.start - 2 + r.Intn(len(b.mask)+4)
				if s < 0 {
					s = 0
				}
				if s > 65535 {
					s = 65535
				}
				if r.Intn(2) == 0 {
					ok := false
					guard(c, fmt.Sprintf("td seek 0 %d", s), func() string { ok = dec.Seek(uint16(s)); return fmt.Sprintf("%v", ok) })
					if ok {
						guard(c, fmt.Sprintf("td gv 0 %d", s), func() string {
							f, ok := dec.GetValue(uint16(s))
							if !ok {
								return "false"
							}
							return fmt.Sprintf("true %d", math.Float64bits(f))
						})
					}
				} else {
					guard(c, fmt.Sprintf("td gv 0 %d", s), func() string {
						f, ok := dec.GetValue(uint16(s))
						if !ok {
							return "false"
						}
						return fmt.Sprintf("true %d", math.Float64bits(f))
					})
				}
				guard(c, "td err 0", func() string { return fmt.Sprintf("%v", dec.Error() != nil) })
			}
		}
		// an EMPTY block (zero bytes: BytesWithoutTime of a field without data points, a zero-length field
		// of a stream / data file) given to a decoder whose previous block was only half read: over the
		// same slot range it must decode to "no slot has a value", slot-addressed and sequentially.
		if r.Intn(3) == 0 {
			c.Branch("tsd-empty-block-after-half-read")
			eb := &tsdBlock{start: b.start, mask: make([]bool, len(b.mask)), vals: make([]uint64, len(b.mask)), data: []byte{}, noTime: true}
			for pass := 0; pass < 2; pass++ {
				resetDecoder(c, dec, b)
				half := r.Intn(len(b.mask)) // 0 .. n-1 slots of the predecessor are read
				for q := b.start; q < b.start+half; q++ {
					guard(c, fmt.Sprintf("td gv 0 %d", q), func() string {
						f, ok := dec.GetValue(uint16(q))
						if !ok {
							return "false"
						}
						return fmt.Sprintf("true %d", math.Float64bits(f))
					})
				}
				if r.Intn(3) == 0 { // through the pool as well
					encoding.ReleaseTSDDecoder(dec)
					c.Op("td rel 0", "ok")
					guard(c, "td get 0", func() string { dec = encoding.GetTSDDecoder(); return "ok" })
				}
				resetDecoder(c, dec, eb)
				if pass == 0 {
					checkAgainst(c, "empty block, slot-addressed", eb, readSlots(c, r, dec, eb))
				} else {
					checkAgainst(c, "empty block, sequential", eb, readSequential(c, dec, eb))
				}
			}
		}
		// what Bytes()/BytesWithoutTime() returned is a view of an internal buffer: it must stay unchanged
		// while the encoder goes on writing (until it is re-armed)
		if r.Intn(4) == 0 {
			c.Branch("bytes-view-after-later-writes")
			var view, snap []byte
			wt := r.Intn(2) == 0
			if wt {
				guard(c, "te bwt 0", func() string { d, _ := enc.BytesWithoutTime(); view, snap = d, cp(d); return hx(d) })
			} else {
				guard(c, "te bytes 0", func() string {
					d, _ := enc.Bytes()
					view, snap = d, cp(d)
					if d == nil {
						return "nil"
					}
					return hx(d)
				})
			}
			for k := 0; k < 1+r.Intn(12); k++ {
				if r.Intn(3) == 0 {
					guard(c, "te time 0 0", func() string { enc.AppendTime(bit.Zero); return "ok" })
				} else {
					guard(c, "te time 0 1", func() string { enc.AppendTime(bit.One); return "ok" })
					v := r.Uint64()
					guard(c, fmt.Sprintf("te val 0 %d", v), func() string { enc.AppendValue(v); return "ok" })
				}
			}
			if !bytes.Equal(view, snap) {
				c.Fail("bytes-result-changed-by-later-writes", fmt.Sprintf("TSDEncoder (withoutTime=%v): the slice returned earlier changed while further slots were appended: %x -> %x", wt, snap, view))
			}
		}
		// rarely: Bytes() a second time on the same encoder (flush does not re-arm the writer)
		if r.Intn(12) == 0 && !b.noTime {
			c.Branch("tsd-bytes-twice")
			guard(c, "te bytes 0", func() string {
				d, err := enc.Bytes()
				if err != nil {
					return "err"
				}
				if d == nil {
					return "nil"
				}
				return hx(d)
			})
		}
	}
}

func allFalse(m []bool) bool {
	for _, b := range m {
		if b {
			return false
		}
	}
	return true
}

func allTrue(m []bool) bool {
	for _, b := range m {
		if !b {
			return false
		}
	}
	return true
}

// witnessCase (always case 0): the boundary of the slot domain. A block whose last slot is
// 65535 is encoded and slot-addressed reads are exact, but TSDDecoder.Next() can never return
// false (`startTime+idx <= endTime` in uint16), so sequential iteration sees extra slots.
func witnessCase(c *core.Ctx) {
	c.NonTrivial()
	c.Branch("witness-end-slot-65535")
	enc := encoding.NewTSDEncoder(65534)
	c.Op("te new 0 65534", "ok")
	vals := []uint64{math.Float64bits(1.5), math.Float64bits(-2.25)}
	for _, v := range vals {
		guard(c, "te time 0 1", func() string { enc.AppendTime(bit.One); return "ok" })
		guard(c, fmt.Sprintf("te val 0 %d", v), func() string { enc.AppendValue(v); return "ok" })
	}
	var data []byte
	guard(c, "te bytes 0", func() string {
		d, _ := enc.Bytes()
		data = cp(d)
		return hx(d)
	})
	dec := encoding.NewTSDDecoder(data)
	c.Op("td new 0 "+hx(data), "ok")
	for s := 65534; s <= 65535; s++ {
		guard(c, fmt.Sprintf("td gv 0 %d", s), func() string {
			f, ok := dec.GetValue(uint16(s))
			if !ok || math.Float64bits(f) != vals[s-65534] {
				c.Fail("tsd-roundtrip", fmt.Sprintf("witness block [65534,65535] slot %d: (%v,%016x)", s, ok, math.Float64bits(f)))
			}
			if !ok {
				return "false"
			}
			return fmt.Sprintf("true %d", math.Float64bits(f))
		})
	}
	guard(c, "td reset 0 "+hx(data), func() string { dec.Reset(data); return "ok" })
	more := true
	for i := 0; i < 6; i++ {
		guard(c, "td next 0", func() string { more = dec.Next(); return fmt.Sprintf("%v", more) })
	}
	if more {
		c.Fail("tsd-next-unbounded-at-end-slot-65535", "block [65534,65535]: TSDDecoder.Next() is still true after 6 calls on a 2-slot block (uint16 wrap of startTime+idx): sequential iteration (series.BinaryPrimitiveIterator.HasNext) never ends")
	}
}

// ---------------------------------------------------------------- delta bit packing

func deltaCase(c *core.Ctx, r *rand.Rand) {
	var enc *encoding.DeltaBitPackingEncoder
	var dec *encoding.DeltaBitPackingDecoder
	rounds := 1 + r.Intn(4)
	for round := 0; round < rounds; round++ {
		if enc == nil || r.Intn(4) == 0 {
			c.Branch("delta-encoder-new")
			guard(c, "de new 0", func() string { enc = encoding.NewDeltaBitPackingEncoder(); return "ok" })
		} else {
			c.Branch("delta-encoder-reset")
			guard(c, "de reset 0", func() string { enc.Reset(); return "ok" })
		}
		n := genLen(r, c.Tier)
		if r.Intn(15) == 0 {
			n = 0
		}
		if r.Intn(8) == 0 {
			n = 2 // exactly one delta
		}
		vals := make([]int32, n)
		prev := int32(r.Uint32())
		mode := r.Intn(8)
		big := int32(1 + r.Intn(1<<20))
		for i := range vals {
			switch mode {
			case 5: // the FIRST delta is the largest, all later ones smaller (extremes in any order)
				if i == 1 {
					vals[i] = prev - big
				} else {
					vals[i] = prev - int32(r.Intn(int(big)))
				}
			case 6: // the FIRST delta is the smallest, later ones grow
				if i == 1 {
					vals[i] = prev + big
				} else {
					vals[i] = prev + int32(r.Intn(int(big)))
				}
			case 7: // the LAST delta is the only extreme
				if i == len(vals)-1 {
					vals[i] = prev - big*3
				} else {
					vals[i] = prev - 1
				}
			case 0: // constant: width 0
				vals[i] = prev
			case 1: // arithmetic progression: all deltas equal
				vals[i] = prev + 7
			case 2: // extreme alternation: deltas overflow int32
				if i%2 == 0 {
					vals[i] = math.MinInt32 + int32(r.Intn(3))
				} else {
					vals[i] = math.MaxInt32 - int32(r.Intn(3))
				}
			default:
				vals[i] = genI32(r, prev)
			}
			prev = vals[i]
			v := vals[i]
			guard(c, fmt.Sprintf("de add 0 %d", v), func() string { enc.Add(v); return "ok" })
		}
		var data, dview []byte
		guard(c, "de bytes 0", func() string { dview = enc.Bytes(); data = cp(dview); return hx(data) })
		if r.Intn(4) == 0 {
			// further Add()s do not touch the buffer Bytes() returned (it is rewritten by the next Bytes()/Reset only)
			c.Branch("bytes-view-after-later-writes")
			for k := 0; k < 1+r.Intn(4); k++ {
				v := genI32(r, prev)
				prev = v
				guard(c, fmt.Sprintf("de add 0 %d", v), func() string { enc.Add(v); return "ok" })
			}
			if !bytes.Equal(dview, data) {
				c.Fail("bytes-result-changed-by-later-writes", fmt.Sprintf("DeltaBitPackingEncoder: the slice returned by Bytes() changed while further values were added: %x -> %x", data, dview))
			}
		}
		if dec == nil || r.Intn(4) == 0 {
			c.Branch("delta-decoder-new")
			guard(c, "dd new 0 "+hx(data), func() string { dec = encoding.NewDeltaBitPackingDecoder(data); return "ok" })
		} else {
			c.Branch("delta-decoder-reset")
			if r.Intn(2) == 0 && len(data) > 0 {
				// fault-then-reuse: a truncated buffer first (header / bit reads fail, errors are ignored by the code)
				c.Branch("delta-decoder-fault-before-reuse")
				cut := cp(data[:r.Intn(len(data))])
				guard(c, "dd reset 0 "+hx(cut), func() string { dec.Reset(cut); return "ok" })
				for k := 0; k < 3; k++ {
					has := false
					guard(c, "dd hasnext 0", func() string { has = dec.HasNext(); return fmt.Sprintf("%v", has) })
					if !has {
						break
					}
					guard(c, "dd next 0", func() string { return fmt.Sprintf("%d", dec.Next()) })
				}
			}
			guard(c, "dd reset 0 "+hx(data), func() string { dec.Reset(data); return "ok" })
		}
		var got []int32
		for i := 0; i < n+2; i++ {
			has := false
			guard(c, "dd hasnext 0", func() string { has = dec.HasNext(); return fmt.Sprintf("%v", has) })
			if !has {
				break
			}
			guard(c, "dd next 0", func() string { v := dec.Next(); got = append(got, v); return fmt.Sprintf("%d", v) })
		}
		if n == 0 {
			// stated guard: an empty sequence is encoded as "first value 0, no deltas" and decodes to [0]
			c.Branch("delta-empty-sequence")
			continue
		}
		c.NonTrivial()
		if len(got) != n {
			c.Fail("delta-roundtrip", fmt.Sprintf("round %d: encoded %d values, decoded %d", round, n, len(got)))
			continue
		}
		for i := range vals {
			if vals[i] != got[i] {
				c.Fail("delta-roundtrip", fmt.Sprintf("round %d value %d: encoded %d decoded %d", round, i, vals[i], got[i]))
				break
			}
		}
		// Round 9: Reset on empty / cut / random bytes = a new decoder on the same bytes (rejected.go)
		if r.Intn(3) == 0 {
			deltaRearmThenAsk(c, r, 0, dec, data, n)
		}
	}
}

// ---------------------------------------------------------------- fixed offset table

func addOffset(c *core.Ctx, enc *encoding.FixedOffsetEncoder, v int) (ok bool) {
	op := fmt.Sprintf("fe add 0 %d", v)
	var out string
	func() {
		defer func() {
			if r := recover(); r != nil {
				msg := fmt.Sprint(r)
				switch {
				case strings.Contains(msg, "must be increasing"):
					out = "panic not-increasing"
				case strings.Contains(msg, "must > 0"):
					out = "panic negative"
				default:
					out = "panic"
					c.Fail("panic", fmt.Sprintf("op %q panicked: %v", op, r))
				}
			}
		}()
		enc.Add(v)
		out = "ok"
	}()
	c.Op(op, out)
	return out == "ok"
}

func fixedOffsetCase(c *core.Ctx, r *rand.Rand) {
	byteSlice2Uint32Ops(c, r)
	foScanReuse(c, r) // Round 12: access-pattern histories on one decoder object (foscan.go)
	var enc *encoding.FixedOffsetEncoder
	var dec *encoding.FixedOffsetDecoder
	defer func() {
		if dec != nil {
			encoding.ReleaseFixedOffsetDecoder(dec)
		}
	}()
	rounds := 1 + r.Intn(4)
	heldN, heldData := 0, []byte(nil) // the table `dec` holds right now (heldN == 0: none)
	for round := 0; round < rounds; round++ {
		inc := r.Intn(3) > 0
		if enc == nil || r.Intn(3) == 0 {
			c.Branch("fo-encoder-new")
			b := 0
			if inc {
				b = 1
			}
			guard(c, fmt.Sprintf("fe new 0 %d", b), func() string { enc = encoding.NewFixedOffsetEncoder(inc); return "ok" })
		} else {
			c.Branch("fo-encoder-reset")
			guard(c, "fe reset 0", func() string { enc.Reset(); return "ok" })
			inc = true // unknown: ask the model instead of tracking; keep values increasing to stay valid
		}
		n := genLen(r, c.Tier)
		if r.Intn(15) == 0 {
			n = 0
		}
		// magnitude class decides the width: 1..4 bytes, up to 2^32-1
		limit := [...]uint64{200, 255, 256, 65535, 65536, 1<<24 - 1, 1 << 24, 1<<32 - 1}[r.Intn(8)]
		small := r.Intn(3) == 0 // small offsets so that GetBlock can be exercised on a real data block
		if small {
			limit = uint64(40 + r.Intn(300))
		}
		var vals []int
		cur := uint64(0)
		for i := 0; i < n; i++ {
			var v uint64
			if inc {
				step := uint64(0)
				if limit > cur {
					step = (limit - cur) / uint64(n-i)
				}
				if step > 0 {
					v = cur + uint64(r.Int63n(int64(step)+1))
				} else {
					v = cur
				}
				if i == n-1 && r.Intn(3) == 0 {
					v = limit
				}
				cur = v
			} else {
				v = uint64(r.Int63n(int64(limit) + 1))
			}
			vals = append(vals, int(v))
		}
		if r.Intn(4) == 0 && n > 0 {
			c.Branch("fo-from-values")
			parts := make([]string, len(vals))
			for i, v := range vals {
				parts[i] = fmt.Sprint(v)
			}
			guard(c, "fe from 0 "+strings.Join(parts, " "), func() string { enc.FromValues(append([]int(nil), vals...)); return "ok" })
		} else {
			for _, v := range vals {
				if !addOffset(c, enc, v) {
					c.Fail("fo-add-rejected", fmt.Sprintf("Add(%d) rejected although offsets are non-negative and non-decreasing", v))
				}
			}
			// rejected inputs (stated guards): negative, and decreasing when ensureIncreasing
			if r.Intn(5) == 0 {
				c.Branch("fo-add-negative")
				addOffset(c, enc, -1-r.Intn(5))
			}
		}
		guard(c, "fe size 0", func() string { return fmt.Sprint(enc.Size()) })
		guard(c, "fe empty 0", func() string {
			if enc.IsEmpty() != (enc.Size() == 0) {
				c.Fail("fo-is-empty", fmt.Sprintf("IsEmpty() = %v on an encoder of %d offsets", enc.IsEmpty(), enc.Size()))
			}
			return fmt.Sprint(enc.IsEmpty())
		})
		var data []byte
		guard(c, "fe marshal 0", func() string { data = cp(enc.MarshalBinary()); return hx(data) })
		if r.Intn(2) == 0 {
			fixedOffsetWriteFaults(c, r, enc, enc.Size(), data)
		}
		guard(c, "fe msize 0", func() string { return fmt.Sprint(enc.MarshalSize()) })
		if n > 0 && enc.MarshalSize() != len(data) {
			c.Fail("fo-marshal-size", fmt.Sprintf("MarshalSize()=%d but %d bytes written", enc.MarshalSize(), len(data)))
		}
		junk := make([]byte, r.Intn(4))
		r.Read(junk)
		full := append(cp(data), junk...)
		switch k := r.Intn(3); {
		case dec == nil || (k == 0 && !(n == 0 && heldN > 0 && r.Intn(2) == 0)):
			if dec != nil {
				encoding.ReleaseFixedOffsetDecoder(dec)
				c.Op("fd rel 0", "ok")
			}
			heldN, heldData = 0, nil
			if r.Intn(2) == 0 {
				c.Branch("fo-decoder-new")
				guard(c, "fd new 0", func() string { dec = encoding.NewFixedOffsetDecoder(); return "ok" })
			} else {
				c.Branch("fo-decoder-from-pool")
				guard(c, "fd get 0", func() string { dec = encoding.GetFixedOffsetDecoder(); return "ok" })
			}
		default:
			c.Branch("fo-decoder-reused")
			if r.Intn(2) == 0 && !(n == 0 && heldN > 0) {
				c.Branch("fo-decoder-fault-before-reuse")
				bad := make([]byte, r.Intn(8))
				r.Read(bad)
				if len(bad) > 0 {
					bad[0] = byte(r.Intn(7))
				}
				guard(c, "fd unm 0 "+hx(bad), func() string {
					l, err := dec.Unmarshal(bad)
					if err != nil {
						return foErr(err)
					}
					return "ok " + hx(l)
				})
			}
		}
		var left []byte
		var uerr error
		guard(c, "fd unm 0 "+hx(full), func() string {
			left, uerr = dec.Unmarshal(full)
			if uerr != nil {
				return foErr(uerr)
			}
			return "ok " + hx(left)
		})
		guard(c, "fd size 0", func() string { return fmt.Sprint(dec.Size()) })
		guard(c, "fd width 0", func() string { return fmt.Sprint(dec.ValueWidth()) })
		if n == 0 {
			// stated guard: an empty table is written as nothing and is rejected by the decoder
			c.Branch("fo-empty-table")
			if heldN > 0 {
				// Round 9: the EMPTY table on a decoder that holds a table: it must decode to what a fresh decoder
				// makes of the same bytes (no offsets), not to the previous table
				c.Branch("fo-empty-table-on-used-decoder")
				c.NonTrivial()
				emptyOut := "ok"
				if uerr != nil {
					emptyOut = foErr(uerr)
				}
				var fresh *encoding.FixedOffsetDecoder
				guard(c, fmt.Sprintf("fd new %d", freshOff), func() string { fresh = encoding.NewFixedOffsetDecoder(); return "ok" })
				foUnm(c, freshOff, fresh, full)
				foAskBoth(c, r, 0, dec, fresh, heldN, fmt.Sprintf("that held a table of %d offsets and was then given the marshalled EMPTY table (+%d trailing bytes; Unmarshal: %s)", heldN, len(junk), emptyOut), uerr != nil)
				c.Op(fmt.Sprintf("fd rel %d", freshOff), "ok")
			}
			heldN, heldData = 0, nil
			continue
		}
		c.NonTrivial()
		c.Branch(fmt.Sprintf("fo-width-%d", dec.ValueWidth()))
		heldN, heldData = 0, nil
		if uerr == nil {
			heldN, heldData = n, data
		}
		if uerr != nil {
			c.Fail("fo-roundtrip", fmt.Sprintf("Unmarshal of a marshalled table of %d offsets failed: %v", n, uerr))
			continue
		}
		if !bytes.Equal(left, junk) {
			c.Fail("fo-roundtrip", fmt.Sprintf("Unmarshal returned left=%x, want %x", left, junk))
		}
		if dec.Size() != n {
			c.Fail("fo-roundtrip", fmt.Sprintf("Size()=%d, want %d", dec.Size(), n))
		}
		idxs := []int{-1, 0, n - 1, n, n + 1}
		for k := 0; k < 6; k++ {
			idxs = append(idxs, r.Intn(n))
		}
		for _, i := range idxs {
			guard(c, fmt.Sprintf("fd at 0 %d", i), func() string {
				v, ok := dec.Get(i)
				if i >= 0 && i < n {
					if !ok || v != vals[i] {
						c.Fail("fo-roundtrip", fmt.Sprintf("Get(%d)=(%d,%v), want %d", i, v, ok, vals[i]))
					}
				} else if ok {
					c.Fail("fo-get-out-of-range", fmt.Sprintf("Get(%d) ok on a table of %d", i, n))
				}
				return fmt.Sprintf("%d %v", v, ok)
			})
		}
		if small && inc {
			c.Branch("fo-get-block")
			block := make([]byte, int(limit)+r.Intn(5))
			r.Read(block)
			for _, i := range idxs {
				guard(c, fmt.Sprintf("fd blk 0 %d %s", i, hx(block)), func() string {
					b, err := dec.GetBlock(i, block)
					if i >= 0 && i < n {
						hi := len(block)
						if i+1 < n {
							hi = vals[i+1]
						}
						if err != nil || !bytes.Equal(b, block[vals[i]:hi]) {
							c.Fail("fo-get-block", fmt.Sprintf("GetBlock(%d)=(%x,%v), want block[%d:%d]", i, b, err, vals[i], hi))
						}
					}
					if err != nil {
						return blkErr(err)
					}
					return "ok " + hx(b)
				})
			}
		}
		// Round 9: rejected inputs on the decoder that holds this table (rejected.go); it stays in use
		if heldN > 0 && r.Intn(2) == 0 {
			other := []byte{2, 3, byte(r.Intn(256)), 0, byte(r.Intn(256)), 1, byte(r.Intn(256)), 2}
			foRejectedThenAsk(c, r, 0, dec, heldData, heldN, other)
			heldN, heldData = 0, nil
		}
	}
}

func blkErr(err error) string {
	if strings.Contains(err.Error(), "data range") {
		return "err corrupted-range"
	}
	return "err corrupted-index"
}

func foErr(err error) string {
	m := err.Error()
	switch {
	case strings.Contains(m, "length too short"):
		return "err too-short"
	case strings.Contains(m, "ivalid width"):
		return "err bad-width"
	case strings.Contains(m, "invalid uvariant"):
		return "err bad-uvarint"
	case strings.Contains(m, "cannot unmarshal"):
		return "err bad-length"
	}
	return "err other:" + m
}

// ---------------------------------------------------------------- external codecs (oracle only)

func genBitmap(r *rand.Rand) *roaring.Bitmap {
	bm := roaring.New()
	for k := 0; k < r.Intn(5); k++ {
		base := uint32(r.Intn(6)) << 16
		if r.Intn(4) == 0 {
			base = uint32(r.Uint32()) &^ 0xFFFF
		}
		switch r.Intn(3) {
		case 0: // array container
			for j := 0; j < r.Intn(200); j++ {
				bm.Add(base | uint32(r.Intn(65536)))
			}
		case 1: // run
			lo := uint32(r.Intn(60000))
			bm.AddRange(uint64(base|lo), uint64(base|lo)+uint64(r.Intn(5000)))
		default: // dense (bitmap container)
			for j := 0; j < 5000+r.Intn(3000); j++ {
				bm.Add(base | uint32(r.Intn(65536)))
			}
		}
	}
	if r.Intn(3) == 0 {
		bm.RunOptimize()
	}
	return bm
}

func externalCase(c *core.Ctx, r *rand.Rand, caseIdx int) {
	c.NonTrivial()
	// roaring bitmap marshal / unmarshal into a reused target
	target := roaring.New()
	for k := 0; k < 1+r.Intn(4); k++ {
		c.Branch("bitmap-roundtrip")
		bm := genBitmap(r)
		func() {
			defer func() {
				if e := recover(); e != nil {
					c.Fail("panic", fmt.Sprintf("bitmap codec panicked: %v", e))
				}
			}()
			data, err := encoding.BitmapMarshal(bm)
			if err != nil {
				c.Fail("bitmap-roundtrip", "marshal error: "+err.Error())
				return
			}
			tail := make([]byte, r.Intn(3))
			buf := append(cp(data), tail...)
			n, err := encoding.BitmapUnmarshal(target, buf)
			if err != nil {
				c.Fail("bitmap-roundtrip", "unmarshal error: "+err.Error())
				return
			}
			if int(n) != len(data) || !target.Equals(bm) {
				c.Fail("bitmap-roundtrip", fmt.Sprintf("bitmap of %d values: unmarshal read %d of %d bytes, equal=%v", bm.GetCardinality(), n, len(data), target.Equals(bm)))
			}
		}()
		c.Note(fmt.Sprintf("bitmap cardinality=%d", bm.GetCardinality()))
	}
	// the empty bitmap decoded into a target that still holds the previous, non-empty bitmap
	func() {
		defer func() {
			if e := recover(); e != nil {
				c.Fail("panic", fmt.Sprintf("bitmap codec panicked: %v", e))
			}
		}()
		c.Branch("bitmap-empty-into-used-target")
		full := roaring.BitmapOf(1, 2, 70000, 1<<31)
		d0, err := encoding.BitmapMarshal(full)
		if err != nil {
			c.Fail("bitmap-roundtrip", "marshal error: "+err.Error())
			return
		}
		if _, err := encoding.BitmapUnmarshal(target, cp(d0)); err != nil || !target.Equals(full) {
			c.Fail("bitmap-roundtrip", fmt.Sprintf("4-value bitmap into reused target: err=%v equal=%v", err, target.Equals(full)))
		}
		empty := roaring.New()
		d1, err := encoding.BitmapMarshal(empty)
		if err != nil {
			c.Fail("bitmap-roundtrip", "marshal of the empty bitmap: "+err.Error())
			return
		}
		n1, err := encoding.BitmapUnmarshal(target, cp(d1))
		if err != nil || int(n1) != len(d1) || !target.IsEmpty() {
			c.Fail("bitmap-roundtrip", fmt.Sprintf("empty bitmap (%d bytes) decoded into a target holding 4 values: err=%v read=%d, target now has %d values", len(d1), err, n1, target.GetCardinality()))
		}
	}()
	// snappy chunk writer / reader, both reused across chunks. Every chunk is decoded right away
	// AND again after all later chunks were written and decoded (what Bytes() returned for chunk 1
	// must still be chunk 1 after chunk 2 went through the same writer).
	w := compress.NewSnappyWriter()
	rd := compress.NewSnappyReader()
	var prevOut, prevCopy []byte // observation only: Uncompress returns its internal buffer
	type chunk struct{ comp, plain []byte }
	var chunks []chunk
	nChunks := 2 + r.Intn(3)
	// large chunks (replication chunks are bounded by configuration, not by the codec): sizes around
	// 1 MiB. Quick: one chunk of 1 MiB+1 in the first external case; thorough: 1 MiB-1, 1 MiB, 1 MiB+1
	// and 3 MiB+17 in every 7th external case.
	var bigSizes []int
	var bigScratch []byte
	switch {
	case c.Tier == "thorough" && (caseIdx/kinds)%7 == 0:
		bigSizes = []int{1<<20 - 1, 1 << 20, 1<<20 + 1, 3<<20 + 17}
	case caseIdx == 7:
		bigSizes = []int{1<<20 + 1}
	}
	nChunks += len(bigSizes)
	for k := 0; k < nChunks; k++ {
		c.Branch("snappy-roundtrip")
		var plain []byte
		func() {
			defer func() {
				if e := recover(); e != nil {
					c.Fail("panic", fmt.Sprintf("snappy codec panicked: %v", e))
				}
			}()
			rows := 1 + r.Intn(5)
			if k >= 1 && k-1 < len(bigSizes) {
				// one big chunk, written as rows of at most 64 KiB, half of them compressible
				c.Branch("snappy-chunk-around-1MiB")
				left := bigSizes[k-1]
				for left > 0 {
					m := 1 + r.Intn(65536)
					if m > left {
						m = left
					}
					// rows of a big chunk come from ONE reused 64 KiB scratch buffer that is poisoned as soon as
					// Write has returned (a size-dependent zero-copy path would keep seeing the caller's writes)
					if bigScratch == nil {
						bigScratch = make([]byte, 65536)
					}
					row := bigScratch[:m]
					if r.Intn(2) == 0 {
						r.Read(row)
					} else {
						for i := range row {
							row[i] = byte(i % 251)
						}
					}
					if _, err := w.Write(row); err != nil {
						c.Fail("snappy-roundtrip", "write error: "+err.Error())
					}
					plain = append(plain, row...)
					for i := range row {
						row[i] = 0xEE
					}
					left -= m
				}
				rows = 0
			}
			for j := 0; j < rows; j++ {
				row := make([]byte, 1+r.Intn(3000))
				if r.Intn(2) == 0 {
					r.Read(row)
				} else {
					for i := range row {
						row[i] = byte(i % (1 + r.Intn(7)))
					}
				}
				if _, err := w.Write(row); err != nil {
					c.Fail("snappy-roundtrip", "write error: "+err.Error())
				}
				plain = append(plain, row...)
			}
			if err := w.Close(); err != nil {
				c.Fail("snappy-roundtrip", "close error: "+err.Error())
			}
			comp := w.Bytes()
			chunks = append(chunks, chunk{comp: comp, plain: plain}) // comp is kept as returned, NOT copied
			out, err := rd.Uncompress(comp)
			if err != nil {
				c.Fail("snappy-roundtrip", "uncompress error: "+err.Error())
				return
			}
			if len(out) != len(plain) {
				c.Fail("snappy-roundtrip-length", fmt.Sprintf("chunk %d: %d plain bytes written, Uncompress returned %d bytes with err == nil", k, len(plain), len(out)))
			} else if !bytes.Equal(out, plain) {
				c.Fail("snappy-roundtrip", fmt.Sprintf("chunk %d: %d plain bytes differ after the round trip", k, len(plain)))
			}
			if len(prevCopy) > 0 && !bytes.Equal(prevOut, prevCopy) {
				// not a loss at the time of the call (callers consume the block before the next
				// Uncompress); recorded so the evidence shows how often the aliasing is visible
				c.Branch("snappy-previous-result-overwritten-by-next-uncompress")
			}
			prevOut, prevCopy = out, cp(out)
		}()
		c.Note(fmt.Sprintf("snappy plain=%d", len(plain)))
	}
	for k, ch := range chunks {
		c.Branch("snappy-chunk-decoded-after-later-chunks")
		func() {
			defer func() {
				if e := recover(); e != nil {
					c.Fail("panic", fmt.Sprintf("snappy codec panicked: %v", e))
				}
			}()
			out, err := compress.NewSnappyReader().Uncompress(ch.comp)
			if err != nil || !bytes.Equal(out, ch.plain) {
				c.Fail("snappy-chunk-changed-by-later-chunk", fmt.Sprintf("chunk %d of %d (same writer): Bytes() result no longer decodes to what was written after later chunks were written (err=%v, %d plain bytes, %d decoded)", k, len(chunks), err, len(ch.plain), len(out)))
			}
		}()
	}
	snappyReaderFaultThenReuse(c, r)
	// something for the model side as well, so the case is not empty in the diffed streams
	opUv(c, genEdgeU64(r))
}

// ---------------------------------------------------------------- malformed decoder inputs (correspondence only)

func malformedCase(c *core.Ctx, r *rand.Rand) {
	c.NonTrivial()
	// a valid TSD block, truncated or corrupted
	n := 1 + r.Intn(30)
	enc := encoding.NewTSDEncoder(uint16(r.Intn(100)))
	prev := r.Uint64()
	mask := genMask(r, n)
	for _, on := range mask {
		if on {
			enc.AppendTime(bit.One)
			prev = genU64(r, prev)
			enc.AppendValue(prev)
		} else {
			enc.AppendTime(bit.Zero)
		}
	}
	data, _ := enc.Bytes()
	data = cp(data)
	switch r.Intn(3) {
	case 0:
		c.Branch("malformed-tsd-truncated")
		data = data[:r.Intn(len(data)+1)]
	case 1:
		c.Branch("malformed-tsd-bitflip")
		if len(data) > 4 {
			data[4+r.Intn(len(data)-4)] ^= byte(1 << uint(r.Intn(8)))
		}
	default:
		c.Branch("malformed-tsd-garbage")
		data = make([]byte, r.Intn(40))
		r.Read(data)
		if len(data) >= 4 { // keep the slot range small so the loops below stay short
			data[1], data[3] = 0, 0
		}
	}
	var dec *encoding.TSDDecoder
	guard(c, "td new 0 "+hx(data), func() string { dec = encoding.NewTSDDecoder(data); return "ok" })
	if dec != nil {
		guard(c, "td se 0", func() string { return fmt.Sprintf("%d %d", dec.StartTime(), dec.EndTime()) })
		lo, hi := int(dec.StartTime()), int(dec.EndTime())
		for s := lo; s <= hi && s < lo+300; s++ {
			guard(c, fmt.Sprintf("td gv 0 %d", s), func() string {
				f, ok := dec.GetValue(uint16(s))
				if !ok {
					return "false"
				}
				return fmt.Sprintf("true %d", math.Float64bits(f))
			})
		}
		guard(c, "td err 0", func() string { return fmt.Sprintf("%v", dec.Error() != nil) })
		// reuse after a failed / short Reset
		short := make([]byte, r.Intn(5))
		guard(c, "td reset 0 "+hx(short), func() string { dec.Reset(short); return "ok" })
		guard(c, "td err 0", func() string { return fmt.Sprintf("%v", dec.Error() != nil) })
	}
	// XOR decoder on arbitrary bytes
	c.Branch("malformed-xor")
	raw := make([]byte, r.Intn(30))
	r.Read(raw)
	xd := encoding.NewXORDecoder(bit.NewReader(bufioutil.NewBuffer(raw)))
	c.Op("xd new 0 "+hx(raw), "ok")
	for k := 0; k < 12; k++ {
		guard(c, "xd next 0", func() string { ok := xd.Next(); return fmt.Sprintf("%v %d", ok, xd.Value()) })
	}
	// delta decoder on arbitrary / truncated bytes
	c.Branch("malformed-delta")
	de := encoding.NewDeltaBitPackingEncoder()
	p := int32(r.Uint32())
	for k := 0; k < 1+r.Intn(10); k++ {
		p = genI32(r, p)
		de.Add(p)
	}
	db := cp(de.Bytes())
	if r.Intn(2) == 0 {
		db = db[:r.Intn(len(db)+1)]
	} else {
		db = make([]byte, r.Intn(20))
		r.Read(db)
	}
	var dd *encoding.DeltaBitPackingDecoder
	guard(c, "dd new 0 "+hx(db), func() string { dd = encoding.NewDeltaBitPackingDecoder(db); return "ok" })
	if dd != nil {
		for k := 0; k < 14; k++ {
			has := false
			guard(c, "dd hasnext 0", func() string { has = dd.HasNext(); return fmt.Sprintf("%v", has) })
			if !has {
				break
			}
			guard(c, "dd next 0", func() string { return fmt.Sprintf("%d", dd.Next()) })
		}
	}
	// fixed offset decoder on arbitrary / truncated bytes
	c.Branch("malformed-fixed-offset")
	fe := encoding.NewFixedOffsetEncoder(false)
	for k := 0; k < r.Intn(10); k++ {
		fe.Add(r.Intn(1 << uint(1+r.Intn(31))))
	}
	fb := cp(fe.MarshalBinary())
	switch r.Intn(3) {
	case 0:
		fb = fb[:r.Intn(len(fb)+1)]
	case 1:
		fb = make([]byte, r.Intn(16))
		r.Read(fb)
		if len(fb) > 0 && r.Intn(2) == 0 {
			fb[0] = byte(r.Intn(6))
		}
	}
	fd := encoding.NewFixedOffsetDecoder()
	c.Op("fd new 0", "ok")
	for pass := 0; pass < 2; pass++ {
		guard(c, "fd unm 0 "+hx(fb), func() string {
			left, err := fd.Unmarshal(fb)
			if err != nil {
				return foErr(err)
			}
			return "ok " + hx(left)
		})
		guard(c, "fd size 0", func() string { return fmt.Sprint(fd.Size()) })
		guard(c, "fd width 0", func() string { return fmt.Sprint(fd.ValueWidth()) })
		for _, i := range []int{-1, 0, 1, 2, 7} {
			guard(c, fmt.Sprintf("fd at 0 %d", i), func() string { v, ok := fd.Get(i); return fmt.Sprintf("%d %v", v, ok) })
		}
		blk := make([]byte, r.Intn(12))
		r.Read(blk)
		bi := r.Intn(3)
		guard(c, fmt.Sprintf("fd blk 0 %d %s", bi, hx(blk)), func() string {
			b, err := fd.GetBlock(bi, blk)
			if err != nil {
				return blkErr(err)
			}
			return "ok " + hx(b)
		})
		fb = make([]byte, r.Intn(6)) // second pass: reuse the decoder on something else
		r.Read(fb)
	}
}

// ---------------------------------------------------------------- pkg/stream + TSD stream

func sErr(err error) string {
	switch {
	case err == nil:
		return "nil"
	case errors.Is(err, io.EOF):
		return "eof"
	case errors.Is(err, stream.ErrUnexpectedRead):
		return "unexpected"
	case strings.Contains(err.Error(), "overflows"):
		return "overflow"
	}
	return "other:" + err.Error()
}

func srState(rd *stream.Reader) string {
	return fmt.Sprintf("%d %v %s", rd.Position(), rd.Empty(), sErr(rd.Error()))
}

type putOp struct {
	kind string
	u    uint64
	i    int64
	b    []byte
}

func streamCase(c *core.Ctx, r *rand.Rand) {
	c.NonTrivial()
	streamExtCase(c, r)
	// --- writer, then the same shapes read back
	w := stream.NewBufferWriter(nil)
	c.Op("sw new 0", "-")
	out := func() string { b, _ := w.Bytes(); return hx(b) }
	var puts []putOp
	for k := 0; k < 4+r.Intn(14); k++ {
		switch r.Intn(8) {
		case 0:
			b := r.Intn(256)
			guard(c, fmt.Sprintf("sw byte 0 %d", b), func() string { w.PutByte(byte(b)); return out() })
			puts = append(puts, putOp{kind: "byte", u: uint64(b)})
		case 1:
			b := make([]byte, r.Intn(6))
			r.Read(b)
			guard(c, "sw bytes 0 "+hx(b), func() string { w.PutBytes(b); return out() })
			puts = append(puts, putOp{kind: "bytes", b: b})
		case 2:
			v := uint16(genEdgeU64(r))
			guard(c, fmt.Sprintf("sw u16 0 %d", v), func() string { w.PutUInt16(v); return out() })
			puts = append(puts, putOp{kind: "u16", u: uint64(v)})
		case 3:
			v := uint32(genEdgeU64(r))
			guard(c, fmt.Sprintf("sw u32 0 %d", v), func() string { w.PutUint32(v); return out() })
			puts = append(puts, putOp{kind: "u32", u: uint64(v)})
		case 4:
			v := genEdgeU64(r)
			guard(c, fmt.Sprintf("sw u64 0 %d", v), func() string { w.PutUint64(v); return out() })
			puts = append(puts, putOp{kind: "u64", u: v})
		case 5:
			v := genEdgeU64(r)
			guard(c, fmt.Sprintf("sw uv 0 %d", v), func() string { w.PutUvarint64(v); return out() })
			puts = append(puts, putOp{kind: "uv64", u: v})
		case 6:
			v := int64(genEdgeU64(r))
			guard(c, fmt.Sprintf("sw sv 0 %d", v), func() string { w.PutVarint64(v); return out() })
			puts = append(puts, putOp{kind: "sv64", i: v})
		default:
			v := int32(genEdgeU64(r))
			guard(c, fmt.Sprintf("sw sv 0 %d", v), func() string { w.PutVarint32(v); return out() })
			puts = append(puts, putOp{kind: "sv32", i: int64(v)})
		}
	}
	data, _ := w.Bytes()
	data = cp(data)
	{
		// BufferWriter.Bytes() is a view: what it showed stays unchanged when more is written
		view, _ := w.Bytes()
		for k := 0; k < 1+r.Intn(6); k++ {
			v := genEdgeU64(r)
			guard(c, fmt.Sprintf("sw uv 0 %d", v), func() string { w.PutUvarint64(v); return out() })
		}
		if !bytes.Equal(view, data) {
			c.Fail("bytes-result-changed-by-later-writes", fmt.Sprintf("stream.BufferWriter: the slice returned by Bytes() changed while more was written: %x -> %x", data, view))
		}
	}
	rd := stream.NewReader(data)
	c.Op("sr new 0 "+hx(data), "ok")
	for i, p := range puts {
		bad := func(got interface{}) {
			c.Fail("stream-roundtrip", fmt.Sprintf("put %d (%s): wrote %d/%d/%x, read %v err=%v", i, p.kind, p.u, p.i, p.b, got, rd.Error()))
		}
		switch p.kind {
		case "byte":
			guard(c, "sr byte 0", func() string {
				v := rd.ReadByte()
				if uint64(v) != p.u || rd.Error() != nil {
					bad(v)
				}
				return fmt.Sprintf("%d %s", v, srState(rd))
			})
		case "bytes":
			op := "slice"
			if r.Intn(2) == 0 {
				op = "bytes"
			}
			guard(c, fmt.Sprintf("sr %s 0 %d", op, len(p.b)), func() string {
				var v []byte
				if op == "slice" {
					v = rd.ReadSlice(len(p.b))
				} else {
					v = rd.ReadBytes(len(p.b))
				}
				if !bytes.Equal(v, p.b) || rd.Error() != nil {
					bad(v)
				}
				return fmt.Sprintf("%s %s", hx(v), srState(rd))
			})
		case "u16":
			guard(c, "sr u16 0", func() string {
				v := rd.ReadUint16()
				if uint64(v) != p.u || rd.Error() != nil {
					bad(v)
				}
				return fmt.Sprintf("%d %s", v, srState(rd))
			})
		case "u32":
			guard(c, "sr u32 0", func() string {
				v := rd.ReadUint32()
				if uint64(v) != p.u || rd.Error() != nil {
					bad(v)
				}
				return fmt.Sprintf("%d %s", v, srState(rd))
			})
		case "u64":
			guard(c, "sr u64 0", func() string {
				v := rd.ReadUint64()
				if v != p.u || rd.Error() != nil {
					bad(v)
				}
				return fmt.Sprintf("%d %s", v, srState(rd))
			})
		case "uv64":
			guard(c, "sr uv64 0", func() string {
				v := rd.ReadUvarint64()
				if v != p.u || rd.Error() != nil {
					bad(v)
				}
				return fmt.Sprintf("%d %s", v, srState(rd))
			})
		case "sv64":
			guard(c, "sr sv64 0", func() string {
				v := rd.ReadVarint64()
				if v != p.i || rd.Error() != nil {
					bad(v)
				}
				return fmt.Sprintf("%d %s", v, srState(rd))
			})
		case "sv32":
			guard(c, "sr sv32 0", func() string {
				v := rd.ReadVarint32()
				if int64(v) != p.i || rd.Error() != nil {
					bad(v)
				}
				return fmt.Sprintf("%d %s", v, srState(rd))
			})
		}
	}
	if !rd.Empty() {
		c.Fail("stream-roundtrip", "bytes left after reading back every put")
	}
	// --- free-form reads, error branches included (correspondence only)
	raw := make([]byte, r.Intn(24))
	for i := range raw {
		if r.Intn(3) == 0 {
			raw[i] = byte(0x80 | r.Intn(128))
		} else {
			raw[i] = byte(r.Intn(256))
		}
	}
	rd2 := stream.NewReader(raw)
	c.Op("sr new 1 "+hx(raw), "ok")
	for k := 0; k < 8+r.Intn(12); k++ {
		// impl-side statement of stream_reader_free_form_history: whatever errors the reads run into, Position() stays
		// inside the buffer, a forward read never moves back, and a read that hands out bytes hands out exactly
		// raw[position before : position after] (nothing skipped, repeated or reordered)
		posBefore := rd2.Position()
		forward, handsOut := true, false
		var handed []byte
		switch r.Intn(14) {
		case 0:
			guard(c, "sr byte 1", func() string { v := rd2.ReadByte(); return fmt.Sprintf("%d %s", v, srState(rd2)) })
		case 1:
			guard(c, "sr u16 1", func() string { v := rd2.ReadUint16(); return fmt.Sprintf("%d %s", v, srState(rd2)) })
		case 2:
			guard(c, "sr u32 1", func() string { v := rd2.ReadUint32(); return fmt.Sprintf("%d %s", v, srState(rd2)) })
		case 3:
			guard(c, "sr u64 1", func() string { v := rd2.ReadUint64(); return fmt.Sprintf("%d %s", v, srState(rd2)) })
		case 4:
			guard(c, "sr uv64 1", func() string { v := rd2.ReadUvarint64(); return fmt.Sprintf("%d %s", v, srState(rd2)) })
		case 5:
			guard(c, "sr uv32 1", func() string { v := rd2.ReadUvarint32(); return fmt.Sprintf("%d %s", v, srState(rd2)) })
		case 6:
			guard(c, "sr sv64 1", func() string { v := rd2.ReadVarint64(); return fmt.Sprintf("%d %s", v, srState(rd2)) })
		case 7:
			guard(c, "sr sv32 1", func() string { v := rd2.ReadVarint32(); return fmt.Sprintf("%d %s", v, srState(rd2)) })
		case 8:
			n := r.Intn(8) - 1
			c.Branch("stream-read-bytes")
			handsOut = true
			guard(c, fmt.Sprintf("sr bytes 1 %d", n), func() string { v := rd2.ReadBytes(n); handed = v; return fmt.Sprintf("%s %s", hx(v), srState(rd2)) })
		case 9:
			n := r.Intn(8) - 1
			c.Branch("stream-read-slice")
			handsOut = true
			guard(c, fmt.Sprintf("sr slice 1 %d", n), func() string { v := rd2.ReadSlice(n); handed = v; return fmt.Sprintf("%s %s", hx(v), srState(rd2)) })
		case 10:
			n := r.Intn(len(raw)+4) - 1
			c.Branch("stream-read-at")
			forward = false
			guard(c, fmt.Sprintf("sr at 1 %d", n), func() string { rd2.ReadAt(n); return fmt.Sprintf("- %s", srState(rd2)) })
		case 11:
			ch := r.Intn(256)
			if len(raw) > 0 && r.Intn(2) == 0 {
				ch = int(raw[r.Intn(len(raw))])
			}
			c.Branch("stream-read-until")
			handsOut = true
			guard(c, fmt.Sprintf("sr until 1 %d", ch), func() string { v := rd2.ReadUntil(byte(ch)); handed = v; return fmt.Sprintf("%s %s", hx(v), srState(rd2)) })
		case 12:
			guard(c, "sr unread 1", func() string { v := rd2.UnreadSlice(); return fmt.Sprintf("%s %s", hx(v), srState(rd2)) })
		default:
			c.Branch("stream-reader-reset")
			forward = false
			guard(c, "sr reset 1 "+hx(raw), func() string { rd2.Reset(raw); return fmt.Sprintf("- %s", srState(rd2)) })
		}
		posAfter := rd2.Position()
		switch {
		case posAfter < 0 || posAfter > len(raw):
			c.Fail("stream-reader-skips-or-repeats", fmt.Sprintf("free-form read #%d: Position()=%d outside the buffer of %d bytes", k+1, posAfter, len(raw)))
		case forward && posAfter < posBefore:
			c.Fail("stream-reader-skips-or-repeats", fmt.Sprintf("free-form read #%d: a forward read moved the position back from %d to %d", k+1, posBefore, posAfter))
		case forward && handsOut && !bytes.Equal(handed, raw[posBefore:posAfter]):
			c.Fail("stream-reader-skips-or-repeats", fmt.Sprintf("free-form read #%d (error state %s): handed out %x but consumed raw[%d:%d]=%x", k+1, sErr(rd2.Error()), handed, posBefore, posAfter, raw[posBefore:posAfter]))
		}
		if rd2.Error() != nil {
			c.Branch("stream-free-form-read-with-error-pending")
		}
	}
	// Round 9: the reader, in whatever state the free-form reads left it, is Reset on an empty / short / other
	// buffer and must answer like a new reader on the same bytes (rejected.go)
	srRearmThenAsk(c, r, 1, rd2, raw)
	// --- TSD stream: several fields over one slot range, read back through the pooled field decoder;
	// two readers in a row, so the second one is handed the decoder the first one released
	n := 1 + r.Intn(20)
	start := r.Intn(3000)
	for round := 0; round < 2; round++ {
		c.Branch("tsd-stream-roundtrip")
		nf := 1 + r.Intn(4)
		type fld struct {
			id int
			b  *tsdBlock
		}
		var flds []fld
		sw := encoding.NewTSDStreamWriter(uint16(start), uint16(start+n-1))
		c.Op(fmt.Sprintf("tsw new 0 %d %d", start, start+n-1), "ok")
		for f := 0; f < nf; f++ {
			b := &tsdBlock{start: start, mask: genMask(r, n), vals: make([]uint64, n)}
			prev := r.Uint64()
			enc := encoding.GetTSDEncoder(uint16(start))
			if f > 0 && r.Intn(3) == 0 {
				// a field without any data point: nothing is appended, BytesWithoutTime() is empty
				c.Branch("tsd-stream-empty-field")
				b.mask = make([]bool, n)
			} else {
				for i := range b.vals {
					b.vals[i] = genU64(r, prev)
					prev = b.vals[i]
					if b.mask[i] {
						enc.AppendTime(bit.One)
						enc.AppendValue(b.vals[i])
					} else {
						enc.AppendTime(bit.Zero)
					}
				}
			}
			d, _ := enc.BytesWithoutTime()
			b.data = cp(d)
			if b.data == nil {
				b.data = []byte{}
			}
			encoding.ReleaseTSDEncoder(enc)
			id := r.Intn(65536)
			flds = append(flds, fld{id, b})
			guard(c, fmt.Sprintf("tsw field 0 %d %s", id, hx(b.data)), func() string { sw.WriteField(uint16(id), b.data); return "ok" })
		}
		var sdata []byte
		guard(c, "tsw bytes 0", func() string { d, _ := sw.Bytes(); sdata = cp(d); return hx(sdata) })
		var sr encoding.TSDStreamReader
		guard(c, "tsr new 0 "+hx(sdata)+" 5", func() string {
			sr = encoding.NewTSDStreamReader(sdata)
			s0, e0 := sr.TimeRange()
			if int(s0) != start || int(e0) != start+n-1 {
				c.Fail("tsd-stream-roundtrip", fmt.Sprintf("time range [%d,%d] read back as [%d,%d]", start, start+n-1, s0, e0))
			}
			return fmt.Sprintf("%d %d", s0, e0)
		})
		if sr == nil {
			return
		}
		for f := 0; f <= nf; f++ {
			more := false
			guard(c, "tsr hasnext 0", func() string { more = sr.HasNext(); return fmt.Sprintf("%v", more) })
			if more != (f < nf) {
				c.Fail("tsd-stream-roundtrip", fmt.Sprintf("HasNext()=%v before field %d of %d", more, f, nf))
			}
			if !more || f == nf {
				break
			}
			var dec *encoding.TSDDecoder
			guard(c, "tsr next 0", func() string {
				id, d := sr.Next()
				dec = d
				if int(id) != flds[f].id {
					c.Fail("tsd-stream-roundtrip", fmt.Sprintf("field %d: id %d read back as %d", f, flds[f].id, id))
				}
				return fmt.Sprintf("%d", id)
			})
			if dec == nil {
				break
			}
			got := map[int]uint64{}
			last := start + n - 1
			if f+1 < nf && len(flds[f+1].b.data) == 0 {
				// the predecessor of an empty field is only half read
				c.Branch("tsd-stream-half-read-before-empty-field")
				last = start + r.Intn(n) - 1
			}
			if len(flds[f].b.data) == 0 && r.Intn(2) == 0 {
				// the empty field, sequentially (Next / HasValue / Slot / Value)
				for i := 0; i <= n; i++ {
					more := false
					guard(c, "td next 5", func() string { more = dec.Next(); return fmt.Sprintf("%v", more) })
					if !more {
						break
					}
					has := false
					guard(c, "td hv 5", func() string { has = dec.HasValue(); return fmt.Sprintf("%v", has) })
					if has {
						slot := 0
						guard(c, "td slot 5", func() string { slot = int(dec.Slot()); return fmt.Sprintf("%d", slot) })
						guard(c, "td val 5", func() string { v := dec.Value(); got[slot] = v; return fmt.Sprintf("%d", v) })
					}
				}
			} else {
				for s := start; s <= last; s++ {
					guard(c, fmt.Sprintf("td gv 5 %d", s), func() string {
						fv, ok := dec.GetValue(uint16(s))
						if !ok {
							return "false"
						}
						got[s] = math.Float64bits(fv)
						return fmt.Sprintf("true %d", math.Float64bits(fv))
					})
				}
			}
			if last == start+n-1 {
				checkAgainst(c, "tsd-stream field", flds[f].b, got)
			} else {
				for s := start; s <= last; s++ {
					want, on := flds[f].b.at(s)
					v, ok := got[s]
					if on != ok || (on && v != want) {
						c.Fail("tsd-roundtrip", fmt.Sprintf("tsd-stream field (half read): slot %d: encoded (%v,%016x) decoded (%v,%016x)", s, on, want, ok, v))
						break
					}
				}
			}
		}
		guard(c, "tsr close 0", func() string { sr.Close(); return "ok" })
	}
}

// ---------------------------------------------------------------- pool aliasing

// poolAliasCase: after arbitrary use+release histories, SEVERAL objects are taken from each of
// lindb's pools without a release in between. No two of them may be the same object
// (`pool-double-put`), and their interleaved use on different data must give exact round trips.
// The region runs on one P with the collector off, so that what sync.Pool hands back is a function
// of the Put/Get sequence of this case alone (per-P private slot, then the P's shared list).
func poolAliasCase(c *core.Ctx, r *rand.Rand) {
	c.NonTrivial()
	runtime.LockOSThread()
	prevProcs := runtime.GOMAXPROCS(1)
	prevGC := debug.SetGCPercent(-1)
	defer func() {
		debug.SetGCPercent(prevGC)
		runtime.GOMAXPROCS(prevProcs)
		runtime.UnlockOSThread()
	}()
	mkBlock := func(start, n int) *tsdBlock {
		b := &tsdBlock{start: start, mask: genMask(r, n), vals: make([]uint64, n), noTime: true}
		b.mask[0] = true
		prev := r.Uint64()
		for i := range b.vals {
			b.vals[i] = genU64(r, prev) | 1 // never the zero pattern: a decoder that "finds nothing" is visible
			prev = b.vals[i]
		}
		return b
	}
	gv := func(h int, dec *encoding.TSDDecoder, s int, got map[int]uint64) {
		guard(c, fmt.Sprintf("td gv %d %d", h, s), func() string {
			f, ok := dec.GetValue(uint16(s))
			if !ok {
				return "false"
			}
			got[s] = math.Float64bits(f)
			return fmt.Sprintf("true %d", math.Float64bits(f))
		})
	}

	// ---- TSD stream readers (decoder pool behind NewTSDStreamReader / Close)
	n := 2 + r.Intn(10)
	start := r.Intn(3000)
	mkStream := func(h int) ([]byte, []*tsdBlock, []int) {
		nf := 1 + r.Intn(3)
		sw := encoding.NewTSDStreamWriter(uint16(start), uint16(start+n-1))
		c.Op(fmt.Sprintf("tsw new %d %d %d", h, start, start+n-1), "ok")
		var blocks []*tsdBlock
		var ids []int
		for f := 0; f < nf; f++ {
			b := mkBlock(start, n)
			enc := encoding.NewTSDEncoder(uint16(start))
			for i, on := range b.mask {
				if on {
					enc.AppendTime(bit.One)
					enc.AppendValue(b.vals[i])
				} else {
					enc.AppendTime(bit.Zero)
				}
			}
			d, _ := enc.BytesWithoutTime()
			b.data = cp(d)
			id := r.Intn(65536)
			guard(c, fmt.Sprintf("tsw field %d %d %s", h, id, hx(b.data)), func() string { sw.WriteField(uint16(id), b.data); return "ok" })
			blocks = append(blocks, b)
			ids = append(ids, id)
		}
		var data []byte
		guard(c, fmt.Sprintf("tsw bytes %d", h), func() string { d, _ := sw.Bytes(); data = cp(d); return hx(data) })
		return data, blocks, ids
	}
	// history: 1-3 readers opened, (partly) drained and closed one after the other
	for k := 0; k < 1+r.Intn(3); k++ {
		c.Branch("pool-history-stream-reader-drained-and-closed")
		data, _, _ := mkStream(0)
		var sr encoding.TSDStreamReader
		guard(c, "tsr new 0 "+hx(data)+" 5", func() string {
			sr = encoding.NewTSDStreamReader(data)
			s0, e0 := sr.TimeRange()
			return fmt.Sprintf("%d %d", s0, e0)
		})
		drain := r.Intn(4) > 0
		for {
			more := false
			guard(c, "tsr hasnext 0", func() string { more = sr.HasNext(); return fmt.Sprintf("%v", more) })
			if !more {
				break
			}
			guard(c, "tsr next 0", func() string { id, _ := sr.Next(); return fmt.Sprintf("%d", id) })
			if !drain {
				break
			}
		}
		guard(c, "tsr close 0", func() string { sr.Close(); return "ok" })
	}
	// now several readers are open at the same time
	nOpen := 2 + r.Intn(2)
	type openReader struct {
		sr     encoding.TSDStreamReader
		blocks []*tsdBlock
		ids    []int
		dec    *encoding.TSDDecoder
	}
	var open []*openReader
	for h := 0; h < nOpen; h++ {
		data, blocks, ids := mkStream(h)
		o := &openReader{blocks: blocks, ids: ids}
		guard(c, fmt.Sprintf("tsr new %d %s %d", h, hx(data), 5+h), func() string {
			o.sr = encoding.NewTSDStreamReader(data)
			s0, e0 := o.sr.TimeRange()
			return fmt.Sprintf("%d %d", s0, e0)
		})
		open = append(open, o)
	}
	// first field of every reader, THEN the reads (use overlaps)
	for h, o := range open {
		guard(c, fmt.Sprintf("tsr hasnext %d", h), func() string { return fmt.Sprintf("%v", o.sr.HasNext()) })
		guard(c, fmt.Sprintf("tsr next %d", h), func() string {
			id, d := o.sr.Next()
			o.dec = d
			if int(id) != o.ids[0] {
				c.Fail("tsd-stream-roundtrip", fmt.Sprintf("reader %d: field id %d read back as %d", h, o.ids[0], id))
			}
			return fmt.Sprintf("%d", id)
		})
	}
	for a := 0; a < len(open); a++ {
		for b := a + 1; b < len(open); b++ {
			if open[a].dec != nil && open[a].dec == open[b].dec {
				c.Fail("pool-double-put", fmt.Sprintf("TSD decoder pool: stream readers %d and %d, both open, were handed the SAME *TSDDecoder (an earlier drained+closed reader put it into the pool twice)", a, b))
			}
		}
	}
	for h, o := range open {
		got := map[int]uint64{}
		for s := start; s <= start+n-1; s++ {
			gv(5+h, o.dec, s, got)
		}
		checkAgainst(c, fmt.Sprintf("overlapping stream reader %d", h), o.blocks[0], got)
	}
	for h, o := range open {
		guard(c, fmt.Sprintf("tsr close %d", h), func() string { o.sr.Close(); return "ok" })
	}

	// ---- TSD decoders taken directly
	for k := 0; k < 1+r.Intn(3); k++ {
		c.Branch("pool-history-decoder-used-and-released")
		var d *encoding.TSDDecoder
		guard(c, "td get 0", func() string { d = encoding.GetTSDDecoder(); return "ok" })
		if r.Intn(2) == 0 {
			poisonDecoderH(c, r, d, 0)
		} else {
			b := mkBlock(r.Intn(100), 1+r.Intn(5))
			eb := encoding.NewTSDEncoder(uint16(b.start))
			for i, on := range b.mask {
				if on {
					eb.AppendTime(bit.One)
					eb.AppendValue(b.vals[i])
				} else {
					eb.AppendTime(bit.Zero)
				}
			}
			bd, _ := eb.BytesWithoutTime()
			bd = cp(bd)
			guard(c, fmt.Sprintf("td rtr 0 %s %d %d", hx(bd), b.start, b.end()), func() string {
				d.ResetWithTimeRange(bd, uint16(b.start), uint16(b.end()))
				return "ok"
			})
			gv(0, d, b.start, map[int]uint64{})
		}
		encoding.ReleaseTSDDecoder(d)
		c.Op("td rel 0", "ok")
	}
	nDec := 2 + r.Intn(2)
	decs := make([]*encoding.TSDDecoder, nDec)
	dblocks := make([]*tsdBlock, nDec)
	for h := 0; h < nDec; h++ {
		guard(c, fmt.Sprintf("td get %d", h), func() string { decs[h] = encoding.GetTSDDecoder(); return "ok" })
	}
	for a := 0; a < nDec; a++ {
		for b := a + 1; b < nDec; b++ {
			if decs[a] == decs[b] {
				c.Fail("pool-double-put", fmt.Sprintf("TSD decoder pool: GetTSDDecoder returned the same object for holders %d and %d without a release in between", a, b))
			}
		}
	}
	for h := 0; h < nDec; h++ {
		b := mkBlock(r.Intn(3000), 2+r.Intn(8))
		eb := encoding.NewTSDEncoder(uint16(b.start))
		for i, on := range b.mask {
			if on {
				eb.AppendTime(bit.One)
				eb.AppendValue(b.vals[i])
			} else {
				eb.AppendTime(bit.Zero)
			}
		}
		bd, _ := eb.BytesWithoutTime()
		b.data = cp(bd)
		dblocks[h] = b
		guard(c, fmt.Sprintf("td rtr %d %s %d %d", h, hx(b.data), b.start, b.end()), func() string {
			decs[h].ResetWithTimeRange(b.data, uint16(b.start), uint16(b.end()))
			return "ok"
		})
	}
	gots := make([]map[int]uint64, nDec)
	for h := range gots {
		gots[h] = map[int]uint64{}
	}
	for step := 0; step < 12; step++ { // round-robin over the holders, slot by slot
		for h := 0; h < nDec; h++ {
			s := dblocks[h].start + step
			if s <= dblocks[h].end() {
				gv(h, decs[h], s, gots[h])
			}
		}
	}
	for h := 0; h < nDec; h++ {
		checkAgainst(c, fmt.Sprintf("interleaved decoder %d", h), dblocks[h], gots[h])
		encoding.ReleaseTSDDecoder(decs[h])
		c.Op(fmt.Sprintf("td rel %d", h), "ok")
	}

	// ---- TSD encoders
	for k := 0; k < 1+r.Intn(3); k++ {
		c.Branch("pool-history-encoder-used-and-released")
		var e *encoding.TSDEncoder
		st := r.Intn(100)
		guard(c, fmt.Sprintf("te get 0 %d", st), func() string { e = encoding.GetTSDEncoder(uint16(st)); return "ok" })
		for j := 0; j < r.Intn(4); j++ {
			guard(c, "te time 0 1", func() string { e.AppendTime(bit.One); return "ok" })
			v := r.Uint64()
			guard(c, fmt.Sprintf("te val 0 %d", v), func() string { e.AppendValue(v); return "ok" })
		}
		encoding.ReleaseTSDEncoder(e)
		c.Op("te rel 0", "ok")
	}
	nEnc := 2 + r.Intn(2)
	encs := make([]*encoding.TSDEncoder, nEnc)
	eblocks := make([]*tsdBlock, nEnc)
	for h := 0; h < nEnc; h++ {
		eblocks[h] = mkBlock(r.Intn(3000), 2+r.Intn(8))
		eblocks[h].noTime = false
		guard(c, fmt.Sprintf("te get %d %d", h, eblocks[h].start), func() string { encs[h] = encoding.GetTSDEncoder(uint16(eblocks[h].start)); return "ok" })
	}
	for a := 0; a < nEnc; a++ {
		for b := a + 1; b < nEnc; b++ {
			if encs[a] == encs[b] {
				c.Fail("pool-double-put", fmt.Sprintf("TSD encoder pool: GetTSDEncoder returned the same object for holders %d and %d without a release in between", a, b))
			}
		}
	}
	for step := 0; step < 10; step++ {
		for h := 0; h < nEnc; h++ {
			b := eblocks[h]
			if step >= len(b.mask) {
				continue
			}
			if b.mask[step] {
				guard(c, fmt.Sprintf("te time %d 1", h), func() string { encs[h].AppendTime(bit.One); return "ok" })
				v := b.vals[step]
				guard(c, fmt.Sprintf("te val %d %d", h, v), func() string { encs[h].AppendValue(v); return "ok" })
			} else {
				guard(c, fmt.Sprintf("te time %d 0", h), func() string { encs[h].AppendTime(bit.Zero); return "ok" })
			}
		}
	}
	for h := 0; h < nEnc; h++ {
		b := eblocks[h]
		guard(c, fmt.Sprintf("te bytes %d", h), func() string {
			d, err := encs[h].Bytes()
			if err != nil || d == nil {
				return "nil"
			}
			b.data = cp(d)
			return hx(d)
		})
		if b.data == nil {
			c.Fail("tsd-bytes-missing", "interleaved encoder returned no bytes")
			continue
		}
		dec := encoding.NewTSDDecoder(b.data)
		c.Op(fmt.Sprintf("td new 9 %s", hx(b.data)), "ok")
		got := map[int]uint64{}
		if int(dec.StartTime()) != b.start || int(dec.EndTime()) != b.end() {
			c.Fail("tsd-time-range", fmt.Sprintf("interleaved encoder %d: block [%d,%d] decodes as [%d,%d]", h, b.start, b.end(), dec.StartTime(), dec.EndTime()))
		}
		for s := b.start; s <= b.end(); s++ {
			gv(9, dec, s, got)
		}
		checkAgainst(c, fmt.Sprintf("interleaved encoder %d", h), b, got)
	}
	for h := 0; h < nEnc; h++ {
		encoding.ReleaseTSDEncoder(encs[h])
		c.Op(fmt.Sprintf("te rel %d", h), "ok")
	}

	// ---- fixed-offset decoders
	mkTable := func() ([]int, []byte) {
		fe := encoding.NewFixedOffsetEncoder(true)
		var vals []int
		cur := 0
		for k := 0; k < 1+r.Intn(6); k++ {
			cur += r.Intn(1 << uint(1+r.Intn(20)))
			vals = append(vals, cur)
			fe.Add(cur)
		}
		return vals, cp(fe.MarshalBinary())
	}
	for k := 0; k < 1+r.Intn(3); k++ {
		c.Branch("pool-history-fixed-offset-decoder-used-and-released")
		var d *encoding.FixedOffsetDecoder
		guard(c, "fd get 0", func() string { d = encoding.GetFixedOffsetDecoder(); return "ok" })
		_, tb := mkTable()
		guard(c, "fd unm 0 "+hx(tb), func() string {
			l, err := d.Unmarshal(tb)
			if err != nil {
				return foErr(err)
			}
			return "ok " + hx(l)
		})
		encoding.ReleaseFixedOffsetDecoder(d)
		c.Op("fd rel 0", "ok")
	}
	nFd := 2 + r.Intn(2)
	fds := make([]*encoding.FixedOffsetDecoder, nFd)
	tvals := make([][]int, nFd)
	for h := 0; h < nFd; h++ {
		guard(c, fmt.Sprintf("fd get %d", h), func() string { fds[h] = encoding.GetFixedOffsetDecoder(); return "ok" })
	}
	for a := 0; a < nFd; a++ {
		for b := a + 1; b < nFd; b++ {
			if fds[a] == fds[b] {
				c.Fail("pool-double-put", fmt.Sprintf("fixed-offset decoder pool: GetFixedOffsetDecoder returned the same object for holders %d and %d without a release in between", a, b))
			}
		}
	}
	for h := 0; h < nFd; h++ {
		vals, tb := mkTable()
		tvals[h] = vals
		guard(c, fmt.Sprintf("fd unm %d %s", h, hx(tb)), func() string {
			l, err := fds[h].Unmarshal(tb)
			if err != nil {
				return foErr(err)
			}
			return "ok " + hx(l)
		})
	}
	for h := 0; h < nFd; h++ { // reads after ALL unmarshals
		for i, want := range tvals[h] {
			guard(c, fmt.Sprintf("fd at %d %d", h, i), func() string {
				v, ok := fds[h].Get(i)
				if !ok || v != want {
					c.Fail("fo-roundtrip", fmt.Sprintf("interleaved fixed-offset decoder %d: Get(%d)=(%d,%v), want %d", h, i, v, ok, want))
				}
				return fmt.Sprintf("%d %v", v, ok)
			})
		}
	}
	for h := 0; h < nFd; h++ {
		encoding.ReleaseFixedOffsetDecoder(fds[h])
		c.Op(fmt.Sprintf("fd rel %d", h), "ok")
	}
}

// poisonDecoderH: poisonDecoder for an arbitrary handle.
func poisonDecoderH(c *core.Ctx, r *rand.Rand, dec *encoding.TSDDecoder, h int) {
	data := poisonBytes(r)
	guard(c, fmt.Sprintf("td reset %d %s", h, hx(data)), func() string { dec.Reset(data); return "ok" })
	for s := 0; s <= 1; s++ {
		guard(c, fmt.Sprintf("td gv %d %d", h, s), func() string {
			f, ok := dec.GetValue(uint16(s))
			if !ok {
				return "false"
			}
			return fmt.Sprintf("true %d", math.Float64bits(f))
		})
	}
}
