package c14

// Round 9 — a REJECTED or EMPTY input on a reused decoder.
//
// The empty offset list is written as zero bytes and FixedOffsetDecoder.Unmarshal rejects fewer than two bytes, so
// "decode the empty list" is an error return; lindb's dataScanner calls Unmarshal(nil) to EMPTY its long-lived
// decoder and readSeriesData ignores Unmarshal's error on a pooled one and goes on calling GetBlock. Losslessness
// under reuse ("every reuse history") therefore includes: whatever the object held, after a rejected or empty input
// it answers exactly as a fresh object given that input would — never from its previous input
// (Lean: unmarshal_rejected_leaves_fresh, fixedoffset_history_irrelevant, rearm_on_any_input_eq_fresh).
//
// The oracle is differential on the IMPLEMENTATION: the reused object (handle h) and a brand-new object (handle
// h+freshOff) receive the same input and are asked the same questions; any difference fails with the key
// decoder-answers-from-previous-input. Both objects' answers also go to the model (correspondence).

import (
	"fmt"
	"math"
	"math/rand"
	"strings"

	"github.com/lindb/lindb/pkg/encoding"
	"github.com/lindb/lindb/pkg/stream"

	"github.com/lindb/lindb/zzverif/internal/core"
)

const (
	keyStale = "decoder-answers-from-previous-input"
	freshOff = 40 // model handle of the fresh twin = handle of the reused object + freshOff
)

// foRejectedInput builds an input FixedOffsetDecoder.Unmarshal must reject; prev is the marshalled table the decoder
// holds (no trailing junk), other a marshalled table of other values (may be empty).
func foRejectedInput(r *rand.Rand, prev, other []byte) (string, []byte) {
	for {
		switch r.Intn(10) {
		case 0:
			return "nil (what dataScanner passes to empty its decoder)", nil
		case 1:
			return "zero bytes (the marshalled EMPTY table)", []byte{}
		case 2:
			return "one byte", []byte{byte(r.Intn(5))}
		case 3: // the table it already holds, cut inside the value cells / the header
			if len(prev) >= 3 {
				return "its own table cut short", cp(prev[:2+r.Intn(len(prev)-2)])
			}
		case 4:
			if len(other) >= 3 {
				return "another table cut short", cp(other[:2+r.Intn(len(other)-2)])
			}
		case 5: // width byte above 4
			if len(prev) >= 2 {
				b := cp(prev)
				b[0] = byte(5 + r.Intn(251))
				return "its own table with a width byte above 4", b
			}
		case 6: // unterminated uvarint
			return "a size uvarint that never ends", []byte{byte(1 + r.Intn(4)), 0x80, 0x80, 0x80}
		case 7: // announced size far beyond the buffer
			return "a size far beyond the buffer", []byte{byte(1 + r.Intn(4)), 0xff, 0xff, 0xff, 0x0f, 1, 2, 3}
		case 8: // width*size overflows int64 → negative wantLen
			return "a size whose byte count overflows", []byte{4, 0xff, 0xff, 0xff, 0xff, 0xff, 0xff, 0xff, 0xff, 0x7f, 9, 9}
		default: // same header, one value cell missing
			if len(prev) >= 3 {
				return "its own table without the last byte", cp(prev[:len(prev)-1])
			}
		}
	}
}

func foUnm(c *core.Ctx, h int, d *encoding.FixedOffsetDecoder, in []byte) (out string) {
	return guard(c, fmt.Sprintf("fd unm %d %s", h, hx(in)), func() string {
		l, err := d.Unmarshal(in)
		if err != nil {
			return foErr(err)
		}
		return "ok " + hx(l)
	})
}

// foAskBoth asks the reused decoder (handle h) and its fresh twin the same questions and compares the answers.
// what describes the history for the failure text; rejected says whether the input was rejected (then, in addition,
// no Get may succeed and no GetBlock may return a block: the offsets block is empty — theorem part 2-4).
func foAskBoth(c *core.Ctx, r *rand.Rand, h int, dec, fresh *encoding.FixedOffsetDecoder, prevN int, what string, rejected bool) {
	fh := h + freshOff
	cmp := func(q, a, b string) {
		if a != b {
			c.Fail(keyStale, fmt.Sprintf("FixedOffsetDecoder %s: %s = %s, a fresh decoder given the same input answers %s", what, q, a, b))
		}
	}
	a := guard(c, fmt.Sprintf("fd size %d", h), func() string { return fmt.Sprint(dec.Size()) })
	b := guard(c, fmt.Sprintf("fd size %d", fh), func() string { return fmt.Sprint(fresh.Size()) })
	cmp("Size()", a, b)
	if rejected && strings.Contains(what, "err too-short") && a != "0" {
		// absolute form (theorem: fewer than two bytes leave THE fresh decoder): does not rely on the twin
		c.Fail(keyStale, fmt.Sprintf("FixedOffsetDecoder %s: Size() = %s after an input of fewer than two bytes", what, a))
	}
	a = guard(c, fmt.Sprintf("fd width %d", h), func() string { return fmt.Sprint(dec.ValueWidth()) })
	b = guard(c, fmt.Sprintf("fd width %d", fh), func() string { return fmt.Sprint(fresh.ValueWidth()) })
	cmp("ValueWidth()", a, b)
	idxs := []int{0, 1, -1, prevN - 1, prevN}
	if prevN > 0 {
		idxs = append(idxs, r.Intn(prevN), r.Intn(prevN))
	}
	block := make([]byte, 8+r.Intn(40))
	r.Read(block)
	for _, i := range idxs {
		i := i
		okA := false
		a = guard(c, fmt.Sprintf("fd at %d %d", h, i), func() string { v, ok := dec.Get(i); okA = ok; return fmt.Sprintf("%d %v", v, ok) })
		b = guard(c, fmt.Sprintf("fd at %d %d", fh, i), func() string { v, ok := fresh.Get(i); return fmt.Sprintf("%d %v", v, ok) })
		cmp(fmt.Sprintf("Get(%d)", i), a, b)
		if rejected && okA {
			c.Fail(keyStale, fmt.Sprintf("FixedOffsetDecoder %s: Get(%d) resolves (%s) although the last Unmarshal was rejected", what, i, a))
		}
		errA := false
		a = guard(c, fmt.Sprintf("fd blk %d %d %s", h, i, hx(block)), func() string {
			bl, err := dec.GetBlock(i, block)
			if err != nil {
				errA = true
				return blkErr(err)
			}
			return "ok " + hx(bl)
		})
		b = guard(c, fmt.Sprintf("fd blk %d %d %s", fh, i, hx(block)), func() string {
			bl, err := fresh.GetBlock(i, block)
			if err != nil {
				return blkErr(err)
			}
			return "ok " + hx(bl)
		})
		cmp(fmt.Sprintf("GetBlock(%d, %d bytes)", i, len(block)), a, b)
		if rejected && !errA {
			c.Fail(keyStale, fmt.Sprintf("FixedOffsetDecoder %s: GetBlock(%d) returned a block (%s) although the last Unmarshal was rejected", what, i, a))
		}
	}
}

// foRejectedThenAsk: dec (model handle h) holds the table prev (prevN offsets). It is given 1-3 rejected inputs
// (errors ignored, as readSeriesData / dataScanner do); after each, it must answer like a fresh decoder given the
// same input. The decoder stays in use afterwards (the caller re-arms it with the next valid table).
func foRejectedThenAsk(c *core.Ctx, r *rand.Rand, h int, dec *encoding.FixedOffsetDecoder, prev []byte, prevN int, other []byte) {
	for k := 0; k < 1+r.Intn(3); k++ {
		kind, in := foRejectedInput(r, prev, other)
		c.Branch("fo-rejected-then-ask")
		out := foUnm(c, h, dec, in)
		var fresh *encoding.FixedOffsetDecoder
		guard(c, fmt.Sprintf("fd new %d", h+freshOff), func() string { fresh = encoding.NewFixedOffsetDecoder(); return "ok" })
		outF := foUnm(c, h+freshOff, fresh, in)
		what := fmt.Sprintf("that held a table of %d offsets and was then given %s (%d bytes, Unmarshal: %s)", prevN, kind, len(in), out)
		if out != outF {
			c.Fail(keyStale, fmt.Sprintf("FixedOffsetDecoder %s: a fresh decoder's Unmarshal answers %s", what, outF))
		}
		rejected := len(out) >= 3 && out[:3] == "err"
		if rejected {
			c.Branch("fo-rejected-" + out[4:])
		} else {
			c.Branch("fo-rejected-input-was-accepted")
		}
		foAskBoth(c, r, h, dec, fresh, prevN, what, rejected)
		c.Op(fmt.Sprintf("fd rel %d", h+freshOff), "ok")
	}
}

// deltaRearmThenAsk: the delta decoder has no rejection — Reset(buf) ignores the read errors of its header — so
// the statement is: after Reset on ANY bytes (empty, cut, garbage) a used decoder yields exactly the sequence a
// NewDeltaBitPackingDecoder on the same bytes yields. At most `limit` values are drawn.
func deltaRearmThenAsk(c *core.Ctx, r *rand.Rand, h int, dec *encoding.DeltaBitPackingDecoder, valid []byte, prevN int) {
	var in []byte
	var kind string
	switch r.Intn(5) {
	case 0:
		kind, in = "nil", nil
	case 1:
		kind, in = "zero bytes", []byte{}
	case 2:
		kind, in = "its own buffer cut short", cp(valid[:r.Intn(len(valid)+1)])
	case 3:
		in = make([]byte, 1+r.Intn(12))
		r.Read(in)
		in[0] &= 0x3f // keep the announced count small
		kind = "random bytes"
	default:
		if len(valid) > 0 {
			kind, in = "one byte of its own buffer", cp(valid[:1])
		} else {
			kind, in = "nil", nil
		}
	}
	c.Branch("delta-rearm-then-ask")
	fh := h + freshOff
	guard(c, fmt.Sprintf("dd reset %d %s", h, hx(in)), func() string { dec.Reset(in); return "ok" })
	var fresh *encoding.DeltaBitPackingDecoder
	guard(c, fmt.Sprintf("dd new %d %s", fh, hx(in)), func() string { fresh = encoding.NewDeltaBitPackingDecoder(in); return "ok" })
	const limit = 24
	for k := 0; k < limit; k++ {
		var ha, hb bool
		guard(c, fmt.Sprintf("dd hasnext %d", h), func() string { ha = dec.HasNext(); return fmt.Sprintf("%v", ha) })
		guard(c, fmt.Sprintf("dd hasnext %d", fh), func() string { hb = fresh.HasNext(); return fmt.Sprintf("%v", hb) })
		if ha != hb {
			c.Fail(keyStale, fmt.Sprintf("DeltaBitPackingDecoder that decoded %d values and was then Reset on %s (%d bytes): HasNext() #%d = %v, a new decoder on the same bytes answers %v", prevN, kind, len(in), k+1, ha, hb))
			break
		}
		if !ha {
			break
		}
		var va, vb int32
		guard(c, fmt.Sprintf("dd next %d", h), func() string { va = dec.Next(); return fmt.Sprintf("%d", va) })
		guard(c, fmt.Sprintf("dd next %d", fh), func() string { vb = fresh.Next(); return fmt.Sprintf("%d", vb) })
		if va != vb {
			c.Fail(keyStale, fmt.Sprintf("DeltaBitPackingDecoder that decoded %d values and was then Reset on %s (%d bytes): Next() #%d = %d, a new decoder on the same bytes answers %d", prevN, kind, len(in), k+1, va, vb))
			break
		}
	}
}

// tsdRearmThenAsk: dec (model handle h) was armed with a block and (partly) read. It is re-armed with an input that
// holds no complete block — zero bytes, a cut block, a lone header — through ResetWithTimeRange (no guard in the
// code) or through Reset with more than 4 bytes; a zero decoder gets the same call; all slot-addressed or
// sequential answers and Error() must agree. Reset with at most 4 bytes is the one re-arming that KEEPS the previous
// block (tsd_reset_short_keeps_state): it must report the rejection through Error() — that is all that protects a
// caller (series.BinaryPrimitiveIterator.HasNext refuses to iterate when Error() != nil).
func tsdRearmThenAsk(c *core.Ctx, r *rand.Rand, h int, dec *encoding.TSDDecoder, blockBytes []byte, hasHeader bool, start, end int) {
	fh := h + freshOff
	errS := func(d *encoding.TSDDecoder) string { return fmt.Sprintf("%v", d.Error() != nil) }
	if r.Intn(4) == 0 {
		// rejected Reset: at most 4 bytes
		short := cp(blockBytes[:minInt(len(blockBytes), r.Intn(5))])
		c.Branch("tsd-rejected-reset")
		guard(c, fmt.Sprintf("td reset %d %s", h, hx(short)), func() string { dec.Reset(short); return "ok" })
		if guard(c, fmt.Sprintf("td err %d", h), func() string { return errS(dec) }) != "true" {
			c.Fail(keyStale, fmt.Sprintf("TSDDecoder holding a block was given %d bytes through Reset (rejected: it keeps the previous block) and Error() is nil: nothing tells the caller that the following reads come from the previous block", len(short)))
		}
		return
	}
	var in []byte
	var kind string
	withHeader := hasHeader && r.Intn(2) == 0 && len(blockBytes) > 5
	body := blockBytes
	if hasHeader && len(blockBytes) >= 4 {
		body = blockBytes[4:]
	}
	switch {
	case withHeader:
		kind, in = "its own block cut short", cp(blockBytes[:5+r.Intn(len(blockBytes)-5)])
	case r.Intn(3) == 0:
		kind, in = "zero bytes", nil
	case len(body) > 0:
		kind, in = "its own values cut short", cp(body[:r.Intn(len(body))])
	default:
		kind, in = "zero bytes", nil
	}
	c.Branch("tsd-rearm-then-ask")
	var fresh *encoding.TSDDecoder
	guard(c, fmt.Sprintf("td get %d", fh), func() string { fresh = &encoding.TSDDecoder{}; return "ok" })
	if withHeader {
		guard(c, fmt.Sprintf("td reset %d %s", h, hx(in)), func() string { dec.Reset(in); return "ok" })
		guard(c, fmt.Sprintf("td reset %d %s", fh, hx(in)), func() string { fresh.Reset(in); return "ok" })
	} else {
		guard(c, fmt.Sprintf("td rtr %d %s %d %d", h, hx(in), start, end), func() string { dec.ResetWithTimeRange(in, uint16(start), uint16(end)); return "ok" })
		guard(c, fmt.Sprintf("td rtr %d %s %d %d", fh, hx(in), start, end), func() string {
			fresh.ResetWithTimeRange(in, uint16(start), uint16(end))
			return "ok"
		})
	}
	what := fmt.Sprintf("TSDDecoder that read a block of slots %d..%d and was then re-armed on %s (%d bytes)", start, end, kind, len(in))
	cmp := func(q, a, b string) bool {
		if a != b {
			c.Fail(keyStale, fmt.Sprintf("%s: %s = %s, a decoder that never held a block answers %s", what, q, a, b))
			return false
		}
		return true
	}
	a := guard(c, fmt.Sprintf("td err %d", h), func() string { return errS(dec) })
	b := guard(c, fmt.Sprintf("td err %d", fh), func() string { return errS(fresh) })
	cmp("Error()!=nil right after the re-arm", a, b)
	a = guard(c, fmt.Sprintf("td se %d", h), func() string { return fmt.Sprintf("%d %d", dec.StartTime(), dec.EndTime()) })
	b = guard(c, fmt.Sprintf("td se %d", fh), func() string { return fmt.Sprintf("%d %d", fresh.StartTime(), fresh.EndTime()) })
	cmp("StartTime/EndTime", a, b)
	lo, hi := int(dec.StartTime()), int(dec.EndTime())
	if hi-lo > 48 {
		hi = lo + 48
	}
	if r.Intn(2) == 0 {
		for s := lo; s <= hi && s <= 65535; s++ {
			s := s
			q := func(d *encoding.TSDDecoder) string {
				v, ok := d.GetValue(uint16(s))
				if !ok {
					return "false"
				}
				return fmt.Sprintf("true %d", math.Float64bits(v))
			}
			a = guard(c, fmt.Sprintf("td gv %d %d", h, s), func() string { return q(dec) })
			b = guard(c, fmt.Sprintf("td gv %d %d", fh, s), func() string { return q(fresh) })
			if !cmp(fmt.Sprintf("GetValue(%d)", s), a, b) {
				break
			}
		}
	} else {
		for k := 0; k <= hi-lo+1; k++ {
			a = guard(c, fmt.Sprintf("td next %d", h), func() string { return fmt.Sprintf("%v", dec.Next()) })
			b = guard(c, fmt.Sprintf("td next %d", fh), func() string { return fmt.Sprintf("%v", fresh.Next()) })
			if !cmp(fmt.Sprintf("Next() #%d", k+1), a, b) || a != "true" {
				break
			}
			a = guard(c, fmt.Sprintf("td hv %d", h), func() string { return fmt.Sprintf("%v", dec.HasValue()) })
			b = guard(c, fmt.Sprintf("td hv %d", fh), func() string { return fmt.Sprintf("%v", fresh.HasValue()) })
			if !cmp(fmt.Sprintf("HasValue() at step %d", k+1), a, b) {
				break
			}
			if a == "true" {
				a = guard(c, fmt.Sprintf("td val %d", h), func() string { return fmt.Sprintf("%d", dec.Value()) })
				b = guard(c, fmt.Sprintf("td val %d", fh), func() string { return fmt.Sprintf("%d", fresh.Value()) })
				if !cmp(fmt.Sprintf("Value() at step %d", k+1), a, b) {
					break
				}
			}
		}
	}
	a = guard(c, fmt.Sprintf("td err %d", h), func() string { return errS(dec) })
	b = guard(c, fmt.Sprintf("td err %d", fh), func() string { return errS(fresh) })
	cmp("Error()!=nil after the reads", a, b)
	c.Op(fmt.Sprintf("td rel %d", fh), "ok")
}

// srRearmThenAsk: a stream.Reader in ANY state (mid-buffer, after EOF, after a negative-length read) is Reset on an
// empty / short / other buffer; a NewReader on the same bytes gets the same free-form reads; answers and the
// (position, empty, error) triple after every read must agree.
func srRearmThenAsk(c *core.Ctx, r *rand.Rand, h int, rd *stream.Reader, old []byte) {
	var in []byte
	var kind string
	switch r.Intn(4) {
	case 0:
		kind, in = "nil", nil
	case 1:
		kind, in = "one byte", []byte{byte(r.Intn(256))}
	case 2:
		kind, in = "a prefix of its old buffer", cp(old[:r.Intn(len(old)+1)])
	default:
		in = make([]byte, r.Intn(12))
		r.Read(in)
		kind = "other bytes"
	}
	c.Branch("stream-reader-rearm-then-ask")
	fh := h + freshOff
	before := srState(rd)
	guard(c, fmt.Sprintf("sr reset %d %s", h, hx(in)), func() string { rd.Reset(in); return "- " + srState(rd) })
	var fresh *stream.Reader
	guard(c, fmt.Sprintf("sr new %d %s", fh, hx(in)), func() string { fresh = stream.NewReader(in); return "ok" })
	what := fmt.Sprintf("stream.Reader in state (%s) that was Reset on %s (%d bytes)", before, kind, len(in))
	for k := 0; k < 6; k++ {
		var op string
		var f func(x *stream.Reader) string
		switch r.Intn(8) {
		case 0:
			op, f = "byte", func(x *stream.Reader) string { return fmt.Sprint(x.ReadByte()) }
		case 1:
			op, f = "u16", func(x *stream.Reader) string { return fmt.Sprint(x.ReadUint16()) }
		case 2:
			op, f = "uv64", func(x *stream.Reader) string { return fmt.Sprint(x.ReadUvarint64()) }
		case 3:
			op, f = "sv64", func(x *stream.Reader) string { return fmt.Sprint(x.ReadVarint64()) }
		case 4:
			n := r.Intn(6) - 1
			op, f = fmt.Sprintf("slice %d", n), func(x *stream.Reader) string { return hx(x.ReadSlice(n)) }
		case 5:
			n := r.Intn(6) - 1
			op, f = fmt.Sprintf("bytes %d", n), func(x *stream.Reader) string { return hx(x.ReadBytes(n)) }
		case 6:
			op, f = "unread", func(x *stream.Reader) string { return hx(x.UnreadSlice()) }
		default:
			op, f = "u32", func(x *stream.Reader) string { return fmt.Sprint(x.ReadUint32()) }
		}
		parts := splitOp(op)
		a := guard(c, fmt.Sprintf("sr %s %d%s", parts[0], h, parts[1]), func() string { return f(rd) + " " + srState(rd) })
		b := guard(c, fmt.Sprintf("sr %s %d%s", parts[0], fh, parts[1]), func() string { return f(fresh) + " " + srState(fresh) })
		if a != b {
			c.Fail(keyStale, fmt.Sprintf("%s: read #%d (%s) = %s, a new reader on the same bytes answers %s", what, k+1, op, a, b))
			break
		}
	}
}

// splitOp splits "slice 3" into ("slice", " 3") and "byte" into ("byte", "").
func splitOp(op string) [2]string {
	for i := 0; i < len(op); i++ {
		if op[i] == ' ' {
			return [2]string{op[:i], op[i:]}
		}
	}
	return [2]string{op, ""}
}
