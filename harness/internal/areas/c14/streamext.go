package c14

// The rest of pkg/stream (signed fixed-width puts/reads, Len, SwitchBuffer, SliceWriter, SeekStart) and the
// exported helpers DecodeTSDTime / ByteSlice2Uint32. Mirrors lean/LinVerif/Model/StreamExt.lean.

import (
	"bytes"
	"encoding/binary"
	"fmt"
	"math/rand"

	"github.com/lindb/lindb/pkg/encoding"
	"github.com/lindb/lindb/pkg/stream"

	"github.com/lindb/lindb/zzverif/internal/core"
)

func streamExtCase(c *core.Ctx, r *rand.Rand) {
	// --- signed fixed-width fields (+ Len), read back twice: the second time after SeekStart
	c.Branch("stream-signed-fixed")
	w := stream.NewBufferWriter(nil)
	c.Op("sw new 2", "-")
	out := func() string { b, _ := w.Bytes(); return hx(b) }
	type sput struct {
		k int
		v int64
	}
	var puts []sput
	for k := 0; k < 3+r.Intn(8); k++ {
		e := int64(genEdgeU64(r))
		switch kind := r.Intn(3); kind {
		case 0:
			v := int16(e)
			if r.Intn(4) == 0 {
				v = []int16{-32768, 32767, -1, 0}[r.Intn(4)]
			}
			guard(c, fmt.Sprintf("sw i16 2 %d", v), func() string { w.PutInt16(v); return out() })
			puts = append(puts, sput{0, int64(v)})
		case 1:
			v := int32(e)
			if r.Intn(4) == 0 {
				v = []int32{-2147483648, 2147483647, -1, 0}[r.Intn(4)]
			}
			guard(c, fmt.Sprintf("sw i32 2 %d", v), func() string { w.PutInt32(v); return out() })
			puts = append(puts, sput{1, int64(v)})
		default:
			v := e
			if r.Intn(4) == 0 {
				v = []int64{-9223372036854775808, 9223372036854775807, -1, 0}[r.Intn(4)]
			}
			guard(c, fmt.Sprintf("sw i64 2 %d", v), func() string { w.PutInt64(v); return out() })
			puts = append(puts, sput{2, v})
		}
		if r.Intn(3) == 0 {
			guard(c, "sw len 2", func() string {
				b, _ := w.Bytes()
				if w.Len() != len(b) {
					c.Fail("stream-roundtrip", fmt.Sprintf("Len()=%d but Bytes() has %d bytes", w.Len(), len(b)))
				}
				return fmt.Sprint(w.Len())
			})
		}
	}
	view, _ := w.Bytes()
	data := cp(view)
	rd := stream.NewReader(data)
	c.Op("sr new 2 "+hx(data), "ok")
	for pass := 0; pass < 2; pass++ {
		for i, p := range puts {
			var op string
			var read func() int64
			switch p.k {
			case 0:
				op, read = "sr i16 2", func() int64 { return int64(rd.ReadInt16()) }
			case 1:
				op, read = "sr i32 2", func() int64 { return int64(rd.ReadInt32()) }
			default:
				op, read = "sr i64 2", func() int64 { return rd.ReadInt64() }
			}
			guard(c, op, func() string {
				v := read()
				if v != p.v || rd.Error() != nil {
					c.Fail("stream-roundtrip", fmt.Sprintf("signed put %d (pass %d, width %d): wrote %d, read %d err=%v", i, pass, 2<<uint(p.k), p.v, v, rd.Error()))
				}
				return fmt.Sprintf("%d %s", v, srState(rd))
			})
		}
		if pass == 0 {
			if r.Intn(2) == 0 {
				// run into the end first: SeekStart must also clear the pending error
				c.Branch("stream-seekstart-after-eof")
				guard(c, "sr u64 2", func() string { v := rd.ReadUint64(); return fmt.Sprintf("%d %s", v, srState(rd)) })
			}
			guard(c, "sr seek 2", func() string {
				rd.SeekStart()
				if rd.Position() != 0 || rd.Error() != nil {
					c.Fail("stream-roundtrip", fmt.Sprintf("SeekStart(): position %d err=%v", rd.Position(), rd.Error()))
				}
				return "- " + srState(rd)
			})
		}
	}
	// --- SwitchBuffer: later puts go to the new buffer (which may already hold bytes); what the old one held stays
	{
		c.Branch("stream-switch-buffer")
		var nb bytes.Buffer
		pre := genRow(r, r.Intn(4))
		nb.Write(pre)
		guard(c, "sw switch 2 "+hx(pre), func() string { w.SwitchBuffer(&nb); return out() })
		v := genEdgeU64(r)
		guard(c, fmt.Sprintf("sw uv 2 %d", v), func() string { w.PutUvarint64(v); return out() })
		var tmp [10]byte
		want := append(cp(pre), tmp[:putUvarint(tmp[:], v)]...)
		if !bytes.Equal(nb.Bytes(), want) {
			c.Fail("stream-roundtrip", fmt.Sprintf("SwitchBuffer: new buffer holds %x, want %x", nb.Bytes(), want))
		}
		if !bytes.Equal(view, data) {
			c.Fail("bytes-result-changed-by-later-writes", fmt.Sprintf("SwitchBuffer: the old buffer changed after the switch: %x -> %x", data, view))
		}
	}
	// --- SliceWriter over the caller's array (len = cap = m)
	{
		c.Branch("stream-slice-writer")
		m := r.Intn(24)
		init := genRow(r, m)
		buffer := make([]byte, m)
		copy(buffer, init)
		sl := stream.NewSliceWriter(buffer)
		c.Op(fmt.Sprintf("sw newslice 3 %d", m), "-")
		outS := func() string { b, _ := sl.Bytes(); return hx(b) }
		var want []byte
		for k := 0; k < 1+r.Intn(6); k++ {
			switch r.Intn(4) {
			case 0:
				b := r.Intn(256)
				guard(c, fmt.Sprintf("sw byte 3 %d", b), func() string { sl.PutByte(byte(b)); return outS() })
				want = append(want, byte(b))
			case 1:
				bs := genRow(r, r.Intn(10))
				guard(c, "sw bytes 3 "+hx(bs), func() string { sl.PutBytes(bs); return outS() })
				want = append(want, bs...)
			case 2:
				v := r.Uint32()
				guard(c, fmt.Sprintf("sw u32 3 %d", v), func() string { sl.PutUint32(v); return outS() })
				want = binary.LittleEndian.AppendUint32(want, v)
			default:
				v := genEdgeU64(r)
				guard(c, fmt.Sprintf("sw uv 3 %d", v), func() string { sl.PutUvarint64(v); return outS() })
				var tmp [10]byte
				want = append(want, tmp[:putUvarint(tmp[:], v)]...)
			}
			over := len(want) > m
			guard(c, "sw err 3", func() string {
				failed := sl.Error() != nil
				if failed != over {
					c.Fail("slicewriter-error", fmt.Sprintf("SliceWriter over %d bytes after %d bytes written: Error()=%v", m, len(want), sl.Error()))
				}
				return fmt.Sprintf("%v", failed)
			})
			if got, _ := sl.Bytes(); !bytes.Equal(got, want) {
				c.Fail("stream-roundtrip", fmt.Sprintf("SliceWriter.Bytes()=%x, want %x", got, want))
			}
			if over {
				c.Branch("stream-slice-writer-overflow")
				break
			}
			guard(c, "sw backing 3 "+hx(init), func() string {
				if !bytes.Equal(buffer[:len(want)], want) || !bytes.Equal(buffer[len(want):], init[len(want):]) {
					c.Fail("slicewriter-backing", fmt.Sprintf("SliceWriter over the caller's %d-byte array: after %d bytes without error the array holds %x, want %x followed by the old tail", m, len(want), buffer, want))
				}
				return hx(buffer)
			})
		}
	}
}

// byteSlice2Uint32Ops: ByteSlice2Uint32 on width-byte little-endian cells (oracle) and on arbitrary slices
func byteSlice2Uint32Ops(c *core.Ctx, r *rand.Rand) {
	for k := 0; k < 3; k++ {
		w := 1 + r.Intn(4)
		v := uint32(r.Uint64() & (1<<uint(8*w) - 1))
		if r.Intn(3) == 0 {
			v = uint32(uint64(1)<<uint(8*w) - 1)
		}
		le := make([]byte, 4)
		binary.LittleEndian.PutUint32(le, v)
		cell := le[:w]
		exact := true
		if r.Intn(4) == 0 {
			cell = make([]byte, r.Intn(7))
			r.Read(cell)
			exact = false
		}
		guard(c, "b2u "+hx(cell), func() string {
			got := encoding.ByteSlice2Uint32(cell)
			if exact && got != v {
				c.Fail("fo-roundtrip", fmt.Sprintf("ByteSlice2Uint32(%x)=%d, want %d", cell, got, v))
			}
			return fmt.Sprint(got)
		})
	}
}
