package c01

import (
	"bytes"
	"context"
	"encoding/binary"
	"fmt"
	"math/rand"
	"os"
	"os/exec"
	"path/filepath"
	"strings"
	"time"

	"github.com/lindb/lindb/pkg/bufioutil"

	"github.com/lindb/lindb/zzverif/internal/core"
)

// Round 12: the WRITE side of the manifest's file layer. A sequence of Write / Flush / Sync / Close on the REAL
// bufioEntryWriter (real 256 KB bufio.Writer, real file); after every operation the file is read from disk —
// that is what a killed process leaves behind — and the op line reports `onDisk/buffered` sizes (buffered =
// writer.Size() - onDisk). The model (Model/C01Writer.lean, buffer size = regenerated defaultWriteBufferSize)
// answers the same line. After a Sync the on-disk file is also read back with the real entry reader (child
// process, as in the entries op).
//
// Impl-side oracle (the property on the implementation's observations):
//   - file-not-prefix-of-written: at every point the on-disk file is a prefix of the framed records handed over
//   - synced-bytes-not-in-file: after Flush / Sync / Close the on-disk file holds ALL of them
//   - synced-records-not-read-back: after a Sync the entry reader returns exactly the records written so far
func bwOps(rng *rand.Rand, shape int) []string {
	var ops []string
	w := func(n int) {
		if n < 0 {
			n = 0
		}
		ops = append(ops, fmt.Sprintf("w%d", n))
	}
	switch shape {
	case 0: // what persistEditLogs does: small records, Sync after some of them, plain writes between
		n := 8 + rng.Intn(10)
		syncs := 0
		for k := 0; k < n; k++ {
			w(1 + rng.Intn(400))
			switch {
			case syncs < 5 && rng.Intn(2) == 0:
				ops = append(ops, "s")
				syncs++
			case rng.Intn(4) == 0:
				ops = append(ops, "f")
			}
		}
	case 1: // unsynced records pile up until bufio flushes by itself (file size jumps), then a Sync
		total := 0
		for total < bufSz+20000 {
			n := 20000 + rng.Intn(40000)
			w(n)
			total += n + uvarintLen(n)
		}
		ops = append(ops, "s")
		w(rng.Intn(50))
	case 2: // records larger than the buffer: on an empty buffer (direct write) and on a non-empty one (fill, flush, direct / rest buffered)
		w(bufSz + 1 + rng.Intn(2000))
		w(10 + rng.Intn(100))
		w(bufSz + 5000 + rng.Intn(2000)) // header + small record buffered: fill + flush, rest ≤ buffer stays buffered
		w(2*bufSz + rng.Intn(100))
		ops = append(ops, "f")
		w(5)
		w(bufSz - 10) // fill + flush, rest buffered
		ops = append(ops, "s")
	default: // exact fits: the buffer filled to the last byte, one more, one less
		d := rng.Intn(3) - 1
		first := 100 + rng.Intn(1000)
		w(first)
		rest := bufSz - (first + uvarintLen(first)) - 3 + d // the next entry has a 3-byte header
		w(rest)
		w(rng.Intn(3))
		ops = append(ops, "f")
		w(bufSz - 3 + d)
		ops = append(ops, "s")
	}
	ops = append(ops, "c")
	return ops
}

func runBW(c *core.Ctx, ops []string) string {
	dir, err := os.MkdirTemp("", "lvh-c01w-*")
	if err != nil {
		return "harness-error"
	}
	defer os.RemoveAll(dir)
	p := filepath.Join(dir, "MANIFEST-000001")
	w, err := bufioutil.NewBufioEntryWriter(p)
	if err != nil {
		return "harness-error"
	}
	closed := false
	defer func() {
		if !closed {
			_ = w.Close()
		}
	}()
	var stream []byte // the framed records handed over so far
	var recs [][]byte
	var outs []string
	for k, op := range ops {
		switch {
		case op == "f":
			if err := w.Flush(); err != nil {
				return "flush-error"
			}
		case op == "s":
			if err := w.Sync(); err != nil {
				return "sync-error"
			}
		case op == "c":
			if err := w.Close(); err != nil {
				return "close-error"
			}
			closed = true
		default:
			var n int
			if _, err := fmt.Sscanf(op, "w%d", &n); err != nil {
				return "harness-error"
			}
			r := recBytes(len(recs), n)
			recs = append(recs, r)
			var hdr [binary.MaxVarintLen64]byte
			stream = append(stream, hdr[:binary.PutUvarint(hdr[:], uint64(n))]...)
			stream = append(stream, r...)
			if _, err := w.Write(r); err != nil {
				return "write-error"
			}
		}
		disk, err := os.ReadFile(p)
		if err != nil {
			return "harness-error"
		}
		if !bytes.HasPrefix(stream, disk) {
			c.Fail("file-not-prefix-of-written", fmt.Sprintf("after op %d (%s) of %v: the file on disk (%d bytes) is not a prefix of the %d framed bytes handed to the entry writer",
				k, op, head2(ops, 12), len(disk), len(stream)))
		}
		if (op == "f" || op == "s" || op == "c") && len(disk) != len(stream) {
			c.Fail("synced-bytes-not-in-file", fmt.Sprintf("after op %d (%s) of %v: %d framed bytes were handed to the entry writer, the file on disk holds %d: a kill now loses %d record(s)' bytes",
				k, op, head2(ops, 12), len(stream), len(disk), len(stream)-len(disk)))
		}
		out := fmt.Sprintf("%d/%d", len(disk), w.Size()-int64(len(disk)))
		if op == "s" {
			got, cerr := readBackChild(p)
			wtoks := make([]string, len(recs))
			for i, r := range recs {
				wtoks[i] = sumTok(r)
			}
			expect := strings.TrimSpace(fmt.Sprintf("ok n=%d clean=true %s", len(recs), strings.Join(wtoks, " ")))
			n, clean := -1, false
			if cerr == nil {
				var cl string
				if _, e := fmt.Sscanf(got, "ok n=%d clean=%s", &n, &cl); e == nil {
					clean = cl == "true"
				}
			}
			eq := cerr == nil && got == expect
			if !eq {
				c.Fail("synced-records-not-read-back", fmt.Sprintf("after op %d (Sync) of %v: %d records written and synced; reading the file on disk with the entry reader gives n=%d clean=%v",
					k, head2(ops, 12), len(recs), n, clean))
			}
			out += fmt.Sprintf(" r=%d,%v,%v", n, clean, eq)
		}
		outs = append(outs, out)
	}
	return strings.Join(outs, " ")
}

// readBackChild reads the file with the real entry reader in a child process of the same binary.
func readBackChild(p string) (string, error) {
	ctx, cancel := context.WithTimeout(context.Background(), 90*time.Second)
	defer cancel()
	cmd := exec.CommandContext(ctx, os.Args[0])
	cmd.Env = append(os.Environ(), readerEnv+"="+p)
	outb, err := cmd.Output()
	return strings.TrimSpace(string(outb)), err
}

func head2(l []string, n int) []string {
	if len(l) > n {
		return append(append([]string(nil), l[:n]...), "...")
	}
	return l
}
