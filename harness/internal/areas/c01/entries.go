package c01

import (
	"bytes"
	"context"
	"fmt"
	"os"
	"os/exec"
	"path/filepath"
	"strconv"
	"strings"
	"syscall"
	"time"

	"github.com/lindb/lindb/pkg/bufioutil"

	"github.com/lindb/lindb/zzverif/internal/core"
)

// entriesArea is the direct correspondence stream on pkg/bufioutil's entry framing (the manifest's
// file format): records are written with the REAL BufioEntryWriter and read back with the REAL
// BufioEntryReader; record lists are built so that their total size crosses 1x and 2x the 256 KB
// buffers with a record (its header or its content) straddling the boundary. The model reads the
// same records back with its own reader (buffer size as a parameter).
type entriesArea struct{}

// readerEnv: when set, this process is the short-lived reader child of the entries area: a misframed
// length can make the real reader allocate an absurd buffer, which must not take the harness down.
const readerEnv = "LVH_C01_ENTRIES_READ"

func init() {
	if p := os.Getenv(readerEnv); p != "" {
		lim := syscall.Rlimit{Cur: 6 << 30, Max: 6 << 30}
		_ = syscall.Setrlimit(syscall.RLIMIT_AS, &lim)
		fmt.Print(readBackTok(p))
		os.Exit(0)
	}
	core.Register(entriesArea{})
}

// readBackTok reads every entry of the file with the real BufioEntryReader: "n clean tok tok ...".
func readBackTok(p string) string {
	rd, err := bufioutil.NewBufioEntryReader(p)
	if err != nil {
		return "open-error"
	}
	defer rd.Close()
	var toks []string
	clean := true
	for rd.Next() {
		content, err := rd.Read()
		if err != nil {
			clean = false
			break
		}
		toks = append(toks, sumTok(content))
		if len(toks) > 100000 {
			clean = false
			break
		}
	}
	return strings.TrimSpace(fmt.Sprintf("ok n=%d clean=%v %s", len(toks), clean, strings.Join(toks, " ")))
}

func (entriesArea) Name() string { return "entries" }

const bufSz = 256 * 1024

func recBytes(i, n int) []byte {
	b := make([]byte, n)
	for j := range b {
		b[j] = byte((i*31 + j*7 + 3) % 251)
	}
	return b
}

func sumTok(b []byte) string {
	a := 7
	for _, x := range b {
		a = (a*131 + int(x)) % 1000003
	}
	return fmt.Sprintf("%d:%d", len(b), a)
}

func (entriesArea) Run(c *core.Ctx) error {
	for i := 0; i < c.N; i++ {
		if !c.Want(i) {
			continue
		}
		c.Begin(i)
		rng := c.Rng(i)
		var lens []int
		total := 0
		add := func(n int) {
			if n < 0 {
				n = 0
			}
			lens = append(lens, n)
			total += n + uvarintLen(n)
		}
		shape := i % 4
		switch shape {
		case 0: // one record ending a few bytes around the first boundary, then small ones; then the second boundary
			add(rng.Intn(50))
			add(bufSz - total - 3 + rng.Intn(7) - 3)
			for k := 0; k < 3+rng.Intn(4); k++ {
				add(rng.Intn(40))
			}
			add(2*bufSz - total - 3 + rng.Intn(9) - 4)
			add(rng.Intn(300))
			add(0)
			add(1 + rng.Intn(5))
		case 1: // many small records (what a manifest looks like) crossing the boundary once or twice
			target := bufSz + rng.Intn(bufSz+bufSz/2)
			for total < target {
				add(20 + rng.Intn(400))
			}
		case 2: // records larger than the buffer
			add(rng.Intn(10))
			add(bufSz + rng.Intn(1000))
			add(rng.Intn(100))
			add(2*bufSz + rng.Intn(5000))
			add(rng.Intn(100))
		default: // the header itself straddles: a 3-byte length header starting 1 or 2 bytes before the boundary
			add(bufSz - 3 - 1 - rng.Intn(2)) // header of this one is 3 bytes
			add(20000 + rng.Intn(1000))      // 3-byte header across the boundary
			for k := 0; k < 5; k++ {
				add(rng.Intn(2000))
			}
		}
		bopts := []int{bufSz, bufSz, 4096, 1, 100000, 3 * bufSz}
		b := bopts[rng.Intn(len(bopts))]
		ls := make([]string, len(lens))
		for k, n := range lens {
			ls[k] = strconv.Itoa(n)
		}
		op := fmt.Sprintf("entries %d %s", b, strings.Join(ls, ","))
		c.Branch(fmt.Sprintf("shape:%d", shape))
		if total > bufSz {
			c.Branch("size:>1x-buffer")
		}
		if total > 2*bufSz {
			c.Branch("size:>2x-buffer")
			c.NonTrivial()
		}
		c.Guard(op, func() string { return runEntries(c, lens, rng.Intn(3) == 0) })
		// round 12: the write side (buffer / flush / sync) of the same layer, see bufwriter.go
		bops := bwOps(rng, i%4)
		c.Branch(fmt.Sprintf("bw-shape:%d", i%4))
		c.Guard("bw "+strings.Join(bops, ","), func() string { return runBW(c, bops) })
	}
	return nil
}

func uvarintLen(n int) int {
	l := 1
	for n >= 128 {
		n >>= 7
		l++
	}
	return l
}

func runEntries(c *core.Ctx, lens []int, syncEach bool) string {
	dir, err := os.MkdirTemp("", "lvh-c01e-*")
	if err != nil {
		return "harness-error"
	}
	defer os.RemoveAll(dir)
	p := filepath.Join(dir, "MANIFEST-000001")
	w, err := bufioutil.NewBufioEntryWriter(p)
	if err != nil {
		return "harness-error"
	}
	var want [][]byte
	_ = bytes.Equal
	for i, n := range lens {
		r := recBytes(i, n)
		want = append(want, r)
		if _, err := w.Write(r); err != nil {
			return "write-error"
		}
		if syncEach {
			_ = w.Sync()
		}
	}
	if err := w.Close(); err != nil {
		return "close-error"
	}
	// read back in a child process (same binary, real reader)
	ctx, cancel := context.WithTimeout(context.Background(), 90*time.Second)
	defer cancel()
	cmd := exec.CommandContext(ctx, os.Args[0])
	cmd.Env = append(os.Environ(), readerEnv+"="+p)
	outb, cerr := cmd.Output()
	got := strings.TrimSpace(string(outb))
	wtoks := make([]string, len(want))
	for i, w := range want {
		wtoks[i] = sumTok(w)
	}
	expect := strings.TrimSpace(fmt.Sprintf("ok n=%d clean=true %s", len(want), strings.Join(wtoks, " ")))
	// the property on the implementation: what was written is what is read back
	if cerr != nil || got != expect {
		if cerr != nil {
			got = "reader-died"
		}
		first := got
		if len(first) > 120 {
			first = first[:120]
		}
		c.Fail("entries-not-read-back", fmt.Sprintf("%d records (lengths %v...) written with the entry writer; the entry reader returned: %s", len(want), head(lens, 8), first))
	}
	return got
}

func head(l []int, n int) []int {
	if len(l) > n {
		return l[:n]
	}
	return l
}
