package c01

import (
	"bytes"
	"fmt"
	"os"
	"path/filepath"
	"strconv"
	"strings"

	"github.com/lindb/lindb/pkg/bufioutil"

	"github.com/lindb/lindb/zzverif/internal/core"
)

// entriesArea is the direct correspondence stream on pkg/bufioutil's entry framing (the manifest's
// file format): records are written with the REAL BufioEntryWriter and read back with the REAL
// BufioEntryReader; record lists are built so that their total size crosses 1x and 2x the 256 KB
// buffers with a record (its header or its content) straddling the boundary. The model reads the
// same records back with its own reader (buffer size as a parameter).
type entriesArea struct{}

func init() { core.Register(entriesArea{}) }

func (entriesArea) Name() string { return "entries" }

const bufSz = 256 * 1024

func recBytes(i, n int) []byte {
	b := make([]byte, n)
	for j := range b {
		b[j] = byte((i*31 + j*7 + 3) % 251)
	}
	return b
}

func sumTok(b []byte) string {
	a := 7
	for _, x := range b {
		a = (a*131 + int(x)) % 1000003
	}
	return fmt.Sprintf("%d:%d", len(b), a)
}

func (entriesArea) Run(c *core.Ctx) error {
	for i := 0; i < c.N; i++ {
		if !c.Want(i) {
			continue
		}
		c.Begin(i)
		rng := c.Rng(i)
		var lens []int
		total := 0
		add := func(n int) {
			if n < 0 {
				n = 0
			}
			lens = append(lens, n)
			total += n + uvarintLen(n)
		}
		shape := i % 4
		switch shape {
		case 0: // one record ending a few bytes around the first boundary, then small ones; then the second boundary
			add(rng.Intn(50))
			add(bufSz - total - 3 + rng.Intn(7) - 3)
			for k := 0; k < 3+rng.Intn(4); k++ {
				add(rng.Intn(40))
			}
			add(2*bufSz - total - 3 + rng.Intn(9) - 4)
			add(rng.Intn(300))
			add(0)
			add(1 + rng.Intn(5))
		case 1: // many small records (what a manifest looks like) crossing the boundary once or twice
			target := bufSz + rng.Intn(bufSz+bufSz/2)
			for total < target {
				add(20 + rng.Intn(400))
			}
		case 2: // records larger than the buffer
			add(rng.Intn(10))
			add(bufSz + rng.Intn(1000))
			add(rng.Intn(100))
			add(2*bufSz + rng.Intn(5000))
			add(rng.Intn(100))
		default: // the header itself straddles: a 3-byte length header starting 1 or 2 bytes before the boundary
			add(bufSz - 3 - 1 - rng.Intn(2)) // header of this one is 3 bytes
			add(20000 + rng.Intn(1000))      // 3-byte header across the boundary
			for k := 0; k < 5; k++ {
				add(rng.Intn(2000))
			}
		}
		bopts := []int{bufSz, bufSz, 4096, 1, 100000, 3 * bufSz}
		b := bopts[rng.Intn(len(bopts))]
		ls := make([]string, len(lens))
		for k, n := range lens {
			ls[k] = strconv.Itoa(n)
		}
		op := fmt.Sprintf("entries %d %s", b, strings.Join(ls, ","))
		c.Branch(fmt.Sprintf("shape:%d", shape))
		if total > bufSz {
			c.Branch("size:>1x-buffer")
		}
		if total > 2*bufSz {
			c.Branch("size:>2x-buffer")
			c.NonTrivial()
		}
		c.Guard(op, func() string { return runEntries(c, lens, rng.Intn(3) == 0) })
	}
	return nil
}

func uvarintLen(n int) int {
	l := 1
	for n >= 128 {
		n >>= 7
		l++
	}
	return l
}

func runEntries(c *core.Ctx, lens []int, syncEach bool) string {
	dir, err := os.MkdirTemp("", "lvh-c01e-*")
	if err != nil {
		return "harness-error"
	}
	defer os.RemoveAll(dir)
	p := filepath.Join(dir, "MANIFEST-000001")
	w, err := bufioutil.NewBufioEntryWriter(p)
	if err != nil {
		return "harness-error"
	}
	var want [][]byte
	for i, n := range lens {
		r := recBytes(i, n)
		want = append(want, r)
		if _, err := w.Write(r); err != nil {
			return "write-error"
		}
		if syncEach {
			_ = w.Sync()
		}
	}
	if err := w.Close(); err != nil {
		return "close-error"
	}
	rd, err := bufioutil.NewBufioEntryReader(p)
	if err != nil {
		return "open-error"
	}
	defer rd.Close()
	var got [][]byte
	clean := true
	for rd.Next() {
		content, err := rd.Read()
		if err != nil {
			clean = false
			break
		}
		got = append(got, append([]byte(nil), content...))
		if len(got) > len(want)+5 {
			break
		}
	}
	// the property on the implementation: what was written is what is read back
	same := len(got) == len(want) && clean
	if same {
		for i := range got {
			if !bytes.Equal(got[i], want[i]) {
				same = false
				break
			}
		}
	}
	if !same {
		c.Fail("entries-not-read-back", fmt.Sprintf("%d records (lengths %v...) written with the entry writer; the entry reader returned %d records, clean end=%v",
			len(want), head(lens, 8), len(got), clean))
	}
	toks := make([]string, len(got))
	for i, g := range got {
		toks[i] = sumTok(g)
	}
	return strings.TrimSpace(fmt.Sprintf("ok n=%d clean=%v %s", len(got), clean, strings.Join(toks, " ")))
}

func head(l []int, n int) []int {
	if len(l) > n {
		return l[:n]
	}
	return l
}
