package c01

import (
	"encoding/binary"
	"fmt"
	"runtime"
	"sync/atomic"
	"time"

	"github.com/lindb/lindb/kv"
)

// Close vs. a background job that was just started (round 10, seed c01-18).
//
// In production a compaction is never the synchronous call the other histories use: Family.Compact() /
// the store's compact timer call family.compact(), which registers the job in the family's WaitGroup
// (condition.Add(1)) and THEN spawns the goroutine; store.close() -> family.close() -> condition.Wait()
// is how a close waits for every job that was started. That "a compaction of the history is complete
// before the close that follows it" is what lets the model treat `compact` as one operation of a
// history; this case drives the real start path and the real close against each other.
//
// Schedule (no sleep decides an outcome): with one P, `f.Compact(); CloseStore()` run back to back on the
// main goroutine, so the spawned goroutine cannot execute its first statement before the closer blocks
// (in WaitGroup.Wait) or returns. The job's merger consults closeGate: once CloseStore has RETURNED the
// flag is set, and a Merge call that sees it parks — a job of a closed store is executing. On a tree where
// Add(1) precedes the go statement Wait cannot return before the job's Done, Merge precedes Done in the
// job's program order, hence the gate can never be reached: no false alarm by construction.
type closeGateT struct {
	closeReturned atomic.Bool
	reached       atomic.Bool
	parked        chan struct{}
	resume        chan struct{}
}

var closeGate atomic.Pointer[closeGateT]

// closeGateAt is called by the harness's merger (the body of a compaction job).
func closeGateAt() {
	g := closeGate.Load()
	if g == nil || !g.closeReturned.Load() || g.reached.Swap(true) {
		return
	}
	g.parked <- struct{}{}
	<-g.resume
}

// yieldUntil gives the processor away until cond holds (bounded; the bound only ends a wait that the
// schedule makes impossible — it never turns into a failure by itself).
func yieldUntil(cond func() bool) bool {
	for i := 0; i < 200000; i++ {
		if cond() {
			return true
		}
		runtime.Gosched()
		if i > 1000 {
			time.Sleep(50 * time.Microsecond)
		}
	}
	return cond()
}

// doBgCompactClose: `f.Compact()` (the production start path of a background compaction) directly followed
// by CloseStore. Protocol op `bgclose name size` = the model's compact followed by closeStore, one FS trace
// (theorem jobs_complete_before_close: every interleaving of the real steps has the job's operations first).
func (h *hist) doBgCompactClose(name string) {
	f := h.store.GetFamily(name)
	bo := h.liveObs()
	g := &closeGateT{parked: make(chan struct{}, 1), resume: make(chan struct{})}
	closeGate.Store(g)
	defer closeGate.Store(nil)
	before := h.beginOp("bgclose")
	old := runtime.GOMAXPROCS(1)
	var closeErr error
	pan := h.guard("bgclose", func() string {
		f.Compact()
		closeErr = kv.GetStoreManager().CloseStore(h.root)
		g.closeReturned.Store(true)
		return ""
	})
	// a started job that is still alive gets the processor until it parks at the gate or finishes
	stillRunning := false
	if pan == "" {
		yieldUntil(func() bool { return g.reached.Load() || !kv.VerifC01Compacting(f) })
		stillRunning = g.reached.Load()
	}
	runtime.GOMAXPROCS(old)
	h.store = nil
	h.c.Branch("region:close-right-after-background-compaction-start")
	if pan != "" {
		h.failed = true
		h.c.Op("bgclose "+name+" 0", "panic")
		return
	}
	if stillRunning {
		<-g.parked
		h.jobAfterClose(name, f, g, bo)
		return
	}
	h.c.Branch("close:waited-for-the-started-job")
	// which table did the job write?
	var size int64
	kind := "none"
	var created int64 = -1
	for _, o := range h.sess.ops {
		if o.kind == "tcreate" {
			created = o.b
		}
		if o.kind == "rec" {
			kind = "merge"
		}
	}
	if created >= 0 {
		size = h.sess.closedSz[fmt.Sprintf("%s/%d", name, created)]
	}
	out := "ok"
	if closeErr != nil {
		out = "err"
	}
	out += " kind=" + kind + " fs=" + traceTok(h.sess.ops)
	// the committed state after the job, read from the closed directory (the store object is gone)
	h.afterOverride = h.reopenProbe(h.root)
	h.finishOp("bgclose", fmt.Sprintf("bgclose %s %d", name, size), out, before, false)
	h.afterOverride = ""
}

// jobAfterClose: CloseStore returned while a compaction job that had been started before is executing
// (parked inside its merger). Property-level consequence, shown on the real code: the directory is opened
// again (same process: store eviction + re-creation is a production path), a flush is committed by the new
// instance, the stale job continues — it allocates its output number from the OLD version set (the number the
// new instance just used), truncates that table, fails to commit (journal closed; or commits into a manifest
// CURRENT no longer names) and its deferred cleanup deletes what the old versions do not know.
func (h *hist) jobAfterClose(name string, f kv.Family, g *closeGateT, bo storeObs) {
	h.failed = true
	h.sess.muted = true
	h.c.Fail("background-job-running-after-close", fmt.Sprintf(
		"family %s: Compact() started a background compaction, CloseStore was called right after and RETURNED while that job is still executing (its merger ran after the close): close did not wait for a started job",
		name))
	desc := ""
	func() {
		defer func() {
			if r := recover(); r != nil {
				desc = fmt.Sprintf("panic while continuing: %v", r)
			}
		}()
		st, err := kv.GetStoreManager().CreateStore(h.root, h.option())
		if err != nil {
			desc = "reopening the closed directory failed: " + err.Error()
			close(g.resume)
			return
		}
		nf := st.GetFamily(name)
		fl := nf.NewFlusher()
		var b [8]byte
		binary.BigEndian.PutUint64(b[:], 77)
		_ = fl.Add(23, b[:])
		cerr := fl.Commit()
		fl.Release()
		committed := observe(st, h.levels)
		close(g.resume) // the stale job continues
		yieldUntil(func() bool { return !kv.VerifC01Compacting(f) })
		after := observe(st, h.levels)
		_ = kv.GetStoreManager().CloseStore(h.root)
		r := h.reopenImage(h.root)
		if cerr == nil {
			lost := after.kvKey() != committed.kvKey()
			if !r.ok || r.obs.kvKey() != committed.kvKey() {
				lost = true
			}
			if lost {
				rs := "reopen failed: " + r.err
				if r.ok {
					rs = r.obs.contentAll()
				}
				desc = fmt.Sprintf("the directory was opened again, a flush {23:77} of family %s was committed (success; store showed %s), then the job of the CLOSED store instance finished: the live store now shows %s, a reopen shows %s",
					name, committed.contentAll(), after.contentAll(), rs)
			}
		}
	}()
	if desc != "" {
		h.c.Fail("committed-flush-lost-to-job-of-closed-store", desc)
	}
	h.c.Op("bgclose "+name+" 0", "job-running-after-close")
}
