package c01

import (
	"encoding/binary"
	"fmt"
	"os"
	"path/filepath"
	"sort"
	"strings"
	"sync/atomic"

	"github.com/lindb/lindb/kv"
	"github.com/lindb/lindb/kv/table"
	"github.com/lindb/lindb/kv/version"
)

// Multi-output merge compaction vs. a deleteObsoleteFiles of ANOTHER background job of the same family
// (round 13, seed c01-26).
//
// Every other history runs a compaction as one synchronous call that writes one output table. In production
// (a) a merge compaction closes an output table whenever it reaches FamilyOption.MaxFileSize and opens the
// next one, committing all of them in ONE edit log at the end, and (b) the store's compact() tick /
// Store.ForceRollup start the family's rollup goroutine next to the compaction, and that goroutine always ends
// with family.deleteObsoleteFiles. Between "output closed" and "edit log committed" a finished output is in no
// version: only pendingOutputs keeps the foreign cleanup from deleting it.
//
// Schedule (no sleep decides an outcome): MaxFileSize = 1 makes every merged key its own output table; the
// job is started through the production path Family.Compact(); its merger parks in the (j+1)-th Merge call,
// i.e. after exactly j outputs were finished and before the next one is opened; while it is parked
// Store.ForceRollup runs c times (each time waited for: VerifC01Rolluping); the directory is copied (crash
// image); the job is released and waited for (VerifC01Compacting); kill image; CloseStore; reopen.
// Protocol op `mojob <inputs> <next> <k> <j> <c>` (Model/C01MultiOut.lean).
type moGateT struct {
	parkAt int32
	calls  atomic.Int32
	parked chan struct{}
	resume chan struct{}
}

var moGate atomic.Pointer[moGateT]

// moGateAt is called by the harness's merger.
func moGateAt() {
	g := moGate.Load()
	if g == nil {
		return
	}
	if g.calls.Add(1) == g.parkAt {
		g.parked <- struct{}{}
		<-g.resume
	}
}

func sumsTok(f *famObs) string {
	if f == nil {
		return "no-family"
	}
	var keys []int
	for k := range f.content {
		keys = append(keys, int(k))
	}
	sort.Ints(keys)
	var ps []string
	for _, k := range keys {
		var s uint64
		for _, v := range f.content[uint32(k)] {
			s += v
		}
		ps = append(ps, fmt.Sprintf("%d=%d", k, s))
	}
	if f.loadErr != "" {
		ps = append(ps, "!loaderr:"+f.loadErr)
	}
	return strings.Join(ps, ",")
}

func tableNumbersOnDisk(dir string) []int64 {
	ents, _ := os.ReadDir(dir)
	var ns []int64
	for _, e := range ents {
		if strings.HasSuffix(e.Name(), ".sst") {
			var n int64
			if _, err := fmt.Sscanf(strings.TrimSuffix(e.Name(), ".sst"), "%d", &n); err == nil {
				ns = append(ns, n)
			}
		}
	}
	sort.Slice(ns, func(i, j int) bool { return ns[i] < ns[j] })
	return ns
}

func sortedInts(ns []int64) string {
	c := append([]int64(nil), ns...)
	sort.Slice(c, func(i, j int) bool { return c[i] < c[j] })
	return joinInts(c)
}

func moObs(root, name string, f kv.Family) string {
	snap := f.GetSnapshot()
	var ver []int64
	for _, fm := range snap.GetCurrent().GetAllFiles() {
		ver = append(ver, fm.GetFileNumber().Int64())
	}
	snap.Close()
	return fmt.Sprintf("disk=%s pend=%s ver=%s", sortedInts(tableNumbersOnDisk(filepath.Join(root, name))),
		sortedInts(kv.VerifC01PendingOutputs(f)), sortedInts(ver))
}

// checkImage reopens a copy of the directory and compares it with the committed per-key sums.
func (h *hist) moCheckImage(root, tag, when, want string) {
	img := filepath.Join(h.base, "mo-img-"+tag)
	defer os.RemoveAll(img)
	if err := copyDir(root, img); err != nil {
		return
	}
	r := h.reopenImage(img)
	h.nImages++
	switch {
	case !r.ok:
		h.c.Fail("reopen-error", fmt.Sprintf("multi-output compaction, crash image taken %s: reopen fails: %s", when, r.err))
	default:
		var missing []string
		for k, sz := range r.sizes {
			if sz < 0 {
				missing = append(missing, k)
			}
		}
		sort.Strings(missing)
		got := sumsTok(famOf(r.obs, "10"))
		if len(missing) > 0 || got != want {
			h.c.Fail("content-not-atomic", fmt.Sprintf("multi-output compaction, crash image taken %s: committed content (per-key sums) {%s}, the reopened image shows {%s}, referenced tables missing in the directory: %v",
				when, want, got, missing))
		}
	}
}

func multiOutScenario(h *hist) {
	h.c.Branch("scenario:multi-output-compaction-vs-foreign-cleanup")
	root := filepath.Join(h.base, "multiout")
	const name = "10"
	k := 2 + h.rng.Intn(4)
	j := 1 + h.rng.Intn(k-1)
	cN := 1 + h.rng.Intn(2)
	nFlush := 2 + h.rng.Intn(2)
	opErr := func(what string) {
		h.c.Op(fmt.Sprintf("mojob 0 0 %d %d %d", k, j, cN), what)
	}
	st, err := kv.GetStoreManager().CreateStore(root, h.option())
	if err != nil {
		h.c.Fail("reopen-error", "multi-output store: "+err.Error())
		opErr("err")
		return
	}
	closed := false
	defer func() {
		if !closed {
			_ = kv.GetStoreManager().CloseStore(root)
		}
		_ = os.RemoveAll(root)
	}()
	line, out := "", ""
	pan := h.guard("mojob", func() string {
		f, err := st.CreateFamily(name, kv.FamilyOption{Merger: mergerName, CompactThreshold: 2, MaxFileSize: 1})
		if err != nil {
			out = "createfam-err"
			return ""
		}
		// k distinct keys; flush 0 holds all of them, the others random non-empty subsets
		var keys []uint32
		kk := uint32(h.rng.Intn(3))
		for i := 0; i < k; i++ {
			keys = append(keys, kk)
			kk += uint32(1 + h.rng.Intn(3))
		}
		want := map[uint32]uint64{}
		for fi := 0; fi < nFlush; fi++ {
			fl := f.NewFlusher()
			n := 0
			for i, key := range keys {
				if fi > 0 && h.rng.Intn(2) == 0 && !(n == 0 && i == len(keys)-1) {
					continue
				}
				v := uint64(1 + h.rng.Intn(1000))
				var b [8]byte
				binary.BigEndian.PutUint64(b[:], v)
				if err := fl.Add(key, b[:]); err != nil {
					out = "flush-err"
				}
				want[key] += v
				n++
			}
			if err := fl.Commit(); err != nil {
				out = "flush-err"
			}
			fl.Release()
			h.nFlush++
		}
		if out != "" {
			return ""
		}
		var wp []string
		for _, key := range keys {
			wp = append(wp, fmt.Sprintf("%d=%d", key, want[key]))
		}
		wantTok := strings.Join(wp, ",")
		before := observe(st, h.levels)
		inputs := append([]int64(nil), famOf(before, name).files...)
		_, next := kv.VerifC01Numbers(st)
		line = fmt.Sprintf("mojob %s %d %d %d %d", sortedInts(inputs), next, k, j, cN)
		if got := sumsTok(famOf(before, name)); got != wantTok {
			h.c.Fail("flush-content-wrong", fmt.Sprintf("multi-output case: flushed per-key sums {%s}, the store shows {%s}", wantTok, got))
		}

		g := &moGateT{parkAt: int32(j + 1), parked: make(chan struct{}, 1), resume: make(chan struct{})}
		moGate.Store(g)
		defer moGate.Store(nil)
		f.Compact() // production start path of a background compaction
		parked := false
		yieldUntil(func() bool {
			select {
			case <-g.parked:
				parked = true
			default:
			}
			return parked || !kv.VerifC01Compacting(f)
		})
		if !parked {
			select {
			case <-g.parked:
				parked = true
			default:
			}
		}
		if !parked {
			out = "unscheduled"
			return ""
		}
		// the job is parked after j finished outputs: another background job of the family runs its cleanup
		for i := 0; i < cN; i++ {
			st.ForceRollup()
			yieldUntil(func() bool { return !kv.VerifC01Rolluping(f) })
		}
		atPark := moObs(root, name, f)
		var gone []int64
		for n := next; n < next+int64(j); n++ {
			if !exists(filepath.Join(root, name, version.Table(table.FileNumber(n)))) {
				gone = append(gone, n)
			}
		}
		if len(gone) > 0 {
			h.c.Fail("compaction-output-deleted-before-commit", fmt.Sprintf(
				"family %s (MaxFileSize 1, inputs %v, %d keys): a merge compaction had finished (closed) its first %d output table(s) and was about to open the next one when Store.ForceRollup ran (rollup goroutine -> family.deleteObsoleteFiles, %d time(s)): finished output table(s) %v were deleted before the compaction's edit log was committed [%s]",
				name, inputs, k, j, cN, gone, atPark))
		}
		h.moCheckImage(root, "park", fmt.Sprintf("while the compaction is parked after %d finished outputs and %d foreign cleanup(s)", j, cN), wantTok)
		close(g.resume)
		yieldUntil(func() bool { return !kv.VerifC01Compacting(f) })
		atEnd := moObs(root, name, f)
		live := observe(st, h.levels)
		if got := sumsTok(famOf(live, name)); got != wantTok {
			h.c.Fail("compaction-changed-content", fmt.Sprintf(
				"family %s: committed per-key sums {%s}; after the multi-output compaction (parked after output %d of %d, %d foreign cleanup(s) meanwhile) the live store shows {%s} [%s]",
				name, wantTok, j, k, cN, got, atEnd))
		}
		h.moCheckImage(root, "end", "right after the compaction job finished (process killed)", wantTok)
		_ = kv.GetStoreManager().CloseStore(root)
		closed = true
		r := h.reopenImage(root)
		h.nImages++
		ro := "reopen err"
		if r.ok {
			fo := famOf(r.obs, name)
			var missing []int64
			if fo != nil {
				for _, n := range fo.files {
					if r.sizes[fmt.Sprintf("%s/%d", name, n)] < 0 {
						missing = append(missing, n)
					}
				}
				ro = fmt.Sprintf("reopen ver=%s missing=%s", sortedInts(fo.files), sortedInts(missing))
			}
			if got := sumsTok(fo); got != wantTok || len(missing) > 0 {
				h.c.Fail("content-not-atomic", fmt.Sprintf(
					"family %s: flushes with per-key sums {%s} were committed, a merge compaction with %d outputs ran (foreign cleanup after output %d) and committed; after close + reopen the family shows {%s}, referenced tables missing: %v",
					name, wantTok, k, j, got, missing))
			}
		} else {
			h.c.Fail("reopen-error", "multi-output compaction: reopen after close fails: "+r.err)
		}
		out = fmt.Sprintf("park %s | end %s | %s", atPark, atEnd, ro)
		h.c.Branch(fmt.Sprintf("multiout:k=%d", k))
		h.c.NonTrivial()
		return ""
	})
	if g := moGate.Load(); g != nil {
		moGate.Store(nil)
	}
	if pan != "" {
		out = "panic"
	}
	if line == "" {
		line = fmt.Sprintf("mojob 0 0 %d %d %d", k, j, cN)
	}
	h.c.Op(line, out)
}
