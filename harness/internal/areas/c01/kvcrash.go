// Package c01 is the correspondence stream "kvcrash" of property C01: it runs generated histories
// (create-family / flush / compaction / rollup bookkeeping / close+reopen / process death) against a
// REAL kv store in a temp dir, records the trace of file-system operations through the package-level
// I/O seams (verif hook setters), copies the store directory after every file-system operation (crash
// image), reopens every image with the real kv.StoreManager and mirrors everything in the C01 line
// protocol for the Lean model. The impl-side oracle evaluates the property itself on the images.
package c01

import (
	"encoding/binary"
	"encoding/hex"
	"fmt"
	"io"
	"math/rand"
	"os"
	"path/filepath"
	"sort"
	"strconv"
	"strings"
	"sync"
	"syscall"
	"time"

	"github.com/lindb/common/pkg/ltoml"

	"github.com/lindb/lindb/kv"
	"github.com/lindb/lindb/kv/table"
	"github.com/lindb/lindb/kv/version"
	"github.com/lindb/lindb/pkg/bufioutil"
	"github.com/lindb/lindb/pkg/lockers"
	"github.com/lindb/lindb/pkg/timeutil"

	"github.com/lindb/lindb/zzverif/internal/core"
)

type area struct{}

func init() { core.Register(area{}) }

func (area) Name() string { return "kvcrash" }

const (
	mergerName = "c01sum"
	maxKeyU    = 24 // keys are drawn from [0, maxKeyU)
)

var regMerger sync.Once

// sumMerger adds the 8-byte big-endian values of one key (order-insensitive on purpose: the order in
// which compaction feeds the input files comes from Go map iteration).
type sumMerger struct{ fl kv.Flusher }

func (m *sumMerger) Init(map[string]interface{}) {}
func (m *sumMerger) Merge(key uint32, values [][]byte) error {
	moGateAt()    // multi-output compaction vs. foreign cleanup: parks the job after j finished outputs (multiout.go)
	closeGateAt() // close-vs-background-job case: parks a job that runs after CloseStore returned (closejob.go)
	var s uint64
	for _, v := range values {
		s += binary.BigEndian.Uint64(v)
	}
	var b [8]byte
	binary.BigEndian.PutUint64(b[:], s)
	return m.fl.Add(key, b[:])
}

// ---------------------------------------------------------------------------------- FS recorder

type fsop struct {
	kind string // mkstore opts lock+ lock- mkfam mcreate rec curtmp currename mrm tcreate tclose trm
	a, b int64  // numbers (family name / file number / manifest number / family id of a record)
	tok  string
	raw  []byte   // rec: record bytes
	logs []string // rec: log tokens in written order
}

// session = one store directory whose FS operations are being recorded.
type session struct {
	root     string
	ops      []fsop
	total    int                // FS operations since the case started (main session only)
	onOp     func(extra bool)   // image taker (main session only)
	muted    bool               // drop everything (abandoned store being closed)
	closedSz map[string]int64   // fam/f -> size of the table file when its builder was closed
	content  map[string]string  // fam/f -> content token read back from the closed table
	existed  int                // mcreate on an already existing file
	forceFlu bool               // flush the table writer after every write (partial-table images)
	failClose string            // fam/f: the close of this table fails with ENOSPC on its final flush (one shot)
	extraKind string            // what the next extra image shows (branch label)
	lastPrint string            // fingerprint of the directory right after the last traced FS operation (main session only)
	untraced  int               // directory changes that no I/O seam reported (each one got a crash image of its own)
}

// dirPrint is a fingerprint of a store directory (names, sizes, mtimes, inode numbers of the store's files and
// of the files one level below). The harness takes it right after every traced FS operation and again when the
// NEXT seam is entered: a difference means the code changed the directory through a path no seam covers (a
// new os.Remove / os.Rename call, a new package-level seam the harness does not know). That state is a point
// "between two file-system operations" like every other: it gets a crash image of its own (extra image, same
// model prefix) and is judged by the same oracle.
func dirPrint(root string) string {
	var sb strings.Builder
	var walk func(dir string, depth int)
	walk = func(dir string, depth int) {
		ents, err := os.ReadDir(dir)
		if err != nil {
			sb.WriteString("!" + filepath.Base(dir) + ";")
			return
		}
		for _, e := range ents {
			fi, err := e.Info()
			if err != nil {
				continue
			}
			var ino uint64
			if st, ok := fi.Sys().(*syscall.Stat_t); ok {
				ino = st.Ino
			}
			if e.IsDir() {
				fmt.Fprintf(&sb, "%s/{", e.Name())
				if depth < 1 {
					walk(filepath.Join(dir, e.Name()), depth+1)
				}
				sb.WriteString("};")
				continue
			}
			fmt.Fprintf(&sb, "%s:%d:%d:%d;", e.Name(), fi.Size(), fi.ModTime().UnixNano(), ino)
		}
	}
	walk(root, 0)
	return sb.String()
}

// pre is called when a seam is entered, BEFORE the file-system operation it stands for is performed.
func (s *session) pre() {
	if s == nil || s.muted || s.onOp == nil || s.lastPrint == "" {
		return
	}
	if cur := dirPrint(s.root); cur != s.lastPrint {
		s.untraced++
		s.extraKind = "untraced-fs-change"
		s.lastPrint = cur
		s.onOp(true)
	}
}

var (
	sessMu   sync.Mutex
	sessions []*session
)

func findSession(path string) *session {
	sessMu.Lock()
	defer sessMu.Unlock()
	var best *session
	for _, s := range sessions {
		if path == s.root || strings.HasPrefix(path, s.root+string(os.PathSeparator)) {
			if best == nil || len(s.root) > len(best.root) {
				best = s
			}
		}
	}
	return best
}

func addSession(s *session) {
	sessMu.Lock()
	sessions = append(sessions, s)
	sessMu.Unlock()
}

func dropSession(s *session) {
	sessMu.Lock()
	for i, x := range sessions {
		if x == s {
			sessions = append(sessions[:i], sessions[i+1:]...)
			break
		}
	}
	sessMu.Unlock()
}

func (s *session) record(o fsop, extra bool) {
	if s == nil || s.muted {
		return
	}
	if !extra {
		s.ops = append(s.ops, o)
		s.total++
	}
	if s.onOp != nil {
		s.onOp(extra)
		s.lastPrint = dirPrint(s.root)
	}
}

func parseManifestNo(name string) (int64, bool) {
	if !strings.HasPrefix(name, version.ManifestPrefix) {
		return 0, false
	}
	n, err := strconv.ParseInt(strings.TrimPrefix(name, version.ManifestPrefix), 10, 64)
	return n, err == nil
}

func parseTablePath(root, path string) (fam, f int64, ok bool) {
	rel, err := filepath.Rel(root, path)
	if err != nil {
		return 0, 0, false
	}
	parts := strings.Split(rel, string(os.PathSeparator))
	if len(parts) != 2 || !strings.HasSuffix(parts[1], ".sst") {
		return 0, 0, false
	}
	fam, err1 := strconv.ParseInt(parts[0], 10, 64)
	f, err2 := strconv.ParseInt(strings.TrimSuffix(parts[1], ".sst"), 10, 64)
	return fam, f, err1 == nil && err2 == nil
}

// manifestWriter wraps the journal writer: one FS operation per Sync (buffered write + fsync).
type manifestWriter struct {
	bufioutil.BufioWriter
	s       *session
	n       int64
	pending [][]byte
}

func (w *manifestWriter) Write(p []byte) (int, error) {
	w.pending = append(w.pending, append([]byte(nil), p...))
	return w.BufioWriter.Write(p)
}

func (w *manifestWriter) Sync() error {
	w.s.pre()
	err := w.BufioWriter.Sync()
	for _, r := range w.pending {
		w.s.record(recOp(w.n, r), false)
	}
	w.pending = nil
	return err
}

func recOp(n int64, r []byte) fsop {
	el, err := version.VerifC01Unmarshal(r)
	if err != nil {
		return fsop{kind: "rec", a: n, tok: fmt.Sprintf("rec(%d,?%x)", n, r), raw: r}
	}
	var toks []string
	for _, l := range el.GetLogs() {
		toks = append(toks, version.VerifC01LogToken(l))
	}
	sorted := append([]string(nil), toks...)
	sort.Strings(sorted)
	return fsop{kind: "rec", a: n, b: int64(el.FamilyID()), raw: r, logs: toks,
		tok: fmt.Sprintf("rec(%d,%d:%s)", n, el.FamilyID(), strings.Join(sorted, "|"))}
}

// tableWriter wraps a table builder's writer: create and close are FS operations; with forceFlu every
// builder write is pushed to the file so that images with a half-written table exist.
type tableWriter struct {
	bufioutil.BufioWriter
	s      *session
	fam, f int64
	path   string
}

func (w *tableWriter) failing() bool {
	return w.s != nil && w.s.failClose != "" && w.s.failClose == fmt.Sprintf("%d/%d", w.fam, w.f)
}

func (w *tableWriter) Write(p []byte) (int, error) {
	if w.failing() {
		// the bytes stay in the (emulated) write buffer: the final flush is the one that fails
		return len(p), nil
	}
	if w.s != nil && w.s.forceFlu {
		w.s.pre()
	}
	n, err := w.BufioWriter.Write(p)
	if w.s != nil && w.s.forceFlu && !w.s.muted {
		_ = w.BufioWriter.Flush()
		w.s.record(fsop{}, true)
	}
	return n, err
}

func (w *tableWriter) Close() error {
	if w.failing() {
		// injected I/O fault: the final buffer flush fails (nothing of the footer reaches the file)
		w.s.failClose = ""
		_ = w.BufioWriter.Close()
		return syscall.ENOSPC
	}
	w.s.pre()
	err := w.BufioWriter.Close()
	if w.s != nil && !w.s.muted {
		key := fmt.Sprintf("%d/%d", w.fam, w.f)
		if fi, e := os.Stat(w.path); e == nil {
			w.s.closedSz[key] = fi.Size()
		}
		c := readTableTok(w.s.root, w.fam, w.f)
		w.s.content[key] = c
		w.s.record(fsop{kind: "tclose", a: w.fam, b: w.f, tok: fmt.Sprintf("tclose(%d/%d:%s)", w.fam, w.f, c)}, false)
	}
	return err
}

// readTableTok reads a closed table back with lindb's own reader: "k=v,k=v".
func readTableTok(root string, fam, f int64) string {
	cache := table.NewCache(root, time.Hour)
	defer cache.Close()
	r, err := cache.GetReader(strconv.FormatInt(fam, 10), version.Table(table.FileNumber(f)))
	if err != nil || r == nil {
		return "!unreadable"
	}
	var parts []string
	it := r.Iterator()
	for it.HasNext() {
		parts = append(parts, fmt.Sprintf("%d=%s", it.Key(), valTok(it.Value())))
	}
	cache.ReleaseReaders([]table.Reader{r})
	return strings.Join(parts, ",")
}

func valTok(v []byte) string {
	if len(v) == 8 {
		return strconv.FormatUint(binary.BigEndian.Uint64(v), 10)
	}
	return "x" + hex.EncodeToString(v)
}

type lockWrap struct {
	lockers.FileLock
	s *session
}

func (l *lockWrap) Unlock() error {
	l.s.pre()
	err := l.FileLock.Unlock()
	l.s.record(fsop{kind: "lock-", tok: "lock-"}, false)
	return err
}

type optionsFile struct {
	Families map[string]struct {
		Name             string `toml:"name"`
		ID               int    `toml:"id"`
		CompactThreshold int    `toml:"compactThreshold"`
	} `toml:"families"`
}

func optsTok(path string) string {
	var o optionsFile
	if err := ltoml.DecodeToml(path, &o); err != nil {
		return "opts(!" + err.Error() + ")"
	}
	type ent struct {
		name string
		id   int
		thr  int
	}
	var es []ent
	for _, f := range o.Families {
		es = append(es, ent{f.Name, f.ID, f.CompactThreshold})
	}
	sort.Slice(es, func(i, j int) bool { return es[i].id < es[j].id })
	var ps []string
	for _, e := range es {
		ps = append(ps, fmt.Sprintf("%s/%d/%d", e.name, e.id, e.thr))
	}
	return "opts(" + strings.Join(ps, ",") + ")"
}

func exists(p string) bool { _, err := os.Stat(p); return err == nil }

// installSeams wraps every I/O seam once; events are routed to the session owning the path.
func installSeams() (restore func()) {
	r1 := version.VerifC01SetIO(
		func(fileName string) (bufioutil.BufioWriter, error) {
			s := findSession(fileName)
			s.pre()
			existed := exists(fileName)
			w, err := bufioutil.NewBufioEntryWriter(fileName)
			if err != nil || s == nil {
				return w, err
			}
			n, _ := parseManifestNo(filepath.Base(fileName))
			if existed {
				s.existed++
			}
			tok := fmt.Sprintf("mcreate(%d)", n)
			if fi, e := os.Stat(fileName); e == nil && fi.Size() != 0 {
				// creating a manifest must leave an EMPTY file (the model's create truncates)
				tok += fmt.Sprintf("!size=%d", fi.Size())
			}
			s.record(fsop{kind: "mcreate", a: n, tok: tok}, false)
			return &manifestWriter{BufioWriter: w, s: s, n: n}, nil
		},
		func(name string, data []byte, perm os.FileMode) error {
			s := findSession(name)
			s.pre()
			if s != nil && s.onOp != nil && !s.muted {
				// os.WriteFile = truncating open, write, close: the point after the open is a crash point
				// (the file exists and is empty). Same model prefix: nobody reads CURRENT.tmp.
				if f, e := os.OpenFile(name, os.O_WRONLY|os.O_CREATE|os.O_TRUNC, perm); e == nil {
					f.Close()
					s.extraKind = "writefile-truncated-not-written"
					s.record(fsop{}, true)
				}
			}
			err := os.WriteFile(name, data, perm)
			if s != nil {
				n, _ := parseManifestNo(string(data))
				tok := fmt.Sprintf("curtmp(%d)", n)
				if filepath.Base(name) != version.VerifC01CurrentFileName()+"."+version.TmpSuffix {
					tok = fmt.Sprintf("write(%s,%d)", filepath.Base(name), n)
				}
				s.record(fsop{kind: "curtmp", a: n, tok: tok}, false)
			}
			return err
		},
		func(oldPath, newPath string) error {
			findSession(newPath).pre()
			err := os.Rename(oldPath, newPath)
			if s := findSession(newPath); s != nil {
				tok := "currename"
				if filepath.Base(newPath) != version.VerifC01CurrentFileName() || filepath.Base(oldPath) != version.VerifC01CurrentFileName()+"."+version.TmpSuffix {
					tok = fmt.Sprintf("rename(%s,%s)", filepath.Base(oldPath), filepath.Base(newPath))
				}
				s.record(fsop{kind: "currename", tok: tok}, false)
			}
			return err
		})
	r2 := table.VerifC01SetNewWriter(func(fileName string) (bufioutil.BufioWriter, error) {
		findSession(fileName).pre()
		w, err := bufioutil.NewBufioStreamWriter(fileName)
		s := findSession(fileName)
		if err != nil || s == nil {
			return w, err
		}
		fam, f, _ := parseTablePath(s.root, fileName)
		ttok := fmt.Sprintf("tcreate(%d/%d)", fam, f)
		if fi, e := os.Stat(fileName); e == nil && fi.Size() != 0 {
			ttok += fmt.Sprintf("!size=%d", fi.Size())
		}
		s.record(fsop{kind: "tcreate", a: fam, b: f, tok: ttok}, false)
		return &tableWriter{BufioWriter: w, s: s, fam: fam, f: f, path: fileName}, nil
	})
	cur := kv.VerifC01CurrentSeams()
	r3 := kv.VerifC01SetSeams(kv.VerifC01Seams{
		Remove: func(name string) error {
			findSession(name).pre()
			err := cur.Remove(name)
			if s := findSession(name); s != nil {
				if n, ok := parseManifestNo(filepath.Base(name)); ok {
					s.record(fsop{kind: "mrm", a: n, tok: fmt.Sprintf("mrm(%d)", n)}, false)
				} else {
					s.record(fsop{kind: "rm", tok: "rm(" + filepath.Base(name) + ")"}, false)
				}
			}
			return err
		},
		RemoveDir: func(path string) error {
			findSession(path).pre()
			err := cur.RemoveDir(path)
			if s := findSession(path); s != nil {
				if fam, f, ok := parseTablePath(s.root, path); ok {
					s.record(fsop{kind: "trm", a: fam, b: f, tok: fmt.Sprintf("trm(%d/%d)", fam, f)}, false)
				} else {
					s.record(fsop{kind: "rmdir", tok: "rmdir(" + filepath.Base(path) + ")"}, false)
				}
			}
			return err
		},
		MkDir: func(path string) error {
			gateAt("pre-mkfam")
			defer gateAt("post-mkfam")
			findSession(path).pre()
			existed := exists(path)
			err := cur.MkDir(path)
			if s := findSession(path); s != nil && !existed {
				if path == s.root {
					s.record(fsop{kind: "mkstore", tok: "mkstore"}, false)
				} else {
					n, _ := strconv.ParseInt(filepath.Base(path), 10, 64)
					s.record(fsop{kind: "mkfam", a: n, tok: fmt.Sprintf("mkfam(%d)", n)}, false)
				}
			}
			return err
		},
		EncodeToml: func(fileName string, v interface{}) error {
			gateAt("pre-opts")
			findSession(fileName).pre()
			err := cur.EncodeToml(fileName, v)
			if s := findSession(fileName); s != nil {
				s.record(fsop{kind: "opts", tok: optsTok(fileName)}, false)
			}
			return err
		},
		NewFileLock: func(fileName string) (lockers.FileLock, error) {
			findSession(fileName).pre()
			existed := exists(fileName)
			l, err := cur.NewFileLock(fileName)
			s := findSession(fileName)
			if err != nil || s == nil {
				return l, err
			}
			if !existed {
				s.record(fsop{kind: "lock+", tok: "lock+"}, false)
			}
			return &lockWrap{FileLock: l, s: s}, nil
		},
	})
	return func() { r3(); r2(); r1() }
}

// canonical trace: records written during initJournal before the store record are sorted by family
// id; maximal runs of table removals (families iterate in Go map order) by (family, number); runs of
// family mkdirs by name.
func traceTok(ops []fsop) string {
	out := make([]fsop, 0, len(ops))
	inInit := false
	var snap []fsop
	for _, o := range ops {
		switch {
		case o.kind == "mcreate":
			inInit = true
			out = append(out, o)
		case o.kind == "rec" && inInit && o.b != version.StoreFamilyID:
			snap = append(snap, o)
		case o.kind == "rec" && inInit:
			sort.SliceStable(snap, func(i, j int) bool { return snap[i].b < snap[j].b })
			out = append(out, snap...)
			snap = nil
			out = append(out, o)
		default:
			if o.kind == "curtmp" {
				inInit = false
			}
			out = append(out, snap...)
			snap = nil
			out = append(out, o)
		}
	}
	out = append(out, snap...)
	for i := 0; i < len(out); {
		k := out[i].kind
		if k != "trm" && k != "mkfam" {
			i++
			continue
		}
		j := i
		for j < len(out) && out[j].kind == k {
			j++
		}
		run := out[i:j]
		sort.SliceStable(run, func(x, y int) bool {
			if run[x].a != run[y].a {
				return run[x].a < run[y].a
			}
			return run[x].b < run[y].b
		})
		i = j
	}
	toks := make([]string, len(out))
	for i, o := range out {
		toks[i] = o.tok
	}
	return "[" + strings.Join(toks, ";") + "]"
}

// ambiguous[i] = the disk after the first i+1 operations of ops may differ from the model's because
// position i is strictly inside a run of table removals over at least two families.
func ambiguous(ops []fsop) []bool {
	amb := make([]bool, len(ops))
	for i := 0; i < len(ops); {
		if ops[i].kind != "trm" {
			i++
			continue
		}
		j := i
		fams := map[int64]bool{}
		for j < len(ops) && ops[j].kind == "trm" {
			fams[ops[j].a] = true
			j++
		}
		if len(fams) > 1 {
			for x := i; x < j-1; x++ {
				amb[x] = true
			}
		}
		i = j
	}
	return amb
}

// ---------------------------------------------------------------------------------- observations

type famObs struct {
	name    string
	id      int
	ver     string              // canonical version token
	content map[uint32][]uint64 // per key the sorted values Snapshot.Load delivers
	seqs    string
	files   []int64 // every table number of the version (all levels)
	rollup  []int64 // keys of the rollup map
	rollTok string  // rollup marks: file:[target intervals], sorted by file
	refTok  string  // reference files: store(hex)/family:[files], sorted
	loadErr string
}

type storeObs struct {
	manifest, next int64
	fams           []famObs
}

func observe(st kv.Store, levels int) storeObs {
	var o storeObs
	o.manifest, o.next = kv.VerifC01Numbers(st)
	names := st.ListFamilyNames()
	for _, name := range names {
		f := st.GetFamily(name)
		if f == nil {
			continue
		}
		fo := famObs{name: name, id: int(f.ID()), content: map[uint32][]uint64{}}
		snap := f.GetSnapshot()
		v := snap.GetCurrent()
		type fileEnt struct {
			lvl int
			n   int64
			tok string
		}
		var fes []fileEnt
		for lvl := 0; lvl < levels; lvl++ {
			for _, fm := range v.GetFiles(lvl) {
				n := fm.GetFileNumber().Int64()
				fes = append(fes, fileEnt{lvl, n, fmt.Sprintf("(%d,%d,%d,%d,%d)", lvl, n, fm.GetMinKey(), fm.GetMaxKey(), fm.GetFileSize())})
				fo.files = append(fo.files, n)
			}
		}
		sort.Slice(fes, func(i, j int) bool {
			if fes[i].lvl != fes[j].lvl {
				return fes[i].lvl < fes[j].lvl
			}
			return fes[i].n < fes[j].n
		})
		var sb strings.Builder
		sb.WriteString("f=")
		for _, e := range fes {
			sb.WriteString(e.tok)
		}
		seqs := v.GetSequences()
		var leaders []int
		for l := range seqs {
			leaders = append(leaders, int(l))
		}
		sort.Ints(leaders)
		var sp []string
		for _, l := range leaders {
			sp = append(sp, fmt.Sprintf("%d:%d", l, seqs[int32(l)]))
		}
		fo.seqs = strings.Join(sp, ",")
		sb.WriteString(";s=" + fo.seqs)
		roll := v.GetRollupFiles()
		var rk []int64
		for k := range roll {
			rk = append(rk, k.Int64())
		}
		sort.Slice(rk, func(i, j int) bool { return rk[i] < rk[j] })
		fo.rollup = rk
		var rp []string
		for _, k := range rk {
			var is []string
			for _, iv := range roll[table.FileNumber(k)] {
				is = append(is, strconv.FormatInt(int64(iv), 10))
			}
			rp = append(rp, fmt.Sprintf("%d:[%s]", k, strings.Join(is, ",")))
		}
		fo.rollTok = strings.Join(rp, ",")
		sb.WriteString(";r=" + fo.rollTok)
		var xp []string
		for store, fams := range v.GetAllReferenceFiles() {
			for fid, files := range fams {
				var fs []string
				for _, x := range files {
					fs = append(fs, strconv.FormatInt(x.Int64(), 10))
				}
				xp = append(xp, fmt.Sprintf("%x/%d:[%s]", []byte(store), fid, strings.Join(fs, ",")))
			}
		}
		sort.Strings(xp)
		fo.refTok = strings.Join(xp, ",")
		sb.WriteString(";x=" + fo.refTok)
		fo.ver = sb.String()
		for k := uint32(0); k < maxKeyU; k++ {
			err := snap.Load(k, func(value []byte) error {
				if len(value) != 8 {
					return fmt.Errorf("value of key %d has %d bytes", k, len(value))
				}
				fo.content[k] = append(fo.content[k], binary.BigEndian.Uint64(value))
				return nil
			})
			if err != nil {
				fo.loadErr = err.Error()
				break
			}
		}
		for k := range fo.content {
			vs := fo.content[k]
			sort.Slice(vs, func(i, j int) bool { return vs[i] < vs[j] })
		}
		snap.Close()
		o.fams = append(o.fams, fo)
	}
	sort.Slice(o.fams, func(i, j int) bool { return o.fams[i].id < o.fams[j].id })
	return o
}

func (o storeObs) stateTok() string {
	var ps []string
	for _, f := range o.fams {
		ps = append(ps, fmt.Sprintf("F%s/%d{%s}", f.name, f.id, f.ver))
	}
	return fmt.Sprintf("m=%d n=%d %s", o.manifest, o.next, strings.Join(ps, " "))
}

func (f famObs) contentTok() string {
	var keys []int
	for k := range f.content {
		keys = append(keys, int(k))
	}
	sort.Ints(keys)
	var ps []string
	for _, k := range keys {
		var vs []string
		for _, v := range f.content[uint32(k)] {
			vs = append(vs, strconv.FormatUint(v, 10))
		}
		ps = append(ps, fmt.Sprintf("%d=[%s]", k, strings.Join(vs, ",")))
	}
	if f.loadErr != "" {
		ps = append(ps, "!loaderr")
	}
	return strings.Join(ps, ";")
}

func (o storeObs) contentAll() string {
	var ps []string
	for _, f := range o.fams {
		ps = append(ps, fmt.Sprintf("F%s{%s}", f.name, f.contentTok()))
	}
	return strings.Join(ps, " ")
}

// kvKey: families, their key/value content, their sequences.
func (o storeObs) kvKey() string {
	var ps []string
	for _, f := range o.fams {
		ps = append(ps, fmt.Sprintf("F%s/%d{%s|%s}", f.name, f.id, f.contentTok(), f.seqs))
	}
	return strings.Join(ps, " ")
}

// propKey is what the property speaks about — the committed content of every family: key/value content,
// sequences, AND the rollup bookkeeping the commits carried (rollup marks of flushed tables per target
// interval, reference files per source store / family). The property's histories name rollup-bookkeeping
// operations, and "the single operation in flight may appear entirely or not at all" speaks about the whole
// commit: a flush's table without its rollup marks (or marks without the table) is a half-applied flush, and a
// reference record recovered under another store name is not the committed state.
func (o storeObs) propKey() string {
	var ps []string
	for _, f := range o.fams {
		ps = append(ps, fmt.Sprintf("F%s/%d{%s|%s|r=%s|x=%s}", f.name, f.id, f.contentTok(), f.seqs, f.rollTok, f.refTok))
	}
	return strings.Join(ps, " ")
}

func lsTok(root string, o storeObs) string {
	var ms []int64
	ents, _ := os.ReadDir(root)
	for _, e := range ents {
		if n, ok := parseManifestNo(e.Name()); ok {
			ms = append(ms, n)
		}
	}
	sort.Slice(ms, func(i, j int) bool { return ms[i] < ms[j] })
	rd := func(name string) string {
		b, err := os.ReadFile(filepath.Join(root, name))
		if err != nil {
			return "-"
		}
		if n, ok := parseManifestNo(string(b)); ok {
			return strconv.FormatInt(n, 10)
		}
		return "?" + hex.EncodeToString(b)
	}
	var fp []string
	for _, f := range o.fams {
		var ns []int64
		es, _ := os.ReadDir(filepath.Join(root, f.name))
		for _, e := range es {
			if strings.HasSuffix(e.Name(), ".sst") {
				if n, err := strconv.ParseInt(strings.TrimSuffix(e.Name(), ".sst"), 10, 64); err == nil {
					ns = append(ns, n)
				}
			}
		}
		sort.Slice(ns, func(i, j int) bool { return ns[i] < ns[j] })
		fp = append(fp, fmt.Sprintf("F%s=[%s]", f.name, joinInts(ns)))
	}
	return fmt.Sprintf("M=[%s] cur=%s tmp=%s %s", joinInts(ms), rd(version.VerifC01CurrentFileName()),
		rd(version.VerifC01CurrentFileName()+"."+version.TmpSuffix), strings.Join(fp, " "))
}

func joinInts(ns []int64) string {
	ps := make([]string, len(ns))
	for i, n := range ns {
		ps[i] = strconv.FormatInt(n, 10)
	}
	return strings.Join(ps, ",")
}

func copyDir(src, dst string) error {
	fi, err := os.Stat(src)
	if err != nil {
		if os.IsNotExist(err) {
			return nil // image of "no directory yet"
		}
		return err
	}
	if err := os.MkdirAll(dst, fi.Mode()|0o700); err != nil {
		return err
	}
	ents, err := os.ReadDir(src)
	if err != nil {
		return err
	}
	for _, e := range ents {
		s, d := filepath.Join(src, e.Name()), filepath.Join(dst, e.Name())
		if e.IsDir() {
			if err := copyDir(s, d); err != nil {
				return err
			}
			continue
		}
		in, err := os.Open(s)
		if err != nil {
			return err
		}
		out, err := os.Create(d)
		if err != nil {
			in.Close()
			return err
		}
		_, err = io.Copy(out, in)
		in.Close()
		out.Close()
		if err != nil {
			return err
		}
	}
	return nil
}

// ---------------------------------------------------------------------------------- one history

type image struct {
	k     int // number of FS operations completed
	path  string
	extra bool   // same model prefix as the previous image: half-written table / truncated-but-unwritten file
	extraKind string
	prev  string // kind of the operation just completed
	opIdx int    // index inside the current operation's trace (len(ops) at capture)
}

type flusherSt struct {
	fl   kv.Flusher
	file int64 // -1: no builder
	kvs  [][2]int64
	seqs [][2]int64
}

type hist struct {
	c        *core.Ctx
	rng      *rand.Rand
	base     string // temp dir of the case
	root     string // current main store directory
	gen      int    // number of main directories used so far
	sess     *session
	levels   int
	rollup   []int64
	store    kv.Store
	flushers map[string]*flusherSt
	fams     []string
	thr      map[string]int
	imgs     []image
	imgSeq   int
	lastObs  string // propKey of the committed state (after the last completed operation)
	closedSz map[string]int64
	nFlush   int
	nImages  int
	failed   bool
	noImages bool   // bulk phase of a directed scenario: no crash images (the FS operations are still traced)
	probeFam string // while the images of a createfam are checked: the family being created ...
	probeThr int    // ... and its CompactThreshold
	via      map[string]kv.Family // flushes of this family go through this handle (a creator's own handle) instead of GetFamily
	scripted bool   // a directed scenario: no random deaths
	afterOverride string // an operation that ends with the store closed: the committed state after it, read from the directory
	forceDie string // die once at the first image whose previous operation has this kind (inside the next op that has one)
}

func (h *hist) option() kv.StoreOption {
	o := kv.DefaultStoreOption()
	o.Levels = h.levels
	for _, r := range h.rollup {
		o.Rollup = append(o.Rollup, timeutil.Interval(r))
	}
	return o
}

func (h *hist) newSession(root string) {
	if h.sess != nil {
		dropSession(h.sess)
	}
	total := 0
	csz := map[string]int64{}
	cont := map[string]string{}
	if h.sess != nil {
		total, csz, cont = h.sess.total, h.sess.closedSz, h.sess.content
	}
	h.sess = &session{root: root, total: total, closedSz: csz, content: cont, forceFlu: true}
	h.sess.onOp = func(extra bool) { h.takeImage(extra) }
	addSession(h.sess)
	h.root = root
}

func (h *hist) takeImage(extra bool) {
	if h.noImages {
		return
	}
	h.imgSeq++
	p := filepath.Join(h.base, fmt.Sprintf("img-%d", h.imgSeq))
	if err := copyDir(h.root, p); err != nil {
		h.c.Note("image copy failed: " + err.Error())
		return
	}
	prev := ""
	if n := len(h.sess.ops); n > 0 {
		prev = h.sess.ops[n-1].kind
	}
	ek := ""
	if extra {
		ek = h.sess.extraKind
		h.sess.extraKind = ""
	}
	h.imgs = append(h.imgs, image{k: h.sess.total, path: p, extra: extra, extraKind: ek, prev: prev, opIdx: len(h.sess.ops)})
}

// guard runs f; a panic inside lindb becomes an oracle failure and the output "panic".
func (h *hist) guard(op string, f func() string) (out string) {
	defer func() {
		if r := recover(); r != nil {
			out = "panic"
			h.failed = true
			h.c.Fail("panic", fmt.Sprintf("op %q panicked: %v", op, r))
		}
	}()
	return f()
}

// reopenImage opens a crash image with the real store manager and reports what it shows.
type reopened struct {
	ok     bool
	err    string
	trace  string
	obs    storeObs
	ls     string
	traceN int
	path   string
	sizes  map[string]int64 // fam/f -> size of the table file in the image (taken before cleanup)
	probe  string           // createfam images: present | created | failed:<error>
}

func (h *hist) reopenImage(path string) (r reopened) {
	s := &session{root: path, closedSz: map[string]int64{}, content: map[string]string{}}
	addSession(s)
	defer dropSession(s)
	defer func() {
		if rec := recover(); rec != nil {
			r.ok = false
			r.err = fmt.Sprintf("panic: %v", rec)
		}
	}()
	st, err := kv.GetStoreManager().CreateStore(path, h.option())
	r.trace = traceTok(s.ops)
	r.traceN = len(s.ops)
	if err != nil {
		r.err = err.Error()
		return r
	}
	r.ok = true
	r.obs = observe(st, h.levels)
	r.ls = lsTok(path, r.obs)
	r.sizes = map[string]int64{}
	for _, f := range r.obs.fams {
		for _, n := range f.files {
			if fi, e := os.Stat(filepath.Join(path, f.name, version.Table(table.FileNumber(n)))); e == nil {
				r.sizes[fmt.Sprintf("%s/%d", f.name, n)] = fi.Size()
			} else {
				r.sizes[fmt.Sprintf("%s/%d", f.name, n)] = -1
			}
		}
	}
	if h.probeFam != "" {
		// the family whose creation was in flight: it is there with its option, or it can be created now
		if st.GetFamily(h.probeFam) != nil {
			r.probe = "present"
		} else if f, err := st.CreateFamily(h.probeFam, kv.FamilyOption{Merger: mergerName, CompactThreshold: h.probeThr}); err != nil {
			r.probe = "failed:" + err.Error()
		} else {
			snap := f.GetSnapshot()
			n := len(snap.GetCurrent().GetAllFiles())
			snap.Close()
			if n == 0 {
				r.probe = "created"
			} else {
				r.probe = fmt.Sprintf("failed:created family already has %d files", n)
			}
		}
	}
	s.muted = true
	_ = kv.GetStoreManager().CloseStore(path)
	return r
}

// checkImages reopens every image taken during the operation that just ran. before/after are the
// property-level observations of the live store around the operation.
func (h *hist) checkImages(opDesc string, ops []fsop, before, after string, pristine string) {
	amb := ambiguous(ops)
	// window of initJournal: after the new manifest was created, before CURRENT.tmp is written
	mi, ri, newNo := -1, -1, int64(0)
	for i, o := range ops {
		if o.kind == "mcreate" && mi < 0 {
			mi, newNo = i, o.a
		}
		if (o.kind == "currename" || o.kind == "curtmp") && ri < 0 {
			ri = i
		}
	}
	for _, im := range h.imgs {
		h.nImages++
		// partial-manifest variant: the manifest being written (NOT named by CURRENT) loses the last
		// byte of its last record; the image is then reopened twice (see junkVariant)
		jpath := ""
		if mi >= 0 && !im.extra && im.opIdx > mi+1 && (ri < 0 || im.opIdx <= ri) {
			mp := filepath.Join(im.path, version.ManifestFileName(table.FileNumber(newNo)))
			if fi, err := os.Stat(mp); err == nil && fi.Size() > 0 {
				h.imgSeq++
				jpath = filepath.Join(h.base, fmt.Sprintf("junk-%d", h.imgSeq))
				if err := copyDir(im.path, jpath); err != nil || os.Truncate(filepath.Join(jpath, filepath.Base(mp)), fi.Size()-1) != nil {
					os.RemoveAll(jpath)
					jpath = ""
				}
			}
		}
		path := im.path
		if path == pristine {
			// the history will continue on this image: reopen a copy, keep the image untouched
			h.imgSeq++
			path = filepath.Join(h.base, fmt.Sprintf("cp-%d", h.imgSeq))
			if err := copyDir(im.path, path); err != nil {
				h.c.Note("image copy failed: " + err.Error())
				continue
			}
		}
		r := h.reopenImage(path)
		if path != im.path {
			os.RemoveAll(path)
		}
		next := "end"
		if im.opIdx < len(ops) {
			next = ops[im.opIdx].kind
		}
		prev := im.prev
		if im.opIdx == 0 {
			prev = "start"
		}
		if im.extra && im.extraKind == "untraced-fs-change" {
			// the directory changed between these two traced operations through a path no I/O seam reports
			next = "[untraced directory change]>" + next
		}
		if im.extra && im.extraKind != "" {
			h.c.Branch("point:" + im.extraKind)
		} else if im.extra {
			h.c.Branch("point:half-written-table")
		} else {
			h.c.Branch("point:" + prev + ">" + next)
		}
		isAmb := im.opIdx >= 1 && im.opIdx-1 < len(amb) && amb[im.opIdx-1]
		opName := "crash"
		if isAmb {
			opName = "crashx"
		}
		var out string
		if !r.ok {
			out = "err fs=" + r.trace
			if isAmb {
				out = "err fs=*"
			}
			h.c.Fail("reopen-error", fmt.Sprintf("during %s: reopening the image after %d FS operations (%s>%s) failed: %s", opDesc, im.k, prev, next, r.err))
		} else {
			tr := r.trace
			if isAmb {
				tr = "*"
			}
			out = fmt.Sprintf("ok fs=%s st=%s c=%s ls=%s fresh=%d", tr, r.obs.stateTok(), r.obs.contentAll(), r.ls, r.obs.next)
			// ---- the property, on the implementation's own observations
			got := r.obs.propKey()
			if got != before && got != after {
				h.c.Fail("content-not-atomic", fmt.Sprintf("during %s, image after %d FS operations (%s>%s): recovered %q is neither the state before %q nor after %q",
					opDesc, im.k, prev, next, got, before, after))
			}
			for _, f := range r.obs.fams {
				if f.loadErr != "" {
					h.c.Fail("recovered-table-unreadable", fmt.Sprintf("during %s, image %d: family %s: %s", opDesc, im.k, f.name, f.loadErr))
				}
				for _, n := range append(append([]int64{}, f.files...), f.rollup...) {
					if n >= r.obs.next {
						h.c.Fail("fileno-not-fresh", fmt.Sprintf("during %s, image %d: family %s references table %d but the next file number after recovery is %d",
							opDesc, im.k, f.name, n, r.obs.next))
					}
				}
				for _, n := range f.files {
					key := fmt.Sprintf("%s/%d", f.name, n)
					want, closed := h.sess.closedSz[key]
					if !closed || r.sizes[key] != want {
						h.c.Fail("partial-table-visible", fmt.Sprintf("during %s, image %d: family %s references table %d which is not a completely written file", opDesc, im.k, f.name, n))
					}
				}
			}
			if r.obs.manifest >= r.obs.next {
				h.c.Fail("fileno-not-fresh", fmt.Sprintf("during %s, image %d: manifest number %d >= next file number %d", opDesc, im.k, r.obs.manifest, r.obs.next))
			}
		}
		if h.probeFam != "" && opName == "crash" {
			pr := "-"
			if r.ok {
				pr = r.probe
				if strings.HasPrefix(pr, "failed") {
					h.c.Fail("family-neither-present-nor-creatable", fmt.Sprintf("during createfam %s, image after %d FS operations (%s>%s): after reopening the family is not there and CreateFamily cannot create it: %s",
						h.probeFam, im.k, prev, next, strings.TrimPrefix(pr, "failed:")))
					pr = "failed"
				}
			}
			h.c.Op(fmt.Sprintf("crashf %d %s %d", im.k, h.probeFam, h.probeThr), out+" probe="+pr)
		} else {
			h.c.Op(fmt.Sprintf("%s %d", opName, im.k), out)
		}
		if jpath != "" {
			h.junkVariant(opDesc, im, jpath, newNo, before, after)
			os.RemoveAll(jpath)
		}
	}
}

// junkVariant: a crash image in which the manifest under construction ends in a partial record.
// Within C01's quantifier such a file exists when a snapshot record is larger than the journal's
// 256 KB write buffer (two write calls); the harness reaches the same disk by cutting a small one.
// CURRENT does not name that file, so recovery must not care: the image is reopened, closed and
// reopened again (the second open reads what the first one wrote under the re-used MANIFEST name).
func (h *hist) junkVariant(opDesc string, im image, jpath string, newNo int64, before, after string) {
	h.c.Branch("region:rollover-over-partial-manifest")
	r1 := h.reopenImage(jpath)
	r2 := reopened{}
	if r1.ok {
		r2 = h.reopenImage(jpath)
	}
	var out string
	switch {
	case !r1.ok:
		out = "err1 fs=" + r1.trace
		h.c.Fail("reopen-error-after-partial-manifest", fmt.Sprintf("during %s, image after %d FS operations with a partial MANIFEST-%06d (not CURRENT): reopening failed: %s", opDesc, im.k, newNo, r1.err))
	case !r2.ok:
		out = "err2 fs1=" + r1.trace + " fs=" + r2.trace
		h.c.Fail("reopen-error-after-partial-manifest", fmt.Sprintf("during %s, image after %d FS operations with a partial MANIFEST-%06d (not CURRENT): the first reopen succeeded, the NEXT one failed: %s", opDesc, im.k, newNo, r2.err))
	default:
		out = fmt.Sprintf("ok fs1=%s fs=%s st=%s c=%s ls=%s fresh=%d", r1.trace, r2.trace, r2.obs.stateTok(), r2.obs.contentAll(), r2.ls, r2.obs.next)
		for _, got := range []string{r1.obs.propKey(), r2.obs.propKey()} {
			if got != before && got != after {
				h.c.Fail("content-not-atomic", fmt.Sprintf("during %s, image after %d FS operations with a partial MANIFEST-%06d: recovered %q is neither %q nor %q", opDesc, im.k, newNo, got, before, after))
			}
		}
	}
	h.c.Op(fmt.Sprintf("crashj %d %d", im.k, newNo), out)
}

func (h *hist) dropImages(keep string) {
	for _, im := range h.imgs {
		if im.path != keep {
			os.RemoveAll(im.path)
		}
	}
	h.imgs = nil
}

func pairsTok(ps [][2]int64) string {
	if len(ps) == 0 {
		return "-"
	}
	ss := make([]string, len(ps))
	for i, p := range ps {
		ss[i] = fmt.Sprintf("%d:%d", p[0], p[1])
	}
	return strings.Join(ss, ",")
}

func (h *hist) liveObs() storeObs { return observe(h.store, h.levels) }

// runOp executes one history operation, emits its protocol line, checks its images and (maybe) dies.
// exec returns the op line suffix computed after execution (e.g. sizes) and the output prefix.
func (h *hist) runOp(name string, dieAllowed bool, exec func() (opLine, outPrefix string, withState bool)) {
	before := h.beginOp(name)
	var opLine, out string
	out = h.guard(name, func() string {
		ol, prefix, withState := exec()
		opLine = ol
		s := prefix + " fs=" + traceTok(h.sess.ops)
		if withState && h.store != nil {
			s += " st=" + h.liveObs().stateTok()
		}
		return s
	})
	if opLine == "" {
		opLine = name
	}
	h.finishOp(name, opLine, out, before, dieAllowed)
}

// beginOp starts the recording of one protocol operation: its FS trace and crash images.
func (h *hist) beginOp(name string) (before string) {
	h.sess.ops = nil
	h.imgs = nil
	if name == "createfam" {
		h.takeImage(false) // the cut before the first FS operation: the family must still be creatable
	}
	h.sess.lastPrint = dirPrint(h.root)
	return h.lastObs
}

// finishOp emits the protocol line of the operation that just ran, checks its crash images and (maybe) dies.
func (h *hist) finishOp(name, opLine, out, before string, dieAllowed bool) {
	h.sess.pre() // a directory change after the operation's last traced FS operation
	ops := append([]fsop(nil), h.sess.ops...)
	if h.sess.untraced > 0 {
		// the I/O seams no longer cover every file-system operation of the code: the model cannot know this trace
		out += fmt.Sprintf(" untraced-fs-changes=%d", h.sess.untraced)
		h.c.Branch("region:untraced-fs-change")
		h.sess.untraced = 0
	}
	h.c.Op(opLine, out)
	after := before
	if h.store != nil && !h.failed {
		lo := h.liveObs()
		after = lo.propKey()
		// an open commits nothing: the store it returns shows exactly the committed state the directory held
		// (the content of the commits that had returned success), not merely "whatever recovery yields"
		if name == "open" && after != before {
			h.c.Fail("reopen-changed-committed-state", fmt.Sprintf("the store was opened on a directory whose committed state is %q, it shows %q", before, after))
		}
		// the allocator of the LIVE store: the number the next table gets is above every number the current
		// versions reference (property clause "never reuses the number of a file the state still references")
		for _, f := range lo.fams {
			for _, n := range append(append([]int64{}, f.files...), f.rollup...) {
				if n >= lo.next {
					h.c.Fail("fileno-not-fresh-live", fmt.Sprintf("after %s: family %s references table %d but the live store's next file number is %d",
						name, f.name, n, lo.next))
				}
			}
		}
	}
	if h.afterOverride != "" {
		after = h.afterOverride
	}
	// codec tie: every record the implementation wrote is re-encoded / decoded by the model
	for _, o := range ops {
		if o.kind == "rec" && o.logs != nil {
			h.c.Op(fmt.Sprintf("enc %d %s", o.b, strings.Join(o.logs, " ")), hex.EncodeToString(o.raw))
			h.c.Op("dec "+hex.EncodeToString(o.raw), strings.TrimSpace(fmt.Sprintf("%d %s", o.b, strings.Join(o.logs, " "))))
		}
	}
	// process death inside this operation? (chosen first: that image must stay untouched)
	var dieAt *image
	if dieAllowed && h.forceDie != "" && !h.failed {
		for _, im := range h.imgs {
			if !im.extra && im.opIdx > 0 && im.opIdx < len(ops) && im.prev == h.forceDie {
				x := im
				dieAt = &x
				h.forceDie = ""
				break
			}
		}
	}
	if dieAt == nil && !h.scripted && dieAllowed && len(ops) > 0 && !h.failed && h.rng.Intn(100) < 13 {
		amb := ambiguous(ops)
		var cands []image
		for _, im := range h.imgs {
			if im.extra || im.opIdx == 0 {
				continue
			}
			if amb[im.opIdx-1] {
				continue
			}
			cands = append(cands, im)
		}
		if len(cands) > 0 {
			im := cands[h.rng.Intn(len(cands))]
			dieAt = &im
		}
	}
	pristine := ""
	if dieAt != nil {
		pristine = dieAt.path
	}
	h.checkImages(name, ops, before, after, pristine)
	h.lastObs = after
	if dieAt != nil && !h.failed {
		h.die(*dieAt, ops, before, after)
		return
	}
	h.dropImages("")
}

// die: the process is killed after im.k FS operations; the history continues on that image.
func (h *hist) die(im image, ops []fsop, before, after string) {
	next := "end"
	if im.opIdx < len(ops) {
		next = ops[im.opIdx].kind
	}
	h.c.Branch("die:" + im.prev + ">" + next)
	// abandon the live store (its own directory is no longer the history's disk)
	h.sess.muted = true
	for _, fs := range h.flushers {
		fs.fl.Release()
	}
	h.flushers = map[string]*flusherSt{}
	if h.store != nil {
		_ = kv.GetStoreManager().CloseStore(h.root)
		h.store = nil
	}
	old := h.root
	h.dropImages(im.path)
	os.RemoveAll(old)
	total := im.k
	h.newSession(im.path)
	h.sess.total = total
	h.c.Op(fmt.Sprintf("die %d", im.k), "ok")
	// which committed state does the disk hold? (the oracle already checked it is one of the two)
	r := h.reopenProbe(im.path)
	if r == after {
		h.lastObs = after
	} else {
		h.lastObs = before
	}
}

// reopenProbe reads the property-level state of a directory through a throw-away copy.
func (h *hist) reopenProbe(path string) string {
	h.imgSeq++
	p := filepath.Join(h.base, fmt.Sprintf("probe-%d", h.imgSeq))
	if err := copyDir(path, p); err != nil {
		return ""
	}
	defer os.RemoveAll(p)
	r := h.reopenImage(p)
	if !r.ok {
		return ""
	}
	return r.obs.propKey()
}

func (h *hist) doOpen() {
	h.runOp("open", true, func() (string, string, bool) {
		st, err := kv.GetStoreManager().CreateStore(h.root, h.option())
		if err != nil {
			h.c.Fail("reopen-error", "open of the history's own directory failed: "+err.Error())
			h.failed = true
			return "open", "err", false
		}
		h.store = st
		if h.sess.existed > 0 {
			h.c.Branch("region:rollover-manifest-already-exists")
			h.sess.existed = 0
		}
		return "open", "ok", true
	})
	if h.store != nil {
		h.fams = nil
		names := h.store.ListFamilyNames()
		sort.Strings(names)
		h.fams = names
	}
}

func (h *hist) doCreateFamily(name string, thr int) {
	h.thr[name] = thr
	h.probeFam, h.probeThr = name, thr
	defer func() { h.probeFam = "" }()
	h.runOp("createfam", true, func() (string, string, bool) {
		_, err := h.store.CreateFamily(name, kv.FamilyOption{Merger: mergerName, CompactThreshold: thr})
		line := fmt.Sprintf("createfam %s %d", name, thr)
		if err != nil {
			return line, "err", false
		}
		return line, "ok", true
	})
	found := false
	for _, f := range h.fams {
		if f == name {
			found = true
		}
	}
	if !found && h.store != nil && h.store.GetFamily(name) != nil {
		h.fams = append(h.fams, name)
		h.thr[name] = thr
	}
}

func (h *hist) doFlushStart(name string, seqs, kvs [][2]int64) {
	h.runOp("fstart", true, func() (string, string, bool) {
		f := h.store.GetFamily(name)
		if v, ok := h.via[name]; ok && v != nil {
			f = v
		}
		fl := f.NewFlusher()
		for _, s := range seqs {
			fl.Sequence(int32(s[0]), s[1])
		}
		for _, p := range kvs {
			var b [8]byte
			binary.BigEndian.PutUint64(b[:], uint64(p[1]))
			_ = fl.Add(uint32(p[0]), b[:])
		}
		fs := &flusherSt{fl: fl, file: -1, kvs: kvs, seqs: seqs}
		for _, o := range h.sess.ops {
			if o.kind == "tcreate" {
				fs.file = o.b
			}
		}
		h.flushers[name] = fs
		return fmt.Sprintf("fstart %s %s %s", name, pairsTok(seqs), pairsTok(kvs)), "ok", false
	})
}

func (h *hist) doFlushCommit(name string) {
	fs := h.flushers[name]
	bo := h.liveObs()
	h.runOp("fcommit", true, func() (string, string, bool) {
		err := fs.fl.Commit()
		if err == nil {
			h.checkFlushSemantics(name, fs, bo, h.liveObs())
		}
		fs.fl.Release()
		delete(h.flushers, name)
		var size int64
		if fs.file >= 0 {
			size = h.sess.closedSz[fmt.Sprintf("%s/%d", name, fs.file)]
		}
		line := fmt.Sprintf("fcommit %s %d", name, size)
		if err != nil {
			return line, "err", true
		}
		h.nFlush++
		return line, "ok", true
	})
}

// doFlushFail: Commit of a flusher whose table close fails with an injected ENOSPC on the final flush.
// The property's clause "a half-written table is never visible": Commit must return the error and
// commit nothing.
func (h *hist) doFlushFail(name string) {
	fs := h.flushers[name]
	h.runOp("flushfail", true, func() (string, string, bool) {
		h.sess.failClose = fmt.Sprintf("%s/%d", name, fs.file)
		err := fs.fl.Commit()
		h.sess.failClose = ""
		fs.fl.Release()
		delete(h.flushers, name)
		line := "flushfail " + name
		h.c.Branch("region:table-close-io-error")
		if err == nil {
			h.c.Fail("commit-succeeded-on-failed-table", fmt.Sprintf("family %s: the close of table %d failed (ENOSPC on the final flush) but Commit returned success", name, fs.file))
			return line, "committed", true
		}
		if got := h.liveObs().propKey(); got != h.lastObs {
			h.c.Fail("failed-flush-changed-state", fmt.Sprintf("family %s: Commit returned an error but the store shows %q instead of %q", name, got, h.lastObs))
		}
		return line, "ok", true
	})
}

func (h *hist) doCompact(name string) {
	h.runOp("compact", true, func() (string, string, bool) {
		f := h.store.GetFamily(name)
		bo := h.liveObs()
		err := kv.VerifC01CompactSync(f)
		if err == nil {
			h.checkCompactSemantics(name, bo, h.liveObs())
		}
		var size int64
		kind := "none"
		var created int64 = -1
		for _, o := range h.sess.ops {
			if o.kind == "tcreate" {
				created = o.b
			}
			if o.kind == "rec" {
				kind = "merge"
				if created < 0 {
					// a record without an output table: trivial move or pure deletion
					isMove := false
					for _, l := range o.logs {
						if strings.HasPrefix(l, "nf,") {
							isMove = true
						}
					}
					if isMove {
						kind = "move"
					}
				}
			}
		}
		if created >= 0 {
			size = h.sess.closedSz[fmt.Sprintf("%s/%d", name, created)]
		}
		if kind == "none" {
			// no record: either below the threshold (none) or a merge of nothing (merge)
			snap := f.GetSnapshot()
			n0 := snap.GetCurrent().NumberOfFilesInLevel(0)
			snap.Close()
			if n0 >= h.thr[name] {
				kind = "merge"
			}
		}
		line := fmt.Sprintf("compact %s %d", name, size)
		if err != nil {
			return line, "err kind=" + kind, true
		}
		h.c.Branch("compact:" + kind)
		return line, "ok kind=" + kind, true
	})
}

func (h *hist) doEdit(name string, toks []string) {
	h.runOp("edit", true, func() (string, string, bool) {
		f := h.store.GetFamily(name)
		el := version.NewEditLog(f.ID())
		for _, t := range toks {
			p := strings.Split(t, ",")
			num := func(i int) int64 { n, _ := strconv.ParseInt(p[i], 10, 64); return n }
			switch p[0] {
			case "dr":
				el.Add(version.CreateDeleteRollupFile(table.FileNumber(num(1)), timeutil.Interval(num(2))))
			case "nref":
				st, _ := hex.DecodeString(p[1])
				el.Add(version.CreateNewReferenceFile(string(st), version.FamilyID(num(2)), table.FileNumber(num(3))))
			case "dref":
				st, _ := hex.DecodeString(p[1])
				el.Add(version.CreateDeleteReferenceFile(string(st), version.FamilyID(num(2)), table.FileNumber(num(3))))
			}
		}
		ok := kv.VerifC01CommitEditLog(f, el)
		line := fmt.Sprintf("edit %s %s", name, strings.Join(toks, " "))
		if !ok {
			return line, "err", true
		}
		return line, "ok", true
	})
}

func (h *hist) doClose() {
	h.runOp("close", false, func() (string, string, bool) {
		err := kv.GetStoreManager().CloseStore(h.root)
		h.store = nil
		if err != nil {
			return "close", "err", false
		}
		return "close", "ok", false
	})
}

func famOf(o storeObs, name string) *famObs {
	for i := range o.fams {
		if o.fams[i].name == name {
			return &o.fams[i]
		}
	}
	return nil
}

// checkFlushSemantics: the content after a committed flush is the content before plus the flushed
// pairs (per key, as multisets); the flushed sequences override. (Direct statement of "content
// produced by the flushes whose commit returned", on the live store.)
func (h *hist) checkFlushSemantics(name string, fs *flusherSt, before, after storeObs) {
	b, a := famOf(before, name), famOf(after, name)
	if b == nil || a == nil {
		h.c.Fail("flush-content-wrong", "family "+name+" missing around a flush commit")
		return
	}
	want := map[uint32][]uint64{}
	for k, vs := range b.content {
		want[k] = append([]uint64(nil), vs...)
	}
	last := int64(-1)
	for _, p := range fs.kvs {
		if p[0] <= last {
			continue // the builder ignores non-increasing keys
		}
		last = p[0]
		want[uint32(p[0])] = append(want[uint32(p[0])], uint64(p[1]))
	}
	for k := range want {
		vs := want[k]
		sort.Slice(vs, func(i, j int) bool { return vs[i] < vs[j] })
	}
	w := famObs{content: want}
	if w.contentTok() != a.contentTok() {
		h.c.Fail("flush-content-wrong", fmt.Sprintf("family %s after commit shows {%s}, expected {%s}", name, a.contentTok(), w.contentTok()))
	}
}

// checkCompactSemantics: with the adding merger a compaction keeps, per key, the sum of the values.
func (h *hist) checkCompactSemantics(name string, before, after storeObs) {
	b, a := famOf(before, name), famOf(after, name)
	if b == nil || a == nil {
		return
	}
	sum := func(f *famObs) string {
		var keys []int
		for k := range f.content {
			keys = append(keys, int(k))
		}
		sort.Ints(keys)
		var ps []string
		for _, k := range keys {
			var s uint64
			for _, v := range f.content[uint32(k)] {
				s += v
			}
			ps = append(ps, fmt.Sprintf("%d=%d", k, s))
		}
		return strings.Join(ps, ",")
	}
	if sum(b) != sum(a) {
		h.c.Fail("compaction-changed-content", fmt.Sprintf("family %s: per-key sums before {%s} after {%s}", name, sum(b), sum(a)))
	}
}

func (a area) Run(c *core.Ctx) error {
	regMerger.Do(func() {
		kv.RegisterMerger(mergerName, func(fl kv.Flusher) (kv.Merger, error) { return &sumMerger{fl: fl}, nil })
	})
	restore := installSeams()
	defer restore()
	maxOps := 12
	if c.Tier == "thorough" {
		maxOps = 40
	}
	for i := 0; i < c.N; i++ {
		if !c.Want(i) {
			continue
		}
		c.Begin(i)
		if err := runCase(c, i, maxOps); err != nil {
			return err
		}
	}
	return nil
}

func runCase(c *core.Ctx, i int, maxOps int) error {
	rng := c.Rng(i)
	base, err := os.MkdirTemp("", "lvh-c01-*")
	if err != nil {
		return err
	}
	defer os.RemoveAll(base)
	h := &hist{c: c, rng: rng, base: base, flushers: map[string]*flusherSt{}, thr: map[string]int{}, levels: 2}
	if rng.Intn(5) == 0 {
		h.levels = 3
	}
	switch rng.Intn(4) {
	case 0:
		h.rollup = []int64{300000}
	case 1:
		h.rollup = []int64{300000, 3600000}
	}
	if i == 10 {
		h.rollup = nil // directed case 10: the rollup goroutine has nothing to roll up, it only runs its cleanup
	}
	if i == 8 {
		h.rollup = []int64{300000} // directed case 8: every flush commit carries rollup marks
	}
	rollTok := "-"
	if len(h.rollup) > 0 {
		rollTok = joinInts(h.rollup)
	}
	c.Op(fmt.Sprintf("reset %d %s", h.levels, rollTok), "ok")
	h.newSession(filepath.Join(base, "store-0"))
	h.lastObs = ""
	defer func() {
		// release everything the case still holds
		h.sess.muted = true
		for _, fs := range h.flushers {
			fs.fl.Release()
		}
		if h.store != nil {
			_ = kv.GetStoreManager().CloseStore(h.root)
		}
		dropSession(h.sess)
	}()
	famNames := []string{"10", "11", "12"}
	if i < nScenarios {
		h.scripted = true
		h.imgs = nil
		h.takeImage(false)
		h.sess.ops = nil
		h.checkImages("start", nil, "", "", "")
		h.dropImages("")
		runScenario(h, i)
		if h.nFlush > 0 && h.nImages > 5 {
			c.NonTrivial()
		}
		tornObservation(h)
		return nil
	}
	nOps := 5 + rng.Intn(maxOps-4)
	// image 0: nothing exists yet
	h.imgs = nil
	h.takeImage(false)
	h.sess.ops = nil
	h.checkImages("start", nil, "", "", "")
	h.dropImages("")
	for step := 0; step < nOps && !h.failed; step++ {
		if h.store == nil {
			h.doOpen()
			if h.store == nil {
				continue // died during the open: that open was the step
			}
		}
		// choose an operation
		var choices []string
		if len(h.fams) < len(famNames) {
			choices = append(choices, "createfam", "createfam")
		}
		if len(h.fams) > 0 {
			choices = append(choices, "fstart", "fstart", "fstart", "fstart", "compact", "compact", "edit")
		}
		if len(h.flushers) > 0 {
			choices = append(choices, "fcommit", "fcommit", "fcommit", "fcommit", "fcommit", "fcommit")
			for _, fs := range h.flushers {
				if fs.file >= 0 {
					choices = append(choices, "flushfail")
					break
				}
			}
		} else if step > 2 {
			choices = append(choices, "close")
		}
		if len(choices) == 0 {
			choices = []string{"createfam"}
		}
		switch choices[rng.Intn(len(choices))] {
		case "createfam":
			var free []string
			for _, n := range famNames {
				used := false
				for _, f := range h.fams {
					if f == n {
						used = true
					}
				}
				if !used {
					free = append(free, n)
				}
			}
			h.doCreateFamily(free[rng.Intn(len(free))], rng.Intn(4))
		case "fstart":
			var free []string
			for _, f := range h.fams {
				if _, ok := h.flushers[f]; !ok {
					free = append(free, f)
				}
			}
			if len(free) == 0 {
				h.doFlushCommit(anyKey(h.flushers, rng))
				break
			}
			name := free[rng.Intn(len(free))]
			var seqs, kvs [][2]int64
			if rng.Intn(3) > 0 {
				nl := 1 + rng.Intn(2)
				for l := 0; l < nl; l++ {
					seqs = append(seqs, [2]int64{int64(l + 1), int64(rng.Intn(1000))})
				}
			}
			if rng.Intn(8) > 0 {
				nk := 1 + rng.Intn(5)
				k := int64(rng.Intn(6))
				for j := 0; j < nk && k < maxKeyU; j++ {
					kvs = append(kvs, [2]int64{k, int64(1 + rng.Intn(1000))})
					if rng.Intn(10) == 0 {
						k -= int64(rng.Intn(3)) // a non-increasing key: the builder drops it
						if k < 0 {
							k = 0
						}
					} else {
						k += int64(1 + rng.Intn(4))
					}
				}
			}
			if len(h.flushers) > 0 {
				c.Branch("region:two-flushers-interleaved")
			}
			h.doFlushStart(name, seqs, kvs)
		case "fcommit":
			h.doFlushCommit(anyKey(h.flushers, rng))
		case "flushfail":
			var ks []string
			for k, fs := range h.flushers {
				if fs.file >= 0 {
					ks = append(ks, k)
				}
			}
			sort.Strings(ks)
			h.doFlushFail(ks[rng.Intn(len(ks))])
		case "compact":
			h.doCompact(h.fams[rng.Intn(len(h.fams))])
		case "edit":
			name := h.fams[rng.Intn(len(h.fams))]
			toks := genEdit(h, name, rng)
			if rng.Intn(3) > 0 {
				h.doEdit(name, toks)
				break
			}
			// the commit as the atomic steps the code has (see sched.go): while the committer is parked at a point
			// outside vs.mutex, complete flushes of random families (allocation + commit) run; no process death
			// inside the window (the parked goroutine belongs to the live store)
			var chunks []func()
			for n := 1 + rng.Intn(2); n > 0; n-- {
				fam := h.fams[rng.Intn(len(h.fams))]
				kvs := h.randKVs(1 + rng.Intn(3))
				var seqs [][2]int64
				if rng.Intn(2) == 0 {
					seqs = [][2]int64{{1, int64(rng.Intn(1000))}}
				}
				chunks = append(chunks, func() {
					if _, busy := h.flushers[fam]; busy || h.failed || h.store == nil {
						return
					}
					h.doFlushStart(fam, seqs, kvs)
					if _, ok := h.flushers[fam]; ok && !h.failed && h.store != nil {
						h.doFlushCommit(fam)
					}
				})
			}
			saved := h.scripted
			h.scripted = true
			h.doSplitEdit(name, toks, chunks)
			h.scripted = saved
			c.Branch("region:random-split-commit")
		case "close":
			h.doClose()
		}
	}
	// final reopen of whatever the history left (clean close first when possible)
	if !h.failed {
		if h.store != nil && len(h.flushers) == 0 {
			h.doClose()
		}
		if h.store == nil {
			h.doOpen()
			c.Branch("region:final-reopen")
		}
	}
	if h.nFlush > 0 && h.nImages > 5 {
		c.NonTrivial()
	}
	tornObservation(h)
	return nil
}

// nScenarios directed histories run first in every seed (values are still drawn from the case's PRNG).
const nScenarios = 11

func (h *hist) randKVs(n int) [][2]int64 {
	var kvs [][2]int64
	k := int64(h.rng.Intn(4))
	for j := 0; j < n && k < maxKeyU; j++ {
		kvs = append(kvs, [2]int64{k, int64(1 + h.rng.Intn(1000))})
		k += int64(1 + h.rng.Intn(3))
	}
	return kvs
}

func (h *hist) flushNow(name string, withSeq bool) {
	var seqs [][2]int64
	if withSeq {
		seqs = [][2]int64{{1, int64(h.rng.Intn(1000))}}
	}
	h.doFlushStart(name, seqs, h.randKVs(2+h.rng.Intn(3)))
	if h.store != nil && !h.failed {
		h.doFlushCommit(name)
	}
}

// runScenario: regions every seed must visit.
//
//	0  committed data, then sessions WITHOUT any commit, each followed by another open (all FS points
//	   inside open are crash images): an idle session must not make the next open touch the live manifest
//	1  a flusher that has created its table but not committed while a compaction of the SAME family
//	   runs (merge + deferred deleteObsoleteFiles), then commits; close; reopen
//	3  a flush whose table close fails with an I/O error (must commit nothing), more flushes, compaction, reopen
//	4  a session whose manifest grows beyond the entry reader's 256 KB buffer, then close / reopen
//	2  an open dies after a snapshot record of the new manifest (CURRENT not switched); the next open
//	   re-uses the same MANIFEST number (the file exists, with content); then two more opens
func runScenario(h *hist, which int) {
	step := func(f func()) {
		if !h.failed {
			f()
		}
	}
	open := func() {
		step(func() {
			if h.store == nil {
				h.doOpen()
			}
		})
	}
	closeS := func() {
		step(func() {
			if h.store != nil && len(h.flushers) == 0 {
				h.doClose()
			}
		})
	}
	thr := 2
	if which == 7 {
		twoObjectsWitness(h)
		return
	}
	if which == 10 {
		multiOutScenario(h)
		return
	}
	open()
	step(func() { h.doCreateFamily("10", thr) })
	switch which {
	case 8:
		// reference records (rollup TARGET bookkeeping) of several source stores with DIFFERENT names inside one
		// manifest, each followed by ordinary commits (other bytes at the same record offsets: the entry reader
		// re-uses one buffer for all records of a manifest), a delete-reference; every crash image of every
		// later commit replays them; close, reopen, a second round on the recovered state, close, reopen
		h.c.Branch("scenario:reference-records-of-several-stores")
		hx := func(s string) string { return hex.EncodeToString([]byte(s)) }
		step(func() { h.flushNow("10", true) })
		step(func() { h.doEdit("10", []string{"nref," + hx("seg/20190702") + ",1,2"}) })
		step(func() { h.flushNow("10", true) })
		step(func() {
			h.doEdit("10", []string{"nref," + hx("s1") + ",2,3", "nref," + hx("a-much-longer-source-store-name/2019") + ",1,4"})
		})
		step(func() { h.doCreateFamily("11", 3) })
		step(func() { h.flushNow("11", true) })
		step(func() { h.doEdit("11", []string{"nref," + hx("day") + ",1,2", "nref," + hx("month") + ",1,2"}) })
		step(func() { h.doEdit("10", []string{"dref," + hx("s1") + ",2,3"}) })
		step(func() { h.flushNow("10", false) })
		closeS()
		open()
		step(func() { h.doEdit("10", []string{"dref," + hx("seg/20190702") + ",1,2", "nref," + hx("seg/20190703") + ",1,5"}) })
		step(func() { h.flushNow("11", false) })
		step(func() { h.doCompact("10") })
		closeS()
		open()
	case 9:
		// close right after the production start of a background compaction (Family.Compact()), see closejob.go
		h.c.Branch("scenario:close-vs-background-compaction")
		step(func() { h.flushNow("10", true) })
		step(func() { h.flushNow("10", false) })
		step(func() { h.doBgCompactClose("10") })
		open()
		step(func() { h.flushNow("10", false) })
		step(func() { h.flushNow("10", false) })
		step(func() { h.flushNow("10", false) })
		step(func() { h.doBgCompactClose("10") })
		open()
	case 6:
		// concurrent creators of one new family, the first one parked at each of its file-system seams in turn;
		// then flushes through BOTH handles (start, commit: all crash images), compaction, close, reopen
		h.c.Branch("scenario:concurrent-creators")
		step(func() { h.flushNow("10", true) })
		for i, point := range []string{"pre-opts", "pre-mkfam", "post-mkfam"} {
			name := []string{"11", "12", "13"}[i]
			var hA, hB kv.Family
			step(func() { hA, hB = h.doRaceCreate(name, 1+i, point) })
			for _, via := range []kv.Family{hA, hB} {
				via := via
				step(func() {
					if via == nil {
						return
					}
					h.via = map[string]kv.Family{name: via}
					h.flushNow(name, true)
					h.via = nil
				})
			}
			h.via = nil
		}
		step(func() { h.doCompact("11") })
		step(func() { h.doCompact("12") })
		closeS()
		open()
		step(func() { h.flushNow("12", false) })
		closeS()
		open()
	case 0:
		h.c.Branch("scenario:idle-session-then-open")
		step(func() { h.flushNow("10", true) })
		step(func() { h.doCreateFamily("11", 0) })
		step(func() { h.flushNow("11", false) })
		for r := 0; r < 3; r++ {
			closeS()
			open() // idle session: nothing is committed before the next close
		}
		step(func() { h.flushNow("10", false) })
		closeS()
		open()
	case 1:
		h.c.Branch("scenario:open-flush-spans-compaction")
		step(func() { h.flushNow("10", true) })
		step(func() { h.flushNow("10", false) })
		step(func() { h.doFlushStart("10", nil, h.randKVs(3)) }) // table created, not committed
		step(func() { h.doCompact("10") })                        // merge of the two level-0 files + cleanup
		step(func() { h.doCompact("10") })                        // below the threshold: cleanup only
		step(func() {
			if _, ok := h.flushers["10"]; ok {
				h.doFlushCommit("10")
			}
		})
		closeS()
		open()
	case 4:
		// a live manifest larger than the 256 KB read buffer of the entry reader: 150 commits whose records
		// carry 150 sequence entries each (≈ 1.9 KB per record), written without crash images; then close,
		// reopen (crash images again: every one replays the big manifest), one more flush, close, reopen
		h.c.Branch("scenario:manifest-larger-than-read-buffer")
		h.noImages = true
		for r := 0; r < 150 && !h.failed; r++ {
			var seqs [][2]int64
			for l := int64(1); l <= 150; l++ {
				seqs = append(seqs, [2]int64{l, int64(1)<<61 + h.rng.Int63n(int64(1)<<60)})
			}
			step(func() { h.doFlushStart("10", seqs, nil) })
			step(func() { h.doFlushCommit("10") })
		}
		h.noImages = false
		if !h.failed {
			if cur, err := os.ReadFile(filepath.Join(h.root, version.VerifC01CurrentFileName())); err == nil {
				if fi, err := os.Stat(filepath.Join(h.root, string(cur))); err == nil && fi.Size() > 262144 {
					h.c.Branch("region:live-manifest>256KB")
				}
			}
		}
		closeS()
		open()
		step(func() { h.flushNow("10", false) })
		closeS()
		open()
	case 5:
		// concurrent committers of one store: a bookkeeping commit of family 10 is in flight while flushes of
		// family 11 AND of family 10 allocate numbers and commit at every point of the commit at which
		// vs.mutex is not held (hand-over-hand schedule, see sched.go); then cleanup, crash images, reopen, flushes
		h.c.Branch("scenario:concurrent-committers")
		step(func() { h.doCreateFamily("11", 3) })
		step(func() { h.flushNow("10", true) })
		step(func() { h.flushNow("11", false) })
		chunk := func() {
			step(func() { h.doFlushStart("11", nil, h.randKVs(2)) })
			step(func() { h.doFlushStart("10", [][2]int64{{1, int64(h.rng.Intn(1000))}}, h.randKVs(2)) })
			step(func() {
				if _, ok := h.flushers["11"]; ok {
					h.doFlushCommit("11")
				}
			})
			step(func() {
				if _, ok := h.flushers["10"]; ok {
					h.doFlushCommit("10")
				}
			})
		}
		step(func() {
			h.doSplitEdit("10", []string{fmt.Sprintf("nref,%s,%d,%d", hex.EncodeToString([]byte("s1")), 1+h.rng.Intn(2), 2+h.rng.Intn(5))},
				[]func(){chunk, chunk, chunk, chunk})
		})
		step(func() { h.flushNow("11", false) })
		step(func() { h.doCompact("10") })
		step(func() { h.doCompact("11") })
		closeS()
		open()
		step(func() { h.flushNow("10", false) })
		step(func() { h.flushNow("11", false) })
		closeS()
		open()
	case 3:
		h.c.Branch("scenario:table-close-io-error")
		step(func() { h.flushNow("10", true) })
		step(func() { h.doFlushStart("10", [][2]int64{{1, 7}}, h.randKVs(3)) })
		step(func() {
			if fs, ok := h.flushers["10"]; ok && fs.file >= 0 {
				h.doFlushFail("10")
			}
		})
		step(func() { h.flushNow("10", false) })
		step(func() { h.doCompact("10") })
		closeS()
		open()
	case 2:
		h.c.Branch("scenario:open-dies-inside-snapshot")
		step(func() { h.flushNow("10", true) })
		step(func() { h.doCreateFamily("11", 1) })
		step(func() { h.flushNow("11", true) })
		closeS()
		h.forceDie = "rec"
		open() // dies after a snapshot record
		open() // re-uses the MANIFEST number
		closeS()
		open()
		closeS()
		open()
	}
}

func anyKey(m map[string]*flusherSt, rng *rand.Rand) string {
	var ks []string
	for k := range m {
		ks = append(ks, k)
	}
	sort.Strings(ks)
	return ks[rng.Intn(len(ks))]
}

func genEdit(h *hist, name string, rng *rand.Rand) []string {
	obs := h.liveObs()
	var fo *famObs
	for i := range obs.fams {
		if obs.fams[i].name == name {
			fo = &obs.fams[i]
		}
	}
	stores := []string{hex.EncodeToString([]byte("s1")), hex.EncodeToString([]byte("seg/20190702"))}
	var toks []string
	n := 1 + rng.Intn(2)
	for j := 0; j < n; j++ {
		switch rng.Intn(3) {
		case 0:
			if fo != nil && len(fo.rollup) > 0 && len(h.rollup) > 0 {
				toks = append(toks, fmt.Sprintf("dr,%d,%d", fo.rollup[rng.Intn(len(fo.rollup))], h.rollup[rng.Intn(len(h.rollup))]))
			} else {
				toks = append(toks, fmt.Sprintf("dr,%d,%d", 2+rng.Intn(6), 300000))
			}
		case 1:
			toks = append(toks, fmt.Sprintf("nref,%s,%d,%d", stores[rng.Intn(2)], 1+rng.Intn(2), 2+rng.Intn(5)))
		default:
			toks = append(toks, fmt.Sprintf("dref,%s,%d,%d", stores[rng.Intn(2)], 1+rng.Intn(2), 2+rng.Intn(5)))
		}
	}
	return toks
}

// tornObservation is the separately reported stream of DESIGN section 6 (torn single writes are
// outside C01's quantifier): it cuts the last byte off the live manifest of the final directory,
// reopens a copy and only COUNTS what happens. It never calls Fail.
func tornObservation(h *hist) {
	if h.failed || h.store == nil || len(h.flushers) != 0 {
		return
	}
	h.sess.muted = true
	_ = kv.GetStoreManager().CloseStore(h.root)
	h.store = nil
	committed := h.lastObs
	// (ii) content of the last record partly present: one byte cut off
	// (i)  only the length header of the last record present
	for _, kind := range []string{"partial-content", "header-only"} {
		p := filepath.Join(h.base, "torn-"+kind)
		if err := copyDir(h.root, p); err != nil {
			return
		}
		cur, err := os.ReadFile(filepath.Join(p, version.VerifC01CurrentFileName()))
		if err != nil {
			os.RemoveAll(p)
			return
		}
		mp := filepath.Join(p, string(cur))
		data, err := os.ReadFile(mp)
		if err != nil || len(data) < 2 {
			os.RemoveAll(p)
			return
		}
		cut := int64(len(data) - 1)
		if kind == "header-only" {
			// walk the entry frames to the last one
			off, lastHdrEnd := 0, -1
			for off < len(data) {
				l, n := binary.Uvarint(data[off:])
				if n <= 0 {
					break
				}
				lastHdrEnd = off + n
				off += n + int(l)
			}
			if lastHdrEnd < 0 || lastHdrEnd >= len(data) {
				os.RemoveAll(p)
				continue
			}
			cut = int64(lastHdrEnd)
		}
		if err := os.Truncate(mp, cut); err != nil {
			os.RemoveAll(p)
			return
		}
		r := h.reopenImage(p)
		switch {
		case r.ok:
			lbl := "torn-observation:" + kind + ":reopen-ok"
			if r.obs.propKey() == committed {
				lbl += "-content-kept"
			} else {
				lbl += "-content-differs"
			}
			fresh := true
			for _, f := range r.obs.fams {
				for _, n := range append(append([]int64{}, f.files...), f.rollup...) {
					if n >= r.obs.next {
						fresh = false
					}
				}
			}
			if !fresh {
				lbl += "-file-numbers-not-fresh"
			}
			h.c.Branch(lbl)
		case !exists(mp):
			h.c.Branch("torn-observation:" + kind + ":reopen-error-and-live-manifest-deleted")
		default:
			h.c.Branch("torn-observation:" + kind + ":reopen-error-manifest-kept")
		}
		os.RemoveAll(p)
	}
}
