package c01

import (
	"bytes"
	"encoding/binary"
	"fmt"
	"os"
	"path/filepath"
	"runtime"
	"strconv"
	"strings"
	"sync/atomic"
	"time"

	"github.com/lindb/common/pkg/ltoml"

	"github.com/lindb/lindb/internal/verifhook"
	"github.com/lindb/lindb/kv"
	"github.com/lindb/lindb/kv/table"
	"github.com/lindb/lindb/kv/version"
)

// Concurrent creators of ONE family (store.CreateFamily called by two goroutines with the same new name),
// schedule-controlled: creator A runs in its own goroutine and is parked at one of its file-system seams
// (`point`: pre-opts = about to write OPTIONS, pre-mkfam = OPTIONS written, about to create the family
// directory, post-mkfam = directory created); creator B is then started and runs until it returns or is
// parked by the Go runtime on the store's write lock inside CreateFamily (read from the goroutine dump: a
// state, not a duration); then A continues to its return, then B. No sleep decides an outcome.

type gateT struct {
	point  string
	gid    atomic.Int64
	used   atomic.Bool
	parked chan struct{}
	resume chan struct{}
}

var raceGate atomic.Pointer[gateT]

func curGid() int64 {
	var buf [64]byte
	n := runtime.Stack(buf[:], false)
	f := bytes.Fields(buf[:n])
	if len(f) < 2 {
		return -1
	}
	g, _ := strconv.ParseInt(string(f[1]), 10, 64)
	return g
}

// gateAt is called from the seams: parks creator A (once) when it reaches the chosen point.
func gateAt(point string) {
	g := raceGate.Load()
	if g == nil || g.point != point || g.gid.Load() != curGid() || g.used.Swap(true) {
		return
	}
	g.parked <- struct{}{}
	<-g.resume
}

// blockedOnStoreLock: goroutine gid is parked inside sync.RWMutex.Lock called from store.CreateFamily.
func blockedOnStoreLock(gid int64) bool {
	buf := make([]byte, 1<<20)
	n := runtime.Stack(buf, true)
	head := fmt.Sprintf("goroutine %d [", gid)
	for _, blk := range strings.Split(string(buf[:n]), "\n\n") {
		if !strings.HasPrefix(blk, head) {
			continue
		}
		first := blk[:strings.Index(blk+"\n", "\n")]
		if strings.Contains(first, "running") || strings.Contains(first, "runnable") {
			return false
		}
		return (strings.Contains(blk, "sync.(*RWMutex).Lock") || strings.Contains(first, "sync.RWMutex.Lock")) &&
			strings.Contains(blk, "kv.(*store).CreateFamily")
	}
	return false
}

func dumpOf(gid int64) string {
	buf := make([]byte, 1<<20)
	n := runtime.Stack(buf, true)
	head := fmt.Sprintf("goroutine %d [", gid)
	for _, blk := range strings.Split(string(buf[:n]), "\n\n") {
		if strings.HasPrefix(blk, head) {
			if len(blk) > 600 {
				blk = blk[:600]
			}
			return blk
		}
	}
	return "goroutine not found"
}

type createRes struct {
	f   kv.Family
	err error
	pnc interface{}
}

type raceRes struct {
	a, b   createRes
	bState string // blocked-on-store-lock | ran-to-completion | first-creator-never-parked
	stuck  string
}

const yieldBeforeWriteLock = "kv.store.CreateFamily.beforeWriteLock"

// raceCreate runs the schedule on st:
//
//	A: read-locked lookup (miss), parked at the yield point before s.rwMutex.Lock()
//	B: read-locked lookup (miss), parked at the same yield point
//	A: continues up to `point` (one of its file-system seams inside / after the write-lock region)
//	B: continues until it returns or is parked by the runtime on the store's write lock
//	A: continues to its return; B: continues to its return
//
// On the model side this is `fast 0, fast 1, region 0, region 1` when the write lock is held from the Lock to
// the return (every `point` then lies inside A's atomic step), else the finer schedule of C01CF.raceSchedule.
func raceCreate(st kv.Store, name string, thr int, point string) (r raceRes) {
	g := &gateT{point: point, parked: make(chan struct{}), resume: make(chan struct{})}
	raceGate.Store(g)
	defer raceGate.Store(nil)
	type yl struct {
		gid    int64
		resume chan struct{}
	}
	yieldCh := make(chan yl)
	verifhook.Set(func(id string) {
		if id != yieldBeforeWriteLock {
			return
		}
		y := yl{gid: curGid(), resume: make(chan struct{})}
		yieldCh <- y
		<-y.resume
	})
	defer verifhook.Set(nil)
	opt := kv.FamilyOption{Merger: mergerName, CompactThreshold: thr}
	call := func(isA bool, out chan createRes) {
		var cr createRes
		defer func() {
			if p := recover(); p != nil {
				cr.pnc = p
			}
			out <- cr
		}()
		if isA {
			g.gid.Store(curGid())
		}
		cr.f, cr.err = st.CreateFamily(name, opt)
	}
	doneA, doneB := make(chan createRes, 1), make(chan createRes, 1)
	limit := time.After(120 * time.Second) // watchdog only: turns an impossible hang into a failure
	var yA, yB yl
	aDone, bDone := false, false
	go call(true, doneA)
	select {
	case yA = <-yieldCh:
	case r.a = <-doneA:
		aDone = true
	case <-limit:
		r.stuck = "creator A neither reached the write lock nor returned"
		return r
	}
	go call(false, doneB)
	select {
	case yB = <-yieldCh:
	case r.b = <-doneB:
		bDone = true
	case <-limit:
		r.stuck = "creator B neither reached the write lock nor returned"
		return r
	}
	r.bState = "returned-before-the-write-lock"
	aParked := false
	if !aDone {
		yA.resume <- struct{}{}
		select {
		case <-g.parked:
			aParked = true
		case r.a = <-doneA:
			aDone = true
		case <-limit:
			r.stuck = "creator A neither reached " + point + " nor returned"
			return r
		}
	}
	if !bDone {
		yB.resume <- struct{}{}
		if aParked {
		wait:
			for {
				select {
				case r.b = <-doneB:
					bDone = true
					r.bState = "ran-to-completion"
					break wait
				case <-limit:
					r.stuck = "creator B neither returned nor blocked on the store lock: " + dumpOf(yB.gid)
					g.resume <- struct{}{}
					return r
				default:
				}
				if blockedOnStoreLock(yB.gid) {
					r.bState = "blocked-on-store-lock"
					break wait
				}
				runtime.Gosched()
				time.Sleep(100 * time.Microsecond)
			}
		} else {
			r.bState = "first-creator-never-parked"
		}
	}
	if aParked {
		g.resume <- struct{}{}
		select {
		case r.a = <-doneA:
		case <-limit:
			r.stuck = "creator A did not return after being resumed"
			return r
		}
	}
	if !bDone {
		select {
		case r.b = <-doneB:
		case <-limit:
			r.stuck = "creator B did not return"
		}
	}
	return r
}

func optionsID(root, name string) int {
	var o optionsFile
	if err := ltoml.DecodeToml(filepath.Join(root, version.Options), &o); err != nil {
		return -1
	}
	if f, ok := o.Families[name]; ok {
		return f.ID
	}
	return -1
}

func raceObsTok(root, name string, r raceRes) (tok string, idA, idB, idOpt, handles int) {
	idA, idB = -1, -1
	if r.a.f != nil {
		idA = int(r.a.f.ID())
	}
	if r.b.f != nil {
		idB = int(r.b.f.ID())
	}
	idOpt = optionsID(root, name)
	handles = 2
	if r.a.f == r.b.f {
		handles = 1
	}
	return fmt.Sprintf("ids=%d,%d opts=%d handles=%d", idA, idB, idOpt, handles), idA, idB, idOpt, handles
}

// doRaceCreate: a createfam operation of the history performed by two concurrent creators. For the model it
// is ONE createFamily (the theorem createFamily_one_id_per_name: every interleaving assigns one id, writes
// OPTIONS once) — same protocol line, same FS trace, same crash images and probes as a sequential createfam.
func (h *hist) doRaceCreate(name string, thr int, point string) (hA, hB kv.Family) {
	seqBefore := 0
	for _, f := range h.liveObs().fams {
		if f.id > seqBefore {
			seqBefore = f.id
		}
	}
	h.thr[name] = thr
	h.probeFam, h.probeThr = name, thr
	defer func() { h.probeFam = "" }()
	before := h.beginOp("createfam")
	r := raceCreate(h.store, name, thr, point)
	line := fmt.Sprintf("createfam %s %d", name, thr)
	if r.stuck != "" {
		h.failed = true
		h.c.Fail("create-schedule-stuck", fmt.Sprintf("concurrent CreateFamily(%s) at %s: %s", name, point, r.stuck))
		h.c.Op(line, "stuck")
		return nil, nil
	}
	if r.a.pnc != nil || r.b.pnc != nil {
		h.failed = true
		h.c.Fail("panic", fmt.Sprintf("concurrent CreateFamily(%s) panicked: %v %v", name, r.a.pnc, r.b.pnc))
		h.c.Op(line, "panic")
		return nil, nil
	}
	out := "ok"
	if r.a.err != nil || r.b.err != nil {
		out = "err"
		h.c.Fail("concurrent-createfamily-error", fmt.Sprintf("concurrent CreateFamily(%s) at %s: errors %v / %v", name, point, r.a.err, r.b.err))
	}
	out += " fs=" + traceTok(h.sess.ops)
	if h.store != nil {
		out += " st=" + h.liveObs().stateTok()
	}
	h.c.Branch("create-race:" + point + ":second-creator-" + r.bState)
	h.finishOp("createfam", line, out, before, false)
	if h.store != nil && h.store.GetFamily(name) != nil {
		h.fams = append(h.fams, name)
	}
	// the creators' model (Model/C01CreateFam.lean) on the same schedule, and the property-level check:
	// one id per family name — both handles, OPTIONS
	tok, idA, idB, idOpt, handles := raceObsTok(h.root, name, r)
	h.c.Op(fmt.Sprintf("cfrace %s %s %d", name, point, seqBefore), tok)
	h.c.Branch(fmt.Sprintf("create-race:family-objects=%d", handles))
	if idA != idB || idA != idOpt {
		h.c.Fail("family-id-not-unique", fmt.Sprintf("two concurrent CreateFamily(%s) (first creator parked at %s, second %s): the handles carry ids %d and %d, OPTIONS holds %d — commits through a handle whose id OPTIONS does not know cannot be recovered",
			name, point, r.bState, idA, idB, idOpt))
	}
	return r.a.f, r.b.f
}

// twoObjectsWitness replays, in a store directory of its own (no protocol lines of the crash model), the
// schedule of Neg.second_object_cleanup_deletes_unfinished_table: two concurrent creators of one new family,
// a flusher of the family object that is NOT the published one has its table open, the published object's
// compaction job runs its deferred deleteObsoleteFiles, the flusher commits.
const twoObjectsKey = "createfamily-second-object-cleanup-deletes-unfinished-table"

func twoObjectsWitness(h *hist) {
	h.c.Branch("scenario:two-family-objects-witness")
	root := filepath.Join(h.base, "witness")
	line := "cfwitness 11"
	st, err := kv.GetStoreManager().CreateStore(root, h.option())
	if err != nil {
		h.c.Fail("reopen-error", "witness store: "+err.Error())
		h.c.Op(line, "err")
		return
	}
	defer func() { _ = kv.GetStoreManager().CloseStore(root) }()
	out := h.guard(line, func() string {
		r := raceCreate(st, "11", 3, "pre-mkfam")
		if r.stuck != "" || r.a.f == nil || r.b.f == nil {
			h.c.Fail("create-schedule-stuck", "witness: "+r.stuck)
			return "stuck"
		}
		reg := st.GetFamily("11")
		other := r.a.f
		if reg == r.a.f {
			other = r.b.f
		}
		handles := 2
		if r.a.f == r.b.f {
			handles = 1
		}
		fl := other.NewFlusher()
		var b [8]byte
		binary.BigEndian.PutUint64(b[:], 77)
		_ = fl.Add(1, b[:])
		_ = kv.VerifC01CompactSync(reg) // below the threshold: only the deferred deleteObsoleteFiles runs
		cerr := fl.Commit()
		fl.Release()
		snap := reg.GetSnapshot()
		present := true
		var missing []int64
		for _, fm := range snap.GetCurrent().GetAllFiles() {
			n := fm.GetFileNumber().Int64()
			if !exists(filepath.Join(root, "11", version.Table(table.FileNumber(n)))) {
				present = false
				missing = append(missing, n)
			}
		}
		snap.Close()
		if cerr == nil && !present {
			// what a restart shows: the crash image taken right after the successful Commit, reopened
			after := "not reopened"
			img := filepath.Join(h.base, "witness-img")
			if copyDir(root, img) == nil {
				ro := h.reopenImage(img)
				switch {
				case !ro.ok:
					after = "reopening the crash image taken after the Commit fails: " + ro.err
				default:
					after = "the crash image taken after the Commit reopens and shows " + ro.obs.contentAll() + " (flushed: key 1 = 77)"
				}
				_ = os.RemoveAll(img)
			}
			h.c.Fail(twoObjectsKey, fmt.Sprintf("two concurrent CreateFamily(11) returned %d family objects; a flusher of the unpublished object had table %v open while the published object's compaction ran deleteObsoleteFiles: the table was removed, Commit returned success, the current version references a file that does not exist; %s",
				handles, missing, after))
		}
		return fmt.Sprintf("handles=%d committed-table-present=%v", handles, present)
	})
	h.c.Op(line, out)
	_ = os.RemoveAll(root)
}
