package c01

import (
	"encoding/hex"
	"fmt"
	"strconv"
	"strings"
	"time"

	"github.com/lindb/lindb/kv"
	"github.com/lindb/lindb/kv/table"
	"github.com/lindb/lindb/kv/version"
	"github.com/lindb/lindb/pkg/timeutil"
)

// buildEditLog builds a rollup-bookkeeping edit log from its protocol tokens.
func buildEditLog(f kv.Family, toks []string) version.EditLog {
	el := version.NewEditLog(f.ID())
	for _, t := range toks {
		p := strings.Split(t, ",")
		num := func(i int) int64 { n, _ := strconv.ParseInt(p[i], 10, 64); return n }
		switch p[0] {
		case "dr":
			el.Add(version.CreateDeleteRollupFile(table.FileNumber(num(1)), timeutil.Interval(num(2))))
		case "nref":
			st, _ := hex.DecodeString(p[1])
			el.Add(version.CreateNewReferenceFile(string(st), version.FamilyID(num(2)), table.FileNumber(num(3))))
		case "dref":
			st, _ := hex.DecodeString(p[1])
			el.Add(version.CreateDeleteReferenceFile(string(st), version.FamilyID(num(2)), table.FileNumber(num(3))))
		}
	}
	return el
}

// doSplitEdit runs a commit of family `name` (family.commitEditLog -> CommitFamilyEditLog, the production
// path) as the atomic steps the code has. The committer runs in its own goroutine and is parked at every
// schedule point (interaction with its edit log / the family version the version set looks up) at which
// vs.mutex is NOT held; while it is parked the next chunk of other operations (flushes of the same store:
// number allocation + commit) runs to completion on the main goroutine. Exactly one goroutine runs at a
// time, so the schedule is a function of the code's step order alone (no timing).
//
// Protocol: `cbegin name logs` at the first such point (the model: CommitFamilyEditLog up to
// vs.mutex.Lock()), `cyield name` at every further one, `cend name` = the critical section (its FS trace,
// the state after). On the model side nothing is read before the lock (regenerated fact), so the commit
// takes effect at `cend` with the numbers / version current THEN.
func (h *hist) doSplitEdit(name string, toks []string, chunks []func()) {
	f := h.store.GetFamily(name)
	el := buildEditLog(f, toks)
	type done struct {
		ok    bool
		panic interface{}
	}
	evCh := make(chan string)
	resumeCh := make(chan struct{})
	doneCh := make(chan done)
	// inWindow: the committer is parked and the main goroutine runs the other operations; their commits go
	// through the same wrapped family version, and their schedule points are not parked (one level only).
	// Written by the main goroutine only while the committer is parked (ordered by the channel operations).
	inWindow := false
	cb := func(point string, locked bool) {
		if inWindow {
			return
		}
		if locked {
			h.c.Branch("commit-point:" + point + ":under-vs.mutex")
			return
		}
		evCh <- point
		<-resumeCh
	}
	before := h.beginOp("cend")
	contentBefore := h.liveObs().kvKey()
	go func() {
		var d done
		defer func() {
			if r := recover(); r != nil {
				d.panic = r
			}
			doneCh <- d
		}()
		d.ok = kv.VerifC01SchedCommit(f, el, cb)
	}()
	windows := 0
	for {
		select {
		case point := <-evCh:
			h.c.Branch("commit-point:" + point + ":vs.mutex-free")
			if windows == 0 {
				h.c.Op(fmt.Sprintf("cbegin %s %s", name, strings.Join(toks, " ")), "ok")
			} else {
				// nothing of the commit may have reached the disk between two points outside the lock
				h.c.Op("cyield "+name, "ok fs="+traceTok(h.sess.ops))
			}
			windows++
			if len(chunks) > 0 && !h.failed {
				c := chunks[0]
				chunks = chunks[1:]
				inWindow = true
				c()
				inWindow = false
				h.c.Branch("region:other-committers-inside-commit")
			}
			before = h.beginOp("cend")
			contentBefore = h.liveObs().kvKey()
			resumeCh <- struct{}{}
		case <-time.After(120 * time.Second):
			// cannot happen while exactly one goroutine runs at a time; reported instead of hanging the run
			h.failed = true
			h.c.Fail("commit-schedule-stuck", fmt.Sprintf("commit of family %s neither reached a schedule point nor returned within 120 s", name))
			h.c.Op("cend "+name, "stuck")
			return
		case d := <-doneCh:
			if d.panic != nil {
				h.failed = true
				h.c.Fail("panic", fmt.Sprintf("commit of family %s panicked: %v", name, d.panic))
				h.c.Op("cend "+name, "panic")
				return
			}
			out := "err"
			if d.ok {
				out = "ok"
			}
			out += " fs=" + traceTok(h.sess.ops)
			if h.store != nil {
				out += " st=" + h.liveObs().stateTok()
			}
			line := "cend " + name
			if windows == 0 {
				// no point outside the lock at all: the commit was one atomic operation
				line = fmt.Sprintf("edit %s %s", name, strings.Join(toks, " "))
			}
			// a bookkeeping commit changes no key/value content and no sequence: the committed flushes of the
			// other goroutines must all still be there
			if got := h.liveObs().kvKey(); got != contentBefore {
				h.c.Fail("commit-dropped-committed-content", fmt.Sprintf("bookkeeping commit of family %s (with %d schedule points outside vs.mutex): the store showed %q before its critical section and %q after",
					name, windows, contentBefore, got))
			}
			h.finishOp("cend", line, out, before, false)
			return
		}
	}
}
