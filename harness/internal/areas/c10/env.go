// Package c10 drives lindb's real metadata + index databases (temp dirs), the real write path
// (GenMetricID / GenFieldID / GenSeriesID -> buildInvertIndex) and the real query operators
// (MetadataLookup, TagValuesLookup, SeriesFiltering, GroupingContextBuild, GroupingTagsLookup)
// and mirrors every operation in the C10 line protocol.
package c10

import (
	"context"
	"encoding/binary"
	"errors"
	"fmt"
	"os"
	"path/filepath"
	"sort"
	"strings"
	"time"

	"github.com/lindb/common/proto/gen/v1/flatMetricsV1"
	commonseries "github.com/lindb/common/series"
	"github.com/lindb/roaring"
	"go.uber.org/atomic"

	"github.com/lindb/lindb/aggregation"
	"github.com/lindb/lindb/constants"
	"github.com/lindb/lindb/flow"
	"github.com/lindb/lindb/index"
	"github.com/lindb/lindb/kv"
	"github.com/lindb/lindb/pkg/timeutil"
	"github.com/lindb/lindb/query/operator"
	"github.com/lindb/lindb/series/field"
	"github.com/lindb/lindb/series/metric"
	"github.com/lindb/lindb/series/tag"
	"github.com/lindb/lindb/sql/stmt"
	"github.com/lindb/lindb/tsdb"
)

// fakeDB / fakeShard satisfy tsdb.Database / tsdb.Shard for the operators: the operators only
// call MetaDB() resp. IndexDB(); every other method would nil-deref the embedded interface.
type fakeDB struct {
	tsdb.Database
	meta index.MetricMetaDatabase
}

func (d *fakeDB) MetaDB() index.MetricMetaDatabase { return d.meta }
func (d *fakeDB) Name() string                     { return "lvh" }

type fakeShard struct {
	tsdb.Shard
	idx index.MetricIndexDatabase
}

func (s *fakeShard) IndexDB() index.MetricIndexDatabase { return s.idx }

// env is one pair of real databases on a scratch directory.
type env struct {
	dir      string
	metaDir  string
	indexDir string
	meta     index.MetricMetaDatabase
	idx      index.MetricIndexDatabase
	db       *fakeDB
	shard    *fakeShard
	seq      int
}

var envSeq int

func newEnv() (*env, error) {
	dir, err := os.MkdirTemp("", "lvh-c10-*")
	if err != nil {
		return nil, err
	}
	envSeq++
	e := &env{dir: dir, metaDir: filepath.Join(dir, "meta"), indexDir: filepath.Join(dir, "index")}
	e.meta, err = index.NewMetricMetaDatabase(fmt.Sprintf("lvh-c10-%d", envSeq), e.metaDir)
	if err != nil {
		os.RemoveAll(dir)
		return nil, err
	}
	e.idx, err = index.NewMetricIndexDatabase(e.indexDir, e.meta)
	if err != nil {
		_ = e.meta.Close()
		os.RemoveAll(dir)
		return nil, err
	}
	e.db = &fakeDB{meta: e.meta}
	e.shard = &fakeShard{idx: e.idx}
	return e, nil
}

func (e *env) close() {
	if e.idx != nil {
		_ = e.idx.Close()
	}
	if e.meta != nil {
		_ = e.meta.Close()
	}
	os.RemoveAll(e.dir)
}

// reopen closes both databases and opens them again on the same directories (everything that was
// flushed must come back from the files; the memory tables are gone).
func (e *env) reopen() error {
	if err := e.idx.Close(); err != nil {
		return err
	}
	if err := e.meta.Close(); err != nil {
		return err
	}
	envSeq++
	var err error
	e.meta, err = index.NewMetricMetaDatabase(fmt.Sprintf("lvh-c10-%d", envSeq), e.metaDir)
	if err != nil {
		return err
	}
	e.idx, err = index.NewMetricIndexDatabase(e.indexDir, e.meta)
	if err != nil {
		return err
	}
	e.db = &fakeDB{meta: e.meta}
	e.shard = &fakeShard{idx: e.idx}
	return nil
}

const fieldName = "f"

// write sends one series (namespace, metric, tags) through the code handleRow runs:
// RowBuilder -> StorageRow -> metaDB.GenMetricID -> indexDB.GenSeriesID (-> buildInvertIndex).
func (e *env) write(ns, name string, tags [][2]string) (uint32, error) {
	rb := commonseries.CreateRowBuilder()
	rb.AddNameSpace([]byte(ns))
	rb.AddMetricName([]byte(name))
	rb.AddTimestamp(1_700_000_000_000)
	for _, kv := range tags {
		if err := rb.AddTag([]byte(kv[0]), []byte(kv[1])); err != nil {
			return 0, err
		}
	}
	if err := rb.AddSimpleField([]byte(fieldName), flatMetricsV1.SimpleFieldTypeDeltaSum, 1); err != nil {
		return 0, err
	}
	data, err := rb.Build()
	if err != nil {
		return 0, err
	}
	batch := metric.NewStorageBatchRows()
	batch.UnmarshalRows(data)
	if batch.Len() != 1 {
		return 0, fmt.Errorf("row block decoded to %d rows", batch.Len())
	}
	row := batch.Rows()[0]
	metricID, err := e.meta.GenMetricID(row.NameSpace(), row.Name())
	if err != nil {
		return 0, err
	}
	if _, err := e.meta.GenFieldID(metricID, field.Meta{Name: fieldName, Type: field.SumField}); err != nil {
		return 0, err
	}
	return e.idx.GenSeriesID(metricID, row)
}

func (e *env) prepareFlush() {
	e.meta.PrepareFlush()
	e.idx.PrepareFlush()
}

func (e *env) flush() error {
	if err := e.meta.Flush(); err != nil {
		return err
	}
	return e.idx.Flush()
}

// families lists the kv families whose files the tag queries read.
func (e *env) families(meta bool) ([]kv.Family, error) {
	var out []kv.Family
	if meta {
		ms, ok := kv.GetStoreManager().GetStoreByName(filepath.Join(e.metaDir, "kv"))
		if !ok {
			return nil, errors.New("meta kv store not registered")
		}
		for _, n := range []string{"tv", "schema", "ns", "metric"} {
			if f := ms.GetFamily(n); f != nil {
				out = append(out, f)
			}
		}
		return out, nil
	}
	is, ok := kv.GetStoreManager().GetStoreByName(e.indexDir)
	if !ok {
		return nil, errors.New("index kv store not registered")
	}
	for _, n := range []string{"inverted", "forward", "series", "metric"} {
		if f := is.GetFamily(n); f != nil {
			out = append(out, f)
		}
	}
	return out, nil
}

// compactStore runs the level-0 compaction job (the registered index mergers) of every family of the
// metadata (meta=true) or index kv store that has more than one level-0 file, synchronously
// (kv.VerifC10CompactSync = the body of the goroutine family.compact() starts).
func (e *env) compactStore(meta bool) (int, error) {
	fams, err := e.families(meta)
	if err != nil {
		return 0, err
	}
	n := 0
	for _, f := range fams {
		snap := f.GetSnapshot()
		l0 := snap.GetCurrent().NumberOfFilesInLevel(0)
		snap.Close()
		if l0 > 1 {
			if err := kv.VerifC10CompactSync(f); err != nil {
				return n, fmt.Errorf("compact %s: %w", f.Name(), err)
			}
			n++
		}
	}
	return n, nil
}

// fileCounts reports level-0/level-1 file counts of a family of the index store (meta=false) or of
// the metadata store.
func (e *env) fileCounts(meta bool, family string) (int, int) {
	name := e.indexDir
	if meta {
		name = filepath.Join(e.metaDir, "kv")
	}
	is, ok := kv.GetStoreManager().GetStoreByName(name)
	if !ok {
		return 0, 0
	}
	f := is.GetFamily(family)
	if f == nil {
		return 0, 0
	}
	snap := f.GetSnapshot()
	defer snap.Close()
	return snap.GetCurrent().NumberOfFilesInLevel(0), snap.GetCurrent().NumberOfFilesInLevel(1)
}

// queryResult is what the operators produced.
type queryResult struct {
	err      error
	stage    string              // operator that returned err
	series   []uint32            // SeriesIDsAfterFiltering after seriesFiltering
	grouped  []uint32            // SeriesIDsAfterFiltering after groupingContextBuild
	groupErr error               // error of the grouping operators (ErrNotFound when nothing left)
	values   map[uint32][]string // series id -> values of the group-by keys (hex of the strings CollectTagValues returns)
	valueIDs map[uint32][]uint32 // series id -> value ids of the group-by keys (the grouping key bytes)
}

// query runs the operator chain of a leaf query for one shard.
func (e *env) query(ns, name string, cond stmt.Expr, groupBy []string) (res queryResult) {
	defer func() {
		if r := recover(); r != nil {
			res.err = fmt.Errorf("panic: %v", r)
			res.stage = "panic"
		}
	}()
	q := &stmt.Query{
		Namespace: ns, MetricName: name,
		SelectItems:     []stmt.Expr{&stmt.SelectItem{Expr: &stmt.FieldExpr{Name: fieldName}}},
		Condition:       cond,
		GroupBy:         groupBy,
		TimeRange:       timeutil.TimeRange{Start: 1_700_000_000_000 - 3_600_000, End: 1_700_000_000_000 + 3_600_000},
		Interval:        timeutil.Interval(10_000),
		StorageInterval: timeutil.Interval(10_000),
		IntervalRatio:   1,
	}
	sctx := &flow.StorageExecuteContext{
		Query:   q,
		TaskCtx: flow.NewTaskContextWithTimeout(context.Background(), time.Minute),
	}
	defer sctx.TaskCtx.Release()
	if err := operator.NewMetadataLookup(sctx, e.db).Execute(); err != nil {
		return queryResult{err: err, stage: "metadata"}
	}
	if err := operator.NewTagValuesLookup(sctx, e.db).Execute(); err != nil {
		return queryResult{err: err, stage: "lookup"}
	}
	shctx := flow.NewShardExecuteContext(sctx)
	if err := operator.NewSeriesFiltering(shctx, e.shard).Execute(); err != nil {
		return queryResult{err: err, stage: "filter"}
	}
	res.series = shctx.SeriesIDsAfterFiltering.ToArray()
	if len(groupBy) == 0 {
		return res
	}
	// DataFamilyRead would report the series that have data in the time range: all of them here.
	shctx.TimeSegmentContext.SeriesIDs = shctx.SeriesIDsAfterFiltering.Clone()
	if err := operator.NewGroupingContextBuild(shctx, e.shard).Execute(); err != nil {
		res.groupErr = err
		res.grouped = shctx.SeriesIDsAfterFiltering.ToArray()
		return res
	}
	e.readGroups(sctx, shctx, groupBy, &res)
	return res
}

// readGroups reads the group of every selected series the way shardScanStage.NextStages / DataLoad do
// (one DataLoadContext per container, GroupingTagsLookup, GroupingSeriesAggRefs) and resolves the
// value ids through the dictionary (CollectTagValues).
func (e *env) readGroups(sctx *flow.StorageExecuteContext, shctx *flow.ShardExecuteContext, groupBy []string, out *queryResult) {
	e.readGroupsInto(sctx, shctx, groupBy, out)
}

func (e *env) readGroupsInto(sctx *flow.StorageExecuteContext, shctx *flow.ShardExecuteContext, groupBy []string, resp *queryResult) (res queryResult) {
	res = *resp
	defer func() { *resp = res }()
	res.grouped = shctx.SeriesIDsAfterFiltering.ToArray()
	res.values = map[uint32][]string{}
	res.valueIDs = map[uint32][]uint32{}
	if shctx.GroupingContext == nil {
		return res
	}
	seriesIDs := shctx.SeriesIDsAfterFiltering
	highKeys := seriesIDs.GetHighKeys()
	perSeriesIDs := map[uint32][]uint32{}
	need := make([]*roaring.Bitmap, len(groupBy))
	for i := range need {
		need[i] = roaring.New()
	}
	for hi, highKey := range highKeys {
		dl := &flow.DataLoadContext{
			ShardExecuteCtx:       shctx,
			LowSeriesIDsContainer: seriesIDs.GetContainerAtIndex(hi),
			SeriesIDHighKey:       highKey,
			IsMultiField:          len(sctx.Fields) > 1,
			IsGrouping:            true,
			PendingDataLoadTasks:  atomic.NewInt32(0),
		}
		if err := operator.NewGroupingTagsLookup(dl).Execute(); err != nil {
			res.groupErr = err
			return res
		}
		// the group of every selected series, read the way DataLoad uses the refs
		it := dl.LowSeriesIDsContainer.PeekableIterator()
		for it.HasNext() {
			low := it.Next()
			idx := low - dl.MinSeriesID
			sid := uint32(highKey)<<16 | uint32(low)
			if len(dl.GroupingSeriesAgg) == 0 {
				continue
			}
			ref := dl.GroupingSeriesAggRefs[idx]
			key := []byte(dl.GroupingSeriesAgg[ref].Key)
			var ids []uint32
			for k := 0; k < len(groupBy); k++ {
				if len(key) < (k+1)*4 {
					break
				}
				id := binary.LittleEndian.Uint32(key[k*4:])
				ids = append(ids, id)
				need[k].Add(id)
			}
			perSeriesIDs[sid] = ids
		}
	}
	// value ids -> strings, per group-by key, through the dictionary (CollectTagValues)
	names := make([]map[uint32]string, len(groupBy))
	for k := range groupBy {
		names[k] = map[uint32]string{}
		if err := e.meta.CollectTagValues(sctx.GroupByTagKeyIDs[k], need[k].Clone(), names[k]); err != nil {
			res.groupErr = err
			return res
		}
	}
	for sid, ids := range perSeriesIDs {
		vs := make([]string, len(ids))
		for k, id := range ids {
			v, ok := names[k][id]
			if !ok {
				vs[k] = "?"
			} else {
				vs[k] = hx(v)
			}
		}
		res.values[sid] = vs
		res.valueIDs[sid] = ids
	}
	return res
}

// errEnum maps lindb errors to the protocol's small enum.
func errEnum(err error) string {
	switch {
	case err == nil:
		return "ok"
	case errors.Is(err, constants.ErrTagKeyIDNotFound):
		return "err key-not-found"
	case errors.Is(err, constants.ErrMetricIDNotFound):
		return "err metric-not-found"
	case errors.Is(err, constants.ErrTagValueFilterResultNotFound):
		return "err filter-result-not-found"
	case errors.Is(err, constants.ErrNotFound):
		return "err not-found"
	case strings.HasPrefix(err.Error(), "error parsing regexp"):
		return "err bad-regexp"
	case strings.HasPrefix(err.Error(), "panic:"):
		return "panic"
	case strings.HasPrefix(err.Error(), "wrong binary operator"):
		return "err bad-operator"
	}
	return "err other:" + strings.ReplaceAll(err.Error(), " ", "_")
}

func sortedU32(xs []uint32) []uint32 {
	out := append([]uint32(nil), xs...)
	sort.Slice(out, func(i, j int) bool { return out[i] < out[j] })
	return out
}

var _ = tag.KeyID(0)
var _ = aggregation.AggregatorSpecs(nil)
