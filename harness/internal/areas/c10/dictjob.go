package c10

import (
	"bytes"
	"fmt"
	"math"
	"math/rand"
	"sort"

	"github.com/lindb/roaring"

	"github.com/lindb/lindb/index/model"
	v1 "github.com/lindb/lindb/index/v1"
	"github.com/lindb/lindb/sql/stmt"

	"github.com/lindb/lindb/zzverif/internal/core"
)

// Round 13: the tag value dictionary merger as a compaction JOB (one indexKVMerger object, several tag
// keys in turn) with buckets of every size class TrieBucket.Write distinguishes: only full trie blocks
// (>= 65535 keys, written through verbatim, "no pending" branch), one pending small trie, several pending
// small tries (rebuilt), and mixtures. Whatever objects the merger keeps from key to key, the bucket it
// writes for a key must hold exactly the (value, id) pairs of THAT key's inputs.

type dictKV struct {
	k  string
	id uint32
}

// dictBucket builds a dictionary bucket with the real TrieBucketBuilder (as indexKVStore.Flush /
// TrieBucket.Write do): sorted keys cut into tries of blockSize keys.
func dictBucket(kvs []dictKV, blockSize int) ([]byte, error) {
	sort.Slice(kvs, func(i, j int) bool { return kvs[i].k < kvs[j].k })
	keys := make([][]byte, len(kvs))
	ids := make([]uint32, len(kvs))
	for i, e := range kvs {
		keys[i] = []byte(e.k)
		ids[i] = e.id
	}
	var buf bytes.Buffer
	if err := model.NewTrieBucketBuilder(blockSize, &buf).Write(keys, ids); err != nil {
		return nil, err
	}
	return buf.Bytes(), nil
}

// dictDecode reads a written bucket back through the reader's API (Unmarshal, GetValues, CollectKVs).
func dictDecode(buf []byte) (pairs map[uint32]string, n int, err error) {
	b := model.NewTrieBucket()
	if err = b.Unmarshal(buf); err != nil {
		return nil, 0, err
	}
	defer b.Release()
	ids := b.GetValues()
	pairs = map[uint32]string{}
	b.CollectKVs(roaring.BitmapOf(ids...), pairs)
	return pairs, len(ids), nil
}

type dictJobKey struct {
	key    uint32
	shape  string
	inputs [][]dictKV
	sizes  []int // block size each input was built with
}

// dictJobKeyOf draws the inputs of one tag key: pfx distinguishes the key's values, base its value ids
// (value ids come from one global sequence, so keys have disjoint id ranges).
func dictJobKeyOf(key uint32, shape string, r *rand.Rand) dictJobKey {
	pfx := fmt.Sprintf("k%d-", key)
	base := key * 1000000
	next := uint32(0)
	mk := func(n int) []dictKV {
		out := make([]dictKV, n)
		for i := range out {
			out[i] = dictKV{k: fmt.Sprintf("%s%06d", pfx, next), id: base + next}
			next++
		}
		return out
	}
	full := math.MaxUint16
	j := dictJobKey{key: key, shape: shape}
	add := func(n, bs int) { j.inputs = append(j.inputs, mk(n)); j.sizes = append(j.sizes, bs) }
	switch shape {
	case "full": // already compacted, exactly one full block, no new values
		add(full, full)
	case "full2": // two full blocks
		add(2*full, full)
	case "full+small": // one pending trie
		add(full, full)
		add(1+r.Intn(5), math.MaxInt16)
	case "full+smalls": // several pending tries: rebuilt
		add(full, full)
		add(1+r.Intn(5), math.MaxInt16)
		add(1+r.Intn(5), math.MaxInt16)
	case "small": // one small input
		add(1+r.Intn(6), math.MaxInt16)
	default: // "smalls": two or three small inputs
		for n := 2 + r.Intn(2); n > 0; n-- {
			add(1+r.Intn(6), math.MaxInt16)
		}
	}
	return j
}

// dictJobOp runs ONE real indexKVMerger over the keys in turn (ascending bucket ids, as a compaction
// job does) and compares each written bucket with the union of that key's inputs.
func dictJobOp(c *core.Ctx, jobs []dictJobKey) {
	desc := ""
	for _, j := range jobs {
		desc += fmt.Sprintf(" %d:%s", j.key, j.shape)
		c.Branch("dictjob/" + j.shape)
	}
	defer func() {
		if rec := recover(); rec != nil {
			c.Fail("panic", fmt.Sprintf("dictionary merger job [%s] panicked: %v", desc, rec))
		}
	}()
	w := newCapture()
	mg, err := v1.NewIndexKVMerger(w)
	if err != nil {
		c.Fail("harness-env", "NewIndexKVMerger: "+err.Error())
		return
	}
	mg.Init(nil)
	ok := true
	for idx, j := range jobs {
		var bufs [][]byte
		want := map[uint32]string{}
		for i, in := range j.inputs {
			b, err := dictBucket(append([]dictKV(nil), in...), j.sizes[i])
			if err != nil {
				c.Fail("harness-env", "dictBucket: "+err.Error())
				return
			}
			bufs = append(bufs, b)
			for _, e := range in {
				want[e.id] = e.k
			}
		}
		if err := mg.Merge(j.key, bufs); err != nil {
			c.Fail("dict-merger-job-values", fmt.Sprintf("job [%s], key %d (%s): Merge: %v", desc, j.key, j.shape, err))
			return
		}
		got, n, err := dictDecode(w.out[j.key])
		if err != nil {
			c.Fail("dict-merger-job-values", fmt.Sprintf("job [%s], key %d (%s): written bucket unreadable: %v", desc, j.key, j.shape, err))
			return
		}
		var extra, missing []string
		for id, k := range got {
			if want[id] != k {
				extra = append(extra, fmt.Sprintf("%s=%d", k, id))
			}
		}
		for id, k := range want {
			if got[id] != k {
				missing = append(missing, fmt.Sprintf("%s=%d", k, id))
			}
		}
		if len(extra)+len(missing) > 0 || n != len(want) {
			sort.Strings(extra)
			sort.Strings(missing)
			ne, nm := len(extra), len(missing)
			if ne > 3 {
				extra = extra[:3]
			}
			if nm > 3 {
				missing = missing[:3]
			}
			prev := "-"
			if idx > 0 {
				prev = fmt.Sprintf("%d (%s)", jobs[idx-1].key, jobs[idx-1].shape)
			}
			c.Fail("dict-merger-job-values", fmt.Sprintf("one indexKVMerger, job [%s]: bucket written for key %d (%s; previous key %s) holds %d ids for %d input pairs: %d pairs not in its inputs (e.g. %v), %d input pairs missing (e.g. %v)",
				desc, j.key, j.shape, prev, n, len(want), ne, extra, nm, missing))
			ok = false
			break
		}
	}
	if ok {
		c.NonTrivial()
		c.Note(fmt.Sprintf("dictionary merger job [%s]: every written bucket = its inputs", desc))
	}
}

// invJobOp: ONE invertedIndexMerger (it carries two bitmaps, targetSeriesIDs / seriesIDs, from key to
// key) merges the posting lists of several tag value ids in turn: big-then-small, empty inputs, ids
// over several containers. Each written posting list must be the union of THAT key's inputs.
func invJobOp(c *core.Ctx, r *rand.Rand) {
	defer func() {
		if rec := recover(); rec != nil {
			c.Fail("panic", fmt.Sprintf("inverted merger job panicked: %v", rec))
		}
	}()
	w := newCapture()
	mg, err := v1.NewInvertedIndexMerger(w)
	if err != nil {
		c.Fail("harness-env", "NewInvertedIndexMerger: "+err.Error())
		return
	}
	mg.Init(nil)
	nk := 3 + r.Intn(4)
	for k := 1; k <= nk; k++ {
		want := roaring.New()
		var bufs [][]byte
		var sizes []int
		for ni := 1 + r.Intn(3); ni > 0; ni-- {
			bm := roaring.New()
			n := []int{0, 1, 3, 40, 3000}[r.Intn(5)]
			if k == 1 {
				n = 3000 // the first key leaves big bitmaps behind
			}
			for i := 0; i < n; i++ {
				bm.Add(uint32(r.Intn(5))<<16 | uint32(r.Intn(70000)&0xffff))
			}
			b, err := bm.MarshalBinary()
			if err != nil {
				c.Fail("harness-env", "bitmap marshal: "+err.Error())
				return
			}
			bufs = append(bufs, b)
			sizes = append(sizes, int(bm.GetCardinality()))
			want.Or(bm)
		}
		if err := mg.Merge(uint32(k), bufs); err != nil {
			c.Fail("inverted-merger-job-values", fmt.Sprintf("key %d of a %d-key job (input sizes %v): Merge: %v", k, nk, sizes, err))
			return
		}
		got := roaring.New()
		if err := got.UnmarshalBinary(w.out[uint32(k)]); err != nil {
			c.Fail("inverted-merger-job-values", fmt.Sprintf("key %d of a %d-key job: written posting list unreadable: %v", k, nk, err))
			return
		}
		if !got.Equals(want) {
			extra, missing := got.Clone(), want.Clone()
			extra.AndNot(want)
			missing.AndNot(got)
			c.Fail("inverted-merger-job-values", fmt.Sprintf("one invertedIndexMerger, key %d of a %d-key job (input sizes %v): written %d series, union of its inputs has %d; %d not in its inputs, %d missing",
				k, nk, sizes, got.GetCardinality(), want.GetCardinality(), extra.GetCardinality(), missing.GetCardinality()))
			return
		}
	}
	c.Branch("invjob/ok")
}

// fullBlockDictCase (case 10, every run; implementation + brute-force oracle only):
//  1. merger jobs on raw buckets: a fixed one (full-blocks-only key between small keys, the "no pending"
//     branch followed by other keys) and random ones over all size classes;
//  2. end to end: a tag key with EXACTLY 65535 values between two others (key ids below and above),
//     flushed twice and compacted (one full trie block), then new values of the OTHER keys only, two more
//     flushes and a SECOND compaction of the dictionary family (the full bucket is the level-1 input
//     with nothing pending), reopen; filters on every key checked against brute force, also with the
//     other keys' values as literals; the dictionary-ne-written check runs after each step.
func fullBlockDictCase(c *core.Ctx, r *rand.Rand) {
	dictJobOp(c, []dictJobKey{
		dictJobKeyOf(3, "smalls", r), dictJobKeyOf(4, "full", r), dictJobKeyOf(5, "smalls", r),
		dictJobKeyOf(6, "full+small", r), dictJobKeyOf(7, "small", r), dictJobKeyOf(8, "full+smalls", r), dictJobKeyOf(9, "small", r)})
	shapes := []string{"full", "full+small", "full+smalls", "small", "smalls", "smalls"}
	if c.Tier == "thorough" {
		shapes = append(shapes, "full2", "full")
	}
	njobs := 1
	if c.Tier == "thorough" {
		njobs = 4
	}
	for n := 0; n < njobs; n++ {
		var jobs []dictJobKey
		nfull := 0
		for k, nk := uint32(1), uint32(3+r.Intn(3)); k <= nk; k++ {
			s := shapes[r.Intn(len(shapes))]
			if s[0] == 'f' {
				if nfull++; nfull > 2 {
					s = "smalls"
				}
			}
			jobs = append(jobs, dictJobKeyOf(k, s, r))
		}
		dictJobOp(c, jobs)
	}
	for n := 0; n < 4*njobs; n++ {
		invJobOp(c, r)
	}

	d, err := newDBT(c)
	if err != nil {
		c.Fail("harness-env", err.Error())
		return
	}
	defer d.close()
	d.silent = true
	const n = math.MaxUint16
	uid := func(i int) string { return fmt.Sprintf("u%06d", i) }
	eq := func(k, v string) stmt.Expr { return &stmt.EqualsExpr{Key: k, Value: v} }
	probes := func(state string) {
		conds := []stmt.Expr{
			eq("uid", uid(0)), eq("uid", uid(n-1)), eq("uid", uid(32767)), eq("uid", uid(n)),
			eq("a0", "a1"), eq("z9", "z2"), eq("a0", "n1"), eq("z9", "m2"),
			// literals that are values of ANOTHER key
			eq("z9", uid(1)), eq("a0", uid(n-1)), eq("uid", "z1"), eq("z9", "a1"),
			&stmt.LikeExpr{Key: "z9", Value: "u0000*"}, &stmt.LikeExpr{Key: "a0", Value: "u0000*"},
			&stmt.LikeExpr{Key: "z9", Value: "*"}, &stmt.LikeExpr{Key: "uid", Value: uid(n - 1)[:5] + "*"},
			&stmt.RegexExpr{Key: "z9", Regexp: "^u[0-9]+$"}, &stmt.RegexExpr{Key: "a0", Regexp: "^u[0-9]+$"},
			&stmt.RegexExpr{Key: "z9", Regexp: "^[mz]"},
			&stmt.InExpr{Key: "z9", Values: []string{uid(1), uid(2), "z0", "m1"}},
			&stmt.NotExpr{Expr: eq("z9", uid(1))}, &stmt.NotExpr{Expr: &stmt.LikeExpr{Key: "z9", Value: "u*"}},
			&stmt.BinaryExpr{Operator: stmt.AND, Left: eq("uid", uid(1)), Right: &stmt.LikeExpr{Key: "z9", Value: "u*"}},
			&stmt.BinaryExpr{Operator: stmt.OR, Left: eq("z9", "m1"), Right: eq("z9", uid(2))},
		}
		for _, cond := range conds {
			d.query("full", cond, nil, "tree")
		}
		d.query("full", &stmt.LikeExpr{Key: "uid", Value: uid(1)[:6] + "*"}, []string{"a0", "uid", "z9"}, "tree")
		d.queryPlan("full", &stmt.RegexExpr{Key: "z9", Regexp: "^u"}, []string{"z9"}, "plan-tree")
		c.Note(fmt.Sprintf("full-block dictionary: %d values of one tag key, %d probes checked against brute force (%s)", n, len(conds)+2, state))
	}
	write := func(lo, hi int) {
		for i := lo; i < hi; i++ {
			d.write("full", map[string]string{"a0": fmt.Sprintf("a%d", i%5), "uid": uid(i), "z9": fmt.Sprintf("z%d", i%3)})
		}
	}
	reopen := func(state string) {
		if err := d.e.reopen(); err != nil {
			c.Fail("harness-env", "reopen: "+err.Error())
			return
		}
		d.checkDictionary(state)
	}
	write(0, 32000)
	flushAll(d)
	write(32000, n)
	flushAll(d)
	d.place("compact-meta")
	d.place("compact-index")
	probes("65535 values compacted once")
	// new values of the OTHER keys only (uid values exist already), two flushes, second compaction
	d.write("full", map[string]string{"a0": "n1", "uid": uid(1), "z9": "m1"})
	flushAll(d)
	d.write("full", map[string]string{"a0": "n2", "uid": uid(2), "z9": "m2"})
	flushAll(d)
	d.place("compact-meta")
	d.place("compact-index")
	probes("compacted twice")
	reopen("reopen after the second compaction")
	probes("compacted twice + reopened")
	d.write("full", map[string]string{"a0": "n3", "uid": uid(3), "z9": "m3"})
	flushAll(d)
	probes("compacted twice + reopened + flushed")
	d.silent = false
	c.Branch("dict/full-blocks-only-second-compaction")
	c.Op("reset", "ok")
}
