package c10

import (
	"errors"
	"fmt"
	"os"
	"sort"
	"path/filepath"
	"strings"

	"github.com/lindb/lindb/internal/verifhook"
	"github.com/lindb/lindb/kv/table"
	"github.com/lindb/lindb/pkg/bufioutil"
	"github.com/lindb/lindb/sql/stmt"
)

// probeQuery is one leaf query that is repeated at every observation point inside a flush.
type probeQuery struct {
	metric  string
	cond    stmt.Expr
	groupBy []string
	how     string
}

var errInjected = errors.New("lvh: injected table-file creation failure")

// flushInside runs the REAL Flush() of the index database (meta=false) or the metadata database
// and queries from inside it:
//   - at the creation of every sst file (table writer seam kv/table.VerifC01SetNewWriter): the
//     store whose file is created still has its immutable table, nothing of it is visible in files;
//   - at the yield points familyVersion.appendVersion.enter (file written, new version not yet
//     installed) and .afterSwap (new version installed, immutable table not yet cleared).
//
// failFam != "": the creation of that family's file fails (the flush must return an error, nothing
// of the failed store may be lost; a later flush retries).
//
// Index flush: the steps of forward.flush / inverted.flush are mirrored to the model as they are
// observed (`istep ...`), the rest by `flush-index-end`. Metadata flush: the dictionary's Flush
// makes file and cleared table visible under one lock, so there is no intermediate model state;
// the queries run against the pre-flush model state and `flush-meta` follows.
func (d *dbt) flushInside(meta bool, failFam string, qs []probeQuery) {
	d.placed = true
	name := "flush-index-inside"
	if meta {
		name = "flush-meta-inside"
	}
	if failFam != "" {
		name += "-fail-" + failFam
	}
	d.c.Branch("place/" + name)

	cur := ""      // family whose file was created last
	busy := false  // inside a probe (yield points reached by the queries themselves are ignored)
	failed := false
	fwdPhase, invPhase := "", "" // "", "write", "commit", "drop" as mirrored to the model
	points := 0
	step := func(store, what string) {
		if !d.silent {
			d.c.Op("istep "+store+" "+what, "ok")
		}
	}
	// finishPrev: the flush functions run one after the other: when the next family starts, the
	// previous store has cleared its immutable table.
	finishPrev := func() {
		if fwdPhase == "commit" {
			step("fwd", "drop")
			fwdPhase = "drop"
		}
		if invPhase == "commit" {
			step("inv", "drop")
			invPhase = "drop"
		}
	}
	probe := func(where string) {
		points++
		d.c.Branch("inside/" + where)
		for _, q := range qs {
			d.query(q.metric, q.cond, q.groupBy, q.how)
		}
	}
	restoreW := table.VerifC01SetNewWriter(func(fileName string) (bufioutil.BufioWriter, error) {
		fam := filepath.Base(filepath.Dir(fileName))
		if !strings.HasPrefix(fileName, d.e.dir) || busy {
			return bufioutil.NewBufioStreamWriter(fileName)
		}
		busy = true
		cur = fam
		if !meta {
			finishPrev()
			switch fam {
			case "forward":
				step("fwd", "write")
				fwdPhase = "write"
			case "inverted":
				step("inv", "write")
				invPhase = "write"
			}
		}
		probe("create-" + fam)
		busy = false
		if failFam != "" && fam == failFam {
			failed = true
			return nil, errInjected
		}
		return bufioutil.NewBufioStreamWriter(fileName)
	})
	verifhook.Set(func(id string) {
		if busy || cur == "" {
			return
		}
		switch id {
		case "familyVersion.appendVersion.enter":
			busy = true
			probe("commit-enter-" + cur)
			busy = false
		case "familyVersion.appendVersion.afterSwap":
			busy = true
			if !meta {
				if cur == "forward" && fwdPhase == "write" {
					step("fwd", "commit")
					fwdPhase = "commit"
				}
				if cur == "inverted" && invPhase == "write" {
					step("inv", "commit")
					invPhase = "commit"
				}
			}
			probe("commit-swapped-" + cur)
			busy = false
		}
	})
	var err error
	func() {
		defer func() {
			verifhook.Set(nil)
			restoreW()
			if r := recover(); r != nil {
				err = fmt.Errorf("panic: %v", r)
				d.c.Fail("panic", fmt.Sprintf("%s panicked: %v", name, r))
			}
		}()
		if meta {
			err = d.e.meta.Flush()
		} else {
			err = d.e.idx.Flush()
		}
	}()
	if failFam != "" && failed && err == nil {
		d.c.Fail("flush-error-swallowed", fmt.Sprintf("%s: creating the %s file failed but Flush returned nil", name, failFam))
	}
	if err != nil && !failed {
		d.c.Fail("harness-env", fmt.Sprintf("%s: %v", name, err))
	}
	d.c.Note(fmt.Sprintf("%s: %d observation points, flush error: %v", name, points, err))
	// the closing op: counts of level-0 files
	if meta {
		op := "flush-meta"
		if failed {
			op = "flush-meta-fail"
		} else if d.immSet && len(d.immVals) > 0 {
			for _, v := range d.immVals {
				d.flushedVals[v] = true
			}
			d.immVals = map[string]string{}
			d.immSet = false
		}
		if !d.silent {
			l0, _ := d.e.fileCounts(true, "tv")
			d.c.Op(op, fmt.Sprintf("ok tv=%d", l0))
		}
		return
	}
	how := "ok"
	if failed {
		how = "fail"
	}
	if !d.silent {
		i0, _ := d.e.fileCounts(false, "inverted")
		f0, _ := d.e.fileCounts(false, "forward")
		d.c.Op("flush-index-end "+how, fmt.Sprintf("ok inv=%d fwd=%d", i0, f0))
	}
}

// parkIDs: the yield points of the read paths, right after the file snapshot was taken.
var parkIDs = map[string][]string{
	"dictfind": {"index.kvstore.afterSnapshot"},
	"dictscan": {"index.kvstore.regexp.afterSnapshot", "index.kvstore.like.afterSnapshot"},
	"inverted": {"index.inverted.afterSnapshot"},
	"forward":  {"index.forward.afterSnapshot"},
	"grouping": {"index.forward.grouping.afterSnapshot"},
	"collect":  {"index.kvstore.collect.afterSnapshot"},
}

// parkKeys: the oracle key of a wrong answer of a query parked at the point
var parkKeys = map[string]string{
	"dictfind": "parked-reader-misses-flushed-batch", "dictscan": "parked-reader-misses-flushed-batch",
	"inverted": "parked-reader-misses-flushed-batch", "forward": "parked-reader-misses-flushed-batch",
	"grouping": "parked-grouping-misses-flushed-batch", "collect": "parked-collect-misses-flushed-batch",
}

// queryParked: reader ‖ flusher. A single-atom query (no group by) is parked at the first yield point
// of `point` it reaches while the placement ops `places` run to completion (on the same goroutine: the
// reader holds no lock there), then resumes. Every series written before the query started must still
// be found. If the query never reaches the point, it is an ordinary query followed by the ops.
func (d *dbt) queryParked(point, name string, cond stmt.Expr, places []string, groupBy ...string) {
	toks, ok := condTokens(cond)
	if !ok {
		return
	}
	d.sendRx(cond)
	ids := map[string]bool{}
	for _, id := range parkIDs[point] {
		ids[id] = true
	}
	fired := ""
	var outs []string
	if os.Getenv("LVH_C10_DEBUG") != "" {
		pre := d.e.query(nsName, name, cond, nil)
		fmt.Fprintf(os.Stderr, "DEBUG unparked before: %s %s\n", cond.Rewrite(), pre.line(nil))
		if n, ok := cond.(*stmt.NotExpr); ok {
			in := d.e.query(nsName, name, n.Expr, nil)
			fmt.Fprintf(os.Stderr, "DEBUG inner before: %s %s\n", n.Expr.Rewrite(), in.line(nil))
		}
	}
	verifhook.Set(func(id string) {
		if fired != "" || !ids[id] {
			return
		}
		fired = id
		for _, p := range places {
			outs = append(outs, d.safePlace(p))
		}
	})
	gb := "-"
	if len(groupBy) > 0 {
		hs := make([]string, len(groupBy))
		for i, k := range groupBy {
			hs[i] = hx(k)
		}
		gb = strings.Join(hs, ",")
	}
	res := d.e.query(nsName, name, cond, groupBy)
	verifhook.Set(nil)
	if fired == "" {
		d.c.Branch("parked/not-reached-" + point)
		if !d.silent {
			d.c.Op("q "+metricTok(name)+" "+gb+" "+toks, res.line(groupBy))
		}
		d.oracle(name, cond, groupBy, &res)
		for _, p := range places {
			d.place(p)
		}
		return
	}
	d.c.Branch("parked/" + point)
	for i, o := range outs {
		if strings.HasPrefix(o, "err ") {
			d.c.Fail("harness-env", places[i]+" inside a parked query: "+o)
		}
	}
	if !d.silent {
		d.c.Op("qpark "+point+" "+metricTok(name)+" "+gb+" | "+strings.Join(places, ",")+" | "+toks, res.line(groupBy))
	}
	d.parkedAt, d.parkedOps, d.parkedKey = fired, strings.Join(places, ","), parkKeys[point]
	d.oracle(name, cond, groupBy, &res)
	d.parkedAt, d.parkedOps, d.parkedKey = "", "", ""
}

// parkedDirect: the three snapshot+memory readers that no tag query of this area goes through —
// GetValues (FindTagValueIDsForTag), Suggest (SuggestTagValues), invertedIndex.getSeriesIDs
// (GetSeriesIDsForMetric) — called directly, parked at their yield point while `places` run.
// Implementation-side oracle only; the placement ops are mirrored to the model afterwards.
func (d *dbt) parkedDirect(kind, name, key string, places []string) {
	id := map[string]string{"values": "index.kvstore.values.afterSnapshot", "suggest": "index.kvstore.suggest.afterSnapshot",
		"allseries": "index.inverted.get.afterSnapshot"}[kind]
	recs := d.series[name]
	if recs == nil {
		return
	}
	metricID, err := d.e.meta.GetMetricID(nsName, name)
	if err != nil {
		return
	}
	schema, err := d.e.meta.GetSchema(metricID)
	if err != nil || schema == nil {
		return
	}
	tm, ok := schema.TagKeys.Find(key)
	if !ok && kind != "allseries" {
		return
	}
	fired := false
	var outs []string
	verifhook.Set(func(y string) {
		if fired || y != id {
			return
		}
		fired = true
		for _, p := range places {
			outs = append(outs, d.safePlace(p))
		}
	})
	var got, want []string
	func() {
		defer func() {
			verifhook.Set(nil)
			if r := recover(); r != nil {
				d.c.Fail("panic", fmt.Sprintf("parked %s panicked: %v", kind, r))
			}
		}()
		switch kind {
		case "values":
			ids, err := d.e.meta.FindTagValueIDsForTag(tm.ID)
			if err != nil {
				got = []string{"err " + err.Error()}
				return
			}
			names := map[uint32]string{}
			_ = d.e.meta.CollectTagValues(tm.ID, ids.Clone(), names)
			for _, v := range names {
				got = append(got, v)
			}
		case "suggest":
			got, _ = d.e.meta.SuggestTagValues(tm.ID, "", 100000)
		case "allseries":
			bm, err := d.e.idx.GetSeriesIDsForMetric(metricID)
			if err != nil {
				got = []string{"err " + err.Error()}
				return
			}
			for _, s := range bm.ToArray() {
				got = append(got, fmt.Sprintf("%08d", s))
			}
		}
	}()
	seen := map[string]bool{}
	for sid, rec := range recs {
		if kind == "allseries" {
			want = append(want, fmt.Sprintf("%08d", sid))
		} else if v, has := rec.tags[key]; has && !seen[v] {
			seen[v] = true
			want = append(want, v)
		}
	}
	sort.Strings(got)
	sort.Strings(want)
	if fired {
		d.c.Branch("parked/" + kind)
		for i, p := range places {
			if !d.silent {
				d.c.Op(p, outs[i])
			}
		}
	} else {
		d.c.Branch("parked/not-reached-" + kind)
		for _, p := range places {
			d.place(p)
		}
	}
	if strings.Join(got, "\x00") != strings.Join(want, "\x00") {
		fk := kind + "-ne-written"
		if fired {
			fk = "parked-" + kind + "-misses-flushed-batch"
		}
		d.c.Fail(fk, fmt.Sprintf("%s of %s.%s (parked=%v while %v ran): got %d entries, written %d", kind, name, key, fired, places, len(got), len(want)))
	} else {
		d.c.NonTrivial()
	}
}

// safePlace: doPlace for use INSIDE a yield-point callback. A panic of the placement op (a mutated
// flush can index out of range) must neither unwind through the parked reader — its recover would
// attribute it to the query, and the callback's bookkeeping (one output per op) would be cut short —
// nor end the process: it becomes a per-case failure with key "panic" and an "err panic" output.
func (d *dbt) safePlace(op string) (out string) {
	defer func() {
		if r := recover(); r != nil {
			d.c.Fail("panic", fmt.Sprintf("op %q (inside a parked reader) panicked: %v", op, r))
			out = "err panic"
		}
	}()
	return d.doPlace(op)
}
