package c10

import (
	"errors"
	"fmt"
	"os"
	"path/filepath"
	"strings"

	"github.com/lindb/lindb/internal/verifhook"
	"github.com/lindb/lindb/kv/table"
	"github.com/lindb/lindb/pkg/bufioutil"
	"github.com/lindb/lindb/sql/stmt"
)

// probeQuery is one leaf query that is repeated at every observation point inside a flush.
type probeQuery struct {
	metric  string
	cond    stmt.Expr
	groupBy []string
	how     string
}

var errInjected = errors.New("lvh: injected table-file creation failure")

// flushInside runs the REAL Flush() of the index database (meta=false) or the metadata database
// and queries from inside it:
//   - at the creation of every sst file (table writer seam kv/table.VerifC01SetNewWriter): the
//     store whose file is created still has its immutable table, nothing of it is visible in files;
//   - at the yield points familyVersion.appendVersion.enter (file written, new version not yet
//     installed) and .afterSwap (new version installed, immutable table not yet cleared).
//
// failFam != "": the creation of that family's file fails (the flush must return an error, nothing
// of the failed store may be lost; a later flush retries).
//
// Index flush: the steps of forward.flush / inverted.flush are mirrored to the model as they are
// observed (`istep ...`), the rest by `flush-index-end`. Metadata flush: the dictionary's Flush
// makes file and cleared table visible under one lock, so there is no intermediate model state;
// the queries run against the pre-flush model state and `flush-meta` follows.
func (d *dbt) flushInside(meta bool, failFam string, qs []probeQuery) {
	d.placed = true
	name := "flush-index-inside"
	if meta {
		name = "flush-meta-inside"
	}
	if failFam != "" {
		name += "-fail-" + failFam
	}
	d.c.Branch("place/" + name)

	cur := ""      // family whose file was created last
	busy := false  // inside a probe (yield points reached by the queries themselves are ignored)
	failed := false
	fwdPhase, invPhase := "", "" // "", "write", "commit", "drop" as mirrored to the model
	points := 0
	step := func(store, what string) {
		if !d.silent {
			d.c.Op("istep "+store+" "+what, "ok")
		}
	}
	// finishPrev: the flush functions run one after the other: when the next family starts, the
	// previous store has cleared its immutable table.
	finishPrev := func() {
		if fwdPhase == "commit" {
			step("fwd", "drop")
			fwdPhase = "drop"
		}
		if invPhase == "commit" {
			step("inv", "drop")
			invPhase = "drop"
		}
	}
	probe := func(where string) {
		points++
		d.c.Branch("inside/" + where)
		for _, q := range qs {
			d.query(q.metric, q.cond, q.groupBy, q.how)
		}
	}
	restoreW := table.VerifC01SetNewWriter(func(fileName string) (bufioutil.BufioWriter, error) {
		fam := filepath.Base(filepath.Dir(fileName))
		if !strings.HasPrefix(fileName, d.e.dir) || busy {
			return bufioutil.NewBufioStreamWriter(fileName)
		}
		busy = true
		cur = fam
		if !meta {
			finishPrev()
			switch fam {
			case "forward":
				step("fwd", "write")
				fwdPhase = "write"
			case "inverted":
				step("inv", "write")
				invPhase = "write"
			}
		}
		probe("create-" + fam)
		busy = false
		if failFam != "" && fam == failFam {
			failed = true
			return nil, errInjected
		}
		return bufioutil.NewBufioStreamWriter(fileName)
	})
	verifhook.Set(func(id string) {
		if busy || cur == "" {
			return
		}
		switch id {
		case "familyVersion.appendVersion.enter":
			busy = true
			probe("commit-enter-" + cur)
			busy = false
		case "familyVersion.appendVersion.afterSwap":
			busy = true
			if !meta {
				if cur == "forward" && fwdPhase == "write" {
					step("fwd", "commit")
					fwdPhase = "commit"
				}
				if cur == "inverted" && invPhase == "write" {
					step("inv", "commit")
					invPhase = "commit"
				}
			}
			probe("commit-swapped-" + cur)
			busy = false
		}
	})
	var err error
	func() {
		defer func() {
			verifhook.Set(nil)
			restoreW()
			if r := recover(); r != nil {
				err = fmt.Errorf("panic: %v", r)
				d.c.Fail("panic", fmt.Sprintf("%s panicked: %v", name, r))
			}
		}()
		if meta {
			err = d.e.meta.Flush()
		} else {
			err = d.e.idx.Flush()
		}
	}()
	if failFam != "" && failed && err == nil {
		d.c.Fail("flush-error-swallowed", fmt.Sprintf("%s: creating the %s file failed but Flush returned nil", name, failFam))
	}
	if err != nil && !failed {
		d.c.Fail("harness-env", fmt.Sprintf("%s: %v", name, err))
	}
	d.c.Note(fmt.Sprintf("%s: %d observation points, flush error: %v", name, points, err))
	// the closing op: counts of level-0 files
	if meta {
		op := "flush-meta"
		if failed {
			op = "flush-meta-fail"
		} else if d.immSet && len(d.immVals) > 0 {
			for _, v := range d.immVals {
				d.flushedVals[v] = true
			}
			d.immVals = map[string]string{}
			d.immSet = false
		}
		if !d.silent {
			l0, _ := d.e.fileCounts(true, "tv")
			d.c.Op(op, fmt.Sprintf("ok tv=%d", l0))
		}
		return
	}
	how := "ok"
	if failed {
		how = "fail"
	}
	if !d.silent {
		i0, _ := d.e.fileCounts(false, "inverted")
		f0, _ := d.e.fileCounts(false, "forward")
		d.c.Op("flush-index-end "+how, fmt.Sprintf("ok inv=%d fwd=%d", i0, f0))
	}
}

// parkIDs: the yield points of the read paths, right after the file snapshot was taken.
var parkIDs = map[string][]string{
	"dictfind": {"index.kvstore.afterSnapshot"},
	"dictscan": {"index.kvstore.regexp.afterSnapshot", "index.kvstore.like.afterSnapshot"},
	"inverted": {"index.inverted.afterSnapshot"},
	"forward":  {"index.forward.afterSnapshot"},
}

// queryParked: reader ‖ flusher. A single-atom query (no group by) is parked at the first yield point
// of `point` it reaches while the placement ops `places` run to completion (on the same goroutine: the
// reader holds no lock there), then resumes. Every series written before the query started must still
// be found. If the query never reaches the point, it is an ordinary query followed by the ops.
func (d *dbt) queryParked(point, name string, cond stmt.Expr, places []string) {
	toks, ok := condTokens(cond)
	if !ok {
		return
	}
	d.sendRx(cond)
	ids := map[string]bool{}
	for _, id := range parkIDs[point] {
		ids[id] = true
	}
	fired := ""
	var outs []string
	if os.Getenv("LVH_C10_DEBUG") != "" {
		pre := d.e.query(nsName, name, cond, nil)
		fmt.Fprintf(os.Stderr, "DEBUG unparked before: %s %s\n", cond.Rewrite(), pre.line(nil))
		if n, ok := cond.(*stmt.NotExpr); ok {
			in := d.e.query(nsName, name, n.Expr, nil)
			fmt.Fprintf(os.Stderr, "DEBUG inner before: %s %s\n", n.Expr.Rewrite(), in.line(nil))
		}
	}
	verifhook.Set(func(id string) {
		if fired != "" || !ids[id] {
			return
		}
		fired = id
		for _, p := range places {
			outs = append(outs, d.doPlace(p))
		}
	})
	res := d.e.query(nsName, name, cond, nil)
	verifhook.Set(nil)
	if fired == "" {
		d.c.Branch("parked/not-reached-" + point)
		if !d.silent {
			d.c.Op("q "+metricTok(name)+" - "+toks, res.line(nil))
		}
		d.oracle(name, cond, nil, &res)
		for _, p := range places {
			d.place(p)
		}
		return
	}
	d.c.Branch("parked/" + point)
	for i, o := range outs {
		if strings.HasPrefix(o, "err ") {
			d.c.Fail("harness-env", places[i]+" inside a parked query: "+o)
		}
	}
	if !d.silent {
		d.c.Op("qpark "+point+" "+metricTok(name)+" - | "+strings.Join(places, ",")+" | "+toks, res.line(nil))
	}
	d.parkedAt, d.parkedOps = fired, strings.Join(places, ",")
	d.oracle(name, cond, nil, &res)
	d.parkedAt, d.parkedOps = "", ""
}
