package c10

import (
	"encoding/hex"
	"fmt"
	"math/rand"
	"os"
	"regexp"
	"sort"
	"strings"

	"github.com/lindb/lindb/internal/verifhook"
	"github.com/lindb/lindb/series"
	"github.com/lindb/lindb/sql"
	"github.com/lindb/lindb/sql/stmt"

	"github.com/lindb/lindb/zzverif/internal/core"
)

type area struct{}

func init() { core.Register(area{}) }

func (area) Name() string { return "tagfilter" }

// number of deterministic witness cases at the start of every run
const nWitness = 10

func (area) Run(c *core.Ctx) error {
	for i := 0; i < c.N; i++ {
		if !c.Want(i) {
			continue
		}
		c.Begin(i)
		r := c.Rng(i)
		runOneCase(c, r, i)
	}
	return nil
}

// runOneCase dispatches case i. A panic that escapes every per-op guard (harness bookkeeping after a
// mutated implementation left an unexpected state) is a failure of THIS case (key "panic"), never the
// end of the run.
func runOneCase(c *core.Ctx, r *rand.Rand, i int) {
	defer func() {
		if rec := recover(); rec != nil {
			verifhook.Set(nil)
			c.Fail("panic", fmt.Sprintf("case %d: harness-level panic: %v", i, rec))
		}
	}()
	{
		switch {
		case i == 0:
			witnessLikeStar(c)
		case i == 1:
			witnessRewriteCollision(c)
		case i == 2:
			witnessRegexPrefix(c)
		case i == 3:
			witnessLut(c)
		case i == 4:
			witnessNotCompound(c)
		case i == 5:
			witnessStuckImmutable(c)
		case i == 6:
			witnessInsideFlush(c)
		case i == 7:
			witnessParked(c)
		case i == 8:
			bigDictCase(c, 33000, true)
		case i == 9:
			witnessParkedMore(c)
		case i == 10:
			fullBlockDictCase(c, r)
		case c.Tier == "thorough" && i >= 12 && i <= 16:
			bigDictCase(c, []int{32767, 32768, 32769, 40000, 70000}[i-12], i != 16)
		case i%7 == 0:
			readerCase(c, r)
		case c.Tier == "thorough" && i == nWitness+1:
			bigCase(c, r)
		default:
			dbCase(c, r)
		}
	}
}

// ---------------------------------------------------------------- protocol helpers

func hx(s string) string {
	if s == "" {
		return "-"
	}
	return hex.EncodeToString([]byte(s))
}

// condTokens renders a stmt.Expr in the model's prefix form; ok=false for expression types the
// model does not know (never generated).
func condTokens(e stmt.Expr) (string, bool) {
	switch x := e.(type) {
	case *stmt.EqualsExpr:
		return "eq " + hx(x.Key) + " " + hx(x.Value), true
	case *stmt.LikeExpr:
		return "like " + hx(x.Key) + " " + hx(x.Value), true
	case *stmt.RegexExpr:
		return "rx " + hx(x.Key) + " " + hx(x.Regexp), true
	case *stmt.InExpr:
		parts := []string{"in", hx(x.Key), fmt.Sprint(len(x.Values))}
		for _, v := range x.Values {
			parts = append(parts, hx(v))
		}
		return strings.Join(parts, " "), true
	case *stmt.NotExpr:
		s, ok := condTokens(x.Expr)
		return "not " + s, ok
	case *stmt.ParenExpr:
		s, ok := condTokens(x.Expr)
		return "paren " + s, ok
	case *stmt.BinaryExpr:
		l, ok1 := condTokens(x.Left)
		r, ok2 := condTokens(x.Right)
		op := "badop"
		if x.Operator == stmt.AND {
			op = "and"
		} else if x.Operator == stmt.OR {
			op = "or"
		}
		return op + " " + l + " " + r, ok1 && ok2
	}
	return "", false
}

func atomsOf(e stmt.Expr, out *[]stmt.TagFilter) {
	switch x := e.(type) {
	case *stmt.NotExpr:
		atomsOf(x.Expr, out)
	case *stmt.ParenExpr:
		atomsOf(x.Expr, out)
	case *stmt.BinaryExpr:
		atomsOf(x.Left, out)
		atomsOf(x.Right, out)
	case stmt.TagFilter:
		*out = append(*out, x)
	}
}

// ---------------------------------------------------------------- reference semantics (impl-side oracle)

const star = '*'

// likeRef: a leading and a trailing '*' are wildcards (stripped in that order); the empty pattern matches nothing.
func likeRef(p, v string) bool {
	if p == "" {
		return false
	}
	lead := p[0] == star
	rest := p
	if lead {
		rest = p[1:]
	}
	trail := len(rest) > 0 && rest[len(rest)-1] == star
	core := rest
	if trail {
		core = rest[:len(rest)-1]
	}
	switch {
	case !lead && !trail:
		return v == core
	case !lead && trail:
		return strings.HasPrefix(v, core)
	case lead && !trail:
		return strings.HasSuffix(v, core)
	default:
		return strings.Contains(v, core)
	}
}

type refErr string

// holds: does the value satisfy the atomic filter (Go's regexp is the oracle for regex).
func holds(a stmt.TagFilter, v string) bool {
	switch x := a.(type) {
	case *stmt.EqualsExpr:
		return v == x.Value
	case *stmt.InExpr:
		for _, w := range x.Values {
			if v == w {
				return true
			}
		}
		return false
	case *stmt.LikeExpr:
		return likeRef(x.Value, v)
	case *stmt.RegexExpr:
		rp, err := regexp.Compile(x.Regexp)
		if err != nil {
			return false
		}
		return rp.MatchString(v)
	}
	return false
}

func notKey(e stmt.Expr) (string, bool) {
	switch x := e.(type) {
	case *stmt.ParenExpr:
		return notKey(x.Expr)
	case stmt.TagFilter:
		return x.TagKey(), true
	}
	return "", false
}

// shaped: the grammar's shape (not only around an atomic filter, AND/OR only).
func shaped(e stmt.Expr) bool {
	switch x := e.(type) {
	case *stmt.NotExpr:
		_, ok := notKey(x.Expr)
		return ok && shaped(x.Expr)
	case *stmt.ParenExpr:
		return shaped(x.Expr)
	case *stmt.BinaryExpr:
		return (x.Operator == stmt.AND || x.Operator == stmt.OR) && shaped(x.Left) && shaped(x.Right)
	case stmt.TagFilter:
		return true
	}
	return false
}

func evalRef(e stmt.Expr, tags map[string]string) bool {
	switch x := e.(type) {
	case *stmt.NotExpr:
		k, _ := notKey(x.Expr)
		_, has := tags[k]
		return has && !evalRef(x.Expr, tags)
	case *stmt.ParenExpr:
		return evalRef(x.Expr, tags)
	case *stmt.BinaryExpr:
		if x.Operator == stmt.AND {
			return evalRef(x.Left, tags) && evalRef(x.Right, tags)
		}
		return evalRef(x.Left, tags) || evalRef(x.Right, tags)
	case stmt.TagFilter:
		v, has := tags[x.TagKey()]
		return has && holds(x, v)
	}
	return false
}

// ---------------------------------------------------------------- one database under test

type seriesRec struct {
	id   uint32
	tags map[string]string
}

type dbt struct {
	c      *core.Ctx
	e      *env
	series map[string]map[uint32]*seriesRec // metric token -> id -> record
	keys   map[string]map[string]bool       // metric token -> tag keys in the schema
	values map[string]bool                  // every tag value written so far
	rxSent map[string]string                // pattern -> table row already sent
	placed bool
	parkedAt  string // yield point at which the query under the oracle was parked ("" = not parked)
	parkedOps string
	parkedKey string
	silent bool // implementation + oracle only: no protocol lines (cases too large for the list model)
	// the tag-value dictionary's table state machine (entry = metric, key, value), kept to tell which
	// values are in flushed tries: PrepareFlush swaps when no or an empty immutable table exists; Flush
	// persists and clears a NON-EMPTY immutable table only
	dictSeen    map[string]bool
	memVals     map[string]string // entry -> value, mutable table
	immVals     map[string]string // immutable table
	flushedVals map[string]bool   // values of entries in flushed tries
	immSet      bool
}

func newDBT(c *core.Ctx) (*dbt, error) {
	e, err := newEnv()
	if err != nil {
		return nil, err
	}
	c.Op("reset", "ok")
	return &dbt{c: c, e: e, series: map[string]map[uint32]*seriesRec{}, keys: map[string]map[string]bool{},
		values: map[string]bool{}, rxSent: map[string]string{}, flushedVals: map[string]bool{}, immVals: map[string]string{},
		memVals: map[string]string{}, dictSeen: map[string]bool{}}, nil
}

func (d *dbt) close() { d.e.close() }

// guard = c.Guard unless the case is silent (then only the panic check remains).
func (d *dbt) guard(op string, f func() string) {
	if !d.silent {
		d.c.Guard(op, f)
		return
	}
	defer func() {
		if r := recover(); r != nil {
			d.c.Fail("panic", fmt.Sprintf("op %q panicked: %v", op, r))
		}
	}()
	if out := f(); strings.HasPrefix(out, "err ") {
		d.c.Fail("harness-env", op+": "+out)
	}
}

const nsName = "ns"

func metricTok(name string) string { return hx(nsName + "/" + name) }

// write: one series through the real write path.
func (d *dbt) write(name string, tags map[string]string) {
	var ks []string
	for k := range tags {
		ks = append(ks, k)
	}
	sort.Strings(ks) // RowBuilder sorts by key bytes; Go string order is byte order
	parts := []string{"write", metricTok(name)}
	var kvs [][2]string
	for _, k := range ks {
		parts = append(parts, hx(k)+"="+hx(tags[k]))
		kvs = append(kvs, [2]string{k, tags[k]})
	}
	op := strings.Join(parts, " ")
	d.guard(op, func() string {
		id, err := d.e.write(nsName, name, kvs)
		if err != nil {
			return "err " + strings.ReplaceAll(err.Error(), " ", "_")
		}
		m := d.series[name]
		if m == nil {
			m = map[uint32]*seriesRec{}
			d.series[name] = m
			d.keys[name] = map[string]bool{}
		}
		if rec, ok := m[id]; ok {
			// same id again: the tags must be the ones recorded (series identity)
			if !sameTags(rec.tags, tags) {
				d.c.Fail("series-id-reused", fmt.Sprintf("metric %s: id %d returned for tags %v, already used for %v", name, id, tags, rec.tags))
			}
			return fmt.Sprintf("series %d old", id)
		}
		cp := map[string]string{}
		for k, v := range tags {
			cp[k] = v
			d.keys[name][k] = true
			d.values[v] = true
			if e := name + "\x00" + k + "\x00" + v; !d.dictSeen[e] {
				d.dictSeen[e] = true
				d.memVals[e] = v
			}
		}
		m[id] = &seriesRec{id: id, tags: cp}
		return fmt.Sprintf("series %d new", id)
	})
}

func sameTags(a, b map[string]string) bool {
	if len(a) != len(b) {
		return false
	}
	for k, v := range a {
		if w, ok := b[k]; !ok || w != v {
			return false
		}
	}
	return true
}

func (d *dbt) place(op string) {
	d.placed = true
	d.c.Branch("place/" + op)
	d.guard(op, func() string { return d.doPlace(op) })
}

// doPlace performs one placement op on the implementation (and the harness's own bookkeeping) and
// returns its protocol output.
func (d *dbt) doPlace(op string) string {
	var err error
	switch op {
	case "prepare-meta":
		d.e.meta.PrepareFlush()
		if !d.immSet || len(d.immVals) == 0 {
			d.immSet = true
			d.immVals, d.memVals = d.memVals, map[string]string{}
		}
	case "flush-meta":
		err = d.e.meta.Flush()
		if d.immSet && len(d.immVals) > 0 {
			for _, v := range d.immVals {
				d.flushedVals[v] = true
			}
			d.immVals = map[string]string{}
			d.immSet = false
		}
	case "compact-meta":
		_, err = d.e.compactStore(true)
	case "prepare-index":
		d.e.idx.PrepareFlush()
	case "flush-index":
		err = d.e.idx.Flush()
	case "compact-index":
		_, err = d.e.compactStore(false)
	}
	if err != nil {
		return "err " + strings.ReplaceAll(err.Error(), " ", "_")
	}
	// the number of level-0 files makes the table/file state machine observable
	if strings.HasSuffix(op, "-meta") {
		if op != "prepare-meta" {
			d.checkDictionary(op)
		}
		l0, _ := d.e.fileCounts(true, "tv")
		return fmt.Sprintf("ok tv=%d", l0)
	}
	i0, _ := d.e.fileCounts(false, "inverted")
	f0, _ := d.e.fileCounts(false, "forward")
	return fmt.Sprintf("ok inv=%d fwd=%d", i0, f0)
}

// checkDictionary: after the dictionary's files changed, every tag key's dictionary (all tag value ids
// of the key, resolved to strings) must be exactly the values written under that key — names a wrong
// dictionary before a later operation trips over it.
func (d *dbt) checkDictionary(after string) {
	defer func() {
		if r := recover(); r != nil {
			d.c.Fail("panic", fmt.Sprintf("dictionary read after %s panicked: %v", after, r))
		}
	}()
	for name, recs := range d.series {
		metricID, err := d.e.meta.GetMetricID(nsName, name)
		if err != nil {
			d.c.Fail("dictionary-ne-written", fmt.Sprintf("after %s: metric %s: %v", after, name, err))
			continue
		}
		schema, err := d.e.meta.GetSchema(metricID)
		if err != nil || schema == nil {
			d.c.Fail("dictionary-ne-written", fmt.Sprintf("after %s: schema of %s: %v", after, name, err))
			continue
		}
		want := map[string]map[string]bool{}
		for _, rec := range recs {
			for k, v := range rec.tags {
				if want[k] == nil {
					want[k] = map[string]bool{}
				}
				want[k][v] = true
			}
		}
		for k, vs := range want {
			tm, ok := schema.TagKeys.Find(k)
			if !ok {
				d.c.Fail("dictionary-ne-written", fmt.Sprintf("after %s: metric %s: tag key %q not in the schema", after, name, k))
				continue
			}
			ids, err := d.e.meta.FindTagValueIDsForTag(tm.ID)
			if err != nil {
				d.c.Fail("dictionary-ne-written", fmt.Sprintf("after %s: values of %s.%s: %v", after, name, k, err))
				continue
			}
			got := map[uint32]string{}
			if err := d.e.meta.CollectTagValues(tm.ID, ids.Clone(), got); err != nil {
				d.c.Fail("dictionary-ne-written", fmt.Sprintf("after %s: strings of %s.%s: %v", after, name, k, err))
				continue
			}
			gotSet := map[string]bool{}
			for _, v := range got {
				gotSet[v] = true
			}
			var extra, missing []string
			for v := range gotSet {
				if !vs[v] {
					extra = append(extra, v)
				}
			}
			for v := range vs {
				if !gotSet[v] {
					missing = append(missing, v)
				}
			}
			if len(extra)+len(missing) > 0 || len(got) != int(ids.GetCardinality()) {
				sort.Strings(extra)
				sort.Strings(missing)
				ne, nm := len(extra), len(missing)
				if ne > 5 {
					extra = extra[:5]
				}
				if nm > 5 {
					missing = append(missing[:3:3], missing[nm-2:]...)
				}
				d.c.Fail("dictionary-ne-written", fmt.Sprintf("after %s: dictionary of %s.%s has %d ids for %d written values; %d values not written under the key (e.g. %q), %d written values missing (e.g. %q)",
					after, name, k, ids.GetCardinality(), len(vs), ne, extra, nm, missing))
			}
		}
	}
}

// sendRx emits the regexp-table rows the model needs for cond (Go's regexp = the matcher parameter).
func (d *dbt) sendRx(cond stmt.Expr) {
	var atoms []stmt.TagFilter
	atomsOf(cond, &atoms)
	for _, a := range atoms {
		rx, ok := a.(*stmt.RegexExpr)
		if !ok {
			continue
		}
		row := []string{"rx", hx(rx.Regexp)}
		rp, err := regexp.Compile(rx.Regexp)
		if err != nil {
			row = append(row, "bad", "-")
		} else {
			lit, _ := rp.LiteralPrefix()
			row = append(row, "ok", hx(lit))
			var vs []string
			for v := range d.values {
				if rp.MatchString(v) {
					vs = append(vs, v)
				}
			}
			sort.Strings(vs)
			for _, v := range vs {
				row = append(row, hx(v))
			}
		}
		line := strings.Join(row, " ")
		if d.rxSent[rx.Regexp] == line {
			continue
		}
		d.rxSent[rx.Regexp] = line
		if !d.silent {
			d.c.Op(line, "ok")
		}
	}
}

func fmtIDs(ids []uint32) string {
	if len(ids) == 0 {
		return "-"
	}
	s := make([]string, len(ids))
	for i, v := range sortedU32(ids) {
		s[i] = fmt.Sprint(v)
	}
	return strings.Join(s, ",")
}

func (r *queryResult) line(groupBy []string) string {
	if r.err != nil {
		return errEnum(r.err)
	}
	g := "-"
	if len(groupBy) > 0 {
		switch {
		case r.groupErr != nil:
			g = "g" + errEnum(r.groupErr)
		case len(r.values) > 0:
			var ids []uint32
			for id := range r.values {
				ids = append(ids, id)
			}
			var parts []string
			for _, id := range sortedU32(ids) {
				var vs []string
				for k := range r.values[id] {
					vs = append(vs, r.values[id][k]+"#"+fmt.Sprint(r.valueIDs[id][k]))
				}
				parts = append(parts, fmt.Sprintf("%d:%s", id, strings.Join(vs, "/")))
			}
			g = strings.Join(parts, ";")
		}
	}
	return "ok s=" + fmtIDs(r.series) + " g=" + g
}

// query runs one leaf query on the implementation, mirrors it to the model and evaluates the
// property on the implementation's answer.
func (d *dbt) query(name string, cond stmt.Expr, groupBy []string, how string) {
	toks, ok := condTokens(cond)
	if !ok {
		return
	}
	d.sendRx(cond)
	gb := "-"
	if len(groupBy) > 0 {
		hs := make([]string, len(groupBy))
		for i, k := range groupBy {
			hs[i] = hx(k)
		}
		gb = strings.Join(hs, ",")
	}
	op := "q " + metricTok(name) + " " + gb + " " + toks
	res := d.e.query(nsName, name, cond, groupBy)
	if !d.silent {
		d.c.Op(op, res.line(groupBy))
	}
	d.c.Branch("query/" + how)
	d.oracle(name, cond, groupBy, &res)
}

// queryPlan runs one leaf query through the real stage plans (metadataLookupStage.Plan,
// shardScanStage.Plan, baseStage.execute); cond == nil = no WHERE clause (metric-all-series branch).
func (d *dbt) queryPlan(name string, cond stmt.Expr, groupBy []string, how string) {
	toks := "-"
	if cond != nil {
		t, ok := condTokens(cond)
		if !ok {
			return
		}
		toks = t
		d.sendRx(cond)
	}
	gb := "-"
	if len(groupBy) > 0 {
		hs := make([]string, len(groupBy))
		for i, k := range groupBy {
			hs[i] = hx(k)
		}
		gb = strings.Join(hs, ",")
	}
	op := "qplan " + metricTok(name) + " " + gb + " " + toks
	res, res2 := d.e.queryPlan(nsName, name, cond, groupBy)
	if !d.silent {
		d.c.Op(op, res.line(groupBy))
	}
	if l1, l2 := res.line(groupBy), res2.line(groupBy); l1 != l2 {
		// two shard contexts of ONE storage context (shared TagFilterResult) over the same index
		d.c.Fail("second-shard-differs", fmt.Sprintf("the second shard context of the query answered %.200q, the first %.200q [%s]", l2, l1, op))
	} else {
		d.c.Branch("plan/second-shard-agrees")
	}
	d.c.Branch("query/" + how)
	if cond == nil {
		d.c.Branch("plan/no-condition")
		if len(groupBy) > 0 {
			d.c.Branch("plan/no-condition-group-by")
		}
	} else {
		d.c.Branch("plan/with-condition")
	}
	d.oracle(name, cond, groupBy, &res)
}

// classify names the known defect (if any) whose shape the condition has.
func (d *dbt) classify(cond stmt.Expr, res *queryResult) string {
	var atoms []stmt.TagFilter
	atomsOf(cond, &atoms)
	for _, a := range atoms {
		if l, ok := a.(*stmt.LikeExpr); ok && l.Value == "*" && res.err != nil && errEnum(res.err) == "panic" {
			return "like-star-panic"
		}
	}
	for i := range atoms {
		for j := i + 1; j < len(atoms); j++ {
			if atoms[i].Rewrite() == atoms[j].Rewrite() && string(stmt.Marshal(atoms[i])) != string(stmt.Marshal(atoms[j])) {
				return "rewrite-key-collision"
			}
		}
	}
	for _, a := range atoms {
		if rx, ok := a.(*stmt.RegexExpr); ok {
			if rp, err := regexp.Compile(rx.Regexp); err == nil {
				if lit, _ := rp.LiteralPrefix(); lit != "" {
					for v := range d.flushedVals {
						if rp.MatchString(v) && !strings.HasPrefix(v, lit) {
							return "regex-literal-prefix-skips-flushed-values"
						}
					}
				}
			}
		}
	}
	return ""
}

func (d *dbt) oracle(name string, cond stmt.Expr, groupBy []string, res *queryResult) {
	c := d.c
	got := errEnum(res.err)
	if res.err == nil {
		got = "ok"
	}
	c.Branch("result/" + strings.Fields(got + " x")[0] + "-" + strings.TrimPrefix(got, "err "))
	recs, known := d.series[name]
	fail := func(key, desc string) {
		if cond != nil {
			if k := d.classify(cond, res); k != "" {
				key = k
			}
		}
		if d.parkedAt != "" && key != "panic" {
			key = d.parkedKey
			desc = "query parked at " + d.parkedAt + " while " + d.parkedOps + " ran: " + desc
		}
		if os.Getenv("LVH_C10_DEBUG") != "" {
			var fl, im, me []string
			for v := range d.flushedVals {
				fl = append(fl, v)
			}
			for _, v := range d.immVals {
				im = append(im, v)
			}
			for _, v := range d.memVals {
				me = append(me, v)
			}
			sort.Strings(fl)
			desc += fmt.Sprintf(" {flushed %q imm %q mem %q immSet %v}", fl, im, me, d.immSet)
			for id, rec := range d.series[name] {
				desc += fmt.Sprintf(" %d:%v", id, rec.tags)
			}
		}
		condText := "<no where clause>"
		if cond != nil {
			condText = cond.Rewrite()
		}
		c.Fail(key, fmt.Sprintf("%s [cond %s, group by %v]", desc, condText, groupBy))
	}
	// ---- expected outcome class
	want := "ok"
	switch {
	case !known:
		want = "err metric-not-found"
	default:
		for _, k := range groupBy {
			if !d.keys[name][k] {
				want = "err key-not-found"
			}
		}
		if want == "ok" && cond != nil {
			want = d.expectCond(name, cond)
		}
	}
	if cond != nil && !shaped(cond) {
		// outside the grammar's shape: the reference semantics does not define `not` there; only a
		// panic is reported.
		c.Branch("cond/outside-grammar-shape")
		if got == "panic" {
			fail("panic", "query panicked")
		}
		return
	}
	if got != want {
		fail("outcome-"+strings.ReplaceAll(strings.TrimPrefix(got, "err "), " ", "-"), fmt.Sprintf("outcome %q, expected %q", got, want))
		return
	}
	if want != "ok" {
		return
	}
	// ---- selected series == {s | eval(tags s)}
	exp := map[uint32]bool{}
	for id, rec := range recs {
		if cond == nil || evalRef(cond, rec.tags) {
			exp[id] = true
		}
	}
	gotSet := map[uint32]bool{}
	for _, id := range res.series {
		gotSet[id] = true
	}
	var missing, extra []uint32
	for id := range exp {
		if !gotSet[id] {
			missing = append(missing, id)
		}
	}
	for id := range gotSet {
		if cond == nil && len(groupBy) == 0 && id == series.IDWithoutTags {
			// metricAllSeries.Execute adds series.IDWithoutTags when the query has no group-by
			continue
		}
		if !exp[id] {
			extra = append(extra, id)
		}
	}
	if len(missing)+len(extra) > 0 {
		key := "filter-ne-eval"
		if cond == nil {
			key = "nocond-ne-all-series"
		}
		fail(key, fmt.Sprintf("selected %v; missing %v, extra %v", sortedU32(res.series), sortedU32(missing), sortedU32(extra)))
		return
	}
	if len(exp) > 0 {
		c.NonTrivial()
	}
	if len(groupBy) == 0 || len(exp) == 0 {
		return
	}
	// ---- group by: the selected series that carry every grouping key, each with exactly its values
	expG := map[uint32][]string{}
	for id := range exp {
		var vs []string
		okAll := true
		for _, k := range groupBy {
			v, has := recs[id].tags[k]
			if !has {
				okAll = false
				break
			}
			vs = append(vs, hx(v))
		}
		if okAll {
			expG[id] = vs
		}
	}
	if len(expG) == 0 {
		if res.groupErr == nil || errEnum(res.groupErr) != "err not-found" {
			fail("groupby-empty", fmt.Sprintf("no selected series carries all grouping keys, got err=%v values=%v", res.groupErr, res.values))
		}
		return
	}
	if res.groupErr != nil {
		fail("groupby-error", fmt.Sprintf("grouping failed: %v", res.groupErr))
		return
	}
	bad := 0
	var first string
	lut := false
	for id, vs := range expG {
		g, has := res.values[id]
		if !has || strings.Join(g, "/") != strings.Join(vs, "/") {
			if bad == 0 {
				first = fmt.Sprintf("series %d: got %v want %v", id, g, vs)
			}
			if id >= 131072 {
				lut = true
			}
			bad++
		}
	}
	for id := range res.values {
		if _, has := expG[id]; !has {
			if bad == 0 {
				first = fmt.Sprintf("series %d grouped although it lacks a grouping key or is not selected", id)
			}
			bad++
		}
	}
	if bad > 0 {
		key := "groupby-values"
		if lut {
			key = "forward-lut-third-container"
		}
		fail(key, fmt.Sprintf("%d series with wrong grouping values; %s", bad, first))
	}
}

// expectCond: the outcome class of the condition part: unknown key / bad regexp / bad operator are
// errors of the lookup walk (first one in walk order).
func (d *dbt) expectCond(name string, e stmt.Expr) string {
	switch x := e.(type) {
	case *stmt.NotExpr:
		return d.expectCond(name, x.Expr)
	case *stmt.ParenExpr:
		return d.expectCond(name, x.Expr)
	case *stmt.BinaryExpr:
		if x.Operator != stmt.AND && x.Operator != stmt.OR {
			return "err bad-operator"
		}
		if l := d.expectCond(name, x.Left); l != "ok" {
			return l
		}
		return d.expectCond(name, x.Right)
	case stmt.TagFilter:
		if !d.keys[name][x.TagKey()] {
			return "err key-not-found"
		}
		if rx, ok := x.(*stmt.RegexExpr); ok {
			if _, err := regexp.Compile(rx.Regexp); err != nil {
				return "err bad-regexp"
			}
		}
	}
	return "ok"
}

// parseWhere parses `where` through the real SQL parser.
func parseWhere(where string, groupBy []string) (stmt.Expr, []string, error) {
	q := "select f from m where " + where
	if len(groupBy) > 0 {
		qs := make([]string, len(groupBy))
		for i, k := range groupBy {
			qs[i] = quote(k)
		}
		q += " group by " + strings.Join(qs, ",")
	}
	s, err := sql.Parse(q)
	if err != nil {
		return nil, nil, fmt.Errorf("%q: %w", q, err)
	}
	qs, ok := s.(*stmt.Query)
	if !ok {
		return nil, nil, fmt.Errorf("%q parsed to %T", q, s)
	}
	return qs.Condition, qs.GroupBy, nil
}

func quote(s string) string {
	if strings.Contains(s, "'") {
		return `"` + s + `"`
	}
	return "'" + s + "'"
}

// ---------------------------------------------------------------- generators

var valuePool = []string{
	"a", "ab", "abc", "abcd", "b", "bc", "xabc", "abx", "a,b", "~^b", "^b", "é", "éa", "aé", "日本", "日本語", "本",
	"a*", "*", "a b", "A", "Ab", "10", "192.168.1.1", "192.168.1.10", "192.168.2.1", "host-1", "host-10", "host-2", "z",
	// round 10: quote characters and backslashes. lindb's grammar has NO escape sequences in quoted
	// literals ('...' / "..." are `.*?` up to the next quote of the same kind; the escape fragment is
	// commented out), so `a\b`, `a\` and `\n` (two characters) are taken verbatim; a value with a double
	// quote is written in single quotes; a value with a single quote can only be sent as a tree (sqlOf).
	`a\b`, `a\`, `\n`, "it's", `q"d`, `\'`, `'"`,
}
var keyPool = []string{"host", "zone", "ip", "région", "k"}

type cgen struct {
	r       *rand.Rand
	keys    []string // keys that may appear in conditions (known + some unknown)
	tree    bool     // build trees (may leave the grammar's shape) instead of SQL text
	defects bool     // allow shapes of the recorded findings
}

func (g *cgen) pick(xs []string) string { return xs[g.r.Intn(len(xs))] }

func (g *cgen) key() string {
	if g.r.Intn(25) == 0 {
		return "nokey"
	}
	return g.pick(g.keys)
}

func (g *cgen) value() string {
	if g.r.Intn(8) == 0 {
		return g.pick([]string{"nope", "zz", "abcde", "é!"})
	}
	return g.pick(valuePool)
}

func (g *cgen) likePattern() string {
	v := g.pick(valuePool)
	rs := []rune(v)
	cut := 1 + g.r.Intn(len(rs))
	switch g.r.Intn(9) {
	case 0:
		return string(rs[:cut]) + "*"
	case 1:
		return "*" + string(rs[len(rs)-cut:])
	case 2:
		lo := g.r.Intn(len(rs))
		return "*" + string(rs[lo:lo+1+g.r.Intn(len(rs)-lo)]) + "*"
	case 3:
		return v
	case 4:
		return "**"
	case 5:
		return g.pick([]string{"a*b", "*a*b", "a**", "***", "h*-1"})
	case 6:
		if g.defects && g.r.Intn(3) == 0 {
			return "*"
		}
		return "ab*"
	case 7:
		return g.pick([]string{"", "192.168.*", "*.1", "host-*", "*本*"})
	default:
		return string(rs[:cut]) + "*"
	}
}

func (g *cgen) regex() string {
	v := g.pick(valuePool)
	switch g.r.Intn(10) {
	case 0:
		return "^" + regexp.QuoteMeta(v)
	case 1:
		if g.defects {
			return regexp.QuoteMeta(v) + "$" // unanchored with a literal prefix
		}
		return "^.*" + regexp.QuoteMeta(v) + "$"
	case 2:
		return "^.*" + regexp.QuoteMeta(string([]rune(v)[:1])) + ".*$"
	case 3:
		return g.pick([]string{"(?i)^ab", "[0-9]+", ".*", "^(a|b)c?$", "^host-[0-9]$", "^[^a]", `^\d+\.\d+\.1\.`, "^日", ".é$"})
	case 4:
		return g.pick([]string{"(", "a{2,1}", "[z-a]", "*a"})
	case 5:
		if g.defects {
			return g.pick([]string{"bc", "b", "abc", "a.c", "1"}) // unanchored with a literal prefix
		}
		return "^a.*c$"
	default:
		return "^" + regexp.QuoteMeta(string([]rune(v)[:1]))
	}
}

func (g *cgen) atom() stmt.TagFilter {
	k := g.key()
	switch g.r.Intn(10) {
	case 0, 1, 2:
		return &stmt.EqualsExpr{Key: k, Value: g.value()}
	case 3, 4:
		n := 1 + g.r.Intn(3)
		in := &stmt.InExpr{Key: k}
		for i := 0; i < n; i++ {
			in.Values = append(in.Values, g.value())
		}
		return in
	case 5, 6, 7:
		return &stmt.LikeExpr{Key: k, Value: g.likePattern()}
	default:
		return &stmt.RegexExpr{Key: k, Regexp: g.regex()}
	}
}

func (g *cgen) expr(depth int) stmt.Expr {
	if depth <= 0 || g.r.Intn(3) == 0 {
		a := g.atom()
		if g.r.Intn(4) == 0 {
			if g.tree && g.r.Intn(4) == 0 {
				return &stmt.NotExpr{Expr: &stmt.ParenExpr{Expr: a}}
			}
			return &stmt.NotExpr{Expr: a}
		}
		return a
	}
	switch g.r.Intn(10) {
	case 0, 1, 2, 3:
		return &stmt.BinaryExpr{Left: g.expr(depth - 1), Right: g.expr(depth - 1), Operator: stmt.AND}
	case 4, 5, 6, 7:
		return &stmt.BinaryExpr{Left: g.expr(depth - 1), Right: g.expr(depth - 1), Operator: stmt.OR}
	case 8:
		return &stmt.ParenExpr{Expr: g.expr(depth - 1)}
	default:
		if g.tree && g.r.Intn(6) == 0 {
			if g.r.Intn(2) == 0 {
				return &stmt.NotExpr{Expr: g.expr(depth - 1)} // may wrap a compound: outside the grammar
			}
			return &stmt.BinaryExpr{Left: g.expr(depth - 1), Right: g.expr(depth - 1), Operator: stmt.ADD}
		}
		return &stmt.ParenExpr{Expr: g.expr(depth - 1)}
	}
}

// repeated builds a condition in which one atomic filter occurs in two or three different branches.
func (g *cgen) repeated() stmt.Expr {
	lit := func() stmt.Expr {
		a := g.atom()
		if g.r.Intn(4) == 0 {
			return &stmt.NotExpr{Expr: a}
		}
		return a
	}
	a := g.atom()
	A := func() stmt.Expr { return a }
	b, c := lit(), lit()
	and := func(l, r stmt.Expr) stmt.Expr { return &stmt.BinaryExpr{Left: l, Right: r, Operator: stmt.AND} }
	or := func(l, r stmt.Expr) stmt.Expr { return &stmt.BinaryExpr{Left: l, Right: r, Operator: stmt.OR} }
	par := func(e stmt.Expr) stmt.Expr { return &stmt.ParenExpr{Expr: e} }
	switch g.r.Intn(8) {
	case 0:
		return or(par(and(A(), b)), par(and(A(), c)))
	case 1:
		return and(par(or(A(), b)), par(or(A(), c)))
	case 2:
		return or(par(and(A(), b)), A())
	case 3:
		return and(A(), par(or(b, A())))
	case 4:
		return or(or(par(and(A(), b)), par(and(c, A()))), par(and(A(), b)))
	case 5:
		return and(&stmt.NotExpr{Expr: a}, par(or(A(), b)))
	case 6:
		return or(par(and(b, A())), par(and(par(or(A(), c)), A())))
	default:
		return and(par(or(par(and(A(), b)), c)), par(or(A(), &stmt.NotExpr{Expr: a})))
	}
}

// sqlOf renders a grammar-shaped tree as SQL text (ok=false when some literal cannot be quoted).
func sqlOf(e stmt.Expr) (string, bool) {
	q := func(s string) (string, bool) {
		// a literal containing a single quote cannot be written: "..." lexes as the STRING token (defined
		// before L_ID, same length), which the tag filter rules do not accept, and '...' ends at the first
		// single quote (no escape sequences). Such conditions are sent as trees only.
		if strings.Contains(s, "'") {
			return "", false
		}
		return "'" + s + "'", true
	}
	atom := func(a stmt.TagFilter, neg bool) (string, bool) {
		k, ok := q(a.TagKey())
		if !ok {
			return "", false
		}
		switch x := a.(type) {
		case *stmt.EqualsExpr:
			v, ok := q(x.Value)
			op := " = "
			if neg {
				op = " != "
			}
			return k + op + v, ok
		case *stmt.LikeExpr:
			v, ok := q(x.Value)
			op := " like "
			if neg {
				op = " not like "
			}
			return k + op + v, ok
		case *stmt.RegexExpr:
			v, ok := q(x.Regexp)
			op := " =~ "
			if neg {
				op = " !~ "
			}
			return k + op + v, ok
		case *stmt.InExpr:
			var vs []string
			for _, v := range x.Values {
				s, ok := q(v)
				if !ok {
					return "", false
				}
				vs = append(vs, s)
			}
			op := " in "
			if neg {
				op = " not in "
			}
			return k + op + "(" + strings.Join(vs, ",") + ")", len(vs) > 0
		}
		return "", false
	}
	switch x := e.(type) {
	case *stmt.NotExpr:
		a, ok := x.Expr.(stmt.TagFilter)
		if !ok {
			return "", false
		}
		return atom(a, true)
	case *stmt.ParenExpr:
		s, ok := sqlOf(x.Expr)
		return "(" + s + ")", ok
	case *stmt.BinaryExpr:
		l, ok1 := sqlOf(x.Left)
		r, ok2 := sqlOf(x.Right)
		op := " and "
		if x.Operator == stmt.OR {
			op = " or "
		} else if x.Operator != stmt.AND {
			return "", false
		}
		return l + op + r, ok1 && ok2
	case stmt.TagFilter:
		return atom(x, false)
	}
	return "", false
}

func (d *dbt) randomTags(r *rand.Rand, keys []string, vals map[string][]string) map[string]string {
	tags := map[string]string{}
	for _, k := range keys {
		if r.Intn(10) < 7 {
			tags[k] = vals[k][r.Intn(len(vals[k]))]
		}
	}
	return tags
}

// dbCase: random writes / placements / queries against one pair of databases.
func dbCase(c *core.Ctx, r *rand.Rand) {
	d, err := newDBT(c)
	if err != nil {
		c.Fail("harness-env", err.Error())
		return
	}
	defer d.close()
	metrics := []string{"cpu"}
	if r.Intn(3) == 0 {
		metrics = append(metrics, "mem")
	}
	nk := 2 + r.Intn(3)
	perm := r.Perm(len(keyPool))
	keys := make([]string, nk)
	for i := range keys {
		keys[i] = keyPool[perm[i]]
	}
	vals := map[string][]string{}
	for _, k := range keys {
		n := 2 + r.Intn(6)
		for i := 0; i < n; i++ {
			vals[k] = append(vals[k], valuePool[r.Intn(len(valuePool))])
		}
	}
	defects := r.Intn(12) == 0
	if defects {
		c.Branch("case/defect-shapes-allowed")
	}
	places := []string{"prepare-meta", "flush-meta", "compact-meta", "prepare-index", "flush-index", "compact-index"}
	steps := 30 + r.Intn(50)
	if c.Tier == "thorough" {
		steps += r.Intn(120)
	}
	for s := 0; s < steps; s++ {
		x := r.Intn(100)
		switch {
		case x < 45 || s < 4:
			d.write(metrics[r.Intn(len(metrics))], d.randomTags(r, keys, vals))
		case x < 62:
			switch r.Intn(8) {
			case 6, 7: // queries from INSIDE a real Flush(), sometimes with a failing file creation
				var qs []probeQuery
				for len(qs) < 2 {
					if q, ok := genQuery(c, r, metrics, keys, defects); ok {
						qs = append(qs, q)
					}
				}
				switch r.Intn(8) {
				case 0:
					d.place("prepare-index")
					d.flushInside(false, "inverted", qs)
				case 1:
					d.place("prepare-index")
					d.flushInside(false, "forward", qs)
				case 2:
					d.place("prepare-meta")
					d.flushInside(true, "tv", qs)
				case 3, 4:
					d.place("prepare-meta")
					d.flushInside(true, "", qs)
				default:
					if r.Intn(4) > 0 {
						d.place("prepare-index")
					}
					d.flushInside(false, "", qs)
				}
			case 0: // a whole flush cycle of both databases, as the flush checker does
				for _, p := range []string{"prepare-meta", "flush-meta", "prepare-index", "flush-index"} {
					d.place(p)
				}
			case 1:
				d.place("prepare-index")
				d.place("flush-index")
			case 2:
				d.place("prepare-meta")
				d.place("flush-meta")
			default:
				d.place(places[r.Intn(len(places))])
			}
		default:
			if r.Intn(9) == 0 {
				parkedRandom(d, r, metrics, keys, defects)
				continue
			}
			if q, ok := genQuery(c, r, metrics, keys, defects); ok {
				// round 12: one query in three goes through the real stage plans (the Plan() functions
				// pick the operators), half of those without a WHERE clause
				switch r.Intn(6) {
				case 0:
					d.queryPlan(q.metric, nil, q.groupBy, "plan-nocond")
				case 1:
					d.queryPlan(q.metric, q.cond, q.groupBy, "plan-"+q.how)
				default:
					d.query(q.metric, q.cond, q.groupBy, q.how)
				}
			}
		}
	}
}

// parkedRandom: a single-atom query parked at one of the read paths' yield points while a flush cycle runs.
func parkedRandom(d *dbt, r *rand.Rand, metrics, keys []string, defects bool) {
	g := &cgen{r: r, keys: keys, defects: defects}
	name := metrics[r.Intn(len(metrics))]
	point := []string{"dictfind", "dictscan", "inverted", "forward", "grouping", "collect", "values", "suggest", "allseries"}[r.Intn(9)]
	var cond stmt.Expr
	k := keys[r.Intn(len(keys))]
	switch point {
	case "values", "suggest", "allseries":
		pl := []string{"prepare-meta", "flush-meta"}
		if point == "allseries" {
			pl = []string{"prepare-index", "flush-index"}
		}
		d.parkedDirect(point, name, k, pl)
		return
	case "grouping", "collect":
		// a positive single-atom condition (no forward read in the filter) with a group by
		a := g.atom()
		gb := []string{k}
		if point == "grouping" && r.Intn(2) == 0 {
			gb = append(gb, keys[r.Intn(len(keys))])
		}
		pl := []string{"prepare-index", "flush-index"}
		if point == "collect" {
			pl = []string{"prepare-meta", "flush-meta"}
		}
		if gb[0] == gb[len(gb)-1] && len(gb) > 1 {
			gb = gb[:1]
		}
		d.queryParked(point, name, a, pl, gb...)
		return
	case "dictfind":
		cond = &stmt.EqualsExpr{Key: k, Value: g.value()}
	case "dictscan":
		if r.Intn(2) == 0 {
			cond = &stmt.LikeExpr{Key: k, Value: g.likePattern()}
		} else {
			cond = &stmt.RegexExpr{Key: k, Regexp: g.regex()}
		}
	case "inverted":
		a := g.atom()
		cond = a
		if r.Intn(3) == 0 {
			cond = &stmt.NotExpr{Expr: a}
		}
	default:
		cond = &stmt.NotExpr{Expr: g.atom()}
	}
	meta := point == "dictfind" || point == "dictscan"
	pre, fl := "prepare-index", "flush-index"
	if meta {
		pre, fl = "prepare-meta", "flush-meta"
	}
	// No compaction while a reader is parked: bitmaps built from a snapshot (roaring FromBuffer + Or share
	// the mmap'ed containers) are used after findSeriesIDsByKeys closed that snapshot, so deleting the
	// old files under a live query reads unmapped / reused memory — a snapshot-lifetime defect of its
	// own (C02/C03 territory, see design note), not something this model can predict.
	var places []string
	switch r.Intn(4) {
	case 0:
		d.place(pre)
		places = []string{fl}
	case 1, 2:
		places = []string{pre, fl}
	default:
		d.place(pre)
		places = []string{fl, pre, fl}
	}
	d.queryParked(point, name, cond, places)
}

// genQuery draws one leaf query: metric, condition (SQL text through sql.Parse or a stmt tree), group-by keys.
func genQuery(c *core.Ctx, r *rand.Rand, metrics, keys []string, defects bool) (probeQuery, bool) {
	name := metrics[r.Intn(len(metrics))]
	if r.Intn(40) == 0 {
		name = "nometric"
	}
	g := &cgen{r: r, keys: keys, tree: r.Intn(2) == 0, defects: defects}
	var cond stmt.Expr
	if r.Intn(5) == 0 {
		// region: the SAME atomic filter in different branches of and / or (seriesFiltering evaluates in
		// place on bitmap objects: an operand object shared between branches would be corrupted)
		cond = g.repeated()
		c.Branch("cond/repeated-atom-region")
	} else {
		cond = g.expr(1 + r.Intn(3))
	}
	{
		var as []stmt.TagFilter
		atomsOf(cond, &as)
		seen := map[string]bool{}
		for _, a := range as {
			k := string(stmt.Marshal(a))
			if seen[k] {
				c.Branch("cond/atom-occurs-twice")
				break
			}
			seen[k] = true
		}
	}
	var gb []string
	switch r.Intn(6) {
	case 0, 1:
	case 2:
		gb = append(gb, keys...) // group by all keys: identifies the series
	case 3:
		gb = []string{keys[r.Intn(len(keys))]}
	case 4:
		p := r.Perm(len(keys))
		gb = []string{keys[p[0]], keys[p[1]]}
	default:
		if r.Intn(6) == 0 {
			gb = []string{"nokey"}
		} else {
			gb = []string{keys[r.Intn(len(keys))]}
		}
	}
	how := "tree"
	if !g.tree {
		if text, ok := sqlOf(cond); ok {
			parsed, pgb, err := parseWhere(text, gb)
			if err != nil {
				c.Fail("sql-parse", err.Error())
				return probeQuery{}, false
			}
			if parsed.Rewrite() == cond.Rewrite() {
				c.Branch("sql/literals-verbatim")
			} else {
				c.Branch("sql/parsed-tree-differs")
			}
			if strings.ContainsAny(text, `\`) {
				c.Branch("sql/literal-with-backslash")
			}
			cond, how = parsed, "sql"
			if len(gb) > 0 {
				gb = pgb
			}
		}
	}
	return probeQuery{metric: name, cond: cond, groupBy: gb, how: how}, true
}
