package c10

// Round 12: the leaf query as lindb's STAGES run it. The operators are not picked by the harness:
// metadataLookupStage.Plan() and shardScanStage.Plan() (query/stage) build the plan trees from
// Query.Condition / Query.HasGroupBy(), and the stages' own Execute (baseStage.execute) walks them.
// Stand-ins: one data family whose Filter reports "every selected series has data" (and records the
// selection at that point of the plan); default limits; no executor pool (synchronous execution).

import (
	"context"
	"fmt"
	"time"

	"github.com/lindb/lindb/constants"
	"github.com/lindb/lindb/flow"
	"github.com/lindb/lindb/index"
	"github.com/lindb/lindb/models"
	"github.com/lindb/lindb/pkg/timeutil"
	qcontext "github.com/lindb/lindb/query/context"
	"github.com/lindb/lindb/query/stage"
	trackerpkg "github.com/lindb/lindb/query/tracker"
	"github.com/lindb/lindb/sql/stmt"
	"github.com/lindb/lindb/tsdb"
)

type planFamily struct {
	tsdb.DataFamily
	reached bool
	sel     []uint32
}

func (f *planFamily) Filter(ctx *flow.ShardExecuteContext) ([]flow.FilterResultSet, error) {
	f.reached = true
	f.sel = ctx.SeriesIDsAfterFiltering.ToArray()
	// DataFamilyRead would report the series that have data in the time range: all of them here.
	ctx.TimeSegmentContext.SeriesIDs = ctx.SeriesIDsAfterFiltering.Clone()
	return nil, nil
}
func (f *planFamily) Interval() timeutil.Interval { return timeutil.Interval(10_000) }

type planDB struct {
	tsdb.Database
	e      *env
	shards []*planShardT
}

type planShardT struct {
	tsdb.Shard
	id  models.ShardID
	e   *env
	db  *planDB
	fam *planFamily
}

func (d *planDB) MetaDB() index.MetricMetaDatabase { return d.e.meta }
func (d *planDB) Name() string                     { return "lvh" }
func (d *planDB) ExecutorPool() *tsdb.ExecutorPool { return &tsdb.ExecutorPool{} }
func (d *planDB) GetLimits() *models.Limits        { return models.NewDefaultLimits() }
func (d *planDB) GetShard(id models.ShardID) (tsdb.Shard, bool) {
	if int(id) < len(d.shards) {
		return d.shards[id], true
	}
	return nil, false
}

func (s *planShardT) IndexDB() index.MetricIndexDatabase { return s.e.idx }
func (s *planShardT) Database() tsdb.Database            { return s.db }
func (s *planShardT) ShardID() models.ShardID            { return s.id }
func (s *planShardT) GetDataFamilies(timeutil.IntervalType, timeutil.TimeRange) []tsdb.DataFamily {
	return []tsdb.DataFamily{s.fam}
}

// queryPlan runs one leaf query (cond may be nil: no WHERE clause) through the real stage plans, on
// TWO shard contexts that share the storage-level context (TagFilterResult, group-by key ids) — as a
// storage node does for a database with several shards; both shards read the same index database, so
// the second shard's answer (res2) must equal the first one's.
func (e *env) queryPlan(ns, name string, cond stmt.Expr, groupBy []string) (res, res2 queryResult) {
	defer func() {
		if r := recover(); r != nil {
			res.err = fmt.Errorf("panic: %v", r)
			res.stage = "panic"
			res2 = res
		}
	}()
	q := &stmt.Query{
		Namespace: ns, MetricName: name,
		SelectItems:     []stmt.Expr{&stmt.SelectItem{Expr: &stmt.FieldExpr{Name: fieldName}}},
		Condition:       cond,
		GroupBy:         groupBy,
		TimeRange:       timeutil.TimeRange{Start: 1_700_000_000_000 - 3_600_000, End: 1_700_000_000_000 + 3_600_000},
		Interval:        timeutil.Interval(10_000),
		StorageInterval: timeutil.Interval(10_000),
		IntervalRatio:   1,
	}
	sctx := &flow.StorageExecuteContext{
		Query:    q,
		TaskCtx:  flow.NewTaskContextWithTimeout(context.Background(), time.Minute),
		ShardIDs: []models.ShardID{0, 1},
	}
	defer sctx.TaskCtx.Release()
	db := &planDB{e: e}
	for i := 0; i < 2; i++ {
		db.shards = append(db.shards, &planShardT{id: models.ShardID(i), e: e, db: db, fam: &planFamily{}})
	}
	leafCtx := &qcontext.LeafExecuteContext{
		TaskCtx:           sctx.TaskCtx,
		StorageExecuteCtx: sctx,
		Database:          db,
	}
	leafCtx.Tracker = trackerpkg.NewStageTracker(sctx.TaskCtx)
	leafCtx.GroupingCtx = qcontext.NewLeafGroupingContext(leafCtx)

	run := func(st stage.Stage, what string) (bool, error) {
		plan := st.Plan()
		if plan == nil {
			return false, nil
		}
		var perr error
		done := false
		st.Execute(plan, func() { done = true }, func(err error) { perr = err })
		if perr == nil && !done {
			perr = fmt.Errorf("stage %s neither completed nor failed", what)
		}
		return true, perr
	}
	metaStage := stage.NewMetadataLookupStage(leafCtx)
	if _, err := run(metaStage, "metadata"); err != nil {
		r := queryResult{err: err, stage: "metadata"}
		return r, r
	}
	next := metaStage.NextStages()
	if len(next) != 2 || len(sctx.ShardContexts) != 2 {
		r := queryResult{err: fmt.Errorf("metadata stage produced %d shard stages", len(next)), stage: "plan"}
		return r, r
	}
	shardRun := func(i int) (res queryResult) {
		defer func() {
			if r := recover(); r != nil {
				res = queryResult{err: fmt.Errorf("panic: %v", r), stage: "panic"}
			}
		}()
		shctx := sctx.ShardContexts[i]
		fam := db.shards[i].fam
		planned, err := run(next[i], "shard-scan")
		if err != nil {
			return queryResult{err: err, stage: "shard"}
		}
		if !planned || !fam.reached {
			return queryResult{err: fmt.Errorf("shard scan plan did not reach the data family"), stage: "plan"}
		}
		res.series = fam.sel
		if len(groupBy) == 0 {
			return res
		}
		if shctx.GroupingContext == nil && len(fam.sel) > 0 {
			// the plan node ignores ErrNotFound of GroupingContextBuild: nothing was grouped
			res.groupErr = constants.ErrNotFound
			res.grouped = shctx.SeriesIDsAfterFiltering.ToArray()
			return res
		}
		e.readGroups(sctx, shctx, groupBy, &res)
		return res
	}
	res = shardRun(0)
	res2 = shardRun(1)
	return res, res2
}
