package c10

import (
	"bytes"
	"encoding/binary"
	"fmt"
	"math/rand"
	"sort"
	"strings"

	"github.com/lindb/roaring"

	v1 "github.com/lindb/lindb/index/v1"
	"github.com/lindb/lindb/kv/table"
	"github.com/lindb/lindb/pkg/encoding"
	"github.com/lindb/lindb/sql/stmt"

	"github.com/lindb/lindb/zzverif/internal/core"
)

func mustParse(c *core.Ctx, where string, gb []string) (stmt.Expr, []string, bool) {
	cond, pgb, err := parseWhere(where, gb)
	if err != nil {
		c.Fail("sql-parse", err.Error())
		return nil, nil, false
	}
	return cond, pgb, true
}

func flushAll(d *dbt) {
	for _, p := range []string{"prepare-meta", "flush-meta", "prepare-index", "flush-index"} {
		d.place(p)
	}
}

// witnessLikeStar: `like '*'` (grammar-shaped) panics in indexKVStore.FindValuesByLike
// (likeSlice[1 : len-1] with len = 1), in every index state.
func witnessLikeStar(c *core.Ctx) {
	d, err := newDBT(c)
	if err != nil {
		c.Fail("harness-env", err.Error())
		return
	}
	defer d.close()
	d.write("cpu", map[string]string{"host": "a"})
	d.write("cpu", map[string]string{"host": "b", "zone": "z"})
	d.write("cpu", map[string]string{"zone": "z"})
	for _, w := range []string{"'host' like '*'", "'host' like '**'", "'host' not like '*'"} {
		if cond, _, ok := mustParse(c, w, nil); ok {
			d.query("cpu", cond, nil, "sql")
		}
	}
	flushAll(d)
	if cond, _, ok := mustParse(c, "'host' like '*'", nil); ok {
		d.query("cpu", cond, nil, "sql")
	}
}

// witnessRewriteCollision: two different atomic filters of one condition whose Rewrite() strings
// coincide share one TagFilterResult slot; the later lookup overwrites the earlier.
func witnessRewriteCollision(c *core.Ctx) {
	d, err := newDBT(c)
	if err != nil {
		c.Fail("harness-env", err.Error())
		return
	}
	defer d.close()
	d.write("cpu", map[string]string{"host": "~^b"})
	d.write("cpu", map[string]string{"host": "bc"})
	d.write("cpu", map[string]string{"host": "a,b"})
	d.write("cpu", map[string]string{"host": "a"})
	d.write("cpu", map[string]string{"host": "b"})
	for _, w := range []string{
		"'host' = '~^b' or 'host' =~ '^b'",
		"'host' in ('a,b') or 'host' in ('a','b')",
		"'host' in ('a,b') and 'host' in ('a','b')",
		"'host' = 'a' or 'host' = 'a'", // same filter twice: same slot, harmless
	} {
		if cond, _, ok := mustParse(c, w, []string{"host"}); ok {
			d.query("cpu", cond, []string{"host"}, "sql")
		}
	}
}

// witnessRegexPrefix: an unanchored regexp with a literal prefix finds a value that merely CONTAINS
// the literal while the dictionary entry is in memory and loses it once the entry is flushed
// (TrieBucket.FindValuesByRegexp walks the trie from rp.LiteralPrefix()).
func witnessRegexPrefix(c *core.Ctx) {
	d, err := newDBT(c)
	if err != nil {
		c.Fail("harness-env", err.Error())
		return
	}
	defer d.close()
	d.write("cpu", map[string]string{"host": "abc"})
	d.write("cpu", map[string]string{"host": "xabc"})
	d.write("cpu", map[string]string{"host": "zzz"})
	cond, _, ok := mustParse(c, "'host' =~ 'abc'", nil)
	if !ok {
		return
	}
	d.query("cpu", cond, nil, "sql")
	flushAll(d)
	d.query("cpu", cond, nil, "sql")
	if cond2, _, ok := mustParse(c, "'host' !~ 'abc'", nil); ok {
		d.query("cpu", cond2, nil, "sql")
	}
}

// witnessNotCompound: `not` over a compound expression can only be built as a tree (the grammar
// produces `not` around one atomic filter). seriesFiltering then takes "all series" for tag key id 0.
// Outside the property's input space: recorded as a note, never an oracle failure.
func witnessNotCompound(c *core.Ctx) {
	d, err := newDBT(c)
	if err != nil {
		c.Fail("harness-env", err.Error())
		return
	}
	defer d.close()
	d.write("cpu", map[string]string{"host": "a", "zone": "z1"})
	d.write("cpu", map[string]string{"host": "b", "zone": "z1"})
	d.write("cpu", map[string]string{"zone": "z2"})
	cond := &stmt.NotExpr{Expr: &stmt.BinaryExpr{Operator: stmt.AND,
		Left:  &stmt.EqualsExpr{Key: "host", Value: "a"},
		Right: &stmt.EqualsExpr{Key: "zone", Value: "z1"}}}
	d.query("cpu", cond, nil, "tree")
	d.query("cpu", &stmt.NotExpr{Expr: &stmt.NotExpr{Expr: &stmt.EqualsExpr{Key: "zone", Value: "z1"}}}, nil, "tree")
	d.query("cpu", &stmt.NotExpr{Expr: &stmt.ParenExpr{Expr: &stmt.EqualsExpr{Key: "zone", Value: "z1"}}}, nil, "tree")
	c.Note("not over a compound expression: series of tag key id 0 minus the operand's series (outside the grammar's shape)")
}

// witnessStuckImmutable: PrepareFlush on empty tables installs an empty immutable table that Flush
// never clears. With `if immutable == nil` every later PrepareFlush was a no-op and nothing was flushed
// any more (repaired in /repo by "fix: PrepareFlush swaps again after a flush round that had nothing to
// flush"); the level-0 file counts in the outputs show which state machine the code has, the model
// follows the extracted condition (`prepareOnEmpty`).
func witnessStuckImmutable(c *core.Ctx) {
	d, err := newDBT(c)
	if err != nil {
		c.Fail("harness-env", err.Error())
		return
	}
	defer d.close()
	flushAll(d)
	d.write("cpu", map[string]string{"host": "abc"})
	d.write("cpu", map[string]string{"host": "xabc"})
	flushAll(d)
	d.place("compact-meta")
	d.place("compact-index")
	if cond, _, ok := mustParse(c, "'host' =~ 'abc' or 'host' like 'x*'", []string{"host"}); ok {
		d.query("cpu", cond, []string{"host"}, "sql")
	}
	l0, l1 := d.e.fileCounts(false, "forward")
	c.Note(fmt.Sprintf("forward family after prepare-on-empty + write + flush: level0=%d level1=%d files", l0, l1))
}

// witnessInsideFlush: the "being flushed" state. Queries run from inside the real
// metricIndexDatabase.Flush / metricMetaDatabase.Flush at every sst-file creation and at the kv
// layer's version-install yield points; then an index flush whose inverted-file creation fails, queries,
// and the retry. At every point the selected series must equal brute force: an entry is readable from
// `files ∪ mutable ∪ immutable` throughout because `immutable = nil` runs only after flusher.Close().
func witnessInsideFlush(c *core.Ctx) {
	d, err := newDBT(c)
	if err != nil {
		c.Fail("harness-env", err.Error())
		return
	}
	defer d.close()
	var qs []probeQuery
	for _, w := range []string{"'host' = 'a'", "'host' != 'a'", "'host' in ('a','c') or 'zone' like 'z*'", "'host' not like 'b*' and 'zone' = 'z1'"} {
		if cond, gb, ok := mustParse(c, w, []string{"host"}); ok {
			qs = append(qs, probeQuery{metric: "cpu", cond: cond, groupBy: gb, how: "sql"})
		}
	}
	d.write("cpu", map[string]string{"host": "a", "zone": "z1"})
	d.write("cpu", map[string]string{"host": "b", "zone": "z1"})
	flushAll(d)
	d.write("cpu", map[string]string{"host": "a", "zone": "z2"})
	d.write("cpu", map[string]string{"host": "c"})
	d.place("prepare-index")
	d.write("cpu", map[string]string{"host": "a", "zone": "z3"}) // lands in the new mutable tables
	d.flushInside(false, "", qs)
	d.write("cpu", map[string]string{"host": "ab", "zone": "z1"})
	d.write("cpu", map[string]string{"host": "a"})
	d.place("prepare-index")
	d.flushInside(false, "inverted", qs) // forward flushed, inverted fails: its batch must stay readable
	for _, q := range qs {
		d.query(q.metric, q.cond, q.groupBy, q.how)
	}
	d.place("prepare-index")
	d.flushInside(false, "forward", qs)
	d.place("flush-index") // the retry
	for _, q := range qs {
		d.query(q.metric, q.cond, q.groupBy, q.how)
	}
	d.place("prepare-meta")
	d.flushInside(true, "tv", qs)
	d.flushInside(true, "", qs)
	d.place("compact-index")
	for _, q := range qs {
		d.query(q.metric, q.cond, q.groupBy, q.how)
	}
}

// witnessParked: reader ‖ flusher. A query is parked right after it took a store's file snapshot; a
// whole PrepareFlush + Flush of that store runs; the query resumes and reads the memory tables. With
// "snapshot first, memory later" the flushed batch is in neither (not in the old snapshot, no longer in
// the immutable table): `host like 'ab*'`, `host =~ '^ab'`, every filter at the postings, and `!=` at
// the forward index lose series written long before the query started. `host = 'abc'` (memory first,
// then snapshot: getOrCreateValue) is right.
func witnessParked(c *core.Ctx) {
	d, err := newDBT(c)
	if err != nil {
		c.Fail("harness-env", err.Error())
		return
	}
	defer d.close()
	d.write("cpu", map[string]string{"host": "abc", "zone": "z1"})
	d.write("cpu", map[string]string{"host": "zz", "zone": "z1"})
	flushAll(d)
	parse := func(w string) stmt.Expr {
		cond, _, ok := mustParse(c, w, nil)
		if !ok {
			return nil
		}
		return cond
	}
	round := 0
	next := func() { // a fresh batch in the memory tables of both databases
		round++
		d.write("cpu", map[string]string{"host": fmt.Sprintf("ab%d", round), "zone": "z2"})
		d.write("cpu", map[string]string{"host": fmt.Sprintf("zz%d", round)})
	}
	for _, t := range []struct{ point, where string }{
		{"dictfind", "'host' = 'abc'"},
		{"dictfind", "'host' = 'ab1'"},
		{"dictscan", "'host' like 'ab*'"},
		{"dictscan", "'host' =~ '^ab'"},
		{"inverted", "'host' like 'ab*'"},
		{"inverted", "'zone' = 'z2'"},
		{"inverted", "'host' != 'abc'"},
		{"forward", "'host' != 'abc'"},
		{"forward", "'zone' not in ('z1')"},
	} {
		next()
		cond := parse(t.where)
		if cond == nil {
			continue
		}
		if t.point == "dictfind" || t.point == "dictscan" {
			d.queryParked(t.point, "cpu", cond, []string{"prepare-meta", "flush-meta"})
		} else {
			d.queryParked(t.point, "cpu", cond, []string{"prepare-index", "flush-index"})
		}
		d.query("cpu", cond, nil, "sql") // the same query afterwards, unparked
	}
}

// bigDictCase: MORE than 32767 new distinct values of one tag key between two metadata flushes, so
// that indexKVStore.Flush's TrieBucketBuilder (block size math.MaxInt16) splits the bucket into several
// trie blocks; a second batch of the same size and a compaction of the two buckets (TrieBucket.Write:
// merged tries re-split at 65535 keys). The answer must not depend on how the sorted values are cut
// into blocks: filters on the lexicographically first / last values and on the values around every
// block boundary, like-prefix, in-list, negations and a regexp are checked against brute force while
// the values are in memory, flushed, after a reopen, and compacted. Implementation + oracle only (the
// list model would need O(n²) steps; its dictionary abstracts the block split, see blocks_cover).
func bigDictCase(c *core.Ctx, n int, second bool) {
	d, err := newDBT(c)
	if err != nil {
		c.Fail("harness-env", err.Error())
		return
	}
	defer d.close()
	d.silent = true
	uid := func(i int) string { return fmt.Sprintf("u%06d", i) }
	probes := func(lo, hi int, state string) {
		last := hi - 1
		var conds []stmt.Expr
		pick := []int{lo, lo + 1, last, last - 1}
		for _, b := range []int{32766, 32767, 32768, 65534, 65535, 65536} {
			if lo+b < hi {
				pick = append(pick, lo+b)
			}
			if b < hi {
				pick = append(pick, b)
			}
		}
		for _, i := range pick {
			if i >= 0 && i < hi {
				conds = append(conds, &stmt.EqualsExpr{Key: "uid", Value: uid(i)})
			}
		}
		conds = append(conds,
			&stmt.NotExpr{Expr: &stmt.EqualsExpr{Key: "uid", Value: uid(last)}},
			&stmt.LikeExpr{Key: "uid", Value: uid(last)[:6] + "*"},
			&stmt.LikeExpr{Key: "uid", Value: uid(lo)[:5] + "*"},
			&stmt.LikeExpr{Key: "uid", Value: "*" + uid(last)[3:]},
			&stmt.NotExpr{Expr: &stmt.LikeExpr{Key: "uid", Value: uid(last)[:4] + "*"}},
			&stmt.InExpr{Key: "uid", Values: []string{uid(lo), uid(last), uid((lo + hi) / 2), "nope"}},
			&stmt.NotExpr{Expr: &stmt.InExpr{Key: "uid", Values: []string{uid(last), uid(lo)}}},
			&stmt.RegexExpr{Key: "uid", Regexp: "^" + uid(last)[:6]},
			&stmt.BinaryExpr{Operator: stmt.AND, Left: &stmt.EqualsExpr{Key: "g", Value: "v3"},
				Right: &stmt.LikeExpr{Key: "uid", Value: uid(last)[:5] + "*"}},
		)
		for _, cond := range conds {
			d.query("big", cond, nil, "tree")
		}
		d.query("big", &stmt.EqualsExpr{Key: "uid", Value: uid(last)}, []string{"uid", "g"}, "tree")
		// round 12: the real stage plans; no WHERE clause = every series of the metric (the metric ->
		// series postings cross a container boundary in the second batch), also grouped
		d.queryPlan("big", nil, nil, "plan-nocond")
		d.queryPlan("big", nil, []string{"g"}, "plan-nocond")
		d.queryPlan("big", &stmt.LikeExpr{Key: "uid", Value: uid(last)[:5] + "*"}, []string{"g"}, "plan-tree")
		c.Note(fmt.Sprintf("big dictionary: %d values of one tag key, %d probes checked against brute force (%s)", hi, len(conds)+4, state))
	}
	write := func(lo, hi int) {
		for i := lo; i < hi; i++ {
			d.write("big", map[string]string{"uid": uid(i), "g": fmt.Sprintf("v%d", i%7)})
		}
	}
	reopen := func() {
		if err := d.e.reopen(); err != nil {
			c.Fail("harness-env", "reopen: "+err.Error())
		}
	}
	write(0, n)
	probes(0, n, "memory")
	flushAll(d)
	probes(0, n, "flushed")
	reopen()
	probes(0, n, "reopened")
	if second {
		write(n, 2*n)
		flushAll(d)
		probes(0, 2*n, "second batch flushed")
		d.place("compact-meta")
		d.place("compact-index")
		probes(0, 2*n, "compacted")
		reopen()
		probes(0, 2*n, "compacted + reopened")
	}
	d.silent = false
	c.Op("reset", "ok")
}

// witnessParkedMore: the other five snapshot+memory readers, each parked right after its snapshot read
// while PrepareFlush + Flush of its store run: GetGroupingContext (group by), CollectKVs (group-by value
// strings), GetValues, Suggest, invertedIndex.getSeriesIDs (all series of a metric).
func witnessParkedMore(c *core.Ctx) {
	d, err := newDBT(c)
	if err != nil {
		c.Fail("harness-env", err.Error())
		return
	}
	defer d.close()
	d.write("cpu", map[string]string{"host": "abc", "zone": "z1"})
	d.write("cpu", map[string]string{"host": "zz", "zone": "z1"})
	flushAll(d)
	round := 0
	next := func() {
		round++
		d.write("cpu", map[string]string{"host": fmt.Sprintf("ab%d", round), "zone": "z2"})
		d.write("cpu", map[string]string{"host": fmt.Sprintf("zz%d", round), "zone": fmt.Sprintf("y%d", round)})
	}
	idx := []string{"prepare-index", "flush-index"}
	meta := []string{"prepare-meta", "flush-meta"}
	like := func(k, p string) stmt.Expr { return &stmt.LikeExpr{Key: k, Value: p} }
	next()
	d.queryParked("grouping", "cpu", like("host", "**"), idx, "host")
	next()
	d.queryParked("grouping", "cpu", like("zone", "z*"), idx, "zone", "host")
	next()
	d.queryParked("collect", "cpu", like("host", "ab*"), meta, "host")
	next()
	d.queryParked("collect", "cpu", like("zone", "**"), meta, "zone")
	next()
	d.parkedDirect("values", "cpu", "host", meta)
	next()
	d.parkedDirect("suggest", "cpu", "zone", meta)
	next()
	d.parkedDirect("allseries", "cpu", "host", idx)
	d.query("cpu", like("host", "**"), []string{"host", "zone"}, "tree")
}

// ---------------------------------------------------------------- forward reader / merger on raw buffers

// capture is a kv.Flusher + table.StreamWriter that keeps the committed values in memory.
type capture struct {
	cur  bytes.Buffer
	key  uint32
	out  map[uint32][]byte
	keys []uint32
}

func newCapture() *capture { return &capture{out: map[uint32][]byte{}} }

func (w *capture) StreamWriter() (table.StreamWriter, error) { return w, nil }
func (w *capture) Add(key uint32, value []byte) error {
	w.out[key] = append([]byte(nil), value...)
	w.keys = append(w.keys, key)
	return nil
}
func (w *capture) Sequence(int32, int64) {}
func (w *capture) Release()               {}
func (w *capture) Prepare(key uint32)     { w.key = key; w.cur.Reset() }
func (w *capture) Write(p []byte) (int, error) {
	return w.cur.Write(p)
}
func (w *capture) Size() uint32          { return uint32(w.cur.Len()) }
func (w *capture) CRC32CheckSum() uint32 { return 0 }
func (w *capture) Commit() error {
	if w.cur.Len() > 0 || w.out[w.key] == nil {
		w.out[w.key] = append([]byte(nil), w.cur.Bytes()...)
		w.keys = append(w.keys, w.key)
		w.cur.Reset()
	}
	return nil
}

type sv struct {
	s, v uint32
}

// forwardEntry writes one tag's forward entry with the real ForwardIndexFlusher, the way
// forwardIndex.flush does (series bitmap, then the value ids container by container).
func forwardEntry(es []sv) ([]byte, error) {
	sort.Slice(es, func(i, j int) bool { return es[i].s < es[j].s })
	w := newCapture()
	fl, err := v1.NewForwardIndexFlusher(w)
	if err != nil {
		return nil, err
	}
	bm := roaring.New()
	byHigh := map[uint16][]uint32{}
	var highs []uint16
	for _, e := range es {
		bm.Add(e.s)
		h := uint16(e.s >> 16)
		if _, ok := byHigh[h]; !ok {
			highs = append(highs, h)
		}
		byHigh[h] = append(byHigh[h], e.v)
	}
	fl.Prepare(0)
	if err := fl.WriteSeriesIDs(bm); err != nil {
		return nil, err
	}
	for _, h := range highs {
		if err := fl.WriteTagValueIDs(byHigh[h]); err != nil {
			return nil, err
		}
	}
	if err := fl.Commit(); err != nil {
		return nil, err
	}
	return w.out[0], nil
}

// decodeEntry reads a forward entry by its documented layout (bitmap, then one uint32 per series in
// bitmap order) — independent of tagForwardReader.
func decodeEntry(buf []byte) ([]sv, error) {
	bm := roaring.New()
	n, err := encoding.BitmapUnmarshal(bm, buf)
	if err != nil {
		return nil, err
	}
	rest := buf[n:]
	ids := bm.ToArray()
	if len(rest) != 4*len(ids) {
		return nil, fmt.Errorf("entry-%d-values-%d-series", len(rest)/4, len(ids))
	}
	out := make([]sv, len(ids))
	for i, s := range ids {
		out[i] = sv{s, binary.LittleEndian.Uint32(rest[4*i:])}
	}
	return out, nil
}

func fmtSV(es []sv) string {
	if len(es) == 0 {
		return "-"
	}
	p := make([]string, len(es))
	for i, e := range es {
		p[i] = fmt.Sprintf("%d:%d", e.s, e.v)
	}
	return strings.Join(p, " ")
}

// readOp: tagForwardReader.GetSeriesAndTagValue(high) on a buffer written by the real flusher.
func readOp(c *core.Ctx, es []sv, high uint16) {
	op := fmt.Sprintf("fwdread %d | %s", high, fmtSV(es))
	var got []sv
	found := false
	c.Guard(op, func() string {
		buf, err := forwardEntry(es)
		if err != nil {
			return "err " + err.Error()
		}
		rd, err := v1.NewTagForwardReader(buf)
		if err != nil {
			return "err " + err.Error()
		}
		cont, vals := rd.GetSeriesAndTagValue(high)
		if cont == nil {
			return "none"
		}
		found = true
		it := cont.PeekableIterator()
		i := 0
		for it.HasNext() {
			low := it.Next()
			got = append(got, sv{uint32(low), vals[i]})
			i++
		}
		return fmtSV(got)
	})
	// oracle: exactly the entries of that container, each with its own value id
	var want []sv
	for _, e := range es {
		if uint16(e.s>>16) == high {
			want = append(want, sv{e.s & 0xFFFF, e.v})
		}
	}
	sort.Slice(want, func(i, j int) bool { return want[i].s < want[j].s })
	if (len(want) > 0) != found || fmtSV(want) != fmtSV(got) && found {
		key := "forward-reader-values"
		idx := 0
		seen := map[uint16]bool{}
		for _, e := range es {
			h := uint16(e.s >> 16)
			if h < high && !seen[h] {
				seen[h] = true
				idx++
			}
		}
		if idx >= 2 {
			key = "forward-lut-third-container"
		}
		c.Fail(key, fmt.Sprintf("GetSeriesAndTagValue(%d) = %s, stored %s (container index %d)", high, fmtSV(got), fmtSV(want), idx))
	} else if found {
		c.NonTrivial()
	}
}

// mergeOp: forwardIndexMerger.Merge over entries written by the real flusher.
func mergeOp(c *core.Ctx, files [][]sv) {
	parts := make([]string, len(files))
	for i, f := range files {
		sort.Slice(f, func(a, b int) bool { return f[a].s < f[b].s })
		parts[i] = fmtSV(f)
	}
	op := "fwdmerge | " + strings.Join(parts, " | ")
	var got []sv
	c.Guard(op, func() string {
		var bufs [][]byte
		for _, f := range files {
			b, err := forwardEntry(append([]sv(nil), f...))
			if err != nil {
				return "err " + err.Error()
			}
			bufs = append(bufs, b)
		}
		w := newCapture()
		mg, err := v1.NewForwardIndexMerger(w)
		if err != nil {
			return "err " + err.Error()
		}
		if err := mg.Merge(0, bufs); err != nil {
			return "err " + err.Error()
		}
		got, err = decodeEntry(w.out[0])
		if err != nil {
			return "err " + err.Error()
		}
		return fmtSV(got)
	})
	var want []sv
	maxIdx := 0
	for _, f := range files {
		want = append(want, f...)
		seen := map[uint16]bool{}
		for _, e := range f {
			seen[uint16(e.s>>16)] = true
		}
		if len(seen) > maxIdx {
			maxIdx = len(seen)
		}
	}
	sort.Slice(want, func(i, j int) bool { return want[i].s < want[j].s })
	if fmtSV(want) != fmtSV(got) {
		key := "forward-merger-values"
		if maxIdx >= 3 {
			key = "forward-lut-third-container"
		}
		c.Fail(key, fmt.Sprintf("merged %s, inputs hold %s", fmtSV(got), fmtSV(want)))
	} else {
		c.NonTrivial()
	}
}

type mergeJobKey struct {
	key   uint32
	files [][]sv
}

// jobOp: ONE forwardIndexMerger merges several tag keys in turn, as a compaction job of the forward
// family does (the merger's seriesIDs / scanners / tagValueIDs are reused from key to key).
func jobOp(c *core.Ctx, jobs []mergeJobKey) {
	var parts []string
	for _, j := range jobs {
		fs := make([]string, len(j.files))
		for i, f := range j.files {
			sort.Slice(f, func(a, b int) bool { return f[a].s < f[b].s })
			fs[i] = fmtSV(f)
		}
		parts = append(parts, fmt.Sprintf("%d %s", j.key, strings.Join(fs, " / ")))
	}
	op := "fwdjob | " + strings.Join(parts, " | ")
	got := map[uint32][]sv{}
	c.Guard(op, func() string {
		w := newCapture()
		mg, err := v1.NewForwardIndexMerger(w)
		if err != nil {
			return "err " + err.Error()
		}
		var outs []string
		for _, j := range jobs {
			var bufs [][]byte
			for _, f := range j.files {
				b, err := forwardEntry(append([]sv(nil), f...))
				if err != nil {
					return "err " + err.Error()
				}
				bufs = append(bufs, b)
			}
			if err := mg.Merge(j.key, bufs); err != nil {
				return "err " + err.Error()
			}
			es, err := decodeEntry(w.out[j.key])
			if err != nil {
				outs = append(outs, fmt.Sprintf("%d=err-%s", j.key, err.Error()))
				continue
			}
			got[j.key] = es
			outs = append(outs, fmt.Sprintf("%d=%s", j.key, strings.ReplaceAll(fmtSV(es), " ", ",")))
		}
		return strings.Join(outs, " ")
	})
	ok := true
	for _, j := range jobs {
		var want []sv
		for _, f := range j.files {
			want = append(want, f...)
		}
		sort.Slice(want, func(a, b int) bool { return want[a].s < want[b].s })
		if fmtSV(want) != fmtSV(got[j.key]) {
			ok = false
			c.Fail("forward-merger-job-values", fmt.Sprintf("key %d of a %d-key job: merged %s, inputs hold %s", j.key, len(jobs), fmtSV(got[j.key]), fmtSV(want)))
			break
		}
	}
	if ok {
		c.NonTrivial()
	}
}

// readerCase: random sparse series ids over up to five containers.
func readerCase(c *core.Ctx, r *rand.Rand) {
	c.Op("reset", "ok")
	nHigh := 1 + r.Intn(5)
	if r.Intn(3) > 0 && nHigh > 2 {
		nHigh = 1 + r.Intn(2) // most cases stay within two containers (where the reader is right)
	}
	// thorough: one reader case in three is a BIG one — 6-10 containers out of 12 high keys, up to 40
	// series per input (several low keys per container and input, so a scanner's cursor moves many
	// times inside one container), 2-4 inputs
	big := c.Tier == "thorough" && r.Intn(3) == 0
	nHighs, perInput := 6, 10
	if big {
		nHighs, perInput = 12, 40
		nHigh = 6 + r.Intn(5)
		c.Branch("reader/big")
	}
	highs := r.Perm(nHighs)[:nHigh]
	used := map[uint32]bool{}
	gen := func(n int) []sv {
		var es []sv
		for len(es) < n {
			s := uint32(highs[r.Intn(len(highs))])<<16 | uint32([]int{0, 1, 2, 65535, 65534, 4096, r.Intn(65536)}[r.Intn(7)])
			if used[s] {
				continue
			}
			used[s] = true
			es = append(es, sv{s, uint32(r.Intn(1000))})
		}
		return es
	}
	es := gen(1 + r.Intn(perInput))
	c.Branch(fmt.Sprintf("reader/containers-%d", nHigh))
	for h := 0; h < nHighs; h++ {
		if r.Intn(2) == 0 || h == highs[0] {
			readOp(c, append([]sv(nil), es...), uint16(h))
		}
	}
	nf := 2 + r.Intn(2)
	files := [][]sv{es}
	if big {
		nf = 2 + r.Intn(3)
	}
	for i := 1; i < nf; i++ {
		if big {
			files = append(files, gen(11+r.Intn(perInput-10)))
		} else {
			files = append(files, gen(1+r.Intn(6)))
		}
	}
	mergeOp(c, files)
	// a compaction job: 2-4 tag keys through one merger; key sizes / container counts vary so that the
	// pooled buffer left by one key is longer or shorter than the next key's blocks
	nk := 2 + r.Intn(3)
	var jobs []mergeJobKey
	for k := 0; k < nk; k++ {
		used = map[uint32]bool{}
		if r.Intn(2) == 0 {
			if big {
				highs = r.Perm(nHighs)[:1+r.Intn(10)]
			} else {
				highs = r.Perm(6)[:1+r.Intn(5)]
			}
		}
		nf := 1 + r.Intn(3)
		var fs [][]sv
		for i := 0; i < nf; i++ {
			if big && r.Intn(2) == 0 {
				fs = append(fs, gen(11+r.Intn(perInput-10)))
			} else {
				fs = append(fs, gen(1+r.Intn(8)))
			}
		}
		jobs = append(jobs, mergeJobKey{key: uint32(1 + k*3 + r.Intn(3)), files: fs})
	}
	c.Branch(fmt.Sprintf("merger/job-keys-%d", nk))
	jobOp(c, jobs)
}

// witnessLut: the third container of a flushed forward entry is read at the wrong offset
// (NewTagForwardReader: lut[idx+1] = cardinality instead of lut[idx] + cardinality).
// (1) on raw buffers, mirrored by the model; (2) end to end: 131082 series of one metric (default
// limit: 200000 per metric), group by after flush — implementation only (the list model would need
// minutes for that many writes).
func witnessLut(c *core.Ctx) {
	c.Op("reset", "ok")
	es := []sv{{0, 10}, {1, 11}, {65536, 20}, {131072, 30}, {131073, 31}, {196608, 40}}
	for _, h := range []uint16{0, 1, 2, 3, 4} {
		readOp(c, append([]sv(nil), es...), h)
	}
	mergeOp(c, [][]sv{{{0, 10}, {65536, 20}, {131072, 30}}, {{5, 7}, {131073, 31}}})
	e, err := newEnv()
	if err != nil {
		c.Fail("harness-env", err.Error())
		return
	}
	defer e.close()
	const n = 131072 + 10
	tagsOf := func(i int) map[string]string {
		t := map[string]string{"u": fmt.Sprintf("u%d", i)}
		if i <= 3 || i%1000 == 0 || i >= 65536+5 {
			t["g"] = fmt.Sprintf("v%d", i%7)
		}
		return t
	}
	for i := 0; i < n; i++ {
		t := tagsOf(i)
		kvs := [][2]string{}
		if g, ok := t["g"]; ok {
			kvs = append(kvs, [2]string{"g", g})
		}
		kvs = append(kvs, [2]string{"u", t["u"]})
		id, err := e.write(nsName, "big", kvs)
		if err != nil || id != uint32(i) {
			c.Fail("harness-env", fmt.Sprintf("write %d: id %d err %v", i, id, err))
			return
		}
	}
	cond := &stmt.LikeExpr{Key: "g", Value: "v*"}
	check := func(state string) {
		res := e.query(nsName, "big", cond, []string{"g"})
		if res.err != nil || res.groupErr != nil {
			c.Fail("outcome-error", fmt.Sprintf("big case (%s): err %v / %v", state, res.err, res.groupErr))
			return
		}
		bad, first := 0, ""
		sel := 0
		for i := 0; i < n; i++ {
			t := tagsOf(i)
			g, has := t["g"]
			if !has {
				continue
			}
			sel++
			got := res.values[uint32(i)]
			if len(got) != 1 || got[0] != hx(g) {
				if bad == 0 {
					first = fmt.Sprintf("series %d: group value %v, its tag g=%s", i, got, hx(g))
				}
				bad++
			}
		}
		c.Note(fmt.Sprintf("big case (%s): %d series selected, %d expected, %d with wrong group value", state, len(res.series), sel, bad))
		if len(res.series) != sel {
			c.Fail("filter-ne-eval", fmt.Sprintf("big case (%s): selected %d series, expected %d", state, len(res.series), sel))
		}
		if bad > 0 {
			c.Fail("forward-lut-third-container", fmt.Sprintf("big case (%s): %d series (ids >= 131072) with another series' group value; %s", state, bad, first))
		}
	}
	check("memory")
	e.prepareFlush()
	if err := e.flush(); err != nil {
		c.Fail("harness-env", err.Error())
		return
	}
	check("flushed")
}

// bigCase (thorough): 70000 series of one metric — series ids cross the first container boundary of
// the postings, the memory forward maps and the forward files — with flushes and compactions between
// the writes. Implementation + brute-force oracle only: the list model needs O(n²) steps for that many
// writes (container boundaries of the model are covered by the reader cases on raw buffers).
func bigCase(c *core.Ctx, r *rand.Rand) {
	// (case index nWitness+1 in the thorough tier)
	d, err := newDBT(c)
	if err != nil {
		c.Fail("harness-env", err.Error())
		return
	}
	defer d.close()
	d.silent = true
	n := 70000
	if v, ok := c.Args["big"]; ok {
		fmt.Sscan(v, &n)
	}
	for i := 0; i < n; i++ {
		t := map[string]string{"g": fmt.Sprintf("v%d", i%7), "h": fmt.Sprintf("w%d", (i/7)%251), "u": fmt.Sprintf("u%d", i/1757)}
		if i%13 == 5 {
			delete(t, "h")
		}
		d.write("big", t)
		switch i {
		case 40000:
			flushAll(d)
		case 65530:
			d.place("prepare-index")
		case 65540:
			d.place("flush-index")
			d.place("prepare-meta")
		case 66000:
			d.place("flush-meta")
			d.place("compact-index")
		}
	}
	qs := []string{
		"'g' = 'v3' and 'u' in ('u37','u0')",
		"'h' like 'w25*' and 'g' != 'v0'",
		"'u' =~ '^u3[0-9]$'",
		"'h' not like 'w1*' and 'u' = 'u37'",
		"'g' in ('v1','v2') or 'h' = 'w250'",
	}
	run := func(state string) {
		for _, w := range qs {
			if cond, gb, ok := mustParse(c, w, []string{"g", "h"}); ok {
				d.query("big", cond, gb, "sql")
			}
		}
		c.Note(fmt.Sprintf("big case: %d series, 5 group-by queries checked against brute force (%s)", n, state))
	}
	run("memory + files")
	flushAll(d)
	run("flushed")
	d.place("compact-index")
	d.place("compact-meta")
	run("compacted")
	c.Op("reset", "ok")
	_ = r
}
