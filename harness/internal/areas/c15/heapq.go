package c15

// Area "tableheap" (round 12): lindb's priorityQueue (kv/table/iterator.go: Len/Less/Swap/Push/Pop)
// under Go's container/heap, one call at a time, through the seam kv/table/zz_verif_c15b.go:
// heap.Init on 0..40 items, then a random walk of
//   qfix  — the key of the item in ANY slot replaced (smaller / larger / equal / around the keys of
//           its parent and children; slot 0 with a key between pq[2] and pq[1] = the "advance the top
//           in place" shape of seeded changes c15-22 / c15-25) followed by heap.Fix at that slot,
//   qupd  — the same through the item's own index field (the body of priorityQueue.update; the
//           index field is NOT the slot after a Swap, see Neg.swap_index_not_position),
//   qpop  — heap.Pop,
//   qpush — pq.Push(item); heap.Fix(item.index), the way HasNext puts an advanced item back.
// After every call the whole queue (creation number : key : index field, slot order) is compared
// with Model/MergedIter.lean (heapInit / heapFix / heapPop / pqPush+pqUpdate on pqIface).
//
// Impl-side oracle (the mechanism "ordered by key" of a merge rests on): as long as every call so
// far re-fixed the slot whose key changed, the queue is in heap order, holds exactly the items put
// in, and Pop returns an item of minimal key. After a qupd whose index field differed from the slot
// the rest of the case is correspondence only.

import (
	"fmt"
	"sort"
	"strings"

	"github.com/lindb/lindb/kv/table"

	"github.com/lindb/lindb/zzverif/internal/core"
)

type heapArea struct{}

func init() { core.Register(heapArea{}) }

func (heapArea) Name() string { return "tableheap" }

func showQ(items []table.VerifC15QItem) string {
	if len(items) == 0 {
		return "q=-"
	}
	parts := make([]string, len(items))
	for i, it := range items {
		parts[i] = fmt.Sprintf("%d:%d:%d", it.Src, it.Key, it.Index)
	}
	return "q=" + strings.Join(parts, ",")
}

type heapEnv struct {
	c     *core.Ctx
	q     *table.VerifC15Queue
	want  map[int]uint32 // creation number -> key, of the items that must be in the queue
	sound bool
	dead  bool
}

// check runs the oracle on the queue as it is now.
func (he *heapEnv) check(after string) {
	items := he.q.Items()
	got := map[int]uint32{}
	for _, it := range items {
		got[it.Src] = it.Key
	}
	if len(got) != len(he.want) || len(items) != len(he.want) {
		he.c.Fail("queue-lost-item", fmt.Sprintf("after %s the queue holds %d cells (%d distinct items), %d were put in", after, len(items), len(got), len(he.want)))
	} else {
		for s, k := range he.want {
			if g, ok := got[s]; !ok || g != k {
				he.c.Fail("queue-lost-item", fmt.Sprintf("after %s item %d (key %d) is missing or has another key", after, s, k))
				break
			}
		}
	}
	if !he.sound {
		return
	}
	for ch := 1; ch < len(items); ch++ {
		p := (ch - 1) / 2
		if items[p].Key > items[ch].Key {
			he.c.Fail("queue-not-heap", fmt.Sprintf("after %s slot %d (key %d) is above its child slot %d (key %d)", after, p, items[p].Key, ch, items[ch].Key))
			break
		}
	}
}

func (he *heapEnv) guarded(op string, f func() string) {
	before := he.c.Fails
	he.c.Guard(op, f)
	if he.c.Fails != before {
		he.dead = true
	}
}

func (he *heapEnv) run(i int) {
	c := he.c
	rng := c.Rng(i)
	n := 0
	switch r := rng.Intn(20); {
	case r == 0:
		n = 0
	case r == 1:
		n = 1 + rng.Intn(2)
	case r < 16:
		n = 3 + rng.Intn(13)
	default:
		n = 16 + rng.Intn(25)
	}
	span := uint32(8)
	switch rng.Intn(4) {
	case 0:
		span = 3 // many equal keys
	case 1:
		span = 60
	case 2:
		span = 1000
	case 3:
		span = 4294967295
	}
	rkey := func() uint32 {
		if span == 4294967295 {
			return rng.Uint32()
		}
		return uint32(rng.Intn(int(span) + 1))
	}
	keys := make([]uint32, n)
	var ks []string
	he.want = map[int]uint32{}
	for j := range keys {
		keys[j] = rkey()
		ks = append(ks, fmt.Sprint(keys[j]))
		he.want[j] = keys[j]
	}
	next := n
	arg := "-"
	if n > 0 {
		arg = strings.Join(ks, ",")
	}
	he.sound = true
	he.guarded("qnew "+arg, func() string {
		he.q = table.VerifC15NewQueue(keys)
		return showQ(he.q.Items())
	})
	if he.dead {
		return
	}
	he.check("heap.Init")
	maxLen := n
	steps := 8 + rng.Intn(30)
	fixes := 0
	for s := 0; s < steps && !he.dead; s++ {
		items := he.q.Items()
		l := len(items)
		if l > maxLen {
			maxLen = l
		}
		r := rng.Intn(100)
		switch {
		case l > 0 && r < 55:
			// a key change in some slot
			slot := rng.Intn(l)
			if rng.Intn(3) == 0 {
				slot = 0
			}
			// new key: around the neighbours in the tree, or anything
			var cands []uint32
			cands = append(cands, items[slot].Key)
			if slot > 0 {
				cands = append(cands, items[(slot-1)/2].Key)
			}
			for _, ch := range []int{2*slot + 1, 2*slot + 2} {
				if ch < l {
					cands = append(cands, items[ch].Key)
				}
			}
			var key uint32
			switch rng.Intn(4) {
			case 0:
				key = rkey()
			case 1:
				// strictly between the two children when they differ (the top-advance shape)
				if 2*slot+2 < l {
					a, b := items[2*slot+1].Key, items[2*slot+2].Key
					if a > b {
						a, b = b, a
					}
					if b-a >= 2 {
						key = a + 1 + uint32(rng.Int63n(int64(b-a-1)))
					} else {
						key = b
					}
					if items[2*slot+2].Key < items[2*slot+1].Key {
						c.Branch("fix-key-between-right-and-left-child")
					}
				} else {
					key = rkey()
				}
			default:
				key = cands[rng.Intn(len(cands))]
				switch rng.Intn(3) {
				case 0:
					if key > 0 {
						key--
					}
				case 1:
					if key < 4294967295 {
						key++
					}
				}
			}
			byIndex := r >= 42
			if byIndex && (items[slot].Index < 0 || items[slot].Index >= l) {
				byIndex = false // would be an out-of-range Fix: outside anything lindb does
			}
			if byIndex && items[slot].Index != slot && rng.Intn(4) != 0 {
				byIndex = false // keep most cases inside the oracle's reach
			}
			he.want[items[slot].Src] = key
			if byIndex {
				if items[slot].Index != slot {
					he.sound = false
					c.Branch("update-through-stale-index")
				} else {
					c.Branch("update-through-index")
				}
				he.guarded(fmt.Sprintf("qupd %d %d", slot, key), func() string {
					he.q.FixByIndex(slot, key)
					return showQ(he.q.Items())
				})
			} else {
				switch {
				case slot == 0:
					c.Branch("fix-top")
				case 2*slot+1 >= l:
					c.Branch("fix-leaf")
				default:
					c.Branch("fix-inner")
				}
				fixes++
				he.guarded(fmt.Sprintf("qfix %d %d", slot, key), func() string {
					he.q.Fix(slot, key)
					return showQ(he.q.Items())
				})
			}
			if !he.dead {
				he.check("heap.Fix")
			}
		case l > 0 && r < 75:
			c.Branch("pop")
			min := items[0].Key
			for _, it := range items {
				if it.Key < min {
					min = it.Key
				}
			}
			he.guarded("qpop", func() string {
				it := he.q.Pop()
				delete(he.want, it.Src)
				if he.sound && it.Key != min {
					c.Fail("queue-pop-not-min", fmt.Sprintf("heap.Pop returned key %d, the smallest key in the queue is %d", it.Key, min))
				}
				return fmt.Sprintf("pop=%d:%d:%d ", it.Src, it.Key, it.Index) + showQ(he.q.Items())
			})
			if !he.dead {
				he.check("heap.Pop")
			}
		default:
			c.Branch("push")
			key := rkey()
			he.want[next] = key
			next++
			he.guarded(fmt.Sprintf("qpush %d", key), func() string {
				he.q.PushFix(key)
				return showQ(he.q.Items())
			})
			if !he.dead {
				he.check("Push+Fix")
			}
		}
	}
	if maxLen >= 3 && fixes >= 2 {
		c.NonTrivial()
	}
	// drain: a sound queue pops in key order
	if !he.dead && he.sound && rng.Intn(2) == 0 {
		var out []uint32
		for len(he.q.Items()) > 0 && !he.dead {
			he.guarded("qpop", func() string {
				it := he.q.Pop()
				delete(he.want, it.Src)
				out = append(out, it.Key)
				return fmt.Sprintf("pop=%d:%d:%d ", it.Src, it.Key, it.Index) + showQ(he.q.Items())
			})
		}
		if !sort.SliceIsSorted(out, func(a, b int) bool { return out[a] < out[b] }) {
			c.Fail("queue-pop-not-min", fmt.Sprintf("draining the queue delivered keys out of order: %v", out))
		}
		c.Branch("drained")
	}
}

func (a heapArea) Run(c *core.Ctx) error {
	for i := 0; i < c.N; i++ {
		if !c.Want(i) {
			continue
		}
		c.Begin(i)
		he := &heapEnv{c: c}
		p, msg := guard(func() { he.run(i) })
		if p {
			c.Fail("panic", "case panicked outside a guarded call: "+msg)
		}
	}
	return nil
}
