package c15

// Area "tabledmg": real table files, damaged. A small table is written by the real builder; its
// bytes — unchanged (control), truncated, with flipped / rewritten footer fields, with a damaged
// offsets header, with bytes inserted or removed, doubled — are put on disk and opened through the
// real table cache (newMMapStoreReader + initialize). The model opens THE SAME BYTES (`raw`) with
// its own `Reader.openE`; the only thing it is told is what roaring's FromBuffer answers on the
// key section the footer points to (`kmap`: the bitmap codec is external to the model). Compared:
// which validation branch refuses the file (short / magic / footer / offsets / keys / count), and,
// when the file is accepted, every lookup and the iteration.
//
// The C15 statement is about tables the builder wrote, so only the control file carries the
// impl-side oracle (it must open, every key with its exact bytes). The damaged variants are
// correspondence only: Props.C15 `open_validates_or_refuses` / `truncated_tail_refused` say what the
// validation guarantees, and this stream ties the model's branches to the code's.

import (
	"bytes"
	"encoding/binary"
	"fmt"
	"os"
	"path/filepath"
	"strconv"
	"strings"
	"time"

	"github.com/lindb/roaring"

	"github.com/lindb/lindb/kv/table"
	"github.com/lindb/lindb/kv/version"
	"github.com/lindb/lindb/pkg/encoding"

	"github.com/lindb/lindb/zzverif/internal/core"
)

type dmgArea struct{}

func init() { core.Register(dmgArea{}) }

func (dmgArea) Name() string { return "tabledmg" }

const footerLen = 17

// roaringView reports what the real bitmap codec makes of buf (= file[posOfKeys:]), in the `kmap`
// syntax: k=<members> when the bitmap is usable and consistent (Contains / Rank / iteration agree
// with ToArray), card=<n> when it unmarshals but is not, err, panic. ok=false: too big to mirror.
func roaringView(buf []byte) (res string, sane bool, ok bool) {
	data := append([]byte(nil), buf...)
	var bm *roaring.Bitmap
	card := 0
	p, _ := guard(func() {
		bm = roaring.New()
		if _, err := encoding.BitmapUnmarshal(bm, data); err != nil {
			bm = nil
			return
		}
		card = int(bm.GetCardinality())
	})
	if p {
		return "panic", false, true
	}
	if bm == nil {
		return "err", false, true
	}
	if card > 2000 {
		return "", false, false
	}
	var arr []uint32
	consistent := false
	p, _ = guard(func() {
		arr = bm.ToArray()
		if len(arr) != card {
			return
		}
		for i, k := range arr {
			if i > 0 && arr[i-1] >= k {
				return
			}
			if !bm.Contains(k) || int(bm.Rank(k)) != i+1 {
				return
			}
			if k+1 != 0 && (i+1 == len(arr) || arr[i+1] != k+1) && bm.Contains(k+1) {
				return
			}
		}
		it := bm.Iterator()
		for i := 0; i < len(arr); i++ {
			if !it.HasNext() || it.Next() != arr[i] {
				return
			}
		}
		if it.HasNext() {
			return
		}
		consistent = true
	})
	if p || !consistent {
		return fmt.Sprintf("card=%d", card), false, true
	}
	if len(arr) == 0 {
		return "k=-", true, true
	}
	parts := make([]string, len(arr))
	for i, k := range arr {
		parts[i] = strconv.FormatUint(uint64(k), 10)
	}
	return "k=" + strings.Join(parts, ","), true, true
}

// classifyOpenErr maps the error of newMMapStoreReader / initialize to the branch that raised it.
func classifyOpenErr(err error) string {
	s := err.Error()
	// the wrapped errors (fixed-offsets decoder, roaring) carry texts of their own: test the
	// wrapping prefixes first
	switch {
	case strings.HasPrefix(s, "unmarshal fixed-offsets"):
		return "offsets"
	case strings.HasPrefix(s, "unmarshal keys"):
		return "keys"
	case strings.HasPrefix(s, "num. of keys"):
		return "count"
	case strings.HasPrefix(s, "verify magic-number"):
		return "magic"
	case strings.HasPrefix(s, "bad footer"):
		return "footer"
	case strings.HasPrefix(s, "length of sstfile"):
		return "short"
	}
	return "other"
}

type dmg struct {
	name string
	b    []byte
}

func putU32(b []byte, at int, v uint32) { binary.LittleEndian.PutUint32(b[at:at+4], v) }

// damages lists damaged variants of a finished table (p1 = posOfOffset, p2 = posOfKeys).
func (e *env) damages(good []byte, p1, p2, idx int) []dmg {
	r := e.r
	n := len(good)
	fs := n - footerLen
	cp := func() []byte { return append([]byte(nil), good...) }
	nz := func() byte { return byte(1 + r.Intn(255)) }
	var all []func() dmg
	add := func(f func() dmg) { all = append(all, f) }
	truncTail := func(k int) func() dmg {
		return func() dmg {
			if k > n {
				k = n
			}
			return dmg{fmt.Sprintf("trunc-tail-%d", k), cp()[:n-k]}
		}
	}
	setPos := func(name string, v1, v2 int64) func() dmg {
		return func() dmg {
			b := cp()
			putU32(b, fs, uint32(v1))
			putU32(b, fs+4, uint32(v2))
			return dmg{name, b}
		}
	}
	flipAt := func(name string, at int, x byte) func() dmg {
		return func() dmg {
			b := cp()
			b[at] ^= x
			return dmg{name, b}
		}
	}
	// two deterministic walks: every footer byte, every short truncation, over consecutive cases
	fixed := []func() dmg{
		flipAt(fmt.Sprintf("flip-footer-%d", idx%footerLen), fs+idx%footerLen, nz()),
		truncTail(1 + idx%20),
	}
	add(truncTail(1 + r.Intn(8)))
	add(truncTail(9 + r.Intn(9)))
	add(truncTail(1 + r.Intn(n)))
	add(func() dmg { return dmg{"empty", nil} })
	add(func() dmg { return dmg{"footer-only", cp()[fs:]} })
	add(func() dmg { return dmg{"keep-16", cp()[:minInt(16, n)]} })
	add(flipAt("flip-footer-any", fs+r.Intn(footerLen), nz()))
	add(flipAt("flip-version", fs+8, nz()))
	add(setPos("p1=p2", int64(p2), int64(p2)))
	add(setPos("p1=p2+1", int64(p2+1), int64(p2)))
	add(setPos("p2=footerStart", int64(p1), int64(fs)))
	add(setPos("p2=footerStart+1", int64(p1), int64(fs+1)))
	add(setPos("p1=0", 0, int64(p2)))
	add(setPos("p2=p1", int64(p1), int64(p1)))
	add(setPos("p1=max", 0xFFFFFFFF, int64(p2)))
	add(setPos("p2=max", int64(p1), 0xFFFFFFFF))
	add(setPos("swap-p1-p2", int64(p2), int64(p1)))
	add(setPos("p1-1", int64(p1)-1, int64(p2)))
	add(setPos("p1+1", int64(p1)+1, int64(p2)))
	add(setPos("p2-1", int64(p1), int64(p2)-1))
	add(setPos("p2+1", int64(p1), int64(p2)+1))
	add(func() dmg { // the width byte of the offsets section
		b := cp()
		b[p1] = []byte{0, 5, 255, b[p1] + 1, b[p1] - 1}[r.Intn(5)]
		return dmg{"offsets-width", b}
	})
	add(func() dmg { // the uvarint count of the offsets section
		b := cp()
		b[p1+1] = []byte{0, 0x80, 0xFF, b[p1+1] + 1, b[p1+1] - 1}[r.Intn(5)]
		return dmg{"offsets-count", b}
	})
	if p2-p1 > 2 {
		add(flipAt("flip-offsets-data", p1+2+r.Intn(p2-p1-2), nz()))
	}
	if p1 > 0 {
		add(flipAt("flip-values", r.Intn(p1), nz()))
	}
	if fs > p2 {
		add(flipAt("flip-keys", p2+r.Intn(fs-p2), nz()))
		add(flipAt("flip-keys-head", p2+r.Intn(minInt(8, fs-p2)), nz()))
	}
	add(func() dmg {
		at := r.Intn(n + 1)
		b := append(append(cp()[:at:at], nz()), good[at:]...)
		return dmg{"insert-byte", b}
	})
	add(func() dmg {
		at := r.Intn(n)
		b := append(cp()[:at:at], good[at+1:]...)
		return dmg{"delete-byte", b}
	})
	add(func() dmg { return dmg{"doubled", append(cp(), good...)} })
	add(func() dmg { return dmg{"pad-front", append([]byte{nz()}, good...)} })
	add(func() dmg { return dmg{"pad-back", append(cp(), nz())} })
	var out []dmg
	for _, f := range fixed {
		out = append(out, f())
	}
	for k := 5 + r.Intn(4); k > 0; k-- {
		out = append(out, all[r.Intn(len(all))]())
	}
	return out
}

func minInt(a, b int) int {
	if a < b {
		return a
	}
	return b
}

// rawOpen puts bytes on disk as table fno, tells the model, opens through the real cache.
// Returns the reader (nil if refused) and whether lookups can be mirrored (key section usable).
func (e *env) rawOpen(fno int, b []byte) (table.Reader, bool, bool) {
	c := e.c
	kres, sane, haveK := "", false, false
	pos := 0
	if len(b) >= footerLen {
		pos = int(binary.LittleEndian.Uint32(b[len(b)-footerLen+4 : len(b)-footerLen+8]))
		if pos <= len(b) {
			var ok bool
			kres, sane, ok = roaringView(b[pos:])
			if !ok {
				c.Branch("damage-skipped(bitmap too big to mirror)")
				return nil, false, false
			}
			haveK = true
		}
	}
	if err := os.WriteFile(e.path(fno), b, 0o644); err != nil {
		c.Fail("harness-write-file", "cannot write the damaged file")
		return nil, false, false
	}
	c.Op(fmt.Sprintf("raw %d %s", fno, litVal(b).spec), fmt.Sprintf("ok len=%d", len(b)))
	if haveK {
		c.Op(fmt.Sprintf("kmap %d %d %s", fno, pos, kres), "ok")
	}
	var rd table.Reader
	var err error
	p, _ := guard(func() { rd, err = e.cache.GetReader(family, version.Table(table.FileNumber(fno))) })
	op := fmt.Sprintf("dopen %d", fno)
	switch {
	case p:
		c.Op(op, "panic")
		c.Branch("dopen-panic")
		return nil, false, true
	case err != nil || rd == nil:
		kind := "other"
		if err != nil {
			kind = classifyOpenErr(err)
		}
		c.Op(op, "err "+kind)
		c.Branch("dopen-err-" + kind)
		return nil, false, true
	}
	c.Op(op, "ok")
	c.Branch("dopen-ok")
	return rd, sane, true
}

func (e *env) caseDamage(idx int) {
	c, r := e.c, e.r
	// a small table
	_, keys := e.keySet()
	if len(keys) > 40 {
		at := r.Intn(len(keys) - 39)
		keys = keys[at : at+40]
	}
	var size func() int
	switch x := r.Intn(10); {
	case x < 2:
		c.Branch("dmg-values-empty")
		size = func() int { return 0 }
	case x < 8:
		c.Branch("dmg-values-small")
		size = func() int { return r.Intn(14) }
	default:
		c.Branch("dmg-values-width2")
		size = func() int { return 20 + r.Intn(40) }
	}
	b, err := table.NewStoreBuilder(table.FileNumber(1), e.path(1))
	if err != nil {
		c.Fail("harness-new-builder", err.Error())
		return
	}
	t := &built{fno: 1}
	for _, k := range keys {
		v := make([]byte, size())
		r.Read(v)
		if err := b.Add(k, v); err != nil {
			c.Fail("harness-add", err.Error())
			return
		}
		t.entries = append(t.entries, kv{k, v})
	}
	t.min, t.max, t.size = b.MinKey(), b.MaxKey(), b.Size()
	if err := b.Close(); err != nil {
		c.Fail("close-error", "Close of a well-formed small table failed")
		return
	}
	t.closed = true
	good, rerr := os.ReadFile(e.path(1))
	if rerr != nil || len(good) < footerLen {
		c.Fail("harness-read-file", "cannot read the table back")
		return
	}
	fs := len(good) - footerLen
	p1 := int(binary.LittleEndian.Uint32(good[fs : fs+4]))
	p2 := int(binary.LittleEndian.Uint32(good[fs+4 : fs+8]))
	if !(p1 <= p2 && p2 <= fs && p2-p1 >= 2) {
		c.Fail("harness-footer", "the footer of a fresh table does not describe the file")
		return
	}
	// control: the undamaged bytes (in the statement: must open, exact bytes for every key)
	rd, sane, issued := e.rawOpen(1, good)
	if !issued {
		return
	}
	if rd == nil {
		c.Fail("open-fails", "a file written by the builder is rejected by the reader")
		return
	}
	if !sane {
		c.Fail("harness-bitmap-view", "the key section of a fresh table is not a consistent bitmap for the harness's view")
		return
	}
	c.NonTrivial()
	e.probeTable(t, rd)
	// damaged variants
	dmgs := e.damages(good, p1, p2, idx)
	defer func() { e.aftermath(t, rd, good, 2+len(dmgs)) }()
	for j, d := range dmgs {
		fno := 2 + j
		c.Branch("damage-" + strings.TrimRight(d.name, "0123456789"))
		rd, sane, issued := e.rawOpen(fno, d.b)
		if !issued || rd == nil || !sane {
			continue
		}
		c.Branch("damaged-but-accepted")
		probes := map[uint32]bool{}
		for i, k := range keys {
			if i >= 24 {
				break
			}
			probes[k] = true
			if r.Intn(3) == 0 {
				probes[k+1] = true
			}
		}
		probes[0] = true
		probes[r.Uint32()] = true
		ks := make([]uint32, 0, len(probes))
		for k := range probes {
			ks = append(ks, k)
		}
		sortU32(ks)
		for _, k := range ks {
			e.get(rd, fno, k)
		}
		got, p := drain(rd.Iterator(), 3000)
		if p {
			c.Op(fmt.Sprintf("iter %d", fno), "panic")
			continue
		}
		c.Op(fmt.Sprintf("iter %d", fno), showSeq(got))
	}
}

// aftermath (inside the statement again): after all the refused and accepted opens of the case,
// one more open that fails inside initialize(), then two healthy tables — the control's bytes
// under a new number and a different freshly built table — are opened side by side through the
// same cache. Each reader, and the control reader opened at the start of the case, must answer
// with its own table's bytes also AFTER the other tables were opened: nothing a failed or a later
// open leaves behind in objects shared between readers (decoder pools, the cache) may leak into
// another reader. The model opens the same byte strings (raw / kmap / dopen) and answers the same
// lookups, so a reader that starts using another file's offsets shows up on both sides.
func (e *env) aftermath(ctl *built, ctlRd table.Reader, good []byte, fno0 int) {
	c, r := e.c, e.r
	// 1. an open refused by initialize()
	bad := append([]byte(nil), good...)
	switch r.Intn(3) {
	case 0:
		bad = bad[:len(bad)-1-r.Intn(8)]
		c.Branch("aftermath-refused-cut")
	case 1:
		bad[len(bad)-1-r.Intn(8)] ^= 0xa5
		c.Branch("aftermath-refused-magic")
	default:
		putU32(bad, len(bad)-footerLen+4, uint32(len(bad)+1+r.Intn(50)))
		c.Branch("aftermath-refused-footer")
	}
	if rd, _, _ := e.rawOpen(fno0, bad); rd != nil {
		c.Branch("aftermath-damaged-but-accepted")
	}
	// 2. healthy table A: the control's bytes under a new number
	ta := &built{fno: fno0 + 1, entries: ctl.entries, min: ctl.min, max: ctl.max, size: ctl.size, closed: true}
	rdA, saneA, issued := e.rawOpen(ta.fno, good)
	if !issued {
		return
	}
	if rdA == nil || !saneA {
		c.Fail("open-fails", "a file written by the builder is rejected by the reader after a refused open")
		return
	}
	e.reprobe(ta, rdA, "")
	// 3. healthy table B: different keys, different value sizes
	tb := &built{fno: fno0 + 2}
	_, keys := e.keySet()
	if len(keys) > 30 {
		at := r.Intn(len(keys) - 29)
		keys = keys[at : at+30]
	}
	b, err := table.NewStoreBuilder(table.FileNumber(tb.fno), e.path(tb.fno))
	if err != nil {
		c.Fail("harness-new-builder", err.Error())
		return
	}
	for _, k := range keys {
		v := make([]byte, 1+r.Intn(40))
		r.Read(v)
		if err := b.Add(k, v); err != nil {
			c.Fail("harness-add", err.Error())
			return
		}
		tb.entries = append(tb.entries, kv{k, v})
	}
	if err := b.Close(); err != nil {
		c.Fail("close-error", "Close of a well-formed small table failed")
		return
	}
	bytesB, rerr := os.ReadFile(e.path(tb.fno))
	if rerr != nil {
		c.Fail("harness-read-file", "cannot read the table back")
		return
	}
	rdB, saneB, issued := e.rawOpen(tb.fno, bytesB)
	if !issued {
		return
	}
	if rdB == nil || !saneB {
		c.Fail("open-fails", "a file written by the builder is rejected by the reader after a refused open")
		return
	}
	c.Branch("aftermath-two-healthy-tables-open")
	e.reprobe(tb, rdB, "")
	after := fmt.Sprintf("a refused open and the opening of tables %d and %d", ta.fno, tb.fno)
	e.reprobe(ta, rdA, after)
	e.reprobe(ctl, ctlRd, after)
	e.reprobe(tb, rdB, after)
}

// reprobe reads every kept key and the whole iteration of a healthy table again.
func (e *env) reprobe(t *built, rd table.Reader, after string) {
	c := e.c
	key, ctx := "present-key-wrong-bytes", ""
	if after != "" {
		key, ctx = "reader-disturbed-by-later-open", " (the same reader answered correctly before; this is after "+after+")"
	}
	for _, en := range t.entries {
		out, v := e.get(rd, t.fno, en.k)
		if !strings.HasPrefix(out, "ok ") || !bytes.Equal(v, en.v) {
			c.Fail(key, fmt.Sprintf("table %d: Get(%d) = %s, added %s%s", t.fno, en.k, out, showVal(en.v), ctx))
			break
		}
	}
	got, p := drain(rd.Iterator(), len(t.entries)+5)
	if p {
		c.Op(fmt.Sprintf("iter %d", t.fno), "panic")
		c.Fail(key, fmt.Sprintf("table %d: the iterator panics%s", t.fno, ctx))
		return
	}
	c.Op(fmt.Sprintf("iter %d", t.fno), showSeq(got))
	same := len(got) == len(t.entries)
	for i := 0; same && i < len(got); i++ {
		same = got[i].k == t.entries[i].k && bytes.Equal(got[i].v, t.entries[i].v)
	}
	if !same {
		c.Fail(key, fmt.Sprintf("table %d: the iteration is %s, kept entries are %s%s", t.fno, showSeq(got), showSeq(t.entries), ctx))
	}
}

func sortU32(a []uint32) {
	for i := 1; i < len(a); i++ {
		for j := i; j > 0 && a[j-1] > a[j]; j-- {
			a[j-1], a[j] = a[j], a[j-1]
		}
	}
}

func (a dmgArea) Run(c *core.Ctx) error {
	for i := 0; i < c.N; i++ {
		if !c.Want(i) {
			continue
		}
		c.Begin(i)
		dir, err := os.MkdirTemp("", "lvh-c15d-*")
		if err != nil {
			return err
		}
		if err := os.MkdirAll(filepath.Join(dir, family), 0o755); err != nil {
			return err
		}
		e := &env{c: c, r: c.Rng(i), dir: dir, cache: table.NewCache(dir, time.Hour), quick: true}
		p, msg := guard(func() { e.caseDamage(i) })
		if p {
			c.Fail("panic", "case panicked outside a guarded call: "+msg)
		}
		_, _ = guard(func() { _ = e.cache.Close() })
		_ = os.RemoveAll(dir)
	}
	return nil
}
