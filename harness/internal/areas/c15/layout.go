package c15

// Container layout of the key bitmap of a finished table (round 10): the harness reads the key
// section of the real file back through lindb's bitmap codec, sends the model the container layout
// roaring actually chose (kind of every container from the serialized header, its members / runs)
// and compares the container-structured Rank / Contains / cached-base rank of Model/C15Roaring.lean
// with the real bitmap's answers (`Props.C15.rank_any_container_layout`,
// `get_index_any_container_layout`). Correspondence only: the statement-level consequence (a key's
// exact bytes) is what probeTable checks.

import (
	"encoding/binary"
	"fmt"
	"os"
	"strings"

	"github.com/lindb/roaring"
)

// containerKinds parses the standard roaring header: per container 'r' (run), 'b' (bitmap) or 'a' (array).
func containerKinds(data []byte) ([]byte, bool) {
	if len(data) < 8 {
		return nil, false
	}
	cookie := binary.LittleEndian.Uint32(data[0:4])
	var size int
	var runFlags []byte
	pos := 0
	switch {
	case cookie&0xFFFF == 12347:
		size = int(cookie>>16) + 1
		n := (size + 7) / 8
		if len(data) < 4+n {
			return nil, false
		}
		runFlags = data[4 : 4+n]
		pos = 4 + n
	case cookie == 12346:
		size = int(binary.LittleEndian.Uint32(data[4:8]))
		pos = 8
	default:
		return nil, false
	}
	if size < 0 || len(data) < pos+4*size {
		return nil, false
	}
	kinds := make([]byte, size)
	for i := 0; i < size; i++ {
		card := int(binary.LittleEndian.Uint16(data[pos+4*i+2:])) + 1
		switch {
		case runFlags != nil && runFlags[i/8]&(1<<(uint(i)%8)) != 0:
			kinds[i] = 'r'
		case card > 4096:
			kinds[i] = 'b'
		default:
			kinds[i] = 'a'
		}
	}
	return kinds, true
}

func (e *env) layoutProbe(t *built) {
	c := e.c
	if len(t.entries) > 30000 {
		c.Branch("layout-skipped-large")
		return
	}
	data, err := os.ReadFile(e.path(t.fno))
	if err != nil || len(data) < 17 {
		return
	}
	foot := data[len(data)-17:]
	p2 := int(binary.LittleEndian.Uint32(foot[4:8]))
	if p2 > len(data)-17 {
		return
	}
	ksec := data[p2 : len(data)-17]
	bm := roaring.New()
	var uerr error
	if p, _ := guard(func() { uerr = bm.UnmarshalBinary(ksec) }); p || uerr != nil {
		c.Branch("layout-unreadable")
		return
	}
	kinds, ok := containerKinds(ksec)
	his := bm.GetHighKeys()
	if !ok || len(kinds) != len(his) {
		c.Branch("layout-header-unparsed")
		return
	}
	words := make([]string, 0, len(his))
	for i, hi := range his {
		arr := bm.GetContainerAtIndex(i).ToArray()
		var sb strings.Builder
		fmt.Fprintf(&sb, "%d:%c:", hi, kinds[i])
		c.Branch(fmt.Sprintf("layout-container-%c", kinds[i]))
		if kinds[i] == 'r' {
			first := true
			for j := 0; j < len(arr); {
				k := j
				for k+1 < len(arr) && arr[k+1] == arr[k]+1 {
					k++
				}
				if !first {
					sb.WriteByte(',')
				}
				first = false
				fmt.Fprintf(&sb, "%d+%d", arr[j], k-j)
				j = k + 1
			}
		} else {
			for j, v := range arr {
				if j > 0 {
					sb.WriteByte(',')
				}
				fmt.Fprintf(&sb, "%d", v)
			}
		}
		words = append(words, sb.String())
	}
	c.Op(fmt.Sprintf("lay %d %s", t.fno, strings.Join(words, " ")),
		fmt.Sprintf("ok n=%d card=%d", len(his), bm.GetCardinality()))
	if len(his) > 1 {
		c.Branch("layout-multi-container")
	}
	// probes: kept keys (first/last of containers among them), container starts/ends, neighbours, random
	var probes []uint32
	for j := 0; j < 8 && len(t.entries) > 0; j++ {
		k := t.entries[e.r.Intn(len(t.entries))].k
		probes = append(probes, k, k+1, k-1)
	}
	for j := 0; j < 4 && len(his) > 0; j++ {
		hi := uint32(his[e.r.Intn(len(his))])
		probes = append(probes, hi<<16, hi<<16|0xFFFF, (hi<<16)-1, (hi+1)<<16)
	}
	if len(t.entries) > 0 {
		probes = append(probes, t.entries[0].k, t.entries[len(t.entries)-1].k)
	}
	probes = append(probes, 0, 4294967295, e.r.Uint32())
	for _, k := range probes {
		has := 0
		if bm.Contains(k) {
			has = 1
		}
		cached := "-"
		if idx := bm.GetContainerIndex(uint16(k >> 16)); idx >= 0 {
			base := 0
			for j := 0; j < idx; j++ {
				base += bm.GetContainerAtIndex(j).GetCardinality()
			}
			cached = fmt.Sprint(base + bm.GetContainerAtIndex(idx).Rank(uint16(k)))
		}
		c.Op(fmt.Sprintf("lrank %d %d", t.fno, k), fmt.Sprintf("rank=%d has=%d cached=%s", bm.Rank(k), has, cached))
	}
}
