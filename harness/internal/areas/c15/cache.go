package c15

// Area "tablecache": the reader cache between a version's lookups and the table files
// (kv/table/cache.go), driven sequentially: a few real tables in two families of one store
// directory, then a random walk of GetReader (hits, misses, failing opens, files that do not
// exist) / ReleaseReaders / Evict / Cleanup on the real cache. After every call the cache is
// printed (LRU order, ref counts, which reader object, family index: hooks VerifC02CacheEntries
// and VerifC15CacheFamilies) and compared with Model/TableLRU.lean.
//
// Impl-side oracle (the C15 statement, read through the production path): every reader handed
// out by GetReader(family, file) is the reader of THAT table — FileName() and the exact bytes of
// its keys — and a reader the caller still holds (obtained, not yet released, not evicted by the
// caller) is still cached, i.e. open, after whatever Cleanup did.

import (
	"bytes"
	"encoding/binary"
	"fmt"
	"os"
	"path/filepath"
	"sort"
	"strings"
	"time"

	"github.com/lindb/lindb/kv/table"
	"github.com/lindb/lindb/kv/version"

	"github.com/lindb/lindb/zzverif/internal/core"
)

type cacheArea struct{}

func init() { core.Register(cacheArea{}) }

func (cacheArea) Name() string { return "tablecache" }

var cacheFamilies = []string{"fam", "fb"}

type cTable struct {
	fno     int
	fam     int
	entries []kv
}

type cHandle struct {
	fno int
	rd  table.Reader
}

type cacheEnv struct {
	c       *core.Ctx
	dir     string
	cache   table.Cache
	expired bool
	tables  map[int]*cTable
	byName  map[string]int
	rid     map[table.Reader]int
	nextRid int
	held    []cHandle
}

func (ce *cacheEnv) name(fno int) string { return version.Table(table.FileNumber(fno)) }

func (ce *cacheEnv) cached() map[int]table.Reader {
	m := map[int]table.Reader{}
	for _, en := range table.VerifC02CacheEntries(ce.cache) {
		if fno, ok := ce.byName[en.FileName]; ok {
			m[fno] = en.Reader
		}
	}
	return m
}

// state prints the cache and runs the held-reader oracle.
func (ce *cacheEnv) state() {
	c := ce.c
	var es []string
	present := map[table.Reader]bool{}
	for _, en := range table.VerifC02CacheEntries(ce.cache) {
		fno, ok := ce.byName[en.FileName]
		if !ok {
			fno = -1
		}
		r, ok := ce.rid[en.Reader]
		rs := "?"
		if ok {
			rs = fmt.Sprint(r)
		}
		es = append(es, fmt.Sprintf("%d:%d:r%s", fno, en.Ref, rs))
		present[en.Reader] = true
	}
	type pr struct{ a, b int }
	var ps []pr
	for _, s := range table.VerifC15CacheFamilies(ce.cache) {
		parts := strings.SplitN(s, "/", 2)
		fi := -1
		for i, f := range cacheFamilies {
			if f == parts[0] {
				fi = i
			}
		}
		fno, ok := ce.byName[parts[1]]
		if !ok {
			fno = -1
		}
		ps = append(ps, pr{fi, fno})
	}
	sort.Slice(ps, func(i, j int) bool { return ps[i].a < ps[j].a || (ps[i].a == ps[j].a && ps[i].b < ps[j].b) })
	var fs []string
	for _, p := range ps {
		fs = append(fs, fmt.Sprintf("%d/%d", p.a, p.b))
	}
	l, f := "-", "-"
	if len(es) > 0 {
		l = strings.Join(es, ",")
	}
	if len(fs) > 0 {
		f = strings.Join(fs, ",")
	}
	c.Op("cstate", "lru="+l+" fam="+f)
	for _, h := range ce.held {
		if !present[h.rd] {
			c.Fail("cache-closed-held-reader", fmt.Sprintf("the reader of table %d is still held by its caller but the cache has closed it", h.fno))
			ce.dropHeld(h.fno)
			break
		}
	}
}

func (ce *cacheEnv) dropHeld(fno int) {
	var keep []cHandle
	for _, h := range ce.held {
		if h.fno != fno {
			keep = append(keep, h)
		}
	}
	ce.held = keep
}

// reuseReader looks EVERY key of table t up through rd, a reader its caller has been holding
// while other tables were opened (successfully or not), released, evicted: whatever those calls
// did to objects shared between readers, a held reader keeps answering with its own bytes.
func (ce *cacheEnv) reuseReader(t *cTable, rd table.Reader, after string) {
	c := ce.c
	if rd.FileName() != ce.name(t.fno) {
		c.Fail("held-reader-disturbed-by-later-call", fmt.Sprintf("the held reader of table %d calls itself %s after %s", t.fno, rd.FileName(), after))
		return
	}
	for _, en := range t.entries {
		var v []byte
		var err error
		p, _ := guard(func() {
			v, err = rd.Get(en.k)
			v = append([]byte(nil), v...)
		})
		if p || err != nil || !bytes.Equal(v, en.v) {
			what := "returns " + showVal(v)
			if p {
				what = "panics"
			} else if err != nil {
				what = "fails (" + classifyGetErr(err) + ")"
			}
			c.Fail("held-reader-disturbed-by-later-call", fmt.Sprintf("the reader of table %d answered Get(%d) = %s when it was handed out; after %s the same (still held, still cached) reader %s", t.fno, en.k, showVal(en.v), after, what))
			return
		}
	}
}

func classifyGetErr(err error) string {
	if err == table.ErrKeyNotExist {
		return "key not exist"
	}
	return "corrupt"
}

// useReader looks two keys of table t up through rd (which must be open).
func (ce *cacheEnv) useReader(t *cTable, rd table.Reader, r interface{ Intn(int) int }) {
	c := ce.c
	if rd.FileName() != ce.name(t.fno) {
		c.Fail("cache-returns-wrong-table", fmt.Sprintf("GetReader for table %d returned the reader of %s", t.fno, rd.FileName()))
		return
	}
	for n := 0; n < 2 && len(t.entries) > 0; n++ {
		en := t.entries[r.Intn(len(t.entries))]
		var v []byte
		var err error
		p, _ := guard(func() { v, err = rd.Get(en.k) })
		if p || err != nil || !bytes.Equal(v, en.v) {
			c.Fail("cache-returns-wrong-table", fmt.Sprintf("Get(%d) through the cached reader of table %d does not return the bytes that were added", en.k, t.fno))
			return
		}
	}
}

func (ce *cacheEnv) run(i int) {
	c := ce.c
	r := c.Rng(i)
	ce.expired = r.Intn(3) > 0
	ttl := time.Hour
	if ce.expired {
		ttl = -time.Millisecond // Now()-last > -1 always: every unreferenced entry at the LRU end has expired
	}
	ce.cache = table.NewCache(ce.dir, ttl)
	c.Op("cnew", "ok")
	if ce.expired {
		c.Branch("cache-ttl-expired")
	} else {
		c.Branch("cache-ttl-never")
	}
	// tables
	nt := 2 + r.Intn(4)
	for fno := 1; fno <= nt; fno++ {
		t := &cTable{fno: fno, fam: r.Intn(2)}
		path := filepath.Join(ce.dir, cacheFamilies[t.fam], ce.name(fno))
		b, err := table.NewStoreBuilder(table.FileNumber(fno), path)
		if err != nil {
			c.Fail("harness-new-builder", "cannot create a table")
			return
		}
		k := uint32(r.Intn(100000))
		for n := 1 + r.Intn(6); n > 0; n-- {
			v := make([]byte, r.Intn(10))
			r.Read(v)
			v = append(v, byte(fno)) // every table's values differ
			if err := b.Add(k, v); err != nil {
				c.Fail("harness-add", "Add failed")
				return
			}
			t.entries = append(t.entries, kv{k, v})
			k += 1 + uint32(r.Intn(70000))
		}
		if err := b.Close(); err != nil {
			c.Fail("close-error", "Close of a small table failed")
			return
		}
		ce.tables[fno] = t
		ce.byName[ce.name(fno)] = fno
	}
	ghost := nt + 1 // a table number with no file
	ce.byName[ce.name(ghost)] = ghost
	// a table number whose file is a torn / damaged copy of table 1: the open gets as far as
	// newMMapStoreReader's initialize() and fails THERE (its error path, with whatever it cleans up)
	torn := nt + 2
	tornFam := ce.tables[1].fam
	ce.byName[ce.name(torn)] = torn
	{
		good, err := os.ReadFile(filepath.Join(ce.dir, cacheFamilies[tornFam], ce.name(1)))
		if err != nil || len(good) < footerLen {
			c.Fail("harness-read-file", "cannot read table 1 back")
			return
		}
		bad := append([]byte(nil), good...)
		switch r.Intn(4) {
		case 0: // footer cut (refused for every cut of 1..8 bytes: truncated_tail_refused)
			bad = bad[:len(bad)-1-r.Intn(8)]
			c.Branch("cache-torn-file-cut")
		case 1: // magic number damaged
			bad[len(bad)-1-r.Intn(8)] ^= 0x5a
			c.Branch("cache-torn-file-magic")
		case 2: // footer positions out of the file
			putU32(bad, len(bad)-footerLen+4, uint32(len(bad)+1+r.Intn(100)))
			c.Branch("cache-torn-file-footer")
		default: // one entry fewer in the offsets block than keys (the last check of initialize)
			fs := len(bad) - footerLen
			p2 := int(binary.LittleEndian.Uint32(bad[fs+4 : fs+8]))
			putU32(bad, fs, uint32(p2)) // posOfOffset = posOfKeys: an empty offsets block
			c.Branch("cache-torn-file-offsets")
		}
		if err := os.WriteFile(filepath.Join(ce.dir, cacheFamilies[tornFam], ce.name(torn)), bad, 0o644); err != nil {
			c.Fail("harness-write-file", "cannot write the torn file")
			return
		}
	}
	ce.state()
	for n := 12 + r.Intn(30); n > 0; n-- {
		after := ""
		switch x := r.Intn(100); {
		case x < 50: // GetReader
			fno := 1 + r.Intn(nt)
			fam := 0
			canOpen := true
			if r.Intn(12) == 0 {
				fno, canOpen = ghost, false
				fam = r.Intn(2)
				c.Branch("cache-get-missing-file")
			} else if r.Intn(7) == 0 {
				fno, canOpen, fam = torn, false, tornFam
				c.Branch("cache-get-torn-file")
			} else {
				fam = ce.tables[fno].fam
			}
			_, wasCached := ce.cached()[fno]
			if canOpen && !wasCached && r.Intn(6) == 0 {
				table.VerifC02FailOpenOnce(ce.name(fno))
				canOpen = false
				c.Branch("cache-get-open-fault")
			}
			var rd table.Reader
			var err error
			p, _ := guard(func() { rd, err = ce.cache.GetReader(cacheFamilies[fam], ce.name(fno)) })
			table.VerifC02ClearOpenFaults()
			ok := 0
			if canOpen {
				ok = 1
			}
			op := fmt.Sprintf("cget %d %d %d", fam, fno, ok)
			switch {
			case p:
				c.Op(op, "panic")
				c.Fail("panic", "GetReader panicked")
				return
			case err != nil || rd == nil:
				c.Op(op, "err")
				c.Branch("cache-get-err")
				after = fmt.Sprintf("a failed open of table %d", fno)
				if canOpen {
					c.Fail("open-fails", fmt.Sprintf("GetReader cannot open table %d, a file written by the builder", fno))
				}
			default:
				id, known := ce.rid[rd]
				if !known {
					id = ce.nextRid
					ce.nextRid++
					ce.rid[rd] = id
				}
				if wasCached {
					c.Op(op, fmt.Sprintf("hit r%d", id))
					c.Branch("cache-get-hit")
				} else {
					c.Op(op, fmt.Sprintf("miss r%d", id))
					c.Branch("cache-get-miss")
					after = fmt.Sprintf("table %d was opened", fno)
				}
				if t := ce.tables[fno]; t != nil {
					ce.useReader(t, rd, r)
					c.NonTrivial()
				}
				ce.held = append(ce.held, cHandle{fno, rd})
			}
		case x < 72: // ReleaseReaders of some held readers
			if len(ce.held) == 0 {
				continue
			}
			k := 1 + r.Intn(minInt(3, len(ce.held)))
			var rds []table.Reader
			var nums []string
			for ; k > 0; k-- {
				at := r.Intn(len(ce.held))
				h := ce.held[at]
				ce.held = append(ce.held[:at:at], ce.held[at+1:]...)
				rds = append(rds, h.rd)
				nums = append(nums, fmt.Sprint(h.fno))
			}
			p, _ := guard(func() { ce.cache.ReleaseReaders(rds) })
			if p {
				c.Op("crel "+strings.Join(nums, ","), "panic")
				c.Fail("panic", "ReleaseReaders panicked")
				return
			}
			c.Op("crel "+strings.Join(nums, ","), "ok")
			c.Branch("cache-release")
		case x < 82: // Evict (the caller gives up its readers of that table: they are closed now)
			fno := 1 + r.Intn(nt+1)
			ce.dropHeld(fno)
			p, _ := guard(func() { ce.cache.Evict(ce.name(fno)) })
			if p {
				c.Op(fmt.Sprintf("cevict %d", fno), "panic")
				c.Fail("panic", "Evict panicked")
				return
			}
			c.Op(fmt.Sprintf("cevict %d", fno), "ok")
			c.Branch("cache-evict")
		default: // Cleanup, then use every reader still held
			p, _ := guard(func() { ce.cache.Cleanup() })
			flag := 0
			if ce.expired {
				flag = 1
			}
			if p {
				c.Op(fmt.Sprintf("cclean %d", flag), "panic")
				c.Fail("panic", "Cleanup panicked")
				return
			}
			c.Op(fmt.Sprintf("cclean %d", flag), "ok")
			c.Branch("cache-cleanup")
		}
		ce.state()
		// readers still held and still cached must keep answering
		if after != "" {
			// an open (successful or failed) happened: EVERY reader handed out before, still held
			// and still cached, is read in full again
			cur := ce.cached()
			seen := map[table.Reader]bool{}
			for _, h := range ce.held {
				if cur[h.fno] == h.rd && !seen[h.rd] && ce.tables[h.fno] != nil {
					seen[h.rd] = true
					ce.reuseReader(ce.tables[h.fno], h.rd, after)
				}
			}
			if len(seen) >= 2 {
				c.Branch("cache-two-held-readers-reread-after-open")
			}
		} else if r.Intn(3) == 0 {
			cur := ce.cached()
			for _, h := range ce.held {
				if cur[h.fno] == h.rd {
					ce.useReader(ce.tables[h.fno], h.rd, r)
				}
			}
		}
	}
}

func (a cacheArea) Run(c *core.Ctx) error {
	for i := 0; i < c.N; i++ {
		if !c.Want(i) {
			continue
		}
		c.Begin(i)
		dir, err := os.MkdirTemp("", "lvh-c15c-*")
		if err != nil {
			return err
		}
		for _, f := range cacheFamilies {
			if err := os.MkdirAll(filepath.Join(dir, f), 0o755); err != nil {
				return err
			}
		}
		ce := &cacheEnv{c: c, dir: dir, tables: map[int]*cTable{}, byName: map[string]int{}, rid: map[table.Reader]int{}}
		p, msg := guard(func() { ce.run(i) })
		if p {
			c.Fail("panic", "case panicked outside a guarded call: "+msg)
		}
		table.VerifC02ClearOpenFaults()
		if ce.cache != nil {
			_, _ = guard(func() { _ = ce.cache.Close() })
		}
		_ = os.RemoveAll(dir)
	}
	return nil
}
