// Package c15 drives lindb's real table builder / reader / merged iterator / version.FindFiles /
// snapshot.Load (area "table") and mirrors every operation in the C15 line protocol (see
// lean/LinVerif/Driver/C15.lean). The impl-side oracle evaluates the C15 statement itself on the
// implementation's outputs against an independent few-line specification (`accepted`).
package c15

import (
	"bytes"
	"encoding/binary"
	"encoding/hex"
	"errors"
	"fmt"
	"hash/crc32"
	"math/rand"
	"os"
	"path/filepath"
	"runtime/debug"
	"sort"
	"strconv"
	"strings"
	"time"

	"github.com/lindb/lindb/kv/table"
	"github.com/lindb/lindb/kv/version"
	"github.com/lindb/lindb/pkg/bufioutil"

	"github.com/lindb/lindb/zzverif/internal/core"
	"github.com/lindb/lindb/zzverif/internal/extract"
)

// writeBufferSize is pkg/bufioutil's defaultWriteBufferSize, re-read from the source of the tree
// under test (VERIF_REPO, default /repo); Props/C15 `tie_bufio_writer` pins the value the
// regenerated fact has. The `write-buffer-threshold` region is built around it.
func writeBufferSize() int {
	repo := os.Getenv("VERIF_REPO")
	if repo == "" {
		repo = "/repo"
	}
	if _, f, err := extract.ParseFile(repo, "pkg/bufioutil/bufio_writer.go"); err == nil {
		if v, ok := extract.ConstInts(f)["defaultWriteBufferSize"]; ok && v > 0 && v <= 1<<24 {
			return int(v)
		}
	}
	return 256 * 1024
}

type area struct{}

func init() { core.Register(area{}) }

func (area) Name() string { return "table" }

const family = "fam"

// ---------------------------------------------------------------- value syntax / canonical output

// val is a value together with the way it is written in the op line.
type val struct {
	spec string
	b    []byte
}

func litVal(b []byte) val { return val{spec: "x" + hex.EncodeToString(b), b: b} }

// genVal: x_{i+1} = (x_i*1103515245 + 12345) mod 2^31, byte = (x_{i+1} >> 16) & 0xff
func genVal(n int, seed uint32) val {
	b := make([]byte, n)
	x := uint64(seed) % (1 << 31)
	for i := range b {
		x = (x*1103515245 + 12345) % (1 << 31)
		b[i] = byte((x >> 16) & 0xff)
	}
	return val{spec: fmt.Sprintf("g%d.%d", n, seed%(1<<31)), b: b}
}

func mkVal(r *rand.Rand, n int) val {
	if n <= 40 {
		b := make([]byte, n)
		r.Read(b)
		return litVal(b)
	}
	return genVal(n, uint32(r.Int31()))
}

const fnvOffset = 14695981039346656037
const fnvPrime = 1099511628211

func fnvBytes(h uint64, b []byte) uint64 {
	for _, c := range b {
		h = (h ^ uint64(c)) * fnvPrime
	}
	return h
}

func fnvNat8(h uint64, n uint64) uint64 {
	var buf [8]byte
	binary.LittleEndian.PutUint64(buf[:], n)
	return fnvBytes(h, buf[:])
}

func showVal(b []byte) string {
	if len(b) <= 24 {
		return "x" + hex.EncodeToString(b)
	}
	return fmt.Sprintf("h%d.%016x", len(b), fnvBytes(fnvOffset, b))
}

type kv struct {
	k uint32
	v []byte
}

func showSeq(l []kv) string {
	h := uint64(fnvOffset)
	for _, e := range l {
		h = fnvBytes(fnvNat8(fnvNat8(h, uint64(e.k)), uint64(len(e.v))), e.v)
	}
	var sb strings.Builder
	fmt.Fprintf(&sb, "n=%d d=%016x", len(l), h)
	if len(l) <= 12 {
		for _, e := range l {
			fmt.Fprintf(&sb, " %d=%s", e.k, showVal(e.v))
		}
	}
	return sb.String()
}

// ---------------------------------------------------------------- independent specification

// accepted is the C15 statement's "what was added": the first entry, then every entry whose key is
// above the last kept key.
func accepted(in []kv) []kv {
	var out []kv
	for _, e := range in {
		if len(out) == 0 || e.k > out[len(out)-1].k {
			out = append(out, e)
		}
	}
	return out
}

func itemEntries(items []item) []kv {
	out := make([]kv, 0, len(items))
	for _, it := range items {
		out = append(out, kv{it.k, nil})
	}
	return out
}

// ---------------------------------------------------------------- one case's scratch state

type env struct {
	c     *core.Ctx
	r     *rand.Rand
	dir   string
	cache table.Cache
	quick bool
	wbuf  int // pkg/bufioutil defaultWriteBufferSize
}

func (e *env) path(fno int) string {
	return filepath.Join(e.dir, family, version.Table(table.FileNumber(fno)))
}

// guard runs f and turns a panic into a result. A read of unmapped memory (a reader or a pooled
// decoder still pointing into a table file that was unmapped by Close) is an ordinary, reportable
// panic too instead of a fatal SIGSEGV that would end the run without a failing input.
func guard(f func()) (panicked bool, msg string) {
	old := debug.SetPanicOnFault(true)
	defer debug.SetPanicOnFault(old)
	defer func() {
		if r := recover(); r != nil {
			panicked = true
			msg = fmt.Sprint(r)
		}
	}()
	f()
	return
}

// ---------------------------------------------------------------- builder driving

// item is one well-formed use of the builder.
type item struct {
	k      uint32
	stream bool
	chunks []val // stream: the chunks; add: exactly one
}

func (it item) bytes() []byte {
	var b []byte
	for _, c := range it.chunks {
		b = append(b, c.b...)
	}
	return b
}

type built struct {
	fno      int
	entries  []kv // accepted entries (specification side)
	min, max uint32
	size     uint32
	closed   bool
}

func status(b table.Builder) string {
	return fmt.Sprintf("c=%d min=%d max=%d sz=%d", b.Count(), b.MinKey(), b.MaxKey(), b.Size())
}

// buildTable runs the items against a real builder, emitting ops; the oracle checks count/min/max
// after every item and that a rejected item changes nothing.
func (e *env) buildTable(fno int, items []item) *built {
	c := e.c
	b, err := table.NewStoreBuilder(table.FileNumber(fno), e.path(fno))
	if err != nil {
		c.Fail("harness-new-builder", err.Error())
		return nil
	}
	c.Op("new", "ok")
	var sw table.StreamWriter
	var exp []kv // the kept entries so far: `accepted` of the items seen, maintained incrementally
	res := &built{fno: fno}
	for _, it := range items {
		before := status(b)
		rejected := len(exp) > 0 && it.k <= exp[len(exp)-1].k
		if !rejected {
			exp = append(exp, kv{it.k, it.bytes()})
		}
		if rejected {
			c.Branch("item-rejected")
		}
		var out string
		var p bool
		var msg string
		if !it.stream {
			c.Branch("item-add")
			op := fmt.Sprintf("add %d %s", it.k, it.chunks[0].spec)
			p, msg = guard(func() {
				if err := b.Add(it.k, it.chunks[0].b); err != nil {
					out = "err"
					return
				}
				out = status(b)
			})
			if p {
				out = "panic"
			}
			c.Op(op, out)
		} else {
			c.Branch("item-stream")
			if sw == nil || e.r.Intn(4) == 0 {
				p, msg = guard(func() { sw = b.StreamWriter() })
				c.Op("sw", "ok")
			}
			p, msg = guard(func() {
				sw.Prepare(it.k)
				c.Op(fmt.Sprintf("prep %d", it.k), "ok")
				total := 0
				for _, ch := range it.chunks {
					n, err := sw.Write(ch.b)
					if err != nil {
						c.Fail("stream-write-error", err.Error())
					}
					c.Op("write "+ch.spec, fmt.Sprintf("n=%d sws=%d", n, sw.Size()))
					total += n
					if !rejected && n != len(ch.b) {
						c.Fail("stream-write-short", fmt.Sprintf("Write returned %d for %d bytes", n, len(ch.b)))
					}
					if rejected && n != 0 {
						c.Fail("rejected-stream-write-accepted", fmt.Sprintf("Write after Prepare(%d) of an out-of-order key returned %d", it.k, n))
					}
				}
				if e.r.Intn(3) == 0 {
					sum := sw.CRC32CheckSum()
					c.Op("crc", fmt.Sprintf("crc=%08x", sum))
					want := uint32(0)
					if !rejected {
						want = crc32.ChecksumIEEE(it.bytes())
					}
					if sum != want {
						c.Fail("stream-checksum-wrong", fmt.Sprintf("CRC32CheckSum()=%08x after writing the chunks of key %d, IEEE crc32 of them is %08x", sum, it.k, want))
					}
				}
				if err := sw.Commit(); err != nil {
					out = "err"
					return
				}
				out = status(b)
			})
			if p {
				out = "panic"
			}
			c.Op("commit", out)
		}
		if p {
			c.Fail("panic", fmt.Sprintf("builder panicked on a well-formed item (key %d): %s", it.k, msg))
			_ = b.Abandon()
			return nil
		}
		// oracle: count / min / max, rejection leaves everything as it was
		if rejected {
			if status(b) != before {
				c.Fail("reject-disturbs-state", fmt.Sprintf("out-of-order key %d changed the builder: %s -> %s", it.k, before, status(b)))
			}
		}
		if int(b.Count()) != len(exp) {
			c.Fail("count-wrong", fmt.Sprintf("Count()=%d, %d entries kept", b.Count(), len(exp)))
		}
		if len(exp) > 0 && (b.MinKey() != exp[0].k || b.MaxKey() != exp[len(exp)-1].k) {
			c.Fail("minmax-wrong", fmt.Sprintf("MinKey/MaxKey=%d/%d, kept keys span %d..%d", b.MinKey(), b.MaxKey(), exp[0].k, exp[len(exp)-1].k))
		}
		// what the stream writer tolerates with no stream open (Lemmas/C15Stream `Spec.step`: idle/write,
		// idle/commit): a Write or a second Commit between two complete groups must not reach the file
		if sw != nil && e.r.Intn(8) == 0 {
			c.Branch("idle-stream-op")
			before := status(b)
			what := "Write"
			if e.r.Intn(2) == 0 {
				v := mkVal(e.r, 1+e.r.Intn(6))
				p, msg = guard(func() {
					n, _ := sw.Write(v.b)
					c.Op("write "+v.spec, fmt.Sprintf("n=%d sws=%d", n, sw.Size()))
				})
			} else {
				what = "Commit"
				p, msg = guard(func() {
					_ = sw.Commit()
					c.Op("commit", status(b))
				})
			}
			if p {
				c.Fail("panic", fmt.Sprintf("stream writer panicked on a %s with no stream open: %s", what, msg))
				_ = b.Abandon()
				return nil
			}
			if status(b) != before {
				c.Fail("idle-stream-op-disturbs-state", fmt.Sprintf("%s with no stream open changed the builder: %s -> %s", what, before, status(b)))
			}
		}
	}
	res.entries = exp
	if all := accepted(itemEntries(items)); len(all) != len(exp) {
		c.Fail("harness-spec-mismatch", "incremental and batch forms of the specification disagree")
	}
	res.min, res.max, res.size = b.MinKey(), b.MaxKey(), b.Size()
	e.closeBuilder(b, fno, res, len(res.entries) > 0)
	return res
}

// closeBuilder closes the builder and reports footer, positions and the offset block of the file.
func (e *env) closeBuilder(b table.Builder, fno int, res *built, expectOK bool) {
	c := e.c
	var err error
	p, msg := guard(func() { err = b.Close() })
	op := fmt.Sprintf("close %d", fno)
	switch {
	case p:
		c.Op(op, "panic")
		c.Fail("panic", "Close panicked: "+msg)
	case errors.Is(err, table.ErrEmptyKeys):
		c.Op(op, "err empty-keys")
		c.Branch("close-empty")
		if expectOK {
			c.Fail("close-empty-with-keys", "Close returned ErrEmptyKeys although entries were kept")
		}
	case err != nil:
		c.Op(op, "err other")
		c.Fail("close-error", strings.ReplaceAll(err.Error(), e.dir, "<dir>"))
	default:
		data, rerr := os.ReadFile(e.path(fno))
		if rerr != nil || len(data) < 17 {
			c.Op(op, "err unreadable")
			c.Fail("harness-read-file", fmt.Sprint(rerr))
			return
		}
		foot := data[len(data)-17:]
		p1 := int(binary.LittleEndian.Uint32(foot[0:4]))
		p2 := int(binary.LittleEndian.Uint32(foot[4:8]))
		off := []byte{}
		if p1 <= p2 && p2 <= len(data) {
			off = data[p1:p2]
		}
		if len(off) > 0 {
			c.Branch(fmt.Sprintf("offset-width-%d", off[0]))
		}
		c.Op(op, fmt.Sprintf("ok p1=%d p2=%d off=%s footer=%s", p1, p2, showVal(off), showVal(foot)))
		res.closed = true
		if !expectOK {
			c.Fail("close-ok-without-keys", "Close succeeded with no kept entry")
		}
	}
}

// openTable opens the file through the real table cache.
func (e *env) openTable(t *built) table.Reader {
	c := e.c
	op := fmt.Sprintf("open %d", t.fno)
	var r table.Reader
	var err error
	p, msg := guard(func() { r, err = e.cache.GetReader(family, version.Table(table.FileNumber(t.fno))) })
	if p {
		c.Op(op, "panic")
		c.Fail("panic", "GetReader panicked: "+msg)
		return nil
	}
	if err != nil || r == nil {
		c.Op(op, "err")
		if t.closed {
			c.Fail("open-fails", "a file written by the builder is rejected by the reader: "+strings.ReplaceAll(fmt.Sprint(err), e.dir, "<dir>"))
		}
		return nil
	}
	c.Op(op, "ok")
	return r
}

func (e *env) get(r table.Reader, fno int, k uint32) (string, []byte) {
	var v []byte
	var err error
	p, _ := guard(func() { v, err = r.Get(k) })
	out := ""
	switch {
	case p:
		out = "panic"
	case errors.Is(err, table.ErrKeyNotExist):
		out = "absent"
	case err != nil:
		out = "corrupt"
	default:
		out = "ok " + showVal(v)
	}
	e.c.Op(fmt.Sprintf("get %d %d", fno, k), out)
	return out, v
}

func drain(it table.Iterator, limit int) (out []kv, panicked bool) {
	panicked, _ = guard(func() {
		for it.HasNext() {
			k := it.Key()
			v := it.Value()
			out = append(out, kv{k, append([]byte(nil), v...)})
			if len(out) > limit {
				return
			}
		}
	})
	return
}

// probeTable looks every kept key up (a sample for large tables), probes absent keys, iterates.
func (e *env) probeTable(t *built, r table.Reader) {
	c := e.c
	idx := make([]int, 0, len(t.entries))
	if len(t.entries) <= 300 {
		for i := range t.entries {
			idx = append(idx, i)
		}
	} else {
		idx = append(idx, 0, len(t.entries)-1)
		for i := 0; i < 200; i++ {
			idx = append(idx, e.r.Intn(len(t.entries)))
		}
	}
	present := map[uint32]bool{}
	for _, en := range t.entries {
		present[en.k] = true
	}
	for _, i := range idx {
		en := t.entries[i]
		out, v := e.get(r, t.fno, en.k)
		if !strings.HasPrefix(out, "ok ") {
			c.Fail("present-key-not-found", fmt.Sprintf("Get(%d) = %s for a key that was added", en.k, out))
		} else if !bytes.Equal(v, en.v) {
			c.Fail("present-key-wrong-bytes", fmt.Sprintf("Get(%d) returned %s, added %s", en.k, showVal(v), showVal(en.v)))
		}
	}
	// absent probes: neighbours of kept keys, container boundaries, random
	var probes []uint32
	for j := 0; j < 6 && len(t.entries) > 0; j++ {
		k := t.entries[e.r.Intn(len(t.entries))].k
		probes = append(probes, k+1, k-1, k^0x10000)
	}
	probes = append(probes, 0, 65535, 65536, 4294967295, e.r.Uint32(), e.r.Uint32()%200000)
	for _, k := range probes {
		if present[k] {
			continue
		}
		out, _ := e.get(r, t.fno, k)
		if out != "absent" {
			c.Fail("absent-key-found", fmt.Sprintf("Get(%d) = %s for a key that was never kept", k, out))
		}
	}
	got, p := drain(r.Iterator(), len(t.entries)+5)
	if p {
		c.Op(fmt.Sprintf("iter %d", t.fno), "panic")
		c.Fail("panic", "table iterator panicked")
		return
	}
	c.Op(fmt.Sprintf("iter %d", t.fno), showSeq(got))
	checkSameSeq(c, "iter", got, t.entries)
	// two iterators of the same reader alive at once, stepped in a random interleaving
	if len(t.entries) <= 30 && e.r.Intn(3) == 0 {
		n := 2*len(t.entries) + 3
		sched := make([]byte, 1+e.r.Intn(n))
		for i := range sched {
			sched[i] = "ab"[e.r.Intn(2)]
		}
		its := [2]table.Iterator{r.Iterator(), r.Iterator()}
		var pos [2]int
		var toks []string
		bad := ""
		p, _ := guard(func() {
			for _, ch := range sched {
				w := int(ch - 'a')
				if !its[w].HasNext() {
					toks = append(toks, string(ch)+":-")
					if pos[w] < len(t.entries) && bad == "" {
						bad = fmt.Sprintf("iterator %c ends after %d of %d entries", ch, pos[w], len(t.entries))
					}
					continue
				}
				k := its[w].Key()
				v := its[w].Value()
				toks = append(toks, fmt.Sprintf("%c:%d=%s", ch, k, showVal(v)))
				if bad == "" && (pos[w] >= len(t.entries) || t.entries[pos[w]].k != k || !bytes.Equal(t.entries[pos[w]].v, v)) {
					bad = fmt.Sprintf("iterator %c delivers %d=%s at its position %d", ch, k, showVal(v), pos[w])
				}
				pos[w]++
			}
		})
		op := fmt.Sprintf("iter2 %d %s", t.fno, sched)
		if p {
			c.Op(op, "panic")
			c.Fail("panic", "interleaved iterators panicked")
		} else {
			c.Op(op, strings.Join(toks, " "))
			c.Branch("two-iterators-interleaved")
			if bad != "" {
				c.Fail("iterators-interfere", bad+" while another iterator of the same reader is in use")
			}
		}
	}
}

func checkSameSeq(c *core.Ctx, what string, got, want []kv) {
	for i := 1; i < len(got); i++ {
		if got[i].k <= got[i-1].k {
			c.Fail(what+"-not-ascending", fmt.Sprintf("keys %d then %d", got[i-1].k, got[i].k))
			break
		}
	}
	if len(got) != len(want) {
		c.Fail(what+"-wrong-length", fmt.Sprintf("%d entries delivered, %d kept", len(got), len(want)))
		return
	}
	for i := range got {
		if got[i].k != want[i].k || !bytes.Equal(got[i].v, want[i].v) {
			c.Fail(what+"-wrong-entry", fmt.Sprintf("position %d: got %d=%s want %d=%s", i, got[i].k, showVal(got[i].v), want[i].k, showVal(want[i].v)))
			return
		}
	}
}

// ---------------------------------------------------------------- generators

// keySet returns ascending distinct keys of a named shape.
func (e *env) keySet() (string, []uint32) {
	r := e.r
	set := map[uint32]bool{}
	shape := ""
	switch x := r.Intn(100); {
	case x < 22:
		shape = "sparse"
		for n := 1 + r.Intn(40); n > 0; n-- {
			set[r.Uint32()] = true
		}
	case x < 40:
		shape = "run"
		start := r.Uint32() % (1 << 20)
		if r.Intn(3) == 0 {
			start = uint32(65536*(1+r.Intn(5)) - r.Intn(60)) // run across a container boundary
		}
		n := 1 + r.Intn(300)
		for i := 0; i < n; i++ {
			set[start+uint32(i)] = true
		}
	case x < 55:
		shape = "boundary"
		for j := 1 + r.Intn(4); j > 0; j-- {
			base := uint32(65536 * (1 + r.Intn(65534)))
			for d := -2; d <= 2; d++ {
				if r.Intn(3) > 0 {
					set[uint32(int64(base)+int64(d))] = true
				}
			}
		}
		if len(set) == 0 {
			set[65536] = true
		}
	case x < 58:
		shape = "single-zero"
		set[0] = true
	case x < 60 || (x >= 84 && x < 90):
		// keys that are exact multiples of 65536 and not in the file's first container, with
		// neighbours in the same and the previous 65536-block (per-container rank bases)
		shape = "container-start"
		if r.Intn(2) == 0 {
			set[uint32(r.Intn(65536))] = true // something in an earlier container
		}
		for j := 1 + r.Intn(4); j > 0; j-- {
			base := uint32(1+r.Intn(65535)) << 16
			if r.Intn(6) == 0 {
				base = 0xFFFF0000
			}
			set[base] = true
			for n := r.Intn(6); n > 0; n-- {
				set[base+uint32(r.Intn(40))] = true
			}
			if r.Intn(2) == 0 {
				set[base+uint32(r.Intn(65536))] = true
			}
			if r.Intn(2) == 0 {
				set[base-1-uint32(r.Intn(3))] = true
			}
			if r.Intn(4) == 0 { // a dense run across the boundary
				for d := uint32(0); d < uint32(20+r.Intn(200)); d++ {
					set[base-10+d] = true
				}
			}
		}
	case x < 64:
		shape = "extremes"
		set[4294967295] = true
		if r.Intn(2) == 0 {
			set[0] = true
		}
		if r.Intn(2) == 0 {
			set[4294967294] = true
		}
	case x < 84:
		shape = "multi-container"
		for j := 1 + r.Intn(5); j > 0; j-- {
			hi := uint32(r.Intn(70)) << 16
			for n := 1 + r.Intn(25); n > 0; n-- {
				set[hi|uint32(r.Intn(65536))] = true
			}
		}
	case x < 96:
		shape = "small-dense"
		base := uint32(r.Intn(3)) << 16
		for n := 1 + r.Intn(120); n > 0; n-- {
			set[base+uint32(r.Intn(160))] = true
		}
	default:
		shape = "bitmap-container" // > 4096 members in one 65536 chunk: roaring switches to a bitmap container
		hi := uint32(r.Intn(4)) << 16
		n := 4200 + r.Intn(1200)
		if !e.quick && r.Intn(3) == 0 {
			n = 12000 + r.Intn(10000)
		}
		for len(set) < n {
			set[hi|uint32(r.Intn(65536))] = true
		}
		if r.Intn(2) == 0 { // plus long runs (run-optimised containers next to it)
			for i := 0; i < 3000; i++ {
				set[hi+65536+uint32(i)] = true
			}
		}
	}
	keys := make([]uint32, 0, len(set))
	for k := range set {
		keys = append(keys, k)
	}
	sort.Slice(keys, func(i, j int) bool { return keys[i] < keys[j] })
	return shape, keys
}

// valueSize picks a size profile for a table with n keys.
func (e *env) sizeProfile(n int) (string, func() int) {
	r := e.r
	if n > 1000 {
		return "tiny", func() int { return r.Intn(3) } // keep big key sets light
	}
	switch x := r.Intn(100); {
	case x < 15:
		return "empty", func() int { return 0 }
	case x < 50:
		return "small", func() int { return r.Intn(20) }
	case x < 75:
		return "mixed", func() int {
			if r.Intn(4) == 0 {
				return 0
			}
			return r.Intn(400)
		}
	case x < 90:
		return "width2", func() int { return 100 + r.Intn(600) } // offsets ≥ 256
	default:
		if n <= 12 {
			return "width3", func() int { return 20000 + r.Intn(30000) } // offsets ≥ 65536
		}
		return "width3", func() int { return 1500 + r.Intn(3000) }
	}
}

// mkItems turns ascending keys into items, injecting out-of-order / duplicate keys and choosing
// add vs. stream writes.
func (e *env) mkItems(keys []uint32, size func() int, noise bool) []item {
	r := e.r
	var items []item
	mk := func(k uint32) item {
		it := item{k: k}
		if r.Intn(3) == 0 {
			it.stream = true
			total := size()
			nch := r.Intn(4) // 0 chunks = Prepare; Commit
			for j := 0; j < nch; j++ {
				sz := total
				if j < nch-1 && total > 0 {
					sz = r.Intn(total + 1)
				}
				total -= sz
				it.chunks = append(it.chunks, mkVal(r, sz))
			}
		} else {
			it.chunks = []val{mkVal(r, size())}
		}
		return it
	}
	for i, k := range keys {
		items = append(items, mk(k))
		if noise && r.Intn(6) == 0 {
			// an out-of-order key: equal to, or below, something already added
			bad := keys[r.Intn(i+1)]
			if r.Intn(3) == 0 && bad > 0 {
				bad = bad - 1 - uint32(r.Intn(int(minU32(bad, 1000))))
			}
			items = append(items, mk(bad))
		}
	}
	return items
}

func minU32(a, b uint32) uint32 {
	if a < b {
		return a
	}
	return b
}

// ---------------------------------------------------------------- case kinds

func (e *env) caseTable() {
	shape, keys := e.keySet()
	prof, size := e.sizeProfile(len(keys))
	if e.r.Intn(100) < 8 && len(keys) >= 2 {
		// the largest offset lands exactly on / next to a width threshold of Uint32MinWidth
		prof = "width-threshold"
		n := 2 + e.r.Intn(2)
		if n > len(keys) {
			n = len(keys)
		}
		keys = keys[:n]
		target := []int{256, 65536}[e.r.Intn(2)] + e.r.Intn(3) - 1
		sizes := []int{target, e.r.Intn(5)}
		if n == 3 {
			a := e.r.Intn(target + 1)
			sizes = []int{a, target - a, e.r.Intn(5)}
		}
		i := 0
		size = func() int { v := sizes[i%len(sizes)]; i++; return v }
		e.c.Branch("keys-" + shape)
		e.c.Branch("values-" + prof)
		var items []item
		for _, k := range keys {
			items = append(items, item{k: k, chunks: []val{mkVal(e.r, size())}})
		}
		if t := e.buildTable(1, items); t != nil && t.closed {
			if r := e.openTable(t); r != nil {
				e.c.NonTrivial()
				e.probeTable(t, r)
			}
		}
		return
	}
	e.c.Branch("keys-" + shape)
	e.c.Branch("values-" + prof)
	items := e.mkItems(keys, size, len(keys) <= 1000)
	t := e.buildTable(1, items)
	if t == nil || !t.closed {
		return
	}
	r := e.openTable(t)
	if r == nil {
		return
	}
	e.c.NonTrivial()
	e.probeTable(t, r)
	if e.r.Intn(2) == 0 {
		e.layoutProbe(t)
	}
}

// caseBig: a few values of megabytes (thorough only); idx 0 forces offsets of width 4.
func (e *env) caseBig(width4 bool) {
	r := e.r
	var items []item
	if width4 {
		e.c.Branch("values-width4")
		items = []item{
			{k: 5, chunks: []val{genVal(8600000, uint32(r.Int31()))}},
			{k: 70000, stream: true, chunks: []val{genVal(4300000, uint32(r.Int31())), genVal(4300000, uint32(r.Int31()))}},
			{k: 70001, chunks: []val{litVal([]byte{1, 2})}},
			{k: 131072, chunks: []val{litVal(nil)}},
		}
	} else {
		e.c.Branch("values-megabytes")
		k := uint32(r.Intn(1000))
		for n := 2 + r.Intn(2); n > 0; n-- {
			it := item{k: k, chunks: []val{genVal(300000+r.Intn(2700000), uint32(r.Int31()))}}
			if r.Intn(2) == 0 {
				it.stream = true
				it.chunks = append(it.chunks, genVal(r.Intn(200000), uint32(r.Int31())))
			}
			items = append(items, it)
			k += 1 + uint32(r.Intn(70000))
		}
	}
	t := e.buildTable(1, items)
	if t == nil || !t.closed {
		return
	}
	rd := e.openTable(t)
	if rd == nil {
		return
	}
	e.c.NonTrivial()
	e.probeTable(t, rd)
}

// caseWriteBuffer: values whose size sits on the builder's write-buffer size (B-1, B, B+1), added
// and streamed, each after a few small values that are still sitting in the buffer.
func (e *env) caseWriteBuffer() {
	r := e.r
	e.c.Branch("values-write-buffer-threshold")
	small := func() val { return mkVal(r, 1+r.Intn(30)) }
	big := func() val { return genVal(e.wbuf+r.Intn(3)-1, uint32(r.Int31())) }
	k := uint32(r.Intn(100000))
	next := func() uint32 { k += 1 + uint32(r.Intn(70000)); return k }
	var items []item
	for n := 2 + r.Intn(3); n > 0; n-- {
		items = append(items, item{k: next(), chunks: []val{small()}})
	}
	items = append(items, item{k: next(), chunks: []val{big()}})
	items = append(items, item{k: next(), stream: true, chunks: []val{small(), small()}})
	items = append(items, item{k: next(), stream: true, chunks: []val{small(), big(), small()}})
	items = append(items, item{k: next(), chunks: []val{small()}})
	if r.Intn(2) == 0 {
		items = append(items, item{k: next(), stream: true, chunks: []val{big()}})
		items = append(items, item{k: next(), chunks: []val{small()}})
	}
	t := e.buildTable(1, items)
	if t == nil || !t.closed {
		return
	}
	rd := e.openTable(t)
	if rd == nil {
		return
	}
	e.c.NonTrivial()
	e.probeTable(t, rd)
}

// overlappingTables builds n tables whose key sets overlap.
func (e *env) overlappingTables(n int) []*built {
	r := e.r
	_, pool := e.keySet()
	if len(pool) > 400 {
		pool = pool[:400]
	}
	for len(pool) < 6 {
		pool = append(pool, pool[len(pool)-1]+1+uint32(r.Intn(3)))
	}
	var ts []*built
	for f := 1; f <= n; f++ {
		var keys []uint32
		lo, hi := 0, len(pool)
		if r.Intn(2) == 0 { // a sub-range, so that [min,max] differ between files
			lo = r.Intn(len(pool))
			hi = lo + 1 + r.Intn(len(pool)-lo)
		}
		for _, k := range pool[lo:hi] {
			if r.Intn(3) > 0 {
				keys = append(keys, k)
			}
		}
		if len(keys) == 0 {
			keys = []uint32{pool[lo]}
		}
		fno := f
		size := func() int { return r.Intn(12) }
		var items []item
		for _, k := range keys {
			// the value names its file, so that equal keys from different files are told apart
			v := append([]byte{byte(fno)}, mkVal(r, size()).b...)
			items = append(items, item{k: k, chunks: []val{litVal(v)}})
		}
		t := e.buildTable(fno, items)
		if t != nil && t.closed {
			ts = append(ts, t)
		}
	}
	return ts
}

type sliceIt struct {
	es []kv
	i  int
}

func (s *sliceIt) HasNext() bool { return s.i < len(s.es) }
func (s *sliceIt) Key() uint32   { return s.es[s.i].k }
func (s *sliceIt) Value() []byte { v := s.es[s.i].v; s.i++; return v }

// checkMerge: output ordered by key, a permutation of the inputs, each input's entries in order.
func checkMerge(c *core.Ctx, got []kv, inputs [][]kv, tagged bool) {
	for i := 1; i < len(got); i++ {
		if got[i].k < got[i-1].k {
			c.Fail("merge-not-ordered", fmt.Sprintf("key %d delivered after %d", got[i].k, got[i-1].k))
			break
		}
	}
	count := map[string]int{}
	total := 0
	for _, in := range inputs {
		for _, e := range in {
			count[fmt.Sprintf("%d/%x", e.k, e.v)]++
			total++
		}
	}
	if len(got) != total {
		c.Fail("merge-wrong-count", fmt.Sprintf("%d entries delivered, inputs hold %d", len(got), total))
	}
	for _, e := range got {
		count[fmt.Sprintf("%d/%x", e.k, e.v)]--
	}
	var off []string
	for k, n := range count {
		if n != 0 {
			off = append(off, fmt.Sprintf("entry %s: %+d", k, -n))
		}
	}
	if len(off) > 0 {
		sort.Strings(off)
		c.Fail("merge-not-a-permutation", off[0])
	}
	if tagged { // value[0] = input number: the sub-sequence of one input must be that input
		per := make([][]kv, len(inputs))
		for _, e := range got {
			if len(e.v) > 0 && int(e.v[0]) < len(inputs) {
				per[e.v[0]] = append(per[e.v[0]], e)
			}
		}
		for i := range inputs {
			if len(per[i]) != len(inputs[i]) {
				continue // already reported above
			}
			for j := range per[i] {
				if per[i][j].k != inputs[i][j].k || !bytes.Equal(per[i][j].v, inputs[i][j].v) {
					c.Fail("merge-reorders-one-input", fmt.Sprintf("input %d position %d", i, j))
					break
				}
			}
		}
	}
}

func (e *env) caseMerge() {
	c, r := e.c, e.r
	// (1) over real readers
	n := 1 + r.Intn(5)
	ts := e.overlappingTables(n)
	var readers []table.Reader
	var fnos []string
	var inputs [][]kv
	for _, t := range ts {
		if rd := e.openTable(t); rd != nil {
			readers = append(readers, rd)
			fnos = append(fnos, strconv.Itoa(t.fno))
			inputs = append(inputs, t.entries)
		}
	}
	if len(readers) > 0 {
		// sometimes the same reader twice, in a shuffled order
		order := r.Perm(len(readers))
		var its []table.Iterator
		var ins [][]kv
		var names []string
		for _, i := range order {
			its = append(its, readers[i].Iterator())
			ins = append(ins, inputs[i])
			names = append(names, fnos[i])
		}
		if r.Intn(4) == 0 {
			its = append(its, readers[0].Iterator())
			ins = append(ins, inputs[0])
			names = append(names, fnos[0])
		}
		var got []kv
		total := 0
		for _, in := range ins {
			total += len(in)
		}
		p, msg := guard(func() { got, _ = drain(table.NewMergedIterator(its), total+5) })
		op := "merge " + strings.Join(names, " ")
		if p {
			c.Op(op, "panic")
			c.Fail("panic", "merged iterator panicked: "+msg)
		} else {
			c.Op(op, showSeq(got))
			checkMerge(c, got, ins, false)
			if len(ins) >= 2 {
				c.NonTrivial()
			}
		}
		c.Branch(fmt.Sprintf("merge-readers-%d", len(ins)))
	}
	// (2) over synthetic iterators: equal keys inside and across inputs, empty inputs
	for rep := 0; rep < 2; rep++ {
		ni := r.Intn(9)
		if r.Intn(10) == 0 {
			ni = 20 + r.Intn(30)
		}
		sortedIn := r.Intn(8) > 0
		var ins [][]kv
		var parts []string
		keyRange := 1 + r.Intn(30)
		for i := 0; i < ni; i++ {
			m := r.Intn(8)
			if r.Intn(5) == 0 {
				m = 0
			}
			var in []kv
			for j := 0; j < m; j++ {
				in = append(in, kv{k: uint32(r.Intn(keyRange)), v: nil})
			}
			if sortedIn {
				sort.SliceStable(in, func(a, b int) bool { return in[a].k < in[b].k })
			}
			var ws []string
			for j := range in {
				in[j].v = []byte{byte(i), byte(j)}
				ws = append(ws, fmt.Sprintf("%d=%s", in[j].k, litVal(in[j].v).spec))
			}
			ins = append(ins, in)
			if len(ws) == 0 {
				parts = append(parts, "-")
			} else {
				parts = append(parts, strings.Join(ws, ","))
			}
		}
		var its []table.Iterator
		total := 0
		for _, in := range ins {
			its = append(its, &sliceIt{es: in})
			total += len(in)
		}
		var got []kv
		p, msg := guard(func() { got, _ = drain(table.NewMergedIterator(its), total+5) })
		op := "smerge " + strings.Join(parts, " | ")
		if ni == 0 {
			op = "smerge"
		}
		if p {
			c.Op(op, "panic")
			c.Fail("panic", "merged iterator panicked: "+msg)
			continue
		}
		c.Op(op, showSeq(got))
		if sortedIn {
			c.Branch("smerge-sorted")
			checkMerge(c, got, ins, ni < 256)
			if ni >= 2 && total > 0 {
				c.NonTrivial()
			}
		} else {
			c.Branch("smerge-unsorted-input(correspondence only)")
		}
	}
}

func (e *env) caseVersion() {
	c, r := e.c, e.r
	n := 2 + r.Intn(5)
	ts := e.overlappingTables(n)
	if len(ts) == 0 {
		return
	}
	nl := 1 + r.Intn(3)
	levels := make([][]*version.FileMeta, nl)
	lvOf := make([][]*built, nl)
	for _, t := range ts {
		l := r.Intn(nl)
		levels[l] = append(levels[l], version.NewFileMeta(table.FileNumber(t.fno), t.min, t.max, t.size))
		lvOf[l] = append(lvOf[l], t)
	}
	var parts []string
	for l := range levels {
		var ws []string
		for _, t := range lvOf[l] {
			ws = append(ws, fmt.Sprintf("%d:%d:%d", t.fno, t.min, t.max))
		}
		if len(ws) == 0 {
			parts = append(parts, "-")
		} else {
			parts = append(parts, strings.Join(ws, ","))
		}
	}
	snap := version.VerifC15NewSnapshot(family, levels, e.cache)
	defer snap.Close()
	c.Op("ver "+strings.Join(parts, " | "), "ok")
	c.Branch(fmt.Sprintf("version-levels-%d", nl))
	// keys to look up: kept keys (some live in several files), neighbours, out of every range
	var keys []uint32
	for j := 0; j < 8; j++ {
		t := ts[r.Intn(len(ts))]
		k := t.entries[r.Intn(len(t.entries))].k
		keys = append(keys, k)
		if r.Intn(3) == 0 {
			keys = append(keys, k+1)
		}
	}
	keys = append(keys, 0, 4294967295, r.Uint32())
	e.lookupAll(snap, ts, lvOf, keys, false)
}

// lookupAll runs FindFiles / Load / FindReaders (and their unopenable-table variants) for the keys
// on the version of snap, which holds the tables ts, lvOf[l] being those of level l. With old=true
// (a snapshot taken before later edit logs were committed) a missing file is reported under the key
// snapshot-version-lost-files.
func (e *env) lookupAll(snap version.Snapshot, ts []*built, lvOf [][]*built, keys []uint32, old bool) {
	c, r := e.c, e.r
	miss := func(key string) string {
		if old {
			return "snapshot-version-lost-files"
		}
		return key
	}
	for _, k := range keys {
		// FindFiles
		var found []*version.FileMeta
		p, _ := guard(func() { found = snap.GetCurrent().FindFiles(k) })
		if p {
			c.Op(fmt.Sprintf("find %d", k), "panic")
			c.Fail("panic", "FindFiles panicked")
			continue
		}
		inFound := map[int]bool{}
		for _, f := range found {
			inFound[int(f.GetFileNumber())] = true
		}
		var lv []string
		for l := range lvOf {
			var fs []int
			for _, t := range lvOf[l] {
				if inFound[t.fno] {
					fs = append(fs, t.fno)
				}
			}
			sort.Ints(fs)
			var ws []string
			for _, f := range fs {
				ws = append(ws, strconv.Itoa(f))
			}
			lv = append(lv, strings.Join(ws, ","))
		}
		c.Op(fmt.Sprintf("find %d", k), strings.Join(lv, "|"))
		// Load
		var vals [][]byte
		var err error
		p, msg := guard(func() {
			err = snap.Load(k, func(v []byte) error {
				vals = append(vals, append([]byte(nil), v...))
				return nil
			})
		})
		op := fmt.Sprintf("load %d", k)
		if p {
			c.Op(op, "panic")
			c.Fail("panic", "Load panicked: "+msg)
			continue
		}
		if err != nil {
			c.Op(op, "err")
			c.Fail("load-error", strings.ReplaceAll(err.Error(), e.dir, "<dir>"))
			continue
		}
		ss := make([]string, len(vals))
		for i, v := range vals {
			ss[i] = showVal(v)
		}
		sort.Strings(ss)
		out := fmt.Sprintf("n=%d", len(vals))
		for _, s := range ss {
			out += " " + s
		}
		c.Op(op, out)
		// oracle: one value from every file that holds the key, nothing else
		var want []string
		holders := 0
		for _, t := range ts {
			for _, en := range t.entries {
				if en.k == k {
					want = append(want, showVal(en.v))
					holders++
					if !inFound[t.fno] {
						c.Fail(miss("findfiles-misses-file"), fmt.Sprintf("key %d lives in file %d [%d,%d] but FindFiles does not return it", k, t.fno, t.min, t.max))
					}
				}
			}
		}
		sort.Strings(want)
		if strings.Join(want, " ") != strings.Join(ss, " ") {
			c.Fail(miss("load-misses-values"), fmt.Sprintf("Load(%d) delivered [%s], the files hold [%s]", k, strings.Join(ss, " "), strings.Join(want, " ")))
		}
		if holders >= 2 {
			c.NonTrivial()
			c.Branch("key-in-several-files")
		}
		for l := 1; l < len(lvOf); l++ { // upper levels are NOT assumed to hold disjoint ranges
			cover := 0
			for _, t := range lvOf[l] {
				if inFound[t.fno] {
					cover++
				}
			}
			if cover >= 2 {
				c.Branch("overlapping-ranges-in-upper-level")
				break
			}
		}
		// (the fault-injected variants follow after the plain ones, see below)
		// FindReaders: a reader for every file found
		var rds []table.Reader
		p, _ = guard(func() { rds, err = snap.FindReaders(k) })
		rop := fmt.Sprintf("readers %d", k)
		switch {
		case p:
			c.Op(rop, "panic")
			c.Fail("panic", "FindReaders panicked")
		case err != nil:
			c.Op(rop, "err")
			c.Fail("findreaders-error", strings.ReplaceAll(err.Error(), e.dir, "<dir>"))
		default:
			var fn []int
			for _, rd := range rds {
				var n int
				fmt.Sscanf(rd.FileName(), "%d.sst", &n)
				fn = append(fn, n)
			}
			sort.Ints(fn)
			ws := make([]string, len(fn))
			for i, n := range fn {
				ws[i] = strconv.Itoa(n)
			}
			c.Op(rop, "r="+strings.Join(ws, ","))
			if len(rds) != len(found) {
				c.Fail("findreaders-mismatch", fmt.Sprintf("FindReaders(%d): %d readers, FindFiles: %d files", k, len(rds), len(found)))
			}
			for _, t := range ts {
				for _, en := range t.entries {
					if en.k == k {
						ok := false
						for _, n := range fn {
							ok = ok || n == t.fno
						}
						if !ok {
							c.Fail(miss("findreaders-misses-file"), fmt.Sprintf("key %d lives in file %d but FindReaders gives no reader for it", k, t.fno))
						}
					}
				}
			}
		}
		// the same lookups while one table cannot be opened (one-shot failing open in the reader
		// cache): an error, or everything — never a silent subset
		if r.Intn(2) == 0 {
			var foundNos []int
			for n := range inFound {
				foundNos = append(foundNos, n)
			}
			sort.Ints(foundNos)
			fno := ts[r.Intn(len(ts))].fno
			if len(foundNos) > 0 && r.Intn(4) > 0 {
				fno = foundNos[r.Intn(len(foundNos))]
			}
			if inFound[fno] {
				c.Branch("open-fault-on-covering-file")
			} else {
				c.Branch("open-fault-on-other-file")
			}
			name := version.Table(table.FileNumber(fno))
			var holderNos []int
			var wantVals []string
			for _, t := range ts {
				for _, en := range t.entries {
					if en.k == k {
						holderNos = append(holderNos, t.fno)
						wantVals = append(wantVals, showVal(en.v))
					}
				}
			}
			sort.Strings(wantVals)
			// FindReaders
			var frs []table.Reader
			var ferr error
			p, _ := guard(func() {
				e.cache.Evict(name)
				table.VerifC02FailOpenOnce(name)
				frs, ferr = snap.FindReaders(k)
			})
			table.VerifC02ClearOpenFaults()
			fop := fmt.Sprintf("readersf %d %d", k, fno)
			switch {
			case p:
				c.Op(fop, "panic")
				c.Fail("panic", "FindReaders panicked with an unopenable table")
			case ferr != nil:
				c.Op(fop, "err")
			default:
				var fn []int
				for _, rd := range frs {
					var n int
					fmt.Sscanf(rd.FileName(), "%d.sst", &n)
					fn = append(fn, n)
				}
				sort.Ints(fn)
				ws := make([]string, len(fn))
				has := map[int]bool{}
				for i, n := range fn {
					ws[i] = strconv.Itoa(n)
					has[n] = true
				}
				c.Op(fop, "r="+strings.Join(ws, ","))
				for _, h := range holderNos {
					if !has[h] {
						c.Fail("lookup-silently-incomplete", fmt.Sprintf("FindReaders(%d) with table %d unopenable returned no error and %d readers, but the key lives in file %d", k, fno, len(frs), h))
						break
					}
				}
			}
			// Load
			var lvals [][]byte
			var lerr error
			p, _ = guard(func() {
				e.cache.Evict(name)
				table.VerifC02FailOpenOnce(name)
				lerr = snap.Load(k, func(v []byte) error {
					lvals = append(lvals, append([]byte(nil), v...))
					return nil
				})
			})
			table.VerifC02ClearOpenFaults()
			lop := fmt.Sprintf("loadf %d %d", k, fno)
			switch {
			case p:
				c.Op(lop, "panic")
				c.Fail("panic", "Load panicked with an unopenable table")
			case lerr != nil:
				c.Op(lop, "err")
			default:
				ss := make([]string, len(lvals))
				for i, v := range lvals {
					ss[i] = showVal(v)
				}
				sort.Strings(ss)
				out := fmt.Sprintf("n=%d", len(lvals))
				for _, s := range ss {
					out += " " + s
				}
				c.Op(lop, out)
				if strings.Join(ss, " ") != strings.Join(wantVals, " ") {
					c.Fail("lookup-silently-incomplete", fmt.Sprintf("Load(%d) with table %d unopenable returned no error and [%s], the files hold [%s]", k, fno, strings.Join(ss, " "), strings.Join(wantVals, " ")))
				}
			}
		}
	}
}

// caseVersionSet: the version is built through the real StoreVersionSet (CommitFamilyEditLog =
// Clone + apply + install); snapshots taken before a compaction-shaped log (delete level-L files,
// add their merge at level L+1) and a move log must keep answering from the files they had.
func (e *env) caseVersionSet() {
	c, r := e.c, e.r
	ts := e.overlappingTables(3 + r.Intn(4))
	if len(ts) < 2 {
		return
	}
	nl := 2 + r.Intn(2)
	vs := version.NewStoreVersionSet(e.dir, e.cache, nl)
	if err := vs.Recover(); err != nil {
		c.Fail("harness-version-set", err.Error())
		return
	}
	defer func() { _, _ = guard(func() { _ = vs.Destroy() }) }()
	fv := vs.CreateFamilyVersion(family, version.FamilyID(1))
	c.Op(fmt.Sprintf("vsnew %d", nl), "ok")
	c.Branch(fmt.Sprintf("versionset-levels-%d", nl))
	cur := make([][]*built, nl) // specification: the tables of every level of the current version
	type logEnt struct {
		add   bool
		level int
		t     *built
	}
	commit := func(ents []logEnt) bool {
		el := version.NewEditLog(version.FamilyID(1))
		var ws []string
		for _, en := range ents {
			if en.add {
				el.Add(version.CreateNewFile(int32(en.level), version.NewFileMeta(table.FileNumber(en.t.fno), en.t.min, en.t.max, en.t.size)))
				ws = append(ws, fmt.Sprintf("a:%d:%d:%d:%d", en.level, en.t.fno, en.t.min, en.t.max))
				var keep []*built
				for _, x := range cur[en.level] {
					if x.fno != en.t.fno {
						keep = append(keep, x)
					}
				}
				cur[en.level] = append(keep, en.t)
			} else {
				el.Add(version.NewDeleteFile(int32(en.level), table.FileNumber(en.t.fno)))
				ws = append(ws, fmt.Sprintf("d:%d:%d", en.level, en.t.fno))
				var keep []*built
				for _, x := range cur[en.level] {
					if x.fno != en.t.fno {
						keep = append(keep, x)
					}
				}
				cur[en.level] = keep
			}
		}
		var err error
		p, msg := guard(func() { err = vs.CommitFamilyEditLog(family, el) })
		switch {
		case p:
			c.Op("vlog "+strings.Join(ws, ","), "panic")
			c.Fail("panic", "CommitFamilyEditLog panicked: "+msg)
			return false
		case err != nil:
			c.Op("vlog "+strings.Join(ws, ","), "err")
			c.Fail("harness-version-set", err.Error())
			return false
		}
		c.Op("vlog "+strings.Join(ws, ","), "ok")
		return true
	}
	type snapRec struct {
		id   int
		snap version.Snapshot
		lv   [][]*built
	}
	var snaps []*snapRec
	take := func() *snapRec {
		s := &snapRec{id: len(snaps) + 1, snap: fv.GetSnapshot(), lv: make([][]*built, nl)}
		for l := range cur {
			s.lv[l] = append([]*built(nil), cur[l]...)
		}
		snaps = append(snaps, s)
		c.Op(fmt.Sprintf("snap %d", s.id), "ok")
		return s
	}
	defer func() {
		for _, s := range snaps {
			_, _ = guard(func() { s.snap.Close() })
		}
	}()
	var keys []uint32
	for j := 0; j < 5; j++ {
		t := ts[r.Intn(len(ts))]
		keys = append(keys, t.entries[r.Intn(len(t.entries))].k)
	}
	keys = append(keys, r.Uint32())
	look := func(s *snapRec, old bool) {
		c.Op(fmt.Sprintf("vuse %d", s.id), "ok")
		var all []*built
		for _, l := range s.lv {
			all = append(all, l...)
		}
		e.lookupAll(s.snap, all, s.lv, keys, old)
	}
	// the tables enter the version: level 0 mostly, some directly in an upper level
	for _, t := range ts {
		l := 0
		if r.Intn(4) == 0 {
			l = r.Intn(nl)
		}
		if !commit([]logEnt{{true, l, t}}) {
			return
		}
	}
	s1 := take()
	look(s1, false)
	// compaction-shaped log: the files of one level are replaced by their merge one level up
	var src int
	for src = 0; src < nl-1 && len(cur[src]) == 0; src++ {
	}
	if src < nl-1 && len(cur[src]) > 0 {
		inputs := append([]*built(nil), cur[src]...)
		if len(inputs) > 2 && r.Intn(2) == 0 {
			inputs = inputs[:2]
		}
		seen := map[uint32]bool{}
		var union []kv
		for _, t := range inputs {
			for _, en := range t.entries {
				if !seen[en.k] {
					seen[en.k] = true
					union = append(union, en)
				}
			}
		}
		sort.Slice(union, func(i, j int) bool { return union[i].k < union[j].k })
		var items []item
		for _, en := range union {
			items = append(items, item{k: en.k, chunks: []val{litVal(en.v)}})
		}
		out := e.buildTable(40+len(snaps), items)
		if out == nil || !out.closed {
			return
		}
		var ents []logEnt
		for _, t := range inputs {
			ents = append(ents, logEnt{false, src, t})
		}
		ents = append(ents, logEnt{true, src + 1, out})
		if !commit(ents) {
			return
		}
		c.Branch("compaction-shaped-log")
		s2 := take()
		look(s1, true) // the OLD snapshot still has the compaction inputs
		look(s2, false)
	}
	// move log: one file goes one level up, delete first
	for l := 0; l < nl-1; l++ {
		if len(cur[l]) > 0 {
			t := cur[l][r.Intn(len(cur[l]))]
			if !commit([]logEnt{{false, l, t}, {true, l + 1, t}}) {
				return
			}
			c.Branch("move-log")
			s3 := take()
			for _, s := range snaps[:len(snaps)-1] {
				look(s, true)
			}
			look(s3, false)
			break
		}
	}
	c.NonTrivial()
}

// failWriter fails (atomically: nothing is written) the failAt-th Write it sees.
type failWriter struct {
	bufioutil.BufioWriter
	n, failAt int
}

func (w *failWriter) Write(p []byte) (int, error) {
	w.n++
	if w.n == w.failAt {
		return 0, errors.New("verif: injected write failure")
	}
	return w.BufioWriter.Write(p)
}

// caseIOFail: the builder's writer fails on an Add or on one of the three writes of Close. The
// C15 statement says nothing about I/O errors; checked: the failing call reports the error, the
// builder's count/min/max do not move, and model and code agree on what the left-over file is.
func (e *env) caseIOFail() {
	c, r := e.c, e.r
	c.Branch("io-failure")
	n := 2 + r.Intn(6)
	failAt := 1 + r.Intn(n+3) // 1..n: that Add; n+1..n+3: a write of Close
	var fw *failWriter
	restore := table.VerifC01SetNewWriter(func(fileName string) (bufioutil.BufioWriter, error) {
		w, err := bufioutil.NewBufioStreamWriter(fileName)
		if err != nil {
			return nil, err
		}
		fw = &failWriter{BufioWriter: w, failAt: failAt}
		return fw, nil
	})
	b, err := table.NewStoreBuilder(table.FileNumber(1), e.path(1))
	restore()
	if err != nil || fw == nil {
		c.Fail("harness-new-builder", fmt.Sprint(err))
		return
	}
	c.Op("new", "ok")
	key := uint32(r.Intn(1000))
	for i := 1; i <= n; i++ {
		key += 1 + uint32(r.Intn(70000))
		v := mkVal(r, r.Intn(40))
		before := status(b)
		var aerr error
		p, _ := guard(func() { aerr = b.Add(key, v.b) })
		if p {
			c.Op(fmt.Sprintf("add %d %s", key, v.spec), "panic")
			c.Fail("panic", "Add panicked on a failing writer")
			return
		}
		if i == failAt {
			c.Branch("io-failure-add")
			out := "ok-unexpected"
			if aerr != nil {
				out = "err"
			}
			c.Op(fmt.Sprintf("addfail %d %s", key, v.spec), out)
			if aerr == nil {
				c.Fail("write-error-swallowed", fmt.Sprintf("Add(%d) returned nil although the writer failed", key))
			}
			if status(b) != before {
				c.Fail("failed-add-registers-key", fmt.Sprintf("a failed Add(%d) changed the builder: %s -> %s", key, before, status(b)))
			}
			_ = b.Abandon()
			return
		}
		c.Op(fmt.Sprintf("add %d %s", key, v.spec), status(b))
	}
	which := failAt - n - 1
	c.Branch(fmt.Sprintf("io-failure-close-write-%d", which))
	var cerr error
	p, _ := guard(func() { cerr = b.Close() })
	op := fmt.Sprintf("closefail 1 %d", which)
	switch {
	case p:
		c.Op(op, "panic")
		c.Fail("panic", "Close panicked on a failing writer")
		return
	case cerr == nil:
		c.Op(op, "ok-unexpected")
		c.Fail("write-error-swallowed", "Close returned nil although one of its writes failed")
		return
	}
	c.Op(op, "err")
	c.NonTrivial()
	// what is on disk now is not a table (no oracle: bytes could parse by accident; model and code must agree)
	e.openTable(&built{fno: 1})
}

// caseMalformed: use of the builder outside the stream-writer protocol (abandoned Prepare,
// Write/Commit with no stream open, Add in the middle of a stream). Correspondence only: the
// C15 statement says nothing here, the model has to agree with the code.
func (e *env) caseMalformed() {
	c, r := e.c, e.r
	c.Branch("malformed-protocol")
	fno := 1
	b, err := table.NewStoreBuilder(table.FileNumber(fno), e.path(fno))
	if err != nil {
		c.Fail("harness-new-builder", err.Error())
		return
	}
	c.Op("new", "ok")
	sw := b.StreamWriter()
	c.Op("sw", "ok")
	key := uint32(r.Intn(20))
	dead := false
	// a scripted opening (codes as in the switch below), then a random walk
	var script []int
	switch r.Intn(6) {
	case 0: // abandoned stream write, then an Add: orphan bytes
		script = []int{0, 2, 3, 0}
	case 1: // Add between Write and Commit: Commit panics in FixedOffsetEncoder.Add
		script = []int{2, 3, 0, 5}
	case 2: // Commit twice, Write with no stream open
		script = []int{2, 3, 5, 5, 3, 0}
	case 3: // Add between Prepare and Commit without bytes in between
		script = []int{2, 0, 5}
	}
	for n := len(script) + 3 + r.Intn(12); n > 0 && !dead; n-- {
		if r.Intn(3) > 0 {
			key += uint32(r.Intn(4))
		} else if key > 0 {
			key -= uint32(r.Intn(int(minU32(key, 3)) + 1))
		}
		v := mkVal(r, r.Intn(6))
		code := r.Intn(6)
		if len(script) > 0 {
			code = script[0]
			script = script[1:]
			key += 1 + uint32(r.Intn(3))
			v = mkVal(r, 1+r.Intn(5))
		}
		var op, out string
		p, _ := guard(func() {
			switch code {
			case 0:
				op = fmt.Sprintf("add %d %s", key, v.spec)
				_ = b.Add(key, v.b)
				out = status(b)
			case 1:
				op = "sw"
				sw = b.StreamWriter()
				out = "ok"
			case 2:
				op = fmt.Sprintf("prep %d", key)
				sw.Prepare(key)
				out = "ok"
			case 3, 4:
				op = "write " + v.spec
				nw, _ := sw.Write(v.b)
				out = fmt.Sprintf("n=%d sws=%d", nw, sw.Size())
			default:
				op = "commit"
				_ = sw.Commit()
				out = status(b)
			}
		})
		if p {
			out = "panic"
			dead = true
			c.Branch("malformed-panic")
		}
		c.Op(op, out)
	}
	if dead {
		_ = b.Abandon()
		return
	}
	res := &built{fno: fno}
	// Close; whatever it answers is compared with the model, no expectation of our own
	var cerr error
	p, _ := guard(func() { cerr = b.Close() })
	op := fmt.Sprintf("close %d", fno)
	if p {
		c.Op(op, "panic")
		return
	}
	if errors.Is(cerr, table.ErrEmptyKeys) {
		c.Op(op, "err empty-keys")
		return
	}
	if cerr != nil {
		c.Op(op, "err other")
		return
	}
	data, _ := os.ReadFile(e.path(fno))
	if len(data) < 17 {
		c.Op(op, "err unreadable")
		return
	}
	foot := data[len(data)-17:]
	p1 := int(binary.LittleEndian.Uint32(foot[0:4]))
	p2 := int(binary.LittleEndian.Uint32(foot[4:8]))
	off := []byte{}
	if p1 <= p2 && p2 <= len(data) {
		off = data[p1:p2]
	}
	c.Op(op, fmt.Sprintf("ok p1=%d p2=%d off=%s footer=%s", p1, p2, showVal(off), showVal(foot)))
	res.closed = false // no oracle on opening
	rd := e.openTable(res)
	if rd == nil {
		return
	}
	c.NonTrivial()
	for k := uint32(0); k < key+3 && k < 40; k++ {
		e.get(rd, fno, k)
	}
	got, pp := drain(rd.Iterator(), 1000)
	if pp {
		c.Op(fmt.Sprintf("iter %d", fno), "panic")
		return
	}
	c.Op(fmt.Sprintf("iter %d", fno), showSeq(got))
}

// ---------------------------------------------------------------- Run

func (a area) Run(c *core.Ctx) error {
	wbuf := writeBufferSize()
	for i := 0; i < c.N; i++ {
		if !c.Want(i) {
			continue
		}
		c.Begin(i)
		dir, err := os.MkdirTemp("", "lvh-c15-*")
		if err != nil {
			return err
		}
		if err := os.MkdirAll(filepath.Join(dir, family), 0o755); err != nil {
			return err
		}
		e := &env{c: c, r: c.Rng(i), dir: dir, cache: table.NewCache(dir, time.Hour), quick: c.Tier != "thorough", wbuf: wbuf}
		p, msg := guard(func() {
			switch {
			case !e.quick && i == 0:
				e.caseBig(true)
			case !e.quick && i%40 == 7:
				e.caseBig(false)
			case i == 1 || (!e.quick && i%100 == 51):
				e.caseWriteBuffer()
			default:
				switch x := e.r.Intn(100); {
				case x < 50:
					c.Branch("kind-table")
					e.caseTable()
				case x < 72:
					c.Branch("kind-merge")
					e.caseMerge()
				case x < 84:
					c.Branch("kind-version")
					e.caseVersion()
				case x < 92:
					c.Branch("kind-versionset")
					e.caseVersionSet()
				case x < 96:
					c.Branch("kind-malformed")
					e.caseMalformed()
				case x < 98:
					c.Branch("kind-io-failure")
					e.caseIOFail()
				default:
					c.Branch("kind-write-buffer")
					e.caseWriteBuffer()
				}
			}
		})
		if p {
			c.Fail("panic", "case panicked outside a guarded call: "+msg)
		}
		_, _ = guard(func() { _ = e.cache.Close() })
		_ = os.RemoveAll(dir)
	}
	return nil
}
