// Package c07 drives the pieces of ONE lindb storage node that take part in crash recovery
// (property C07): the real tsdb engine / database / shard / data family with the real metadata
// and index databases, the real write-ahead log (pkg/queue fan-out queue + consumer group) and the
// real replica.partition with its local replicator, all in a temp dir. A crash is a copy of the
// node directory (the process dies, the OS does not: every completed store into the shared mmap
// pages and every completed file-system operation survives); recovery opens a fresh engine and a
// fresh partition on the copy.
package c07

import (
	"context"
	"encoding/binary"
	"errors"
	"fmt"
	"io"
	"os"
	"path/filepath"
	"strconv"
	"strings"
	"sync"
	"syscall"
	"time"

	"github.com/lindb/common/pkg/ltoml"
	commontimeutil "github.com/lindb/common/pkg/timeutil"
	protoMetricsV1 "github.com/lindb/common/proto/gen/v1/linmetrics"
	"github.com/lindb/roaring"

	"github.com/lindb/lindb/config"
	"github.com/lindb/lindb/coordinator/storage"
	"github.com/lindb/lindb/flow"
	"github.com/lindb/lindb/internal/verifhook"
	"github.com/lindb/lindb/kv/table"
	"github.com/lindb/lindb/kv/version"
	"github.com/lindb/lindb/models"
	"github.com/lindb/lindb/pkg/bufioutil"
	"github.com/lindb/lindb/pkg/compress"
	"github.com/lindb/lindb/pkg/encoding"
	"github.com/lindb/lindb/pkg/option"
	"github.com/lindb/lindb/pkg/queue"
	"github.com/lindb/lindb/pkg/timeutil"
	"github.com/lindb/lindb/replica"
	"github.com/lindb/lindb/rpc"
	"github.com/lindb/lindb/series/field"
	"github.com/lindb/lindb/series/metric"
	"github.com/lindb/lindb/sql/stmt"
	"github.com/lindb/lindb/tsdb"
)

const (
	dbName    = "db"
	nsName    = "ns"
	fieldName = "f"
	tagKey    = "host"
	leader    = models.NodeID(1)
	leader32  = int32(1)
	shardID   = models.ShardID(0)
	interval  = 10 * 1000 // ms
)

// entry is one WAL entry of the harness: one row (metric name m<M>, tag host=h<T>, sum field f=1)
// at the time slot that equals the entry's sequence, so every entry is individually visible in a
// leaf-level read and a replayed duplicate shows up as the value 2.
type entry struct {
	Seq    int64 // sequence in ITS leader's log
	Metric int
	Tagv   int
	Bad    bool          // the payload is not a snappy block: Replica cannot decompress it
	Empty  int           // (with Bad) the payload DOES decompress but yields no rows: 1 = empty block, 2 = a block on which UnmarshalRows panics
	Leader models.NodeID // the leader whose log partition holds the entry (0 = the node itself)
	Slot   int64         // index among all entries of the case = the time slot of its row
}

// ldr is the leader of the entry's log (entries built without one belong to the node's own log).
func (e entry) ldr() models.NodeID {
	if e.Leader == 0 {
		return leader
	}
	return e.Leader
}

func metricName(m int) string { return "m" + strconv.Itoa(m) }
func tagValue(t int) string   { return "h" + strconv.Itoa(t) }

// ids are the dictionary ids observed for an entry's names while the node was alive (used for the
// raw, name-independent read of the data files after a crash).
type ids struct {
	metricID metric.ID
	seriesID uint32
	ok       bool
}

type node struct {
	root    string
	famTime int64

	eng   tsdb.Engine
	db    tsdb.Database
	shard tsdb.Shard
	fam   tsdb.DataFamily

	// write-ahead log: lindb's manager / database log / partition / local replicator.
	// part, fq, cg are nil when the log directory does not exist (removed by the WAL garbage collector).
	mgr     replica.WriteAheadLogManager
	part    replica.Partition
	fq      queue.FanOutQueue
	cg      queue.ConsumerGroup
	cancel  context.CancelFunc
	hooks   *famHooks
	walLost bool // the partition was destroyed while this process was running
	expired bool // the family's write window is over (WAL garbage collection applies)

	// midFlush is called from the family's first ack callback: after the data commit (table +
	// sequences in the manifest), before the replicator's callback acknowledges the WAL.
	midFlush func()
	// postAck is called from a callback registered AFTER the replicator's: right after the WAL
	// acknowledgement of a flush.
	postAck func()
	closed  bool

	// the fields part / fq / cg / imageAck / imageConsumed / walLost above are those of the CURRENT
	// lane (leader); use() switches. lanes keeps every leader's partition of the family on this node.
	cur       models.NodeID
	leaders   []models.NodeID
	lanes     map[models.NodeID]*laneState
	cachedSeq map[models.NodeID]positions // family sequences when the family mutex is not available (inside Close)
	noFamLock bool

	// consumer group positions as found in the directory (before NewLocalReplicator acknowledges
	// the persisted sequence and rewinds)
	imageAck, imageConsumed int64
}

// laneState is one leader's log partition of the family on this node.
type laneState struct {
	part                    replica.Partition
	fq                      queue.FanOutQueue
	cg                      queue.ConsumerGroup
	imageAck, imageConsumed int64
	walLost                 bool
}

// use makes leader l's partition the current one.
func (n *node) use(l models.NodeID) {
	if n.cur == l {
		return
	}
	n.save()
	ln := n.lanes[l]
	n.cur = l
	n.part, n.fq, n.cg, n.imageAck, n.imageConsumed, n.walLost = ln.part, ln.fq, ln.cg, ln.imageAck, ln.imageConsumed, ln.walLost
}

func (n *node) save() {
	if ln, ok := n.lanes[n.cur]; ok {
		ln.part, ln.fq, ln.cg, ln.imageAck, ln.imageConsumed, ln.walLost = n.part, n.fq, n.cg, n.imageAck, n.imageConsumed, n.walLost
	}
}

// anyWalLost: some partition was destroyed while this process was running.
func (n *node) anyWalLost() bool {
	n.save()
	for _, ln := range n.lanes {
		if ln.walLost {
			return true
		}
	}
	return false
}

// famHooks are called from inside lindb's own localReplicator.Replica through the DataFamily the
// partition was given (a wrapper that only forwards): the places between its steps.
type famHooks struct {
	afterValidate func(seq int64, ok bool)
	beforeWrite   func()
	afterWrite    func()
	beforeCommit  func()
	afterCommit   func()
	inGap         func() // verifhook "tsdb.dataFamily.writeRows.afterGetMemDB": memdb looked up, writer not registered
}

type hookFamily struct {
	tsdb.DataFamily
	h *famHooks
}

func (f *hookFamily) ValidateSequence(l int32, s int64) bool {
	ok := f.DataFamily.ValidateSequence(l, s)
	if f.h.afterValidate != nil {
		f.h.afterValidate(s, ok)
	}
	return ok
}

func (f *hookFamily) WriteRows(rows []*metric.StorageRow) error {
	if f.h.beforeWrite != nil {
		f.h.beforeWrite()
	}
	err := f.DataFamily.WriteRows(rows)
	if f.h.afterWrite != nil {
		f.h.afterWrite()
	}
	return err
}

func (f *hookFamily) CommitSequence(l int32, s int64) {
	if f.h.beforeCommit != nil {
		f.h.beforeCommit()
	}
	f.DataFamily.CommitSequence(l, s)
	if f.h.afterCommit != nil {
		f.h.afterCommit()
	}
}

// currentHooks is the hook set of the node being opened / running (one node at a time).
var currentHooks *famHooks

var installOnce sync.Once

// installGlobals: partitions do not start their background replica loop (the harness runs the
// loop body), get the forwarding family wrapper, and the verifhook scheduler dispatches to the
// current node.
func installGlobals() {
	installOnce.Do(func() {
		replica.VerifDisableReplicaLoop()
		prev := replica.NewPartitionFn
		replica.NewPartitionFn = func(ctx context.Context, shard tsdb.Shard, family tsdb.DataFamily, id models.NodeID,
			log queue.FanOutQueue, cliFct rpc.ClientStreamFactory, stateMgr storage.StateManager) replica.Partition {
			if currentHooks != nil {
				family = &hookFamily{DataFamily: family, h: currentHooks}
			}
			return prev(ctx, shard, family, id, log, cliFct, stateMgr)
		}
		verifhook.Set(func(id string) {
			if id == "tsdb.dataFamily.writeRows.afterGetMemDB" {
				if h := currentHooks; h != nil && h.inGap != nil {
					h.inGap()
				}
			}
		})
		table.VerifC01SetNewWriter(func(fileName string) (bufioutil.BufioWriter, error) {
			if f := tableHook; f != nil {
				f(fileName)
			}
			if f := tableFail; f != nil {
				if err := f(fileName); err != nil {
					return nil, err
				}
			}
			return bufioutil.NewBufioStreamWriter(fileName)
		})
		// manifest writer seam (kv/version): every record of every store's manifest is written into a
		// bufio buffer and reaches the file in Sync; manifestHook is told right before and right after
		version.VerifC01SetIO(func(fileName string) (bufioutil.BufioWriter, error) {
			w, err := bufioutil.NewBufioEntryWriter(fileName)
			if err != nil {
				return nil, err
			}
			return &manifestWriter{BufioWriter: w, name: fileName}, nil
		}, nil, nil)
	})
}

// manifestWriter reports the manifest record syncs of the kv stores (one per committed edit log).
type manifestWriter struct {
	bufioutil.BufioWriter
	name string
}

func (w *manifestWriter) Sync() error {
	if f := manifestHook; f != nil {
		f(w.name, false)
	}
	err := w.BufioWriter.Sync()
	if f := manifestHook; f != nil && err == nil {
		f(w.name, true)
	}
	return err
}

// manifestHook is called before (after = false) and after (after = true) every manifest record sync.
var manifestHook func(fileName string, after bool)

// tableHook is called before every table (sst) file creation of any kv store.
var tableHook func(fileName string)

// tableFail may make the creation of a table file fail (a file-system error inside a kv flush).
var tableFail func(fileName string) error

func setConfig(root string) {
	cfg := config.NewDefaultStorageBase()
	cfg.TSDB.Dir = filepath.Join(root, "data")
	cfg.WAL.Dir = filepath.Join(root, "wal")
	// the background checkers must never flush on their own: every flush step is an explicit op
	cfg.TSDB.MutableMemDBTTL = ltoml.Duration(240 * time.Hour)
	cfg.TSDB.MaxMemDBSize = ltoml.Size(1 << 40)
	cfg.TSDB.MaxMemUsageBeforeFlush = 2.0
	cfg.TSDB.FlushConcurrency = 1
	cfg.WAL.RemoveTaskInterval = ltoml.Duration(240 * time.Hour)
	config.SetGlobalStorageConfig(cfg)
}

func walDir(root string, famTime int64, l models.NodeID) string {
	// same layout as replica.writeAheadLog: <wal>/<db>/<shard>/<family time>/<leader>
	return filepath.Join(root, "wal", dbName, strconv.Itoa(int(shardID)),
		commontimeutil.FormatTimestamp(famTime, commontimeutil.DataTimeFormat4), strconv.Itoa(int(l)))
}

// openNode opens (fresh dir) or recovers (crash image) the node in root.
func openNode(root string, famTime int64, expired bool, leaders ...models.NodeID) (n *node, err error) {
	installGlobals()
	setConfig(root)
	if len(leaders) == 0 {
		leaders = []models.NodeID{leader}
	}
	n = &node{root: root, famTime: famTime, hooks: &famHooks{}, expired: expired, leaders: leaders,
		lanes: map[models.NodeID]*laneState{}, cachedSeq: map[models.NodeID]positions{}}
	currentHooks = n.hooks
	defer func() {
		if r := recover(); r != nil {
			err = fmt.Errorf("panic while opening node: %v", r)
		}
	}()
	if n.eng, err = tsdb.NewEngine(); err != nil {
		return nil, err
	}
	db, ok := n.eng.GetDatabase(dbName)
	if !ok {
		// writes up to 1h ahead and 1d behind are accepted: a family whose hour ended more than
		// ahead+15min ago is "expired" for the WAL garbage collector
		opt := &option.DatabaseOption{Ahead: "1h", Behind: "1d", Intervals: option.Intervals{{
			Interval: timeutil.Interval(interval), Retention: timeutil.Interval(30 * 24 * 3600 * 1000)}}}
		if err = n.eng.CreateShards(dbName, opt, shardID); err != nil {
			return nil, err
		}
		db, _ = n.eng.GetDatabase(dbName)
	}
	n.db = db
	if n.shard, ok = db.GetShard(shardID); !ok {
		return nil, errors.New("shard missing after open")
	}
	if n.fam, err = n.shard.GetOrCrateDataFamily(famTime); err != nil {
		return nil, err
	}
	// our callbacks are registered BEFORE the replicators', so at every flush the first of them runs
	// between the data commit and the first WAL acknowledgement.
	for _, l := range leaders {
		n.fam.AckSequence(int32(l), func(int64) {
			if n.midFlush != nil {
				n.midFlush()
			}
		})
	}
	ctx, cancel := context.WithCancel(context.Background())
	n.cancel = cancel
	n.mgr = replica.NewWriteAheadLogManager(ctx, config.GlobalStorageConfig().WAL, leader, n.eng, nil, quietStateMgr{})
	for _, l := range leaders {
		ln := &laneState{}
		ln.imageAck, ln.imageConsumed = readGroupMeta(walDir(root, famTime, l))
		n.lanes[l] = ln
	}
	if _, e := os.Stat(filepath.Join(root, "wal")); e == nil {
		// storage runtime start: recover the local write-ahead logs (real directory walk,
		// GetOrCreatePartition + partition.recovery per leader directory)
		if err = n.mgr.Recovery(); err != nil {
			return nil, err
		}
	}
	log := n.mgr.GetOrCreateLog(dbName)
	for _, l := range leaders {
		ln := n.lanes[l]
		_, statErr := os.Stat(filepath.Join(walDir(root, famTime, l), "cg"))
		existed := statErr == nil
		if p, ok := replica.VerifHasPartition(log, shardID, famTime, l); ok {
			ln.part = p
		} else if !existed && !n.walWasRemoved(l) {
			// first write / first replication stream of that leader for this family
			if ln.part, err = log.GetOrCreatePartition(shardID, famTime, l); err != nil {
				return nil, err
			}
			if l == leader {
				err = ln.part.BuildReplicaForLeader(leader, []models.NodeID{leader})
			} else {
				err = ln.part.BuildReplicaForFollower(l, leader)
			}
			if err != nil {
				return nil, err
			}
			if err = os.WriteFile(filepath.Join(root, "wal-created-"+strconv.Itoa(int(l))), []byte("1"), 0o644); err != nil {
				return nil, err
			}
		}
		if ln.part != nil {
			fq, ok := replica.VerifPartitionLog(ln.part)
			if !ok {
				return nil, errors.New("partition without log")
			}
			ln.fq = fq
			if ln.cg, err = ln.fq.GetOrCreateConsumerGroup(strconv.Itoa(int(leader))); err != nil {
				return nil, err
			}
		}
		n.fam.AckSequence(int32(l), func(int64) {
			if n.postAck != nil {
				n.postAck()
			}
		})
	}
	n.cur = 0
	n.use(leaders[0])
	return n, nil
}

// quietStateMgr: the storage state manager handed to the WAL manager. The only method lindb calls on it
// in these cases is WatchNodeStateChangeEvent (NewRemoteReplicator, when a log has a follower's consumer
// group); no follower ever comes online here, so the handler is dropped. Every other method would panic
// on the nil embedded interface (and be reported as a harness panic).
type quietStateMgr struct{ storage.StateManager }

func (quietStateMgr) WatchNodeStateChangeEvent(models.NodeID, func(models.NodeStateType)) {}

// walWasRemoved: the node once had a log for the family (marker file) and its directory is gone.
func (n *node) walWasRemoved(l models.NodeID) bool {
	_, e := os.Stat(filepath.Join(n.root, "wal-created-"+strconv.Itoa(int(l))))
	return e == nil
}

// readGroupMeta reads the local replicator's consumer group positions straight from its meta page
// in the directory (consumed at offset 0, acknowledged at offset 8, little endian).
func readGroupMeta(dir string) (ack, consumed int64) {
	b, err := os.ReadFile(filepath.Join(dir, "cg", strconv.Itoa(int(leader)), "0.bat"))
	if err != nil || len(b) < 16 {
		return -1, -1
	}
	return int64(binary.LittleEndian.Uint64(b[8:16])), int64(binary.LittleEndian.Uint64(b[0:8]))
}

// close shuts the node down (used on the abandoned original after a crash image was taken and at
// the end of a case). Everything it writes goes to paths resolved when the stores were opened.
func (n *node) close() {
	if n == nil || n.closed {
		return
	}
	n.closed = true
	n.midFlush, n.postAck = nil, nil
	done := make(chan struct{})
	go func() {
		defer close(done)
		defer func() { _ = recover() }()
		// the engine first: closing a family flushes it and runs the ack callbacks, which store into
		// the consumer group's mmap page; the log must still be mapped then.
		if n.mgr != nil {
			n.mgr.Stop()
		}
		// Without its log partition the node is not closed but abandoned: closing the engine would
		// flush the family, and the replicator's ack callback of a partition that was destroyed
		// stores into an unmapped page (a fatal fault, not a panic). Nothing is lost by leaking it:
		// the directory is a scratch copy.
		if n.eng != nil && !n.anyWalLost() {
			n.eng.Close()
		}
		if n.mgr != nil {
			_ = n.mgr.Close()
		}
		if n.cancel != nil {
			n.cancel()
		}
	}()
	select {
	case <-done:
	case <-time.After(20 * time.Second):
	}
}

// shutdownEngine = the first two steps of lindb's databaseLifecycle.Shutdown: stop the log replicators,
// close the engine (every database flushes and closes).
func (n *node) shutdownEngine() error {
	if n.mgr != nil {
		n.mgr.Stop()
	}
	n.eng.Close()
	return nil
}

// finishShutdown = its last step (close the write-ahead logs); the node is gone afterwards.
func (n *node) finishShutdown() {
	n.closed = true
	n.midFlush, n.postAck = nil, nil
	done := make(chan struct{})
	go func() {
		defer close(done)
		defer func() { _ = recover() }()
		if n.mgr != nil {
			_ = n.mgr.Close()
		}
		if n.cancel != nil {
			n.cancel()
		}
	}()
	select {
	case <-done:
	case <-time.After(20 * time.Second):
	}
}

// ---------------------------------------------------------------- positions

type positions struct {
	walGone                 bool
	appended, consumed, ack int64
	seq, stored             int64
	hasSeq, hasStored       bool
}

func optStr(v int64, ok bool) string {
	if !ok {
		return "-"
	}
	return strconv.FormatInt(v, 10)
}

func (p positions) String() string {
	if p.walGone {
		return fmt.Sprintf("wal=gone q=%s s=%s", optStr(p.seq, p.hasSeq), optStr(p.stored, p.hasStored))
	}
	return fmt.Sprintf("a=%d c=%d k=%d q=%s s=%s", p.appended, p.consumed, p.ack, optStr(p.seq, p.hasSeq), optStr(p.stored, p.hasStored))
}

// storedSeq reads the sequence recorded in the family's CURRENT (recovered / committed) version.
func (n *node) storedSeq() (int64, bool) {
	snap := n.fam.Family().GetSnapshot()
	defer snap.Close()
	v, ok := snap.GetCurrent().GetSequences()[int32(n.cur)]
	return v, ok
}

// pos = the positions of the current lane.
func (n *node) pos() positions {
	p := positions{walGone: n.part == nil, appended: -1, consumed: -1, ack: -1}
	if n.part != nil {
		p.appended, p.consumed, p.ack = n.fq.Queue().AppendedSeq(), n.cg.ConsumedSeq(), n.cg.AcknowledgedSeq()
	}
	if n.noFamLock {
		// inside dataFamily.Close the family mutex is held: the replica sequences cannot move, use the last ones
		c := n.cachedSeq[n.cur]
		p.seq, p.hasSeq = c.seq, c.hasSeq
	} else {
		st := n.fam.GetState()
		p.seq, p.hasSeq = st.ReplicaSequences[int32(n.cur)]
		n.cachedSeq[n.cur] = p
	}
	p.stored, p.hasStored = n.storedSeq()
	return p
}

// posOf = the positions of leader l's lane.
func (n *node) posOf(l models.NodeID) positions {
	old := n.cur
	n.use(l)
	p := n.pos()
	n.use(old)
	return p
}

// posAll renders the positions of all lanes: a single lane as is, several as L<leader>{...}.
func (n *node) posAll() string {
	if len(n.leaders) == 1 {
		return n.pos().String()
	}
	var parts []string
	for _, l := range n.leaders {
		parts = append(parts, fmt.Sprintf("L%d{%s}", l, n.posOf(l)))
	}
	return strings.Join(parts, " ")
}

// ---------------------------------------------------------------- writes

func (e entry) message(famTime int64) ([]byte, error) {
	if e.Empty == 1 {
		// a snappy stream that consists of the stream identifier chunk only: decompresses to zero bytes
		// (a zero-length message is never logged: partition.WriteLog drops it)
		return []byte("\xff\x06\x00\x00sNaPpY"), nil
	}
	if e.Empty != 0 {
		w := compress.NewSnappyWriter()
		if e.Empty == 2 {
			// size prefix far beyond the block: UnmarshalRows slices out of range and panics
			if _, err := w.Write([]byte{0xff, 0xff, 0x00, 0x00, 0x01, 0x02}); err != nil {
				return nil, err
			}
		}
		if err := w.Close(); err != nil {
			return nil, err
		}
		return append([]byte(nil), w.Bytes()...), nil
	}
	if e.Bad {
		return []byte("\x01\x02 this is not a snappy stream \xfe\xff"), nil
	}
	cv := metric.NewProtoConverter(models.NewDefaultLimits())
	blk, err := cv.MarshalProtoMetricV1(&protoMetricsV1.Metric{
		Namespace: nsName, Name: metricName(e.Metric), Timestamp: famTime + e.Slot*interval,
		Tags:         []*protoMetricsV1.KeyValue{{Key: tagKey, Value: tagValue(e.Tagv)}},
		SimpleFields: []*protoMetricsV1.SimpleField{{Name: fieldName, Type: protoMetricsV1.SimpleFieldType_DELTA_SUM, Value: 1}},
	})
	if err != nil {
		return nil, err
	}
	w := compress.NewSnappyWriter()
	if _, err = w.Write(blk); err != nil {
		return nil, err
	}
	if err = w.Close(); err != nil {
		return nil, err
	}
	return append([]byte(nil), w.Bytes()...), nil
}

// appendEntry = partition.WriteLog (queue.Put).
func (n *node) appendEntry(e entry) error {
	if n.part == nil {
		return errors.New("no log partition")
	}
	msg, err := e.message(n.famTime)
	if err != nil {
		return err
	}
	if n.cur == leader {
		return n.part.WriteLog(msg) // the leader's own write path
	}
	// a follower receives the leader's entries through ReplicaLog(index, msg)
	idx := n.part.ReplicaAckIndex() + 1
	got, err := n.part.ReplicaLog(idx, msg)
	if err == nil && got != idx {
		err = fmt.Errorf("ReplicaLog(%d) answered %d", idx, got)
	}
	return err
}

// preregister creates the metric / field / tag-key ids of e from THIS goroutine before the row is
// written. lindb's write path asks for the same ids from two worker goroutines at once (metadata
// worker and shard index worker); their unsynchronised double assignment is C09's subject and
// would make C07's observations schedule dependent. The ids land in the same in-memory
// dictionaries at the same place of the event order as they would from the workers.
func (n *node) preregister(e entry) error {
	mid, err := n.db.MetaDB().GenMetricID([]byte(nsName), []byte(metricName(e.Metric)))
	if err != nil {
		return err
	}
	if _, err = n.db.MetaDB().GenFieldID(mid, field.Meta{Name: fieldName, Type: field.SumField}); err != nil {
		return err
	}
	_, err = n.db.MetaDB().GenTagKeyID(mid, []byte(tagKey))
	return err
}

func (n *node) pending() bool {
	return n.part != nil && n.cg.ConsumedSeq() < n.fq.Queue().AppendedSeq()
}

// walGC runs one tick of the write-ahead-log garbage-collect task (writeAheadLog.destroy ->
// partition.IsExpire -> stop / close / remove the directory of an expired, fully acknowledged log).
func (n *node) walGC() error {
	if !replica.VerifGarbageCollect(n.mgr) {
		return errors.New("not lindb's WAL manager")
	}
	old := n.cur
	for _, l := range n.leaders {
		n.use(l)
		if n.part != nil {
			if _, ok := replica.VerifHasPartition(n.mgr.GetOrCreateLog(dbName), shardID, n.famTime, l); !ok {
				n.part, n.fq, n.cg = nil, nil, nil
				n.walLost = true
			}
		}
	}
	n.use(old)
	return nil
}

// applyNext runs one iteration of the partition's replica loop body (Consume, GetMessage,
// localReplicator.Replica = validate -> write rows -> commit sequence) on the real partition.
func (n *node) applyNext(e entry) error {
	if !n.pending() {
		return errors.New("nothing pending")
	}
	if !e.Bad {
		if err := n.preregister(e); err != nil {
			return err
		}
	}
	if !replica.VerifReplicaOnce(n.part, leader) {
		return errors.New("no local replicator")
	}
	return nil
}

// failingGet forwards every method to lindb's own replicator (IgnoreMessage, Consume, Replica ...
// are the real ones) except GetMessage, which reports the entry seq as unreadable.
type failingGet struct {
	replica.Replicator
	seq int64
	hit *bool
}

func (f failingGet) GetMessage(idx int64) ([]byte, error) {
	if idx == f.seq {
		*f.hit = true
		return nil, queue.ErrMsgNotFound
	}
	return f.Replicator.GetMessage(idx)
}

// applyGetFail runs one iteration of the partition's replica loop body in which GetMessage fails for
// the next entry e: partition.replica's error branch (replicator.IgnoreMessage(seq), no Replica).
func (n *node) applyGetFail(e entry) error {
	if !n.pending() {
		return errors.New("nothing pending")
	}
	hit := false
	var old replica.Replicator
	if !replica.VerifWrapReplicator(n.part, leader, func(r replica.Replicator) replica.Replicator {
		old = r
		return failingGet{Replicator: r, seq: e.Seq, hit: &hit}
	}) {
		return errors.New("no local replicator")
	}
	defer replica.VerifWrapReplicator(n.part, leader, func(replica.Replicator) replica.Replicator { return old })
	if !replica.VerifReplicaOnce(n.part, leader) {
		return errors.New("no local replicator")
	}
	if !hit {
		return fmt.Errorf("the replica loop did not ask for entry %d", e.Seq)
	}
	return nil
}

// ---------------------------------------------------------------- flush steps (the public steps doFlush calls)

func (n *node) flushMeta() error {
	if err := n.db.FlushMeta(); err != nil {
		return err
	}
	n.db.WaitFlushMetaCompleted()
	return nil
}

func (n *node) flushIndex() error {
	if err := n.shard.FlushIndex(); err != nil {
		return err
	}
	n.shard.WaitFlushIndexCompleted()
	return nil
}

func (n *node) flushFamily() error { return n.fam.Flush() }

// doFlush runs the flush checker's own doFlush for the family (the real order of the round).
func (n *node) doFlush() error {
	tsdb.VerifDoFlush(n.db, n.shard, []tsdb.DataFamily{n.fam})
	return nil
}

// ---------------------------------------------------------------- lookups

// liveIDs resolves the ids of e's names on the running node (memory + disk dictionaries).
func (n *node) liveIDs(e entry) []ids {
	sids, mid, err := n.resolve(e)
	if err != nil {
		return nil
	}
	var out []ids
	for _, sid := range sids {
		out = append(out, ids{metricID: mid, seriesID: sid, ok: true})
	}
	return out
}

// resolve is the leaf-level name resolution a query performs: namespace+metric name -> metric id,
// schema -> tag key id and field, tag value -> tag value id, inverted index -> series id.
func (n *node) resolve(e entry) (seriesIDs []uint32, mid metric.ID, err error) {
	mid, err = n.db.MetaDB().GetMetricID(nsName, metricName(e.Metric))
	if err != nil {
		return nil, 0, fmt.Errorf("metric: %w", err)
	}
	schema, err := n.db.MetaDB().GetSchema(mid)
	if err != nil {
		return nil, mid, fmt.Errorf("schema: %w", err)
	}
	if schema == nil {
		return nil, mid, errors.New("schema: not found")
	}
	if _, ok := schema.Fields.Find(field.Name(fieldName)); !ok {
		return nil, mid, errors.New("schema: field not found")
	}
	tk, ok := schema.TagKeys.Find(tagKey)
	if !ok {
		return nil, mid, errors.New("schema: tag key not found")
	}
	tvs, err := n.db.MetaDB().FindTagValueDsByExpr(tk.ID, &stmt.EqualsExpr{Key: tagKey, Value: tagValue(e.Tagv)})
	if err != nil {
		return nil, mid, fmt.Errorf("tag value: %w", err)
	}
	if tvs == nil || tvs.IsEmpty() {
		return nil, mid, errors.New("tag value: not found")
	}
	sids, err := n.shard.IndexDB().GetSeriesIDsByTagValueIDs(tk.ID, tvs)
	if err != nil {
		return nil, mid, fmt.Errorf("series: %w", err)
	}
	if sids == nil || sids.IsEmpty() {
		return nil, mid, errors.New("series: not found")
	}
	// several ids are possible after a crash inside an index flush (a posting of the lost
	// incarnation of the series next to the replayed one); a query unions them
	return sids.ToArray(), mid, nil
}

// maxSeries bounds the series ids a case can create (ids are small consecutive numbers per metric).
const maxSeries = 64

// readMetric reads, through the family's own Filter/Load path (memory databases + data files), the
// values of field f of every series of metric mid: series id -> slot -> summed value.
// The series filter is the whole id range on purpose: dataFamily.Filter gives up with
// ErrSeriesIDNotFound (and never looks at the data files) when the current memory database holds
// the metric but none of the requested series.
func (n *node) readMetric(mid metric.ID) map[uint32]map[int]float64 {
	out := map[uint32]map[int]float64{}
	q := &stmt.Query{Namespace: nsName, MetricName: "?", StorageInterval: timeutil.Interval(interval),
		Interval: timeutil.Interval(interval), IntervalRatio: 1,
		TimeRange: timeutil.TimeRange{Start: n.famTime, End: n.famTime + 3600*1000 - 1}}
	sctx := &flow.StorageExecuteContext{Query: q, MetricID: mid,
		Fields: field.Metas{{ID: 0, Type: field.SumField, Name: fieldName}}}
	shctx := flow.NewShardExecuteContext(sctx)
	all := roaring.New()
	all.AddRange(0, maxSeries)
	shctx.SeriesIDsAfterFiltering = all
	rss, err := n.fam.Filter(shctx)
	if err != nil {
		return out // the "not found" kinds: no data
	}
	for _, rs := range rss {
		func() {
			defer rs.Close()
			hks := all.GetHighKeys()
			for i := range hks {
				lctx := &flow.DataLoadContext{ShardExecuteCtx: shctx, LowSeriesIDsContainer: all.GetContainerAtIndex(i),
					SeriesIDHighKey: hks[i]}
				lctx.Grouping()
				loader := rs.Load(lctx)
				if loader == nil {
					continue
				}
				lctx.Decoder = encoding.GetTSDDecoder()
				lctx.DownSampling = func(sr timeutil.SlotRange, seriesIdx uint16, _ int, getter encoding.TSDValueGetter) {
					sid := uint32(hks[i])<<16 | uint32(lctx.LowSeriesIDs[seriesIdx])
					for s := int(sr.Start); s <= int(sr.End); s++ {
						if v, ok := getter.GetValue(uint16(s)); ok {
							if out[sid] == nil {
								out[sid] = map[int]float64{}
							}
							out[sid][s] += v
						}
					}
				}
				loader.Load(lctx)
				encoding.ReleaseTSDDecoder(lctx.Decoder)
			}
		}()
	}
	return out
}

// ---------------------------------------------------------------- crash image

const (
	seekData = 3
	seekHole = 4
)

// copyTree copies the node directory keeping files sparse (WAL pages and memdb buffers are
// 128 MB sparse mmap files). The shard's temp write buffers are volatile state by definition
// (cleaned on start) and are skipped.
func copyTree(src, dst string) error {
	return filepath.Walk(src, func(p string, info os.FileInfo, err error) error {
		if err != nil {
			return err
		}
		rel, _ := filepath.Rel(src, p)
		target := filepath.Join(dst, rel)
		if info.IsDir() {
			if info.Name() == "buffer" && filepath.Base(filepath.Dir(filepath.Dir(p))) == "shard" {
				return filepath.SkipDir
			}
			return os.MkdirAll(target, 0o755)
		}
		if !info.Mode().IsRegular() {
			return nil
		}
		return copySparse(p, target, info.Size())
	})
}

func copySparse(src, dst string, size int64) error {
	in, err := os.Open(src)
	if err != nil {
		return err
	}
	defer in.Close()
	out, err := os.OpenFile(dst, os.O_CREATE|os.O_WRONLY|os.O_TRUNC, 0o644)
	if err != nil {
		return err
	}
	defer out.Close()
	if err = out.Truncate(size); err != nil {
		return err
	}
	fd := int(in.Fd())
	off := int64(0)
	buf := make([]byte, 1<<16)
	for off < size {
		ds, err := syscall.Seek(fd, off, seekData)
		if err != nil {
			if errors.Is(err, syscall.ENXIO) {
				return nil // only a hole remains
			}
			// no SEEK_DATA support: plain copy
			ds = off
			if _, err = in.Seek(off, io.SeekStart); err != nil {
				return err
			}
			_, err = io.Copy(io.NewOffsetWriter(out, off), in)
			return err
		}
		he, err := syscall.Seek(fd, ds, seekHole)
		if err != nil {
			he = size
		}
		for pos := ds; pos < he; {
			nr := int64(len(buf))
			if he-pos < nr {
				nr = he - pos
			}
			k, rerr := in.ReadAt(buf[:nr], pos)
			if k > 0 {
				if _, werr := out.WriteAt(buf[:k], pos); werr != nil {
					return werr
				}
				pos += int64(k)
			}
			if rerr != nil {
				if rerr == io.EOF {
					break
				}
				return rerr
			}
		}
		off = he
	}
	return nil
}
