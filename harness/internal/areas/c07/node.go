// Package c07 drives the pieces of ONE lindb storage node that take part in crash recovery
// (property C07): the real tsdb engine / database / shard / data family with the real metadata
// and index databases, the real write-ahead log (pkg/queue fan-out queue + consumer group) and the
// real replica.partition with its local replicator, all in a temp dir. A crash is a copy of the
// node directory (the process dies, the OS does not: every completed store into the shared mmap
// pages and every completed file-system operation survives); recovery opens a fresh engine and a
// fresh partition on the copy.
package c07

import (
	"context"
	"errors"
	"fmt"
	"io"
	"os"
	"path/filepath"
	"strconv"
	"syscall"
	"time"

	"github.com/lindb/common/pkg/ltoml"
	commontimeutil "github.com/lindb/common/pkg/timeutil"
	protoMetricsV1 "github.com/lindb/common/proto/gen/v1/linmetrics"
	"github.com/lindb/roaring"

	"github.com/lindb/lindb/config"
	"github.com/lindb/lindb/flow"
	"github.com/lindb/lindb/models"
	"github.com/lindb/lindb/pkg/compress"
	"github.com/lindb/lindb/pkg/encoding"
	"github.com/lindb/lindb/pkg/option"
	"github.com/lindb/lindb/pkg/queue"
	"github.com/lindb/lindb/pkg/timeutil"
	"github.com/lindb/lindb/replica"
	"github.com/lindb/lindb/series/field"
	"github.com/lindb/lindb/series/metric"
	"github.com/lindb/lindb/sql/stmt"
	"github.com/lindb/lindb/tsdb"
)

const (
	dbName    = "db"
	nsName    = "ns"
	fieldName = "f"
	tagKey    = "host"
	leader    = models.NodeID(1)
	leader32  = int32(1)
	shardID   = models.ShardID(0)
	interval  = 10 * 1000 // ms
)

// entry is one WAL entry of the harness: one row (metric name m<M>, tag host=h<T>, sum field f=1)
// at the time slot that equals the entry's sequence, so every entry is individually visible in a
// leaf-level read and a replayed duplicate shows up as the value 2.
type entry struct {
	Seq    int64
	Metric int
	Tagv   int
}

func metricName(m int) string { return "m" + strconv.Itoa(m) }
func tagValue(t int) string   { return "h" + strconv.Itoa(t) }

// ids are the dictionary ids observed for an entry's names while the node was alive (used for the
// raw, name-independent read of the data files after a crash).
type ids struct {
	metricID metric.ID
	seriesID uint32
	ok       bool
}

type node struct {
	root    string
	famTime int64

	eng   tsdb.Engine
	db    tsdb.Database
	shard tsdb.Shard
	fam   tsdb.DataFamily

	fq     queue.FanOutQueue
	part   replica.Partition
	cg     queue.ConsumerGroup
	cancel context.CancelFunc

	// midFlush is called from the family's first ack callback: after the data commit (table +
	// sequences in the manifest), before the replicator's callback acknowledges the WAL.
	midFlush func()
	// postAck is called from a callback registered AFTER the replicator's: right after the WAL
	// acknowledgement of a flush.
	postAck func()
	closed  bool

	// consumer group positions as found in the directory (before NewLocalReplicator acknowledges
	// the persisted sequence and rewinds)
	imageAck, imageConsumed int64
}

func setConfig(root string) {
	cfg := config.NewDefaultStorageBase()
	cfg.TSDB.Dir = filepath.Join(root, "data")
	cfg.WAL.Dir = filepath.Join(root, "wal")
	// the background checkers must never flush on their own: every flush step is an explicit op
	cfg.TSDB.MutableMemDBTTL = ltoml.Duration(240 * time.Hour)
	cfg.TSDB.MaxMemDBSize = ltoml.Size(1 << 40)
	cfg.TSDB.MaxMemUsageBeforeFlush = 2.0
	cfg.TSDB.FlushConcurrency = 1
	cfg.WAL.RemoveTaskInterval = ltoml.Duration(240 * time.Hour)
	config.SetGlobalStorageConfig(cfg)
}

func walDir(root string, famTime int64) string {
	// same layout as replica.writeAheadLog: <wal>/<db>/<shard>/<family time>/<leader>
	return filepath.Join(root, "wal", dbName, strconv.Itoa(int(shardID)),
		commontimeutil.FormatTimestamp(famTime, commontimeutil.DataTimeFormat4), strconv.Itoa(int(leader)))
}

// openNode opens (fresh dir) or recovers (crash image) the node in root.
func openNode(root string, famTime int64) (n *node, err error) {
	setConfig(root)
	n = &node{root: root, famTime: famTime}
	defer func() {
		if r := recover(); r != nil {
			err = fmt.Errorf("panic while opening node: %v", r)
		}
	}()
	if n.eng, err = tsdb.NewEngine(); err != nil {
		return nil, err
	}
	db, ok := n.eng.GetDatabase(dbName)
	if !ok {
		opt := &option.DatabaseOption{Intervals: option.Intervals{{
			Interval: timeutil.Interval(interval), Retention: timeutil.Interval(30 * 24 * 3600 * 1000)}}}
		if err = n.eng.CreateShards(dbName, opt, shardID); err != nil {
			return nil, err
		}
		db, _ = n.eng.GetDatabase(dbName)
	}
	n.db = db
	if n.shard, ok = db.GetShard(shardID); !ok {
		return nil, errors.New("shard missing after open")
	}
	if n.fam, err = n.shard.GetOrCrateDataFamily(famTime); err != nil {
		return nil, err
	}
	// our callback is registered BEFORE the replicator's, so at every flush it runs between the
	// data commit and the WAL acknowledgement.
	n.fam.AckSequence(leader32, func(int64) {
		if n.midFlush != nil {
			n.midFlush()
		}
	})
	dir := walDir(root, famTime)
	_, statErr := os.Stat(filepath.Join(dir, "cg"))
	existed := statErr == nil
	if n.fq, err = queue.NewFanOutQueue(dir, 128*1024*1024); err != nil {
		return nil, err
	}
	n.imageAck, n.imageConsumed = -1, -1
	if existed && len(n.fq.ConsumerGroupNames()) > 0 {
		g, gerr := n.fq.GetOrCreateConsumerGroup(strconv.Itoa(int(leader)))
		if gerr != nil {
			return nil, gerr
		}
		n.imageAck, n.imageConsumed = g.AcknowledgedSeq(), g.ConsumedSeq()
	}
	ctx, cancel := context.WithCancel(context.Background())
	n.cancel = cancel
	n.part = replica.NewPartition(ctx, n.shard, n.fam, leader, n.fq, nil, nil)
	if existed && len(n.fq.ConsumerGroupNames()) > 0 {
		// writeAheadLog.recovery: GetOrCreatePartition + partition.recovery(leader)
		err = replica.VerifPartitionRecovery(n.part, leader)
	} else {
		// first write connection of the leader: local replicator for the node itself
		err = n.part.BuildReplicaForLeader(leader, []models.NodeID{leader})
	}
	if err != nil {
		return nil, err
	}
	if n.cg, err = n.fq.GetOrCreateConsumerGroup(strconv.Itoa(int(leader))); err != nil {
		return nil, err
	}
	n.fam.AckSequence(leader32, func(int64) {
		if n.postAck != nil {
			n.postAck()
		}
	})
	return n, nil
}

// close shuts the node down (used on the abandoned original after a crash image was taken and at
// the end of a case). Everything it writes goes to paths resolved when the stores were opened.
func (n *node) close() {
	if n == nil || n.closed {
		return
	}
	n.closed = true
	n.midFlush, n.postAck = nil, nil
	done := make(chan struct{})
	go func() {
		defer close(done)
		defer func() { _ = recover() }()
		// the engine first: closing a family flushes it and runs the ack callbacks, which store into
		// the consumer group's mmap page; the log must still be mapped then.
		if n.part != nil {
			n.part.Stop()
		}
		if n.eng != nil {
			n.eng.Close()
		}
		if n.part != nil {
			_ = n.part.Close()
		} else if n.fq != nil {
			n.fq.Close()
		}
		if n.cancel != nil {
			n.cancel()
		}
	}()
	select {
	case <-done:
	case <-time.After(20 * time.Second):
	}
}

// ---------------------------------------------------------------- positions

type positions struct {
	appended, consumed, ack int64
	seq, stored             int64
	hasSeq, hasStored       bool
}

func optStr(v int64, ok bool) string {
	if !ok {
		return "-"
	}
	return strconv.FormatInt(v, 10)
}

func (p positions) String() string {
	return fmt.Sprintf("a=%d c=%d k=%d q=%s s=%s", p.appended, p.consumed, p.ack, optStr(p.seq, p.hasSeq), optStr(p.stored, p.hasStored))
}

// storedSeq reads the sequence recorded in the family's CURRENT (recovered / committed) version.
func (n *node) storedSeq() (int64, bool) {
	snap := n.fam.Family().GetSnapshot()
	defer snap.Close()
	v, ok := snap.GetCurrent().GetSequences()[leader32]
	return v, ok
}

func (n *node) pos() positions {
	p := positions{appended: n.fq.Queue().AppendedSeq(), consumed: n.cg.ConsumedSeq(), ack: n.cg.AcknowledgedSeq()}
	st := n.fam.GetState()
	p.seq, p.hasSeq = st.ReplicaSequences[leader32]
	p.stored, p.hasStored = n.storedSeq()
	return p
}

// ---------------------------------------------------------------- writes

func (e entry) message(famTime int64) ([]byte, error) {
	cv := metric.NewProtoConverter(models.NewDefaultLimits())
	blk, err := cv.MarshalProtoMetricV1(&protoMetricsV1.Metric{
		Namespace: nsName, Name: metricName(e.Metric), Timestamp: famTime + e.Seq*interval,
		Tags:         []*protoMetricsV1.KeyValue{{Key: tagKey, Value: tagValue(e.Tagv)}},
		SimpleFields: []*protoMetricsV1.SimpleField{{Name: fieldName, Type: protoMetricsV1.SimpleFieldType_DELTA_SUM, Value: 1}},
	})
	if err != nil {
		return nil, err
	}
	w := compress.NewSnappyWriter()
	if _, err = w.Write(blk); err != nil {
		return nil, err
	}
	if err = w.Close(); err != nil {
		return nil, err
	}
	return append([]byte(nil), w.Bytes()...), nil
}

// appendEntry = partition.WriteLog (queue.Put).
func (n *node) appendEntry(e entry) error {
	msg, err := e.message(n.famTime)
	if err != nil {
		return err
	}
	return n.part.WriteLog(msg)
}

// preregister creates the metric / field / tag-key ids of e from THIS goroutine before the row is
// written. lindb's write path asks for the same ids from two worker goroutines at once (metadata
// worker and shard index worker); their unsynchronised double assignment is C09's subject and
// would make C07's observations schedule dependent. The ids land in the same in-memory
// dictionaries at the same place of the event order as they would from the workers.
func (n *node) preregister(e entry) error {
	mid, err := n.db.MetaDB().GenMetricID([]byte(nsName), []byte(metricName(e.Metric)))
	if err != nil {
		return err
	}
	if _, err = n.db.MetaDB().GenFieldID(mid, field.Meta{Name: fieldName, Type: field.SumField}); err != nil {
		return err
	}
	_, err = n.db.MetaDB().GenTagKeyID(mid, []byte(tagKey))
	return err
}

func (n *node) pending() bool { return n.cg.ConsumedSeq() < n.fq.Queue().AppendedSeq() }

// applyNext runs one iteration of the partition's replica loop body (Consume, GetMessage,
// localReplicator.Replica = validate -> write rows -> commit sequence) on the real partition.
func (n *node) applyNext(e entry) error {
	if !n.pending() {
		return errors.New("nothing pending")
	}
	if err := n.preregister(e); err != nil {
		return err
	}
	if !replica.VerifReplicaOnce(n.part, leader) {
		return errors.New("no local replicator")
	}
	return nil
}

// split apply (flush racing replication): the harness performs Replica's three calls itself so that
// flush steps can be placed between them. Consume/GetMessage are the replicator's.
type splitApply struct {
	seq   int64
	valid bool
	rows  *metric.StorageBatchRows
}

func (n *node) applyBegin(e entry) (*splitApply, error) {
	if !n.pending() {
		return nil, errors.New("nothing pending")
	}
	r, ok := replica.VerifReplicator(n.part, leader)
	if !ok {
		return nil, errors.New("no local replicator")
	}
	seq := r.Consume()
	if seq < 0 {
		return nil, errors.New("consume returned no message")
	}
	msg, err := r.GetMessage(seq)
	if err != nil {
		return nil, err
	}
	sa := &splitApply{seq: seq, valid: n.fam.ValidateSequence(leader32, seq)}
	if !sa.valid {
		return sa, nil
	}
	block, err := compress.NewSnappyReader().Uncompress(msg)
	if err != nil {
		return nil, err
	}
	sa.rows = metric.NewStorageBatchRows()
	sa.rows.UnmarshalRows(append([]byte(nil), block...))
	return sa, nil
}

func (n *node) applyWrite(e entry, sa *splitApply) error {
	if err := n.preregister(e); err != nil {
		return err
	}
	return n.fam.WriteRows(sa.rows.Rows())
}

func (n *node) applyCommit(sa *splitApply) { n.fam.CommitSequence(leader32, sa.seq) }

// ---------------------------------------------------------------- flush steps (the public steps doFlush calls)

func (n *node) flushMeta() error {
	if err := n.db.FlushMeta(); err != nil {
		return err
	}
	n.db.WaitFlushMetaCompleted()
	return nil
}

func (n *node) flushIndex() error {
	if err := n.shard.FlushIndex(); err != nil {
		return err
	}
	n.shard.WaitFlushIndexCompleted()
	return nil
}

func (n *node) flushFamily() error { return n.fam.Flush() }

// doFlush runs the flush checker's own doFlush for the family (the real order of the round).
func (n *node) doFlush() error {
	tsdb.VerifDoFlush(n.db, n.shard, []tsdb.DataFamily{n.fam})
	return nil
}

// ---------------------------------------------------------------- lookups

// liveIDs resolves the ids of e's names on the running node (memory + disk dictionaries).
func (n *node) liveIDs(e entry) ids {
	sid, mid, err := n.resolve(e)
	if err != nil {
		return ids{}
	}
	return ids{metricID: mid, seriesID: sid, ok: true}
}

// resolve is the leaf-level name resolution a query performs: namespace+metric name -> metric id,
// schema -> tag key id and field, tag value -> tag value id, inverted index -> series id.
func (n *node) resolve(e entry) (seriesID uint32, mid metric.ID, err error) {
	mid, err = n.db.MetaDB().GetMetricID(nsName, metricName(e.Metric))
	if err != nil {
		return 0, 0, fmt.Errorf("metric: %w", err)
	}
	schema, err := n.db.MetaDB().GetSchema(mid)
	if err != nil {
		return 0, mid, fmt.Errorf("schema: %w", err)
	}
	if schema == nil {
		return 0, mid, errors.New("schema: not found")
	}
	if _, ok := schema.Fields.Find(field.Name(fieldName)); !ok {
		return 0, mid, errors.New("schema: field not found")
	}
	tk, ok := schema.TagKeys.Find(tagKey)
	if !ok {
		return 0, mid, errors.New("schema: tag key not found")
	}
	tvs, err := n.db.MetaDB().FindTagValueDsByExpr(tk.ID, &stmt.EqualsExpr{Key: tagKey, Value: tagValue(e.Tagv)})
	if err != nil {
		return 0, mid, fmt.Errorf("tag value: %w", err)
	}
	if tvs == nil || tvs.IsEmpty() {
		return 0, mid, errors.New("tag value: not found")
	}
	sids, err := n.shard.IndexDB().GetSeriesIDsByTagValueIDs(tk.ID, tvs)
	if err != nil {
		return 0, mid, fmt.Errorf("series: %w", err)
	}
	if sids == nil || sids.IsEmpty() {
		return 0, mid, errors.New("series: not found")
	}
	if sids.GetCardinality() != 1 {
		return 0, mid, fmt.Errorf("series: %d ids for one tag value", sids.GetCardinality())
	}
	return sids.Minimum(), mid, nil
}

// maxSeries bounds the series ids a case can create (ids are small consecutive numbers per metric).
const maxSeries = 64

// readMetric reads, through the family's own Filter/Load path (memory databases + data files), the
// values of field f of every series of metric mid: series id -> slot -> summed value.
// The series filter is the whole id range on purpose: dataFamily.Filter gives up with
// ErrSeriesIDNotFound (and never looks at the data files) when the current memory database holds
// the metric but none of the requested series.
func (n *node) readMetric(mid metric.ID) map[uint32]map[int]float64 {
	out := map[uint32]map[int]float64{}
	q := &stmt.Query{Namespace: nsName, MetricName: "?", StorageInterval: timeutil.Interval(interval),
		Interval: timeutil.Interval(interval), IntervalRatio: 1,
		TimeRange: timeutil.TimeRange{Start: n.famTime, End: n.famTime + 3600*1000 - 1}}
	sctx := &flow.StorageExecuteContext{Query: q, MetricID: mid,
		Fields: field.Metas{{ID: 0, Type: field.SumField, Name: fieldName}}}
	shctx := flow.NewShardExecuteContext(sctx)
	all := roaring.New()
	all.AddRange(0, maxSeries)
	shctx.SeriesIDsAfterFiltering = all
	rss, err := n.fam.Filter(shctx)
	if err != nil {
		return out // the "not found" kinds: no data
	}
	for _, rs := range rss {
		func() {
			defer rs.Close()
			hks := all.GetHighKeys()
			for i := range hks {
				lctx := &flow.DataLoadContext{ShardExecuteCtx: shctx, LowSeriesIDsContainer: all.GetContainerAtIndex(i),
					SeriesIDHighKey: hks[i]}
				lctx.Grouping()
				loader := rs.Load(lctx)
				if loader == nil {
					continue
				}
				lctx.Decoder = encoding.GetTSDDecoder()
				lctx.DownSampling = func(sr timeutil.SlotRange, seriesIdx uint16, _ int, getter encoding.TSDValueGetter) {
					sid := uint32(hks[i])<<16 | uint32(lctx.LowSeriesIDs[seriesIdx])
					for s := int(sr.Start); s <= int(sr.End); s++ {
						if v, ok := getter.GetValue(uint16(s)); ok {
							if out[sid] == nil {
								out[sid] = map[int]float64{}
							}
							out[sid][s] += v
						}
					}
				}
				loader.Load(lctx)
				encoding.ReleaseTSDDecoder(lctx.Decoder)
			}
		}()
	}
	return out
}

// ---------------------------------------------------------------- crash image

const (
	seekData = 3
	seekHole = 4
)

// copyTree copies the node directory keeping files sparse (WAL pages and memdb buffers are
// 128 MB sparse mmap files). The shard's temp write buffers are volatile state by definition
// (cleaned on start) and are skipped.
func copyTree(src, dst string) error {
	return filepath.Walk(src, func(p string, info os.FileInfo, err error) error {
		if err != nil {
			return err
		}
		rel, _ := filepath.Rel(src, p)
		target := filepath.Join(dst, rel)
		if info.IsDir() {
			if info.Name() == "buffer" && filepath.Base(filepath.Dir(filepath.Dir(p))) == "shard" {
				return filepath.SkipDir
			}
			return os.MkdirAll(target, 0o755)
		}
		if !info.Mode().IsRegular() {
			return nil
		}
		return copySparse(p, target, info.Size())
	})
}

func copySparse(src, dst string, size int64) error {
	in, err := os.Open(src)
	if err != nil {
		return err
	}
	defer in.Close()
	out, err := os.OpenFile(dst, os.O_CREATE|os.O_WRONLY|os.O_TRUNC, 0o644)
	if err != nil {
		return err
	}
	defer out.Close()
	if err = out.Truncate(size); err != nil {
		return err
	}
	fd := int(in.Fd())
	off := int64(0)
	buf := make([]byte, 1<<16)
	for off < size {
		ds, err := syscall.Seek(fd, off, seekData)
		if err != nil {
			if errors.Is(err, syscall.ENXIO) {
				return nil // only a hole remains
			}
			// no SEEK_DATA support: plain copy
			ds = off
			if _, err = in.Seek(off, io.SeekStart); err != nil {
				return err
			}
			_, err = io.Copy(io.NewOffsetWriter(out, off), in)
			return err
		}
		he, err := syscall.Seek(fd, ds, seekHole)
		if err != nil {
			he = size
		}
		for pos := ds; pos < he; {
			nr := int64(len(buf))
			if he-pos < nr {
				nr = he - pos
			}
			k, rerr := in.ReadAt(buf[:nr], pos)
			if k > 0 {
				if _, werr := out.WriteAt(buf[:k], pos); werr != nil {
					return werr
				}
				pos += int64(k)
			}
			if rerr != nil {
				if rerr == io.EOF {
					break
				}
				return rerr
			}
		}
		off = he
	}
	return nil
}
