package c07

import (
	"fmt"
	"os"
	"time"
)

func Probe() {
	root, _ := os.MkdirTemp("", "lvh-c07-*")
	defer os.RemoveAll(root)
	now := time.Now().UnixMilli()
	famTime := now - now%3600000
	t0 := time.Now()
	n, err := openNode(root, famTime)
	if err != nil {
		panic(err)
	}
	fmt.Println("open", time.Since(t0), n.pos())
	es := []entry{{0, 0, 0}, {1, 1, 0}, {2, 0, 1}}
	must := func(err error) {
		if err != nil {
			panic(err)
		}
	}
	must(n.appendEntry(es[0]))
	fmt.Println("append", n.pos())
	must(n.applyNext(es[0]))
	fmt.Println("apply", n.pos())
	must(n.flushMeta())
	must(n.appendEntry(es[1]))
	must(n.applyNext(es[1]))
	fmt.Println("apply1", n.pos())
	must(n.flushIndex())
	n.midFlush = func() { fmt.Println("mid", n.pos()) }
	must(n.flushFamily())
	fmt.Println("flushed", n.pos())
	must(n.appendEntry(es[2]))
	// split apply with flush racing
	sa, err := n.applyBegin(es[2])
	must(err)
	fmt.Println("begin", sa.valid, n.pos())
	must(n.applyWrite(es[2], sa))
	must(n.flushFamily())
	fmt.Println("flush-race", n.pos())
	n.applyCommit(sa)
	fmt.Println("commit", n.pos())
	live := map[int]ids{}
	for i, e := range es {
		live[i] = n.liveIDs(e)
		fmt.Println("live", i, live[i], n.readMetric(live[i].metricID))
	}
	img := root + "-img"
	t0 = time.Now()
	must(copyTree(root, img))
	fmt.Println("copy", time.Since(t0))
	defer os.RemoveAll(img)
	t0 = time.Now()
	n.close()
	fmt.Println("close", time.Since(t0))
	t0 = time.Now()
	n2, err := openNode(img, famTime)
	must(err)
	fmt.Println("reopen", time.Since(t0), n2.pos())
	for i, e := range es {
		sid, mid, err := n2.resolve(e)
		fmt.Println("resolve", i, sid, mid, err)
		fmt.Println("raw", i, n2.readMetric(live[i].metricID))
	}
	for n2.pending() {
		c := n2.cg.ConsumedSeq() + 1
		must(n2.applyNext(es[c]))
		fmt.Println("replay", c, n2.pos())
	}
	for i, e := range es {
		sid, mid, err := n2.resolve(e)
		fmt.Println("resolve", i, sid, mid, err)
		if err == nil {
			fmt.Println("  data", sid, n2.readMetric(mid))
		}
	}
	n2.close()
}
