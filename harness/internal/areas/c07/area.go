package c07

import (
	"fmt"
	"math/rand"
	"os"
	"path/filepath"
	"sort"
	"strconv"
	"strings"
	"time"

	"github.com/lindb/lindb/models"
	"github.com/lindb/lindb/series/metric"
	"github.com/lindb/lindb/tsdb"

	"github.com/lindb/lindb/zzverif/internal/core"
	"github.com/lindb/lindb/zzverif/internal/extract"
)

// Correspondence area "node": histories of append / apply / flush steps / crash image / recover on
// the real node pieces, mirrored op by op in the C07 line protocol (Driver/C07.lean), plus the
// impl-side oracle = C07's four clauses evaluated on every crash image.
type area struct{}

func init() { core.Register(area{}) }

func (area) Name() string { return "node" }

// stable failure keys
const (
	keyWindow      = "flushed-name-lost-created-between-meta-flush-and-freeze"
	keyWedge       = "flushed-name-lost-after-empty-prepare-wedged-dictionary"
	keyUnresolved  = "flushed-row-unresolved"
	keyIdxUnres    = "flushed-index-entry-unresolved"
	keyAckGtStored = "group-ack-gt-stored-sequence"
	// the LOG's own acknowledged sequence (fanOutQueue.Sync -> queue.SetAcknowledgedSeq: truncation barrier, start
	// position of reopened consumer groups) covers an entry with rows above the stored sequence
	keyQAckGtStored = "log-ack-gt-stored-sequence"
	keyReplayBelow = "applied-entry-le-stored-sequence"
	keyLost        = "entry-neither-flushed-nor-replayable"
	keyNotReplayed = "entry-missing-after-replay"
	keyGap         = "entry-lost-flush-between-memdb-lookup-and-writer-registration"
	keyNoName      = "entry-unresolvable-by-name-after-replay"
	// a flush round went on (data file, acknowledgement) after its index flush had failed
	keyAfterIdxErr = "data-flushed-after-failed-index-flush"
	// database.FlushMeta returned nil although one of its stores failed to flush
	keyMetaErrSwallowed = "data-flushed-after-failed-meta-flush"
)

// ---------------------------------------------------------------- shadow of the dictionaries

// sdict mirrors index.indexKVStore's mutable / immutable / persistent state for ONE kind of name.
// It is used (a) by the generator, to stay inside or deliberately leave the region in which the
// flush order keeps names durable, and (b) by the oracle, to name the shape of a lost name.
type sdict struct {
	mut, imm, dur map[string]bool
	immNil        bool
}

func newDict() *sdict {
	return &sdict{mut: map[string]bool{}, imm: map[string]bool{}, dur: map[string]bool{}, immNil: true}
}
func (d *sdict) known(x string) bool { return d.mut[x] || d.imm[x] || d.dur[x] }
func (d *sdict) create(x string) {
	if !d.known(x) {
		d.mut[x] = true
	}
}
func (d *sdict) prepare(swapOnEmpty bool) {
	if d.immNil || (swapOnEmpty && len(d.imm) == 0) {
		d.imm, d.mut, d.immNil = d.mut, map[string]bool{}, false
	}
}
func (d *sdict) flush() {
	if !d.immNil && len(d.imm) > 0 {
		for k := range d.imm {
			d.dur[k] = true
		}
		d.imm, d.immNil = map[string]bool{}, true
	}
}
func (d *sdict) crash() { d.mut, d.imm, d.immNil = map[string]bool{}, map[string]bool{}, true }

// wedged: an earlier prepare parked an EMPTY map in `immutable`; no later prepare swaps.
func (d *sdict) wedged(swapOnEmpty bool) bool { return !swapOnEmpty && !d.immNil && len(d.imm) == 0 }
func (d *sdict) pending() bool                { return len(d.mut) > 0 || len(d.imm) > 0 }

type shadow struct {
	metric, tagv, index *sdict
	swapOnEmpty         bool
	mem                 []int64           // entries whose rows are in the mutable memory database
	fate                map[int64]string  // entry -> why one of its names was not durable when its rows were frozen
	idxFate             map[string]string // pair -> why a metadata name was not durable when its index entry was flushed
}

// nameFate says why name x of dictionary d is not durable (""= it is durable).
func (s *shadow) nameFate(d *sdict, x string) string {
	if d.dur[x] {
		return ""
	}
	if d.mut[x] && d.wedged(s.swapOnEmpty) {
		return keyWedge
	}
	return keyWindow // created after the prepare of this round (or no prepare reached it)
}

// flushIndex mirrors shard.FlushIndex and classifies index entries flushed ahead of their names.
func (s *shadow) flushIndex() { s.indexStep(false) }

// indexStep(true) = the index flush failed right after PrepareFlush: the maps are swapped, nothing is durable.
func (s *shadow) indexStep(prepareOnly bool) {
	if s.index.immNil || (s.swapOnEmpty && len(s.index.imm) == 0) {
		for p := range s.index.mut {
			m := strings.SplitN(p, ".", 2)[0]
			why := s.nameFate(s.metric, m)
			if w := s.nameFate(s.tagv, p); why == "" || (w == keyWindow) {
				if w != "" {
					why = w
				}
			}
			if why != "" {
				s.idxFate[p] = why
			}
		}
	}
	s.index.prepare(s.swapOnEmpty)
	if !prepareOnly {
		s.index.flush()
	}
}

func pairKey(m, t int) string { return strconv.Itoa(m) + "." + strconv.Itoa(t) }

func (s *shadow) addNames(e entry) {
	s.metric.create(strconv.Itoa(e.Metric))
	if !s.index.known(pairKey(e.Metric, e.Tagv)) {
		s.index.create(pairKey(e.Metric, e.Tagv))
		s.tagv.create(pairKey(e.Metric, e.Tagv))
	}
}

// freeze classifies every row that is being frozen with a name that is not durable yet.
func (s *shadow) freeze(entries []entry) {
	for _, q := range s.mem {
		e := entries[q]
		why := ""
		check := func(d *sdict, x string) {
			switch w := s.nameFate(d, x); {
			case w == keyWindow:
				why = keyWindow
			case w == keyWedge && why == "":
				why = keyWedge
			}
		}
		check(s.metric, strconv.Itoa(e.Metric))
		check(s.tagv, pairKey(e.Metric, e.Tagv))
		check(s.index, pairKey(e.Metric, e.Tagv))
		if why != "" {
			s.fate[q] = why
		}
	}
	s.mem = nil
}

func (s *shadow) crash() {
	s.metric.crash()
	s.tagv.crash()
	s.index.crash()
	s.mem = nil
}

// ---------------------------------------------------------------- one case

type caseRun struct {
	c       *core.Ctx
	rng     *rand.Rand
	famTime int64
	n       *node
	roots   []string
	entries []entry
	ids     map[int64][]ids
	sh      *shadow
	idx     int  // case index
	peer    bool // the leader's log has a second consumer group (remote follower peerNode)
	tainted bool // a (known) loss of names happened: ids get reused from here on, stop the case
	broken  bool // harness-level problem: stop the case
	expired bool // the family's write window closed long ago: the WAL garbage collector may remove its log
	// terminal: the node was recovered from an image taken INSIDE a dictionary / table flush; the
	// name-level model no longer tracks the durable dictionaries, only replay + final checks follow
	terminal      bool
	lossFate      map[int64]string // entry -> stable key of a loss the harness provoked on purpose
	innerK        int              // table-file index for the next crash inside a flush call (-1: random)
	innerMan      bool             // ... the crash point is the innerK-th MANIFEST record sync of the call instead
	innerAfter    bool             // ... right after that sync (the record is durable) instead of right before it
	frozenPending bool             // a failed Flush left an immutable memory database behind
	leaders       []models.NodeID  // the leaders whose log partitions of the family this node holds
	cur           models.NodeID    // the lane the partition ops go to
}

// P = the positions of all lanes, as the model driver prints them.
func (r *caseRun) P() string { return r.n.posAll() }

func (r *caseRun) multi() bool { return len(r.leaders) > 1 }

// lop prefixes a partition op with its lane when the node holds several logs.
func (r *caseRun) lop(op string) string {
	if r.multi() {
		return fmt.Sprintf("@%d %s", r.cur, op)
	}
	return op
}

func (r *caseRun) use(l models.NodeID) {
	r.cur = l
	if r.n != nil {
		r.n.use(l)
	}
}

func (r *caseRun) failHarness(what string, err error) {
	r.broken = true
	r.c.Fail("harness-error", fmt.Sprintf("%s: %v", what, err))
}

func (r *caseRun) newRoot() (string, error) {
	d, err := os.MkdirTemp("", "lvh-c07-*")
	if err == nil {
		r.roots = append(r.roots, d)
	}
	return d, err
}

func (r *caseRun) cleanup() {
	if r.n != nil {
		r.n.close()
	}
	for _, d := range r.roots {
		os.RemoveAll(d)
	}
}

func (r *caseRun) start() bool {
	root, err := r.newRoot()
	if err != nil {
		r.failHarness("mkdir", err)
		return false
	}
	if len(r.leaders) == 0 {
		r.leaders = []models.NodeID{leader}
	}
	if r.n, err = openNode(root, r.famTime, r.expired, r.leaders...); err != nil {
		r.failHarness("open node", err)
		return false
	}
	r.use(r.leaders[0])
	if len(r.leaders) == 1 && r.leaders[0] == leader {
		r.c.Op("reset", r.P())
	} else {
		var ls []string
		for _, l := range r.leaders {
			ls = append(ls, strconv.Itoa(int(l)))
		}
		r.c.Op("lanes "+strings.Join(ls, " "), r.P())
	}
	return true
}

func (r *caseRun) guard(what string, f func() error) bool {
	var err error
	func() {
		defer func() {
			if p := recover(); p != nil {
				r.c.Fail("panic", fmt.Sprintf("%s panicked: %v", what, p))
				err = fmt.Errorf("panic")
				r.broken = true
			}
		}()
		err = f()
	}()
	if err != nil && !r.broken {
		r.failHarness(what, err)
	}
	return err == nil
}

// opAppendBad appends a log entry whose payload does not decompress.
func (r *caseRun) opAppendBad() {
	if r.n.part == nil {
		return
	}
	e := entry{Seq: r.laneLen(), Bad: true, Leader: r.cur, Slot: int64(len(r.entries))}
	if !r.guard("append", func() error { return r.n.appendEntry(e) }) {
		return
	}
	r.entries = append(r.entries, e)
	r.c.Op(r.lop("appendbad"), r.P())
	r.c.Branch("corrupt-entry")
}

// opGetFail = one replica loop iteration whose GetMessage fails for the next entry (an unreadable,
// i.e. corrupt, one): partition.replica calls replicator.IgnoreMessage(seq) and NOT Replica, so the
// family's sequence must stay and the group ack may move only if the entry is exactly ack+1.
func (r *caseRun) opGetFail() {
	e, ok := r.nextEntry()
	if !ok || !e.Bad {
		return
	}
	before := r.n.pos()
	if !r.guard("getfail", func() error { return r.n.applyGetFail(e) }) {
		return
	}
	after := r.n.pos()
	if after.hasSeq != before.hasSeq || after.seq != before.seq {
		r.c.Branch("getfail-family-sequence-moved")
	}
	if after.ack > before.ack {
		r.c.Branch("getfail-acknowledged")
	}
	r.c.Op(r.lop("getfail"), r.P())
	// the consumer group's meta page and the manifest are durable as they are: this instant is a crash
	// point. The acknowledged position must not cover an entry with rows above the stored sequence.
	for _, x := range r.entries {
		if x.ldr() == r.cur && !x.Bad && x.Seq <= after.ack && (!after.hasStored || x.Seq > after.stored) {
			r.c.Fail(keyAckGtStored, fmt.Sprintf("after GetMessage failed for entry %d (partition.replica -> IgnoreMessage): leader %d's consumer group ack %d covers entry %d, but the sequence stored with the data is %s",
				e.Seq, r.cur, after.ack, x.Seq, optStr(after.stored, after.hasStored)))
			break
		}
	}
	r.c.Branch("getmessage-fails-ignore-only")
}

// opAppendNoRows appends a log entry that decompresses but yields no rows (kind 1: an empty block,
// Replica returns at rowsLen == 0; kind 2: UnmarshalRows panics, partition.replica recovers). In both
// Replica's deferred function commits the sequence and does NOT call IgnoreMessage.
func (r *caseRun) opAppendNoRows(kind int) {
	if r.n.part == nil {
		return
	}
	e := entry{Seq: r.laneLen(), Bad: true, Empty: kind, Leader: r.cur, Slot: int64(len(r.entries))}
	if !r.guard("append", func() error { return r.n.appendEntry(e) }) {
		return
	}
	r.entries = append(r.entries, e)
	r.c.Op(r.lop("appendbad"), r.P())
	r.c.Branch([]string{"", "empty-block-entry", "unmarshal-panic-entry"}[kind])
}

func (r *caseRun) opAppend(m, t int) {
	if r.n.part == nil {
		return
	}
	e := entry{Seq: r.laneLen(), Metric: m, Tagv: t, Leader: r.cur, Slot: int64(len(r.entries))}
	if !r.guard("append", func() error { return r.n.appendEntry(e) }) {
		return
	}
	r.entries = append(r.entries, e)
	p := r.n.pos()
	if p.appended != e.Seq {
		r.failHarness("append", fmt.Errorf("queue assigned sequence %d, expected %d", p.appended, e.Seq))
		return
	}
	r.c.Op(r.lop(fmt.Sprintf("append %d %d", m, t)), r.P())
}

// laneLen = number of entries appended to the current lane's log so far.
func (r *caseRun) laneLen() int64 {
	k := int64(0)
	for _, e := range r.entries {
		if e.ldr() == r.cur {
			k++
		}
	}
	return k
}

// nextEntry = the entry the current lane's replicator will consume next.
func (r *caseRun) nextEntry() (entry, bool) {
	if !r.n.pending() {
		return entry{}, false
	}
	s := r.n.cg.ConsumedSeq() + 1
	for _, e := range r.entries {
		if e.ldr() == r.cur && e.Seq == s {
			return e, true
		}
	}
	return entry{}, false
}

// onWritten: bookkeeping right after WriteRows of entry e returned (its sequence is not committed yet).
// dropped: the harness knows the rows went into a memory database that had already been flushed and closed.
func (r *caseRun) onWritten(e entry, dropped bool) {
	r.sh.addNames(e)
	if !dropped {
		r.sh.mem = append(r.sh.mem, e.Slot)
	}
	live := r.n.liveIDs(e)
	if len(live) == 0 {
		// the write path itself just created / looked up these names: a lookup by name must find them
		_, _, err := r.n.resolve(e)
		r.c.Fail(keyNoName, fmt.Sprintf("entry %d (%s host=%s): right after its rows were written on this node a lookup by metric name and tag does not find its series: %v",
			e.Seq, metricName(e.Metric), tagValue(e.Tagv), err))
		r.tainted = true
		return
	}
	for _, id := range live {
		dup := false
		for _, x := range r.ids[e.Slot] {
			if x == id {
				dup = true
			}
		}
		if !dup {
			r.ids[e.Slot] = append(r.ids[e.Slot], id)
		}
	}
}

// places inside localReplicator.Replica where a whole family.Flush can be injected
const (
	injNone         = 0
	injBeforeWrite  = 1 // after ValidateSequence, before WriteRows looks the memory database up
	injGap          = 2 // inside WriteRows: memory database looked up, writer not yet registered
	injBeforeCommit = 3 // after WriteRows, before CommitSequence (observation b)
)

// flushObs is what one dataFamily.Flush let the harness observe.
type flushObs struct {
	before    string
	mid, post *string
	after     string
	acks      int // how many post-ack callbacks ran
}

// seqLanes = how many lanes have a replica sequence in the family (their ack callbacks run at a flush).
func (r *caseRun) seqLanes() int {
	k := 0
	for _, l := range r.leaders {
		if r.n.posOf(l).hasSeq {
			k++
		}
	}
	return k
}

// observeFlush runs call (family.Flush / doFlush / Close ...) and records the positions of all lanes
// before it, at the FIRST ack callback of each committed file (data committed, nothing acknowledged
// yet) and after the LAST one (all leaders acknowledged); atMid / atPost are called at those two
// points of the file-th committed file (0-based; Flush commits one, Close up to two).
func (r *caseRun) observeFlush(what string, call func() error, file int, atMid, atPost func()) (obs []flushObs, ok bool) {
	before := r.P()
	n := r.seqLanes()
	cur := flushObs{before: before}
	mids, posts := 0, 0
	r.n.midFlush = func() {
		mids++
		if mids%maxInt(n, 1) == 1 || n <= 1 {
			p := r.P()
			cur.mid = &p
			if len(obs) == file && atMid != nil {
				atMid()
			}
		}
	}
	r.n.postAck = func() {
		posts++
		cur.acks++
		if n <= 1 || posts%n == 0 {
			p := r.P()
			cur.post = &p
			if len(obs) == file && atPost != nil {
				atPost()
			}
			cur.after = p
			obs = append(obs, cur)
			cur = flushObs{before: p}
		}
	}
	ok = r.guard(what, call)
	r.n.midFlush, r.n.postAck = nil, nil
	after := r.P()
	if len(obs) == 0 {
		cur.after = after
		obs = append(obs, cur)
	} else {
		obs[len(obs)-1].after = after
	}
	return obs, ok
}

func maxInt(a, b int) int {
	if a > b {
		return a
	}
	return b
}

// runFlush calls family.Flush and records the positions at its steps (no ops are emitted).
func (r *caseRun) runFlush() (o flushObs, ok bool) {
	obs, ok := r.observeFlush("flush family", r.n.flushFamily, 0, nil, nil)
	return obs[0], ok
}

func (r *caseRun) emitFreeze(o flushObs) { r.c.Op("freeze", o.before) }
func (r *caseRun) emitCommitAck(o flushObs) {
	if o.mid == nil {
		r.c.Op("dcommit", o.after)
		r.c.Op("ack", o.after)
		return
	}
	r.c.Op("dcommit", *o.mid)
	if o.post != nil {
		r.c.Op("ack", *o.post)
	} else {
		r.c.Op("ack", o.after)
	}
}

// opApply = one iteration of the partition's replica loop on the real partition (Consume, GetMessage,
// localReplicator.Replica). With inj != injNone a whole family.Flush runs at the chosen place INSIDE
// Replica (the partition's DataFamily is a forwarding wrapper; the gap inside WriteRows is reached
// through the verifhook yield point) and the steps are reported one by one.
func (r *caseRun) opApply() { r.opApplyInj(injNone) }

func (r *caseRun) opApplyInj(inj int) {
	if r.frozenPending {
		inj = injNone // every Flush is a no-op until the family is closed
	}
	e, ok := r.nextEntry()
	if !ok {
		return
	}
	if e.Empty != 0 {
		inj = injNone // WriteRows is not reached: one op, the model event applyNoRows
	}
	before := r.n.pos()
	h := r.n.hooks
	valid := false
	fine := inj != injNone
	var gapPos string
	var gapObs flushObs
	gapDone := make(chan struct{})
	gapStarted, gapInside, gapHadRows := false, false, false
	h.afterValidate = func(_ int64, ok bool) {
		valid = ok
		if fine {
			r.c.Op(r.lop("begin"), r.P())
		}
	}
	h.beforeWrite = func() {
		if inj == injBeforeWrite {
			if o, ok := r.runFlush(); ok {
				r.sh.freeze(r.entries)
				r.emitFreeze(o)
				r.emitCommitAck(o)
				r.c.Branch("flush-between-validate-and-write")
			}
		}
	}
	h.inGap = func() {
		if !fine {
			return
		}
		gapPos = r.P()
		r.c.Op(r.lop("take"), gapPos)
		if inj != injGap {
			return
		}
		gapStarted = true
		gapHadRows = len(r.sh.mem) > 0
		go func() {
			defer close(gapDone)
			gapObs, _ = r.runFlush()
		}()
		select {
		case <-gapDone:
			// the whole flush ran although WriteRows already holds this memory database
			gapInside = true
			r.sh.freeze(r.entries)
			r.emitFreeze(gapObs)
			r.emitCommitAck(gapObs)
			r.c.Branch("flush-completed-inside-writeRows-gap")
		case <-time.After(400 * time.Millisecond):
			// the flush waits for this writer: it completes after WriteRows
			r.c.Branch("flush-waits-for-writer")
		}
	}
	h.afterWrite = func() {
		switch {
		case gapStarted && gapInside:
			// rows went into the flushed and closed memory database, unless the family had nothing to
			// flush (then Flush returned at once and the database is still the mutable one)
			dropped := gapHadRows
			r.onWritten(e, dropped)
			if dropped {
				r.lossFate[e.Slot] = keyGap
			}
			p := r.P()
			r.c.Op(r.lop("acquire"), p)
			r.c.Op(r.lop("write"), p)
		case gapStarted:
			r.onWritten(e, false)
			r.c.Op("freeze", gapPos)
			r.c.Op(r.lop("acquire"), gapPos)
			r.c.Op(r.lop("write"), gapPos)
		default:
			r.onWritten(e, false)
			if fine {
				p := r.P()
				r.c.Op(r.lop("acquire"), p)
				r.c.Op(r.lop("write"), p)
			}
		}
	}
	h.beforeCommit = func() {
		if gapStarted && !gapInside {
			<-gapDone // gapObs is written by the flush goroutine before gapDone is closed
			r.sh.freeze(r.entries)
			r.emitCommitAck(gapObs)
		}
		if inj == injBeforeCommit {
			if o, ok := r.runFlush(); ok {
				r.sh.freeze(r.entries)
				r.emitFreeze(o)
				r.emitCommitAck(o)
				r.c.Branch("flush-between-write-and-commit")
			}
		}
	}
	h.afterCommit = func() {
		if fine {
			r.c.Op(r.lop("commit"), r.P())
		}
	}
	ok = r.guard("apply", func() error { return r.n.applyNext(e) })
	*h = famHooks{}
	if !ok {
		return
	}
	if valid {
		if before.hasStored && e.Seq <= before.stored {
			r.c.Fail(keyReplayBelow, fmt.Sprintf("entry %d was applied although the stored sequence is %d", e.Seq, before.stored))
		}
		r.c.Branch("apply-accepted")
	} else {
		r.c.Branch("apply-rejected")
	}
	if !fine && e.Empty != 0 {
		r.c.Op(r.lop("norows"), r.P())
		r.c.Branch("replica-no-rows-commit-only")
		after := r.n.pos()
		if after.ack != before.ack {
			// the property does not forbid it (the entry has no rows), the model does not do it: shows as a disagreement
			r.c.Branch("norows-acknowledged")
		}
	} else if !fine {
		r.c.Op(r.lop("apply"), r.P())
	} else if !valid {
		// rejected: Replica returned right after ValidateSequence; the remaining steps are no-ops
		p := r.P()
		for _, op := range []string{"take", "acquire", "write", "commit"} {
			r.c.Op(r.lop(op), p)
		}
	}
}

func (r *caseRun) opFlushMeta() {
	if !r.guard("flush meta", r.n.flushMeta) {
		return
	}
	r.sh.metric.prepare(r.sh.swapOnEmpty)
	r.sh.tagv.prepare(r.sh.swapOnEmpty)
	r.sh.metric.flush()
	r.sh.tagv.flush()
	r.c.Op("fmeta", r.P())
}

func (r *caseRun) opFlushIndex() {
	if !r.guard("flush index", r.n.flushIndex) {
		return
	}
	r.sh.flushIndex()
	r.c.Op("findex", r.P())
}

// crash points inside dataFamily.Flush
const (
	noCrash  = 0
	crashMid = 1 // between the data commit and the WAL acknowledgement
	crashAck = 2 // right after the WAL acknowledgement
)

// opFlushData = dataFamily.Flush, observed at its three steps. With a crash point the node
// directory is imaged there and the case continues from that image. whole=true runs the flush
// checker's own doFlush instead (metadata flush, index flush, family flush in the code's order).
// flushWhilePending: a failed flush left an immutable memory database behind; until the family is
// closed every further Flush returns at once (and so does the data part of doFlush).
func (r *caseRun) flushWhilePending(whole bool) {
	before := r.P()
	call, what := r.n.flushFamily, "flush family"
	if whole {
		call, what = r.n.doFlush, "doFlush"
	}
	if !r.guard(what, call) {
		return
	}
	if whole {
		r.sh.metric.prepare(r.sh.swapOnEmpty)
		r.sh.tagv.prepare(r.sh.swapOnEmpty)
		r.sh.metric.flush()
		r.sh.tagv.flush()
		r.c.Op("fmeta", before)
		r.sh.flushIndex()
		r.c.Op("findex", before)
	}
	r.c.Op("freeze", r.P())
}

func (r *caseRun) opFlushData(crashAt int, whole bool) {
	if r.frozenPending {
		r.flushWhilePending(whole)
		return
	}
	before := r.P()
	img := ""
	var imgErr error
	image := func() {
		if img, imgErr = r.newRoot(); imgErr == nil {
			imgErr = copyTree(r.n.root, img)
		}
	}
	var atMid, atPost func()
	if crashAt == crashMid {
		atMid = image
	}
	if crashAt == crashAck {
		atPost = image
	}
	call, what := r.n.flushFamily, "flush family"
	if whole {
		call, what = r.n.doFlush, "doFlush"
	}
	obs, ok := r.observeFlush(what, call, 0, atMid, atPost)
	if !ok {
		return
	}
	if imgErr != nil {
		r.failHarness("crash image", imgErr)
		return
	}
	o := obs[0]
	if whole {
		r.sh.metric.prepare(r.sh.swapOnEmpty)
		r.sh.tagv.prepare(r.sh.swapOnEmpty)
		r.sh.metric.flush()
		r.sh.tagv.flush()
		r.c.Op("fmeta", before)
		r.sh.flushIndex()
		r.c.Op("findex", before)
		r.c.Branch("real-doFlush")
	}
	r.sh.freeze(r.entries)
	r.c.Op("freeze", before)
	if o.mid == nil {
		// no sequence for any leader yet (or nothing to flush): the callbacks did not run
		r.c.Op("dcommit", o.after)
		r.c.Op("ack", o.after)
		return
	}
	r.c.Op("dcommit", *o.mid)
	if crashAt == crashMid && img != "" {
		r.c.Branch("crash-between-commit-and-ack")
		r.crashTo(img)
		return
	}
	if o.post != nil {
		r.c.Op("ack", *o.post)
	} else {
		r.c.Op("ack", o.after)
	}
	if crashAt == crashAck && img != "" {
		r.c.Branch("crash-right-after-ack")
		r.crashTo(img)
	}
}

// opFlushDataInnerApply = dataFamily.Flush with one whole iteration of the replica loop (lindb's own
// Replica: validate, WriteRows, CommitSequence) run INSIDE it, right after the memory database
// became immutable and before its table is written (tsdb.VerifC11SetFlushHooks: the place where
// flushMemoryDatabase creates the data flusher).
func (r *caseRun) opFlushDataInnerApply() {
	if r.frozenPending {
		r.opApply()
		r.flushWhilePending(false)
		return
	}
	before := r.P()
	fired := false
	restore := tsdb.VerifC11SetFlushHooks(func() {
		if fired {
			return
		}
		fired = true
		r.sh.freeze(r.entries)
		r.c.Op("freeze", before)
		r.opApply()
		r.c.Branch("replica-inside-flush")
	}, nil)
	o, ok := r.runFlush()
	restore()
	if !ok {
		return
	}
	if !fired {
		r.sh.freeze(r.entries)
		r.emitFreeze(o)
	}
	r.emitCommitAck(o)
}

// opFlushMetaFail = database.FlushMeta during which the creation of the table file of one
// dictionary store fails (a file-system error): the stores flushed before it are durable, this one
// and the later ones keep their prepared (immutable) maps for the next round.
// store: "metric" (nothing of the model's dictionaries gets flushed) or "tv" (metric names + schemas do).
func (r *caseRun) opFlushMetaFail(store string) {
	root := r.n.root
	failed := false
	tableFail = func(fileName string) error {
		if strings.HasPrefix(fileName, root) && strings.Contains(fileName, "/meta/kv/"+store+"/") {
			failed = true
			return fmt.Errorf("injected: cannot create %s", fileName[len(root):])
		}
		return nil
	}
	var err error
	func() {
		defer func() {
			if p := recover(); p != nil {
				r.c.Fail("panic", fmt.Sprintf("flush meta with a failing table creation panicked: %v", p))
				r.broken = true
			}
		}()
		err = r.n.flushMeta()
	}()
	tableFail = nil
	if r.broken {
		return
	}
	if !failed {
		if err != nil {
			r.failHarness("flush meta", err)
			return
		}
		// the store had nothing to flush: an ordinary round
		r.sh.metric.prepare(r.sh.swapOnEmpty)
		r.sh.tagv.prepare(r.sh.swapOnEmpty)
		r.sh.metric.flush()
		r.sh.tagv.flush()
		r.c.Op("fmeta", r.P())
		return
	}
	if err == nil {
		// the metadata flush swallowed the error: doFlush goes on with the shard index and the family data and
		// acknowledges the log although the names of that data are not durable. Shown on the real node: the
		// rest of the round, a crash image, restart, lookups by name of what is in the data files.
		r.broken = true
		r.c.Fail(keyMetaErrSwallowed, fmt.Sprintf("the table file of the metadata store %q could not be created during database.FlushMeta, but FlushMeta returned nil: "+
			"the flush job continues with the index and the family data", store))
		if !r.guard("flush index", r.n.flushIndex) || !r.guard("flush family", r.n.flushFamily) {
			return
		}
		img, ierr := r.newRoot()
		if ierr == nil {
			ierr = copyTree(r.n.root, img)
		}
		if ierr != nil {
			return
		}
		r.n.close()
		r.n = nil
		var n *node
		if !r.guard("recover", func() (err error) { n, err = openNode(img, r.famTime, r.expired, r.leaders...); return err }) {
			return
		}
		r.n = n
		r.n.use(r.cur)
		obs := r.observeDurable()
		for _, q := range obs.unres {
			r.c.Fail(keyMetaErrSwallowed, fmt.Sprintf("entry %d (%s host=%s): after the swallowed metadata flush error the round flushed its rows and acknowledged the log (ack %d); "+
				"after a crash the rows are in a data file but do not resolve by metric name and tag", q, metricName(r.entries[q].Metric), tagValue(r.entries[q].Tagv), r.n.pos().ack))
		}
		return
	}
	r.sh.metric.prepare(r.sh.swapOnEmpty)
	r.sh.tagv.prepare(r.sh.swapOnEmpty)
	p := r.P()
	r.c.Op("mprep", p)
	if store == "tv" {
		r.sh.metric.flush()
		r.c.Op("mflushm", p)
	}
	r.c.Branch("meta-flush-failed-at-" + store)
}

// opGC = one tick of lindb's write-ahead-log garbage-collect task (writeAheadLog.destroy ->
// partition.IsExpire: queue Sync + GC, and for a family past its write window: if every consumer
// group IsEmpty, stop + close the partition and remove its directory).
func (r *caseRun) opGC() {
	had, unacked := map[models.NodeID]bool{}, map[models.NodeID]bool{}
	prePos := map[models.NodeID]string{}
	r.n.save()
	for _, l := range r.leaders {
		prePos[l] = r.n.posOf(l).String()
		had[l] = r.n.lanes[l].part != nil
		if had[l] {
			p := r.n.posOf(l)
			unacked[l] = p.ack < p.appended
		}
	}
	if !r.guard("wal gc", r.n.walGC) {
		return
	}
	r.n.save()
	op := "gc 0"
	if r.expired {
		op = "wgc"
	}
	old := r.cur
	lostUnacked := false
	for i, l := range r.leaders {
		r.use(l)
		if r.multi() {
			// the tick visits every log; the model is told lane by lane: the lanes not yet reported
			// are shown as they were before the tick
			var parts []string
			for j, l2 := range r.leaders {
				ps := prePos[l2]
				if j <= i {
					ps = r.n.posOf(l2).String()
				}
				parts = append(parts, fmt.Sprintf("L%d{%s}", l2, ps))
			}
			r.c.Op(r.lop(op), strings.Join(parts, " "))
		} else {
			r.c.Op(r.lop(op), r.P())
		}
		gone := had[l] && r.n.lanes[l].part == nil
		if gone && unacked[l] {
			lostUnacked = true
		}
		if had[l] && unacked[l] && !gone {
			// the partition object is still there: are its files?
			if _, e := os.Stat(filepath.Join(walDir(r.n.root, r.famTime, l), "cg")); e != nil {
				lostUnacked = true
				r.c.Branch("wal-files-removed-under-live-partition")
			}
		}
		if r.expired && gone {
			r.c.Branch("wal-directory-removed")
		} else if r.expired && had[l] {
			r.c.Branch("wal-gc-kept-unacknowledged-log")
		}
	}
	r.use(old)
	if lostUnacked {
		// a directory went away under entries that are not acknowledged: crash NOW (any later
		// flush on this process would run the destroyed partition's ack callback)
		r.opCrash()
		r.terminal = true
	}
}

// peerNode = the remote follower of the leader's own log in the cases with a second consumer group.
const peerNode = models.NodeID(7)

// opPeerJoin: the leader's partition gets a remote follower through lindb's own path
// (partition.BuildReplicaForLeader -> buildReplica: a second consumer group on the SAME log + a remote
// replicator; after a restart partition.recovery rebuilds both from the group directories).
func (r *caseRun) opPeerJoin() {
	if r.n.part == nil {
		return
	}
	if !r.guard("peer join", func() error { return r.n.part.BuildReplicaForLeader(r.cur, []models.NodeID{r.cur, peerNode}) }) {
		return
	}
	r.peer = true
	r.c.Branch("log-with-follower-group")
}

// opPeerAck: the follower's group consumes up to sequence k and acknowledges k (what the remote replicator
// does with the follower's replica acknowledgement), on lindb's real consumer group.
func (r *caseRun) opPeerAck(k int64) {
	if r.n.part == nil || !r.peer {
		return
	}
	r.guard("peer ack", func() error {
		g, err := r.n.fq.GetOrCreateConsumerGroup(strconv.Itoa(int(peerNode)))
		if err != nil {
			return err
		}
		for g.ConsumedSeq() < k && g.ConsumedSeq() < r.n.fq.Queue().AppendedSeq() {
			if g.Consume() < 0 {
				break
			}
		}
		g.Ack(k)
		return nil
	})
}

// opQSync = `ticks` ticks of the WAL garbage-collect task on a log with two consumer groups
// (partition.IsExpire -> fanOutQueue.Sync + queue.GC); several ticks because Sync ranges over a Go map
// (the model's answer does not depend on the visiting order: sync_order_irrelevant). The instant is a
// crash point (queue meta page synced): the log's acknowledged sequence must not cover an entry with
// rows above the stored sequence.
func (r *caseRun) opQSync(ticks int) {
	if r.n.part == nil || !r.peer {
		return
	}
	g, err := r.n.fq.GetOrCreateConsumerGroup(strconv.Itoa(int(peerNode)))
	if err != nil {
		r.failHarness("peer group", err)
		return
	}
	old := r.n.fq.Queue().AcknowledgedSeq()
	for i := 0; i < ticks; i++ {
		r.opGC()
		if r.stop() || r.n.part == nil {
			return
		}
	}
	qa := r.n.fq.Queue().AcknowledgedSeq()
	after := r.n.pos()
	r.c.Op(fmt.Sprintf("qsync %d %d", g.AcknowledgedSeq(), old), fmt.Sprintf("qack=%d %s", qa, r.P()))
	for _, x := range r.entries {
		if x.ldr() == r.cur && !x.Bad && x.Seq <= qa && (!after.hasStored || x.Seq > after.stored) {
			r.c.Fail(keyQAckGtStored, fmt.Sprintf("after %d WAL GC ticks (partition.IsExpire -> fanOutQueue.Sync) on leader %d's log with consumer groups {local: ack %d, follower: ack %d}: the log's acknowledged sequence %d covers entry %d, but the sequence stored with the data is %s",
				ticks, r.cur, after.ack, g.AcknowledgedSeq(), qa, x.Seq, optStr(after.stored, after.hasStored)))
			break
		}
	}
	if after.ack < g.AcknowledgedSeq() {
		r.c.Branch("sync-follower-ahead-of-local-group")
	} else {
		r.c.Branch("sync-follower-behind-local-group")
	}
	if after.ack < 0 {
		r.c.Branch("sync-local-group-never-acknowledged")
	}
}

// followerGroupBeforeFirstFlush: the leader's log has a remote follower; entries applied to the memory
// database but not flushed (local group at -1), the follower acknowledged everything; WAL GC ticks; crash;
// restart (replay from 0); then a flush (local ack moves), follower behind / ahead, ticks, crash.
func (r *caseRun) followerGroupBeforeFirstFlush(n int) {
	r.opPeerJoin()
	for i := 0; i < n; i++ {
		r.opAppend(i%2, i%3)
	}
	r.applyAll()
	r.opPeerAck(int64(n - 1))
	r.opQSync(8)
	r.opCrash()
	if r.stop() {
		return
	}
	r.applyAll()
	r.opQSync(4)
	r.opFlushMeta()
	r.opFlushIndex()
	r.opFlushData(noCrash, false)
	r.opQSync(4) // both groups at n-1: the log's position moves to n-1 = the stored sequence
	r.opAppend(0, 0)
	r.opAppend(1, 1)
	r.applyAll()
	r.opPeerAck(int64(n)) // follower ahead of the local group again (local ack n-1 >= 0)
	r.opQSync(4)
	r.opCrash()
	if r.stop() {
		return
	}
	r.applyAll()
	r.opFlushMeta()
	r.opFlushIndex()
	r.opFlushData(noCrash, false)
	r.opQSync(4) // local group ahead of the follower
	r.opCrash()
}

// opFlushDataFail = dataFamily.Flush during which the creation of the data table file fails: the
// memory database has been switched to immutable (with the sequences captured) and STAYS pending;
// the family cannot flush again until it is closed. The history continues.
func (r *caseRun) opFlushDataFail() {
	root := r.n.root
	failed := false
	tableFail = func(fileName string) error {
		if strings.HasPrefix(fileName, root) && strings.Contains(fileName, "/segment/") {
			failed = true
			return fmt.Errorf("injected: cannot create %s", fileName[len(root):])
		}
		return nil
	}
	before := r.P()
	var err error
	func() {
		defer func() {
			if p := recover(); p != nil {
				r.c.Fail("panic", fmt.Sprintf("family flush with a failing table creation panicked: %v", p))
				r.broken = true
			}
		}()
		err = r.n.flushFamily()
	}()
	tableFail = nil
	if r.broken {
		return
	}
	if !failed {
		if err != nil {
			r.failHarness("flush family", err)
			return
		}
		// nothing to flush (or an immutable memory database is already pending): Flush did nothing
		r.c.Op("freeze", before)
		return
	}
	if err == nil {
		r.failHarness("flush family", fmt.Errorf("the table creation failed but Flush reported success"))
		return
	}
	r.sh.freeze(r.entries)
	r.c.Op("freeze", before)
	r.frozenPending = true
	r.c.Branch("data-flush-failed-immutable-pending")
}

// opClose = dataFamily.Close (family eviction / shutdown): flush a pending immutable memory database,
// then the mutable one. crashFile/crashAt choose a crash image after the crashFile-th committed file
// (0 or 1), before (crashMid) or after (crashAck) its acknowledgement; otherwise the image is taken
// after Close. The node restarts from the image either way (a closed family is not used again).
func (r *caseRun) opClose(crashFile, crashAt int) {
	img := ""
	var imgErr error
	image := func() {
		if img == "" {
			if img, imgErr = r.newRoot(); imgErr == nil {
				imgErr = copyTree(r.n.root, img)
			}
		}
	}
	var atMid, atPost func()
	if crashAt == crashMid {
		atMid = image
	}
	if crashAt == crashAck {
		atPost = image
	}
	hadFrozen := r.frozenPending
	hadMutable := len(r.sh.mem) > 0
	before := r.P()
	r.n.noFamLock = true // Close holds the family mutex: the callbacks must not ask the family for its state
	obs, ok := r.observeFlush("family close", r.n.fam.Close, crashFile, atMid, atPost)
	r.n.noFamLock = false
	if !ok {
		return
	}
	if imgErr != nil {
		r.failHarness("crash image", imgErr)
		return
	}
	r.c.Branch("family-close")
	k := 0
	emit := func(withFreeze bool, start string) bool {
		// one committed file: [freeze] dcommit ack; returns true when the case crashed at this file
		if withFreeze {
			r.sh.freeze(r.entries)
			r.c.Op("freeze", start)
		}
		if k >= len(obs) || obs[k].mid == nil {
			// no sequence for any leader: no callbacks, the positions did not move
			r.c.Op("dcommit", start)
			r.c.Op("ack", start)
			return false
		}
		o := obs[k]
		k++
		r.c.Op("dcommit", *o.mid)
		if crashAt == crashMid && crashFile == k-1 && img != "" {
			return true
		}
		if o.post != nil {
			r.c.Op("ack", *o.post)
		} else {
			r.c.Op("ack", o.after)
		}
		return crashAt == crashAck && crashFile == k-1 && img != ""
	}
	start := before
	crashed := false
	if hadFrozen {
		crashed = emit(false, start)
		if k > 0 && obs[k-1].post != nil {
			start = *obs[k-1].post
		}
	}
	if !crashed && hadMutable {
		crashed = emit(true, start)
	}
	r.frozenPending = false
	if img == "" {
		image()
		if imgErr != nil {
			r.failHarness("crash image", imgErr)
			return
		}
	} else if crashed {
		r.c.Branch("crash-inside-family-close")
	}
	r.crashTo(img)
}

// opFlushIndexFail = an index flush during which the creation of the first index table file fails (a
// file-system error): PrepareFlush has swapped the index maps, nothing of them is durable, FlushIndex
// must report the error. whole=false: shard.FlushIndex alone (the caller retries). whole=true: the
// flush checker's own doFlush (FlushMeta, FlushIndex, family.Flush): the round must stop at the failed
// index flush - no data file, no acknowledgement.
func (r *caseRun) opFlushIndexFail(whole bool) {
	root := r.n.root
	failed := false
	tableFail = func(fileName string) error {
		if strings.HasPrefix(fileName, root) && strings.Contains(fileName, "/index/") &&
			!strings.Contains(fileName, "/segment/") && !strings.Contains(fileName, "/meta/") {
			failed = true
			return fmt.Errorf("injected: cannot create %s", fileName[len(root):])
		}
		return nil
	}
	before := r.P()
	frozenNow := append([]int64(nil), r.sh.mem...)
	var err error
	var obs []flushObs
	if whole {
		obs, _ = r.observeFlush("doFlush", func() error { err = r.n.doFlush(); return nil }, 0, nil, nil)
	} else {
		func() {
			defer func() {
				if p := recover(); p != nil {
					r.c.Fail("panic", fmt.Sprintf("flush index with a failing table creation panicked: %v", p))
					r.broken = true
				}
			}()
			err = r.n.flushIndex()
		}()
	}
	tableFail = nil
	if r.broken {
		return
	}
	metaStep := func() {
		r.sh.metric.prepare(r.sh.swapOnEmpty)
		r.sh.tagv.prepare(r.sh.swapOnEmpty)
		r.sh.metric.flush()
		r.sh.tagv.flush()
		r.c.Op("fmeta", before)
	}
	if !failed {
		if err != nil {
			r.failHarness("flush index", err)
			return
		}
		// the index had nothing to flush: an ordinary step / round
		if whole {
			metaStep()
		}
		r.sh.flushIndex()
		r.c.Op("findex", before)
		if whole {
			r.sh.freeze(r.entries)
			r.c.Op("freeze", before)
			r.emitCommitAck(obs[0])
		}
		return
	}
	r.c.Branch("index-flush-failed")
	if whole {
		metaStep()
	}
	r.sh.indexStep(true)
	r.c.Op("iprep", before)
	if !whole {
		if err == nil {
			r.tainted = true
			r.c.Fail(keyAfterIdxErr, "the creation of an index table file failed during shard.FlushIndex, but FlushIndex returned nil: "+
				"dataFlushChecker.flushShard goes on to flush the families and acknowledge the log on `err == nil`")
		}
		return
	}
	o := obs[0]
	if o.mid == nil && o.after == before {
		return // the round stopped at the failed index flush
	}
	// the round went on: report what it did, then show the consequence after a crash
	for _, q := range frozenNow {
		r.sh.fate[q] = keyAfterIdxErr
	}
	r.sh.freeze(r.entries)
	for _, q := range frozenNow {
		r.sh.fate[q] = keyAfterIdxErr
	}
	r.c.Op("freeze", before)
	r.emitCommitAck(o)
	r.c.Fail(keyAfterIdxErr, fmt.Sprintf("doFlush: the creation of an index table file failed inside shard.FlushIndex, yet the same round flushed the family "+
		"and moved the log positions from [%s] to [%s]", before, o.after))
	r.opCrash()
	r.tainted = true
}

// opShutdown = the storage node's graceful shutdown (databaseLifecycle.Shutdown: walMgr.Stop,
// engine.Close -> database.Close -> shard.Close -> segment.Close -> dataFamily.Close, walMgr.Close) on
// the real node, observed through the table-creation seam and the family's ack callbacks. A crash
// image is taken before the crashTable-th table file the shutdown creates (crashTable >= 0), or at
// the crashFile-th committed data file between commit and ack / right after the ack, or after the
// shutdown. The ops reported to the model are those of the code's order (tie
// shutdown_is_meta_index_data): fmeta, findex, findex, then Close's data steps up to the image.
func (r *caseRun) opShutdown(crashTable, crashFile, crashAt int) {
	img, imgCat := "", ""
	var imgErr error
	image := func() {
		if img == "" {
			if img, imgErr = r.newRoot(); imgErr == nil {
				imgErr = copyTree(r.n.root, img)
			}
		}
	}
	type fileObs struct{ mid, post string }
	var files []fileObs
	cur := fileObs{}
	imgFiles, imgMid := -1, false // data files completed / current file committed when the image was taken
	root := r.n.root
	nTables := 0
	tableHook = func(fileName string) {
		if !strings.HasPrefix(fileName, root) {
			return
		}
		cat := "index"
		switch {
		case strings.Contains(fileName, "/segment/"):
			cat = "data"
		case strings.Contains(fileName, "/meta/"):
			cat = "meta"
		}
		if nTables == crashTable && img == "" {
			image()
			imgCat, imgFiles = cat, len(files)
		}
		nTables++
	}
	hadFrozen := r.frozenPending
	hadMutable := len(r.sh.mem) > 0
	before := r.P()
	r.n.midFlush = func() {
		cur.mid = r.P()
		if crashTable < 0 && crashAt == crashMid && len(files) == crashFile && img == "" {
			image()
			imgFiles, imgMid = len(files), true
		}
	}
	r.n.postAck = func() {
		cur.post = r.P()
		files = append(files, cur)
		cur = fileObs{}
		if crashTable < 0 && crashAt == crashAck && len(files)-1 == crashFile && img == "" {
			image()
			imgFiles = len(files)
		}
	}
	r.n.noFamLock = true // the callbacks run inside dataFamily.Close, which holds the family mutex
	ok := r.guard("shutdown", r.n.shutdownEngine)
	r.n.noFamLock = false
	r.n.midFlush, r.n.postAck = nil, nil
	tableHook = nil
	if !ok {
		return
	}
	r.c.Branch("graceful-shutdown")
	if img == "" {
		image()
		imgFiles = len(files)
	} else {
		r.c.Branch("crash-inside-shutdown")
	}
	r.n.finishShutdown()
	if imgErr != nil {
		r.failHarness("crash image", imgErr)
		return
	}
	if imgCat == "meta" || imgCat == "index" {
		// inside a dictionary flush of the shutdown: as for opFlushInnerCrash the name-level model is not
		// told; positions, files, replay and the by-name lookups are checked
		r.c.Branch("crash-inside-shutdown-before-" + imgCat + "-table")
		r.terminal = true
		r.frozenPending = false
		r.n = nil
		r.sh.crash()
		r.c.Op("crash", "down")
		r.opRecover(img, true)
		return
	}
	// the dictionaries were flushed before the first data file (code order)
	r.sh.metric.prepare(r.sh.swapOnEmpty)
	r.sh.tagv.prepare(r.sh.swapOnEmpty)
	r.sh.metric.flush()
	r.sh.tagv.flush()
	r.c.Op("fmeta", before)
	r.sh.flushIndex()
	r.c.Op("findex", before)
	r.sh.flushIndex()
	r.c.Op("findex", before)
	k := 0
	start := before
	emit := func(withFreeze bool) bool {
		// one memory database of dataFamily.Close: [freeze] dcommit ack; true = the image was taken here
		atPre := imgCat == "data" && imgFiles == k && !imgMid
		if withFreeze {
			r.sh.freeze(r.entries)
			r.c.Op("freeze", start)
		}
		if atPre {
			return true
		}
		if k >= len(files) && cur.mid == "" {
			// no sequence for any leader: no callbacks, the positions did not move
			r.c.Op("dcommit", start)
			r.c.Op("ack", start)
			return false
		}
		o := cur
		if k < len(files) {
			o = files[k]
		}
		r.c.Op("dcommit", o.mid)
		if imgMid && imgFiles == k {
			return true
		}
		r.c.Op("ack", o.post)
		start = o.post
		k++
		return imgCat == "" && imgFiles == k && crashAt == crashAck && crashTable < 0 && crashFile == k-1
	}
	crashed := false
	if hadFrozen {
		crashed = emit(false)
	}
	if !crashed && hadMutable {
		emit(true)
	}
	r.frozenPending = false
	r.crashTo(img)
}

// table-creation crash points: the kinds of flush call an image can be taken inside of
const (
	innerMeta  = 0
	innerIndex = 1
	innerData  = 2
)

// opFlushInnerCrash runs FlushMeta / FlushIndex / family.Flush and images the node directory right
// before the k-th table (sst) file that the call creates: the stores flushed so far are durable, this
// one and the later ones are not. The case continues from that image and ends after replay: the
// name-level model does not follow partially flushed dictionaries, so the call is not reported to it.
func (r *caseRun) opFlushInnerCrash(kind int) bool {
	if kind == innerData && r.frozenPending {
		r.flushWhilePending(false)
		return false
	}
	k := r.innerK
	if k < 0 {
		k = r.rng.Intn(4)
	}
	man, after := r.innerMan, r.innerAfter
	if man && kind == innerData {
		k %= 2 // one record per data flush in the code as it is; a second one only if the commit was split
	}
	n, img := 0, ""
	var imgErr error
	root := r.n.root
	take := func() {
		if n == k && img == "" {
			if img, imgErr = r.newRoot(); imgErr == nil {
				imgErr = copyTree(root, img)
			}
		}
		n++
	}
	if man {
		// crash point = a manifest record of one of the call's kv commits: right before its sync the table
		// file is complete but in no manifest, right after it the record (table + sequences) is durable
		// while nothing of the process's memory has been updated
		manifestHook = func(fileName string, aft bool) {
			if strings.HasPrefix(fileName, root) && aft == after {
				take()
			}
		}
	} else {
		tableHook = func(fileName string) {
			if strings.HasPrefix(fileName, root) {
				take()
			}
		}
	}
	var ok bool
	var fo flushObs
	switch kind {
	case innerMeta:
		ok = r.guard("flush meta", r.n.flushMeta)
	case innerIndex:
		ok = r.guard("flush index", r.n.flushIndex)
	default:
		fo, ok = r.runFlush()
	}
	tableHook, manifestHook = nil, nil
	if !ok {
		return false
	}
	if imgErr != nil {
		r.failHarness("crash image", imgErr)
		return false
	}
	if img == "" {
		// fewer than k+1 tables / records were written: the call completed; report it as usual
		switch kind {
		case innerMeta:
			r.sh.metric.prepare(r.sh.swapOnEmpty)
			r.sh.tagv.prepare(r.sh.swapOnEmpty)
			r.sh.metric.flush()
			r.sh.tagv.flush()
			r.c.Op("fmeta", r.P())
		case innerIndex:
			r.sh.flushIndex()
			r.c.Op("findex", r.P())
		default:
			r.sh.freeze(r.entries)
			r.emitFreeze(fo)
			r.emitCommitAck(fo)
		}
		return false
	}
	if man && kind == innerData {
		// the dictionaries are not touched by a data flush: the image is a full crash point of the model.
		// Before the first record: no durable effect (the table file is an orphan). After the first record:
		// the data commit (table + sequences in ONE record) has happened, the log is not acknowledged.
		// (k = 1 is only reached when a data flush writes a second record.)
		if after == (k == 0) {
			r.sh.freeze(r.entries)
			r.emitFreeze(fo)
			if fo.mid != nil {
				r.c.Op("dcommit", *fo.mid)
			} else {
				r.c.Op("dcommit", fo.after)
			}
			r.c.Branch("crash-after-data-manifest-record")
		} else if !after {
			r.c.Branch("crash-before-data-manifest-record")
		} else {
			// after a SECOND record: the whole flush but the acknowledgement
			r.sh.freeze(r.entries)
			r.emitFreeze(fo)
			if fo.mid != nil {
				r.c.Op("dcommit", *fo.mid)
			} else {
				r.c.Op("dcommit", fo.after)
			}
			r.c.Branch("crash-after-second-data-manifest-record")
		}
		r.crashTo(img)
		return true
	}
	if man {
		r.c.Branch([]string{"crash-at-manifest-record-in-FlushMeta", "crash-at-manifest-record-in-FlushIndex"}[kind])
	} else {
		r.c.Branch([]string{"crash-inside-FlushMeta", "crash-inside-FlushIndex", "crash-inside-family-Flush"}[kind])
	}
	r.terminal = true
	r.n.close()
	r.n = nil
	r.sh.crash()
	r.c.Op("crash", "down")
	r.opRecover(img, true)
	return true
}

// opCrash images the node directory now and continues from the image.
func (r *caseRun) opCrash() {
	img, err := r.newRoot()
	if err == nil {
		err = copyTree(r.n.root, img)
	}
	if err != nil {
		r.failHarness("crash image", err)
		return
	}
	r.crashTo(img)
}

func (r *caseRun) crashTo(img string) {
	r.frozenPending = false
	r.n.close() // the abandoned process; whatever it still writes goes to the old directory
	r.n = nil
	r.sh.crash()
	r.c.Op("crash", "down")
	r.opRecover(img, false)
}

type durableObs struct {
	files  map[int64]int
	unres  []int64
	iunres []string // pairs with a durable index posting (by the ids they had) whose names do not resolve
	names  []int
	tagv   []string
	idx    []string
}

func (r *caseRun) observeDurable() durableObs {
	o := durableObs{files: map[int64]int{}}
	cache := map[metric.ID]map[uint32]map[int]float64{}
	read := func(mid metric.ID) map[uint32]map[int]float64 {
		if v, ok := cache[mid]; ok {
			return v
		}
		v := r.n.readMetric(mid)
		cache[mid] = v
		return v
	}
	for _, e := range r.entries {
		cnt := 0
		for _, id := range r.ids[e.Slot] {
			if row, ok := read(id.metricID)[id.seriesID]; ok {
				cnt += int(row[int(e.Slot)])
			}
		}
		if cnt > 0 {
			o.files[e.Slot] = cnt
		}
	}
	seenM, seenP := map[int]bool{}, map[string]bool{}
	for _, e := range r.entries {
		if e.Bad {
			continue
		}
		sids, mid, err := r.n.resolve(e)
		if !seenM[e.Metric] {
			seenM[e.Metric] = true
			if err == nil || !(strings.HasPrefix(err.Error(), "metric:") || strings.HasPrefix(err.Error(), "schema:")) {
				o.names = append(o.names, e.Metric)
			}
		}
		pk := pairKey(e.Metric, e.Tagv)
		if !seenP[pk] {
			seenP[pk] = true
			if err == nil || strings.HasPrefix(err.Error(), "series:") {
				o.tagv = append(o.tagv, pk)
			}
			if err == nil {
				o.idx = append(o.idx, pk)
			} else if r.indexPostingDurable(e) {
				o.iunres = append(o.iunres, pk)
			}
		}
		if o.files[e.Slot] > 0 {
			named := 0
			if err == nil {
				for _, sid := range sids {
					if row, ok := read(mid)[sid]; ok {
						named += int(row[int(e.Slot)])
					}
				}
			}
			if err != nil || named == 0 {
				o.unres = append(o.unres, e.Slot)
			}
		}
	}
	return o
}

// indexPostingDurable: does the shard's (recovered) index hold a posting for the series id that the
// pair of e had when it was written, under the metric id it had then?
func (r *caseRun) indexPostingDurable(e entry) bool {
	for _, o := range r.entries {
		if o.Metric != e.Metric || o.Tagv != e.Tagv {
			continue
		}
		for _, id := range r.ids[o.Slot] {
			bm, err := r.n.shard.IndexDB().GetSeriesIDsForMetric(id.metricID)
			if err == nil && bm != nil && bm.Contains(id.seriesID) {
				return true
			}
		}
	}
	return false
}

func sortPairKeys(ps []string) {
	sort.Slice(ps, func(i, j int) bool {
		a, b := strings.Split(ps[i], "."), strings.Split(ps[j], ".")
		a0, _ := strconv.Atoi(a[0])
		b0, _ := strconv.Atoi(b[0])
		if a0 != b0 {
			return a0 < b0
		}
		a1, _ := strconv.Atoi(a[1])
		b1, _ := strconv.Atoi(b[1])
		return a1 < b1
	})
}

// render prints the observation in the model driver's format: files / unres are per lane in terms of
// the lane's own log sequences.
func (r *caseRun) render(o durableObs) string {
	filesOf := func(l models.NodeID) string {
		var fs []string
		for _, e := range r.entries {
			if e.ldr() == l && o.files[e.Slot] > 0 {
				fs = append(fs, fmt.Sprintf("%d:%d", e.Seq, o.files[e.Slot]))
			}
		}
		return strings.Join(fs, ",")
	}
	unresOf := func(l models.NodeID) string {
		un := map[int64]bool{}
		for _, s := range o.unres {
			un[s] = true
		}
		var us []string
		for _, e := range r.entries {
			if e.ldr() == l && un[e.Slot] {
				us = append(us, strconv.FormatInt(e.Seq, 10))
			}
		}
		return strings.Join(us, ",")
	}
	var ns []string
	sort.Ints(o.names)
	for _, m := range o.names {
		ns = append(ns, strconv.Itoa(m))
	}
	sortPairKeys(o.tagv)
	sortPairKeys(o.idx)
	sortPairKeys(o.iunres)
	dict := fmt.Sprintf("iunres=%s names=%s tagv=%s idx=%s", strings.Join(o.iunres, ","), strings.Join(ns, ","),
		strings.Join(o.tagv, ","), strings.Join(o.idx, ","))
	if !r.multi() {
		l := r.leaders[0]
		return fmt.Sprintf("files=%s unres=%s %s", filesOf(l), unresOf(l), dict)
	}
	var fs, us []string
	for _, l := range r.leaders {
		fs = append(fs, fmt.Sprintf("files%d=%s", l, filesOf(l)))
		us = append(us, fmt.Sprintf("unres%d=%s", l, unresOf(l)))
	}
	return strings.Join(fs, " ") + " " + strings.Join(us, " ") + " " + dict
}

// renderFiles = the `files` part only (recoverp).
func (r *caseRun) renderFiles(o durableObs) string {
	full := r.render(o)
	if !r.multi() {
		return full[:strings.Index(full, " unres=")]
	}
	return full[:strings.Index(full, " unres")]
}

// opRecover opens a fresh engine + partition on the image and evaluates C07's clauses on it.
func (r *caseRun) opRecover(img string, partial bool) {
	var n *node
	if !r.guard("recover", func() (err error) { n, err = openNode(img, r.famTime, r.expired, r.leaders...); return err }) {
		return
	}
	r.n = n
	r.n.use(r.cur)
	obs := r.observeDurable()
	if partial {
		r.c.Op("recoverp", r.P()+" "+r.renderFiles(obs))
	} else {
		r.c.Op("recover", r.P()+" "+r.render(obs))
	}
	r.c.NonTrivial()

	n.save()
	for _, l := range r.leaders {
		p := n.posOf(l)
		ln := n.lanes[l]
		// clause 1: the acknowledged position in the image never exceeds the stored sequence
		stored := int64(-1)
		if p.hasStored {
			stored = p.stored
		}
		// (a corrupt entry carries no rows: IgnoreMessage acknowledges it when it directly follows the
		// acknowledged position, so only entries with rows count)
		for _, e := range r.entries {
			if e.ldr() == l && !e.Bad && e.Seq > stored && e.Seq <= ln.imageAck {
				r.c.Fail(keyAckGtStored, fmt.Sprintf("crash image: leader %d's consumer group ack %d covers entry %d, but the sequence stored with the data is %d", l, ln.imageAck, e.Seq, stored))
				break
			}
		}
		// clause 1b: nor does the log's own acknowledged sequence (queue meta page of the image)
		if ln.part != nil {
			qa := ln.fq.Queue().AcknowledgedSeq()
			for _, e := range r.entries {
				if e.ldr() == l && !e.Bad && e.Seq > stored && e.Seq <= qa {
					r.c.Fail(keyQAckGtStored, fmt.Sprintf("crash image: the acknowledged sequence %d of leader %d's log covers entry %d, but the sequence stored with the data is %d (consumer group of the local replicator reopened at ack %d, replay starts at %d)",
						qa, l, e.Seq, stored, p.ack, p.consumed+1))
					break
				}
			}
		}
		// clause 3: every appended entry is in a data file or still in the log above the ack
		for _, e := range r.entries {
			if e.ldr() != l || e.Bad || obs.files[e.Slot] > 0 {
				continue
			}
			if ln.part != nil && e.Seq > p.ack {
				if _, err := ln.fq.Queue().Get(e.Seq); err == nil {
					continue
				}
			}
			if key, ok := r.lossFate[e.Slot]; ok {
				r.c.Fail(key, fmt.Sprintf("entry %d is in no data file and the log is acknowledged up to %d: a whole family.Flush ran between "+
					"GetOrCreateMemoryDatabase and AcquireWrite of its WriteRows, the rows went into the closed memory database, "+
					"its sequence was committed and later stored and acknowledged", e.Seq, p.ack))
				continue
			}
			if ln.part == nil {
				r.c.Fail(keyLost, fmt.Sprintf("entry %d of leader %d's log is in no data file and the write-ahead log directory is gone", e.Seq, l))
				continue
			}
			r.c.Fail(keyLost, fmt.Sprintf("entry %d of leader %d's log is in no data file and not replayable (ack=%d appended=%d)", e.Seq, l, p.ack, p.appended))
		}
	}
	p := n.pos()
	if partial {
		// the dictionaries were imaged half flushed: resolution is checked after the replay (finish).
		// Exception: rows that were frozen, flushed and acknowledged while a name of theirs was only in
		// memory (the shadow recorded the fate at the freeze) and that do not resolve in this image.
		// That is the recorded loss itself; replaying further entries with the same names on this node
		// would only show its after-effects (ids are issued again), so the case ends here under that key.
		for _, s := range obs.unres {
			if f := r.sh.fate[s]; f == keyWindow || f == keyWedge || f == keyAfterIdxErr {
				r.tainted = true
				r.c.Fail(f, fmt.Sprintf("entry %d (%s host=%s): rows are in a data file and the log is acknowledged up to %d, but its names do not resolve "+
					"in an image taken inside a later flush: they were not durable when the rows were frozen and the process died before a later dictionary flush completed",
					s, metricName(r.entries[s].Metric), tagValue(r.entries[s].Tagv), p.ack))
			}
		}
		// likewise a durable index posting whose names were only in memory when the index was flushed
		// (an index flush that no metadata flush preceded): replaying the same names on this node finds the
		// series in the index and never creates its tag value again
		for _, pk := range obs.iunres {
			if f := r.sh.idxFate[pk]; f == keyWindow || f == keyWedge {
				r.tainted = true
				r.c.Fail(f, fmt.Sprintf("series %s: its index posting is durable but its metric name / tag value does not resolve in an image taken inside a later flush: "+
					"they were not durable when the index was flushed and the process died before a later metadata flush completed", pk))
			}
		}
		return
	}
	// clause 4: flushed data resolves by name
	for _, s := range obs.unres {
		switch r.sh.fate[s] {
		case keyWindow:
			r.tainted = true
			r.c.Fail(keyWindow, fmt.Sprintf("entry %d (%s host=%s): rows are in a data file and the log is acknowledged up to %d, "+
				"but its names no longer resolve: they were created after the metadata/index flush of the round that flushed the rows",
				s, metricName(r.entries[s].Metric), tagValue(r.entries[s].Tagv), p.ack))
		case keyWedge:
			r.tainted = true
			r.c.Fail(keyWedge, fmt.Sprintf("entry %d (%s host=%s): rows are in a data file and the log is acknowledged up to %d, "+
				"but its names no longer resolve: an earlier flush round prepared an empty dictionary, after which PrepareFlush never swaps again",
				s, metricName(r.entries[s].Metric), tagValue(r.entries[s].Tagv), p.ack))
		case keyAfterIdxErr:
			r.tainted = true
			r.c.Fail(keyAfterIdxErr, fmt.Sprintf("entry %d (%s host=%s): rows are in a data file and the log is acknowledged up to %d, but the series is not found by "+
				"metric name and tag after recovery: the round's index flush had failed and the round flushed the data anyway",
				s, metricName(r.entries[s].Metric), tagValue(r.entries[s].Tagv), p.ack))
		default:
			r.c.Fail(keyUnresolved, fmt.Sprintf("entry %d (%s host=%s): rows are in a data file but its names do not resolve after recovery",
				s, metricName(r.entries[s].Metric), tagValue(r.entries[s].Tagv)))
		}
	}
	for _, pk := range obs.iunres {
		r.tainted = true
		switch r.sh.idxFate[pk] {
		case keyWindow:
			r.c.Fail(keyWindow, fmt.Sprintf("series %s: its index posting is durable but its metric name / tag value no longer resolves: "+
				"they were created after the metadata flush of the round that flushed the index", pk))
		case keyWedge:
			r.c.Fail(keyWedge, fmt.Sprintf("series %s: its index posting is durable but its metric name / tag value no longer resolves: "+
				"an earlier flush round prepared an empty dictionary, after which PrepareFlush never swaps again", pk))
		default:
			r.c.Fail(keyIdxUnres, fmt.Sprintf("series %s: its index posting is durable but its names do not resolve after recovery", pk))
		}
	}
	if len(obs.unres) > 0 {
		r.tainted = true
	}
}

// finish replays whatever is pending and checks that every appended entry can be read back
// (by the ids its names had when it was written).
func (r *caseRun) finish() {
	if r.broken || r.tainted || r.n == nil {
		return
	}
	for _, l := range r.leaders {
		r.use(l)
		for i := 0; i < len(r.entries)+1 && r.n.pending() && !r.broken; i++ {
			r.opApply()
		}
	}
	if r.broken {
		return
	}
	cache := map[metric.ID]map[uint32]map[int]float64{}
	for _, e := range r.entries {
		if e.Bad {
			continue
		}
		cnt := 0
		for _, id := range r.ids[e.Slot] {
			v, ok := cache[id.metricID]
			if !ok {
				v = r.n.readMetric(id.metricID)
				cache[id.metricID] = v
			}
			if row, ok := v[id.seriesID]; ok {
				cnt += int(row[int(e.Slot)])
			}
		}
		if cnt == 0 {
			if key, ok := r.lossFate[e.Slot]; ok {
				r.c.Fail(key, fmt.Sprintf("entry %d is neither in memory nor in a data file after the log was replayed: a whole family.Flush ran "+
					"between GetOrCreateMemoryDatabase and AcquireWrite of its WriteRows", e.Seq))
			} else {
				r.c.Fail(keyNotReplayed, fmt.Sprintf("entry %d is neither in memory nor in a data file after the log was replayed", e.Seq))
			}
			continue
		}
		if cnt > 1 {
			r.c.Branch("obs-b-entry-stored-twice")
		}
		// "a query by name and tags after recovery returns all of it"
		sids, mid, err := r.n.resolve(e)
		named := 0
		if err == nil {
			v, ok := cache[mid]
			if !ok {
				v = r.n.readMetric(mid)
				cache[mid] = v
			}
			for _, sid := range sids {
				if row, ok := v[sid]; ok {
					named += int(row[int(e.Slot)])
				}
			}
		}
		if f := r.sh.fate[e.Slot]; (err != nil || named == 0) && (f == keyWindow || f == keyWedge) && r.terminal {
			// the image was taken inside a later dictionary flush (recoverp: clause 4 is checked here): the
			// rows had been frozen, flushed and acknowledged while a name of theirs was only in memory
			r.c.Fail(f, fmt.Sprintf("entry %d (%s host=%s): rows are in a data file and the log is acknowledged, but its names do not resolve after "+
				"recovery and replay: they were not durable when the rows were frozen and the process died before a later dictionary flush completed",
				e.Seq, metricName(e.Metric), tagValue(e.Tagv)))
			continue
		}
		if err != nil || named == 0 {
			r.c.Fail(keyNoName, fmt.Sprintf("entry %d (%s host=%s) is stored (x%d) but a lookup by metric name and tag does not return it after recovery and replay: %v",
				e.Seq, metricName(e.Metric), tagValue(e.Tagv), cnt, err))
		}
	}
}

// ---------------------------------------------------------------- scripted cases

func (r *caseRun) applyAll() {
	for r.n != nil && !r.broken && r.n.pending() {
		r.opApply()
	}
}

// applyAllGetFail drains the current log; unreadable entries fail at GetMessage (IgnoreMessage only).
func (r *caseRun) applyAllGetFail() {
	for r.n != nil && !r.broken && r.n.pending() {
		if e, ok := r.nextEntry(); ok && e.Bad {
			c0 := r.n.cg.ConsumedSeq()
			r.opGetFail()
			if r.n == nil || r.n.cg == nil || r.n.cg.ConsumedSeq() == c0 {
				return
			}
			continue
		}
		r.opApply()
	}
}

// applyAllLanes drains every leader's log.
func (r *caseRun) applyAllLanes() {
	old := r.cur
	for _, l := range r.leaders {
		r.use(l)
		r.applyAll()
	}
	r.use(old)
}

// witnessWindow: Neg.windowTrace on the real node.
func (r *caseRun) witnessWindow() {
	r.opAppend(0, 0)
	r.opApply()
	r.opFlushMeta()
	r.opAppend(1, 0) // NEW metric name between the metadata flush and the freeze
	r.opApply()
	r.opFlushIndex()
	r.opFlushData(noCrash, false)
	r.opCrash()
}

// witnessWedge: Neg.wedgeTrace on the real node — three orderly flush rounds, no write inside any.
func (r *caseRun) witnessWedge() {
	round := func() {
		r.opFlushMeta()
		r.opFlushIndex()
		r.opFlushData(noCrash, false)
	}
	r.opAppend(0, 0)
	r.opApply()
	round()
	r.opAppend(0, 0)
	r.opApply()
	round() // nothing new: every dictionary prepares an empty map
	r.opAppend(1, 0)
	r.opApply()
	round()
	r.opCrash()
}

// splitApplyRace: observation (b) — Flush between WriteRows and CommitSequence of the next entry,
// inside lindb's own Replica.
func (r *caseRun) splitApplyRace() bool {
	if _, ok := r.nextEntry(); !ok {
		return false
	}
	r.opApplyInj(injBeforeCommit)
	return !r.broken
}

func (r *caseRun) observationB() {
	r.opAppend(0, 0)
	r.opApply()
	r.opFlushMeta()
	r.opFlushIndex()
	r.opAppend(0, 0)
	r.splitApplyRace()
	if r.broken {
		return
	}
	p := r.n.pos()
	if p.hasStored && p.stored == 0 && p.seq == 1 {
		r.c.Note("observation (b): rows of entry 1 are in the flushed table, the stored sequence is 0; after a crash entry 1 is replayed on top of them")
	}
	r.opCrash()
}

// corruptAfterUnflushed: entries 0 and 1 applied but not flushed, then a corrupt entry is consumed,
// then a crash: the acknowledged position must not have moved past the unflushed entries.
func (r *caseRun) corruptAfterUnflushed() {
	r.opAppend(0, 0)
	r.opApply()
	r.opAppend(1, 1)
	r.opApply()
	r.opAppendBad()
	r.opApply()
	r.opCrash()
	if r.stop() {
		return
	}
	r.applyAll()
	// a corrupt entry right behind a fully flushed log IS acknowledged without a flush
	r.opFlushMeta()
	r.opFlushIndex()
	r.opFlushData(noCrash, false)
	r.opAppendBad()
	r.opApply()
	r.opCrash()
}

// getFailAfterUnflushed: entries 0..1 flushed, 2..3 applied but not flushed, entry 4 unreadable at
// GetMessage (partition.replica's error branch: IgnoreMessage only), crash: the acknowledged position
// must not have moved past 2..3 and the family's sequence must not have moved at all; after the
// restart 2..3 are replayed. Then an unreadable entry right behind a fully flushed log (acknowledged
// without a flush, family sequence stays BELOW the ack), a valid entry behind it, flush, crash.
func (r *caseRun) getFailAfterUnflushed() {
	r.opAppend(0, 0)
	r.opApply()
	r.opAppend(1, 1)
	r.opApply()
	r.opFlushMeta()
	r.opFlushIndex()
	r.opFlushData(noCrash, false)
	r.opAppend(0, 1)
	r.opApply()
	r.opAppend(1, 0)
	r.opApply()
	r.opAppendBad()
	r.opGetFail()
	r.opCrash()
	if r.stop() {
		return
	}
	// after the restart: 2, 3 replayed, the unreadable entry fails again (family sequence 3, ack 1)
	r.opApply()
	r.opApply()
	r.opGetFail()
	r.opFlushMeta()
	r.opFlushIndex()
	r.opFlushData(noCrash, false)
	// fully flushed log (stored 3, ack 3, consumed 4): the next unreadable entry IS acknowledged
	r.opAppendBad()
	r.opGetFail()
	r.opAppend(0, 0)
	r.opApply()
	r.opCrash()
	if r.stop() {
		return
	}
	r.applyAll()
	r.opFlushMeta()
	r.opFlushIndex()
	r.opFlushData(noCrash, false)
	r.opCrash()
}

// noRowsEntries: entries that decompress but yield no rows (empty block, unmarshal panic) between valid
// ones: Replica commits their sequence without acknowledging anything; crash before and after a flush.
func (r *caseRun) noRowsEntries() {
	r.opAppend(0, 0)
	r.opApply()
	r.opAppendNoRows(1)
	r.opApply()
	r.opAppendNoRows(2)
	r.opApply()
	r.opCrash()
	if r.stop() {
		return
	}
	r.applyAll()
	r.opFlushMeta()
	r.opFlushIndex()
	r.opFlushData(noCrash, false)
	// behind a fully flushed log: the family's sequence moves past the stored one, the ack stays
	r.opAppendNoRows(2)
	r.opApply()
	r.opAppendNoRows(1)
	r.opGetFail()
	r.opAppend(1, 1)
	r.opApply()
	r.opCrash()
	if r.stop() {
		return
	}
	r.applyAll()
	r.opFlushMeta()
	r.opFlushIndex()
	r.opFlushData(noCrash, false)
	r.opCrash()
}

// replicaInsideFlush: entry 0 unflushed in the memory database; Flush switches it to immutable, and
// before the table is written a whole Replica of entry 1 runs; crash before the next flush.
func (r *caseRun) replicaInsideFlush() {
	r.opAppend(0, 0)
	r.opApply()
	r.opFlushMeta()
	r.opFlushIndex()
	r.opAppend(0, 0)
	r.opFlushDataInnerApply()
	r.opCrash()
}

// metaFlushFailsThenRetry: the table file of a metadata store cannot be created in one round; the
// next round succeeds; data is flushed; restart.
func (r *caseRun) metaFlushFailsThenRetry(store string) {
	r.opAppend(0, 0)
	r.opApply()
	r.opFlushMetaFail(store)
	if r.stop() {
		return
	}
	r.opFlushMeta()
	r.opFlushIndex()
	r.opFlushData(noCrash, false)
	r.opCrash()
}

// closeAfterFailedFlush: a data flush fails after the memdb switch (e0 stays in the immutable memory
// database), e1 and e2 are replicated into the new one, the family is closed; the node dies inside
// Close after its first file (crashFile 0) or after Close.
func (r *caseRun) closeAfterFailedFlush(crashFile, crashAt int) {
	r.opAppend(0, 0)
	r.opApply()
	r.opFlushMeta()
	r.opFlushIndex()
	r.opFlushDataFail()
	if r.stop() {
		return
	}
	r.opAppend(0, 0)
	r.opApply()
	r.opAppend(0, 0)
	r.opApply()
	r.opFlushData(noCrash, false) // no-op: the immutable memory database is pending
	r.opClose(crashFile, crashAt)
}

// followerLog: the node holds only the log of ANOTHER leader (it is a follower for the family);
// a crash between the data commit and the acknowledgement, restart through Recovery().
func (r *caseRun) followerLog() {
	r.opAppend(0, 0)
	r.opAppend(1, 1)
	r.applyAll()
	r.opFlushMeta()
	r.opFlushIndex()
	r.opFlushData(crashMid, false)
	if r.stop() {
		return
	}
	r.opAppend(0, 0)
	r.applyAll()
	r.opCrash()
}

// leaderAndFollowerLogs: the node is leader (log 1) and follower (log 2) for the same family hour;
// log 1 is flushed up to sequence 2, log 2 has two consumed but unflushed entries; restart.
func (r *caseRun) leaderAndFollowerLogs() {
	r.use(1)
	for i := 0; i < 3; i++ {
		r.opAppend(i, 0)
	}
	r.applyAll()
	r.opFlushMeta()
	r.opFlushIndex()
	r.opFlushData(noCrash, false)
	r.use(2)
	r.opAppend(0, 0)
	r.opAppend(1, 0)
	r.applyAll()
	r.opCrash()
	if r.stop() {
		return
	}
	r.applyAllLanes()
	r.opFlushMeta()
	r.opFlushIndex()
	r.opFlushData(crashMid, false)
}

// expiredTwoLogs: a family hour past its write window with the logs of two leaders. Both are flushed
// and acknowledged; a late entry reaches log `late` and is applied but not flushed; one tick of the
// WAL garbage collector (the other log is expired and fully acknowledged: ITS directory may go);
// crash. The late entry must still be replayable.
func (r *caseRun) expiredTwoLogs(late models.NodeID, n int) {
	for _, l := range r.leaders {
		r.use(l)
		for i := 0; i < n; i++ {
			r.opAppend(i%3, int(l)%2)
		}
	}
	r.applyAllLanes()
	r.opFlushMeta()
	r.opFlushIndex()
	r.opFlushData(noCrash, false)
	if r.stop() {
		return
	}
	r.use(late)
	r.opAppend(0, 0)
	r.applyAll()
	r.opGC()
	if r.stop() {
		return
	}
	r.opCrash()
	if r.stop() {
		return
	}
	r.applyAllLanes()
	r.opFlushMeta()
	r.opFlushIndex()
	r.opFlushData(noCrash, false)
	if r.stop() {
		return
	}
	r.opGC()
	if r.stop() {
		return
	}
	r.opCrash()
}

// indexFlushFails: a series that is new in this round; the table file of the index store cannot be
// created. whole: inside the flush checker's doFlush (the round must stop there), crash, replay.
// Otherwise FlushIndex alone, the retry, the data flush, crash.
func (r *caseRun) indexFlushFails(whole bool) {
	r.opAppend(0, 0)
	r.opApply()
	if whole {
		r.opFlushIndexFail(true)
		if r.stop() {
			return
		}
		r.opCrash()
		return
	}
	r.opFlushMeta()
	r.opFlushIndexFail(false)
	if r.stop() {
		return
	}
	r.opFlushIndex()
	r.opFlushData(noCrash, false)
	r.opCrash()
}

// shutdownCase: two entries with new names in memory only (optionally a failed data flush before the
// second), graceful shutdown with a crash image at the chosen point, restart.
func (r *caseRun) shutdownCase(failedFlush bool, crashTable, crashFile, crashAt int) {
	r.opAppend(0, 0)
	r.opApply()
	if failedFlush {
		r.opFlushMeta()
		r.opFlushIndex()
		r.opFlushDataFail()
		if r.stop() {
			return
		}
	}
	r.opAppend(1, 1)
	r.opApply()
	r.opShutdown(crashTable, crashFile, crashAt)
}

// witnessGap: Neg.gapTrace on the real node — a whole family.Flush between GetOrCreateMemoryDatabase
// and AcquireWrite of entry 1's WriteRows.
func (r *caseRun) witnessGap() {
	r.opAppend(0, 0)
	r.opApply()
	r.opFlushMeta()
	r.opFlushIndex()
	r.opAppend(0, 0)
	r.opApplyInj(injGap)
	r.opAppend(0, 0)
	r.opApply()
	r.opFlushMeta()
	r.opFlushIndex()
	r.opFlushData(noCrash, false)
	r.opCrash()
}

// flushInsideReplica: a whole flush after ValidateSequence and before WriteRows of entry 1, with
// entry 0 still unflushed in the memory database, then a crash (the schedule that exposes a
// sequence committed before its rows are written).
func (r *caseRun) flushInsideReplica() {
	r.opAppend(0, 0)
	r.opApply()
	r.opFlushMeta()
	r.opFlushIndex()
	r.opAppend(0, 0)
	r.opApplyInj(injBeforeWrite)
	r.opCrash()
}

// crashInsideIndexFlush: a series that is new in this round; the node dies inside shard.FlushIndex
// right before the k-th table file it creates (k = 0..3: metric postings, forward, inverted, series
// dictionary); restart, replay: the entry must be found by metric name and tag.
func (r *caseRun) crashInsideIndexFlush(k int) {
	r.opAppend(0, 0)
	r.opApply()
	r.opFlushMeta()
	r.innerK = k
	if !r.opFlushInnerCrash(innerIndex) {
		r.opFlushData(noCrash, false)
		r.opCrash()
	}
}

// crashAtManifestRecord: two entries with new names, a flush round in doFlush's order; the node dies inside
// the round's FlushMeta / FlushIndex / family.Flush right before (after = false) or right after the sync
// of the k-th manifest record that call writes. Data flush, before: the table file exists but no manifest
// names it (orphan), nothing is stored or acknowledged, both entries are replayed. Data flush, after: table
// and sequences are durable in one record, the log is not acknowledged, nothing may be applied again.
func (r *caseRun) crashAtManifestRecord(kind, k int, after bool) {
	r.opAppend(0, 0)
	r.opApply()
	r.opAppend(1, 1)
	r.opApply()
	r.innerK, r.innerMan, r.innerAfter = k, true, after
	defer func() { r.innerK, r.innerMan, r.innerAfter = -1, false, false }()
	if kind == innerMeta {
		if r.opFlushInnerCrash(innerMeta) {
			return
		}
	} else {
		r.opFlushMeta()
	}
	if kind == innerIndex {
		if r.opFlushInnerCrash(innerIndex) {
			return
		}
	} else {
		r.opFlushIndex()
	}
	if kind != innerData || !r.opFlushInnerCrash(innerData) {
		if kind != innerData {
			r.opFlushData(noCrash, false)
		}
		r.opCrash()
		return
	}
	if r.stop() {
		return
	}
	// the node restarted from the image: replay, one more entry, an orderly round, crash
	r.applyAll()
	r.opAppend(2, 0)
	r.opApply()
	r.opFlushMeta()
	r.opFlushIndex()
	r.opFlushData(noCrash, false)
	r.opCrash()
}

// expiredFamily: the WAL garbage collector on a family whose write window closed hours ago.
func (r *caseRun) stop() bool { return r.broken || r.tainted || r.terminal || r.n == nil }

func (r *caseRun) expiredFamily() {
	rng := r.rng
	n := 1 + rng.Intn(3)
	for i := 0; i < n; i++ {
		r.opAppend(200+i, rng.Intn(2))
	}
	r.applyAll()
	r.opGC() // consumed but not flushed: the log must stay
	if r.stop() {
		return
	}
	if rng.Intn(2) == 0 {
		r.opCrash()
		if r.stop() {
			return
		}
		r.applyAll()
		r.opGC()
		if r.stop() {
			return
		}
	}
	if rng.Intn(3) == 0 {
		r.opAppend(300, 0) // appended, not even consumed
		r.opGC()
		if r.stop() {
			return
		}
		r.applyAll()
	}
	r.opFlushMeta()
	r.opFlushIndex()
	crashAt := []int{noCrash, noCrash, crashMid, crashAck}[rng.Intn(4)]
	r.opFlushData(crashAt, false)
	if r.stop() {
		return
	}
	r.applyAll()
	if crashAt == crashMid {
		// the image had the data committed but not acknowledged; recovery acknowledged it
		r.opGC()
	}
	r.opGC() // everything acknowledged: the directory may go
	if rng.Intn(2) == 0 {
		r.opGC()
	}
	r.opCrash()
	if r.stop() {
		return
	}
	r.opFlushMeta()
	r.opGC()
	if rng.Intn(2) == 0 {
		r.opCrash()
	}
}

// ---------------------------------------------------------------- random histories

// randomCase builds a history op by op from the state reached so far.
//
// disciplined: flush rounds run in doFlush's order, every round is preceded by an entry with a
// brand-new metric (so that no dictionary prepares an empty map) and entries applied inside a
// round reuse names that existed before the round started. Under these rules C07 must hold.
// wild: no such care; the rounds still run in doFlush's order, but writes with new names may fall
// between the steps and rounds may find nothing new (the two regions of the recorded findings).
func (r *caseRun) randomCase(disciplined bool) {
	rng := r.rng
	nOps := 10 + rng.Intn(14)
	if r.c.Tier == "thorough" {
		nOps = 14 + rng.Intn(26)
	}
	nextFresh := 0 // metric numbers never used before in this case
	freshMetric := func() int { nextFresh++; return 100 + nextFresh }
	var known [][2]int // (metric, tagv) pairs applied in the current process lifetime or durable
	pick := func() (int, int) {
		if len(known) == 0 || rng.Intn(3) == 0 {
			return rng.Intn(4), rng.Intn(3)
		}
		p := known[rng.Intn(len(known))]
		return p[0], p[1]
	}
	appendAndMaybeApply := func(m, t int) {
		r.opAppend(m, t)
		if rng.Intn(4) != 0 {
			r.applyAll()
			known = append(known, [2]int{m, t})
		}
	}
	if !r.multi() && r.cur == leader && !r.expired && r.idx%5 == 2 {
		// every fifth history: the leader's log also feeds a remote follower (second consumer group); its
		// acknowledgements and the WAL GC ticks are derived from the history so far (no draw from rng: the
		// other cases' histories stay as they were)
		r.opPeerJoin()
	}
	crashes := 0
	maybeCrash := func(p int) bool {
		if r.broken || r.tainted || r.terminal || crashes >= 3 || rng.Intn(100) >= p {
			return false
		}
		crashes++
		r.opCrash()
		if disciplined {
			known = nil // conservative: after a crash only use names again via fresh writes
		}
		return true
	}
	// an entry with names that existed before the running round, applied with a whole flush placed
	// inside lindb's Replica
	injected := func() bool {
		if r.n.pending() || len(known) == 0 {
			return false
		}
		p := known[rng.Intn(len(known))]
		r.opAppend(p[0], p[1])
		switch x := rng.Intn(20); {
		case x < 9:
			r.opApplyInj(injBeforeWrite)
		case x < 18:
			r.opApplyInj(injBeforeCommit)
		default:
			r.opApplyInj(injGap)
		}
		return true
	}
	for i := 0; i < nOps && !r.broken && !r.tainted && !r.terminal && len(r.entries) < 300; i++ {
		if r.multi() {
			// partition ops go to a random leader's log
			r.use(r.leaders[rng.Intn(len(r.leaders))])
		}
		if !r.multi() && r.frozenPending && rng.Intn(4) == 0 {
			// shutdown with the immutable memory database still pending, in database.Close's order:
			// flushMeta, FlushIndex of the shard, then shard.Close -> segment.Close -> dataFamily.Close
			// (a lone Close would persist rows whose names no flush has seen; lindb never does that)
			cf, ca := rng.Intn(2), []int{noCrash, crashMid, crashAck}[rng.Intn(3)]
			if !r.expired && rng.Intn(2) == 0 {
				// lindb's own shutdown
				ct := -1
				if rng.Intn(2) == 0 {
					ct = rng.Intn(10)
				}
				r.opShutdown(ct, cf, ca)
				if disciplined {
					known = nil
				}
				continue
			}
			r.opFlushMeta()
			r.opFlushIndex()
			if r.stop() {
				break
			}
			r.opClose(cf, ca)
			if disciplined {
				known = nil
			}
			continue
		}
		switch k := rng.Intn(100); {
		case k < 4:
			// a log entry that does not decompress
			if kind := len(r.entries) % 3; kind == 0 {
				r.opAppendBad()
			} else {
				r.opAppendNoRows(kind)
			}
			switch rng.Intn(3) {
			case 1:
				r.applyAll()
			case 2:
				// the unreadable entry fails one level earlier: GetMessage error in partition.replica
				r.applyAllGetFail()
			}
		case k < 40:
			m, t := pick()
			appendAndMaybeApply(m, t)
		case k < 50:
			r.applyAll()
		case k < 55:
			if r.peer && r.n.part != nil {
				// the follower acknowledged everything / all but the last one or two entries, then GC ticks
				r.opPeerAck(r.n.fq.Queue().AppendedSeq() - int64((len(r.entries)+i)%3))
				r.opQSync(3)
			} else {
				r.opGC()
			}
		case k < 59:
			maybeCrash(100)
		case k < 62:
			if r.multi() || r.expired || crashes >= 3 {
				maybeCrash(100)
				break
			}
			// graceful shutdown (the real engine close path) with a crash image somewhere inside, or after it
			crashes++
			ct := -1
			if rng.Intn(2) == 0 {
				ct = rng.Intn(10)
			}
			r.opShutdown(ct, rng.Intn(2), []int{noCrash, crashMid, crashAck}[rng.Intn(3)])
			if disciplined {
				known = nil
			}
		case k < 70 && !disciplined:
			// a lone flush step outside a round (still never data before meta/index of the same round)
			if rng.Intn(2) == 0 {
				r.opFlushMeta()
			} else {
				r.opFlushIndex()
			}
		default:
			// one doFlush round
			if disciplined {
				r.applyAll() // entries appended earlier carry names that may be new
				m := freshMetric()
				r.opAppend(m, rng.Intn(3))
				r.applyAll()
				known = append(known, [2]int{m, r.entries[len(r.entries)-1].Tagv})
			}
			inRound := func() bool {
				// entries applied between the steps of the round
				if rng.Intn(3) != 0 {
					return false
				}
				if disciplined {
					if len(known) == 0 {
						return false
					}
					p := known[rng.Intn(len(known))]
					r.opAppend(p[0], p[1])
					r.opApply()
				} else {
					m, t := pick()
					if rng.Intn(2) == 0 {
						m = freshMetric()
					}
					r.opAppend(m, t)
					r.applyAll()
					known = append(known, [2]int{m, t})
				}
				return true
			}
			crashAt := noCrash
			if crashes < 3 {
				switch x := rng.Intn(10); {
				case x < 3:
					crashAt = crashMid
				case x < 5:
					crashAt = crashAck
				}
			}
			if rng.Intn(3) == 0 {
				// the flush checker's own doFlush: the whole round in one call
				if !r.multi() && !r.frozenPending && rng.Intn(8) == 0 {
					// ... in which the index table file cannot be created: the round stops there; the next one retries
					r.opFlushIndexFail(true)
					if r.stop() {
						break
					}
				}
				if crashAt != noCrash {
					crashes++
					if disciplined {
						known = nil
					}
				}
				r.opFlushData(crashAt, true)
				maybeCrash(15)
				continue
			}
			// a crash INSIDE one of the three flush calls (before the k-th table file it creates) ends the case
			inner := -1
			if disciplined && rng.Intn(5) == 0 {
				inner = rng.Intn(3)
				// half of them at a manifest record of the call (before / after its sync) instead of a table file
				r.innerMan, r.innerAfter = rng.Intn(2) == 0, rng.Intn(2) == 0
			}
			if inner == innerMeta && r.opFlushInnerCrash(innerMeta) {
				continue
			} else if inner != innerMeta {
				if rng.Intn(8) == 0 {
					// a file-system error in this round's metadata flush, retried at once
					r.opFlushMetaFail([]string{"metric", "tv"}[rng.Intn(2)])
					if r.stop() {
						break
					}
				}
				r.opFlushMeta()
			}
			if maybeCrash(8) {
				continue
			}
			inRound()
			if r.broken {
				break
			}
			if inner == innerIndex && r.opFlushInnerCrash(innerIndex) {
				continue
			} else if inner != innerIndex {
				if rng.Intn(14) == 0 {
					// a file-system error in this round's index flush, retried at once
					r.opFlushIndexFail(false)
					if r.stop() {
						break
					}
				}
				r.opFlushIndex()
			}
			if maybeCrash(8) {
				continue
			}
			inRound()
			if r.broken {
				break
			}
			if inner == innerData {
				if r.opFlushInnerCrash(innerData) {
					continue
				}
			} else if !r.multi() && !r.frozenPending && rng.Intn(10) == 0 {
				// the table file of this round's data flush cannot be created
				r.opFlushDataFail()
			} else if !r.multi() && rng.Intn(12) == 0 {
				r.opClose(rng.Intn(2), []int{noCrash, crashMid, crashAck}[rng.Intn(3)])
				if disciplined {
					known = nil
				}
			} else if rng.Intn(4) == 0 && injected() {
				// the flush of this round ran inside Replica
			} else if rng.Intn(6) == 0 && !r.n.pending() && len(known) > 0 {
				// a whole Replica of an entry with old names inside this round's family flush
				p := known[rng.Intn(len(known))]
				r.opAppend(p[0], p[1])
				r.opFlushDataInnerApply()
			} else {
				if crashAt != noCrash {
					crashes++
					if disciplined {
						known = nil
					}
				}
				r.opFlushData(crashAt, false)
			}
			maybeCrash(15)
		}
	}
	if !r.broken && !r.tainted && !r.terminal && rng.Intn(2) == 0 {
		r.opCrash()
	}
}

// ---------------------------------------------------------------- Run

// lastScripted: cases 0..lastScripted are fixed histories
const lastScripted = 35

func (area) Run(c *core.Ctx) error {
	repo := os.Getenv("VERIF_REPO")
	if repo == "" {
		repo = "/repo"
	}
	swap, _, err := extract.C07SwapOnEmpty(repo)
	if err != nil {
		// unknown code shape: behave like the model (which then fails to build by name); assume no wedge
		swap = true
	}
	now := time.Now().UnixMilli()
	hour := now - now%3600000
	for i := 0; i < c.N; i++ {
		if !c.Want(i) {
			continue
		}
		c.Begin(i)
		r := &caseRun{c: c, idx: i, rng: c.Rng(i), famTime: hour, ids: map[int64][]ids{}, lossFate: map[int64]string{},
			sh: &shadow{metric: newDict(), tagv: newDict(), index: newDict(), swapOnEmpty: swap, fate: map[int64]string{}, idxFate: map[string]string{}}}
		r.innerK = -1
		if i == 17 {
			r.leaders = []models.NodeID{2}
		}
		if i == 18 {
			r.leaders = []models.NodeID{1, 2}
		}
		if i > lastScripted && i%16 == 9 {
			r.leaders = []models.NodeID{1, 2}
		}
		if i > lastScripted && i%16 == 1 {
			r.leaders = []models.NodeID{2}
		}
		if i == 19 || (i > lastScripted && i%16 == 14) {
			// two leaders' logs in an expired family hour
			r.leaders = []models.NodeID{1, 2}
		}
		if i == 5 || i == 19 || (i > lastScripted && i%8 == 6) {
			// a family whose hour ended 5 hours ago: with ahead = 1h it is past its write window
			r.expired, r.famTime = true, hour-6*3600000
		}
		func() {
			defer r.cleanup()
			if !r.start() {
				return
			}
			switch {
			case i == 0:
				c.Branch("witness-window")
				r.witnessWindow()
			case i == 1:
				c.Branch("witness-wedge")
				r.witnessWedge()
			case i == 2:
				c.Branch("observation-b")
				r.observationB()
			case i == 3:
				c.Branch("witness-gap")
				r.witnessGap()
			case i == 4:
				c.Branch("flush-inside-replica")
				r.flushInsideReplica()
			case r.expired && r.multi():
				c.Branch("expired-family-two-logs")
				if i == 19 {
					r.expiredTwoLogs(2, 1)
				} else {
					r.expiredTwoLogs(r.leaders[r.rng.Intn(2)], 1+r.rng.Intn(3))
				}
			case r.expired:
				c.Branch("expired-family")
				r.expiredFamily()
			case i >= 6 && i <= 9:
				c.Branch("crash-inside-index-flush-scripted")
				r.crashInsideIndexFlush(i - 6)
			case i == 10:
				c.Branch("corrupt-after-unflushed")
				r.corruptAfterUnflushed()
			case i == 11:
				c.Branch("replica-inside-flush-scripted")
				r.replicaInsideFlush()
			case i == 12 || i == 13:
				c.Branch("meta-flush-fails-then-retry")
				r.metaFlushFailsThenRetry([]string{"metric", "tv"}[i-12])
			case i >= 14 && i <= 16:
				c.Branch("close-after-failed-flush")
				r.closeAfterFailedFlush([][2]int{{0, crashAck}, {0, crashMid}, {1, noCrash}}[i-14][0], [][2]int{{0, crashAck}, {0, crashMid}, {1, noCrash}}[i-14][1])
			case i == 17:
				c.Branch("follower-log")
				r.followerLog()
			case i == 18:
				c.Branch("leader-and-follower-logs")
				r.leaderAndFollowerLogs()
			case i == 20 || i == 21:
				c.Branch("index-flush-fails-scripted")
				r.indexFlushFails(i == 20)
			case i >= 22 && i <= 25:
				c.Branch("shutdown-scripted")
				x := [][4]int{{0, -1, 0, crashMid}, {0, -1, 0, crashAck}, {1, -1, 1, crashMid}, {0, -1, 0, noCrash}}[i-22]
				r.shutdownCase(x[0] == 1, x[1], x[2], x[3])
			case i >= 26 && i <= 31:
				c.Branch("crash-at-manifest-record-scripted")
				x := [][3]int{{innerData, 0, 0}, {innerData, 0, 1}, {innerMeta, 0, 1}, {innerMeta, 1, 0}, {innerIndex, 0, 1}, {innerIndex, 2, 0}}[i-26]
				r.crashAtManifestRecord(x[0], x[1], x[2] == 1)
			case i == 34 || i == 35:
				c.Branch("follower-group-before-first-flush")
				r.followerGroupBeforeFirstFlush([]int{3, 10}[i-34])
			case i == 33:
				c.Branch("no-rows-entries")
				r.noRowsEntries()
			case i == 32:
				c.Branch("getmessage-fails-after-unflushed")
				r.getFailAfterUnflushed()
			case i%4 == 3:
				c.Branch("wild")
				r.randomCase(false)
			default:
				c.Branch("disciplined")
				r.randomCase(true)
			}
			r.finish()
			if r.tainted {
				c.Branch("stopped-after-name-loss")
			}
		}()
	}
	return nil
}
