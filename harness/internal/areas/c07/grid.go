package c07

// Area "grid": ONE storage node with SEVERAL shards, SEVERAL family hours per shard and one or two
// leaders' log partitions per family (property C07, model Model/C07Grid.lean). Everything that walks
// the node is lindb's own code: WriteAheadLogManager.Recovery (shards -> family hours -> leaders),
// the WAL garbage-collect tick (destroy -> IsExpire of every partition), the flush checker's doFlush
// over a request with several shards and families, engine.Close (database.Close -> every shard ->
// every segment -> every family's Close) and dataFamily.Close of a single family. The harness calls
// them, images the node directory at op boundaries, at the MANIFEST record of a family's data commit
// (right before / right after its sync) and after the acknowledgements, restarts on the image and
// compares every partition's positions, data files and the dictionaries with the model.
//
// Grid cases keep to the flush discipline (metadata -> that shard's index -> family, no write in
// between), so finding 1's window is not entered here.

import (
	"context"
	"errors"
	"fmt"
	"math/rand"
	"os"
	"path/filepath"
	"sort"
	"strconv"
	"strings"
	"sync"
	"time"

	commontimeutil "github.com/lindb/common/pkg/timeutil"

	"github.com/lindb/lindb/config"
	"github.com/lindb/lindb/coordinator/storage"
	"github.com/lindb/lindb/models"
	"github.com/lindb/lindb/pkg/option"
	"github.com/lindb/lindb/pkg/queue"
	"github.com/lindb/lindb/pkg/timeutil"
	"github.com/lindb/lindb/replica"
	"github.com/lindb/lindb/rpc"
	"github.com/lindb/lindb/series/metric"
	"github.com/lindb/lindb/tsdb"
	"github.com/lindb/lindb/zzverif/internal/core"
)

type gridArea struct{}

func init() { core.Register(gridArea{}) }

func (gridArea) Name() string { return "grid" }

// gkey = one log partition <shard>/<family hour index>/<leader>.
type gkey struct {
	s, f int
	l    models.NodeID
}

func (k gkey) String() string { return fmt.Sprintf("%d.%d.%d", k.s, k.f, k.l) }

type glane struct {
	key      gkey
	part     replica.Partition
	fq       queue.FanOutQueue
	cg       queue.ConsumerGroup
	imageAck int64
	walLost  bool // destroyed by the WAL garbage collector while this process was running
}

type gnode struct {
	root     string
	famTimes []int64 // ascending = the order of the family directories in the recovery walk
	nShards  int
	eng      tsdb.Engine
	db       tsdb.Database
	shards   []tsdb.Shard
	fams     [][]tsdb.DataFamily
	mgr      replica.WriteAheadLogManager
	cancel   context.CancelFunc
	lanes    []*glane
	// mid: first of a leader's ack callbacks of a family flush (after the data commit, before that
	// leader's WAL acknowledgement); post: after it
	mid, post func(s, f int)
	closed    bool
}

// walkStop > 0: the (walkStop)-th partition that WriteAheadLogManager.Recovery creates makes the process die
// (a panic out of NewPartitionFn): the recovery walk is cut after walkStop-1 partitions.
var walkStop, walkSeen int

var gridOnce sync.Once

var errWalkDied = errors.New("process died inside the recovery walk")

func gwalDir(root string, s int, famTime int64, l models.NodeID) string {
	return filepath.Join(root, "wal", dbName, strconv.Itoa(s),
		commontimeutil.FormatTimestamp(famTime, commontimeutil.DataTimeFormat4), strconv.Itoa(int(l)))
}

func gridInstall() {
	installGlobals()
	gridOnce.Do(func() {
		prev := replica.NewPartitionFn
		replica.NewPartitionFn = func(ctx context.Context, shard tsdb.Shard, family tsdb.DataFamily, id models.NodeID,
			log queue.FanOutQueue, cliFct rpc.ClientStreamFactory, stateMgr storage.StateManager) replica.Partition {
			if walkStop > 0 {
				walkSeen++
				if walkSeen >= walkStop {
					panic(errWalkDied)
				}
			}
			return prev(ctx, shard, family, id, log, cliFct, stateMgr)
		}
	})
}

// openGrid opens (fresh dir) or recovers (crash image) the node in root. stopAt > 0 cuts the recovery walk.
func openGrid(root string, famTimes []int64, nShards int, keys []gkey, stopAt int) (n *gnode, err error) {
	gridInstall()
	setConfig(root)
	currentHooks = nil
	n = &gnode{root: root, famTimes: famTimes, nShards: nShards}
	defer func() {
		walkStop, walkSeen = 0, 0
		if r := recover(); r != nil {
			if e, ok := r.(error); ok && errors.Is(e, errWalkDied) {
				err = errWalkDied
				return
			}
			err = fmt.Errorf("panic while opening node: %v", r)
		}
	}()
	if n.eng, err = tsdb.NewEngine(); err != nil {
		return n, err
	}
	db, ok := n.eng.GetDatabase(dbName)
	if !ok {
		opt := &option.DatabaseOption{Ahead: "1h", Behind: "1d", Intervals: option.Intervals{{
			Interval: timeutil.Interval(interval), Retention: timeutil.Interval(30 * 24 * 3600 * 1000)}}}
		var ids []models.ShardID
		for s := 0; s < nShards; s++ {
			ids = append(ids, models.ShardID(s))
		}
		if err = n.eng.CreateShards(dbName, opt, ids...); err != nil {
			return n, err
		}
		db, _ = n.eng.GetDatabase(dbName)
	}
	n.db = db
	for s := 0; s < nShards; s++ {
		sh, ok := db.GetShard(models.ShardID(s))
		if !ok {
			return n, fmt.Errorf("shard %d missing after open", s)
		}
		n.shards = append(n.shards, sh)
		var fs []tsdb.DataFamily
		for _, ft := range famTimes {
			fam, e := sh.GetOrCrateDataFamily(ft)
			if e != nil {
				return n, e
			}
			fs = append(fs, fam)
		}
		n.fams = append(n.fams, fs)
	}
	for _, k := range keys {
		k := k
		n.fams[k.s][k.f].AckSequence(int32(k.l), func(int64) {
			if n.mid != nil {
				n.mid(k.s, k.f)
			}
		})
	}
	ctx, cancel := context.WithCancel(context.Background())
	n.cancel = cancel
	n.mgr = replica.NewWriteAheadLogManager(ctx, config.GlobalStorageConfig().WAL, leader, n.eng, nil, nil)
	for _, k := range keys {
		ln := &glane{key: k}
		ln.imageAck, _ = readGroupMeta(gwalDir(root, k.s, famTimes[k.f], k.l))
		n.lanes = append(n.lanes, ln)
	}
	if _, e := os.Stat(filepath.Join(root, "wal")); e == nil {
		walkStop, walkSeen = stopAt, 0
		err = n.mgr.Recovery()
		walkStop, walkSeen = 0, 0
		if err != nil {
			return n, err
		}
	}
	log := n.mgr.GetOrCreateLog(dbName)
	for _, ln := range n.lanes {
		k := ln.key
		dir := gwalDir(root, k.s, famTimes[k.f], k.l)
		_, statErr := os.Stat(filepath.Join(dir, "cg"))
		marker := filepath.Join(root, "wal-created-"+k.String())
		_, markErr := os.Stat(marker)
		if p, ok := replica.VerifHasPartition(log, models.ShardID(k.s), famTimes[k.f], k.l); ok {
			ln.part = p
		} else if statErr != nil && markErr != nil {
			if ln.part, err = log.GetOrCreatePartition(models.ShardID(k.s), famTimes[k.f], k.l); err != nil {
				return n, err
			}
			if k.l == leader {
				err = ln.part.BuildReplicaForLeader(leader, []models.NodeID{leader})
			} else {
				err = ln.part.BuildReplicaForFollower(k.l, leader)
			}
			if err != nil {
				return n, err
			}
			if err = os.WriteFile(marker, []byte("1"), 0o644); err != nil {
				return n, err
			}
		}
		if ln.part != nil {
			fq, ok := replica.VerifPartitionLog(ln.part)
			if !ok {
				return n, errors.New("partition without log")
			}
			ln.fq = fq
			if ln.cg, err = fq.GetOrCreateConsumerGroup(strconv.Itoa(int(leader))); err != nil {
				return n, err
			}
		}
		n.fams[k.s][k.f].AckSequence(int32(k.l), func(int64) {
			if n.post != nil {
				n.post(k.s, k.f)
			}
		})
	}
	return n, nil
}

func (n *gnode) anyWalLost() bool {
	for _, ln := range n.lanes {
		if ln.walLost {
			return true
		}
	}
	return false
}

// close = the abandoned process after a crash image, or the end of a case (see node.close).
func (n *gnode) close() {
	if n == nil || n.closed {
		return
	}
	n.closed = true
	n.mid, n.post = nil, nil
	done := make(chan struct{})
	go func() {
		defer close(done)
		defer func() { _ = recover() }()
		if n.mgr != nil {
			n.mgr.Stop()
		}
		if n.eng != nil && !n.anyWalLost() {
			n.eng.Close()
		}
		if n.mgr != nil {
			_ = n.mgr.Close()
		}
		if n.cancel != nil {
			n.cancel()
		}
	}()
	select {
	case <-done:
	case <-time.After(20 * time.Second):
	}
}

// view = the single-family helpers of node.go (resolve, readMetric, preregister, liveIDs) on family (s, f).
func (n *gnode) view(s, f int) *node {
	return &node{db: n.db, shard: n.shards[s], fam: n.fams[s][f], famTime: n.famTimes[f]}
}

func (n *gnode) posOf(ln *glane) positions {
	p := positions{walGone: ln.part == nil, appended: -1, consumed: -1, ack: -1}
	if ln.part != nil {
		p.appended, p.consumed, p.ack = ln.fq.Queue().AppendedSeq(), ln.cg.ConsumedSeq(), ln.cg.AcknowledgedSeq()
	}
	fam := n.fams[ln.key.s][ln.key.f]
	st := fam.GetState()
	p.seq, p.hasSeq = st.ReplicaSequences[int32(ln.key.l)]
	snap := fam.Family().GetSnapshot()
	p.stored, p.hasStored = snap.GetCurrent().GetSequences()[int32(ln.key.l)]
	snap.Close()
	return p
}

func (n *gnode) P() string {
	var parts []string
	for _, ln := range n.lanes {
		parts = append(parts, fmt.Sprintf("%s{%s}", ln.key, n.posOf(ln)))
	}
	return strings.Join(parts, " ")
}

// ---------------------------------------------------------------- one case

type gridRun struct {
	c        *core.Ctx
	rng      *rand.Rand
	n        *gnode
	roots    []string
	famTimes []int64
	nShards  int
	keys     []gkey
	entries  []entry         // all entries of the case, Slot = index
	laneOf   []int           // entry -> lane index
	perLane  [][]int         // lane index -> its entries (by sequence)
	ids      map[int64][]ids // ids the entry's names had when its rows were written
	dirty    map[[2]int]bool // families with rows in the mutable memory database
	pending  map[[2]int]bool // families whose last Flush failed: an immutable memory database is pending
	broken   bool
}

func (r *gridRun) failHarness(what string, err error) {
	r.broken = true
	r.c.Fail("harness-error", fmt.Sprintf("grid: %s: %v", what, err))
}

func (r *gridRun) newRoot() (string, error) {
	d, err := os.MkdirTemp("", "lvh-c07g-*")
	if err == nil {
		r.roots = append(r.roots, d)
	}
	return d, err
}

func (r *gridRun) cleanup() {
	tableHook, tableFail, manifestHook = nil, nil, nil
	if r.n != nil {
		r.n.close()
	}
	for _, d := range r.roots {
		os.RemoveAll(d)
	}
}

func (r *gridRun) guard(what string, f func() error) bool {
	var err error
	func() {
		defer func() {
			if p := recover(); p != nil {
				r.c.Fail("panic", fmt.Sprintf("grid: %s panicked: %v", what, p))
				err = fmt.Errorf("panic")
				r.broken = true
			}
		}()
		err = f()
	}()
	if err != nil && !r.broken {
		r.failHarness(what, err)
	}
	return err == nil
}

func (r *gridRun) start() bool {
	root, err := r.newRoot()
	if err != nil {
		r.failHarness("mkdir", err)
		return false
	}
	if r.n, err = openGrid(root, r.famTimes, r.nShards, r.keys, 0); err != nil {
		r.failHarness("open node", err)
		return false
	}
	var ks []string
	for _, k := range r.keys {
		ks = append(ks, k.String())
	}
	r.c.Op("grid "+strings.Join(ks, " "), r.n.P())
	return true
}

func (r *gridRun) lane(i int) *glane { return r.n.lanes[i] }

func (r *gridRun) opAppend(li, m, t int) {
	ln := r.lane(li)
	if ln.part == nil {
		return
	}
	e := entry{Seq: int64(len(r.perLane[li])), Metric: m, Tagv: t, Leader: ln.key.l, Slot: int64(len(r.entries))}
	if !r.guard("append", func() error {
		msg, err := e.message(r.famTimes[ln.key.f])
		if err != nil {
			return err
		}
		if ln.key.l == leader {
			return ln.part.WriteLog(msg)
		}
		idx := ln.part.ReplicaAckIndex() + 1
		got, err := ln.part.ReplicaLog(idx, msg)
		if err == nil && got != idx {
			err = fmt.Errorf("ReplicaLog(%d) answered %d", idx, got)
		}
		return err
	}) {
		return
	}
	r.entries = append(r.entries, e)
	r.laneOf = append(r.laneOf, li)
	r.perLane[li] = append(r.perLane[li], int(e.Slot))
	r.c.Op(fmt.Sprintf("%%%s append %d %d", ln.key, m, t), r.n.P())
}

func (r *gridRun) lanePending(li int) bool {
	ln := r.lane(li)
	return ln.part != nil && ln.cg.ConsumedSeq() < ln.fq.Queue().AppendedSeq()
}

// opApply = one iteration of the partition's replica loop (lindb's own partition.replica).
func (r *gridRun) opApply(li int) {
	ln := r.lane(li)
	if !r.lanePending(li) {
		return
	}
	next := ln.cg.ConsumedSeq() + 1
	if next < 0 || int(next) >= len(r.perLane[li]) {
		r.failHarness("apply", fmt.Errorf("lane %s: no entry %d", ln.key, next))
		return
	}
	e := r.entries[r.perLane[li][next]]
	v := r.n.view(ln.key.s, ln.key.f)
	if !r.guard("apply", func() error {
		if err := v.preregister(e); err != nil {
			return err
		}
		if !replica.VerifReplicaOnce(ln.part, leader) {
			return errors.New("no local replicator")
		}
		return nil
	}) {
		return
	}
	if got := v.liveIDs(e); len(got) > 0 {
		r.ids[e.Slot] = got
	}
	r.dirty[[2]int{ln.key.s, ln.key.f}] = true
	r.c.Op(fmt.Sprintf("%%%s apply", ln.key), r.n.P())
	r.c.Branch("grid-apply")
}

func (r *gridRun) flushMeta() bool {
	return r.guard("FlushMeta", func() error {
		if err := r.n.db.FlushMeta(); err != nil {
			return err
		}
		r.n.db.WaitFlushMetaCompleted()
		return nil
	})
}

func (r *gridRun) flushIndex(s int) bool {
	return r.guard("FlushIndex", func() error {
		if err := r.n.shards[s].FlushIndex(); err != nil {
			return err
		}
		r.n.shards[s].WaitFlushIndexCompleted()
		return nil
	})
}

// prefix = the dictionary part of a round in doFlush's order for shard s (step by step).
func (r *gridRun) prefix(s int) bool {
	if !r.flushMeta() {
		return false
	}
	r.c.Op("fmeta", r.n.P())
	if !r.flushIndex(s) {
		return false
	}
	r.c.Op(fmt.Sprintf("shard %d findex", s), r.n.P())
	return true
}

func (r *gridRun) segPrefix(s int) string {
	return filepath.Join(r.n.root, "data", dbName, "shard", strconv.Itoa(s), "segment") + string(filepath.Separator)
}

const (
	gNone = iota
	gPre  // right before the sync of the family's MANIFEST record (table complete, in no manifest)
	gMid  // right after it (table + sequences durable, log not acknowledged)
	gPost // after the acknowledgements
)

// imager takes ONE image of the node directory at the chosen point of record `rec` (0-based) among the
// manifest records written under shard s's segment directory while it is armed.
type imager struct {
	r    *gridRun
	img  string
	err  error
	seen int
}

func (im *imager) take() {
	if im.img != "" || im.err != nil {
		return
	}
	if im.img, im.err = im.r.newRoot(); im.err == nil {
		im.err = copyTree(im.r.n.root, im.img)
	}
}

func (im *imager) arm(s, rec, at int) {
	prefix := im.r.segPrefix(s)
	manifestHook = func(fileName string, after bool) {
		if !strings.HasPrefix(fileName, prefix) {
			return
		}
		if im.seen == rec && ((at == gPre && !after) || (at == gMid && after)) {
			im.take()
		}
		if after {
			im.seen++
		}
	}
}

func (im *imager) disarm() { manifestHook, tableHook = nil, nil }

// opFamFlush = family.Flush of (s, f) after the dictionary prefix; at != gNone: crash image at that point.
func (r *gridRun) opFamFlush(s, f, at int) {
	key := [2]int{s, f}
	if r.pending[key] || !r.prefix(s) {
		return
	}
	im := &imager{r: r}
	if at == gPre || at == gMid {
		im.arm(s, 0, at)
	}
	ok := r.guard("family.Flush", r.n.fams[s][f].Flush)
	im.disarm()
	if !ok {
		return
	}
	if at == gPost {
		im.take()
	}
	if im.err != nil {
		r.failHarness("crash image", im.err)
		return
	}
	r.dirty[key] = false
	if at == gNone || im.img == "" {
		r.c.Op(fmt.Sprintf("fam %d %d flush", s, f), r.n.P())
		r.c.Branch("grid-family-flush")
		return
	}
	n := map[int]int{gPre: 0, gMid: 2, gPost: 3}[at]
	r.c.Op(fmt.Sprintf("famcrash %d %d %d", s, f, n), "down")
	r.c.Branch([]string{"", "grid-crash-before-data-manifest-record", "grid-crash-after-data-manifest-record", "grid-crash-after-ack"}[at])
	r.recoverFrom(im.img, 0)
}

// opRound = ONE dataFlushChecker.doFlush over several shards and families (lindb's own shard / family loops).
func (r *gridRun) opRound() {
	var shards []tsdb.Shard
	var fams [][]tsdb.DataFamily
	var req []string
	for s := 0; s < r.nShards; s++ {
		if r.rng.Intn(4) == 0 {
			continue
		}
		var fs []tsdb.DataFamily
		var names []string
		for f := range r.famTimes {
			if r.pending[[2]int{s, f}] || r.rng.Intn(4) == 0 {
				continue
			}
			fs = append(fs, r.n.fams[s][f])
			names = append(names, strconv.Itoa(f))
		}
		if len(fs) == 0 {
			continue
		}
		shards, fams = append(shards, r.n.shards[s]), append(fams, fs)
		req = append(req, fmt.Sprintf("%d:%s", s, strings.Join(names, ",")))
	}
	if len(shards) == 0 {
		return
	}
	if !r.guard("doFlush", func() error { tsdb.VerifDoFlushShards(r.n.db, shards, fams); return nil }) {
		return
	}
	for i, sh := range shards {
		for _, fam := range fams[i] {
			for f := range r.famTimes {
				if r.n.fams[int(sh.ShardID())][f] == fam {
					r.dirty[[2]int{int(sh.ShardID()), f}] = false
				}
			}
		}
	}
	r.c.Op("round "+strings.Join(req, " "), r.n.P())
	r.c.Branch("grid-doFlush-round")
	if len(shards) > 1 {
		r.c.Branch("grid-doFlush-round-several-shards")
	}
}

// opFamFail = family.Flush whose table file cannot be created: the immutable memory database stays pending.
func (r *gridRun) opFamFail(s, f int) {
	key := [2]int{s, f}
	if r.pending[key] || !r.dirty[key] || !r.prefix(s) {
		return
	}
	prefix := r.segPrefix(s)
	failed := false
	tableFail = func(fileName string) error {
		if strings.HasPrefix(fileName, prefix) {
			failed = true
			return fmt.Errorf("injected: cannot create %s", fileName[len(r.n.root):])
		}
		return nil
	}
	var err error
	func() {
		defer func() {
			if p := recover(); p != nil {
				r.c.Fail("panic", fmt.Sprintf("grid: family flush with a failing table creation panicked: %v", p))
				r.broken = true
			}
		}()
		err = r.n.fams[s][f].Flush()
	}()
	tableFail = nil
	if r.broken {
		return
	}
	if !failed {
		if err != nil {
			r.failHarness("family.Flush", err)
			return
		}
		r.dirty[key] = false
		r.c.Op(fmt.Sprintf("fam %d %d flush", s, f), r.n.P())
		return
	}
	if err == nil {
		r.failHarness("family.Flush", errors.New("the table creation failed but Flush reported success"))
		return
	}
	r.pending[key] = true
	r.c.Op(fmt.Sprintf("fam %d %d freeze", s, f), r.n.P())
	r.c.Branch("grid-data-flush-failed-immutable-pending")
}

// opClose = the real dataFamily.Close of ONE family (what eviction and segment.Close call) while the other
// families of the node keep their unflushed rows; crash image at manifest record `rec` of the Close (gPre /
// gMid), after the first file's acknowledgements (gPost with rec 0 and a second file following), or after Close.
func (r *gridRun) opClose(s, f, rec, at int) {
	key := [2]int{s, f}
	if !r.prefix(s) {
		return
	}
	hadPending, hadMutable := r.pending[key], r.dirty[key]
	im := &imager{r: r}
	if at == gPre || at == gMid {
		im.arm(s, rec, at)
	} else if at == gPost && rec == 0 && hadPending && hadMutable {
		prefix := r.segPrefix(s)
		tableHook = func(fileName string) {
			if strings.HasPrefix(fileName, prefix) && im.seen >= 1 {
				im.take()
			}
		}
		manifestHook = func(fileName string, after bool) {
			if strings.HasPrefix(fileName, prefix) && after {
				im.seen++
			}
		}
	}
	ok := r.guard("dataFamily.Close", r.n.fams[s][f].Close)
	im.disarm()
	if !ok {
		return
	}
	events := 5
	if im.img != "" {
		// which prefix of closeEvs = [dataCommit, ackCallback, freeze, dataCommit, ackCallback] had happened
		switch {
		case hadPending && rec == 0:
			events = map[int]int{gPre: 0, gMid: 1, gPost: 2}[at]
		case hadPending:
			events = map[int]int{gPre: 2, gMid: 4, gPost: 5}[at]
		default:
			events = map[int]int{gPre: 0, gMid: 4, gPost: 5}[at]
		}
	} else {
		im.take()
	}
	if im.err != nil {
		r.failHarness("crash image", im.err)
		return
	}
	r.pending[key], r.dirty[key] = false, false
	r.c.Op(fmt.Sprintf("closecrash %d %d %d", s, f, events), "down")
	r.c.Branch(fmt.Sprintf("grid-close-crash-after-%d-events", events))
	if hadPending {
		r.c.Branch("grid-close-with-pending-immutable")
	}
	r.recoverFrom(im.img, 0)
}

// opShutdown = lindb's graceful shutdown (walMgr.Stop, engine.Close, walMgr.Close) over all shards and
// families. target >= 0: crash image at the first data MANIFEST record written under shard `target`
// (which must have exactly one family with anything to flush), right before / after its sync; else after the shutdown.
func (r *gridRun) opShutdown(target, at int) {
	tf := -1
	if target >= 0 {
		cnt := 0
		for f := range r.famTimes {
			if r.dirty[[2]int{target, f}] || r.pending[[2]int{target, f}] {
				cnt++
				tf = f
			}
		}
		if cnt != 1 || r.pending[[2]int{target, tf}] {
			target, tf = -1, -1
		}
	}
	im := &imager{r: r}
	if target >= 0 {
		im.arm(target, 0, at)
	}
	n := r.n
	ok := r.guard("shutdown", func() error {
		n.mgr.Stop()
		n.eng.Close()
		return nil
	})
	im.disarm()
	if !ok {
		return
	}
	if im.img == "" {
		target = -1
		im.take()
	}
	if im.err != nil {
		r.failHarness("crash image", im.err)
		return
	}
	// the rest of the shutdown of the abandoned process
	n.closed = true
	n.mid, n.post = nil, nil
	func() {
		defer func() { _ = recover() }()
		_ = n.mgr.Close()
		n.cancel()
	}()
	r.n = nil
	if target < 0 {
		r.c.Op("shutdowncrash all", "down")
		r.c.Branch("grid-shutdown-then-crash")
	} else {
		ev := map[int]int{gPre: 0, gMid: 4}[at]
		r.c.Op(fmt.Sprintf("shutdowncrash %d %d %d", target, tf, ev), "down")
		r.c.Branch([]string{"", "grid-shutdown-crash-before-data-manifest-record", "grid-shutdown-crash-after-data-manifest-record"}[at])
	}
	r.dirty, r.pending = map[[2]int]bool{}, map[[2]int]bool{}
	r.recoverOpen(im.img, 0)
}

// opGC = one tick of the WAL garbage collector over ALL partitions of the node; family hour 0 is past its
// write window. A partition whose directory went while it held unacknowledged entries ends the process at
// once (its replicator's ack callback would store into an unmapped page); so does any removal (the family's
// other callbacks stay registered).
func (r *gridRun) opGC() {
	before := make([]positions, len(r.n.lanes))
	for i, ln := range r.n.lanes {
		before[i] = r.n.posOf(ln)
	}
	if !r.guard("WAL garbage collect", func() error {
		if !replica.VerifGarbageCollect(r.n.mgr) {
			return errors.New("not lindb's WAL manager")
		}
		return nil
	}) {
		return
	}
	log := r.n.mgr.GetOrCreateLog(dbName)
	removed := false
	for i, ln := range r.n.lanes {
		if ln.part == nil {
			continue
		}
		if _, ok := replica.VerifHasPartition(log, models.ShardID(ln.key.s), r.famTimes[ln.key.f], ln.key.l); !ok {
			ln.part, ln.fq, ln.cg = nil, nil, nil
			ln.walLost = true
			removed = true
			if before[i].appended > before[i].ack {
				r.c.Branch("grid-wal-removed-under-unacknowledged-entries")
			}
		}
	}
	r.c.Op("wgc 0", r.n.P())
	r.c.Branch("grid-wal-gc-tick")
	if removed {
		r.c.Branch("grid-wal-gc-removed-a-log")
		r.opCrash(0)
	}
}

// opCrash images the node directory now and restarts from the image; stopAt > 0: the first restart dies
// inside the recovery walk after stopAt-1 partitions, is imaged again, and a second restart follows.
func (r *gridRun) opCrash(stopAt int) {
	img, err := r.newRoot()
	if err == nil {
		err = copyTree(r.n.root, img)
	}
	if err != nil {
		r.failHarness("crash image", err)
		return
	}
	r.c.Op("crash", "down")
	r.recoverFrom(img, stopAt)
}

func (r *gridRun) recoverFrom(img string, stopAt int) {
	r.n.close()
	r.n = nil
	r.dirty, r.pending = map[[2]int]bool{}, map[[2]int]bool{}
	r.recoverOpen(img, stopAt)
}

func (r *gridRun) recoverOpen(img string, stopAt int) {
	if stopAt > 0 {
		n, err := openGrid(img, r.famTimes, r.nShards, r.keys, stopAt)
		if err == nil {
			// fewer partitions than stopAt: the walk completed; carry on with this node
			r.n = n
			r.afterRecover()
			return
		}
		if !errors.Is(err, errWalkDied) {
			r.failHarness("recover (cut walk)", err)
			return
		}
		// the process died inside the walk: image what it left, abandon it
		img2, e := r.newRoot()
		if e == nil {
			e = copyTree(img, img2)
		}
		if e != nil {
			r.failHarness("crash image", e)
			return
		}
		n.close()
		r.c.Op(fmt.Sprintf("walkcrash %d 0", stopAt-1), "down")
		r.c.Branch("grid-crash-inside-recovery-walk")
		img = img2
	}
	var n *gnode
	if !r.guard("recover", func() (err error) { n, err = openGrid(img, r.famTimes, r.nShards, r.keys, 0); return err }) {
		return
	}
	r.n = n
	r.afterRecover()
}

// gridObs = what the restarted node holds durably.
type gridObs struct {
	files  map[int64]int
	unres  map[int64]bool
	names  []int
	tagv   []string
	idx    [][]string
	iunres [][]string
}

func (r *gridRun) observe() gridObs {
	o := gridObs{files: map[int64]int{}, unres: map[int64]bool{}, idx: make([][]string, r.nShards), iunres: make([][]string, r.nShards)}
	type ck struct {
		s, f int
		m    metric.ID
	}
	cache := map[ck]map[uint32]map[int]float64{}
	read := func(s, f int, mid metric.ID) map[uint32]map[int]float64 {
		k := ck{s, f, mid}
		if v, ok := cache[k]; ok {
			return v
		}
		v := r.n.view(s, f).readMetric(mid)
		cache[k] = v
		return v
	}
	seenM, seenT := map[int]bool{}, map[string]bool{}
	seenI := make([]map[string]bool, r.nShards)
	for s := range seenI {
		seenI[s] = map[string]bool{}
	}
	for i, e := range r.entries {
		k := r.keys[r.laneOf[i]]
		cnt := 0
		for _, id := range r.ids[e.Slot] {
			if row, ok := read(k.s, k.f, id.metricID)[id.seriesID]; ok {
				cnt += int(row[int(e.Slot)])
			}
		}
		if cnt > 0 {
			o.files[e.Slot] = cnt
		}
		v := r.n.view(k.s, k.f)
		sids, mid, err := v.resolve(e)
		if !seenM[e.Metric] && (err == nil || !(strings.HasPrefix(err.Error(), "metric:") || strings.HasPrefix(err.Error(), "schema:"))) {
			seenM[e.Metric] = true
			o.names = append(o.names, e.Metric)
		}
		pk := pairKey(e.Metric, e.Tagv)
		if !seenT[pk] && (err == nil || strings.HasPrefix(err.Error(), "series:")) {
			seenT[pk] = true
			o.tagv = append(o.tagv, pk)
		}
		if !seenI[k.s][pk] {
			if err == nil {
				seenI[k.s][pk] = true
				o.idx[k.s] = append(o.idx[k.s], pk)
			} else if r.postingDurable(k.s, e) {
				seenI[k.s][pk] = true
				o.iunres[k.s] = append(o.iunres[k.s], pk)
			}
		}
		if cnt > 0 {
			named := 0
			if err == nil {
				for _, sid := range sids {
					if row, ok := read(k.s, k.f, mid)[sid]; ok {
						named += int(row[int(e.Slot)])
					}
				}
			}
			if err != nil || named == 0 {
				o.unres[e.Slot] = true
			}
		}
	}
	return o
}

func (r *gridRun) postingDurable(s int, e entry) bool {
	for i, o := range r.entries {
		if o.Metric != e.Metric || o.Tagv != e.Tagv || r.keys[r.laneOf[i]].s != s {
			continue
		}
		for _, id := range r.ids[o.Slot] {
			bm, err := r.n.shards[s].IndexDB().GetSeriesIDsForMetric(id.metricID)
			if err == nil && bm != nil && bm.Contains(id.seriesID) {
				return true
			}
		}
	}
	return false
}

func (r *gridRun) render(o gridObs) string {
	var fs, us []string
	for li, k := range r.keys {
		var f, u []string
		for _, slot := range r.perLane[li] {
			e := r.entries[slot]
			if o.files[e.Slot] > 0 {
				f = append(f, fmt.Sprintf("%d:%d", e.Seq, o.files[e.Slot]))
			}
			if o.unres[e.Slot] {
				u = append(u, strconv.FormatInt(e.Seq, 10))
			}
		}
		fs = append(fs, fmt.Sprintf("files%s=%s", k, strings.Join(f, ",")))
		us = append(us, fmt.Sprintf("unres%s=%s", k, strings.Join(u, ",")))
	}
	sort.Ints(o.names)
	var ns []string
	for _, m := range o.names {
		ns = append(ns, strconv.Itoa(m))
	}
	sortPairKeys(o.tagv)
	out := strings.Join(fs, " ") + " " + strings.Join(us, " ") + fmt.Sprintf(" names=%s tagv=%s", strings.Join(ns, ","), strings.Join(o.tagv, ","))
	for s := 0; s < r.nShards; s++ {
		sortPairKeys(o.idx[s])
		sortPairKeys(o.iunres[s])
		out += fmt.Sprintf(" idx%d=%s iunres%d=%s", s, strings.Join(o.idx[s], ","), s, strings.Join(o.iunres[s], ","))
	}
	return out
}

// afterRecover compares the restarted node with the model and evaluates C07's clauses on the image, for
// every partition of every shard and family hour.
func (r *gridRun) afterRecover() {
	obs := r.observe()
	r.c.Op("recover", r.n.P()+" "+r.render(obs))
	r.c.NonTrivial()
	for li, ln := range r.n.lanes {
		p := r.n.posOf(ln)
		stored := int64(-1)
		if p.hasStored {
			stored = p.stored
		}
		// clause 1: the acknowledged position found in the image never exceeds the sequence stored with the data
		if ln.imageAck > stored {
			r.c.Fail(keyAckGtStored, fmt.Sprintf("crash image: partition %s: the consumer group ack %d exceeds the sequence %d stored with the family's data", ln.key, ln.imageAck, stored))
		}
		// clause 3: every appended entry is in a data file of its family or still in its log above the ack
		for _, slot := range r.perLane[li] {
			e := r.entries[slot]
			if obs.files[e.Slot] > 0 {
				continue
			}
			if ln.part != nil && e.Seq > p.ack {
				if _, err := ln.fq.Queue().Get(e.Seq); err == nil {
					continue
				}
			}
			if ln.part == nil {
				what := "the write-ahead log directory is gone"
				if _, err := os.Stat(gwalDir(r.n.root, ln.key.s, r.famTimes[ln.key.f], ln.key.l)); err == nil {
					what = "its log directory exists but the recovery walk did not open the partition"
				}
				r.c.Fail(keyLost, fmt.Sprintf("entry %d of partition %s is in no data file and %s", e.Seq, ln.key, what))
			} else {
				r.c.Fail(keyLost, fmt.Sprintf("entry %d of partition %s is in no data file and not replayable (ack=%d appended=%d)", e.Seq, ln.key, p.ack, p.appended))
			}
		}
		// clause 4: flushed rows resolve by name
		for _, slot := range r.perLane[li] {
			if obs.unres[int64(slot)] {
				e := r.entries[slot]
				r.c.Fail(keyUnresolved, fmt.Sprintf("entry %d of partition %s (%s host=%s): rows are in a data file but its names do not resolve after recovery", e.Seq, ln.key, metricName(e.Metric), tagValue(e.Tagv)))
			}
		}
	}
	for s := 0; s < r.nShards; s++ {
		for _, pk := range obs.iunres[s] {
			r.c.Fail(keyIdxUnres, fmt.Sprintf("shard %d, series %s: its index posting is durable but its names do not resolve after recovery", s, pk))
		}
	}
	// the ids an entry's names had are those of the process that died: they stay meaningful only for rows that
	// are in a data file (the dictionaries that issued them were flushed before). For every other entry the
	// restarted node may issue the same ids to other names; forget them until the entry is applied again.
	for _, e := range r.entries {
		if obs.files[e.Slot] == 0 {
			delete(r.ids, e.Slot)
		}
	}
}

// finish replays every partition's log and checks that every entry is stored exactly once in ITS family and
// is returned by a lookup by metric name and tag.
func (r *gridRun) finish() {
	if r.broken || r.n == nil {
		return
	}
	for li := range r.n.lanes {
		for i := 0; i < len(r.entries)+1 && r.lanePending(li) && !r.broken; i++ {
			r.opApply(li)
		}
	}
	if r.broken {
		return
	}
	for i, e := range r.entries {
		k := r.keys[r.laneOf[i]]
		if r.n.lanes[r.laneOf[i]].part == nil && len(r.ids[e.Slot]) == 0 {
			continue // never applied and its log is (legitimately or not: clause 3 said so) gone
		}
		v := r.n.view(k.s, k.f)
		cnt := 0
		cache := map[metric.ID]map[uint32]map[int]float64{}
		read := func(mid metric.ID) map[uint32]map[int]float64 {
			if x, ok := cache[mid]; ok {
				return x
			}
			x := v.readMetric(mid)
			cache[mid] = x
			return x
		}
		for _, id := range r.ids[e.Slot] {
			if row, ok := read(id.metricID)[id.seriesID]; ok {
				cnt += int(row[int(e.Slot)])
			}
		}
		if cnt == 0 {
			r.c.Fail(keyNotReplayed, fmt.Sprintf("entry %d of partition %s is neither in memory nor in a data file after the log was replayed", e.Seq, k))
			continue
		}
		if cnt > 1 {
			r.c.Fail(keyReplayBelow, fmt.Sprintf("entry %d of partition %s is stored %d times after recovery and replay: an entry at or below the stored sequence was applied again", e.Seq, k, cnt))
		}
		sids, mid, err := v.resolve(e)
		named := 0
		if err == nil {
			for _, sid := range sids {
				if row, ok := read(mid)[sid]; ok {
					named += int(row[int(e.Slot)])
				}
			}
		}
		if err != nil || named == 0 {
			r.c.Fail(keyNoName, fmt.Sprintf("entry %d of partition %s (%s host=%s) is stored but a lookup by metric name and tag does not return it after recovery and replay: %v",
				e.Seq, k, metricName(e.Metric), tagValue(e.Tagv), err))
		}
	}
}

// ---------------------------------------------------------------- cases

func (r *gridRun) randLane() int { return r.rng.Intn(len(r.keys)) }

// randFamily prefers (3 in 4) a family that has something to flush.
func (r *gridRun) randFamily() (int, int) {
	var cand [][2]int
	for s := 0; s < r.nShards; s++ {
		for f := range r.famTimes {
			if r.dirty[[2]int{s, f}] || r.pending[[2]int{s, f}] {
				cand = append(cand, [2]int{s, f})
			}
		}
	}
	if len(cand) > 0 && r.rng.Intn(4) != 0 {
		k := cand[r.rng.Intn(len(cand))]
		return k[0], k[1]
	}
	return r.rng.Intn(r.nShards), r.rng.Intn(len(r.famTimes))
}

func (r *gridRun) applyAll() {
	for li := range r.keys {
		for i := 0; i < 64 && r.n != nil && !r.broken && r.lanePending(li); i++ {
			r.opApply(li)
		}
	}
}

func (r *gridRun) stop() bool { return r.broken || r.n == nil }

// scripted 0: every partition gets entries, one doFlush over both shards, late entries, crash, recovery walk.
func (r *gridRun) scriptedRound() {
	for li := range r.keys {
		r.opAppend(li, li%3, li%2)
		r.opAppend(li, (li+1)%3, 0)
	}
	r.applyAll()
	if r.stop() {
		return
	}
	shards, fams, req := []tsdb.Shard{}, [][]tsdb.DataFamily{}, []string{}
	for s := 0; s < r.nShards; s++ {
		shards = append(shards, r.n.shards[s])
		fams = append(fams, r.n.fams[s])
		req = append(req, fmt.Sprintf("%d:0,1", s))
	}
	if !r.guard("doFlush", func() error { tsdb.VerifDoFlushShards(r.n.db, shards, fams); return nil }) {
		return
	}
	r.dirty = map[[2]int]bool{}
	r.c.Op("round "+strings.Join(req, " "), r.n.P())
	r.c.Branch("grid-doFlush-round")
	r.c.Branch("grid-doFlush-round-several-shards")
	r.opAppend(0, 2, 1)
	r.opAppend(len(r.keys)-1, 2, 1)
	r.opApply(0)
	if r.stop() {
		return
	}
	r.opCrash(3)
}

// scripted 1: the WAL garbage collector over all partitions: family hour 0 is past its window; one of its logs
// is consumed but NOT flushed (must stay), the others are flushed and acknowledged (may go), hour 1 is inside
// its window (must stay); crash; recovery.
func (r *gridRun) scriptedGC() {
	late := -1
	for li, k := range r.keys {
		r.opAppend(li, li%3, 0)
		if k.f == 0 && late < 0 {
			late = li
		}
	}
	r.applyAll()
	if r.stop() {
		return
	}
	for s := 0; s < r.nShards && !r.stop(); s++ {
		for f := range r.famTimes {
			if !r.stop() {
				r.opFamFlush(s, f, gNone)
			}
		}
	}
	if r.stop() {
		return
	}
	r.opAppend(late, 1, 1)
	r.opApply(late)
	if r.stop() {
		return
	}
	r.opGC()
}

// scripted 2..: failing flush, more entries in another partition of the SAME family (two leaders), Close of that
// family with a crash point, the other families keep unflushed rows.
func (r *gridRun) scriptedClose(rec, at int) {
	for li := range r.keys {
		r.opAppend(li, li%3, li%2)
	}
	r.applyAll()
	if r.stop() {
		return
	}
	r.opFamFail(0, 0)
	if r.stop() {
		return
	}
	// the history continues: the follower's log of the same family and another family of the shard get entries
	r.opAppend(1, 2, 1)
	r.opAppend(2, 2, 1)
	r.applyAll()
	if r.stop() {
		return
	}
	r.opClose(0, 0, rec, at)
}

func (r *gridRun) scriptedShutdown(target, at int) {
	for li, k := range r.keys {
		if target >= 0 && k.s == target && k.f != 1 {
			continue // exactly one dirty family in the target shard
		}
		r.opAppend(li, li%3, li%2)
		r.opAppend(li, 2, 1)
	}
	r.applyAll()
	if r.stop() {
		return
	}
	r.opShutdown(target, at)
}

func (r *gridRun) randomCase() {
	nOps := 10 + r.rng.Intn(10)
	crashes := 0
	for i := 0; i < nOps && !r.stop(); i++ {
		x := r.rng.Intn(100)
		switch {
		case x < 36:
			r.opAppend(r.randLane(), r.rng.Intn(4), r.rng.Intn(3))
		case x < 62:
			li := r.randLane()
			if !r.lanePending(li) {
				for j := range r.keys {
					if r.lanePending(j) {
						li = j
						break
					}
				}
			}
			r.opApply(li)
		case x < 70:
			r.opRound()
		case x < 78:
			at := gNone
			if crashes < 3 && r.rng.Intn(2) == 0 {
				at = gPre + r.rng.Intn(3)
				crashes++
			}
			s, f := r.randFamily()
			r.opFamFlush(s, f, at)
		case x < 82:
			s, f := r.randFamily()
			r.opFamFail(s, f)
		case x < 86:
			if crashes < 3 {
				crashes++
				s, f := r.randFamily()
				r.opClose(s, f, r.rng.Intn(2), gPre+r.rng.Intn(3))
			}
		case x < 90:
			r.opGC()
		case x < 93:
			if crashes < 3 {
				crashes++
				if r.rng.Intn(2) == 0 {
					r.opShutdown(-1, gNone)
				} else {
					r.opShutdown(r.rng.Intn(r.nShards), gPre+r.rng.Intn(2))
				}
			}
		default:
			if crashes < 3 {
				crashes++
				stopAt := 0
				if r.rng.Intn(2) == 0 {
					stopAt = 1 + r.rng.Intn(len(r.keys))
				}
				r.opCrash(stopAt)
			}
		}
	}
	if crashes == 0 && !r.stop() {
		r.opCrash(0)
	}
}

func (gridArea) Run(c *core.Ctx) error {
	now := time.Now().UnixMilli()
	hour := now - now%3600000
	for i := 0; i < c.N; i++ {
		if !c.Want(i) {
			continue
		}
		c.Begin(i)
		r := &gridRun{c: c, rng: c.Rng(i), famTimes: []int64{hour - 6*3600000, hour}, nShards: 2,
			ids: map[int64][]ids{}, dirty: map[[2]int]bool{}, pending: map[[2]int]bool{}}
		// walk order: shard, family hour, leader. Family (0, 0) and (1, 1) also hold a follower's log (leader 2).
		r.keys = []gkey{{0, 0, 1}, {0, 0, 2}, {0, 1, 1}, {1, 0, 1}, {1, 1, 1}}
		if i%3 == 1 {
			r.keys = append(r.keys, gkey{1, 1, 2})
		}
		r.perLane = make([][]int, len(r.keys))
		func() {
			defer r.cleanup()
			if !r.start() {
				return
			}
			switch {
			case i == 0:
				c.Branch("grid-scripted-round")
				r.scriptedRound()
			case i == 1:
				c.Branch("grid-scripted-wal-gc")
				r.scriptedGC()
			case i >= 2 && i <= 5:
				c.Branch("grid-scripted-close")
				x := [][2]int{{0, gMid}, {0, gPost}, {1, gPre}, {1, gMid}}[i-2]
				r.scriptedClose(x[0], x[1])
			case i >= 6 && i <= 8:
				c.Branch("grid-scripted-shutdown")
				x := [][2]int{{-1, gNone}, {0, gPre}, {1, gMid}}[i-6]
				r.scriptedShutdown(x[0], x[1])
			default:
				c.Branch("grid-random")
				r.randomCase()
			}
			r.finish()
		}()
		c.Flush()
	}
	return nil
}
