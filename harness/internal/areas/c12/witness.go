package c12

import (
	"fmt"

	"github.com/lindb/lindb/aggregation/function"
	"github.com/lindb/lindb/series/field"

	"github.com/lindb/lindb/zzverif/internal/core"
)

// Deterministic witness cases (case index = position): each replays one confirmed finding on the
// real code every run and reports it under a stable key (known_findings.json). The same worlds
// are the `Neg` theorems of LinVerif/Props/C12.lean.
var witnesses = []func(c *core.Ctx){witnessArrivalOrder, witnessMissingField, witnessLastField, witnessTwoFunctions}

func twoSeriesWorld(types ...field.Type) *World {
	w := &World{TagKeys: []string{"host"}}
	for i, t := range types {
		w.Fields = append(w.Fields, FieldDef{Name: fmt.Sprintf("f%d", i+1), Type: t})
	}
	for _, h := range []string{"a", "b"} {
		w.Series = append(w.Series, SeriesDef{Tags: []string{h}, Hash: seriesHash(w.TagKeys, []string{h})})
	}
	return w
}

func ftypesOf(w *World) map[string]field.Type {
	m := map[string]field.Type{}
	for _, f := range w.Fields {
		m[f.Name] = f.Type
	}
	return m
}

func twoLeaves(kfA, kfB []int) []*LeafDef {
	return []*LeafDef{
		{Name: "leafA", Shards: [][]int{{0}}, KnownFields: kfA},
		{Name: "leafB", Shards: [][]int{{1}}, KnownFields: kfB},
	}
}

// (a) `select *`, f2 was only ever written to the series living on leaf B (schemas are
// node-local): the root's answer has f2 iff B's response is handled first.
func witnessArrivalOrder(c *core.Ctx) {
	w := twoSeriesWorld(field.SumField, field.SumField)
	w.Points = []Point{{0, 0, 1, 5}, {1, 0, 1, 7}, {1, 1, 2, 3}}
	q := &QueryDef{AllFields: true, NumSlots: 4, Limit: 100, ftypes: ftypesOf(w)}
	ab := runLayout(c, w, q, &Layout{Leaves: twoLeaves([]int{0}, []int{0, 1}), LeafPerm: [][]int{{0, 1}}}, true, 0)
	ba := runLayout(c, w, q, &Layout{Leaves: twoLeaves([]int{0}, []int{0, 1}), LeafPerm: [][]int{{1, 0}}}, true, 10)
	c.NonTrivial()
	if ab.res.rowsLine() != ba.res.rowsLine() {
		c.Fail("select-all-node-local-schema-arrival-order",
			fmt.Sprintf("leaf A reports specs [f1], leaf B [f1 f2]; A first: %q, B first: %q", ab.res.rowsLine(), ba.res.rowsLine()))
	}
}

// (b) `select f1, f2`: leaf A never saw f2, its metadata lookup fails with "field not found",
// the root tolerates that by dropping A's whole response - including A's f1 data. The same points
// on one node answer completely.
func witnessMissingField(c *core.Ctx) {
	w := twoSeriesWorld(field.SumField, field.SumField)
	w.Points = []Point{{0, 0, 1, 5}, {1, 0, 1, 7}, {1, 1, 2, 3}}
	q := &QueryDef{Selects: []SelectDef{{"f1", function.Unknown}, {"f2", function.Unknown}}, NumSlots: 4, Limit: 100, ftypes: ftypesOf(w)}
	single := runLayout(c, w, q, reference(w), true, 0)
	split := runLayout(c, w, q, &Layout{Leaves: twoLeaves([]int{0}, []int{0, 1}), LeafPerm: [][]int{{0, 1}}}, true, 10)
	c.NonTrivial()
	if single.res.rowsLine() != split.res.rowsLine() {
		c.Fail("leaf-without-one-selected-field-loses-its-other-fields",
			fmt.Sprintf("one node: %q; series a on a node that never saw f2: %q", single.res.rowsLine(), split.res.rowsLine()))
	}
}

// (c) a last-type field, two series on two leaves with a value in the same slot, no group by:
// AggType.Aggregate(Last) keeps the incoming value, so the answer is whatever arrived last.
func witnessLastField(c *core.Ctx) {
	w := twoSeriesWorld(field.LastField)
	w.Points = []Point{{0, 0, 1, 100}, {1, 0, 1, 200}}
	q := &QueryDef{Selects: []SelectDef{{"f1", function.Unknown}}, NumSlots: 4, Limit: 100, ftypes: ftypesOf(w)}
	ab := runLayout(c, w, q, &Layout{Leaves: twoLeaves([]int{0}, []int{0}), LeafPerm: [][]int{{0, 1}}}, true, 0)
	ba := runLayout(c, w, q, &Layout{Leaves: twoLeaves([]int{0}, []int{0}), LeafPerm: [][]int{{1, 0}}}, true, 10)
	c.NonTrivial()
	if ab.res.rowsLine() != ba.res.rowsLine() {
		c.Fail("last-field-same-slot-two-leaves-arrival-order",
			fmt.Sprintf("A then B: %q, B then A: %q", ab.res.rowsLine(), ba.res.rowsLine()))
	}
}

// (d) two functions on one field (`select sum(f1), min(f1) ... group by host`): the field's
// aggregator has two kinds and fieldAggregator.Aggregate feeds every incoming primitive series
// into both, so every additional merge level changes the numbers: with an intermediate node the
// answer differs from the answer without.
func witnessTwoFunctions(c *core.Ctx) {
	w := twoSeriesWorld(field.SumField)
	w.Points = []Point{{0, 0, 1, 5}, {1, 0, 1, 7}}
	q := &QueryDef{Selects: []SelectDef{{"f1", function.Sum}, {"f1", function.Min}}, GroupBy: []int{0}, NumSlots: 4, Limit: 100, ftypes: ftypesOf(w)}
	direct := runLayout(c, w, q, reference(w), true, 0)
	viaIM := reference(w)
	viaIM.Receivers = 1
	inter := runLayout(c, w, q, viaIM, true, 10)
	c.NonTrivial()
	if direct.res.rowsLine() != inter.res.rowsLine() {
		c.Fail("two-functions-on-one-field-intermediate-changes-answer",
			fmt.Sprintf("leaf->root: %q, leaf->intermediate->root: %q", direct.res.rowsLine(), inter.res.rowsLine()))
	}
}
