package c12

import (
	"context"
	"fmt"
	"time"

	"github.com/lindb/lindb/aggregation/function"
	"github.com/lindb/lindb/flow"
	"github.com/lindb/lindb/models"
	protoCommonV1 "github.com/lindb/lindb/proto/gen/v1/common"
	"github.com/lindb/lindb/query"
	querycontext "github.com/lindb/lindb/query/context"
	"github.com/lindb/lindb/series/field"

	"github.com/lindb/lindb/zzverif/internal/core"
)

// Deterministic witness cases (case index = position): each replays one confirmed finding on the
// real code every run and reports it under a stable key (known_findings.json). The same worlds
// are the `Neg` theorems of LinVerif/Props/C12.lean.
var witnesses = []func(c *core.Ctx){witnessArrivalOrder, witnessMissingField, witnessLastField, witnessTwoFunctions, witnessReceiveOnly, witnessArrivalOrderL2, witnessMissingFieldL2,
	witnessErrorBeforeComplete, fixedNotFoundLast, fixedLimitSpread, fixedEmptyLeafCounts, fixedCloseKeys, fixedHaving, fixedManyBrokers, fixedIdleLeaf, fixedTwoAggGaps, fixedWhereDisjointValues, witnessNotComposite, fixedRaggedGroupBy, fixedHighContainer, witnessAutoGroupByTimeRollup, witnessRangeAcrossThreshold}

func twoSeriesWorld(types ...field.Type) *World {
	w := &World{TagKeys: []string{"host"}}
	for i, t := range types {
		w.Fields = append(w.Fields, FieldDef{Name: fmt.Sprintf("f%d", i+1), Type: t})
	}
	for _, h := range []string{"a", "b"} {
		w.Series = append(w.Series, SeriesDef{Tags: []string{h}, Hash: seriesHash(w.TagKeys, []string{h})})
	}
	return w
}

func ftypesOf(w *World) map[string]field.Type {
	m := map[string]field.Type{}
	for _, f := range w.Fields {
		m[f.Name] = f.Type
	}
	return m
}

func twoLeaves(kfA, kfB []int) []*LeafDef {
	return []*LeafDef{
		{Name: "leafA", Shards: [][]int{{0}}, KnownFields: kfA},
		{Name: "leafB", Shards: [][]int{{1}}, KnownFields: kfB},
	}
}

// (a) `select *`, f2 was only ever written to the series living on leaf B (schemas are
// node-local): the root's answer has f2 iff B's response is handled first.
func witnessArrivalOrder(c *core.Ctx) {
	w := twoSeriesWorld(field.SumField, field.SumField)
	w.Points = []Point{{0, 0, 1, 5}, {1, 0, 1, 7}, {1, 1, 2, 3}}
	q := &QueryDef{AllFields: true, NumSlots: 4, Limit: 100, ftypes: ftypesOf(w)}
	ab := runLayout(c, w, q, &Layout{Leaves: twoLeaves([]int{0}, []int{0, 1}), LeafPerm: [][]int{{0, 1}}}, true, 0)
	ba := runLayout(c, w, q, &Layout{Leaves: twoLeaves([]int{0}, []int{0, 1}), LeafPerm: [][]int{{1, 0}}}, true, 10)
	c.NonTrivial()
	if ab.res.rowsLine() != ba.res.rowsLine() {
		c.Fail("select-all-node-local-schema-arrival-order",
			fmt.Sprintf("leaf A reports specs [f1], leaf B [f1 f2]; A first: %q, B first: %q", ab.res.rowsLine(), ba.res.rowsLine()))
	}
}

// (b) `select f1, f2`: leaf A never saw f2, its metadata lookup fails with "field not found",
// the root tolerates that by dropping A's whole response - including A's f1 data. The same points
// on one node answer completely.
func witnessMissingField(c *core.Ctx) {
	w := twoSeriesWorld(field.SumField, field.SumField)
	w.Points = []Point{{0, 0, 1, 5}, {1, 0, 1, 7}, {1, 1, 2, 3}}
	q := &QueryDef{Selects: []SelectDef{{"f1", function.Unknown}, {"f2", function.Unknown}}, NumSlots: 4, Limit: 100, ftypes: ftypesOf(w)}
	single := runLayout(c, w, q, reference(w), true, 0)
	split := runLayout(c, w, q, &Layout{Leaves: twoLeaves([]int{0}, []int{0, 1}), LeafPerm: [][]int{{0, 1}}}, true, 10)
	c.NonTrivial()
	if single.res.rowsLine() != split.res.rowsLine() {
		c.Fail("leaf-without-one-selected-field-loses-its-other-fields",
			fmt.Sprintf("one node: %q; series a on a node that never saw f2: %q", single.res.rowsLine(), split.res.rowsLine()))
	}
}

// (c) a last-type field, two series on two leaves with a value in the same slot, no group by:
// AggType.Aggregate(Last) keeps the incoming value, so the answer is whatever arrived last.
func witnessLastField(c *core.Ctx) {
	w := twoSeriesWorld(field.LastField)
	w.Points = []Point{{0, 0, 1, 100}, {1, 0, 1, 200}}
	q := &QueryDef{Selects: []SelectDef{{"f1", function.Unknown}}, NumSlots: 4, Limit: 100, ftypes: ftypesOf(w)}
	ab := runLayout(c, w, q, &Layout{Leaves: twoLeaves([]int{0}, []int{0}), LeafPerm: [][]int{{0, 1}}}, true, 0)
	ba := runLayout(c, w, q, &Layout{Leaves: twoLeaves([]int{0}, []int{0}), LeafPerm: [][]int{{1, 0}}}, true, 10)
	c.NonTrivial()
	if ab.res.rowsLine() != ba.res.rowsLine() {
		c.Fail("last-field-same-slot-two-leaves-arrival-order",
			fmt.Sprintf("A then B: %q, B then A: %q", ab.res.rowsLine(), ba.res.rowsLine()))
	}
}

// (d) two functions on one field (`select sum(f1), min(f1) ... group by host`): the field's
// aggregator has two kinds and fieldAggregator.Aggregate feeds every incoming primitive series
// into both, so every additional merge level changes the numbers: with an intermediate node the
// answer differs from the answer without.
func witnessTwoFunctions(c *core.Ctx) {
	w := twoSeriesWorld(field.SumField)
	w.Points = []Point{{0, 0, 1, 5}, {1, 0, 1, 7}}
	q := &QueryDef{Selects: []SelectDef{{"f1", function.Sum}, {"f1", function.Min}}, GroupBy: []int{0}, NumSlots: 4, Limit: 100, ftypes: ftypesOf(w)}
	direct := runLayout(c, w, q, reference(w), true, 0)
	viaIM := reference(w)
	viaIM.Receivers = 1
	inter := runLayout(c, w, q, viaIM, true, 10)
	c.NonTrivial()
	if direct.res.rowsLine() != inter.res.rowsLine() {
		c.Fail("two-functions-on-one-field-intermediate-changes-answer",
			fmt.Sprintf("leaf->root: %q, leaf->intermediate->root: %q", direct.res.rowsLine(), inter.res.rowsLine()))
	}
}

// planChooser stands for the two lines of broker.stateManager.Choose that matter here: with more
// than one storage node and numOfNodes > 1 it answers flow.BuildPhysicalPlan over the live
// brokers (real function).
type planChooser struct{ live []models.StatelessNode }

func (p *planChooser) Choose(db string, numOfNodes int) ([]*models.PhysicalPlan, error) {
	return []*models.PhysicalPlan{flow.BuildPhysicalPlan(db, append([]models.StatelessNode(nil), p.live...), numOfNodes)}, nil
}

// (e) group-by query, two live brokers, more than one storage node: the root's plan (real
// RootMetricContext.MakePlan over real flow.BuildPhysicalPlan) has two intermediate targets and
// expects two responses, but only the first target runs the intermediate task; the second is
// ReceiveOnly and the real intermediateTaskProcessor.Process answers nothing for it. The root never
// completes (WaitResponse ends with the context deadline): an error instead of the answer a single
// broker gives.
func witnessReceiveOnly(c *core.Ctx) {
	w := twoSeriesWorld(field.SumField)
	// no points: which broker the plan's shuffle makes the working one (and hence which hash share
	// it gets) must not show in the protocol; the finding is about completion, not about data
	w.Points = nil
	q := &QueryDef{Selects: []SelectDef{{"f1", function.Unknown}}, GroupBy: []int{0}, NumSlots: 4, Limit: 100, ftypes: ftypesOf(w)}
	live := []models.StatelessNode{{HostIP: "1.1.1.1", GRPCPort: 9000}, {HostIP: "1.1.1.2", GRPCPort: 9000}}
	deps := &querycontext.RootMetricContextDeps{
		Ctx: context.Background(), Request: &models.Request{RequestID: "r1", DB: database}, Database: database,
		CurrentNode: live[0], Statement: q.statement(w), Choose: &planChooser{live: live},
	}
	root := querycontext.NewRootMetricContext(deps)
	root.SetTracker(newTracker())
	if err := root.MakePlan(); err != nil {
		panic(err)
	}
	reqs := root.GetRequests()
	c.Op(fmt.Sprintf("new 0 %d", len(reqs)), stateLine(&root.MetricContext))
	// every target handles the root's request with the real intermediate task processor
	answered := 0
	var targets []string
	for t := range reqs {
		targets = append(targets, t)
	}
	// deterministic order for the protocol (the plan's shuffle only decides WHICH broker works)
	if len(targets) == 2 && targets[0] > targets[1] {
		targets[0], targets[1] = targets[1], targets[0]
	}
	for _, t := range targets {
		plan := &models.PhysicalPlan{}
		if err := jsonUnmarshal(reqs[t].PhysicalPlan, plan); err != nil {
			panic(err)
		}
		var me *models.Target
		for _, tg := range plan.Targets {
			if tg.Indicator == t {
				me = tg
			}
		}
		if me == nil || !me.ReceiveOnly {
			// the working intermediate: real IntermediateMetricContext over one real leaf holding
			// everything, receivers = all targets (as processDataSearch sets them); it only ever
			// gets ITS share
			var recv []string
			for _, tg := range plan.Targets {
				recv = append(recv, tg.Indicator)
			}
			idx := 0
			for i, r := range recv {
				if r == t {
					idx = i
				}
			}
			leaf := reference(w).Leaves[0]
			rs, _, _, err := RunLeafPlan(w, q, leaf, recv)
			if err != nil {
				panic(err)
			}
			ic, err := NewIntermediate(w, q, t, []string{leaf.Name}, recv)
			if err != nil {
				panic(err)
			}
			ic.Ctx.HandleResponse(rs[idx], leaf.Name)
			resp := ic.Finish()
			root.HandleResponse(resp, t)
			c.Op("resp 0 "+encodeResp(resp), stateLine(&root.MetricContext))
			answered++
			continue
		}
		cur := models.StatelessNode{}
		for _, n := range live {
			if n.Indicator() == t {
				cur = n
			}
		}
		proc := query.NewIntermediateTaskProcessor(cur, time.Second, nil, nil, nil)
		st := &capStream{}
		taskCtx := flow.NewTaskContextWithTimeout(context.Background(), time.Second)
		err := proc.Process(taskCtx, st, reqs[t])
		taskCtx.Release()
		if err != nil || len(st.got) > 0 {
			// it answered (an error response is sent by TaskHandler.process when err != nil)
			resp := &protoCommonV1.TaskResponse{RequestID: "r1", Completed: true}
			if err != nil {
				resp.ErrMsg = err.Error()
			} else {
				resp = st.got[0]
			}
			root.HandleResponse(resp, t)
			c.Op("resp 0 "+encodeResp(resp), stateLine(&root.MetricContext))
			answered++
		}
	}
	res := &Root{Ctx: root}
	out := res.Finish()
	c.Op(q.resultOp(0), out.line(q, nil))
	c.NonTrivial()
	if out.Err == "pending" {
		c.Fail("group-by-two-brokers-receive-only-target-never-answers",
			fmt.Sprintf("plan has %d targets, %d answered; the root waits for the ReceiveOnly target until the deadline", len(reqs), answered))
	}
}

// writtenFields is the node-local schema real writes produce: the fields of the points of the
// node's series, in first-written order.
func writtenFields(w *World, leaf *LeafDef) []int {
	var out []int
	seen := map[int]bool{}
	for _, sh := range leaf.Shards {
		for _, s := range sh {
			for _, p := range w.Points {
				if p.Series == s && !seen[p.Field] {
					seen[p.Field] = true
					out = append(out, p.Field)
				}
			}
		}
	}
	return out
}

func l2TwoLeaves(w *World) []*LeafDef {
	ls := twoLeaves(nil, nil)
	for _, l := range ls {
		l.KnownFields = writtenFields(w, l)
	}
	return ls
}

// (a) at level 2: two real storage nodes; f2 is only ever written to the series on node B, so
// only B's real metadata database knows it. `select *` through the real leaf task processors.
func witnessArrivalOrderL2(c *core.Ctx) {
	w := twoSeriesWorld(field.SumField, field.SumField)
	w.Points = []Point{{0, 0, 1, 5}, {1, 0, 1, 7}, {1, 1, 2, 3}}
	q := &QueryDef{AllFields: true, NumSlots: 4, Limit: 100, ftypes: ftypesOf(w)}
	ab, err := runLayoutL2(c, w, q, &Layout{Leaves: l2TwoLeaves(w), LeafPerm: [][]int{{0, 1}}}, 0)
	if err != nil {
		panic(err)
	}
	ba, err := runLayoutL2(c, w, q, &Layout{Leaves: l2TwoLeaves(w), LeafPerm: [][]int{{1, 0}}}, 10)
	if err != nil {
		panic(err)
	}
	c.NonTrivial()
	c.Branch("level2")
	if ab.res.rowsLine() != ba.res.rowsLine() {
		c.Fail("select-all-node-local-schema-arrival-order",
			fmt.Sprintf("[real storage nodes] node A's schema has f1, node B's f1 and f2; A first: %q, B first: %q", ab.res.rowsLine(), ba.res.rowsLine()))
	}
}

// (b) at level 2: `select f1, f2`; the real metadata lookup on node A (which never saw f2) fails.
func witnessMissingFieldL2(c *core.Ctx) {
	w := twoSeriesWorld(field.SumField, field.SumField)
	w.Points = []Point{{0, 0, 1, 5}, {1, 0, 1, 7}, {1, 1, 2, 3}}
	q := &QueryDef{Selects: []SelectDef{{"f1", function.Unknown}, {"f2", function.Unknown}}, NumSlots: 4, Limit: 100, ftypes: ftypesOf(w)}
	ref := reference(w)
	ref.Leaves[0].KnownFields = writtenFields(w, ref.Leaves[0])
	single, err := runLayoutL2(c, w, q, ref, 0)
	if err != nil {
		panic(err)
	}
	split, err := runLayoutL2(c, w, q, &Layout{Leaves: l2TwoLeaves(w), LeafPerm: [][]int{{0, 1}}}, 10)
	if err != nil {
		panic(err)
	}
	c.NonTrivial()
	c.Branch("level2")
	if single.res.rowsLine() != split.res.rowsLine() {
		c.Fail("leaf-without-one-selected-field-loses-its-other-fields",
			fmt.Sprintf("[real storage nodes] one node: %q; series a on a node that never saw f2: %q", single.res.rowsLine(), split.res.rowsLine()))
	}
}

// fixed case: two aggregate types of ONE field over partial results with gaps. Series a reports in
// slots 0,2,4 (1,3,5), series b in slots 1,3,5 (2,4,6); `select max(f1), min(f1)`. On one node the
// merged series is dense; on two nodes each partial result has a gap before/between its values and
// carries two primitive series (min, max) over the wire. Direct, through one intermediate, and with
// group by host through two intermediates: the answer is the single node's.
func fixedTwoAggGaps(c *core.Ctx) {
	w := twoSeriesWorld(field.SumField)
	for k := 0; k < 3; k++ {
		w.Points = append(w.Points, Point{0, 0, 2 * k, int64(8 * (2*k + 1))}, Point{1, 0, 2*k + 1, int64(8 * (2*k + 2))})
	}
	for gi, gb := range [][]int{nil, {0}} {
		q := &QueryDef{Selects: []SelectDef{{"f1", function.Max}, {"f1", function.Min}}, GroupBy: gb, NumSlots: 6, Limit: 100, ftypes: ftypesOf(w)}
		ref := runLayout(c, w, q, reference(w), true, 40*gi)
		layouts := []*Layout{
			{Leaves: twoLeaves([]int{0}, []int{0}), LeafPerm: [][]int{{0, 1}}},
			{Leaves: twoLeaves([]int{0}, []int{0}), LeafPerm: [][]int{{1, 0}}},
		}
		if gb != nil {
			layouts = append(layouts,
				&Layout{Leaves: twoLeaves([]int{0}, []int{0}), Receivers: 1, LeafPerm: [][]int{{0, 1}}, RootPerm: []int{0}},
				&Layout{Leaves: twoLeaves([]int{0}, []int{0}), Receivers: 2, LeafPerm: [][]int{{0, 1}, {1, 0}}, RootPerm: []int{1, 0}})
		}
		for li, l := range layouts {
			got := runLayout(c, w, q, l, true, 40*gi+10*(li+1))
			if got.res.Err != ref.res.Err || got.res.rowsLine() != ref.res.rowsLine() {
				c.Fail("layout-changes-answer", fmt.Sprintf("max(f1), min(f1), alternating reporters a (slots 0,2,4) / b (slots 1,3,5), group by %v: single node %q (%s) / layout {%s} %q (%s)",
					gb, ref.res.rowsLine(), ref.res.Err, describeLayout(l), got.res.rowsLine(), got.res.Err))
			}
		}
	}
	c.NonTrivial()
}
